package main

// sub-harness `config` (C15): configuration sources merge in loader order; adding a source drops nothing.
//
//	scenario := ["EV" n (namehex value)^n] ["CF" | "OA" n (pathhex node)^n] opt* ("IN" opt*)* "|" path*
//	          | "GS" opt* (("GS" | "NA") opt*)* "|" path*     a PROCESS history (ninth round, see cfgRunProc): `GS` =
//	            app.Settings(the options up to the next mark) — registered for every App of the process —, `NA` = a new
//	            App: app.NewApp().Run(the options up to the next mark), then every path is read from that App
//	            `EV` = the ENVIRONMENT of the process holds these n variables for the duration of the scenario (value = hex of
//	            the text, or `*` = whatever the process has under that name — PATH, HOME, … exist anyway —, "x" when it has
//	            none).  The configuration is determined by the loaders alone: the model has no environment, its driver drops
//	            the prefix; oracle `config-env-leak` (see cfgRunEnv).
//	            `OA` = the command line of the PROCESS holds these n `--app.config=path=value` arguments (os.Args is set for
//	            the duration of the scenario): they are what the container's own default ArgsLoader(os.Args) reads
//	opt      := "SL" n loader^n   app.SetConfigLoader(…)        | "AL" n loader^n   app.AddConfigLoader(…)
//	          | "CA" n loader^n   option calling s.Configure.AddLoaders(…)
//	          | "SC" n loader^n   app.SetConfigure(fresh configure holding the loaders)
//	          | "SF" loader       app.SetConfig(file)           (loader is `f …` or `~ k`: the same path once more)
//	loader   := "r" out | "f" out | "p" int out | "o" int out  raw / file / Priority raw / Ordered raw (harness types)
//	          | "n" out                                        loader.NewFileLoader on a NAMED PIPE (ninth round, see cfgPipe):
//	                                                           out = node | "E"; no `=` / `~` reference to it, no `IN`, no `EV`
//	          | "a" n (pathhex node)^n                         loader.NewArgsLoader with n `--app.config=path=value`
//	          | "=" k                                          the very same loader value/object as the k-th loader of the line
//	          | "~" k                                          a new loader.NewFileLoader on the path of the k-th loader (an `f`)
//	out      := "E" (no bytes) | "X" (LoadConfig fails / file missing) | node
//	node     := "M" n (keyhex node)^n | "L" n node^n | "P"hex (plain scalar) | "Q"hex (quoted string) | "N" (null)
//	path     := hex of the dotted path, `-` = ""
//
// observation: one phase per Initialize, joined by " / ", ending at the first `err` / `panic`;
// phase := `err` | `panic` | per path  nil | s:<hex of %v> | list[n](e,…) | map{hexkey,…}
//
// Real code: app.NewApp().Run(app.LogLevel(syslog.LvPanic), options…), then App.Get(path).
//
// Several Initialize calls on ONE live App / Configure (`IN` = "Initialize now", tag `multi-init`): the options before
// the first `IN` are the arguments of Run (which initialises the configuration); every later batch is applied to the
// same running App through the public API (`opt(app)`: app.SetConfig / AddConfigLoader / SetConfigLoader /
// SetConfigure, app.Configure.AddLoaders) and followed by `app.Initialize()` (App embeds its Configure); every path is
// read after every Initialize.  With a leading `CF` the same history runs on a bare configure.NewConfigure() with a
// ViperBinder (no default ArgsLoader): SL = SetLoaders, AL / CA = AddLoaders, SF = AddLoaders(loader.NewFileLoader(path)).
// The property is evaluated after every Initialize on the loader list configured at that moment (signatures
// `reinit-…` from the second Initialize on): every configured source is consulted, for a key supplied by several
// configured sources the last one in loader sequence wins, a key supplied by a configured source is never missing.
// About a key that only a source REMOVED by a later set-type call supplied (the binder has no reset) the property
// says nothing and the oracle demands nothing; a key no source ever supplied shows nothing.
// The container's default ArgsLoader(os.Args) sees the harness's own command line, which never holds an
// `--app.config` argument, so it contributes nothing (the model's defaultLoader) — unless the line starts with `OA`
// (tag `cmdline`): then os.Args is replaced, for the duration of the scenario, by a command line holding the given
// `--app.config=path=value` arguments (half of them before, half after a positional argument, plus an unrelated flag
// behind it), and the default ArgsLoader is a source like any other: it is the loader every new App is born with, i.e.
// the FIRST loader that was added; every non-file loader added by an option comes later in the loader sequence and
// wins on a shared key, files come before it and lose (loader #0 in the oracle's messages, marker key m0).
//
// Oracles (on the real observations only; loader sequence and effective loader list computed from the
// property's wording, not from the model):
//   - last-wins: a path whose last defining document (in loader sequence) holds a leaf there shows that leaf;
//     a path whose last defining document holds a map shows a map with at least that document's keys;
//     a path no document defines shows nothing;
//     when an earlier document has a map and a later one a non-map at the path or one of its prefixes, a
//     mismatch is reported with the signature `map-then-scalar` (known finding KF-C15-1);
//   - every loader that is in the effective list (set replaces, add/file/Configure.AddLoaders append) is
//     consulted: its private marker key (when its document holds one) is visible (`add-discards` when it was
//     configured before a later add).
//
// Repeated documents: about one generated source set in five holds the same document twice (same bytes in two
// loaders of any kind, the same file path in two FileLoaders, or one loader object added twice) with a different
// document that overlaps in keys between the two positions of the effective loader sequence (tag `repeat-xyx`):
// the last one wins also when its content was merged before.
//
// Many loaders (tag `many-loaders`, cfgGenMany): the property quantifies over all numbers of loaders, so every 25th
// generated case (and three corpus lines) holds 12-40 loaders of mixed order classes, the priority/ordered ones
// also added AFTER none-ordered ones, with forced overlaps: loader #i defines the chain keys s<i> and s<i+1> (so
// every pair of neighbours shares a key) and most loaders define the common key `z`, each with its own value, next
// to the usual random trees and the private markers. The loader sequence of the property is a function of the
// classes and of the order of addition alone, whatever the number of loaders. A priority or ordered class with 13
// or more members never holds two equal Order() values (the property does not say how ties are broken; Go's
// sort.Slice keeps ties in place only up to 12 elements), smaller classes do hold ties.

import (
	"context"
	"fmt"
	"hash/fnv"
	"os"
	"os/exec"
	"path/filepath"
	"sort"
	"strconv"
	"strings"
	"syscall"
	"time"

	"github.com/go-kid/ioc/app"
	"github.com/go-kid/ioc/configure"
	"github.com/go-kid/ioc/configure/binder"
	"github.com/go-kid/ioc/configure/loader"
	"github.com/go-kid/ioc/syslog"
	"github.com/pkg/errors"

	"verifharness/internal/hx"
)

func init() {
	register(&Sub{Name: "config", Gen: cfgGen, Replay: cfgReplay, Corpus: cfgCorpus})
	// hidden: one process history (`GS` line) in THIS process; see cfgRunProc
	register(&Sub{Name: "configchild", Gen: func(*hx.Rng, int, string, *hx.Writer) {}, Replay: cfgProcHere})
}

// ---------------------------------------------------------------- scenario data

type cnode struct {
	kind  byte // 'M' 'L' 'P' 'Q' 'N'
	text  string
	keys  []string
	vals  []*cnode
	elems []*cnode
}

type cpair struct {
	path string
	val  *cnode
}

type cloader struct {
	kind  string // r f p o a
	order int
	out   byte // 'D' doc, 'E' empty, 'X' fail
	doc   *cnode
	pairs []cpair
	id    int
	ref   string // "" | "=" (same object as loader #to) | "~" (new FileLoader on the path of loader #to)
	to    int
}

type copt struct {
	op string
	ls []*cloader
}

func (n *cnode) toks(out *[]string) {
	switch n.kind {
	case 'M':
		*out = append(*out, "M", strconv.Itoa(len(n.keys)))
		for i, k := range n.keys {
			*out = append(*out, hx.Hex(k))
			n.vals[i].toks(out)
		}
	case 'L':
		*out = append(*out, "L", strconv.Itoa(len(n.elems)))
		for _, e := range n.elems {
			e.toks(out)
		}
	case 'N':
		*out = append(*out, "N")
	default:
		*out = append(*out, string(n.kind)+hx.Hex(n.text))
	}
}

func (l *cloader) toks(out *[]string) {
	if l.ref != "" {
		*out = append(*out, l.ref, strconv.Itoa(l.to))
		return
	}
	switch l.kind {
	case "a":
		*out = append(*out, "a", strconv.Itoa(len(l.pairs)))
		for _, p := range l.pairs {
			*out = append(*out, hx.Hex(p.path))
			p.val.toks(out)
		}
		return
	case "p", "o":
		*out = append(*out, l.kind, strconv.Itoa(l.order))
	default:
		*out = append(*out, l.kind)
	}
	switch l.out {
	case 'E':
		*out = append(*out, "E")
	case 'X':
		*out = append(*out, "X")
	default:
		l.doc.toks(out)
	}
}

func cfgScn(opts []copt, paths []string) string {
	var t []string
	for _, o := range opts {
		if o.op == "OA" {
			var lt []string
			o.ls[0].toks(&lt)
			t = append(t, "OA")
			t = append(t, lt[1:]...) // without the leading `a`
			continue
		}
		if o.op == "SF" || o.op == "IN" || o.op == "CF" || o.op == "GS" || o.op == "NA" {
			t = append(t, o.op)
		} else {
			t = append(t, o.op, strconv.Itoa(len(o.ls)))
		}
		for _, l := range o.ls {
			l.toks(&t)
		}
	}
	t = append(t, "|")
	for _, p := range paths {
		t = append(t, hx.Hex(p))
	}
	return strings.Join(t, " ")
}

// ---------------------------------------------------------------- scenario parser (replay)

type ctoks struct {
	t   []string
	pos int
	bad bool
	all []*cloader // the loaders of the line so far; loader #k is all[k-1]
}

func (c *ctoks) next() string {
	if c.pos >= len(c.t) {
		c.bad = true
		return ""
	}
	c.pos++
	return c.t[c.pos-1]
}

func (c *ctoks) num() int {
	n, err := strconv.Atoi(c.next())
	if err != nil || n < -1000 || n > 1000 {
		c.bad = true
		return 0
	}
	return n
}

func (c *ctoks) node() *cnode {
	if c.bad {
		return &cnode{kind: 'N'}
	}
	t := c.next()
	switch {
	case t == "N":
		return &cnode{kind: 'N'}
	case t == "M":
		n := &cnode{kind: 'M'}
		for k := c.num(); k > 0 && !c.bad; k-- {
			key, err := hx.UnHex(c.next())
			if err != nil {
				c.bad = true
			}
			n.keys = append(n.keys, key)
			n.vals = append(n.vals, c.node())
		}
		return n
	case t == "L":
		n := &cnode{kind: 'L'}
		for k := c.num(); k > 0 && !c.bad; k-- {
			n.elems = append(n.elems, c.node())
		}
		return n
	case len(t) >= 2 && (t[0] == 'P' || t[0] == 'Q'):
		s, err := hx.UnHex(t[1:])
		if err != nil {
			c.bad = true
		}
		return &cnode{kind: t[0], text: s}
	}
	c.bad = true
	return &cnode{kind: 'N'}
}

func (c *ctoks) loader() *cloader {
	l := c.loader1()
	l.id = len(c.all) + 1
	c.all = append(c.all, l)
	return l
}

func (c *ctoks) loader1() *cloader {
	l := &cloader{kind: c.next(), out: 'D'}
	switch l.kind {
	case "=", "~":
		ref, k := l.kind, c.num()
		if c.bad || k < 1 || k > len(c.all) || (ref == "~" && c.all[k-1].kind != "f") || c.all[k-1].kind == "n" {
			c.bad = true
			return l
		}
		cp := *c.all[k-1]
		cp.ref, cp.to = ref, k
		return &cp
	case "a":
		for k := c.num(); k > 0 && !c.bad; k-- {
			p, err := hx.UnHex(c.next())
			if err != nil {
				c.bad = true
			}
			l.pairs = append(l.pairs, cpair{p, c.node()})
		}
		return l
	case "p", "o":
		l.order = c.num()
	case "r", "f", "n":
	default:
		c.bad = true
		return l
	}
	if c.pos < len(c.t) && (c.t[c.pos] == "E" || c.t[c.pos] == "X") {
		l.out = c.next()[0]
	} else {
		l.doc = c.node()
	}
	if l.kind == "n" && l.out == 'X' {
		c.bad = true // a pipe that does not exist is a file that does not exist: `f X`
	}
	return l
}

func cfgParse(scn string) ([]copt, []string, bool) {
	c := &ctoks{t: strings.Split(scn, " ")}
	var opts []copt
	for !c.bad {
		op := c.next()
		if op == "|" {
			break
		}
		o := copt{op: op}
		switch op {
		case "CF":
			if len(opts) != 0 {
				c.bad = true
			}
		case "OA":
			if len(opts) != 0 {
				c.bad = true
			}
			l := &cloader{kind: "a", out: 'D', id: 0}
			for k := c.num(); k > 0 && !c.bad; k-- {
				p, err := hx.UnHex(c.next())
				if err != nil {
					c.bad = true
				}
				l.pairs = append(l.pairs, cpair{p, c.node()})
			}
			o.ls = []*cloader{l} // loader #0: not one of the numbered loaders of the line
		case "IN", "GS", "NA":
		case "SF":
			o.ls = []*cloader{c.loader()}
			if (o.ls[0].kind != "f" && o.ls[0].kind != "n") || o.ls[0].ref == "=" {
				c.bad = true
			}
		case "SL", "AL", "CA", "SC":
			if op == "SC" && len(opts) > 0 && opts[0].op == "CF" {
				c.bad = true // there is no App whose Configure could be replaced
			}
			for k := c.num(); k > 0 && !c.bad; k-- {
				o.ls = append(o.ls, c.loader())
			}
		default:
			c.bad = true
		}
		opts = append(opts, o)
	}
	var paths []string
	for c.pos < len(c.t) && !c.bad {
		p, err := hx.UnHex(c.next())
		if err != nil {
			c.bad = true
		}
		paths = append(paths, p)
	}
	if !c.bad && !cfgLineForm(opts) {
		c.bad = true
	}
	return opts, paths, !c.bad
}

// cfgIsProc: a process history (`GS … NA …`)
func cfgIsProc(opts []copt) bool { return len(opts) > 0 && opts[0].op == "GS" }

// cfgHasPipe: one of the loaders is a FileLoader on a named pipe
func cfgHasPipe(opts []copt) bool {
	for _, o := range opts {
		for _, l := range o.ls {
			if l.kind == "n" {
				return true
			}
		}
	}
	return false
}

// cfgLineForm: the marks of a line fit together.  A process history starts with `GS`, holds at least one `NA`, no
// `IN` / `CF` / `OA`, no named pipe (every App would read it) and no SetConfigure among the registered options (ONE
// Configure object shared by all Apps of the process is another matter); `GS` / `NA` stand nowhere else.  A named pipe
// delivers its content once: no second Initialize.
func cfgLineForm(opts []copt) bool {
	proc, pipe := cfgIsProc(opts), cfgHasPipe(opts)
	apps, global := 0, false
	for _, o := range opts {
		switch o.op {
		case "GS":
			if !proc {
				return false
			}
			global = true
		case "NA":
			if !proc {
				return false
			}
			apps++
			global = false
		case "IN":
			if proc || pipe {
				return false
			}
		case "CF", "OA":
			if proc {
				return false
			}
		case "SC":
			if global {
				return false
			}
		}
	}
	return !proc || (apps > 0 && !pipe)
}

// ---------------------------------------------------------------- YAML text of a document

// style bits are drawn from a PRNG seeded by the document's own tokens, so a replay writes the same bytes
func yamlFlow(n *cnode, sb *strings.Builder) {
	switch n.kind {
	case 'M':
		sb.WriteString("{")
		for i, k := range n.keys {
			if i > 0 {
				sb.WriteString(", ")
			}
			sb.WriteString(k + ": ")
			yamlFlow(n.vals[i], sb)
		}
		sb.WriteString("}")
	case 'L':
		sb.WriteString("[")
		for i, e := range n.elems {
			if i > 0 {
				sb.WriteString(", ")
			}
			yamlFlow(e, sb)
		}
		sb.WriteString("]")
	case 'N':
		sb.WriteString("~")
	case 'Q':
		sb.WriteString(strconv.Quote(n.text))
	default:
		sb.WriteString(n.text)
	}
}

func yamlBlock(n *cnode, indent int, r *hx.Rng, sb *strings.Builder) {
	pad := strings.Repeat("  ", indent)
	for i, k := range n.keys {
		v := n.vals[i]
		switch {
		case v.kind == 'M' && len(v.keys) > 0 && r.P(2, 3):
			sb.WriteString(pad + k + ":\n")
			yamlBlock(v, indent+1, r, sb)
		case v.kind == 'L' && len(v.elems) > 0 && r.P(1, 2):
			sb.WriteString(pad + k + ":\n")
			for _, e := range v.elems {
				sb.WriteString(pad + "  - ")
				yamlFlow(e, sb)
				sb.WriteString("\n")
			}
		case v.kind == 'N' && r.P(1, 2):
			sb.WriteString(pad + k + ": null\n")
		default:
			sb.WriteString(pad + k + ": ")
			yamlFlow(v, sb)
			sb.WriteString("\n")
		}
	}
}

func yamlOf(n *cnode) string {
	var t []string
	n.toks(&t)
	h := fnv.New64a()
	h.Write([]byte(strings.Join(t, " ")))
	r := hx.NewRng(h.Sum64())
	var sb strings.Builder
	if n.kind != 'M' || len(n.keys) == 0 || r.P(1, 4) {
		yamlFlow(n, &sb)
		sb.WriteString("\n")
	} else {
		yamlBlock(n, 0, r, &sb)
	}
	return sb.String()
}

func argText(n *cnode) string {
	switch n.kind {
	case 'Q':
		return "\"" + n.text + "\""
	case 'L':
		var parts []string
		for _, e := range n.elems {
			parts = append(parts, argText(e))
		}
		return "[" + strings.Join(parts, ",") + "]"
	}
	return n.text
}

// ---------------------------------------------------------------- harness loader types

type cfgPrioRaw struct {
	order int
	data  []byte
	fail  bool
}

func (l *cfgPrioRaw) Priority()  {}
func (l *cfgPrioRaw) Order() int { return l.order }
func (l *cfgPrioRaw) LoadConfig() ([]byte, error) {
	if l.fail {
		return nil, errors.New("harness: failing loader")
	}
	return l.data, nil
}

type cfgOrdRaw struct {
	order int
	data  []byte
	fail  bool
}

func (l *cfgOrdRaw) Order() int { return l.order }
func (l *cfgOrdRaw) LoadConfig() ([]byte, error) {
	if l.fail {
		return nil, errors.New("harness: failing loader")
	}
	return l.data, nil
}

type cfgFailRaw struct{}

func (cfgFailRaw) LoadConfig() ([]byte, error) { return nil, errors.New("harness: failing loader") }

// ---------------------------------------------------------------- running the real code

type cfgEnv struct {
	dir   string
	seq   int
	objs  map[int]configure.Loader // per case: loader #id as handed to the real code
	paths map[int]string           // per case: the file path of file loader #id
	pipes []*cfgPipe               // per case: the named pipes that were made
}

// cfgPipe: a named pipe in the harness's scratch directory (os.TempDir, never the library or the verification tree) and
// the goroutine that feeds it: it opens the pipe for writing — which blocks until somebody opens it for reading, i.e.
// until FileLoader.LoadConfig gets there —, writes the document once and closes, so the reader meets the end of the
// input after exactly the document's bytes, as with a file.  (A pipe reports size 0 whatever it holds; what a source
// supplies is what can be READ from it.)  A pipe delivers once: the generator and the parser keep it to lines on which
// it is read at most once (one Initialize, no second loader on the same path).
type cfgPipe struct {
	path string
	done chan struct{}
}

func (e *cfgEnv) mkPipe(p string, data []byte) {
	if err := syscall.Mkfifo(p, 0o600); err != nil {
		panic("harness config: mkfifo: " + err.Error())
	}
	pp := &cfgPipe{path: p, done: make(chan struct{})}
	go func() {
		defer close(pp.done)
		f, err := os.OpenFile(p, os.O_WRONLY, 0)
		if err != nil {
			return
		}
		_, _ = f.Write(data) // a reader that has gone already: EPIPE, nothing to do
		_ = f.Close()
	}()
	e.pipes = append(e.pipes, pp)
}

// closePipes ends the writers of the case (one that nobody read from — the loader was replaced by a set-type option, or
// the walk stopped at an earlier failing loader — is still waiting in open) and removes the pipes: opening a FIFO
// read-write never blocks on Linux and lets a waiting writer (or reader) through.
func (e *cfgEnv) closePipes() {
	for _, pp := range e.pipes {
		fd, err := syscall.Open(pp.path, syscall.O_RDWR|syscall.O_NONBLOCK, 0)
		select {
		case <-pp.done:
		case <-time.After(5 * time.Second):
		}
		if err == nil {
			_ = syscall.Close(fd)
		}
		_ = os.Remove(pp.path)
	}
	e.pipes = nil
}

func newCfgEnv() *cfgEnv {
	d, err := os.MkdirTemp("", "iocverif-config-")
	if err != nil {
		panic(err)
	}
	return &cfgEnv{dir: d}
}

func (e *cfgEnv) close() { os.RemoveAll(e.dir) }

func (e *cfgEnv) filePath(l *cloader) string {
	p := e.filePath1(l)
	e.paths[l.id] = p
	return p
}

func (e *cfgEnv) filePath1(l *cloader) string {
	if l.ref != "" {
		return e.paths[l.to]
	}
	e.seq++
	p := filepath.Join(e.dir, fmt.Sprintf("c%d_%d.yaml", e.seq, l.id))
	if l.kind == "n" {
		var data []byte
		if l.out == 'D' {
			data = []byte(yamlOf(l.doc))
		}
		p += ".fifo"
		e.mkPipe(p, data)
		return p
	}
	switch l.out {
	case 'X':
		return p + ".missing"
	case 'E':
		_ = os.WriteFile(p, nil, 0o644)
	default:
		_ = os.WriteFile(p, []byte(yamlOf(l.doc)), 0o644)
	}
	return p
}

func (e *cfgEnv) realLoader(l *cloader) configure.Loader {
	var o configure.Loader
	if l.ref == "=" {
		o = e.objs[l.to]
		if l.kind == "f" {
			e.paths[l.id] = e.paths[l.to]
		}
	} else {
		o = e.realLoader1(l)
	}
	e.objs[l.id] = o
	return o
}

func (e *cfgEnv) realLoader1(l *cloader) configure.Loader {
	var data []byte
	if l.out == 'D' && l.kind != "a" {
		data = []byte(yamlOf(l.doc))
	}
	switch l.kind {
	case "f", "n":
		return loader.NewFileLoader(e.filePath(l))
	case "p":
		return &cfgPrioRaw{order: l.order, data: data, fail: l.out == 'X'}
	case "o":
		return &cfgOrdRaw{order: l.order, data: data, fail: l.out == 'X'}
	case "a":
		args := []string{"prog", "-v", "positional"}
		for _, p := range l.pairs {
			args = append(args, "--app.config="+p.path+"="+argText(p.val))
		}
		args = append(args, "--other=1")
		return loader.NewArgsLoader(args)
	}
	if l.out == 'X' {
		return cfgFailRaw{}
	}
	return loader.NewRawLoader(data)
}

func canonVal(v any) string {
	switch t := v.(type) {
	case nil:
		return "nil"
	case map[string]any:
		keys := make([]string, 0, len(t))
		for k := range t {
			keys = append(keys, k)
		}
		return canonKeys(keys)
	case map[any]any:
		keys := make([]string, 0, len(t))
		for k := range t {
			keys = append(keys, fmt.Sprint(k))
		}
		return canonKeys(keys)
	case []any:
		parts := make([]string, len(t))
		for i, e := range t {
			parts[i] = canonVal(e)
		}
		return fmt.Sprintf("list[%d](%s)", len(t), strings.Join(parts, ","))
	}
	return "s:" + hx.Hex(fmt.Sprintf("%v", v))
}

func canonKeys(keys []string) string {
	sort.Strings(keys)
	for i := range keys {
		keys[i] = hx.Hex(keys[i])
	}
	return "map{" + strings.Join(keys, ",") + "}"
}

// cfgSplit: the batches of options between the `IN` marks (k marks → k+1 batches), and whether the line runs on a bare
// Configure (`CF`) instead of an App
func cfgSplit(opts []copt) (bare bool, phases [][]copt) {
	phases = [][]copt{nil}
	for _, o := range opts {
		switch o.op {
		case "CF":
			bare = true
		case "OA":
		case "IN":
			phases = append(phases, nil)
		default:
			phases[len(phases)-1] = append(phases[len(phases)-1], o)
		}
	}
	return bare, phases
}

// cfgCmdline: the loader the default ArgsLoader(os.Args) of a new App is under this line's command line (`OA`), nil
// when the line has none (the harness's own command line: no --app.config argument, an empty source)
func cfgCmdline(opts []copt) *cloader {
	if len(opts) > 0 && opts[0].op == "OA" {
		return opts[0].ls[0]
	}
	return nil
}

// cfgOsArgs: the process command line of an `OA` line: the first half of the --app.config arguments, a positional
// argument (flag.Parse, which app.NewApp defers, stops there), the other half and an unrelated flag
func cfgOsArgs(l *cloader) []string {
	args := []string{"prog"}
	half := (len(l.pairs) + 1) / 2
	for i, p := range l.pairs {
		if i == half {
			args = append(args, "positional")
		}
		args = append(args, "--app.config="+p.path+"="+argText(p.val))
	}
	if len(l.pairs) <= half {
		args = append(args, "positional")
	}
	return append(args, "--other=1")
}

// one option of a line with its real loader values: as an App option and as a call on a bare Configure
type cfgRealOpt struct {
	app  app.SettingOption
	bare func(c configure.Configure)
}

func cfgRun(env *cfgEnv, opts []copt, paths []string, tags []string, w *hx.Writer) {
	if cfgIsProc(opts) {
		cfgRunProc(opts, paths, tags, w)
		return
	}
	c := hx.Case{Scn: cfgScn(opts, paths), Tags: tags}
	obs, gots, panText := cfgExec(env, opts, paths)
	c.Obs = strings.Join(obs, " / ")
	c.Oracle = cfgOracle(opts, paths, gots, obs, panText)
	w.Put(c)
}

// realOpts: the options of one batch with their real loader values
func (env *cfgEnv) realOpts(ph []copt) (out []cfgRealOpt) {
	for _, o := range ph {
		var ls []configure.Loader
		if o.op != "SF" {
			for _, l := range o.ls {
				ls = append(ls, env.realLoader(l))
			}
		}
		var ro cfgRealOpt
		switch o.op {
		case "SL":
			ro.app = app.SetConfigLoader(ls...)
			ro.bare = func(c configure.Configure) { c.SetLoaders(ls...) }
		case "AL":
			ro.app = app.AddConfigLoader(ls...)
			ro.bare = func(c configure.Configure) { c.AddLoaders(ls...) }
		case "CA":
			ro.app = func(s *app.App) { s.Configure.AddLoaders(ls...) }
			ro.bare = func(c configure.Configure) { c.AddLoaders(ls...) }
		case "SC":
			cf := configure.NewConfigure()
			cf.SetBinder(binder.NewViperBinder("yaml"))
			cf.SetLoaders(ls...)
			ro.app = app.SetConfigure(cf)
			ro.bare = func(c configure.Configure) {}
		case "SF":
			p := env.filePath(o.ls[0])
			fl := loader.NewFileLoader(p) // FileLoader is a string: the value SetConfig builds
			env.objs[o.ls[0].id] = fl
			ro.app = app.SetConfig(p)
			ro.bare = func(c configure.Configure) { c.AddLoaders(fl) }
		}
		out = append(out, ro)
	}
	return out
}

// cfgExec: one line on the real code: the observation of every phase, what was read, the text of a panic
func cfgExec(env *cfgEnv, opts []copt, paths []string) (obs []string, gots [][]string, panText string) {
	env.objs, env.paths = map[int]configure.Loader{}, map[int]string{}
	defer env.closePipes()
	watch := cfgHasPipe(opts) // a start that waits for a pipe nobody feeds must not stop the harness
	bare, phases := cfgSplit(opts)
	if cl := cfgCmdline(opts); cl != nil {
		saved := os.Args
		os.Args = cfgOsArgs(cl)
		defer func() { os.Args = saved }()
	}
	ropts := make([][]cfgRealOpt, len(phases))
	for k, ph := range phases {
		ropts[k] = env.realOpts(ph)
	}
	var a *app.App
	var cf configure.Configure
	for k := range phases {
		var err error
		got := make([]string, len(paths))
		body := func() {
			switch {
			case bare:
				if k == 0 {
					cf = configure.NewConfigure()
					cf.SetBinder(binder.NewViperBinder("yaml"))
				}
				for _, ro := range ropts[k] {
					ro.bare(cf)
				}
				err = cf.Initialize()
			case k == 0:
				sopts := []app.SettingOption{app.LogLevel(syslog.LvPanic)}
				for _, ro := range ropts[k] {
					sopts = append(sopts, ro.app)
				}
				a = app.NewApp()
				err = a.Run(sopts...)
			default:
				for _, ro := range ropts[k] {
					ro.app(a)
				}
				err = a.Initialize()
			}
			if err == nil {
				for i, p := range paths {
					if bare {
						got[i] = canonVal(cf.Get(p))
					} else {
						got[i] = canonVal(a.Get(p))
					}
				}
			}
		}
		var pan any
		hung := false
		if watch {
			pan, hung = cfgGuardTimed(body, 20*time.Second)
		} else {
			pan = hx.Guard(body)
		}
		gots = append(gots, got)
		switch {
		case hung:
			obs = append(obs, "hang")
		case pan != nil:
			obs = append(obs, "panic")
			panText = fmt.Sprint(pan)
		case err != nil:
			obs = append(obs, "err")
		default:
			obs = append(obs, strings.Join(got, " "))
		}
		if hung || pan != nil || err != nil {
			break
		}
	}
	return obs, gots, panText
}

// cfgGuardTimed: hx.Guard with a watchdog; after the time limit the goroutine is left behind (closePipes lets a start
// that waits on a pipe through) and nothing it wrote is used
func cfgGuardTimed(f func(), limit time.Duration) (pan any, hung bool) {
	done := make(chan any, 1)
	go func() { done <- hx.Guard(f) }()
	select {
	case pan = <-done:
		return pan, false
	case <-time.After(limit):
		return nil, true
	}
}

// ---------------------------------------------------------------- oracle (property wording, on the real observation)

type cfgDocView struct {
	isMap map[string]bool   // path → holds a map there
	leaf  map[string]string // path → canonical leaf
	keys  map[string][]string
	amb   map[string]bool // path spelled twice in one map (viper's own business)
}

func canonNode(n *cnode) string {
	switch n.kind {
	case 'N':
		return "nil"
	case 'M':
		var keys []string
		for _, k := range n.keys {
			keys = append(keys, strings.ToLower(k))
		}
		return canonKeys(keys)
	case 'L':
		parts := make([]string, len(n.elems))
		for i, e := range n.elems {
			parts[i] = canonNode(e)
		}
		return fmt.Sprintf("list[%d](%s)", len(n.elems), strings.Join(parts, ","))
	}
	return "s:" + hx.Hex(n.text)
}

func (v *cfgDocView) walk(n *cnode, prefix string) {
	if n.kind != 'M' {
		v.leaf[prefix] = canonNode(n)
		return
	}
	v.isMap[prefix] = true
	seen := map[string]int{}
	for _, k := range n.keys {
		seen[strings.ToLower(k)]++
	}
	for i, k := range n.keys {
		lk := strings.ToLower(k)
		p := lk
		if prefix != "" {
			p = prefix + "." + lk
		}
		v.keys[prefix] = append(v.keys[prefix], lk)
		if seen[lk] > 1 {
			v.amb[p] = true
			continue
		}
		v.walk(n.vals[i], p)
	}
}

func viewOf(n *cnode) *cfgDocView {
	v := &cfgDocView{isMap: map[string]bool{}, leaf: map[string]string{}, keys: map[string][]string{}, amb: map[string]bool{}}
	v.walk(n, "")
	return v
}

// the tree an args loader stands for: later pairs overwrite; a path through an existing leaf is a panic of
// go-kid/properties (reported as `panic`, not a C15 matter)
func argsTree(pairs []cpair) (*cnode, bool) {
	root := &cnode{kind: 'M'}
	for _, p := range pairs {
		cur := root
		segs := strings.Split(p.path, ".")
		for i, s := range segs {
			idx := -1
			for j, k := range cur.keys {
				if k == s {
					idx = j
				}
			}
			if i == len(segs)-1 {
				if idx < 0 {
					cur.keys = append(cur.keys, s)
					cur.vals = append(cur.vals, p.val)
				} else {
					cur.vals[idx] = p.val
				}
				break
			}
			if idx < 0 {
				cur.keys = append(cur.keys, s)
				cur.vals = append(cur.vals, &cnode{kind: 'M'})
				idx = len(cur.keys) - 1
			}
			if cur.vals[idx].kind != 'M' {
				return nil, false
			}
			cur = cur.vals[idx]
		}
	}
	return root, true
}

func prefixesOf(p string) []string {
	segs := strings.Split(p, ".")
	var out []string
	for i := 1; i <= len(segs); i++ {
		out = append(out, strings.Join(segs[:i], "."))
	}
	return out
}

// cfgSeq: the effective loader list as the option names say (set replaces, everything else appends), put into
// the loader sequence of the property: priority loaders by Order, then ordered loaders by Order, then the rest as added
// (`IN` / `CF` marks are skipped: the list after the last batch)
func cfgSeq(opts []copt) (seq []*cloader, beforeAdd map[int]bool) {
	var cur []*cloader
	beforeAdd = map[int]bool{}
	for _, o := range opts {
		cur = cfgApply(cur, o, beforeAdd)
	}
	return cfgOrder(cur), beforeAdd
}

// cfgApply: what one option does to the effective loader list, by its name
func cfgApply(cur []*cloader, o copt, beforeAdd map[int]bool) []*cloader {
	switch o.op {
	case "IN", "CF":
		return cur
	case "OA": // the loader a new App is born with: the first one of the list
		return append([]*cloader{}, o.ls...)
	case "SL", "SC":
		return append([]*cloader{}, o.ls...)
	}
	for _, l := range cur {
		beforeAdd[l.id] = true
	}
	return append(append([]*cloader{}, cur...), o.ls...)
}

// cfgOrder: the loader sequence of the property for a list in order of addition: priority-ordered by Order, then
// ordered by Order, then the rest as added
func cfgOrder(cur []*cloader) []*cloader {
	var pr, or, rest []*cloader
	for _, l := range cur {
		switch l.kind {
		case "f", "n", "p":
			pr = append(pr, l)
		case "o":
			or = append(or, l)
		default:
			rest = append(rest, l)
		}
	}
	ord := func(l *cloader) int {
		if l.kind == "f" || l.kind == "n" {
			return 0
		}
		return l.order
	}
	sort.SliceStable(pr, func(i, j int) bool { return ord(pr[i]) < ord(pr[j]) })
	sort.SliceStable(or, func(i, j int) bool { return ord(or[i]) < ord(or[j]) })
	return append(append(pr, or...), rest...)
}

// cfgOracle: the property after every Initialize.  gots[k] / obs[k] = what was read after the k-th Initialize.
// `hist` = the documents the binder in use has been given so far, in the order of the property's loader sequences
// (one sequence per Initialize): only used to recognise the known map-then-scalar rule, keys nobody ever supplied, and
// keys only a removed source supplied; the expected VALUE of a key always comes from the current loader sequence.
func cfgOracle(opts []copt, paths []string, gots [][]string, obs []string, panText string) string {
	_, phases := cfgSplit(opts)
	var cur []*cloader
	if cl := cfgCmdline(opts); cl != nil {
		cur = []*cloader{cl}
	}
	beforeAdd := map[int]bool{}
	var hist []*cfgDocView
	var histLoader []*cloader
	for k, ph := range phases {
		for _, o := range ph {
			if o.op == "SC" {
				hist, histLoader = nil, nil // another Configure with its own new binder
			}
			cur = cfgApply(cur, o, beforeAdd)
		}
		if k >= len(obs) {
			return fmt.Sprintf("FAIL config-error Initialize #%d was expected to be reached", k+1)
		}
		pre := ""
		if k > 0 {
			pre = "reinit-"
		}
		from := len(hist)
		var res string
		var end bool
		hist, histLoader, res, end = cfgOraclePhase(cfgOrder(cur), beforeAdd, hist, histLoader, from, paths, gots[k], obs[k], panText, pre)
		if res != "" {
			if len(phases) > 1 {
				res += fmt.Sprintf(" (after Initialize #%d of %d)", k+1, len(phases))
			}
			return res
		}
		if end {
			return ""
		}
	}
	return ""
}

func cfgOraclePhase(seq []*cloader, beforeAdd map[int]bool, views []*cfgDocView, viewLoader []*cloader, from int,
	paths, got []string, obs, panText, pre string) ([]*cfgDocView, []*cloader, string, bool) {
	wantErr, wantPanic := false, false
	for _, l := range seq {
		if l.kind == "a" {
			if len(l.pairs) == 0 {
				continue
			}
			t, ok := argsTree(l.pairs)
			if !ok {
				wantPanic = true
				break
			}
			views = append(views, viewOf(t))
			viewLoader = append(viewLoader, l)
			continue
		}
		if l.out == 'X' {
			wantErr = true
			break
		}
		if l.out == 'D' {
			if l.doc.kind != 'M' {
				wantErr = true
				break
			}
			views = append(views, viewOf(l.doc))
			viewLoader = append(viewLoader, l)
		}
	}
	fail := func(format string, args ...any) ([]*cfgDocView, []*cloader, string, bool) {
		return views, viewLoader, "FAIL " + fmt.Sprintf(format, args...), true
	}
	switch {
	case wantPanic:
		if obs != "panic" {
			return fail("config-args-no-panic expected the go-kid/properties panic")
		}
		return views, viewLoader, "", true
	case obs == "panic":
		return fail("config-panic %s", panText)
	case obs == "hang":
		return fail("config-hang the start did not come back within the time limit (a source on a named pipe whose content was written and closed)")
	case wantErr != (obs == "err"):
		return fail("config-error expected error=%v observed %s", wantErr, obs)
	case wantErr:
		return views, viewLoader, "", true
	}
	gotAt := map[string]string{}
	for i, p := range paths {
		gotAt[strings.ToLower(p)] = got[i]
	}
	// every effective source is consulted (a repeated document carries the marker of its first copy)
	for j := from; j < len(views); j++ {
		l := viewLoader[j]
		m := fmt.Sprintf("m%d", l.id)
		if views[j].leaf[m] != "s:"+hx.Hex(strconv.Itoa(l.id)) {
			continue
		}
		if g, ok := gotAt[m]; ok && g != "s:"+hx.Hex(strconv.Itoa(l.id)) {
			sig := "source-lost"
			if beforeAdd[l.id] {
				sig = "add-discards"
			}
			return fail("%s%s loader #%d (%s) is in the effective list but its key %s shows %s", pre, sig, l.id, l.kind, m, g)
		}
	}
	for i, rawp := range paths {
		p := strings.ToLower(rawp)
		if p == "" {
			if !strings.HasPrefix(got[i], "map{") {
				return fail("%slast-wins the whole configuration is not a map: %s", pre, got[i])
			}
			continue
		}
		amb, mts := false, false
		for _, q := range prefixesOf(p) {
			mapSeen := false
			for _, v := range views {
				if v.amb[q] {
					amb = true
				}
				if v.isMap[q] {
					mapSeen = true
				} else if _, ok := v.leaf[q]; ok && mapSeen {
					mts = true
				}
			}
		}
		if amb {
			continue
		}
		last := -1
		for j, v := range views {
			_, isLeaf := v.leaf[p]
			if v.isMap[p] || isLeaf {
				last = j
			}
		}
		sig := pre + "last-wins"
		if mts {
			sig = "map-then-scalar"
		}
		switch {
		case last < 0:
			if got[i] != "nil" {
				return fail("%sphantom-key path %s is in no document but shows %s", pre, p, got[i])
			}
		case last < from:
			// only a source that was configured at an earlier Initialize and has been removed since supplied this
			// key: the property is about the configured sources, nothing is demanded
		case views[last].isMap[p]:
			if mts {
				continue
			}
			if !strings.HasPrefix(got[i], "map{") {
				return fail("%s path %s: last document (loader #%d) has a map, observed %s", sig, p, viewLoader[last].id, got[i])
			}
			have := "," + strings.TrimSuffix(strings.TrimPrefix(got[i], "map{"), "}") + ","
			for _, k := range views[last].keys[p] {
				if !strings.Contains(have, ","+hx.Hex(k)+",") {
					return fail("%s path %s: key %s of the last document (loader #%d) is missing in %s", sig, p, k, viewLoader[last].id, got[i])
				}
			}
		default:
			if want := views[last].leaf[p]; got[i] != want {
				return fail("%s path %s: last document (loader #%d) says %s, observed %s", sig, p, viewLoader[last].id, want, got[i])
			}
		}
	}
	return views, viewLoader, "", false
}

// ---------------------------------------------------------------- the process environment (`EV`, seventh round)

// one variable of an `EV` prefix.  keep = the value token `*`: the variable is left as the process has it (PATH, HOME, …
// exist anyway) and set to "x" for the duration of the scenario when the process has none
type cfgVar struct {
	name, val string
	keep      bool
}

func cfgEnvToks(ev []cfgVar) string {
	t := []string{"EV", strconv.Itoa(len(ev))}
	for _, v := range ev {
		if v.keep {
			t = append(t, hx.Hex(v.name), "*")
		} else {
			t = append(t, hx.Hex(v.name), hx.Hex(v.val))
		}
	}
	return strings.Join(t, " ")
}

// cfgParseLine: a scenario line with an optional leading `EV` prefix
func cfgParseLine(scn string) (ev []cfgVar, opts []copt, paths []string, ok bool) {
	if strings.HasPrefix(scn, "EV ") {
		f := strings.Split(scn, " ")
		n, err := strconv.Atoi(f[1])
		if err != nil || n < 0 || n > 64 || len(f) < 2+2*n {
			return nil, nil, nil, false
		}
		for i := 0; i < n; i++ {
			name, err := hx.UnHex(f[2+2*i])
			if err != nil || name == "" || strings.ContainsAny(name, "=\x00") {
				return nil, nil, nil, false
			}
			v := cfgVar{name: name}
			if f[3+2*i] == "*" {
				v.keep = true
			} else if v.val, err = hx.UnHex(f[3+2*i]); err != nil || strings.ContainsRune(v.val, 0) {
				return nil, nil, nil, false
			}
			ev = append(ev, v)
		}
		scn = strings.Join(f[2+2*n:], " ")
		if ev == nil {
			ev = []cfgVar{}
		}
	}
	opts, paths, ok = cfgParse(scn)
	if ok && ev != nil && (cfgIsProc(opts) || cfgHasPipe(opts)) {
		ok = false
	}
	return ev, opts, paths, ok
}

// cfgWithEnv runs f with the variables of ev present (set) or absent (!set) in the process environment and puts the
// environment back as it was, whatever f does.  The config sub-harness runs its cases one after the other.
func cfgWithEnv(ev []cfgVar, set bool, f func()) {
	type saved struct {
		name, val string
		had       bool
	}
	var sv []saved
	for _, v := range ev {
		old, had := os.LookupEnv(v.name)
		sv = append(sv, saved{v.name, old, had})
	}
	defer func() {
		for i := len(sv) - 1; i >= 0; i-- {
			if sv[i].had {
				os.Setenv(sv[i].name, sv[i].val)
			} else {
				os.Unsetenv(sv[i].name)
			}
		}
	}()
	for i, v := range ev {
		switch {
		case !set:
			os.Unsetenv(v.name)
		case v.keep && sv[i].had:
		case v.keep:
			os.Setenv(v.name, "x")
		default:
			os.Setenv(v.name, v.val)
		}
	}
	f()
}

// cfgRunEnv: a line under an `EV` prefix.  The real code runs twice: with the variables in the environment (that run is
// the observation the model is compared with, and the one all oracles of the property are evaluated on) and with the
// same variables absent.  The effective configuration is the merge of the loader outputs — the environment is no
// loader —, so both runs must read the same thing at every path after every Initialize (signature config-env-leak).
func cfgRunEnv(env *cfgEnv, ev []cfgVar, opts []copt, paths []string, tags []string, w *hx.Writer) {
	c := hx.Case{Scn: cfgEnvToks(ev) + " " + cfgScn(opts, paths), Tags: tags}
	var obs, obs0 []string
	var gots, gots0 [][]string
	var panText string
	cfgWithEnv(ev, true, func() { obs, gots, panText = cfgExec(env, opts, paths) })
	cfgWithEnv(ev, false, func() { obs0, gots0, _ = cfgExec(env, opts, paths) })
	c.Obs = strings.Join(obs, " / ")
	if c.Obs != strings.Join(obs0, " / ") {
		var names []string
		for _, v := range ev {
			names = append(names, v.name)
		}
		detail := fmt.Sprintf("observed %s with them, %s without", c.Obs, strings.Join(obs0, " / "))
	find:
		for k := range gots {
			if k >= len(gots0) || obs[k] == "err" || obs[k] == "panic" || obs0[k] == "err" || obs0[k] == "panic" {
				break
			}
			for i, p := range paths {
				if gots[k][i] != gots0[k][i] {
					detail = fmt.Sprintf("path %q shows %s with them, %s without (after Initialize #%d)", p, gots[k][i], gots0[k][i], k+1)
					break find
				}
			}
		}
		c.Oracle = fmt.Sprintf("FAIL config-env-leak the loaders are the same, the environment variables %s change what is read: %s", strings.Join(names, ","), detail)
	} else {
		c.Oracle = cfgOracle(opts, paths, gots, obs, panText)
	}
	w.Put(c)
}

// the ordinary variables: names that exist in most process environments
var cfgOrdinaryEnv = map[string]bool{"PATH": true, "HOME": true, "USER": true, "LANG": true, "SHELL": true, "TERM": true, "PWD": true,
	"TMPDIR": true, "HOSTNAME": true, "EDITOR": true, "JAVA_HOME": true, "LOGNAME": true}

// words that are ordinary key names of a configuration file and, upper-cased, ordinary environment variables or parts
// of one (java.home), plus two hyphenated keys (`-` becomes `_` in a variable name)
var cfgEnvWords = []string{"path", "home", "user", "lang", "shell", "term", "pwd", "java", "tmpdir", "hostname", "editor", "logname", "min-version", "data-dir"}

// the name under which a key path would be looked up in the environment by the usual convention: upper case, `.` and
// `-` replaced by `_`
func cfgEnvName(path string) string {
	return strings.ToUpper(strings.NewReplacer(".", "_", "-", "_").Replace(path))
}

// cfgRename renames key segments in every document, argument path and query path of a line (same spelling style:
// lower / UPPER / Capitalised); f is injective and leaves its own results alone, loaders shared by reference are
// renamed once
func cfgRename(opts []copt, paths []string, f map[string]string) []string {
	seg := func(k string) string {
		to, ok := f[strings.ToLower(k)]
		switch {
		case !ok:
			return k
		case k == strings.ToLower(k):
			return to
		case k == strings.ToUpper(k):
			return strings.ToUpper(to)
		}
		return strings.ToUpper(to[:1]) + to[1:]
	}
	dotted := func(p string) string {
		if p == "" {
			return p
		}
		segs := strings.Split(p, ".")
		for i := range segs {
			segs[i] = seg(segs[i])
		}
		return strings.Join(segs, ".")
	}
	doneNode := map[*cnode]bool{}
	var node func(n *cnode)
	node = func(n *cnode) {
		if n == nil || doneNode[n] {
			return
		}
		doneNode[n] = true
		for i := range n.keys {
			n.keys[i] = seg(n.keys[i])
			node(n.vals[i])
		}
		for _, e := range n.elems {
			node(e)
		}
	}
	doneLoader := map[*cloader]bool{}
	for _, o := range opts {
		for _, l := range o.ls {
			if doneLoader[l] {
				continue
			}
			doneLoader[l] = true
			node(l.doc)
			for i := range l.pairs { // (renaming is idempotent: pairs shared with a repeated loader may be visited twice)
				l.pairs[i].path = dotted(l.pairs[i].path)
				node(l.pairs[i].val)
			}
		}
	}
	out := make([]string, len(paths))
	for i, p := range paths {
		out[i] = dotted(p)
	}
	return out
}

// cfgGenEnv: a line of the generators above (an App with the default Configure: no bare Configure, no SetConfigure),
// with or without a process command line, some of its six key names renamed to ordinary words (path, home, user, lang,
// java, …, min-version), under an `EV` prefix of 1-5 variables whose names are the upper-cased paths of keys and
// sections of the line's own documents: names nobody else uses (A_B, K, JAVA_HOME_MIN_VERSION, M2: set to a value of
// their own) and ordinary ones (PATH, HOME, JAVA_HOME, …: `*`), sometimes one that collides with nothing.
func cfgGenEnv(r *hx.Rng) ([]cfgVar, []copt, []string, []string) {
	var opts []copt
	var paths, tags []string
	for try := 0; ; try++ {
		rr := r.Fork()
		if rr.P(1, 4) {
			opts, paths, tags = cfgGenMulti(rr)
		} else {
			opts, paths, tags = cfgGenCase(rr)
		}
		bad := false
		for _, o := range opts {
			if o.op == "CF" || (o.op == "SC" && try < 20) {
				bad = true
			}
		}
		if !bad {
			break
		}
	}
	opts, paths, tags = cfgAddCmdline(opts, paths, tags)
	// rename
	ren := map[string]string{}
	perm := r.Perm(len(cfgEnvWords))
	for i, name := range cfgNames {
		if r.P(3, 5) {
			ren[name] = cfgEnvWords[perm[i]]
		}
	}
	if r.P(1, 3) { // two names that form an ordinary variable together: java.home, user.home; a hyphenated key below path
		pair := [][2]string{{"java", "home"}, {"path", "data-dir"}, {"user", "home"}}[r.Intn(3)]
		for k, v := range ren {
			if v == pair[0] || v == pair[1] {
				delete(ren, k)
			}
		}
		ren["a"], ren["b"] = pair[0], pair[1]
	}
	paths = cfgRename(opts, paths, ren)
	// the key paths of the line, sections and leaves
	isMap := map[string]bool{}
	var all []string
	seen := map[string]bool{}
	add := func(v *cfgDocView) {
		if v == nil {
			return
		}
		var ks []string
		for p := range v.leaf {
			ks = append(ks, p)
		}
		for p := range v.isMap {
			if p != "" {
				ks = append(ks, p)
				isMap[p] = true
			}
		}
		sort.Strings(ks)
		for _, p := range ks {
			if !seen[p] {
				seen[p] = true
				all = append(all, p)
			}
		}
	}
	for _, o := range opts {
		for _, l := range o.ls {
			add(cfgViewOfLoader(l))
		}
	}
	var ev []cfgVar
	used := map[string]bool{}
	put := func(path string, k int) {
		name := cfgEnvName(path)
		if name == "" || used[name] || strings.ContainsAny(name, "= ") {
			return
		}
		used[name] = true
		v := cfgVar{name: name, val: "env" + strconv.Itoa(k)}
		switch {
		case cfgOrdinaryEnv[name]:
			v.keep = true
		case r.P(1, 10):
			v.val = []string{"", "0", "true", "/usr/local/bin:/usr/bin"}[r.Intn(4)]
		}
		ev = append(ev, v)
	}
	if len(all) > 0 {
		for k := 1 + r.Intn(4); k > 0; k-- {
			p := all[r.Intn(len(all))]
			if i := strings.LastIndexByte(p, '.'); i > 0 && r.P(1, 3) {
				p = p[:i] // the section above it
			}
			put(p, k)
		}
	}
	for _, p := range all { // the ordinary names among the top-level keys and two-level sections: mostly taken
		if cfgOrdinaryEnv[cfgEnvName(p)] && r.P(3, 4) {
			put(p, 0)
		}
	}
	if len(ev) == 0 || r.P(1, 4) {
		ev = append(ev, cfgVar{name: "IOCVERIF_UNRELATED", val: "1"})
	}
	tags = append(append([]string{}, tags...), "env")
	for _, v := range ev {
		if v.keep {
			tags = append(tags, "env-ordinary")
		} else if v.name != "IOCVERIF_UNRELATED" {
			tags = append(tags, "env-own")
		}
		for p := range seen {
			if cfgEnvName(p) == v.name {
				if isMap[p] {
					tags = append(tags, "env-on-section")
				} else {
					tags = append(tags, "env-on-leaf")
				}
			}
		}
	}
	if len(ren) > 0 {
		tags = append(tags, "env-ordinary-words")
	}
	sort.Strings(tags)
	var uniq []string
	for j, t := range tags {
		if j == 0 || t != tags[j-1] {
			uniq = append(uniq, t)
		}
	}
	return ev, opts, paths, uniq
}

// cfgEnvCorpus: hand-written lines under an environment
func cfgEnvCorpus() []string {
	h := hx.Hex
	P := func(s string) string { return "P" + h(s) }
	// file {path: {data: /var/lib/demo, logs: /var/log/demo}, lang: {default: en}, m1: 1}
	file := fmt.Sprintf("M 3 %s M 2 %s %s %s %s %s M 1 %s %s %s P31", h("path"), h("data"), P("/var/lib/demo"), h("logs"), P("/var/log/demo"),
		h("lang"), h("default"), P("en"), h("m1"))
	// raw {lang: {default: de}, java: {home: {required: true, min-version: 17}}, server: {port: 8080}, m2: 2}
	raw := fmt.Sprintf("M 4 %s M 1 %s %s %s M 1 %s M 2 %s %s %s %s %s M 1 %s %s %s P32", h("lang"), h("default"), P("de"),
		h("java"), h("home"), h("required"), P("true"), h("min-version"), P("17"), h("server"), h("port"), P("8080"), h("m2"))
	args := "a 2 " + h("path.logs") + " " + P("/mnt/logs") + " " + h("m3") + " P33"
	q := " | " + strings.Join([]string{h("path.data"), h("path.logs"), h("lang.default"), h("java.home.required"), h("java.home.min-version"),
		h("server.port"), h("path"), h("lang"), h("java.home"), h("java"), h("server"), h("m1"), h("m2"), h("m3"), "-"}, " ")
	ord := "EV 3 " + h("PATH") + " * " + h("LANG") + " * " + h("JAVA_HOME") + " *"
	own := "EV 3 " + h("SERVER_PORT") + " " + h("9090") + " " + h("JAVA_HOME_MIN_VERSION") + " " + h("21") + " " + h("M2") + " " + h("env")
	return []string{
		// a config file, a raw document and an argument loader next to PATH, LANG and JAVA_HOME
		ord + " SF f " + file + " AL 1 r " + raw + " AL 1 " + args + q,
		ord + " SL 2 r " + raw + " " + args + q,
		// variables named after leaves (SERVER_PORT for server.port, `-` → `_`) and after a marker key
		own + " SF f " + file + " AL 1 r " + raw + " AL 1 " + args + q,
		own + " SL 1 r " + raw + q,
		// the process command line (the default ArgsLoader) and the environment name the same key
		"EV 2 " + h("SERVER_PORT") + " " + h("9090") + " " + h("SERVER") + " " + h("s") + " OA 2 " + h("server.port") + " " + P("1111") + " " + h("m0") + " P30 AL 1 r " + raw + q,
		// a history: the environment is there at every Initialize
		"EV 2 " + h("LANG") + " * " + h("LANG_DEFAULT") + " " + h("fr") + " SL 1 r " + raw + " IN SF f " + file + " IN" + q,
		// a variable that collides with nothing; an empty prefix
		"EV 1 " + h("IOCVERIF_UNRELATED") + " " + h("1") + " SL 1 r " + raw + q,
		"EV 0 SL 1 r " + raw + q,
	}
}

// ---------------------------------------------------------------- process histories (`GS`, ninth round)
//
// app.Settings(opts…) registers options for EVERY App of the process: Run applies the options of the call and then all
// registered ones, on every call.  A configuration source registered that way (app.Settings(app.AddConfigLoader(g)),
// app.Settings(app.SetConfig(file))) is a configured source of every App started afterwards — the second and third as
// much as the first —, next to the sources the App is given itself.
//
// Scenario: `GS opt* ((GS | NA) opt*)* | path*`: `GS` = app.Settings(the options up to the next mark), `NA` = a new App:
// app.NewApp().Run(LogLevel, the options up to the next mark), then every path is read from THAT App.  Observation: one
// phase per App, joined by " / " (`err` / `panic` / `hang` for an App that did not start; the history goes on: the Apps
// are independent containers).
//
// app.Settings appends to a package-level list that is never cleared, so a history must not run in the long-running
// harness process (every later scenario would start with its sources): cfgRunProc re-executes the harness binary
// (hidden sub-command `configchild`) with the ONE line, under a time limit, and copies the case the child wrote.  The
// child evaluates the oracle itself (it has what was read).
//
// Oracle (the property on every App, signatures `gs-…`): the configured sources of an App are the registered ones and
// its own.  Every one of them is consulted (its marker key is visible: gs-source-lost / gs-add-discards), a key nobody
// supplies shows nothing (gs-phantom-key), the last defining document in loader sequence wins (gs-last-wins).  The
// property does not say whether a source registered through Settings counts as added before or after the App's own
// options (the code applies the registered options after the call's own), so both readings are evaluated — the
// registered options after the App's own, and before them — and a verdict is a failure only when it fails under both:
// nothing is demanded about the relative order of a registered and an own none-ordered loader, nor about whether an
// own set-type option removes a registered source.

// cfgProcDirty: app.Settings was called in this process
var cfgProcDirty bool

type cfgSeg struct {
	global bool
	opts   []copt
}

func cfgProcSplit(opts []copt) (segs []cfgSeg) {
	for _, o := range opts {
		switch o.op {
		case "GS":
			segs = append(segs, cfgSeg{global: true})
		case "NA":
			segs = append(segs, cfgSeg{})
		default:
			if len(segs) > 0 {
				segs[len(segs)-1].opts = append(segs[len(segs)-1].opts, o)
			}
		}
	}
	return segs
}

// cfgRunProc: one process history, in a child process of its own
func cfgRunProc(opts []copt, paths []string, tags []string, w *hx.Writer) {
	c := hx.Case{Scn: cfgScn(opts, paths), Tags: tags}
	exe, err := os.Executable()
	if err != nil {
		exe = os.Args[0]
	}
	dir, err := os.MkdirTemp("", "iocverif-configchild-")
	if err != nil {
		panic(err)
	}
	defer os.RemoveAll(dir)
	in, out := filepath.Join(dir, "in.txt"), filepath.Join(dir, "out.tsv")
	_ = os.WriteFile(in, []byte(c.Scn+"\n"), 0o644)
	ctx, cancel := context.WithTimeout(context.Background(), 120*time.Second)
	defer cancel()
	cmd := exec.CommandContext(ctx, exe, "configchild", "-replay", in, "-out", out)
	var stderr strings.Builder
	cmd.Stderr = &stderr
	runErr := cmd.Run()
	data, _ := os.ReadFile(out)
	f := strings.Split(strings.TrimSuffix(string(data), "\n"), "\t")
	switch {
	case runErr == nil && len(f) >= 3 && f[0] == c.Scn:
		c.Obs, c.Oracle = f[1], f[2]
	case ctx.Err() != nil:
		c.Obs, c.Oracle = "hang", "FAIL config-child-hang the process running the history did not end within the time limit"
	default:
		txt := stderr.String()
		if len(txt) > 600 {
			txt = txt[:600]
		}
		c.Obs, c.Oracle = "crash", fmt.Sprintf("FAIL config-child-crash %v: %s", runErr, txt)
	}
	w.Put(c)
}

// cfgProcHere: the history in THIS process (the child side of cfgRunProc); one line per process
func cfgProcHere(scn string, w *hx.Writer) {
	opts, paths, ok := cfgParse(scn)
	if !ok || !cfgIsProc(opts) {
		return
	}
	c := hx.Case{Scn: cfgScn(opts, paths), Tags: []string{"child"}}
	if cfgProcDirty {
		c.Obs, c.Oracle = "bad-process", "FAIL harness-config-child-reused app.Settings was already called in this process"
		w.Put(c)
		return
	}
	env := newCfgEnv()
	defer env.close()
	obs, gots, panTexts := cfgExecProc(env, opts, paths)
	c.Obs = strings.Join(obs, " / ")
	c.Oracle = cfgOracleProc(opts, paths, gots, obs, panTexts)
	w.Put(c)
}

func cfgExecProc(env *cfgEnv, opts []copt, paths []string) (obs []string, gots [][]string, panTexts []string) {
	env.objs, env.paths = map[int]configure.Loader{}, map[int]string{}
	for _, sg := range cfgProcSplit(opts) {
		var sopts []app.SettingOption
		for _, ro := range env.realOpts(sg.opts) {
			sopts = append(sopts, ro.app)
		}
		if sg.global {
			cfgProcDirty = true
			app.Settings(sopts...)
			continue
		}
		var err error
		got := make([]string, len(paths))
		pan, hung := cfgGuardTimed(func() {
			a := app.NewApp()
			err = a.Run(append([]app.SettingOption{app.LogLevel(syslog.LvPanic)}, sopts...)...)
			if err == nil {
				for i, p := range paths {
					got[i] = canonVal(a.Get(p))
				}
			}
		}, 20*time.Second)
		gots = append(gots, got)
		panText := ""
		switch {
		case hung:
			obs = append(obs, "hang")
		case pan != nil:
			obs = append(obs, "panic")
			panText = fmt.Sprint(pan)
		case err != nil:
			obs = append(obs, "err")
		default:
			obs = append(obs, strings.Join(got, " "))
		}
		panTexts = append(panTexts, panText)
		if hung {
			break // the start left behind may still be running
		}
	}
	return obs, gots, panTexts
}

// cfgOracleProc: the property on every App of a process history, under both readings of where the registered sources
// stand among the App's own (see the head of this section)
func cfgOracleProc(opts []copt, paths []string, gots [][]string, obs []string, panTexts []string) string {
	segs := cfgProcSplit(opts)
	napps := 0
	for _, sg := range segs {
		if !sg.global {
			napps++
		}
	}
	var globals []copt
	k := 0
	for _, sg := range segs {
		if sg.global {
			globals = append(globals, sg.opts...)
			continue
		}
		if k >= len(obs) {
			return fmt.Sprintf("FAIL config-error App #%d of the history was expected to be started", k+1)
		}
		verdict := func(first, second []copt) string {
			var cur []*cloader
			beforeAdd := map[int]bool{}
			for _, o := range first {
				cur = cfgApply(cur, o, beforeAdd)
			}
			for _, o := range second {
				cur = cfgApply(cur, o, beforeAdd)
			}
			_, _, res, _ := cfgOraclePhase(cfgOrder(cur), beforeAdd, nil, nil, 0, paths, gots[k], obs[k], panTexts[k], "gs-")
			return res
		}
		if res := verdict(sg.opts, globals); res != "" {
			if res2 := verdict(globals, sg.opts); res2 != "" {
				return fmt.Sprintf("%s (App #%d of %d in the process; %d option(s) registered through app.Settings before its start)", res, k+1, napps, len(globals))
			}
		}
		k++
	}
	return ""
}

// cfgProcCorpus: hand-written process histories
func cfgProcCorpus() []string {
	h := hx.Hex
	P := func(s string) string { return "P" + h(s) }
	// global {global: {only: g}, shared: {global: true}, m1: 1}
	global := fmt.Sprintf("M 3 %s M 1 %s %s %s M 1 %s %s %s P31", h("global"), h("only"), P("g"), h("shared"), h("global"), P("true"), h("m1"))
	// the i-th App's raw document {raw: {only: i}, shared: {raw: true, from: raw}, m<id>: id} and file {file: {only: i}, shared: {file: true, from: file}, m<id>: id}
	raw := func(i, id int) string {
		return fmt.Sprintf("M 3 %s M 1 %s %s %s M 2 %s %s %s %s %s %s", h("raw"), h("only"), P(strconv.Itoa(i)), h("shared"), h("raw"), P("true"),
			h("from"), P("raw"), h(fmt.Sprintf("m%d", id)), P(strconv.Itoa(id)))
	}
	file := func(i, id int) string {
		return fmt.Sprintf("M 3 %s M 1 %s %s %s M 2 %s %s %s %s %s %s", h("file"), h("only"), P(strconv.Itoa(i)), h("shared"), h("file"), P("true"),
			h("from"), P("file"), h(fmt.Sprintf("m%d", id)), P(strconv.Itoa(id)))
	}
	q := " | " + strings.Join([]string{h("global.only"), h("raw.only"), h("file.only"), h("shared.global"), h("shared.raw"), h("shared.file"),
		h("shared.from"), h("shared"), h("m1"), h("m2"), h("m3"), h("m4"), h("m5"), h("m6"), h("m7"), h("zz"), "-"}, " ")
	return []string{
		// a raw document registered once, three Apps one after the other, each with its own raw document and config file
		"GS AL 1 r " + global + " NA AL 1 r " + raw(1, 2) + " SF f " + file(1, 3) + " NA AL 1 r " + raw(2, 4) + " SF f " + file(2, 5) +
			" NA AL 1 r " + raw(3, 6) + " SF f " + file(3, 7) + q,
		// a config file registered for the process (app.Settings(app.SetConfig(path))); the second App has no source of its own
		"GS SF f " + global + " NA AL 1 r " + raw(1, 2) + " NA NA CA 1 r " + raw(3, 4) + q,
		// the first start fails (a loader of its own fails), the next App is given sound sources: the registered one is among them
		"GS AL 1 r " + global + " NA AL 1 r X NA AL 1 r " + raw(2, 3) + q,
		// a second registration between two Apps: the Apps started after it have both
		"GS AL 1 r " + global + " NA SF f " + file(1, 2) + " GS AL 1 o 1 " + raw(0, 3) + " NA SF f " + file(2, 4) + " NA" + q,
		// nothing registered before the first App; an App that sets its own loader list
		"GS NA AL 1 r " + raw(1, 2) + " GS CA 1 p -1 " + global + " NA SL 1 r " + raw(2, 3) + " NA AL 1 a 1 " + h("shared.from") + " " + P("args") + q,
	}
}

// cfgGenLoader: one loader of the usual kinds with its marker key (the body of cfgGenCase's loop)
func (g *cfgGenSt) genLoader(id int, kinds string) *cloader {
	r := g.r
	l := &cloader{id: id, out: 'D', kind: string(kinds[r.Intn(len(kinds))])}
	l.order = []int{-2, -1, 0, 0, 1, 3}[r.Intn(6)]
	marker := &cnode{kind: 'P', text: strconv.Itoa(id)}
	mkey := fmt.Sprintf("m%d", id)
	if l.kind == "a" {
		flattenPairs(g.mapNode("", 0, true), "", &l.pairs)
		l.pairs = append(l.pairs, cpair{mkey, marker})
		return l
	}
	switch {
	case r.P(1, 40):
		l.out = 'X'
		g.tags["failing"] = true
	case r.P(1, 20):
		l.out = 'E'
		g.tags["empty"] = true
	default:
		l.doc = g.mapNode("", 0, false)
		l.doc.keys = append(l.doc.keys, mkey)
		l.doc.vals = append(l.doc.vals, marker)
	}
	return l
}

// cfgGenProc: a process history (tag `proc`): 1-2 sources registered through app.Settings before the first App (add-type
// options: AddConfigLoader, SetConfig(file), Configure.AddLoaders), 2-4 Apps started one after the other, each with 0-3
// sources of its own (now and then through SetConfigLoader), one history in three with a further registration between
// two Apps (tag `proc-late-settings`); all documents over the same six key names, so registered and own sources overlap.
func cfgGenProc(r *hx.Rng) ([]copt, []string, []string) {
	g := &cfgGenSt{r: r, role: map[string]byte{}, conflict: r.P(1, 10), tags: map[string]bool{}}
	id := 0
	var all []*cloader
	batch := func(n int, kinds string, global bool) []copt {
		var out []copt
		for i := 0; i < n; i++ {
			id++
			l := g.genLoader(id, kinds)
			if global && l.out == 'X' {
				l.out, l.doc = 'D', g.mapNode("", 0, false) // a registered source that fails would fail every App
				l.doc.keys = append(l.doc.keys, fmt.Sprintf("m%d", id))
				l.doc.vals = append(l.doc.vals, &cnode{kind: 'P', text: strconv.Itoa(id)})
			}
			all = append(all, l)
			op := "AL"
			switch k := r.Intn(10); {
			case l.kind == "f" && k < 7:
				op = "SF"
			case k < 2:
				op = "CA"
			case !global && len(out) == 0 && k < 4:
				op = "SL"
			}
			if global {
				g.tags["global-kind-"+l.kind] = true
				g.tags["global-op-"+op] = true
			}
			out = append(out, copt{op: op, ls: []*cloader{l}})
		}
		return out
	}
	opts := []copt{{op: "GS"}}
	opts = append(opts, batch(1+r.Intn(2), "rrrffapo", true)...)
	napps := 2 + r.Intn(3)
	late := -1
	if r.P(1, 3) {
		late = 1 + r.Intn(napps-1)
		g.tags["proc-late-settings"] = true
	}
	for a := 0; a < napps; a++ {
		if a == late {
			opts = append(opts, copt{op: "GS"})
			opts = append(opts, batch(1, "rrfapo", true)...)
		}
		opts = append(opts, copt{op: "NA"})
		opts = append(opts, batch(r.Intn(4), "rrrfffaapo", false)...)
	}
	seen := map[string]bool{}
	var paths []string
	add := func(p string) {
		if !seen[strings.ToLower(p)] && len(paths) < 40 {
			seen[strings.ToLower(p)] = true
			if r.P(1, 3) {
				p = strings.ToLower(p)
			}
			paths = append(paths, p)
		}
	}
	for _, l := range all {
		add(fmt.Sprintf("m%d", l.id))
	}
	for _, j := range r.Perm(len(all)) {
		l := all[j]
		if l.kind == "a" {
			if t, ok := argsTree(l.pairs); ok {
				collectPaths(t, "", add)
			}
		} else if l.out == 'D' {
			collectPaths(l.doc, "", add)
		}
	}
	paths = append(paths, "zz", "")
	tags := []string{"proc", fmt.Sprintf("apps%d", napps)}
	for k := range g.tags {
		tags = append(tags, k)
	}
	sort.Strings(tags)
	return opts, paths, tags
}

// ---------------------------------------------------------------- a config file that is a named pipe (`n`, ninth round)

// cfgPipeCorpus: hand-written lines with a FileLoader on a named pipe
func cfgPipeCorpus() []string {
	h := hx.Hex
	P := func(s string) string { return "P" + h(s) }
	// base file {base: {only: 1}, shared: {base: true, from: base}, top: base, m1: 1}
	base := fmt.Sprintf("M 4 %s M 1 %s %s %s M 2 %s %s %s %s %s %s %s P31", h("base"), h("only"), P("1"), h("shared"), h("base"), P("true"),
		h("from"), P("base"), h("top"), P("base"), h("m1"))
	// piped {piped: {only: 2}, shared: {piped: true, from: piped}, top: piped, m2: 2}
	piped := fmt.Sprintf("M 4 %s M 1 %s %s %s M 2 %s %s %s %s %s %s %s P32", h("piped"), h("only"), P("2"), h("shared"), h("piped"), P("true"),
		h("from"), P("piped"), h("top"), P("piped"), h("m2"))
	// raw {raw: {only: 3}, shared: {raw: true}, top: raw, m3: 3}
	raw := fmt.Sprintf("M 4 %s M 1 %s %s %s M 1 %s %s %s %s %s P33", h("raw"), h("only"), P("3"), h("shared"), h("raw"), P("true"), h("top"), P("raw"), h("m3"))
	q := " | " + strings.Join([]string{h("base.only"), h("piped.only"), h("raw.only"), h("shared.base"), h("shared.piped"), h("shared.raw"),
		h("shared.from"), h("top"), h("shared"), h("m1"), h("m2"), h("m3"), h("zz"), "-"}, " ")
	return []string{
		// a config file, a second config "file" that is a pipe (`--config <(render)`), a raw document: file, pipe, raw
		"SF f " + base + " SF n " + piped + " AL 1 r " + raw + q,
		"SL 3 r " + raw + " n " + piped + " f " + base + q,
		// the pipe alone; a pipe whose writer writes nothing (an empty source, like an empty file)
		"SF n " + piped + q,
		"AL 1 r " + raw + " CA 1 n E" + q,
		// a pipe that is never read: the loader list is replaced after it was added; the walk stops at a failing loader before it
		"AL 1 n " + piped + " SL 1 r " + raw + q,
		"SL 2 p -1 X n " + piped + q,
		// the process command line beats the pipe (files first), a raw document added by an option beats both
		"OA 2 " + h("top") + " " + P("cli") + " " + h("m0") + " P30 SF n " + piped + " AL 1 r " + raw + " | " + h("top") + " " + h("piped.only") + " " + h("m0") + " " + h("m2") + " " + h("m3") + " -",
	}
}

// cfgGenPipe: a line of cfgGenCase in which one source that is read once — a file, or a raw / priority / ordered
// loader, not part of a repetition — becomes a FileLoader on a named pipe (tag `pipe`; `pipe-setconfig` when it is
// given through app.SetConfig)
func cfgGenPipe(r *hx.Rng) ([]copt, []string, []string) {
	for {
		rr := r.Fork()
		opts, paths, tags := cfgGenCase(rr)
		var cand, files []*cloader
		referred := map[int]bool{}
		for _, o := range opts {
			for _, l := range o.ls {
				if l.ref != "" {
					referred[l.to] = true
				}
			}
		}
		for _, o := range opts {
			for _, l := range o.ls {
				if l.ref != "" || referred[l.id] || l.kind == "a" || l.out == 'X' {
					continue
				}
				cand = append(cand, l)
				if l.kind == "f" {
					files = append(files, l)
				}
			}
		}
		if len(cand) == 0 {
			continue
		}
		l := cand[rr.Intn(len(cand))]
		if len(files) > 0 && rr.P(2, 3) {
			l = files[rr.Intn(len(files))]
		}
		wasFile := l.kind == "f"
		l.kind, l.order = "n", 0
		var out []string
		for _, t := range tags {
			if t == "trivial" || (!wasFile && strings.HasPrefix(t, "repeat-")) {
				continue
			}
			out = append(out, t)
		}
		out = append(out, "pipe", "kind-n")
		for _, o := range opts {
			if o.op == "SF" && o.ls[0] == l {
				out = append(out, "pipe-setconfig")
			}
		}
		sort.Strings(out)
		return opts, paths, out
	}
}

// ---------------------------------------------------------------- replay / corpus

func cfgReplay(scn string, w *hx.Writer) {
	ev, opts, paths, ok := cfgParseLine(scn)
	if !ok {
		return
	}
	env := newCfgEnv()
	defer env.close()
	if ev != nil {
		cfgRunEnv(env, ev, opts, paths, []string{"replay"}, w)
		return
	}
	cfgRun(env, opts, paths, []string{"replay"}, w)
}

func cfgCorpus(w *hx.Writer) {
	env := newCfgEnv()
	defer env.close()
	h := hx.Hex
	for _, scn := range []string{
		// map-then-scalar: the representative of KF-C15-1 (C15_counterexample)
		"SL 2 r M 1 61 M 1 62 P31 r M 1 61 P78 | 61 612e62 -",
		// scalar then map: replaced
		"SL 2 r M 1 61 P78 r M 1 61 M 1 62 P31 | 61 612e62 -",
		// the README order: raw loader set, then a file: the file is Priority and is read first
		"SL 1 r M 2 61 P31 62 P32 SF f M 2 61 P39 63 P33 | 61 62 63 -",
		// add after set keeps; default loader kept when nothing is set
		"AL 1 r M 1 61 P31 CA 1 r M 1 62 P32 SF f M 1 63 P33 | 61 62 63 -",
		// three levels, mixed case across documents, lists replace, null hides
		"SL 2 r M 1 41 M 1 62 M 2 63 P31 64 L 2 P31 P32 r M 1 61 M 1 42 M 3 43 P39 65 P33 64 L 1 P37 | 612e622e63 612e622e64 612e622e65 412e422e43 612e62 61 -",
		"SL 2 r M 2 78 P35 6d M 2 79 P31 7a P32 r M 2 78 N 6d M 1 79 N | 78 6d 6d2e79 6d2e7a -",
		// lower/upper duplicate inside one document
		"SL 1 r M 2 61 P31 41 P32 | 61 -",
		"SL 1 r M 2 41 M 1 78 P31 61 M 1 79 P32 | 61 612e78 612e79 -",
		// classes: priority by order, then ordered, then plain
		"SL 5 r M 1 6b P72 o 1 M 1 6b P6f31 p 3 M 1 6b P7033 o -1 M 1 6b P6f6d p -2 M 1 6b P706d | 6b",
		"SL 4 o 0 M 1 6b P6f f M 1 6b P66 p 0 M 1 6b P70 f M 1 6b P6632 | 6b",
		// args
		"SL 1 a 3 " + h("a.b") + " P31 " + h("a.c") + " Q35 " + h("q") + " L 2 P31 P78 | 612e62 612e63 71 61 -",
		"SL 2 a 1 " + h("a.b") + " P31 r M 1 61 M 1 63 P32 | 612e62 612e63 61",
		"SL 1 a 2 " + h("a") + " P31 " + h("a.b") + " P32 | 61",
		"SL 1 a 2 " + h("a.b") + " P31 " + h("a") + " P32 | 61 612e62",
		// empty and failing loaders, no loaders at all, SetConfigure
		"SL 3 r E r M 1 61 P31 f E | 61 -",
		"SL 2 r M 1 61 P31 f X | 61",
		"SL 2 r M 1 61 P31 r X | 61",
		"SL 0 | 61 -",
		"AL 1 r M 1 61 P31 SC 1 r M 1 62 P32 AL 1 r M 1 63 P33 | 61 62 63 -",
		"SL 1 r P35 | 61",
		"SL 1 r M 2 61 M 0 62 P31 | 61 62 -",
		// X, Y, X: a document that was merged before is merged again when it comes last (a: 1 9 1, b: 2, c: 3)
		"SL 3 r M 2 61 P31 62 P32 r M 2 61 P39 63 P33 r M 2 61 P31 62 P32 | 61 62 63 -",
		// the same as file(X), raw(Y), raw(X): same bytes from two kinds of loader; nested overlap
		"AL 2 r M 2 61 M 1 62 P39 63 P33 r M 1 61 M 2 62 P31 64 P35 SF f M 1 61 M 2 62 P31 64 P35 | 612e62 612e64 63 61 -",
		// one loader object added twice (AddConfigLoader), one file path added twice (SetConfig, FileLoader), same args twice
		"SL 1 r M 1 61 P31 AL 1 r M 1 61 P39 AL 1 = 1 | 61 -",
		"SF f M 2 61 P31 62 P32 AL 1 f M 1 61 P39 SF ~ 1 | 61 62 -",
		"SL 3 f M 1 61 P31 p 0 M 1 61 P39 ~ 1 | 61 -",
		"SL 3 a 2 " + h("a.b") + " P31 " + h("c") + " P32 a 1 " + h("a.b") + " P39 a 2 " + h("a.b") + " P31 " + h("c") + " P32 | 612e62 63 61 -",
		// X, X, Y: the adjacent repeat changes nothing, Y still wins
		"SL 3 o 1 M 1 61 P31 = 1 o 1 M 1 61 P39 | 61",
	} {
		opts, paths, ok := cfgParse(scn)
		if !ok {
			panic("bad corpus line: " + scn)
		}
		cfgRun(env, opts, paths, []string{"corpus"}, w)
	}
	for _, scn := range cfgCmdlineCorpus() {
		opts, paths, ok := cfgParse(scn)
		if !ok {
			panic("bad corpus line: " + scn)
		}
		cfgRun(env, opts, paths, []string{"corpus", "cmdline"}, w)
	}
	for _, scn := range cfgManyCorpus() {
		opts, paths, ok := cfgParse(scn)
		if !ok {
			panic("bad corpus line: " + scn)
		}
		cfgRun(env, opts, paths, []string{"corpus", "many-loaders"}, w)
	}
	for _, scn := range cfgMultiCorpus() {
		opts, paths, ok := cfgParse(scn)
		if !ok {
			panic("bad corpus line: " + scn)
		}
		cfgRun(env, opts, paths, []string{"corpus", "multi-init"}, w)
	}
	for _, scn := range cfgPipeCorpus() {
		opts, paths, ok := cfgParse(scn)
		if !ok || !cfgHasPipe(opts) {
			panic("bad corpus line: " + scn)
		}
		cfgRun(env, opts, paths, []string{"corpus", "pipe"}, w)
	}
	for _, scn := range cfgProcCorpus() {
		opts, paths, ok := cfgParse(scn)
		if !ok || !cfgIsProc(opts) {
			panic("bad corpus line: " + scn)
		}
		cfgRun(env, opts, paths, []string{"corpus", "proc"}, w)
	}
	for _, scn := range cfgEnvCorpus() {
		ev, opts, paths, ok := cfgParseLine(scn)
		if !ok || ev == nil {
			panic("bad corpus line: " + scn)
		}
		cfgRunEnv(env, ev, opts, paths, []string{"corpus", "env"}, w)
	}
}

// cfgMultiCorpus: histories on one live Configure / App (several Initialize calls, sources added in between), and
// the same file given to SetConfig more than once.
func cfgMultiCorpus() []string {
	h := hx.Hex
	// base {a: {b: base, c: 8080}, k: true, m1: 1}   file {a: {b: file, d: true}, c: {d: data}, m2: 2}
	// extra {a: {c: 9090}, ab: late, m3: 3}: the loader sequence is file, base, extra
	base := fmt.Sprintf("M 3 %s M 2 %s P%s %s P%s %s P%s %s P31", h("a"), h("b"), h("base"), h("c"), h("8080"), h("k"), h("true"), h("m1"))
	file := fmt.Sprintf("M 3 %s M 2 %s P%s %s P%s %s M 1 %s P%s %s P32", h("a"), h("b"), h("file"), h("d"), h("true"), h("c"), h("d"), h("data"), h("m2"))
	extra := fmt.Sprintf("M 3 %s M 1 %s P%s %s P%s %s P33", h("a"), h("c"), h("9090"), h("ab"), h("late"), h("m3"))
	q := " | " + strings.Join([]string{h("a.b"), h("a.c"), h("a.d"), h("c.d"), h("k"), h("ab"), h("m1"), h("m2"), h("m3"), h("a"), "-"}, " ")
	one := func(k, v string) string { return fmt.Sprintf("M 1 %s P%s", h(k), h(v)) }
	two := func(k, v, k2, v2 string) string { return fmt.Sprintf("M 2 %s P%s %s P%s", h(k), h(v), h(k2), h(v2)) }
	return []string{
		// a bare Configure: base, Initialize, then a file and another document, Initialize
		"CF AL 1 r " + base + " IN CA 1 f " + file + " AL 1 r " + extra + q,
		"CF AL 1 r " + base + " IN SF f " + file + " IN AL 1 r " + extra + " IN" + q,
		// the same on a running App: Run(SetConfigLoader(base)), then SetConfig(file) + AddConfigLoader(extra), Initialize
		"SL 1 r " + base + " IN SF f " + file + " AL 1 r " + extra + q,
		// only the default ArgsLoader at Run; a file, then an ordered and a priority loader are given to the running App
		"IN SF f " + file + q,
		"AL 1 r " + base + " IN CA 1 o -1 " + file + " IN AL 1 p 3 " + extra + " IN" + q,
		"CF SL 2 o 1 " + base + " r " + extra + " IN AL 1 o 0 " + file + q,
		// all sources known before the first Initialize, two more Initialize calls change nothing
		"AL 2 r " + base + " r " + extra + " SF f " + file + " IN IN" + q,
		// a set-type call between two Initialize calls: the new list is loaded on top of what the binder holds
		"SL 1 r " + two("a", "1", "b", "2") + " IN SL 1 r " + one("a", "9") + " | 61 62 -",
		"CF SL 1 r " + two("a", "1", "b", "2") + " IN SL 0 IN SL 1 f " + one("a", "9") + " | 61 62 -",
		// SetConfigure on the running App: another Configure, another binder
		"AL 1 r " + two("a", "1", "b", "2") + " IN SC 1 r " + one("a", "9") + " IN CA 1 f " + one("c", "3") + " | 61 62 63 -",
		// a loader that fails at the second Initialize; a map kept over a later scalar across two Initialize calls
		"AL 1 r " + one("a", "1") + " IN AL 1 r X | 61",
		"SL 1 r M 1 61 M 1 62 P31 IN SL 1 r M 1 61 P78 | 61 612e62 -",
		// one loader object / one file path given again at a later Initialize
		"AL 1 r " + one("a", "1") + " IN AL 1 r " + one("a", "9") + " IN AL 1 = 1 | 61",
		"SF f " + two("a", "1", "b", "2") + " IN SF f " + two("a", "9", "c", "3") + " IN SF ~ 1 | 61 62 63 -",
		// SetConfig with a file it has been given before: a, b, a (a is the last source) and a, SetConfigLoader(raw), a
		"SF f " + two("a", "1", "b", "2") + " SF f " + two("a", "9", "c", "3") + " SF ~ 1 | 61 62 63 -",
		"SF f " + two("a", "1", "b", "2") + " SL 1 r " + two("a", "9", "c", "3") + " SF ~ 1 | 61 62 63 -",
		"SF f " + two("a", "1", "b", "2") + " SC 1 r " + two("a", "9", "c", "3") + " SF ~ 1 | 61 62 63 -",
	}
}

// cfgCmdlineCorpus: the process is started with `--app.config` arguments (`OA`): the default ArgsLoader of a new App is
// a source with content.  It is the first loader added, so files come before it and lose, every non-file loader added
// by an option comes after it and wins on a shared key; keys only the command line supplies stay visible.
func cfgCmdlineCorpus() []string {
	h := hx.Hex
	P := func(s string) string { return "P" + h(s) }
	cmd := "OA 3 " + h("server.port") + " " + P("1111") + " " + h("server.name") + " " + P("cli") + " " + h("m0") + " " + P("0")
	raw := fmt.Sprintf("M 2 %s M 2 %s %s %s %s %s %s", h("server"), h("port"), P("2222"), h("host"), P("h.example"), h("m1"), P("1"))
	file := fmt.Sprintf("M 2 %s M 3 %s %s %s %s %s %s %s %s", h("server"), h("port"), P("3333"), h("name"), P("file"), h("mode"), P("from-file"), h("m2"), P("2"))
	q := " | " + strings.Join([]string{h("server.port"), h("server.name"), h("server.host"), h("server.mode"), h("m0"), h("m1"), h("m2"), h("server"), "-"}, " ")
	return []string{
		// the command line alone; command line, then a raw loader added by option (the raw loader wins on server.port)
		cmd + q,
		cmd + " AL 1 r " + raw + q,
		cmd + " CA 1 r " + raw + q,
		// file, command line, raw: the command line beats the file, the raw loader beats both
		cmd + " SF f " + file + " AL 1 r " + raw + q,
		cmd + " AL 1 r " + raw + " SF f " + file + q,
		cmd + " SF f " + file + q,
		// an ArgsLoader the program adds itself comes after the process command line
		cmd + " AL 1 a 2 " + h("server.port") + " " + P("4444") + " " + h("m1") + " " + P("1") + q,
		// ordered and priority loaders come before the command line whenever they are added
		cmd + " AL 2 o 1 " + raw + " p -1 " + file + q,
		// set-type options replace the list the App was born with (SetConfigLoader) / the whole Configure (SetConfigure)
		cmd + " SL 1 r " + raw + q,
		cmd + " AL 1 r " + raw + " SC 1 f " + file + q,
		cmd + " SL 0" + q,
		// histories: sources added to the running App keep coming after the command line
		cmd + " IN AL 1 r " + raw + q,
		cmd + " AL 1 r " + raw + " IN SF f " + file + " IN" + q,
		cmd + " SF f " + file + " IN CA 1 r " + raw + q,
		// dotted command-line keys against sections, a list value, a quoted value, a repeated argument
		"OA 4 " + h("a.b") + " " + P("1") + " " + h("a.c") + " Q" + h("5") + " " + h("q") + " L 2 P31 P78 " + h("a.b") + " " + P("2") +
			" AL 1 r M 2 61 M 2 62 P39 64 P34 71 P37 | 612e62 612e63 612e64 71 61 -",
		// the command line holds a scalar where a later loader holds a section: replaced
		"OA 1 " + h("a") + " " + P("1") + " AL 1 r M 1 61 M 1 62 P32 | 61 612e62 -",
	}
}

// cfgManyCorpus: hand-made source sets with 13 and more loaders.
func cfgManyCorpus() []string {
	h := hx.Hex
	doc := func(i int, extra string) string { // {svc: {owner: raw<i>}, z: v<i>, m<i>: <i>} (+ extra entries)
		n := 3
		if extra != "" {
			n += (strings.Count(extra, "|") + 1) / 2 // key|value pairs
			extra = " " + strings.ReplaceAll(extra, "|", " ")
		}
		return fmt.Sprintf("M %d %s M 1 %s P%s %s P%s %s P%s%s", n, h("svc"), h("owner"), h(fmt.Sprintf("raw%d", i)),
			h("z"), h(fmt.Sprintf("v%d", i)), h(fmt.Sprintf("m%d", i)), h(strconv.Itoa(i)), extra)
	}
	var out []string
	// (1) the default ArgsLoader, eleven raw documents added one by one, then app.SetConfig(file): 13 loaders, the file
	// (priority) is read first, the raw documents follow in the order they were added: svc.owner = raw11
	{
		var t []string
		for i := 1; i <= 11; i++ {
			t = append(t, "AL 1 r "+doc(i, ""))
		}
		t = append(t, "SF f "+doc(12, h("only")+"|P"+h("file")))
		t = append(t, "|", h("svc.owner"), h("z"), h("only"), h("svc"))
		for i := 1; i <= 12; i++ {
			t = append(t, h(fmt.Sprintf("m%d", i)))
		}
		out = append(out, strings.Join(t, " "))
	}
	// (2) 24 loaders in one SetConfigLoader: raw and args loaders interleaved with two ordered, two priority loaders
	// and a file loader; every none-ordered neighbour pair shares a key
	{
		t := []string{"SL", "24"}
		for i := 1; i <= 24; i++ {
			chain := h(fmt.Sprintf("s%d", i)) + "|P" + h(fmt.Sprintf("v%d", i)) + "|" + h(fmt.Sprintf("s%d", i+1)) + "|P" + h(fmt.Sprintf("v%d", i))
			switch {
			case i == 7:
				t = append(t, "o 1 "+doc(i, chain))
			case i == 13:
				t = append(t, "p 2 "+doc(i, chain))
			case i == 17:
				t = append(t, "o -1 "+doc(i, chain))
			case i == 20:
				t = append(t, "f "+doc(i, chain))
			case i == 24:
				t = append(t, "p -2 "+doc(i, chain))
			case i%5 == 3:
				t = append(t, fmt.Sprintf("a 4 %s P%s %s P%s %s P%s %s P%s", h("svc.owner"), h(fmt.Sprintf("arg%d", i)),
					h(fmt.Sprintf("s%d", i)), h(fmt.Sprintf("v%d", i)), h(fmt.Sprintf("s%d", i+1)), h(fmt.Sprintf("v%d", i)),
					h(fmt.Sprintf("m%d", i)), h(strconv.Itoa(i))))
			default:
				t = append(t, "r "+doc(i, chain))
			}
		}
		t = append(t, "|", h("svc.owner"), h("z"))
		for i := 1; i <= 25; i++ {
			t = append(t, h(fmt.Sprintf("s%d", i)))
		}
		for i := 1; i <= 24; i++ {
			t = append(t, h(fmt.Sprintf("m%d", i)))
		}
		out = append(out, strings.Join(t, " "))
	}
	// (3) a priority class of 16 with pairwise different orders added in a scrambled order (sort.Slice beyond its
	// insertion-sort size), after and between four raw documents, and an ordered class of three with a tie
	{
		var t []string
		id := 0
		next := func(prefix string) string { id++; return prefix + " " + doc(id, "") }
		t = append(t, "AL 2 "+next("r")+" "+next("r"))
		for _, o := range []int{5, -7, 3, 9, 8, -2, 6, -5} {
			t = append(t, "CA 1 "+next(fmt.Sprintf("p %d", o)))
		}
		t = append(t, "AL 3 "+next("o 1")+" "+next("r")+" "+next("o 1"))
		for _, o := range []int{-1, 7, 2, -6, 4, 1, -4} {
			t = append(t, "AL 1 "+next(fmt.Sprintf("p %d", o)))
		}
		t = append(t, "SF "+next("f")) // Order() 0, the only member of its class with that value
		t = append(t, "AL 2 "+next("o 0")+" "+next("r"))
		t = append(t, "|", h("svc.owner"), h("z"))
		for i := 1; i <= id; i++ {
			t = append(t, h(fmt.Sprintf("m%d", i)))
		}
		out = append(out, strings.Join(t, " "))
	}
	return out
}

// ---------------------------------------------------------------- generator

var cfgNames = []string{"a", "b", "c", "d", "ab", "k"}

type cfgGenSt struct {
	r        *hx.Rng
	role     map[string]byte // lower-cased path → 'M' | 'L' (leaf), fixed per case unless a conflict is forced
	conflict bool
	tags     map[string]bool
}

func spell(r *hx.Rng, s string) string {
	switch r.Intn(5) {
	case 0:
		return strings.ToUpper(s)
	case 1:
		return strings.ToUpper(s[:1]) + s[1:]
	}
	return s
}

var cfgPlain = []string{"0", "1", "2", "7", "42", "-3", "1.5", "true", "false", "foo", "bar", "v1", "x"}

func (g *cfgGenSt) scalar(forArgs bool) *cnode {
	r := g.r
	switch {
	case !forArgs && r.P(1, 25):
		g.tags["null"] = true
		return &cnode{kind: 'N'}
	case r.P(1, 8):
		return &cnode{kind: 'Q', text: []string{"5", "foo bar", "", "true", "A b"}[r.Intn(5)]}
	}
	return &cnode{kind: 'P', text: cfgPlain[r.Intn(len(cfgPlain))]}
}

func (g *cfgGenSt) leaf(forArgs bool, depth int) *cnode {
	r := g.r
	if r.P(1, 7) {
		g.tags["list"] = true
		n := &cnode{kind: 'L'}
		for k := r.Intn(4); k > 0; k-- {
			switch {
			case forArgs:
				n.elems = append(n.elems, &cnode{kind: 'P', text: cfgPlain[r.Intn(len(cfgPlain))]})
			case r.P(1, 6):
				m := &cnode{kind: 'M'}
				m.keys = []string{spell(r, "k")}
				m.vals = []*cnode{g.scalar(false)}
				n.elems = append(n.elems, m)
			default:
				n.elems = append(n.elems, g.scalar(false))
			}
		}
		if forArgs && len(n.elems) == 0 {
			n.elems = append(n.elems, &cnode{kind: 'P', text: "1"})
		}
		return n
	}
	return g.scalar(forArgs)
}

func (g *cfgGenSt) mapNode(prefix string, depth int, forArgs bool) *cnode {
	r := g.r
	n := &cnode{kind: 'M'}
	cnt := 1 + r.Intn(3)
	if depth > 0 && !forArgs && r.P(1, 12) {
		cnt = 0
	}
	perm := r.Perm(len(cfgNames))
	for i := 0; i < cnt; i++ {
		name := cfgNames[perm[i]]
		p := name
		if prefix != "" {
			p = prefix + "." + name
		}
		role, ok := g.role[p]
		if !ok {
			role = 'L'
			if depth < 2 && r.P(2, 5) {
				role = 'M'
			}
			g.role[p] = role
		} else if g.conflict && r.P(1, 3) {
			if role == 'M' {
				role = 'L'
			} else if depth < 2 {
				role = 'M'
			}
		}
		mk := func() *cnode {
			if role == 'M' {
				sub := g.mapNode(p, depth+1, forArgs)
				if forArgs && len(sub.keys) == 0 {
					return g.leaf(forArgs, depth)
				}
				return sub
			}
			return g.leaf(forArgs, depth)
		}
		sp := spell(r, name)
		n.keys = append(n.keys, sp)
		n.vals = append(n.vals, mk())
		if sp == name && r.P(1, 20) {
			// the same key once more in another spelling (exactly one non-lower-case spelling per map)
			g.tags["dupcase"] = true
			up := strings.ToUpper(name)
			n.keys = append(n.keys, up)
			n.vals = append(n.vals, mk())
			if r.Bool() {
				k := len(n.keys)
				n.keys[k-1], n.keys[k-2] = n.keys[k-2], n.keys[k-1]
				n.vals[k-1], n.vals[k-2] = n.vals[k-2], n.vals[k-1]
			}
		}
	}
	return n
}

func flattenPairs(n *cnode, prefix string, out *[]cpair) {
	for i, k := range n.keys {
		p := k
		if prefix != "" {
			p = prefix + "." + k
		}
		if n.vals[i].kind == 'M' {
			flattenPairs(n.vals[i], p, out)
		} else {
			*out = append(*out, cpair{p, n.vals[i]})
		}
	}
}

func collectPaths(n *cnode, prefix string, add func(string)) {
	if n.kind != 'M' {
		return
	}
	for i, k := range n.keys {
		p := k
		if prefix != "" {
			p = prefix + "." + k
		}
		add(p)
		collectPaths(n.vals[i], p, add)
	}
}

// graftDoc sets the path (matched case-insensitively, new keys in lower case) in a document to val; false when a
// non-map is in the way
func graftDoc(n *cnode, segs []string, val *cnode) bool {
	for i, s := range segs {
		idx := -1
		for j, k := range n.keys {
			if strings.EqualFold(k, s) && idx < 0 {
				idx = j
			}
		}
		if i == len(segs)-1 {
			if idx < 0 {
				n.keys = append(n.keys, strings.ToLower(s))
				n.vals = append(n.vals, val)
			} else {
				n.vals[idx] = val
			}
			return true
		}
		if idx < 0 {
			n.keys = append(n.keys, strings.ToLower(s))
			n.vals = append(n.vals, &cnode{kind: 'M'})
			idx = len(n.keys) - 1
		}
		if n.vals[idx].kind != 'M' {
			return false
		}
		n = n.vals[idx]
	}
	return false
}

// graftArgs appends one `path=val` pair to an args loader, spelling the segments as the loader already does
func graftArgs(l *cloader, segs []string, val *cnode) bool {
	t, ok := argsTree(l.pairs)
	if !ok {
		return false
	}
	sp := make([]string, len(segs))
	for i, s := range segs {
		sp[i] = strings.ToLower(s)
		if t == nil {
			continue
		}
		var nx *cnode
		for j, k := range t.keys {
			if strings.EqualFold(k, s) {
				sp[i] = k
				nx = t.vals[j]
				break
			}
		}
		if nx != nil && nx.kind != 'M' && i < len(segs)-1 {
			return false
		}
		t = nx
	}
	l.pairs = append(l.pairs, cpair{strings.Join(sp, "."), val})
	return true
}

// the leaves of the document a loader stands for, without its marker
func cfgLeaves(l *cloader) []cpair {
	var ps []cpair
	if l.kind == "a" {
		ps = append(ps, l.pairs...)
	} else if l.out == 'D' {
		flattenPairs(l.doc, "", &ps)
	}
	var out []cpair
	for _, p := range ps {
		if p.path != fmt.Sprintf("m%d", l.id) {
			out = append(out, p)
		}
	}
	return out
}

func cfgViewOfLoader(l *cloader) *cfgDocView {
	if l.kind == "a" {
		if t, ok := argsTree(l.pairs); ok && len(l.pairs) > 0 {
			return viewOf(t)
		}
		return nil
	}
	if l.out == 'D' && l.doc.kind == 'M' {
		return viewOf(l.doc)
	}
	return nil
}

// cfgRepeatPlan turns loaders[ri], loaders[rj] and the still empty slot rk (ri < rj < rk) into X, Y, X: the slot
// becomes a repetition of loaders[ri] (same bytes in a new loader / the same object / the same file path), the
// classes and orders of the three are chosen so that SortOrderedComponents keeps them in this order, and Y gets a
// different value at one of X's paths.
func (g *cfgGenSt) repeatPlan(loaders []*cloader, ri, rj, rk int) string {
	r := g.r
	x, y := loaders[ri], loaders[rj]
	xa, ya := x.kind == "a", y.kind == "a"
	mode := "bytes"
	switch k := r.Intn(12); {
	case k < 3:
		mode = "="
	case k < 5 && !xa && !ya:
		mode = "~"
	}
	kindFor := func(rank, order int) (string, int) {
		switch {
		case rank == 0 && order == 0 && r.Bool():
			return "f", 0
		case rank == 0:
			return "p", order
		case rank == 1:
			return "o", order
		}
		return "r", order
	}
	rankOf := func(l *cloader) (int, int) {
		switch l.kind {
		case "f":
			return 0, 0
		case "p":
			return 0, l.order
		case "o":
			return 1, l.order
		}
		return 2, 0
	}
	cp := &cloader{id: rk + 1, kind: x.kind, order: x.order, out: x.out, doc: x.doc}
	switch {
	case xa:
		if !ya {
			y.kind = "r"
		}
	case mode == "~":
		x.kind, x.order = "f", 0
		y.kind, y.order = kindFor(0, 0)
	case mode == "=":
		if ya {
			x.kind = "r"
		} else {
			y.kind, y.order = kindFor(rankOf(x))
		}
	default:
		ts := [][2]int{}
		for i := 0; i < 3; i++ {
			ts = append(ts, [2]int{r.Intn(3), []int{-2, -1, 0, 0, 1, 3}[r.Intn(6)]})
		}
		sort.Slice(ts, func(i, j int) bool { return ts[i][0] < ts[j][0] || (ts[i][0] == ts[j][0] && ts[i][1] < ts[j][1]) })
		if ya {
			ts[1][0], ts[2][0] = 2, 2
		}
		x.kind, x.order = kindFor(ts[0][0], ts[0][1])
		if !ya {
			y.kind, y.order = kindFor(ts[1][0], ts[1][1])
		}
		cp.kind, cp.order = kindFor(ts[2][0], ts[2][1])
	}
	if mode != "bytes" {
		cp.kind, cp.order, cp.ref, cp.to = x.kind, x.order, mode, ri+1
	}
	if xa {
		cp.kind = "a"
	}
	// Y differs from X at one of X's paths
	if lv := cfgLeaves(x); len(lv) > 0 {
		for try := 0; try < 3; try++ {
			p := lv[r.Intn(len(lv))]
			val := &cnode{kind: 'P', text: "y" + strconv.Itoa(r.Intn(3))}
			segs := strings.Split(p.path, ".")
			if (ya && graftArgs(y, segs, val)) || (!ya && graftDoc(y.doc, segs, val)) {
				break
			}
		}
	}
	cp.pairs = x.pairs // after a possible change of x (none today) and with x's marker: the same arguments
	loaders[rk] = cp
	return map[string]string{"bytes": "repeat-same-bytes", "=": "repeat-same-object", "~": "repeat-same-path"}[mode]
}

func cfgGenCase(r *hx.Rng) ([]copt, []string, []string) {
	g := &cfgGenSt{r: r, role: map[string]byte{}, conflict: r.P(1, 8), tags: map[string]bool{}}
	nl := 1 + r.Intn(5)
	failing := -1
	if r.P(1, 30) {
		failing = r.Intn(nl)
	}
	// a repeated document: slots ri < rj < rk become X, Y, X (see repeatPlan)
	ri, rj, rk := -1, -1, -1
	if r.P(2, 9) {
		nl, failing = 3+r.Intn(3), -1
		p := r.Perm(nl)[:3]
		sort.Ints(p)
		ri, rj, rk = p[0], p[1], p[2]
	}
	var loaders []*cloader
	kinds := map[string]bool{}
	for i := 0; i < nl; i++ {
		l := &cloader{id: i + 1, out: 'D'}
		if i == rk {
			loaders = append(loaders, l) // filled in by repeatPlan
			continue
		}
		must := i == ri || i == rj
		switch k := r.Intn(20); {
		case k < 6:
			l.kind = "r"
		case k < 11:
			l.kind = "f"
		case k < 15:
			l.kind = "a"
		case k < 17:
			l.kind = "p"
		default:
			l.kind = "o"
		}
		l.order = []int{-2, -1, 0, 0, 1, 3}[r.Intn(6)]
		kinds[l.kind] = true
		marker := &cnode{kind: 'P', text: strconv.Itoa(l.id)}
		mkey := fmt.Sprintf("m%d", l.id)
		if l.kind == "a" {
			if r.P(1, 15) && !must {
				loaders = append(loaders, l) // no --app.config argument at all
				continue
			}
			t := g.mapNode("", 0, true)
			flattenPairs(t, "", &l.pairs)
			if len(l.pairs) > 0 && r.P(1, 8) {
				p := l.pairs[r.Intn(len(l.pairs))]
				l.pairs = append(l.pairs, cpair{p.path, g.scalar(true)})
				g.tags["args-repeat"] = true
			}
			l.pairs = append(l.pairs, cpair{mkey, marker})
			loaders = append(loaders, l)
			continue
		}
		switch {
		case i == failing:
			l.out = 'X'
			g.tags["failing"] = true
		case r.P(1, 14) && !must:
			l.out = 'E'
			g.tags["empty"] = true
		default:
			l.doc = g.mapNode("", 0, false)
			l.doc.keys = append(l.doc.keys, mkey)
			l.doc.vals = append(l.doc.vals, marker)
		}
		loaders = append(loaders, l)
	}
	if rk >= 0 {
		g.tags[g.repeatPlan(loaders, ri, rj, rk)] = true
		kinds = map[string]bool{}
		for _, l := range loaders {
			kinds[l.kind] = true
		}
	}
	// option sequence
	var opts []copt
	i := 0
	if r.P(1, 10) {
		opts = append(opts, copt{op: "SL"})
	}
	for i < nl {
		l := loaders[i]
		first := len(opts) == 0
		var op string
		switch k := r.Intn(20); {
		case l.kind == "f" && l.ref != "=" && (k < 10 || (k < 18 && (l.ref == "~" || (rk >= 0 && loaders[rk].ref == "~" && i == ri)))):
			op = "SF" // SetConfig with a path it was given before: mostly through SetConfig both times
		case k < 4 || (first && k < 11):
			op = "SL"
		case k < 5:
			op = "SC"
		case k < 13:
			op = "AL"
		default:
			op = "CA"
		}
		if rk >= 0 && i > ri && (op == "SL" || op == "SC") {
			// no set after X in a repeated-document case (three cases in four would lose the pattern)
			op = map[string]string{"SL": "AL", "SC": "CA"}[op]
		}
		o := copt{op: op, ls: []*cloader{l}}
		i++
		for op != "SF" && i < nl && r.P(1, 3) {
			o.ls = append(o.ls, loaders[i])
			i++
		}
		opts = append(opts, o)
	}
	if opts[0].op != "SL" && opts[0].op != "SC" {
		g.tags["default-kept"] = true
	}
	if rk >= 0 {
		// is the pattern X, Y, X there in the effective loader sequence, with X and Y disagreeing on a leaf?
		seq, _ := cfgSeq(opts)
		pos := map[*cloader]int{}
		for j, l := range seq {
			pos[l] = j + 1
		}
		px, py, pc := pos[loaders[ri]], pos[loaders[rj]], pos[loaders[rk]]
		vx, vy := cfgViewOfLoader(loaders[ri]), cfgViewOfLoader(loaders[rj])
		differ := false
		if vx != nil && vy != nil {
			for p, a := range vx.leaf {
				if b, ok := vy.leaf[p]; ok && a != b {
					differ = true
				}
			}
		}
		if 0 < px && px < py && py < pc && differ {
			g.tags["repeat-xyx"] = true
		}
	}
	// query paths
	seen := map[string]bool{}
	var paths []string
	add := func(p string) {
		if !seen[strings.ToLower(p)] && len(paths) < 28 {
			seen[strings.ToLower(p)] = true
			if r.P(1, 3) {
				p = strings.ToLower(p)
			}
			paths = append(paths, p)
		}
	}
	for _, l := range loaders {
		add(fmt.Sprintf("m%d", l.id))
	}
	for _, j := range r.Perm(nl) {
		l := loaders[j]
		if l.kind == "a" {
			if t, ok := argsTree(l.pairs); ok {
				collectPaths(t, "", add)
			}
		} else if l.out == 'D' {
			collectPaths(l.doc, "", add)
		}
	}
	if len(paths) > 0 {
		add(paths[r.Intn(len(paths))] + ".zz")
	}
	add("zz")
	add("a.zz.b")
	paths = append(paths, "")
	tags := []string{fmt.Sprintf("loaders%d", nl), fmt.Sprintf("opts%d", len(opts))}
	for k := range kinds {
		tags = append(tags, "kind-"+k)
	}
	for k := range g.tags {
		tags = append(tags, k)
	}
	if g.conflict {
		tags = append(tags, "conflict-forced")
	}
	for _, o := range opts {
		tags = append(tags, "op-"+o.op)
	}
	sort.Strings(tags)
	var uniq []string
	for j, t := range tags {
		if j == 0 || t != tags[j-1] {
			uniq = append(uniq, t)
		}
	}
	if nl == 1 {
		uniq = append(uniq, "trivial")
	}
	return opts, paths, uniq
}

// cfgGenMany: 12-40 loaders of mixed order classes with forced overlaps (see the head of the file). No `set`
// option after the first one, so the effective loader list is (the default ArgsLoader and) all loaders of the line.
func cfgGenMany(r *hx.Rng) ([]copt, []string, []string) {
	g := &cfgGenSt{r: r, role: map[string]byte{}, conflict: false, tags: map[string]bool{}}
	nl := 12 + r.Intn(29)
	switch r.Intn(6) {
	case 0:
		nl = 12 + r.Intn(3) // around the size where sort.Slice leaves insertion sort (13 with the default loader)
	case 1:
		nl = 13 + r.Intn(8)
	}
	// class weights (out of 20): plain raw, args, file, priority, ordered
	mode := r.Intn(4)
	wts := [][5]int{{11, 4, 2, 1, 2}, {11, 4, 2, 1, 2}, {5, 3, 4, 4, 4}, {2, 1, 1, 8, 8}}[mode]
	failing := -1
	if r.P(1, 40) {
		failing = r.Intn(nl)
	}
	nested := r.Bool() // chain keys below the map `n` (deep merge) or at the top level
	var loaders []*cloader
	for i := 0; i < nl; i++ {
		l := &cloader{id: i + 1, out: 'D'}
		k := r.Intn(20)
		for j, kind := range []string{"r", "a", "f", "p", "o"} {
			if k < wts[j] {
				l.kind = kind
				break
			}
			k -= wts[j]
		}
		if mode < 2 && i < 3 && r.P(3, 4) {
			l.kind = "r" // none-ordered loaders first: the list is not in class order when an ordered one follows
		}
		l.order = []int{-2, -1, 0, 0, 1, 3}[r.Intn(6)]
		loaders = append(loaders, l)
	}
	if mode < 2 {
		// at least one priority/ordered loader after a none-ordered one
		j := 1 + r.Intn(nl-1)
		if r.P(1, 3) {
			j = nl - 1
		}
		loaders[j].kind = []string{"f", "f", "p", "o"}[r.Intn(4)]
		if loaders[0].kind != "a" {
			loaders[0].kind = "r"
		}
	}
	// a class of 13 or more members holds no two equal Order() values (a file loader's Order() is 0)
	for _, cls := range []string{"fp", "o"} {
		var mem []*cloader
		for _, l := range loaders {
			if strings.Contains(cls, l.kind) {
				mem = append(mem, l)
			}
		}
		if len(mem) < 13 {
			continue
		}
		g.tags["big-class"] = true
		pool := r.Perm(2*len(mem) + 1) // orders -len..len
		fileSeen := false
		pi := 0
		for _, l := range mem {
			if l.kind == "f" && !fileSeen {
				fileSeen = true
				continue
			}
			l.kind = cls[len(cls)-1:]
			if pool[pi]-len(mem) == 0 {
				pi++
			}
			l.order = pool[pi] - len(mem)
			pi++
		}
	}
	kinds := map[string]bool{}
	common := r.P(3, 4)
	for i, l := range loaders {
		kinds[l.kind] = true
		own := &cnode{kind: 'P', text: "v" + strconv.Itoa(l.id)}
		marker := &cnode{kind: 'P', text: strconv.Itoa(l.id)}
		mkey := fmt.Sprintf("m%d", l.id)
		chain := []string{fmt.Sprintf("s%d", l.id), fmt.Sprintf("s%d", l.id+1)}
		if nested {
			chain = []string{"n." + chain[0], "n." + chain[1]}
		}
		if common && r.P(4, 5) {
			chain = append(chain, "z")
		}
		if l.kind == "a" {
			if r.P(1, 30) {
				continue // no --app.config argument at all
			}
			if r.P(1, 2) {
				t := g.mapNode("", 0, true)
				flattenPairs(t, "", &l.pairs)
			}
			for _, c := range chain {
				l.pairs = append(l.pairs, cpair{c, own})
			}
			l.pairs = append(l.pairs, cpair{mkey, marker})
			continue
		}
		switch {
		case i == failing:
			l.out = 'X'
			g.tags["failing"] = true
		case r.P(1, 30):
			l.out = 'E'
			g.tags["empty"] = true
		default:
			if r.P(1, 2) {
				l.doc = g.mapNode("", 0, false)
			} else {
				l.doc = &cnode{kind: 'M'}
			}
			for _, c := range chain {
				graftDoc(l.doc, strings.Split(c, "."), own)
			}
			l.doc.keys = append(l.doc.keys, mkey)
			l.doc.vals = append(l.doc.vals, marker)
		}
	}
	// option sequence: only the first option may be a set
	var opts []copt
	for i := 0; i < nl; {
		l := loaders[i]
		var op string
		switch k := r.Intn(20); {
		case l.kind == "f" && k < 10:
			op = "SF"
		case len(opts) == 0 && k < 14:
			op = []string{"SL", "SL", "SC"}[r.Intn(3)]
		case k < 15:
			op = "AL"
		default:
			op = "CA"
		}
		o := copt{op: op, ls: []*cloader{l}}
		i++
		for op != "SF" && i < nl && r.P(4, 5) {
			o.ls = append(o.ls, loaders[i])
			i++
		}
		opts = append(opts, o)
	}
	if opts[0].op != "SL" && opts[0].op != "SC" {
		g.tags["default-kept"] = true
	}
	// query paths: every marker, every chain key, the common key, the paths of the random trees
	seen := map[string]bool{}
	var paths []string
	add := func(p string) {
		if !seen[strings.ToLower(p)] && len(paths) < 3*nl+24 {
			seen[strings.ToLower(p)] = true
			paths = append(paths, p)
		}
	}
	for _, l := range loaders {
		add(fmt.Sprintf("m%d", l.id))
	}
	for i := 1; i <= nl+1; i++ {
		if nested {
			add(fmt.Sprintf("n.s%d", i))
		} else {
			add(fmt.Sprintf("s%d", i))
		}
	}
	add("z")
	if nested {
		add("n")
	}
	for _, j := range r.Perm(nl) {
		l := loaders[j]
		if l.kind == "a" {
			if t, ok := argsTree(l.pairs); ok {
				collectPaths(t, "", add)
			}
		} else if l.out == 'D' {
			collectPaths(l.doc, "", add)
		}
	}
	paths = append(paths, "zz", "")
	size := "loaders12-14"
	switch {
	case nl > 24:
		size = "loaders25-40"
	case nl > 14:
		size = "loaders15-24"
	}
	tags := []string{"many-loaders", size, fmt.Sprintf("many-mode%d", mode)}
	for k := range kinds {
		tags = append(tags, "kind-"+k)
	}
	for k := range g.tags {
		tags = append(tags, k)
	}
	for _, o := range opts {
		tags = append(tags, "op-"+o.op)
	}
	sort.Strings(tags)
	var uniq []string
	for j, t := range tags {
		if j == 0 || t != tags[j-1] {
			uniq = append(uniq, t)
		}
	}
	return opts, paths, uniq
}

// cfgGenMulti: a history on one live App or bare Configure (tag `multi-init`): the source set and option sequence of
// cfgGenCase, cut into batches by 1-3 `IN` marks (Initialize now); set-type options after the first Initialize mostly
// become add-type ones (sources are ADDED to a running container).  Tag `late-front`: a priority / ordered / file
// loader is added after an Initialize that already loaded a none-ordered one, i.e. the new source sorts in front of
// sources loaded before.
func cfgGenMulti(r *hx.Rng) ([]copt, []string, []string) {
	base, paths, tags0 := cfgGenCase(r)
	bare := r.P(1, 3)
	gaps := len(base) + 1 // an `IN` may stand before the first option and after the last one
	cut := map[int]bool{}
	for g := 0; g < gaps; g++ {
		if r.P(1, 3) && len(cut) < 3 {
			cut[g] = true
		}
	}
	if len(cut) == 0 {
		g := r.Intn(len(base))
		if r.P(1, 6) {
			g = len(base)
		}
		cut[g] = true
	}
	var opts []copt
	if bare {
		opts = append(opts, copt{op: "CF"})
	}
	phase := 0
	for g := 0; g < gaps; g++ {
		if cut[g] {
			opts = append(opts, copt{op: "IN"})
			phase++
		}
		if g == len(base) {
			break
		}
		o := base[g]
		if bare && o.op == "SC" {
			o.op = "SL"
		}
		if phase > 0 && (o.op == "SL" || o.op == "SC") && r.P(3, 4) {
			o.op = map[string]string{"SL": "AL", "SC": "CA"}[o.op]
		}
		opts = append(opts, o)
	}
	// late-front?
	_, phases := cfgSplit(opts)
	var cur []*cloader
	plainLoaded, lateFront := !bare, false // an App starts with the default ArgsLoader
	for k, ph := range phases {
		for _, o := range ph {
			if o.op == "SL" || o.op == "SC" {
				plainLoaded = false
			} else if k > 0 && plainLoaded {
				for _, l := range o.ls {
					if l.kind == "f" || l.kind == "p" || l.kind == "o" {
						lateFront = true
					}
				}
			}
			cur = cfgApply(cur, o, map[int]bool{})
		}
		for _, l := range cur {
			if l.kind == "r" || l.kind == "a" {
				plainLoaded = true
			}
		}
	}
	tags := []string{"multi-init", fmt.Sprintf("inits%d", len(phases))}
	if bare {
		tags = append(tags, "bare-configure")
	}
	if lateFront {
		tags = append(tags, "late-front")
	}
	for _, t := range tags0 {
		if t != "trivial" && !strings.HasPrefix(t, "op-") && !strings.HasPrefix(t, "opts") && t != "default-kept" {
			tags = append(tags, t)
		}
	}
	for _, o := range opts {
		if o.op != "IN" && o.op != "CF" {
			tags = append(tags, "op-"+o.op)
		}
	}
	sort.Strings(tags)
	var uniq []string
	for j, t := range tags {
		if j == 0 || t != tags[j-1] {
			uniq = append(uniq, t)
		}
	}
	return opts, paths, uniq
}

// cfgAddCmdline: about one generated App line in three gets a process command line (`OA`, tag `cmdline`): 1-4
// `--app.config` arguments on leaf paths that loaders of the line supply as well (each with a value of its own),
// sometimes a small random tree next to them, and the marker m0.  The choice is drawn from a PRNG seeded by the line
// itself, so the lines without a command line are the ones the generators above produce.  Tag `cmdline-shared-plain`:
// the command line is in the effective loader list and a non-file, none-ordered loader behind it in the loader sequence
// supplies one of its leaf paths with another value (the later loader must win).
func cfgAddCmdline(opts []copt, paths, tags []string) ([]copt, []string, []string) {
	if len(opts) > 0 && opts[0].op == "CF" {
		return opts, paths, tags
	}
	h := fnv.New64a()
	h.Write([]byte(cfgScn(opts, paths)))
	r := hx.NewRng(h.Sum64())
	if !r.P(1, 3) {
		return opts, paths, tags
	}
	var all []*cloader
	seenL := map[*cloader]bool{}
	for _, o := range opts {
		for _, l := range o.ls {
			if !seenL[l] {
				seenL[l] = true
				all = append(all, l)
			}
		}
	}
	cl := &cloader{kind: "a", out: 'D', id: 0}
	g := &cfgGenSt{r: r, role: map[string]byte{}, tags: map[string]bool{}}
	used := map[string]bool{}
	try := func(path string, val *cnode) {
		path = strings.ToLower(path)
		if used[path] || strings.HasPrefix(path, "m") && len(path) > 1 && path[1] >= '0' && path[1] <= '9' {
			return
		}
		if _, ok := argsTree(append(append([]cpair{}, cl.pairs...), cpair{path, val})); !ok {
			return
		}
		// a path below or above one already given would change that one's role inside this one loader
		for q := range used {
			if strings.HasPrefix(q, path+".") || strings.HasPrefix(path, q+".") {
				return
			}
		}
		used[path] = true
		cl.pairs = append(cl.pairs, cpair{path, val})
	}
	own := func(k int) *cnode {
		if r.P(1, 4) {
			return g.leaf(true, 0)
		}
		return &cnode{kind: 'P', text: "c" + strconv.Itoa(k)}
	}
	if len(all) > 0 {
		for k := 1 + r.Intn(4); k > 0; k-- {
			lv := cfgLeaves(all[r.Intn(len(all))])
			if len(lv) == 0 {
				continue
			}
			try(lv[r.Intn(len(lv))].path, own(k))
		}
	}
	if len(cl.pairs) == 0 || r.P(1, 3) {
		var ps []cpair
		flattenPairs(g.mapNode("", 0, true), "", &ps)
		for _, p := range ps {
			try(p.path, p.val)
		}
	}
	if !r.P(1, 12) {
		cl.pairs = append(cl.pairs, cpair{"m0", &cnode{kind: 'P', text: "0"}})
	}
	if len(cl.pairs) == 0 {
		return opts, paths, tags
	}
	opts = append([]copt{{op: "OA", ls: []*cloader{cl}}}, opts...)
	// query paths: the command line's own, before the final ""
	seen := map[string]bool{}
	for _, p := range paths {
		seen[strings.ToLower(p)] = true
	}
	var extra []string
	if t, ok := argsTree(cl.pairs); ok {
		collectPaths(t, "", func(p string) {
			if !seen[strings.ToLower(p)] {
				seen[strings.ToLower(p)] = true
				extra = append(extra, p)
			}
		})
	}
	if n := len(paths); n > 0 && paths[n-1] == "" {
		paths = append(append(append([]string{}, paths[:n-1]...), extra...), "")
	} else {
		paths = append(append([]string{}, paths...), extra...)
	}
	tags = append(append([]string{}, tags...), "cmdline")
	// is the command line in the effective list with a later plain loader disagreeing on one of its leaves?
	seq, _ := cfgSeq(opts)
	if vc := cfgViewOfLoader(cl); vc != nil {
		after := false
		for _, l := range seq {
			if l == cl {
				after = true
				continue
			}
			if !after {
				continue
			}
			if vl := cfgViewOfLoader(l); vl != nil {
				for p, a := range vc.leaf {
					if b, ok := vl.leaf[p]; ok && a != b {
						tags = append(tags, "cmdline-shared-plain")
						after = false
						break
					}
				}
			}
		}
		for _, x := range seq {
			if x == cl {
				tags = append(tags, "cmdline-effective")
			}
		}
	}
	sort.Strings(tags)
	var uniq []string
	for j, t := range tags {
		if t == "trivial" { // the command line is a second source
			continue
		}
		if j == 0 || t != tags[j-1] {
			uniq = append(uniq, t)
		}
	}
	return opts, paths, uniq
}

func cfgGen(rng *hx.Rng, n int, tier string, w *hx.Writer) {
	for _, a := range os.Args {
		if strings.HasPrefix(a, "--app.config") {
			panic("harness config: the harness command line must not contain --app.config arguments")
		}
	}
	env := newCfgEnv()
	defer func() { env.close() }()
	for i := 0; i < n; i++ {
		r := rng.Fork()
		var opts []copt
		var paths, tags []string
		if i%25 == 12 {
			opts, paths, tags = cfgGenMany(r)
		} else if i%5 == 3 {
			opts, paths, tags = cfgGenMulti(r)
		} else {
			opts, paths, tags = cfgGenCase(r)
		}
		opts, paths, tags = cfgAddCmdline(opts, paths, tags)
		cfgRun(env, opts, paths, tags, w)
		if i%200 == 199 {
			env.close()
			env = newCfgEnv()
		}
	}
	// seventh round: lines under an environment (`EV`), from fresh forks after all lines above
	env.close()
	env = newCfgEnv()
	for i := 0; i < (n+19)/20; i++ {
		ev, opts, paths, tags := cfgGenEnv(rng.Fork())
		cfgRunEnv(env, ev, opts, paths, tags, w)
	}
	// ninth round, again from fresh forks after all lines above: a config file that is a named pipe (n/25 lines), and
	// process histories with sources registered through app.Settings (n/50 lines, at most 400: one child process each)
	env.close()
	env = newCfgEnv()
	for i := 0; i < (n+24)/25; i++ {
		opts, paths, tags := cfgGenPipe(rng.Fork())
		opts, paths, tags = cfgAddCmdline(opts, paths, tags)
		cfgRun(env, opts, paths, tags, w)
	}
	np := (n + 49) / 50
	if np > 400 {
		np = 400
	}
	for i := 0; i < np; i++ {
		opts, paths, tags := cfgGenProc(rng.Fork())
		cfgRun(env, opts, paths, tags, w)
	}
}
