package main

// sub-harness `graph` (C01 C02 C03 C05 C06 C07 C08 C09 C10 C13): real App.Run over the fixed type universe
// with per-instance (dynamic) tags, imposed enumeration orders, substituting post-processor and fault flags.
//
// Scenario line (records separated by " | "):
//   G
//   X <loaderFail> <scanFail>
//   K <row,row,…>                      GetMetas enumeration order (imposed through the verif hook)
//   B <row,row,…|->                    non-lazy user post-processors in the order the boot phase creates them
//   R <row> <name> <ty> <impl> <custom> <primary> <lazy> <qual|~> <meths|.>     one per registered component
//   N <row> <utype> <cust> <q> <r> <ord> <early> <after> <flt> <cfg> <wired> [<fetch|-> [<progQ|-> [<runAfter> [x]]]]   universe instances only
//       (runAfter: 1 + the node whose Run must precede this runner's, 0 = none; x: the node is not handed to the start, its
//        definition is registered by a factory post-processor of the harness — such lines are `#extra`, oracle-only)
//   F <row> <slot> <kind> <target> <w|f> <tag>                                  injection points in scan order
// Observation:
//   st=<ok|err.<stage>|panic|hang> ev=<events> [fl=<row.slot:objs;…> pub=<row:obj,…>]      (fl/pub only when ok)

import (
	"fmt"
	"os"
	"sync/atomic"
	"reflect"
	"sort"
	"strconv"
	"strings"
	"time"

	ioc "github.com/go-kid/ioc"
	"github.com/go-kid/ioc/app"
	"github.com/go-kid/ioc/configure"
	"github.com/go-kid/ioc/configure/loader"
	"github.com/go-kid/ioc/container"
	"github.com/go-kid/ioc/container/factory"
	"github.com/go-kid/ioc/container/support"
	"github.com/go-kid/ioc/definition"
	"github.com/go-kid/ioc/syslog"
	"github.com/go-kid/ioc/util/framework_helper"

	"verifharness/internal/hx"
)

func init() {
	register(&Sub{Name: "graph", Gen: graphGen, Replay: graphReplay, Corpus: graphCorpus})
}

type gNode struct {
	ty                    int
	cust, q, r            string
	ord, early, after, flt int
	fetch                 string            // Init fetches this component by name (re-entrant callback; such scenarios are oracle-only)
	progQ                 string            // qualifier attached in code by a T25 processor (such scenarios are oracle-only)
	cfg                   int               // 0 none, 1 literal, 2 absent key required, 3 absent key optional, 4 absent key with default
	slots                 map[string]string // slot → 'w'|'f' + tag text
	runAfter              int               // runner types: 1 + the node whose Run must have been invoked before this one's (0 = none); Run
	                                        // reports an error otherwise. The prerequisite always sorts strictly before by the ordering contract.
	extra                 bool              // not handed to the start: its (non-lazy) definition is registered by a factory post-processor of the
	                                        // harness through GetDefinitionRegistry().RegisterMeta (such scenarios are oracle-only)
}

type gScen struct {
	nodes      []gNode
	loaderFail bool
	scanFail   bool
	rankSeed   uint64 // seed of the imposed enumeration orders
	prefill    []int  // rows whose specified slots are pre-filled (before Run) with unregistered dummy objects: the container
	                  // replaces what it injects and leaves alone what it does not
	zs         int    // number of registered ZERO-SIZE components (types Z0..Z2, all implementing Ifc0): Go gives every
	                  // pointer to a zero-size value the same address, so identity-by-address conflates them
	natural    bool   // do not impose any order (Go's own sync.Map order)
	hist       int    // history before / around this start (the model knows nothing of it: a start is a function of its own inputs):
	                  // 1 = the SAME component objects were started once before, in another App (state reset to what a user
	                  //     would reset: nothing — only the harness's own counters); 2 = between this App's start and its
	                  //     post-start lookups ANOTHER App is started on fresh objects with the same names and rotated qualifiers
	                  // 3 = the start goes through the package-level entry points: the first half of the universe components is
	                  //     registered with ioc.Register, the start is ioc.Run with the usual options (ioc.Register's list is
	                  //     never cleared: at most one such start per process, the last one); 4 = like 1, but in the earlier
	                  //     start the custom names of the components were handed round (Naming() answers differently now)
	                  // 5 = like 2, but the OTHER application registers its components under other names (every custom name with the
	                  //     suffix "~v") and has no injection points: a name of this application is absent from that one and vice versa
	reuse      []node // hist 1 / 4, set by the prelude: the objects to start again
}

// points declared with real struct tags (type 32): name → 'f'/'w' + tag text, in declaration order (after every Base slot)
var staticSlotTags = map[string]string{"FQ": "fF2,qualifier=a,required=false", "FS": "fF1,returns=*,qualifier=b,required=false",
	"T0": "w,required=false", // (type 33: the anonymous field `*T0`, Go field name "T0")
	"T1": "weptarget",        // (type 34: the anonymous field `*T1`, wired by name, required)
	"DA": "w", "DB": "w"}     // (type 37: the fields depA.Dep and depB.Dep — one Go field name, one tag text, two types; required)

// where a statically tagged point lives when its label is not a selector of the holder (type 37: t.Dep is ambiguous)
var staticSlotPath = map[string][]string{"DA": {"depA", "Dep"}, "DB": {"depB", "Dep"}}

// staticField: the struct field / the value of a statically tagged point of a holder
func staticFieldType(ht reflect.Type, label string) reflect.Type {
	if path, ok := staticSlotPath[label]; ok {
		for _, nm := range path {
			sf, _ := ht.FieldByName(nm)
			ht = sf.Type
		}
		return ht
	}
	sf, _ := ht.FieldByName(label)
	return sf.Type
}

func staticFieldValue(hv reflect.Value, label string) reflect.Value {
	if path, ok := staticSlotPath[label]; ok {
		for _, nm := range path {
			hv = hv.FieldByName(nm)
		}
		return hv
	}
	return hv.FieldByName(label)
}

func staticSlotsOf(ty int) []string {
	switch ty {
	case 32:
		return []string{"FQ", "FS"}
	case 33:
		return []string{"T0"}
	case 34:
		return []string{"T1"}
	case 37:
		return []string{"DA", "DB"}
	}
	return nil
}

func hasStaticSlots(ty int) bool { return len(staticSlotsOf(ty)) > 0 }

// tagOptional reads the `required` argument off the tag TEXT (independently of the library's tag parser): the point is optional
// when the argument holds the value "false" — `required=false`, or with blanks between the values: `required= false`
func tagOptional(tag string) bool {
	return strings.Contains(tag, ",required=false") || strings.Contains(tag, ",required= false")
}

const (
	wireScannerName = "github.com/go-kid/ioc/container/processors/dependencyAwarePostProcessors"
	funcScannerName = "github.com/go-kid/ioc/container/processors/dependencyFunctionAwarePostProcessors"
	dynScannerName  = "main/dynCompScanner"
)

// staticFirst: the definition scanners run in the order the singleton registry enumerates them (rank2), each appending to
// the holder's property list: the points declared with real struct tags (the library's wire / func scanner) come before
// the Base slots (the harness's dynamic scanner) exactly when their scanner is enumerated first.  (Natural-order runs are
// oracle-only and do not depend on this.)
func (r *gRun) staticFirst(ty int) bool {
	if r.rank2 == nil || r.sc.natural {
		return true
	}
	sc := wireScannerName
	if ty == 32 {
		sc = funcScannerName
	}
	a, ok1 := r.rank2[sc]
	b, ok2 := r.rank2[dynScannerName]
	if !ok1 || !ok2 {
		return true
	}
	return a < b
}

var ifaceTypes = []reflect.Type{
	reflect.TypeOf((*Ifc0)(nil)).Elem(), reflect.TypeOf((*Ifc1)(nil)).Elem(),
	reflect.TypeOf((*Ifc2)(nil)).Elem(), reflect.TypeOf((*Ifc3)(nil)).Elem(),
	reflect.TypeOf((*any)(nil)).Elem(),
	reflect.TypeOf((*definition.ApplicationRunner)(nil)).Elem(),
	reflect.TypeOf((*definition.CloserComponent)(nil)).Elem(),
}

var cfgTags = []string{"", "lit", "${absent.key}", "${absent.key},required=false", "${absent.key:dflt}", "", "", "",
	"${present}", "${nest.${sel}}", "${absent.${sel}}", "", ""}

// the configuration document of every start: `sec` has DECOY siblings of its key `a` (spellings that differ by `_` / `-`,
// which no field asks for), `nest` is reached through a placeholder inside a placeholder
const graphConfigDoc = "present: cfgval\nsel: inner\nnest:\n  inner: deep\nsec:\n  _a: decoy1\n  a: good\n  a-: decoy2\n  a_: decoy3\ntm: 2024-05-06T07:08:09Z\nbadsec: [1, 2]\n"

// cfg 13: W0 bound by prefix to `badsec`, a LIST: the decoder refuses it — the creation of the holder fails, every time it is tried

// what the V slot (cfg 1, 4, 8, 9) and W0.A (cfg 11) hold after a successful creation
var cfgExpectV = map[int]string{1: "lit", 4: "dflt", 8: "cfgval", 9: "deep"}

// cfg 5: an OPTIONAL prefix point on a section nobody configured; 6: a REQUIRED one (the start fails); 7: both on one holder,
// the optional one declared first (the start fails all the same)
var cfgPrefix = map[int][2]string{5: {"absent.sec,required=false", ""}, 6: {"", "absent.sec"}, 7: {"absent.sec,required=false", "absent.sec"},
	11: {"sec", ""}, 13: {"badsec", ""}}

// cfg 12: a time.Time field bound by prefix WITH a validate argument: the configured time is valid, the start succeeds (since
// the repair of defect D25; before it the validate stage handed the time to validator.Struct, which refuses it)
const cfgTimeTag = "tm,validate=required"

type failLoader struct{}

func (failLoader) LoadConfig() ([]byte, error) { return nil, fmt.Errorf("injected fault: loader") }

type gRow struct {
	name    string
	obj     any
	ty      int
	impl    int
	custom  bool
	primary bool
	lazy    bool
	qual    *string
	meths   string
	ocls    string
	okey    int
	inj     string // "~" or "<ty>/<impl>" of the foreign-type substitute that holders receive instead of this component
	hasInj  bool
	injTy   int
	injImpl int
}

type gRun struct {
	sc       *gScen
	rows     []gRow
	rowOf    map[string]int
	status   string
	errText  string
	events   []string
	fields   map[string][]string // "row.slot" → objs
	pubs     map[int]string
	created  map[string]bool
	order    []int // GetMetas order as row indices
	boot     []int
	retries  []string // "<row>:<ok>" per post-start lookup of a fail-once component
	createdAt, firstAtt, succAtt map[int]int // post-start lookups: in which attempt a node completed / a looked-up node was first tried / succeeded
	oldEarly     []string // after retries: slots of holders COMPLETED IN THE SUCCESSFUL ATTEMPT that were given an early substitute made during an earlier, FAILED attempt
	wiped        []string // slots of pre-filled holders that held a dummy before the start and hold nothing after it
	spellingHits []string
	startCreated map[int]bool // nodes whose creation completed during Run itself
	inits        map[int]int  // how often Init ran on each node's registered instance, read at the very end
	lost         []string // names of components that were handed to the start but are not in the registry afterwards
	shadowBad    []string // T30: the embedded struct's field differs from Base's field of the same name and tag
	cfgBad       []string // configuration slots of created nodes that do not hold the configured value
	typeNameHits []string // custom-named nodes whose default (type) name resolved in a lookup although nothing is registered under it
	slotInfo map[string][3]string // "row.slot" → kind,target,tagkind+tag
	appRow   int
	nodesObj []node
	rank2    map[string]int
	zcalls   map[string]int
	nested   []string
}

// rowNames: universe nodes first (scenario order), then every other registered component sorted by name.
// variantScen: the same components under the same names, the qualifier values of the qualifier-carrying types handed round
// (reversed), no history of its own — what ANOTHER application of the same process could look like
func variantScen(sc *gScen) *gScen {
	v := cloneScen(sc)
	v.hist, v.reuse = 0, nil
	if sc.hist == 5 {
		// other names, no points, no lookups: it is started for what its start leaves behind in the process
		for i := range v.nodes {
			if v.nodes[i].cust != "" {
				v.nodes[i].cust += "~v"
			}
			v.nodes[i].slots = map[string]string{}
			v.nodes[i].flt &^= fltLookup
		}
		return v
	}
	var idx []int
	for i, n := range v.nodes {
		if n.ty < len(utInfos) && utInfos[n.ty].qual {
			idx = append(idx, i)
		}
	}
	for a, b := 0, len(idx)-1; a < b; a, b = a+1, b-1 {
		v.nodes[idx[a]].q, v.nodes[idx[b]].q = v.nodes[idx[b]].q, v.nodes[idx[a]].q
	}
	return v
}

func runGraph(sc *gScen) *gRun {
	if (sc.hist == 1 || sc.hist == 4) && sc.reuse == nil {
		// the same objects are started once before, in an App of their own; whatever that start left in them is what a second
		// start finds (only the harness's own counters are reset)
		pre := cloneScen(sc)
		pre.hist = 0
		if sc.hist == 4 {
			// the same objects under OTHER custom names: every custom-named node takes the name of the next one
			var idx []int
			for i, n := range pre.nodes {
				if n.cust != "" {
					idx = append(idx, i)
				}
			}
			if len(idx) > 1 {
				first := pre.nodes[idx[0]].cust
				for k := 0; k+1 < len(idx); k++ {
					pre.nodes[idx[k]].cust = pre.nodes[idx[k+1]].cust
				}
				pre.nodes[idx[len(idx)-1]].cust = first
			}
			for i := range pre.nodes { // by-name points of the earlier start would dangle: it is started for its side effects only
				pre.nodes[i].slots = map[string]string{}
			}
		}
		if r0 := runGraph(pre); r0.status != "dupname" && r0.status != "hang" && len(r0.nodesObj) == len(sc.nodes) {
			again := *sc
			again.reuse = r0.nodesObj
			r := runGraph(&again)
			r.sc = sc
			return r
		}
	}
	env := &runEnv{clones: map[string]map[int]node{}, byPtr: map[any]string{}, closed: map[string]int{}, dummies: map[any]bool{},
		cloneGen: map[any]int{}, freshEarly: sc.retry()}
	res := &gRun{sc: sc, rowOf: map[string]int{}, fields: map[string][]string{}, pubs: map[int]string{}, slotInfo: map[string][3]string{}}
	var comps []any
	var extras []node
	for i, gn := range sc.nodes {
		n := universeCtors[gn.ty]()
		if sc.reuse != nil {
			n = sc.reuse[i]
			rb := n.base()
			rb.initRuns, rb.Inits, rb.initSnap, rb.Fetched = 0, 0, nil, nil
		}
		b := n.base()
		b.Idx, b.Cust, b.Q, b.R, b.Ord, b.EarlyVer, b.AfterVer, b.Flt = i, gn.cust, gn.q, gn.r, gn.ord, gn.early, gn.after, gn.flt
		b.spec = gn.slots
		b.Fetch = gn.fetch
		b.ProgQ = gn.progQ
		b.env = env
		b.V = "SENTINEL"
		for _, pr := range sc.prefill {
			if pr == i {
				prefillSlots(b, gn.slots, env)
			}
		}
		if gn.cfg > 0 && gn.cfg < len(cfgTags) && cfgTags[gn.cfg] != "" {
			t := cfgTags[gn.cfg]
			b.cfgSpec = &t
		}
		if gn.cfg == 12 {
			b.tSpec = cfgTimeTag
		}
		if w, ok := cfgPrefix[gn.cfg]; ok {
			b.wSpec = w
		}
		b.RunAfter = gn.runAfter
		res.nodesObj = append(res.nodesObj, n)
		if gn.extra {
			extras = append(extras, n)
			continue
		}
		comps = append(comps, n)
	}
	handed := len(comps) // the universe components handed to the start (all of them, unless some are `extra`)
	obs := &obsPP{env: env}
	comps = append(comps, obs, newDynCompScanner(), newDynCfgScanner(), &reRegScanner{})
	if len(extras) > 0 {
		comps = append(comps, &extraDefs{extras: extras})
	}
	if sc.scanFail {
		comps = append(comps, &failScanner{})
	}
	for i := 0; i < sc.zs && i < len(zeroSizeCtors); i++ {
		comps = append(comps, zeroSizeCtors[i]())
	}
	// names known before the run: ours + the built-ins (from a dry run)
	var names []string
	for _, n := range res.nodesObj {
		names = append(names, framework_helper.GetComponentName(n))
	}
	var others []string
	for _, c := range comps[handed:] {
		others = append(others, framework_helper.GetComponentName(c))
	}
	others = append(others, builtinNames()...)
	sort.Strings(others)
	names = append(names, others...)
	for i, n := range names {
		if _, dup := res.rowOf[n]; dup {
			res.status = "dupname"
			return res
		}
		res.rowOf[n] = i
	}
	if sc.natural && sc.hist != 3 {
		// no order is imposed: the REGISTRATION order (the order of the arguments of app.SetComponents) is permuted too — a
		// function of the seed of this run; nothing about a start may depend on it
		sh := hx.NewRng(sc.rankSeed ^ 0x9e3779b97f4a7c15)
		pm := sh.Perm(len(comps))
		shuffled := make([]any, len(comps))
		for i, j := range pm {
			shuffled[i] = comps[j]
		}
		comps = shuffled
	}
	// enumeration order
	rng := hx.NewRng(sc.rankSeed)
	perm := rng.Perm(len(names))
	rank := map[string]int{}
	res.order = make([]int, len(names))
	for pos, row := range perm {
		rank[names[row]] = pos
		res.order[pos] = row
	}
	rank2 := map[string]int{}
	for pos, row := range rng.Perm(len(names)) {
		rank2[names[row]] = pos
	}
	// the observing processor is registered first among the unordered processors, so that it is active for every
	// later boot-phase creation (the model's `wired`/`logged` then need no third state)
	rank2[framework_helper.GetComponentName(obs)] = -1
	res.rank2 = rank2
	tr := &traceSCR{SingletonComponentRegistry: support.DefaultSingletonComponentRegistry(), created: map[string]bool{},
		short: func(n string) string { return strconv.Itoa(res.rowOf[n]) }}
	var dr container.DefinitionRegistry = &permDR{DefinitionRegistry: support.DefaultDefinitionRegistry(), rank: rank}
	var sr container.SingletonRegistry = &permSR{SingletonRegistry: support.NewRegistry(), rank: rank2}
	if sc.natural {
		// Go's own map order everywhere — except that the observing/wrapping processor of the harness still registers first
		// among the unordered processors (otherwise the harness's own fault injection would depend on the map order)
		only := map[string]int{framework_helper.GetComponentName(obs): -1}
		dr, sr = support.DefaultDefinitionRegistry(), &permSR{SingletonRegistry: support.NewRegistry(), rank: only}
	}
	fac := factory.NewWithRegistries(dr, tr)
	a := app.NewApp()
	loaders := []configure.Loader{loader.NewRawLoader([]byte(graphConfigDoc))}
	if sc.loaderFail {
		loaders = append(loaders, failLoader{})
	}
	var runErr error
	curEnv = env
	atomic.StoreInt64(&scanCalls, 0)
	done := make(chan any, 1)
	go func() {
		done <- hx.Guard(func() {
			if sc.hist == 3 {
				half := len(sc.nodes) / 2
				ioc.Register(comps[:half]...)
				var a2 *app.App
				a2, runErr = ioc.Run(app.LogLevel(syslog.LvPanic), app.SetRegistry(sr), app.SetFactory(fac),
					app.SetConfigLoader(loaders...), app.SetComponents(comps[half:]...))
				if a2 != nil {
					a = a2
				}
				return
			}
			runErr = a.Run(app.LogLevel(syslog.LvPanic), app.SetRegistry(sr), app.SetFactory(fac),
				app.SetConfigLoader(loaders...), app.SetComponents(comps...))
		})
	}()
	select {
	case pan := <-done:
		switch {
		case pan != nil:
			res.status = "panic"
			res.errText = fmt.Sprint(pan)
		case runErr != nil:
			res.errText = runErr.Error()
			res.status = "err"
		default:
			res.status = "ok"
		}
	case <-time.After(10 * time.Second):
		res.status = "hang"
		return res
	}
	env.mu.Lock()
	res.events = append([]string{}, env.events...)
	res.zcalls = map[string]int{}
	for k, v := range env.zcalls {
		res.zcalls[k] = v
	}
	env.mu.Unlock()
	for i, e := range res.events {
		if strings.HasPrefix(e, "r@") {
			for zi, zn := range zeroSizeNames {
				if e == "r@"+zn && zi < sc.zs {
					res.events[i] = fmt.Sprintf("r%d", res.rowOf[framework_helper.GetComponentName(zeroSizeCtors[zi]())])
				}
			}
		}
	}
	if res.status == "err" {
		res.status = "err." + res.stageOfFailure(tr, names)
	}
	res.created = tr.created
	res.startCreated = map[int]bool{}
	for i := range sc.nodes {
		if tr.created[names[i]] {
			res.startCreated[i] = true
		}
	}
	res.nested = append([]string{}, tr.nested...)
	if res.status == "ok" && (sc.hist == 2 || sc.hist == 5) {
		// another application of the same process starts now, on fresh objects: nothing of it may reach this one
		saveEnv, saveScans := curEnv, atomic.LoadInt64(&scanCalls)
		runGraph(variantScen(sc))
		curEnv = saveEnv
		atomic.StoreInt64(&scanCalls, saveScans)
	}
	if res.status == "ok" && sc.retry() {
		// the lazy components whose first creation is made to fail (and the designated entry points of retry cycles): look them
		// up until they are created (at most 4 times); what each attempt answered is kept for the oracles
		att := 0
		res.createdAt, res.firstAtt, res.succAtt = map[int]int{}, map[int]int{}, map[int]int{}
		for i, gn := range sc.nodes {
			if gn.flt&(fltInitOnce|fltLookup) == 0 || tr.created[names[i]] {
				continue
			}
			for attempt := 0; attempt < 4 && !tr.created[names[i]]; attempt++ {
				att++
				env.mu.Lock()
				env.curAttempt = att
				env.mu.Unlock()
				before := map[string]bool{}
				for k, v := range tr.created {
					before[k] = v
				}
				if _, ok := res.firstAtt[i]; !ok {
					res.firstAtt[i] = att
				}
				var err error
				if pan := hx.Guard(func() { _, err = a.GetComponentByName(names[i]) }); pan != nil {
					res.status, res.errText = "panic", fmt.Sprint(pan)
					break
				}
				for j := range sc.nodes {
					if tr.created[names[j]] && !before[names[j]] {
						res.createdAt[j] = att
					}
				}
				cls := "true"
				if err != nil {
					cls = "false"
					if strings.Contains(err.Error(), "has been wrapped") {
						cls = "wrapped" // the stale-version check refused this attempt
					}
				} else {
					res.succAtt[i] = att
				}
				res.retries = append(res.retries, fmt.Sprintf("%d:%s", i, cls))
			}
		}
	}
	// rows with reflection facts
	tyIds := map[reflect.Type]int{}
	tyOf := func(t reflect.Type) int {
		if id, ok := tyIds[t]; ok {
			return id
		}
		tyIds[t] = len(tyIds)
		return tyIds[t]
	}
	// fixed ids for the pointer types used by slots, so that a slot's target id is stable
	tyOf(reflect.TypeOf(&T0{}))
	tyOf(reflect.TypeOf(&T1{}))
	tyOf(reflect.TypeOf(&T4{}))
	for _, n := range names {
		obj, err := sr.GetSingleton(n)
		if ri := res.rowOf[n]; err != nil && ri < len(sc.nodes) && sc.nodes[ri].extra {
			obj, err = any(res.nodesObj[ri]), nil // registered as a definition only, by the harness's factory post-processor
		}
		if err != nil {
			// not registered although it was handed to the start (or is a built-in): keep a placeholder row, and say so
			res.rows = append(res.rows, gRow{name: n, ty: -1, meths: ".", ocls: "n"})
			res.lost = append(res.lost, n)
			continue
		}
		t := reflect.TypeOf(obj)
		row := gRow{name: n, obj: obj, ty: tyOf(t)}
		for i, it := range ifaceTypes {
			if t.Implements(it) {
				row.impl |= 1 << i
			}
		}
		if nc, ok := obj.(definition.NamingComponent); ok && nc.Naming() != "" {
			row.custom = true
		}
		_, row.primary = obj.(definition.WirePrimary)
		_, row.lazy = obj.(definition.LazyInit)
		if q, ok := obj.(definition.WireQualifier); ok {
			s := q.Qualifier()
			row.qual = &s
		}
		var ms []string
		for _, mn := range []string{"F0", "F1", "F2"} {
			if m, ok := t.MethodByName(mn); ok {
				resText := "-"
				if m.Type.NumIn() == 1 && m.Type.NumOut() >= 1 {
					out := reflect.ValueOf(obj).MethodByName(mn).Call(nil)
					resText = hx.Hex(fmt.Sprint(out[0].Interface()))
				}
				ms = append(ms, fmt.Sprintf("%s/%d/%d/%s", mn, m.Type.NumIn()-1, m.Type.NumOut(), resText))
			}
		}
		row.ocls = "n"
		if oc, ok := obj.(definition.Ordered); ok {
			row.okey = oc.Order()
			row.ocls = "o"
			if _, ok := obj.(definition.Priority); ok {
				row.ocls = "p"
			}
		}
		row.meths = "."
		if len(ms) > 0 {
			row.meths = strings.Join(ms, ",")
		}
		row.inj = "~"
		if ri := res.rowOf[n]; ri < len(sc.nodes) && sc.nodes[ri].early >= foreignVer {
			ft := reflect.TypeOf(&FW{})
			fi := 0
			for i, it := range ifaceTypes {
				if ft.Implements(it) {
					fi |= 1 << i
				}
			}
			row.inj = fmt.Sprintf("%d/%d", tyOf(ft), fi)
			row.hasInj, row.injTy, row.injImpl = true, tyOf(ft), fi
		}
		res.rows = append(res.rows, row)
		env.byPtr[obj] = fmt.Sprintf("%d#0", res.rowOf[n])
	}
	for id, m := range env.clones {
		i, _ := strconv.Atoi(id)
		for ver, c := range m {
			if _, isFn := c.(FN); !isFn {
				env.byPtr[c] = fmt.Sprintf("%d#%d", i, ver)
			}
		}
	}
	for _, c := range env.extraClones {
		env.byPtr[c] = fmt.Sprintf("%d#%d", c.base().Idx, c.base().Ver)
	}
	res.appRow = res.rowOf[framework_helper.GetComponentName(a)]
	// boot list: priority-ordered universe post-processors (T14) first, then the observing processor
	for i, n := range res.nodesObj {
		_, o23 := n.(*T23)
		_, o25 := n.(*T25)
		if isUnwired(n) && !o23 && !o25 {
			res.boot = append(res.boot, i)
		}
	}
	for i, n := range res.nodesObj { // the ordered (3) ones come after the priority class, before the observing processor (9)
		_, o23 := n.(*T23)
		_, o25 := n.(*T25)
		if o23 || o25 {
			res.boot = append(res.boot, i)
		}
	}
	res.boot = append(res.boot, res.rowOf[framework_helper.GetComponentName(obs)])
	{
		// ordered user post-processors: T35 (Order() = 20) then T22 (Order() = 100 + node index), after the observing one (9)
		for i, n := range res.nodesObj {
			if _, ok := n.(*T35); ok {
				res.boot = append(res.boot, i)
			}
		}
		for i, n := range res.nodesObj {
			if _, ok := n.(*T22); ok {
				res.boot = append(res.boot, i)
			}
		}
		var plain []int
		for i, n := range res.nodesObj {
			_, p28 := n.(*T28)
			if _, ok := n.(*T18); ok || p28 {
				plain = append(plain, i)
			}
		}
		if sc.natural {
			// natural order: the boot order of plain processors is Go's map order; such runs are oracle-only
		}
		sort.Slice(plain, func(a, b int) bool { return rank2[names[plain[a]]] < rank2[names[plain[b]]] })
		res.boot = append(res.boot, plain...)
	}
	// slot descriptions
	baseT := reflect.TypeOf(Base{})
	for i, gn := range sc.nodes {
		for _, sn := range slotNames {
			tag, ok := gn.slots[sn]
			if !ok {
				continue
			}
			sf, _ := baseT.FieldByName(sn)
			kind, target := kindOf(sf.Type, tyOf)
			if gn.progQ != "" && sc.hasType(25) && tag[0] == 'w' && !strings.Contains(tag, ",qualifier=") {
				tag += ",qualifier=" + gn.progQ // what the point asks for once the T25 processor has qualified it
			}
			res.slotInfo[fmt.Sprintf("%d.%s", i, sn)] = [3]string{kind, target, tag}
		}
		if hasStaticSlots(gn.ty) {
			ht := reflect.TypeOf(res.nodesObj[i]).Elem()
			for _, sn := range staticSlotsOf(gn.ty) {
				kind, target := kindOf(staticFieldType(ht, sn), tyOf)
				res.slotInfo[fmt.Sprintf("%d.%s", i, sn)] = [3]string{kind, target, staticSlotTags[sn]}
			}
		}
	}
	appT := reflect.TypeOf(app.App{})
	for _, sn := range []string{"ApplicationRunners", "CloserComponents"} {
		if sf, ok := appT.FieldByName(sn); ok {
			kind, target := kindOf(sf.Type, tyOf)
			if tv, ok := sf.Tag.Lookup("wire"); ok {
				res.slotInfo[fmt.Sprintf("%d.%s", res.appRow, sn)] = [3]string{kind, target, "w" + tv}
			}
		}
	}
	if res.status == "ok" {
		prefilled := map[int]bool{}
		for _, pr := range sc.prefill {
			prefilled[pr] = true
		}
		for i, n := range res.nodesObj {
			bv := reflect.ValueOf(n.base()).Elem()
			for _, sn := range slotNames {
				if _, ok := sc.nodes[i].slots[sn]; !ok {
					continue
				}
				res.fields[fmt.Sprintf("%d.%s", i, sn)] = readSlot(bv.FieldByName(sn), env)
				if len(env.cloneGen) > 0 {
					fv := bv.FieldByName(sn)
					check := func(x reflect.Value) {
						if !x.IsValid() || (x.Kind() != reflect.Pointer && x.Kind() != reflect.Interface) || x.IsNil() {
							return
						}
						if _, isFn := x.Interface().(FN); isFn {
							return
						}
						if g, ok := env.cloneGen[x.Interface()]; ok {
							if nb, _ := asNode(x.Interface()); nb != nil {
								if sAtt, ok := res.succAtt[nb.Idx]; ok && g < sAtt && res.createdAt[i] >= sAtt {
									res.oldEarly = append(res.oldEarly, fmt.Sprintf("%d.%s", i, sn))
								}
							}
						}
					}
					if fv.Kind() == reflect.Slice {
						for q := 0; q < fv.Len(); q++ {
							check(fv.Index(q))
						}
					} else {
						check(fv)
					}
				}
				if prefilled[i] && prefillable[sn] {
					fv := bv.FieldByName(sn)
					if fv.Kind() == reflect.Slice && fv.Len() == 0 || (fv.Kind() == reflect.Pointer || fv.Kind() == reflect.Interface) && fv.IsNil() {
						res.wiped = append(res.wiped, fmt.Sprintf("%d.%s", i, sn)) // held a dummy before the start, holds nothing now
					}
				}
			}
		}
		for i, n := range res.nodesObj {
			if hasStaticSlots(sc.nodes[i].ty) {
				hv := reflect.ValueOf(n).Elem()
				for _, sn := range staticSlotsOf(sc.nodes[i].ty) {
					res.fields[fmt.Sprintf("%d.%s", i, sn)] = readSlot(staticFieldValue(hv, sn), env)
				}
			}
		}
		for i, n := range res.nodesObj {
			if !tr.created[names[i]] {
				continue
			}
			if t30, ok := n.(*T30); ok {
				if _, ok := sc.nodes[i].slots["P0"]; ok && t30.shadowed.P0 != t30.Base.P0 {
					res.shadowBad = append(res.shadowBad, fmt.Sprintf("%d.P0", i))
				}
				if _, ok := sc.nodes[i].slots["X1"]; ok {
					k1, _ := env.keyOf(t30.shadowed.X1) // func-kinded substitutes are not comparable: compare their tokens
					k2, _ := env.keyOf(t30.Base.X1)
					if k1 != k2 {
						res.shadowBad = append(res.shadowBad, fmt.Sprintf("%d.X1", i))
					}
				}
			}
			b := n.base()
			if isUnwired(n) {
				continue // created before the configuration processors are active (finding D8): judged by the c05 / c09 oracles of that finding
			}
			if want, ok := cfgExpectV[sc.nodes[i].cfg]; ok && b.V != want {
				res.cfgBad = append(res.cfgBad, fmt.Sprintf("%d.V holds %q, configured %q", i, b.V, want))
			}
			if sc.nodes[i].cfg == 12 && b.WT.IsZero() {
				res.cfgBad = append(res.cfgBad, fmt.Sprintf("%d.WT is the zero time, configured 2024-05-06T07:08:09Z", i))
			}
			if sc.nodes[i].cfg == 11 && b.W0.A != "good" {
				res.cfgBad = append(res.cfgBad, fmt.Sprintf("%d.W0.A holds %q, configured %q (the section also has the keys _a, a-, a_)", i, b.W0.A, "good"))
			}
		}
		av := reflect.ValueOf(a).Elem()
		res.fields[fmt.Sprintf("%d.CloserComponents", res.appRow)] = readSlot(av.FieldByName("CloserComponents"), env)
		// a custom-named component answers to its custom name only: a lookup by its default (type) name finds nothing unless
		// some other component is registered under that name (probed last: it must not disturb anything observed above)
		defer func() {
			for i, gn := range sc.nodes {
				if gn.cust == "" {
					continue
				}
				t := reflect.TypeOf(res.nodesObj[i]).Elem()
				def := t.PkgPath() + "/" + t.Name()
				if _, taken := res.rowOf[def]; taken {
					continue
				}
				var c any
				var err error
				if hx.Guard(func() { c, err = a.GetComponentByName(def) }) == nil && err == nil && c != nil {
					res.typeNameHits = append(res.typeNameHits, fmt.Sprintf("%d", i))
				}
			}
			// other spellings of a registered name (letter case, surrounding blanks) are other names
			for i := range sc.nodes {
				for _, alt := range []string{strings.ToUpper(names[i]), strings.ToLower(names[i]), " " + names[i], names[i] + " "} {
					if _, taken := res.rowOf[alt]; taken || alt == names[i] {
						continue
					}
					var c any
					var err error
					if hx.Guard(func() { c, err = a.GetComponentByName(alt) }) == nil && err == nil && c != nil {
						res.spellingHits = append(res.spellingHits, fmt.Sprintf("%d", i))
					}
				}
			}
			res.inits = map[int]int{}
			for i, n := range res.nodesObj {
				res.inits[i] = n.base().Inits
			}
		}()
		for i := range sc.nodes {
			if tr.created[names[i]] {
				var c any
				var err error
				if hx.Guard(func() { c, err = a.GetComponentByName(names[i]) }) != nil || err != nil {
					res.pubs[i] = "!"
				} else if k, ok := env.keyOf(c); ok {
					res.pubs[i] = k
				} else {
					res.pubs[i] = "?"
				}
			}
		}
	}
	return res
}

var builtinCache []string

// builtinNames: what App.initiate registers by itself (found by a dry run, so renames do not matter)
func builtinNames() []string {
	if builtinCache != nil {
		return builtinCache
	}
	sr := support.NewRegistry()
	a := app.NewApp()
	_ = hx.Guard(func() { _ = a.Run(app.LogLevel(syslog.LvPanic), app.SetRegistry(sr), app.SetConfigLoader()) })
	builtinCache = sr.GetSingletonNames()
	sort.Strings(builtinCache)
	return builtinCache
}

// stageOfFailure derives the failing stage from what the run DID (not from error text, which may be reworded):
// a failing runner was invoked → runners; the definition scan never started → config; the injected scan fault → factory;
// otherwise the outermost creation that failed belongs to the boot phase (a user post-processor) → factory, else → refresh.
func (r *gRun) stageOfFailure(tr *traceSCR, names []string) string {
	ran := map[int]bool{}
	for _, e := range r.events {
		if e[0] == 'r' {
			if ri, err := strconv.Atoi(e[1:]); err == nil && ri < len(r.sc.nodes) {
				if r.sc.nodes[ri].flt&fltRun != 0 {
					return "runners"
				}
				if ra := r.sc.nodes[ri].runAfter; ra != 0 && !ran[ra-1] {
					return "runners" // a runner that refuses to run before its prerequisite was invoked first
				}
				ran[ri] = true
			}
		}
	}
	if atomic.LoadInt64(&scanCalls) == 0 {
		return "config"
	}
	if tr.failedTop == "" {
		if r.sc.scanFail {
			return "factory"
		}
		return stageOf(r.errText) // nothing structural to go by: fall back to the message prefix
	}
	for i, n := range r.nodesObj {
		if utInfos[r.sc.nodes[i].ty].pp && names[i] == tr.failedTop {
			_ = n
			return "factory"
		}
	}
	return "refresh"
}

func stageOf(msg string) string {
	switch {
	case strings.HasPrefix(msg, "application configuration initialize failed"):
		return "config"
	case strings.HasPrefix(msg, "application factory initialize failed"):
		return "factory"
	case strings.HasPrefix(msg, "application components refresh failed"):
		return "refresh"
	case strings.HasPrefix(msg, "start application runners failed"):
		return "runners"
	}
	return "unknown"
}

func kindOf(t reflect.Type, tyOf func(reflect.Type) int) (string, string) {
	ifaceID := func(it reflect.Type) string {
		for i, x := range ifaceTypes {
			if x == it {
				return strconv.Itoa(i)
			}
		}
		return "99"
	}
	switch t.Kind() {
	case reflect.Pointer:
		return "p", strconv.Itoa(tyOf(t))
	case reflect.Interface:
		return "i", ifaceID(t)
	case reflect.Slice:
		switch t.Elem().Kind() {
		case reflect.Pointer:
			return "P", strconv.Itoa(tyOf(t.Elem()))
		case reflect.Interface:
			return "I", ifaceID(t.Elem())
		}
	}
	return "o", "0"
}

// prefillSlots puts an unregistered dummy of a fitting type into every specified slot of a holder before the start
// the slots prefillSlots knows how to fill (the others stay zero before the start)
var prefillable = map[string]bool{"P0": true, "P1": true, "P4": true, "X0": true, "X0b": true, "X1": true, "S0": true, "S1": true,
	"SP0": true, "A0": true, "A1": true, "AS0": true}

func prefillSlots(b *Base, slots map[string]string, env *runEnv) {
	mk := func() *T1 { d := &T1{}; d.Idx = -1; env.dummies[any(d)] = true; return d }
	for slot := range slots {
		switch slot {
		case "P0":
			d := &T0{}
			d.Idx = -1
			env.dummies[any(d)] = true
			b.P0 = d
		case "P1":
			b.P1 = mk()
		case "P4":
			d := &T4{}
			d.Idx = -1
			env.dummies[any(d)] = true
			b.P4 = d
		case "X0":
			b.X0 = mk()
		case "X0b":
			b.X0b = mk()
		case "X1":
			b.X1 = mk()
		case "S0":
			b.S0 = []Ifc0{mk()}
		case "S1":
			b.S1 = []Ifc1{mk()}
		case "SP0":
			d := &T0{}
			d.Idx = -1
			env.dummies[any(d)] = true
			b.SP0 = []*T0{d}
		case "A0":
			b.A0 = mk()
		case "A1":
			b.A1 = mk()
		case "AS0":
			b.AS0 = []any{mk()}
		}
	}
}

// readSlot: what a field holds, as row#version tokens. A field that still holds exactly its pre-filled dummy (and nothing
// else) was left untouched and reads as empty; a dummy next to injected components is reported as an unknown object.
func readSlot(v reflect.Value, env *runEnv) []string {
	isDummy := func(x reflect.Value) bool {
		if !x.IsValid() || ((x.Kind() == reflect.Pointer || x.Kind() == reflect.Interface) && x.IsNil()) {
			return false
		}
		if _, isFn := x.Interface().(FN); isFn {
			return false
		}
		return env.dummies[x.Interface()]
	}
	key := func(x reflect.Value) string {
		if !x.IsValid() || ((x.Kind() == reflect.Pointer || x.Kind() == reflect.Interface) && x.IsNil()) {
			return "nil"
		}
		if k, ok := env.keyOf(x.Interface()); ok {
			return k
		}
		return "?"
	}
	var out []string
	switch v.Kind() {
	case reflect.Slice:
		onlyDummies := v.Len() > 0
		for i := 0; i < v.Len(); i++ {
			if !isDummy(v.Index(i)) {
				onlyDummies = false
			}
		}
		if onlyDummies {
			return nil
		}
		for i := 0; i < v.Len(); i++ {
			out = append(out, key(v.Index(i)))
		}
	case reflect.Array:
		for i := 0; i < v.Len(); i++ {
			if k := key(v.Index(i)); k != "nil" {
				out = append(out, k)
			}
		}
	default:
		if isDummy(v) {
			return nil
		}
		if k := key(v); k != "nil" {
			out = append(out, k)
		}
	}
	return out
}

// ---- rendering

func (r *gRun) scenarioLine() string {
	sc := r.sc
	b2i := func(b bool) int {
		if b {
			return 1
		}
		return 0
	}
	var recs []string
	xrec := fmt.Sprintf("X %d %d %d %d %s", b2i(sc.loaderFail), b2i(sc.scanFail), sc.rankSeed, sc.zs, joinInts(sc.prefill))
	if sc.hist != 0 {
		xrec += fmt.Sprintf(" %d", sc.hist)
	}
	recs = append(recs, "G", xrec)
	recs = append(recs, "K "+joinInts(r.order))
	recs = append(recs, "B "+joinInts(r.boot))
	for i, row := range r.rows {
		q := "~"
		if row.qual != nil {
			q = hx.Hex(*row.qual)
		}
		inj := row.inj
		if inj == "" {
			inj = "~"
		}
		recs = append(recs, fmt.Sprintf("R %d %s %d %d %d %d %d %s %s %s %d %s", i, hx.Hex(row.name), row.ty, row.impl,
			b2i(row.custom), b2i(row.primary), b2i(row.lazy), q, row.meths, row.ocls, row.okey, inj))
	}
	for i, n := range sc.nodes {
		wired := 1
		if isUnwired(r.nodesObj[i]) {
			wired = 0
		}
		rec := fmt.Sprintf("N %d %d %s %s %s %d %d %d %d %d %d", i, n.ty, hx.Hex(n.cust), hx.Hex(n.q), hx.Hex(n.r),
			n.ord, n.early, n.after, n.flt, n.cfg, wired)
		if n.fetch != "" || n.progQ != "" || n.runAfter != 0 || n.extra {
			ft := "-"
			if n.fetch != "" {
				ft = hx.Hex(n.fetch)
			}
			rec += " " + ft
			if n.progQ != "" || n.runAfter != 0 || n.extra {
				rec += " " + hx.Hex(n.progQ) // ("-" when empty)
			}
			if n.runAfter != 0 || n.extra {
				rec += fmt.Sprintf(" %d", n.runAfter)
			}
			if n.extra {
				rec += " x"
			}
		}
		recs = append(recs, rec)
	}
	emit := func(row int, slots []string) {
		for _, sn := range slots {
			if info, ok := r.slotInfo[fmt.Sprintf("%d.%s", row, sn)]; ok {
				recs = append(recs, fmt.Sprintf("F %d %s %s %s %s %s", row, sn, info[0], info[1], info[2][:1], hx.Hex(info[2][1:])))
			}
		}
	}
	for i := range sc.nodes {
		// points declared with real struct tags are scanned by the library's own (ordered) scanners, before the harness's dynamic
		// scanner adds the Base slots: they come FIRST in the holder's property list
		// (or LAST, when the dynamic scanner is enumerated before them: staticFirst)
		if hasStaticSlots(sc.nodes[i].ty) && r.staticFirst(sc.nodes[i].ty) {
			emit(i, staticSlotsOf(sc.nodes[i].ty))
		}
		emit(i, slotNames)
		if hasStaticSlots(sc.nodes[i].ty) && !r.staticFirst(sc.nodes[i].ty) {
			emit(i, staticSlotsOf(sc.nodes[i].ty))
		}
	}
	emit(r.appRow, []string{"ApplicationRunners", "CloserComponents"})
	return strings.Join(recs, " | ")
}

func joinInts(xs []int) string {
	if len(xs) == 0 {
		return "-"
	}
	var s []string
	for _, x := range xs {
		s = append(s, strconv.Itoa(x))
	}
	return strings.Join(s, ",")
}

func (r *gRun) observation() string {
	ev := "-"
	if len(r.events) > 0 {
		ev = strings.Join(r.events, ",")
	}
	out := "st=" + r.status + " ev=" + ev
	if r.status == "ok" {
		var fl []string
		keys := r.slotKeys()
		for _, k := range keys {
			objs := r.fields[k]
			v := "-"
			if len(objs) > 0 {
				v = strings.Join(objs, "+")
			}
			fl = append(fl, k+":"+v)
		}
		var pb []string
		for i := range r.sc.nodes {
			if p, ok := r.pubs[i]; ok {
				pb = append(pb, fmt.Sprintf("%d:%s", i, p))
			}
		}
		f, p := "-", "-"
		if len(fl) > 0 {
			f = strings.Join(fl, ";")
		}
		if len(pb) > 0 {
			p = strings.Join(pb, ",")
		}
		out += " fl=" + f + " pub=" + p
	}
	return out
}

// slotKeys: universe slots in scan order, then the App's two slices
func (r *gRun) slotKeys() []string {
	var keys []string
	for i, n := range r.sc.nodes {
		if hasStaticSlots(n.ty) && r.staticFirst(n.ty) { // (see scenarioLine)
			for _, sn := range staticSlotsOf(n.ty) {
				keys = append(keys, fmt.Sprintf("%d.%s", i, sn))
			}
		}
		for _, sn := range slotNames {
			if _, ok := n.slots[sn]; ok {
				keys = append(keys, fmt.Sprintf("%d.%s", i, sn))
			}
		}
		if hasStaticSlots(n.ty) && !r.staticFirst(n.ty) {
			for _, sn := range staticSlotsOf(n.ty) {
				keys = append(keys, fmt.Sprintf("%d.%s", i, sn))
			}
		}
	}
	keys = append(keys, fmt.Sprintf("%d.CloserComponents", r.appRow)) // ApplicationRunners is cleared by callRunners
	return keys
}

// ---- direct oracles (the properties evaluated on the real run, independent of the Lean model)

func (r *gRun) oracles() []string {
	var fails []string
	add := func(sig, format string, a ...any) { fails = append(fails, "FAIL "+sig+" "+fmt.Sprintf(format, a...)) }
	if r.status == "panic" {
		add("c09-panic", "Run panicked: %s", r.errText)
	}
	if r.status == "hang" {
		add("c02-hang", "Run did not return within the watchdog")
	}
	if r.status == "err.unknown" {
		add("c09-stage", "error outside the four stages: %s", r.errText)
	}
	// C09 "a failure at any fault place ends start-up with an error": the start succeeded although a callback that
	// demonstrably ran (its event is in the log) was told to fail. For the two processor callbacks that log nothing
	// themselves (PostProcessAfterInstantiation / PostProcessProperties of the observing processor) the witness is the
	// component's instantiation event: when the start succeeds every processor's callbacks ran for it.
	if r.status == "ok" {
		seen := map[string]bool{}
		for _, e := range r.events {
			seen[e] = true
		}
		for i, n := range r.sc.nodes {
			for _, fw := range []struct {
				bit  int
				ev   string
				what string
			}{{fltInst, "n", "PostProcessAfterInstantiation"}, {fltProps, "n", "PostProcessProperties"}, {fltBefore, "b", "PostProcessBeforeInitialization"},
				{fltAPS, "a", "AfterPropertiesSet"}, {fltInit, "i", "Init"}, {fltAfter, "f", "PostProcessAfterInitialization"},
				{fltEarly, "e", "GetEarlyBeanReference"}, {fltRun, "r", "Run"}} {
				if n.flt&fw.bit != 0 && seen[fmt.Sprintf("%s%d", fw.ev, i)] && !r.toleratedTarget(i) {
					for _, e := range r.events {
						if e[0] == 'r' { // C13: runners only after every eagerly created component finished initialization
							add("c13-after-failed-init", "runner event %s although %s of node %d returned an error (the component never finished initialization)", e, fw.what, i)
							break
						}
					}
					add("c09-fault-swallowed", "%s of node %d returned an error, yet Run returned nil", fw.what, i)
				}
			}
		}
	}
	// C04: while a singleton is being created every lookup of its name observes its early reference — a SECOND creation of
	// the same name must never start inside the first one
	for _, n := range r.nested {
		add("c04-nested-creation", "a creation of %q was started while a creation of the same name was still running", n)
	}
	// C05 "dependencies first": a holder's Init runs only after every dependency that does not depend back on it completed
	// its own. Evaluated for the clear-cut case: a REQUIRED by-name point whose target is a leaf (no injection points at all,
	// hence cannot depend back), both ordinary components.
	if r.status == "ok" {
		pos := map[string]int{}
		for i, e := range r.events {
			if _, seen := pos[e]; !seen {
				pos[e] = i
			}
		}
		for i, n := range r.sc.nodes {
			pi, inited := pos[fmt.Sprintf("i%d", i)]
			if !inited || utInfos[n.ty].pp || unwiredNode(r, i) {
				continue
			}
			for slot, tag := range n.slots {
				if slot != "A0" && slot != "A1" && slot != "A2" || tag[0] != 'w' || strings.Contains(tag, ",") || len(tag) < 2 {
					continue
				}
				t, ok := r.rowOf[tag[1:]]
				if !ok || t == i || t >= len(r.sc.nodes) || len(r.sc.nodes[t].slots) != 0 || hasStaticSlots(r.sc.nodes[t].ty) || utInfos[r.sc.nodes[t].ty].pp || r.sc.nodes[t].fetch != "" {
					// (a type with points declared by struct tags is no leaf: it can depend back)
					continue
				}
				if pt, ok := pos[fmt.Sprintf("i%d", t)]; !ok || pt > pi {
					add("c05-dep-first", "Init of node %d ran although its required dependency node %d (a leaf) had not completed Init", i, t)
				}
			}
		}
	}
	// zero-size components are created eagerly like every other component: after a successful start each of their
	// lifecycle callbacks (and Run, for the runners among them) ran exactly once — identity by address must not conflate them
	if r.status == "ok" {
		for zi := 0; zi < r.sc.zs && zi < len(zeroSizeNames); zi++ {
			for _, cb := range zeroSizeCalls[zeroSizeNames[zi]] {
				if n := r.zcalls[cb+"@"+zeroSizeNames[zi]]; n != 1 {
					sig := "c05-zero-size-once"
					if cb == "r" {
						sig = "c13-zero-size-once"
					}
					add(sig, "callback %s of the zero-size component %s ran %d times in a successful start", cb, zeroSizeNames[zi], n)
				}
			}
		}
	}
	for _, row := range r.typeNameHits {
		add("c01-type-name-lookup", "GetComponentByName(<default type name of node %s>) returned a component although node %s is registered under its custom name only and nothing else is registered under that type name", row, row)
	}
	// an optional point that cannot be satisfied is left UNTOUCHED: what the user put there before the start is still there
	for _, k := range r.wiped {
		if info, ok := r.slotInfo[k]; ok && tagOptional(info[2]) {
			add("c07-optional-wiped", "the optional point %s held a user-supplied value before the start and was reset to nothing", k)
			add("c09-optional-wiped", "the optional point %s held a user-supplied value before the start and was reset to nothing", k)
		}
	}
	// a creation whose callback reported an error never completes: the component is not published, nobody looks it up
	if r.status != "hang" && r.status != "dupname" {
		own := fltAPS | fltInit
		byObs := fltInst | fltProps | fltBefore | fltAfter
		for i, gn := range r.sc.nodes {
			if i >= len(r.rows) || !r.created[r.rows[i].name] {
				continue
			}
			bad := gn.flt & own
			if i < len(r.nodesObj) && !isUnwired(r.nodesObj[i]) {
				bad |= gn.flt & byObs
			}
			if gn.cfg == 13 || gn.cfg == 2 || gn.cfg == 6 || gn.cfg == 7 || gn.cfg == 10 {
				if i < len(r.nodesObj) && !isUnwired(r.nodesObj[i]) {
					for _, sig := range []string{"c04-unbound-published", "c09-unbound-published"} {
						add(sig, "the creation of node %d completed (it is published) although a required configuration value of it cannot be bound (configuration slot %d)", i, gn.cfg)
					}
				}
			}
			if bad != 0 {
				for _, sig := range []string{"c04-failed-published", "c05-failed-published", "c09-failed-published", "c12-failed-published"} {
					add(sig, "the creation of node %d completed (it is published) although one of its callbacks reported an error (fault flags %d)", i, bad)
				}
			}
		}
	}
	// every component whose TYPE does not carry the LazyInit marker (as declared in the universe) is created by a successful
	// start, whatever the container believes about markers
	if r.status == "ok" {
		for i, gn := range r.sc.nodes {
			if i < len(r.rows) && gn.ty < len(utInfos) && !utInfos[gn.ty].lazy && !r.created[r.rows[i].name] {
				for _, sig := range []string{"c02-eager-uncreated", "c05-eager-uncreated", "c09-eager-uncreated", "c12-eager-uncreated"} {
					add(sig, "node %d (universe type %d, declared WITHOUT the LazyInit marker) was not created by a start that reports success", i, gn.ty)
				}
			}
		}
	}
	if r.status != "panic" && r.status != "hang" {
		for _, n := range r.lost {
			for _, sig := range []string{"c01-component-lost", "c06-component-lost", "c13-component-lost", "c09-component-lost"} {
				add(sig, "the component %q was handed to the start (app.SetComponents / ioc.Register) but the registry of the application does not know it", n)
			}
		}
	}
	for _, k := range r.shadowBad {
		add("c07-same-name-field", "the holder has two injection points with the Go field name of %s (one in an embedded struct) and the same tag: they were not given the same component(s)", k)
		add("c06-same-name-field", "the holder has two injection points with the Go field name of %s (one in an embedded struct) and the same tag: they were not given the same component(s)", k)
	}
	for _, k := range r.cfgBad {
		add("c10-config-value", "%s", k)
		add("c09-config-value", "%s", k)
	}
	for _, k := range r.oldEarly {
		add("c04-retry-old-early", "%s uses the early reference that was handed out during an earlier, failed attempt: something of the failed attempt stayed visible", k)
	}
	for _, row := range r.spellingHits {
		add("c01-spelling-lookup", "GetComponentByName(<the name of node %s in another letter case or padded with blanks>) returned a component although nothing is registered under that spelling", row)
	}
	// C04: the first lookup of a component whose Init fails the first time must not hand out the half-built instance
	seen := map[string]bool{}
	anyInitOnce := false // (a scenario whose looked-up components have no failing Init anywhere — history 2 — has nothing to refuse)
	for _, n := range r.sc.nodes {
		if n.flt&fltInitOnce != 0 {
			anyInitOnce = true
		}
	}
	for _, t := range r.retries {
		row, ok, _ := strings.Cut(t, ":")
		if !seen[row] && ok == "true" && anyInitOnce {
			add("c04-retry-half-built", "the first lookup of node %s returned no error although its Init failed: the half-built instance was handed out as if created", row)
		}
		seen[row] = true
	}
	// C09: points marked required=false never cause a failure — a scenario in which EVERY point is optional, nothing is
	// substituted and no fault is injected must start
	if r.status != "ok" && !r.sc.reentrant() && !r.sc.retry() && r.allOptional() {
		add("c09-optional-fails", "start-up ended with %s although every injection point of the scenario is marked required=false and no fault is injected: %.160s", r.status, strings.ReplaceAll(r.errText, "\n", " "))
	}
	if r.status != "ok" && !r.sc.reentrant() && r.plainlyResolvable() {
		add("c02-resolvable-fails", "start-up ended with %s although every point names an existing, different component, nothing is substituted and no fault is injected: %.160s", r.status, strings.ReplaceAll(r.errText, "\n", " "))
	}
	unwired := map[int]bool{}
	for i, n := range r.nodesObj {
		if isUnwired(n) {
			unwired[i] = true
		}
	}
	// lifecycle order per node (C05): n c b a i f each at most once, in that order
	rank := map[byte]int{'n': 0, 'c': 1, 'b': 2, 'a': 3, 'i': 4, 'f': 5}
	last := map[string]int{}
	runnersStarted := false
	for _, e := range r.events {
		k, id := e[0], e[1:]
		if k == 'r' {
			runnersStarted = true
			continue
		}
		if runnersStarted && k != 'e' {
			add("c13-after-ready", "lifecycle event %s after a runner was invoked (events %v)", e, r.events)
		}
		if k == 'e' {
			continue
		}
		if prev, ok := last[id]; ok && rank[k] <= prev {
			add("c05-order", "event %s out of order or repeated (events %v)", e, r.events)
		}
		last[id] = rank[k]
	}
	// C13 "after every eagerly created component has finished initialization": when the first runner is invoked, Init has run on
	// every component whose type is declared without the LazyInit marker — however its definition reached the container
	// (handed to the start, or registered by a factory post-processor)
	for fi, e := range r.events {
		if e[0] != 'r' {
			continue
		}
		inited := map[string]bool{}
		for _, x := range r.events[:fi] {
			if x[0] == 'i' {
				inited[x[1:]] = true
			}
		}
		for i, n := range r.sc.nodes {
			if n.ty < len(utInfos) && !utInfos[n.ty].lazy && !utInfos[n.ty].pp && !inited[strconv.Itoa(i)] {
				add("c13-before-ready", "runner event %s although Init of node %d (universe type %d, declared WITHOUT the LazyInit marker) had not run: the container was not ready", e, i, n.ty)
			}
		}
		break
	}
	// … and every component that completed creation during the start, with the observing processor active (created after
	// it was registered: not the boot-phase ones), went through ALL six steps
	if r.status == "ok" {
		have := map[string]bool{}
		for _, e := range r.events {
			have[e] = true
		}
		for i := range r.sc.nodes {
			if !r.startCreated[i] || utInfos[r.sc.nodes[i].ty].pp || unwiredNode(r, i) {
				continue
			}
			for _, k := range []string{"n", "c", "b", "a", "i", "f"} {
				if !have[fmt.Sprintf("%s%d", k, i)] {
					add("c05-step-missing", "node %d completed creation in the start but its lifecycle step %q never happened (events %v)", i, k, r.events)
					break
				}
			}
		}
		// a lookup after the start that answers without an error hands out a component that has been initialised: its Init
		// ran to the end at some time (a fail-once Init: the first run does not count)
		for i := range r.succAtt {
			okInits := r.inits[i]
			if r.sc.nodes[i].flt&fltInitOnce != 0 && okInits > 0 {
				okInits--
			}
			if okInits < 1 && !utInfos[r.sc.nodes[i].ty].pp {
				for _, sig := range []string{"c02-lookup-half-built", "c05-lookup-half-built", "c07-lookup-half-built", "c04-lookup-half-built"} {
					add(sig, "the lookup of node %d after the start returned no error, but Init never ran to the end on that component (%d runs, fail-once: %v): a half-built instance was handed out", i, r.inits[i], r.sc.nodes[i].flt&fltInitOnce != 0)
				}
			}
		}
		for i, n := range r.inits {
			if n > 1 && !r.sc.retry() {
				add("c05-init-twice", "Init ran %d times on the instance of node %d within one start (lookups after the start included)", n, i)
			}
		}
	}
	r.matchOracles(add)
	r.lookupOracles(add)
	r.lazyOracles(add)
	// C13: a failing runner ends the start with an error and nothing is invoked after it
	for i, e := range r.events {
		if e[0] != 'r' {
			continue
		}
		ri, _ := strconv.Atoi(e[1:])
		if ri < len(r.sc.nodes) && r.sc.nodes[ri].flt&fltRun != 0 {
			if r.status != "err.runners" {
				add("c13-error", "runner node %d returned an error but Run ended with %s", ri, r.status)
			}
			for _, later := range r.events[i+1:] {
				if later[0] == 'r' {
					add("c13-error", "runner %s invoked after runner node %d had failed", later, ri)
				}
			}
			break
		}
	}
	if strings.HasPrefix(r.status, "err.") && r.status != "err.runners" {
		for _, e := range r.events {
			if e[0] == 'r' {
				add("c09-runner-after-failure", "runner %s invoked although the start failed in stage %s", e, r.status)
			}
		}
	}
	if r.status == "ok" {
		pubOf := map[string]string{} // row → "row#ver" as published
		for i, p := range r.pubs {
			pubOf[strconv.Itoa(i)] = p
			if p == "?" || p == "!" {
				add("c01-lookup", "GetComponentByName(node %d) returned an unknown object or failed after a successful start", i)
			}
		}
		for k, objs := range r.fields {
			holder := k[:strings.Index(k, ".")]
			seen := map[string]bool{}
			for _, o := range objs {
				if o == "?" {
					add("c01-unknown-object", "field %s holds an object that is neither a registered component nor a published substitute", k)
					continue
				}
				row := o[:strings.Index(o, "#")]
				if row == holder {
					add("c02-self", "field %s holds its own holder", k)
				}
				if seen[o] {
					add("c06-duplicate", "field %s holds %s twice", k, o)
				}
				seen[o] = true
				if p, ok := pubOf[row]; ok && p != o {
					if r.leftFromFailedAttempt(k, row) {
						// known finding KF-C03-1: an earlier attempt to create the target failed (its own Init, or the stale-version
						// check) AFTER its cycle partner had been completed with the early reference; the partner stays published
						add("c03-retry-stale-partner", "field %s holds %s but a later, successful lookup published %s: the holder was completed during an earlier attempt that then failed, and was not removed with it", k, o, p)
					} else {
						add("c03-stale", "field %s holds %s but the published version is %s", k, o, p)
					}
				}
				// (not in retry scenarios: there a creation may fail for good AFTER a partner was published holding its early
				// reference — the partner is not rolled back, and C01 speaks about components that resolved, not about failed ones)
				if ri, err := strconv.Atoi(row); err == nil && ri < len(r.sc.nodes) && !r.created[r.rows[ri].name] && !r.sc.retry() {
					add("c01-uncreated", "field %s holds %s which never completed creation", k, o)
				}
			}
			info := r.slotInfo[k]
			hi, _ := strconv.Atoi(holder)
			holderCreated := hi >= len(r.sc.nodes) || r.created[r.rows[hi].name]
			if len(objs) == 0 && info[2] != "" && !tagOptional(info[2]) && holderCreated {
				if unwired[hi] {
					add("d8-unwired-pp", "required point %s of a priority-ordered user post-processor stayed empty (created before the dependency processors)", k)
				} else if info[0] != "o" {
					add("c09-required-empty", "required point %s is empty after a successful start", k)
				}
			}
			if len(objs) > 1 && (info[0] == "p" || info[0] == "i") {
				add("c06-single-many", "single-valued field %s holds %d objects", k, len(objs))
			}
		}
		// C05: every point that holds something at the end held it already when Init ran (populate strictly before init)
		for i, n := range r.nodesObj {
			b := n.base()
			if b.initSnap == nil || unwired[i] {
				continue
			}
			for slot, was := range b.initSnap {
				key := fmt.Sprintf("%d.%s", i, slot)
				if len(r.fields[key]) > 0 && !was {
					add("c05-init-before-populate", "point %s was still empty when Init of its holder ran, but is set after the start", key)
				}
				info := r.slotInfo[key]
				if !was && len(r.fields[key]) == 0 && info[0] != "o" && !tagOptional(info[2]) {
					add("c05-unset-at-init", "required point %s was empty when Init of its holder ran (and still is)", key)
				}
			}
		}
		// C13: the invocation sequence respects the ordering contract (priority-ordered, then ordered, then the rest; keys never decrease)
		{
			rankOf := map[string]int{"p": 0, "o": 1, "n": 2}
			prevCls, prevKey, have := 0, 0, false
			for _, e := range r.events {
				if e[0] != 'r' {
					continue
				}
				ri, _ := strconv.Atoi(e[1:])
				if ri >= len(r.rows) {
					continue
				}
				cls, key := rankOf[r.rows[ri].ocls], r.rows[ri].okey
				if have && (cls < prevCls || (cls == prevCls && cls < 2 && key < prevKey)) {
					add("c13-order", "runner node %d (class %s, Order %d) invoked after a runner of class rank %d, Order %d", ri, r.rows[ri].ocls, key, prevCls, prevKey)
				}
				prevCls, prevKey, have = cls, key, true
			}
		}
		// runners: each created runner exactly once
		cnt := map[string]int{}
		for _, e := range r.events {
			if e[0] == 'r' {
				cnt[e[1:]]++
			}
		}
		for i := range r.sc.nodes {
			isRunner := r.rows[i].impl&(1<<5) != 0
			want := 0
			if isRunner && r.created[r.rows[i].name] {
				want = 1
			}
			if cnt[strconv.Itoa(i)] != want {
				add("c13-once", "runner node %d invoked %d times, expected %d", i, cnt[strconv.Itoa(i)], want)
			}
		}
	}
	return fails
}

// plainlyResolvable: every point of every node is a required/optional by-name wire through an `any` slot to an existing
// node other than the holder, no substitution, no fault, no configuration slot, no post-processor types. Such a graph —
// whatever cycles it contains — must start (C02), independently of any model.
// allOptional: at least one point, every point carries required=false, and nothing else can make the start fail
func (r *gRun) allOptional() bool {
	if r.sc.loaderFail || r.sc.scanFail || r.sc.hasType(34) || r.sc.hasType(37) {
		return false // (types 34, 37 have REQUIRED points declared with struct tags)
	}
	points := 0
	for _, n := range r.sc.nodes {
		if n.flt != 0 || n.early != 0 || n.after != 0 || n.cfg != 0 || utInfos[n.ty].pp {
			return false
		}
		for _, tag := range n.slots {
			points++
			if !tagOptional(tag) {
				return false
			}
		}
	}
	return points > 0
}

func (r *gRun) plainlyResolvable() bool {
	if r.sc.loaderFail || r.sc.scanFail || r.sc.progQualified() || r.sc.hasType(34) || r.sc.hasType(37) {
		return false // (types 34, 37 have required points of their own, declared with struct tags)
	}
	names := map[string]int{}
	for i := range r.sc.nodes {
		if i < len(r.rows) {
			names[r.rows[i].name] = i
		}
	}
	for i, n := range r.sc.nodes {
		if n.flt != 0 || n.early != 0 || n.after != 0 || n.cfg != 0 || utInfos[n.ty].pp {
			return false
		}
		for slot, tag := range n.slots {
			if tag[0] != 'w' || strings.Contains(tag, ",") && !strings.HasSuffix(tag, ",required=false") {
				return false
			}
			optional := strings.HasSuffix(tag, ",required=false")
			target := strings.TrimSuffix(tag[1:], ",required=false")
			if slot == "RR0" && !optional {
				return false // an array-typed point is never filled: a required one fails the start, legitimately
			}
			if slot != "A0" && slot != "A1" && slot != "A2" {
				// a typed point wired BY TYPE: resolvable when it is optional or some OTHER component is compatible
				if target != "" {
					return false
				}
				if !optional && !r.otherCompatible(i, slot) {
					return false
				}
				continue
			}
			if target == "" {
				if !optional && len(r.sc.nodes) < 2 && r.sc.zs == 0 {
					return false
				}
				continue
			}
			j, ok := names[target]
			if !ok || j == i {
				return false
			}
		}
	}
	return len(r.sc.nodes) > 0
}

// otherCompatible: does a component other than node i exist that the by-type slot accepts (static type facts only)?
func (r *gRun) otherCompatible(i int, slot string) bool {
	want := map[string]int{"P0": 0, "P1": 1, "P4": 4, "SP0": 0, "SP4": 4}
	ifc := map[string]int{"X0": 0, "X0b": 0, "X1": 1, "X2": 2, "X3": 3, "S0": 0, "S1": 1, "S2": 2}
	for j, n := range r.sc.nodes {
		if j == i {
			continue
		}
		if t, ok := want[slot]; ok {
			if n.ty == t {
				return true
			}
			continue
		}
		if f, ok := ifc[slot]; ok {
			for _, x := range utInfos[n.ty].ifs {
				if x == f {
					return true
				}
			}
			continue
		}
		return true // AS0: []any
	}
	if f, ok := ifc[slot]; ok && f == 0 && r.sc.zs > 0 {
		return true // the zero-size components implement Ifc0
	}
	return slot == "AS0" && r.sc.zs > 0
}

func unwiredNode(r *gRun, i int) bool {
	return i < len(r.nodesObj) && isUnwired(r.nodesObj[i])
}

func joinFails(f []string) string {
	if len(f) == 0 {
		return "ok"
	}
	if len(f) > 6 {
		f = f[:6]
	}
	return strings.Join(f, " ;; ")
}

// ---- scenario text → gScen (for replay)

func parseGraphScenario(line string) (*gScen, error) {
	sc := &gScen{}
	for _, rec := range strings.Split(line, " | ") {
		f := strings.Fields(rec)
		if len(f) == 0 {
			continue
		}
		switch f[0] {
		case "X":
			if len(f) < 4 {
				return nil, fmt.Errorf("bad X")
			}
			sc.loaderFail, sc.scanFail = f[1] == "1", f[2] == "1"
			sc.rankSeed, _ = strconv.ParseUint(f[3], 10, 64)
			if len(f) > 4 {
				sc.zs, _ = strconv.Atoi(f[4])
			}
			if len(f) > 5 && f[5] != "-" {
				for _, t := range strings.Split(f[5], ",") {
					if v, err := strconv.Atoi(t); err == nil {
						sc.prefill = append(sc.prefill, v)
					}
				}
			}
			if len(f) > 6 {
				sc.hist, _ = strconv.Atoi(f[6])
			}
		case "N":
			if len(f) < 12 {
				return nil, fmt.Errorf("bad N")
			}
			n := gNode{slots: map[string]string{}}
			n.ty, _ = strconv.Atoi(f[2])
			n.cust, _ = hx.UnHex(f[3])
			n.q, _ = hx.UnHex(f[4])
			n.r, _ = hx.UnHex(f[5])
			n.ord, _ = strconv.Atoi(f[6])
			n.early, _ = strconv.Atoi(f[7])
			n.after, _ = strconv.Atoi(f[8])
			n.flt, _ = strconv.Atoi(f[9])
			n.cfg, _ = strconv.Atoi(f[10])
			if len(f) > 12 && f[12] != "-" {
				n.fetch, _ = hx.UnHex(f[12])
			}
			if len(f) > 13 {
				n.progQ, _ = hx.UnHex(f[13])
			}
			if len(f) > 14 {
				n.runAfter, _ = strconv.Atoi(f[14])
			}
			if len(f) > 15 {
				n.extra = f[15] == "x"
			}
			sc.nodes = append(sc.nodes, n)
		case "F":
			if len(f) < 7 {
				return nil, fmt.Errorf("bad F")
			}
			row, _ := strconv.Atoi(f[1])
			if _, static := staticSlotTags[f[2]]; row < len(sc.nodes) && !static {
				t, _ := hx.UnHex(f[6])
				sc.nodes[row].slots[f[2]] = f[5] + t
			}
		}
	}
	sc.unqualify()
	return sc, nil
}

func graphReplay(scn string, w *hx.Writer) {
	scn = strings.TrimPrefix(scn, "#reentrant ")
	scn = strings.TrimPrefix(scn, "#retry ")
	scn = strings.TrimPrefix(scn, "#progq ")
	scn = strings.TrimPrefix(scn, "#ioc ")
	scn = strings.TrimPrefix(scn, "#extra ")
	sc, err := parseGraphScenario(scn)
	if err != nil {
		return
	}
	if shrinkSig != "" {
		sc = shrinkGraph(sc, shrinkSig)
	}
	emitGraph(sc, []string{"replay"}, w)
}

func cloneScen(sc *gScen) *gScen {
	c := &gScen{loaderFail: sc.loaderFail, scanFail: sc.scanFail, rankSeed: sc.rankSeed, natural: sc.natural, zs: sc.zs,
		prefill: append([]int{}, sc.prefill...), hist: sc.hist}
	for _, n := range sc.nodes {
		m := n
		m.slots = map[string]string{}
		for k, v := range n.slots {
			m.slots[k] = v
		}
		c.nodes = append(c.nodes, m)
	}
	return c
}

func failsWith(sc *gScen, sig string) bool {
	r := runGraph(sc)
	if r.status == "dupname" {
		return false
	}
	if r.status == "hang" {
		return sig == "c02-hang"
	}
	for _, f := range r.oracles() {
		if strings.HasPrefix(f, "FAIL "+sig+" ") {
			return true
		}
	}
	return false
}

// shrinkGraph: greedy delta debugging of a scenario while an oracle failure with the given signature persists:
// drop nodes, drop slots, clear substitution / faults / configuration slots, drop optional arguments.
func shrinkGraph(sc *gScen, sig string) *gScen {
	if !failsWith(sc, sig) {
		return sc
	}
	cur := cloneScen(sc)
	for changed, rounds := true, 0; changed && rounds < 8; rounds++ {
		changed = false
		for i := len(cur.nodes) - 1; i >= 0 && len(cur.nodes) > 1; i-- {
			c := cloneScen(cur)
			c.nodes = append(c.nodes[:i], c.nodes[i+1:]...)
			if failsWith(c, sig) {
				cur, changed = c, true
			}
		}
		for i := range cur.nodes {
			var keys []string
			for k := range cur.nodes[i].slots {
				keys = append(keys, k)
			}
			sort.Strings(keys)
			for _, k := range keys {
				c := cloneScen(cur)
				delete(c.nodes[i].slots, k)
				if failsWith(c, sig) {
					cur, changed = c, true
				}
			}
			for _, f := range []func(n *gNode){
				func(n *gNode) { n.early = 0 }, func(n *gNode) { n.after = 0 }, func(n *gNode) { n.flt = 0 },
				func(n *gNode) { n.cfg = 0 }, func(n *gNode) { n.q = "" }, func(n *gNode) { n.ord = 0 },
			} {
				c := cloneScen(cur)
				before := fmt.Sprint(c.nodes[i])
				f(&c.nodes[i])
				if fmt.Sprint(c.nodes[i]) != before && failsWith(c, sig) {
					cur, changed = c, true
				}
			}
		}
		if cur.loaderFail || cur.scanFail {
			c := cloneScen(cur)
			c.loaderFail, c.scanFail = false, false
			if failsWith(c, sig) {
				cur, changed = c, true
			}
		}
	}
	return cur
}

var hangs int

func emitGraph(sc *gScen, tags []string, w *hx.Writer) *gRun {
	r := runGraph(sc)
	if r.status == "dupname" {
		return r
	}
	if r.status == "hang" {
		w.Put(hx.Case{Scn: "#hang " + fmt.Sprintf("%d nodes, loaderFail=%v scanFail=%v", len(sc.nodes), sc.loaderFail, sc.scanFail), Obs: "st=hang",
			Oracle: "FAIL c02-hang Run did not return within 10s", Tags: tags})
		hangs++
		if hangs >= 3 {
			// every further hang costs 10 s and leaks goroutines: three concrete witnesses are enough
			w.Close()
			os.Exit(0)
		}
		return r
	}
	if os.Getenv("HARNESS_DEBUG") != "" && r.errText != "" {
		fmt.Fprintf(os.Stderr, "DEBUG %v %s: %.300s\n", tags, r.status, strings.ReplaceAll(r.errText, "\n", " "))
	}
	scn := r.scenarioLine()
	if sc.reentrant() {
		scn = "#reentrant " + scn // callbacks that re-enter the factory are outside the machine model: oracle-only
	} else if sc.hasExtra() {
		scn = "#extra " + scn // a definition registered by a factory post-processor is outside the model's population: oracle-only
	} else if sc.hist == 3 {
		scn = "#ioc " + scn // one start per process through ioc.Register (never cleared): not shrunk, judged by the oracles
	}
	w.Put(hx.Case{Scn: scn, Obs: r.observation(), Oracle: joinFails(r.oracles()), Tags: append(tags, r.labels()...)})
	return r
}

// retry: a lazy component's first creation fails (Init fails once); after the start it is looked up again until it is
// created. Second attempts are outside the machine model (one start): oracle-only.
func (sc *gScen) retry() bool {
	for _, n := range sc.nodes {
		if n.flt&(fltInitOnce|fltLookup) != 0 {
			return true
		}
	}
	return false
}

// toleratedTarget: is node i only ever asked for through a lookup whose failure the asking Init absorbs (`~name`)? Its own
// callbacks may then fail without failing the start.
func (r *gRun) toleratedTarget(i int) bool {
	if i >= len(r.rows) {
		return false
	}
	for _, n := range r.sc.nodes {
		if n.fetch == "~"+r.rows[i].name {
			return true
		}
	}
	return false
}

// leftFromFailedAttempt: was the holder of field k completed during an EARLIER, failed post-start attempt to create the
// component `row` that it holds (and not removed with it)?
func (r *gRun) leftFromFailedAttempt(k, row string) bool {
	h, err1 := strconv.Atoi(k[:strings.Index(k, ".")])
	t, err2 := strconv.Atoi(row)
	if err1 != nil || err2 != nil {
		return false
	}
	c, ok1 := r.createdAt[h]
	f, ok2 := r.firstAtt[t]
	s, ok3 := r.succAtt[t]
	return ok1 && ok2 && ok3 && f <= c && c < s
}

// unqualify: the scenario line carries the EFFECTIVE tags (what a point asks for once the T25 processor has qualified it in
// code); a replay gives the scanner the tag as written and lets the processor add the qualifier again
func (sc *gScen) unqualify() {
	if !sc.hasType(25) {
		return
	}
	for i := range sc.nodes {
		if q := sc.nodes[i].progQ; q != "" {
			for k, t := range sc.nodes[i].slots {
				if t[0] == 'w' && strings.HasSuffix(t, ",qualifier="+q) {
					sc.nodes[i].slots[k] = strings.TrimSuffix(t, ",qualifier="+q)
				}
			}
		}
	}
}

func (sc *gScen) hasExtra() bool {
	for _, n := range sc.nodes {
		if n.extra {
			return true
		}
	}
	return false
}

func (sc *gScen) hasType(ty int) bool {
	for _, n := range sc.nodes {
		if n.ty == ty {
			return true
		}
	}
	return false
}

// progQualified: some holder's points are qualified in code (outside the model: oracle-only)
func (sc *gScen) progQualified() bool {
	for _, n := range sc.nodes {
		if n.progQ != "" {
			return true
		}
	}
	return false
}

func (sc *gScen) reentrant() bool {
	for _, n := range sc.nodes {
		if n.fetch != "" {
			return true
		}
	}
	return false
}

func (r *gRun) labels() []string {
	var l []string
	l = append(l, "st:"+r.status)
	l = append(l, fmt.Sprintf("nodes%d", len(r.sc.nodes)))
	sub, flt := false, false
	for _, n := range r.sc.nodes {
		if n.early > 0 || n.after > 0 {
			sub = true
		}
		if n.flt != 0 || n.cfg == 2 || n.cfg == 6 || n.cfg == 7 {
			flt = true
		}
	}
	if sub {
		l = append(l, "substituted")
	}
	if flt || r.sc.loaderFail || r.sc.scanFail {
		l = append(l, "fault")
	}
	for _, e := range r.events {
		if e[0] == 'e' {
			l = append(l, "early-ref")
			break
		}
	}
	slots := 0
	for _, n := range r.sc.nodes {
		slots += len(n.slots)
	}
	if len(r.sc.nodes) < 2 || slots == 0 {
		l = append(l, "trivial") // nothing to wire: exercises no branch of matching or of the cache protocol
	}
	return l
}
