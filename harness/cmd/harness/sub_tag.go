package main

// sub-harness `tag` (C19): the tag-argument grammar.
//
//	scenario  `P <hex>`  → component_definition.NewProperty(nil, …, "wire", text)
//	scenario  `S <hex>`  → the `prop` shorthand rewrite of the value processor, then NewProperty
//	observation          `<tagval> <args> <required>` | `panic`
//
// Oracles (evaluated on the real code only, independent of the model):
//   - totality: no panic for any byte string;
//   - structured tags (generated from the grammar) parse to exactly what was rendered;
//   - IsRequired() is false iff an argument named required/Required lists the item `false`.

import (
	"fmt"
	"reflect"
	"sort"
	"strconv"
	"strings"

	"github.com/go-kid/ioc/component_definition"
	"github.com/go-kid/ioc/container"
	"github.com/go-kid/ioc/container/processors"
	"github.com/go-kid/ioc/container/support"

	"verifharness/internal/hx"
)

func init() {
	register(&Sub{Name: "tag", Gen: tagGen, Replay: tagReplay, Corpus: tagCorpus})
}

type tagArg struct {
	name  string
	items []string
}

// expectation for a structured tag
type tagExpect struct {
	val  string
	args []tagArg
}

func showArgsMap(m map[string][]string) string {
	if len(m) == 0 {
		return "."
	}
	keys := make([]string, 0, len(m))
	for k := range m {
		keys = append(keys, k)
	}
	sort.Strings(keys)
	var parts []string
	for _, k := range keys {
		var items []string
		for _, it := range m[k] {
			items = append(items, hx.Hex(it))
		}
		parts = append(parts, hx.Hex(k)+"="+strings.Join(items, ","))
	}
	return strings.Join(parts, ";")
}

func propArgs(p *component_definition.Property) map[string][]string {
	m := map[string][]string{}
	p.Args().ForEach(func(t component_definition.ArgType, args []string) {
		m[string(t)] = args
	})
	return m
}

func obsProperty(p *component_definition.Property) string {
	req := "0"
	if p.IsRequired() {
		req = "1"
	}
	return hx.Hex(p.TagVal) + " " + showArgsMap(propArgs(p)) + " " + req
}

func upFirst(s string) string {
	if s == "" {
		return s
	}
	c := s[0]
	if c >= 'a' && c <= 'z' {
		return string(c-32) + s[1:]
	}
	return s
}

// runTagP parses `text` with the real code and evaluates the oracles.
func runTagP(text string, exp *tagExpect, tags []string, w *hx.Writer) {
	var p *component_definition.Property
	pan := hx.Guard(func() {
		p = component_definition.NewProperty(nil, component_definition.PropertyTypeComponent, "wire", text)
	})
	c := hx.Case{Scn: "P " + hx.Hex(text), Tags: tags}
	if pan != nil {
		c.Obs = "panic"
		c.Oracle = "FAIL tag-panic " + fmt.Sprint(pan)
		w.Put(c)
		return
	}
	c.Obs = obsProperty(p)
	got := propArgs(p)
	// required oracle
	wantReq := true
	if items, ok := got["Required"]; ok {
		for _, it := range items {
			if it == "false" {
				wantReq = false
			}
		}
	}
	if p.IsRequired() != wantReq {
		c.Oracle = fmt.Sprintf("FAIL tag-required IsRequired=%v args=%v", p.IsRequired(), got)
	}
	if exp != nil && c.Oracle == "" {
		want := map[string][]string{}
		for _, a := range exp.args {
			want[upFirst(a.name)] = a.items
		}
		if p.TagVal != exp.val || !reflect.DeepEqual(got, want) {
			c.Oracle = fmt.Sprintf("FAIL tag-roundtrip val=%q args=%v want val=%q args=%v", p.TagVal, got, exp.val, want)
		}
		// lookups are insensitive to the case of the first letter
		for _, a := range exp.args {
			lower := strings.ToLower(a.name[:1]) + a.name[1:]
			upper := strings.ToUpper(a.name[:1]) + a.name[1:]
			l1, ok1 := p.Args().Find(component_definition.ArgType(lower))
			l2, ok2 := p.Args().Find(component_definition.ArgType(upper))
			if !ok1 || !ok2 || !reflect.DeepEqual(l1, l2) {
				c.Oracle = fmt.Sprintf("FAIL tag-case name=%q", a.name)
			}
		}
	}
	w.Put(c)
}

var propHandler = func() func(*component_definition.Meta, *component_definition.Field) (string, string, bool) {
	p := processors.NewValueAwarePostProcessors()
	f := reflect.ValueOf(p).Elem().FieldByName("ExtractHandler")
	return f.Interface().(func(*component_definition.Meta, *component_definition.Field) (string, string, bool))
}()

func runTagS(text string, tags []string, w *hx.Writer) {
	structured := len(tags) > 0 && tags[0] == "prop-structured"
	c := hx.Case{Scn: "S " + hx.Hex(text), Tags: tags}
	var rewritten string
	var ok bool
	var p *component_definition.Property
	pan := hx.Guard(func() {
		field := &component_definition.Field{StructField: reflect.StructField{
			Name: "F", Tag: reflect.StructTag("prop:" + strconv.Quote(text))}}
		_, rewritten, ok = propHandler(nil, field)
		if ok {
			p = component_definition.NewProperty(field, component_definition.PropertyTypeConfiguration, "value", rewritten)
		}
	})
	if pan != nil {
		c.Obs = "panic"
		c.Oracle = "FAIL tag-panic " + fmt.Sprint(pan)
		w.Put(c)
		return
	}
	if !ok {
		// strconv.Quote output that StructTag.Lookup does not read back; not a container matter
		return
	}
	c.Obs = hx.Hex(rewritten) + " " + obsProperty(p)
	if f := scanEndToEnd(text, p); f != "" {
		c.Oracle = f
	}
	// oracle: the shorthand is the value tag `${key}` + the same arguments
	// (claimed for bracket-balanced text only: wrapping unbalanced text in ${…} changes what "top level" means)
	var direct *component_definition.Property
	if structured && hx.Guard(func() {
		direct = component_definition.NewProperty(nil, component_definition.PropertyTypeConfiguration, "value", text)
	}) == nil {
		if p.TagVal != "${"+direct.TagVal+"}" || !reflect.DeepEqual(propArgs(p), propArgs(direct)) {
			c.Oracle = fmt.Sprintf("FAIL tag-prop shorthand %q → %q args %v, direct parse %q args %v", text, p.TagVal, propArgs(p), direct.TagVal, propArgs(direct))
		}
	}
	w.Put(c)
}

// scanEndToEnd pushes `prop:"<text>"` (ExtractHandler branch) and `value:"<text>"` (tag-lookup branch) through the
// REAL scanner (DefaultTagScanDefinitionRegistryPostProcessor.PostProcessDefinitionRegistry of the value processor) on a
// run-time struct type and compares what arrives in the registry with the direct parse: same value part, same arguments
// except the scanner's `Required` default, and in particular the same IsRequired() — only an explicit required=false
// makes a point optional, on both branches.
func scanEndToEnd(text string, direct *component_definition.Property) string {
	var fail string
	pan := hx.Guard(func() {
		st := reflect.StructOf([]reflect.StructField{
			{Name: "P", Type: reflect.TypeOf(""), Tag: reflect.StructTag("prop:" + strconv.Quote(text))},
			{Name: "V", Type: reflect.TypeOf(""), Tag: reflect.StructTag("value:" + strconv.Quote(text))},
		})
		if _, ok := st.Field(0).Tag.Lookup("prop"); !ok {
			return
		}
		comp := reflect.New(st).Interface()
		reg := support.DefaultDefinitionRegistry()
		scanner, ok := processors.NewValueAwarePostProcessors().(container.DefinitionRegistryPostProcessor)
		if !ok {
			fail = "FAIL tag-scan the value processor is no longer a definition scanner"
			return
		}
		if err := scanner.PostProcessDefinitionRegistry(reg, comp, "c"); err != nil {
			fail = "FAIL tag-scan scanning failed: " + err.Error()
			return
		}
		meta := reg.GetMetaByName("c")
		var byProp, byValue *component_definition.Property
		for _, q := range meta.GetAllProperties() {
			switch q.StructField.Name {
			case "P":
				byProp = q
			case "V":
				byValue = q
			}
		}
		if byProp == nil || byValue == nil {
			fail = "FAIL tag-scan a tagged field produced no property"
			return
		}
		if byProp.TagVal != direct.TagVal || byProp.IsRequired() != direct.IsRequired() {
			fail = fmt.Sprintf("FAIL tag-scan-required prop:%q scanned as value %q required=%v, direct parse of the rewritten text gives %q required=%v",
				text, byProp.TagVal, byProp.IsRequired(), direct.TagVal, direct.IsRequired())
			return
		}
		var plain *component_definition.Property
		plain = component_definition.NewProperty(nil, component_definition.PropertyTypeConfiguration, "value", text)
		if byValue.TagVal != plain.TagVal || byValue.IsRequired() != plain.IsRequired() {
			fail = fmt.Sprintf("FAIL tag-scan-required value:%q scanned as value %q required=%v, direct parse gives %q required=%v",
				text, byValue.TagVal, byValue.IsRequired(), plain.TagVal, plain.IsRequired())
		}
	})
	if pan != nil && fail == "" {
		fail = "FAIL tag-panic scanner: " + fmt.Sprint(pan)
	}
	return fail
}

func tagReplay(scn string, w *hx.Writer) {
	f := strings.Fields(scn)
	if len(f) != 2 {
		return
	}
	s, err := hx.UnHex(f[1])
	if err != nil {
		return
	}
	switch f[0] {
	case "P":
		runTagP(s, nil, []string{"replay"}, w)
	case "S":
		runTagS(s, []string{"replay"}, w)
	}
}

func tagCorpus(w *hx.Writer) {
	for _, s := range []string{"", ",", "=", ",=", ",=,", "a,required=false", "a,Required=false", "a,required=true false",
		"a,required", "a,required=", "(,", "),x", "),(x", "{a,b},c={d e} f", "a,b=(c,d),e", "x,=y", "x, =y", ",,,",
		"a,\x80b=c", "a,\xc3\xa9=c", "${a:b},required=false", "#{1+2},validate=min=1 max=3", "a,b=c=d", "a,b==", "[", "]", "a,]b=[", "a,(=)"} {
		runTagP(s, nil, []string{"corpus"}, w)
		runTagS(s, []string{"corpus"}, w)
	}
}

const tagPlain = "abcxyzABQR019._-:$#'\""

func genAtom(r *hx.Rng, allowEq bool) string {
	n := 1 + r.Intn(4)
	var sb strings.Builder
	for i := 0; i < n; i++ {
		ch := tagPlain[r.Intn(len(tagPlain))]
		if allowEq && r.P(1, 12) {
			ch = '='
		}
		sb.WriteByte(ch)
	}
	return sb.String()
}

// genBalanced: text that is bracket balanced; commas/spaces only inside brackets when top is false
func genBalanced(r *hx.Rng, depth int, allowEq bool) string {
	var sb strings.Builder
	parts := 1 + r.Intn(2)
	for i := 0; i < parts; i++ {
		if depth < 3 && r.P(1, 3) {
			k := r.Intn(3)
			sb.WriteByte("{[("[k])
			inner := r.Intn(3)
			for j := 0; j < inner; j++ {
				if j > 0 {
					sb.WriteByte(", ="[r.Intn(4)%3+0])
				}
				sb.WriteString(genBalanced(r, depth+1, true))
			}
			sb.WriteByte("}])"[k])
		} else {
			sb.WriteString(genAtom(r, allowEq))
		}
	}
	return sb.String()
}

func genName(r *hx.Rng) string {
	if r.P(1, 3) {
		return []string{"required", "Required", "qualifier", "Qualifier", "validate", "mapper", "returns", "embed"}[r.Intn(8)]
	}
	n := 1 + r.Intn(5)
	var sb strings.Builder
	for i := 0; i < n; i++ {
		sb.WriteByte("abcdwxyzABCDWXYZ0189_-."[r.Intn(23)])
	}
	return sb.String()
}

func genStructured(r *hx.Rng) (string, *tagExpect) {
	exp := &tagExpect{}
	if r.P(4, 5) {
		exp.val = genBalanced(r, 0, true)
	}
	nargs := r.Intn(6)
	seg := []string{exp.val}
	for i := 0; i < nargs; i++ {
		a := tagArg{name: genName(r)}
		ni := 1 + r.Intn(3)
		if r.P(1, 6) {
			ni = 1
			a.items = []string{""}
		} else {
			for j := 0; j < ni; j++ {
				if a.name == "required" || a.name == "Required" {
					a.items = append(a.items, []string{"false", "true", "False", "false "}[r.Intn(3)])
				} else {
					a.items = append(a.items, genBalanced(r, 0, true))
				}
			}
		}
		exp.args = append(exp.args, a)
		seg = append(seg, a.name+"="+strings.Join(a.items, " "))
	}
	// duplicates: the last one wins (Go map); keep only the last for the expectation
	last := map[string]int{}
	for i, a := range exp.args {
		last[upFirst(a.name)] = i
	}
	var kept []tagArg
	for i, a := range exp.args {
		if last[upFirst(a.name)] == i {
			kept = append(kept, a)
		}
	}
	exp.args = kept
	return strings.Join(seg, ","), exp
}

const tagSpecial = ",=()[]{} \"'$#:"

func genBytes(r *hx.Rng) string {
	n := r.Intn(65)
	if r.P(1, 4) {
		n = r.Intn(8)
	}
	b := make([]byte, n)
	for i := range b {
		switch r.Intn(10) {
		case 0, 1, 2, 3, 4:
			b[i] = tagSpecial[r.Intn(len(tagSpecial))]
		case 5, 6, 7:
			b[i] = "abrRqQ01"[r.Intn(8)]
		case 8:
			b[i] = byte(r.Intn(256))
		default:
			b[i] = byte(32 + r.Intn(95))
		}
	}
	return string(b)
}

func tagGen(rng *hx.Rng, n int, tier string, w *hx.Writer) {
	for i := 0; i < n; i++ {
		r := rng.Fork()
		switch k := r.Intn(10); {
		case k < 4:
			s, exp := genStructured(r)
			tags := []string{"structured", fmt.Sprintf("args%d", len(exp.args))}
			if strings.ContainsAny(s, "([{") {
				tags = append(tags, "bracketed")
			}
			if len(exp.args) == 0 && !strings.ContainsAny(s, "([{") {
				tags = append(tags, "trivial")
			}
			runTagP(s, exp, tags, w)
		case k < 8:
			s := genBytes(r)
			tags := []string{"bytes", fmt.Sprintf("len%d", len(s)/16*16)}
			if !strings.ContainsAny(s, ",=") {
				tags = append(tags, "trivial")
			}
			runTagP(s, nil, tags, w)
		case k < 9:
			s, _ := genStructured(r)
			runTagS(s, []string{"prop-structured"}, w)
		default:
			runTagS(genBytes(r), []string{"prop-bytes"}, w)
		}
	}
}
