package main

// sub-harness `tag` (C19): the tag-argument grammar.
//
//	scenario  `P <hex>`  → component_definition.NewProperty(nil, …, "wire", text)
//	scenario  `S <hex>`  → the `prop` shorthand rewrite of the value processor, then NewProperty
//	scenario  `U <r><m> <hex>` → a USER-DEFINED tag scanner (embeds DefaultTagScanDefinitionRegistryPostProcessor, tag `plugin`;
//	                       r: 0 = Required left unset, 1 = Required:true, 2 = Required:false; m: 0 = tag lookup,
//	                       1 = ExtractHandler only, 2 = ExtractHandler + the scanner's tag name) scans a run-time struct
//	                       whose field carries the text; observed: the property that arrives in the registry
//	observation          `<tagval> <args> <required>` | `panic`
//
// Oracles (evaluated on the real code only, independent of the model):
//   - totality: no panic for any byte string;
//   - structured tags (generated from the grammar) parse to exactly what was rendered;
//   - IsRequired() is false iff an argument named required/Required lists the item `false`;
//   - through a scanner (built-in or user-defined, whatever its Required field) the point is optional only when the
//     tag TEXT says required=false (tag-scan-required, tag-scan-required-user).

import (
	"fmt"
	"reflect"
	"sort"
	"strconv"
	"strings"

	"github.com/go-kid/ioc/component_definition"
	"github.com/go-kid/ioc/container"
	"github.com/go-kid/ioc/container/processors"
	"github.com/go-kid/ioc/container/support"

	"verifharness/internal/hx"
)

func init() {
	register(&Sub{Name: "tag", Gen: tagGen, Replay: tagReplay, Corpus: tagCorpus})
}

type tagArg struct {
	name  string
	items []string
}

// expectation for a structured tag
type tagExpect struct {
	val  string
	args []tagArg
}

func showArgsMap(m map[string][]string) string {
	if len(m) == 0 {
		return "."
	}
	keys := make([]string, 0, len(m))
	for k := range m {
		keys = append(keys, k)
	}
	sort.Strings(keys)
	var parts []string
	for _, k := range keys {
		var items []string
		for _, it := range m[k] {
			items = append(items, hx.Hex(it))
		}
		parts = append(parts, hx.Hex(k)+"="+strings.Join(items, ","))
	}
	return strings.Join(parts, ";")
}

func propArgs(p *component_definition.Property) map[string][]string {
	m := map[string][]string{}
	p.Args().ForEach(func(t component_definition.ArgType, args []string) {
		m[string(t)] = args
	})
	return m
}

func obsProperty(p *component_definition.Property) string {
	req := "0"
	if p.IsRequired() {
		req = "1"
	}
	return hx.Hex(p.TagVal) + " " + showArgsMap(propArgs(p)) + " " + req
}

func upFirst(s string) string {
	if s == "" {
		return s
	}
	c := s[0]
	if c >= 'a' && c <= 'z' {
		return string(c-32) + s[1:]
	}
	return s
}

// runTagP parses `text` with the real code and evaluates the oracles.
func runTagP(text string, exp *tagExpect, tags []string, w *hx.Writer) {
	var p *component_definition.Property
	pan := hx.Guard(func() {
		p = component_definition.NewProperty(nil, component_definition.PropertyTypeComponent, "wire", text)
	})
	c := hx.Case{Scn: "P " + hx.Hex(text), Tags: tags}
	if pan != nil {
		c.Obs = "panic"
		c.Oracle = "FAIL tag-panic " + fmt.Sprint(pan)
		w.Put(c)
		return
	}
	c.Obs = obsProperty(p)
	got := propArgs(p)
	// required oracle
	wantReq := true
	if items, ok := got["Required"]; ok {
		for _, it := range items {
			if it == "false" {
				wantReq = false
			}
		}
	}
	if p.IsRequired() != wantReq {
		c.Oracle = fmt.Sprintf("FAIL tag-required IsRequired=%v args=%v", p.IsRequired(), got)
	}
	if exp != nil && c.Oracle == "" {
		want := map[string][]string{}
		for _, a := range exp.args {
			want[upFirst(a.name)] = a.items
		}
		if p.TagVal != exp.val || !reflect.DeepEqual(got, want) {
			c.Oracle = fmt.Sprintf("FAIL tag-roundtrip val=%q args=%v want val=%q args=%v", p.TagVal, got, exp.val, want)
		}
		// lookups are insensitive to the case of the first letter
		for _, a := range exp.args {
			lower := strings.ToLower(a.name[:1]) + a.name[1:]
			upper := strings.ToUpper(a.name[:1]) + a.name[1:]
			l1, ok1 := p.Args().Find(component_definition.ArgType(lower))
			l2, ok2 := p.Args().Find(component_definition.ArgType(upper))
			if !ok1 || !ok2 || !reflect.DeepEqual(l1, l2) {
				c.Oracle = fmt.Sprintf("FAIL tag-case name=%q", a.name)
			}
		}
	}
	w.Put(c)
}

var propHandler = func() func(*component_definition.Meta, *component_definition.Field) (string, string, bool) {
	p := processors.NewValueAwarePostProcessors()
	f := reflect.ValueOf(p).Elem().FieldByName("ExtractHandler")
	return f.Interface().(func(*component_definition.Meta, *component_definition.Field) (string, string, bool))
}()

func runTagS(text string, tags []string, w *hx.Writer) {
	structured := len(tags) > 0 && tags[0] == "prop-structured"
	c := hx.Case{Scn: "S " + hx.Hex(text), Tags: tags}
	var rewritten string
	var ok bool
	var p *component_definition.Property
	pan := hx.Guard(func() {
		field := &component_definition.Field{StructField: reflect.StructField{
			Name: "F", Tag: reflect.StructTag("prop:" + strconv.Quote(text))}}
		_, rewritten, ok = propHandler(nil, field)
		if ok {
			p = component_definition.NewProperty(field, component_definition.PropertyTypeConfiguration, "value", rewritten)
		}
	})
	if pan != nil {
		c.Obs = "panic"
		c.Oracle = "FAIL tag-panic " + fmt.Sprint(pan)
		w.Put(c)
		return
	}
	if !ok {
		// strconv.Quote output that StructTag.Lookup does not read back; not a container matter
		return
	}
	c.Obs = hx.Hex(rewritten) + " " + obsProperty(p)
	if f := scanEndToEnd(text, p); f != "" {
		c.Oracle = f
	}
	// oracle: the shorthand is the value tag `${key}` + the same arguments
	// (claimed for bracket-balanced text only: wrapping unbalanced text in ${…} changes what "top level" means)
	var direct *component_definition.Property
	if structured && hx.Guard(func() {
		direct = component_definition.NewProperty(nil, component_definition.PropertyTypeConfiguration, "value", text)
	}) == nil {
		if p.TagVal != "${"+direct.TagVal+"}" || !reflect.DeepEqual(propArgs(p), propArgs(direct)) {
			c.Oracle = fmt.Sprintf("FAIL tag-prop shorthand %q → %q args %v, direct parse %q args %v", text, p.TagVal, propArgs(p), direct.TagVal, propArgs(direct))
		}
	}
	w.Put(c)
}

// scanEndToEnd pushes `prop:"<text>"` (ExtractHandler branch) and `value:"<text>"` (tag-lookup branch) through the
// REAL scanner (DefaultTagScanDefinitionRegistryPostProcessor.PostProcessDefinitionRegistry of the value processor) on a
// run-time struct type and compares what arrives in the registry with the direct parse: same value part, same arguments
// except the scanner's `Required` default, and in particular the same IsRequired() — only an explicit required=false
// makes a point optional, on both branches.
func scanEndToEnd(text string, direct *component_definition.Property) string {
	var fail string
	pan := hx.Guard(func() {
		st := reflect.StructOf([]reflect.StructField{
			{Name: "P", Type: reflect.TypeOf(""), Tag: reflect.StructTag("prop:" + strconv.Quote(text))},
			{Name: "V", Type: reflect.TypeOf(""), Tag: reflect.StructTag("value:" + strconv.Quote(text))},
		})
		if _, ok := st.Field(0).Tag.Lookup("prop"); !ok {
			return
		}
		comp := reflect.New(st).Interface()
		reg := support.DefaultDefinitionRegistry()
		scanner, ok := processors.NewValueAwarePostProcessors().(container.DefinitionRegistryPostProcessor)
		if !ok {
			fail = "FAIL tag-scan the value processor is no longer a definition scanner"
			return
		}
		if err := scanner.PostProcessDefinitionRegistry(reg, comp, "c"); err != nil {
			fail = "FAIL tag-scan scanning failed: " + err.Error()
			return
		}
		meta := reg.GetMetaByName("c")
		var byProp, byValue *component_definition.Property
		for _, q := range meta.GetAllProperties() {
			switch q.StructField.Name {
			case "P":
				byProp = q
			case "V":
				byValue = q
			}
		}
		if byProp == nil || byValue == nil {
			fail = "FAIL tag-scan a tagged field produced no property"
			return
		}
		if byProp.TagVal != direct.TagVal || byProp.IsRequired() != direct.IsRequired() {
			fail = fmt.Sprintf("FAIL tag-scan-required prop:%q scanned as value %q required=%v, direct parse of the rewritten text gives %q required=%v",
				text, byProp.TagVal, byProp.IsRequired(), direct.TagVal, direct.IsRequired())
			return
		}
		var plain *component_definition.Property
		plain = component_definition.NewProperty(nil, component_definition.PropertyTypeConfiguration, "value", text)
		if byValue.TagVal != plain.TagVal || byValue.IsRequired() != plain.IsRequired() {
			fail = fmt.Sprintf("FAIL tag-scan-required value:%q scanned as value %q required=%v, direct parse gives %q required=%v",
				text, byValue.TagVal, byValue.IsRequired(), plain.TagVal, plain.IsRequired())
		}
	})
	if pan != nil && fail == "" {
		fail = "FAIL tag-panic scanner: " + fmt.Sprint(pan)
	}
	if fail == "" {
		// the same text under a user-defined scanner that leaves Required unset, and one that sets it
		for _, cfg := range []string{"00", "11"} {
			if _, f, ok := scanUser(cfg, text, nil); ok && f != "" {
				return f
			}
		}
	}
	return fail
}

// userTagScanner is what an application writes to get its own tag scanned (cf. /repo/unittest/component/modified_inject):
// the stock scanner embedded, only the fields it cares about filled in.
type userTagScanner struct {
	processors.DefaultTagScanDefinitionRegistryPostProcessor
}

func newUserScanner(cfg string) (container.DefinitionRegistryPostProcessor, string) {
	sc := &userTagScanner{}
	sc.NodeType = component_definition.PropertyTypeComponent
	switch cfg[0] {
	case '1':
		sc.Required = true
	case '2':
		sc.Required = false
	} // '0': the field is never mentioned (zero value)
	key := "plugin"
	switch cfg[1] {
	case '0':
		sc.Tag = "plugin"
	case '1':
		sc.ExtractHandler = func(_ *component_definition.Meta, field *component_definition.Field) (string, string, bool) {
			v, ok := field.StructField.Tag.Lookup("plugin")
			return "plugin", v, ok
		}
	default:
		key = "plug"
		sc.Tag = "plugin"
		sc.ExtractHandler = func(_ *component_definition.Meta, field *component_definition.Field) (string, string, bool) {
			v, ok := field.StructField.Tag.Lookup("plug")
			return "", v, ok
		}
	}
	return sc, key
}

func validUserCfg(cfg string) bool {
	return len(cfg) == 2 && cfg[0] >= '0' && cfg[0] <= '2' && cfg[1] >= '0' && cfg[1] <= '2'
}

// textSaysOptional: what the TEXT of a structured tag says — optional iff its (last) required argument lists `false`.
func textSaysOptional(exp *tagExpect) bool {
	for _, a := range exp.args {
		if upFirst(a.name) == "Required" {
			for _, it := range a.items {
				if it == "false" {
					return true
				}
			}
		}
	}
	return false
}

// scanUser runs the REAL scanner code of a user-defined scanner over a run-time struct whose only field carries `text`
// and evaluates the property on the property that arrives in the registry: same value part, the same arguments as the
// tag text (the scanner may add its own Required marker, nothing else), and optional ONLY when the text says
// required=false — whatever the scanner's Required field is (set, or left at its zero value).
// ok=false: reflect.StructTag does not read the quoted text back (not a container matter).
func scanUser(cfg, text string, exp *tagExpect) (obs, fail string, ok bool) {
	var q *component_definition.Property
	pan := hx.Guard(func() {
		scanner, key := newUserScanner(cfg)
		st := reflect.StructOf([]reflect.StructField{
			{Name: "F", Type: reflect.TypeOf((*fmt.Stringer)(nil)).Elem(), Tag: reflect.StructTag(key + ":" + strconv.Quote(text))},
		})
		if v, found := st.Field(0).Tag.Lookup(key); !found || v != text {
			return
		}
		ok = true
		reg := support.DefaultDefinitionRegistry()
		if err := scanner.PostProcessDefinitionRegistry(reg, reflect.New(st).Interface(), "c"); err != nil {
			fail = "FAIL tag-scan-user scanning failed: " + err.Error()
			return
		}
		for _, p := range reg.GetMetaByName("c").GetAllProperties() {
			if p.StructField.Name == "F" {
				q = p
			}
		}
	})
	if pan != nil {
		return "panic", "FAIL tag-panic user scanner " + cfg + ": " + fmt.Sprint(pan), true
	}
	if !ok || fail != "" {
		return "", fail, ok
	}
	if q == nil {
		return "none", "FAIL tag-scan-user the tagged field produced no property (scanner " + cfg + ")", true
	}
	obs = obsProperty(q)
	var direct *component_definition.Property
	if hx.Guard(func() {
		direct = component_definition.NewProperty(nil, component_definition.PropertyTypeComponent, "plugin", text)
	}) != nil {
		return obs, "", true // the panic of the parser itself is reported by the P scenarios
	}
	// what the text says: from the grammar for structured tags, from the direct parse of the text otherwise
	optional := !direct.IsRequired()
	if exp != nil {
		optional = textSaysOptional(exp)
	}
	if q.IsRequired() == optional {
		return obs, fmt.Sprintf("FAIL tag-scan-required-user scanner %s: plugin:%q scanned with IsRequired=%v args=%v, but the tag text has explicit required=false: %v (only that makes a point optional)",
			cfg, text, q.IsRequired(), propArgs(q), optional), true
	}
	got, want := propArgs(q), propArgs(direct)
	delete(got, "Required")
	delete(want, "Required")
	if q.TagVal != direct.TagVal || !reflect.DeepEqual(got, want) {
		return obs, fmt.Sprintf("FAIL tag-scan-user scanner %s: plugin:%q scanned as value %q args %v, the text parses to %q args %v",
			cfg, text, q.TagVal, got, direct.TagVal, want), true
	}
	return obs, "", true
}

func runTagU(cfg, text string, exp *tagExpect, tags []string, w *hx.Writer) {
	if !validUserCfg(cfg) {
		return
	}
	obs, fail, ok := scanUser(cfg, text, exp)
	if !ok {
		return
	}
	w.Put(hx.Case{Scn: "U " + cfg + " " + hx.Hex(text), Obs: obs, Oracle: fail, Tags: tags})
}

func tagReplay(scn string, w *hx.Writer) {
	f := strings.Fields(scn)
	if len(f) == 3 && f[0] == "U" {
		if s, err := hx.UnHex(f[2]); err == nil {
			runTagU(f[1], s, nil, []string{"replay"}, w)
		}
		return
	}
	if len(f) != 2 {
		return
	}
	s, err := hx.UnHex(f[1])
	if err != nil {
		return
	}
	switch f[0] {
	case "P":
		runTagP(s, nil, []string{"replay"}, w)
	case "S":
		runTagS(s, []string{"replay"}, w)
	}
}

func tagCorpus(w *hx.Writer) {
	for _, s := range []string{"", ",", "=", ",=", ",=,", "a,required=false", "a,Required=false", "a,required=true false",
		"a,required", "a,required=", "(,", "),x", "),(x", "{a,b},c={d e} f", "a,b=(c,d),e", "x,=y", "x, =y", ",,,",
		"a,\x80b=c", "a,\xc3\xa9=c", "${a:b},required=false", "#{1+2},validate=min=1 max=3", "a,b=c=d", "a,b==", "[", "]", "a,]b=[", "a,(=)"} {
		runTagP(s, nil, []string{"corpus"}, w)
		runTagS(s, []string{"corpus"}, w)
	}
	// user-defined scanners: every Required setting x every way a tag reaches NewProperty, over the forms of required-ness
	for _, s := range []string{"main", "", "main,qualifier=[x y]", "main,required", "main,Required", "main,required=true", "main,required=false",
		"main,Required=false", "main,required=", "main,required=true false", "main,qualifier=[x y],required=false", "main,required=false,required=true",
		"main, required=false", "main,required=False", "main,qualifier=required=false", "[main,required=false]", "main,required=[false]", "),required=false"} {
		for _, cfg := range []string{"00", "10", "20", "01", "11", "02", "12"} {
			runTagU(cfg, s, nil, []string{"corpus"}, w)
		}
	}
}

// genReqTag: a structured tag built around the forms of required-ness the property speaks about: no required argument,
// a bare `required`, required=true, required=false (either first-letter case), next to other arguments.
func genReqTag(r *hx.Rng) (string, *tagExpect) {
	exp := &tagExpect{}
	if r.P(4, 5) {
		exp.val = genBalanced(r, 0, true)
	}
	seg := []string{exp.val}
	add := func(name string, bare bool, items ...string) {
		if bare {
			exp.args = append(exp.args, tagArg{name: name, items: []string{""}})
			seg = append(seg, name)
			return
		}
		exp.args = append(exp.args, tagArg{name: name, items: items})
		seg = append(seg, name+"="+strings.Join(items, " "))
	}
	other := func() {
		switch r.Intn(4) {
		case 0:
			add("qualifier", false, "[x y]")
		case 1:
			add([]string{"qualifier", "Qualifier"}[r.Intn(2)], false, genBalanced(r, 0, true))
		case 2:
			add(genName2(r), false, genBalanced(r, 0, true), genBalanced(r, 0, true))
		default:
			add(genName2(r), true)
		}
	}
	for n := r.Intn(3); n > 0; n-- {
		other()
	}
	req := []string{"required", "Required"}[r.Intn(2)]
	switch r.Intn(8) {
	case 0, 1, 2: // no required argument at all
	case 3:
		add(req, true)
	case 4:
		add(req, false, "true")
	case 5:
		add(req, false, "false")
	case 6:
		add(req, false, "")
	default:
		add(req, false, []string{"true", "false", "False", "no", "[false]"}[r.Intn(5)], []string{"true", "false", "FALSE"}[r.Intn(3)])
	}
	for n := r.Intn(2); n > 0; n-- {
		other()
	}
	last := map[string]int{}
	for i, a := range exp.args {
		last[upFirst(a.name)] = i
	}
	var kept []tagArg
	for i, a := range exp.args {
		if last[upFirst(a.name)] == i {
			kept = append(kept, a)
		}
	}
	exp.args = kept
	return strings.Join(seg, ","), exp
}

// genName2: an argument name that is not a spelling of `required`
func genName2(r *hx.Rng) string {
	for {
		if n := genName(r); upFirst(n) != "Required" {
			return n
		}
	}
}

const tagPlain = "abcxyzABQR019._-:$#'\""

func genAtom(r *hx.Rng, allowEq bool) string {
	n := 1 + r.Intn(4)
	var sb strings.Builder
	for i := 0; i < n; i++ {
		ch := tagPlain[r.Intn(len(tagPlain))]
		if allowEq && r.P(1, 12) {
			ch = '='
		}
		sb.WriteByte(ch)
	}
	return sb.String()
}

// genBalanced: text that is bracket balanced; commas/spaces only inside brackets when top is false
func genBalanced(r *hx.Rng, depth int, allowEq bool) string {
	var sb strings.Builder
	parts := 1 + r.Intn(2)
	for i := 0; i < parts; i++ {
		if depth < 3 && r.P(1, 3) {
			k := r.Intn(3)
			sb.WriteByte("{[("[k])
			inner := r.Intn(3)
			for j := 0; j < inner; j++ {
				if j > 0 {
					sb.WriteByte(", ="[r.Intn(4)%3+0])
				}
				sb.WriteString(genBalanced(r, depth+1, true))
			}
			sb.WriteByte("}])"[k])
		} else {
			sb.WriteString(genAtom(r, allowEq))
		}
	}
	return sb.String()
}

func genName(r *hx.Rng) string {
	if r.P(1, 3) {
		return []string{"required", "Required", "qualifier", "Qualifier", "validate", "mapper", "returns", "embed"}[r.Intn(8)]
	}
	n := 1 + r.Intn(5)
	var sb strings.Builder
	for i := 0; i < n; i++ {
		sb.WriteByte("abcdwxyzABCDWXYZ0189_-."[r.Intn(23)])
	}
	return sb.String()
}

func genStructured(r *hx.Rng) (string, *tagExpect) {
	exp := &tagExpect{}
	if r.P(4, 5) {
		exp.val = genBalanced(r, 0, true)
	}
	nargs := r.Intn(6)
	seg := []string{exp.val}
	for i := 0; i < nargs; i++ {
		a := tagArg{name: genName(r)}
		ni := 1 + r.Intn(3)
		if r.P(1, 6) {
			ni = 1
			a.items = []string{""}
		} else {
			for j := 0; j < ni; j++ {
				if a.name == "required" || a.name == "Required" {
					a.items = append(a.items, []string{"false", "true", "False", "false "}[r.Intn(3)])
				} else {
					a.items = append(a.items, genBalanced(r, 0, true))
				}
			}
		}
		exp.args = append(exp.args, a)
		seg = append(seg, a.name+"="+strings.Join(a.items, " "))
	}
	// duplicates: the last one wins (Go map); keep only the last for the expectation
	last := map[string]int{}
	for i, a := range exp.args {
		last[upFirst(a.name)] = i
	}
	var kept []tagArg
	for i, a := range exp.args {
		if last[upFirst(a.name)] == i {
			kept = append(kept, a)
		}
	}
	exp.args = kept
	return strings.Join(seg, ","), exp
}

const tagSpecial = ",=()[]{} \"'$#:"

func genBytes(r *hx.Rng) string {
	n := r.Intn(65)
	if r.P(1, 4) {
		n = r.Intn(8)
	}
	b := make([]byte, n)
	for i := range b {
		switch r.Intn(10) {
		case 0, 1, 2, 3, 4:
			b[i] = tagSpecial[r.Intn(len(tagSpecial))]
		case 5, 6, 7:
			b[i] = "abrRqQ01"[r.Intn(8)]
		case 8:
			b[i] = byte(r.Intn(256))
		default:
			b[i] = byte(32 + r.Intn(95))
		}
	}
	return string(b)
}

func tagGen(rng *hx.Rng, n int, tier string, w *hx.Writer) {
	for i := 0; i < n; i++ {
		r := rng.Fork()
		switch k := r.Intn(11); {
		case k == 10:
			cfg := string([]byte{"012"[r.Intn(3)], "012"[r.Intn(3)]})
			switch j := r.Intn(10); {
			case j < 5:
				s, exp := genReqTag(r)
				runTagU(cfg, s, exp, []string{"user-scan", "req-forms", "R" + cfg[:1]}, w)
			case j < 8:
				s, exp := genStructured(r)
				runTagU(cfg, s, exp, []string{"user-scan", "structured", "R" + cfg[:1]}, w)
			default:
				runTagU(cfg, genBytes(r), nil, []string{"user-scan", "bytes", "R" + cfg[:1]}, w)
			}
		case k < 4:
			s, exp := genStructured(r)
			tags := []string{"structured", fmt.Sprintf("args%d", len(exp.args))}
			if strings.ContainsAny(s, "([{") {
				tags = append(tags, "bracketed")
			}
			if len(exp.args) == 0 && !strings.ContainsAny(s, "([{") {
				tags = append(tags, "trivial")
			}
			runTagP(s, exp, tags, w)
		case k < 8:
			s := genBytes(r)
			tags := []string{"bytes", fmt.Sprintf("len%d", len(s)/16*16)}
			if !strings.ContainsAny(s, ",=") {
				tags = append(tags, "trivial")
			}
			runTagP(s, nil, tags, w)
		case k < 9:
			s, _ := genStructured(r)
			runTagS(s, []string{"prop-structured"}, w)
		default:
			runTagS(genBytes(r), []string{"prop-bytes"}, w)
		}
	}
}
