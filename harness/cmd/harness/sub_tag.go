package main

// sub-harness `tag` (C19): the tag-argument grammar.
//
//	scenario  `P <hex>`  → component_definition.NewProperty(nil, …, "wire", text)
//	scenario  `S <hex>`  → the `prop` shorthand rewrite of the value processor, then NewProperty
//	scenario  `U <r><m> <hex>` → a USER-DEFINED tag scanner (embeds DefaultTagScanDefinitionRegistryPostProcessor, tag `plugin`;
//	                       r: 0 = Required left unset, 1 = Required:true, 2 = Required:false; m: 0 = tag lookup,
//	                       1 = ExtractHandler only, 2 = ExtractHandler + the scanner's tag name) scans a run-time struct
//	                       whose field carries the text; observed: the property that arrives in the registry
//	scenario  `H <m><r><w> <hexT> <ops> <hexT2>` → a HISTORY: property A is created from text T, its arguments are edited
//	                       (ops: `-` or `,`-joined <k><hexname>:<hexitem>/<hexitem>…, k = S Args().Set | A Args().Add | s SetArg |
//	                       a AddArg), property B is created from text T2 (the same text, or another one).
//	                       m = d: both through NewProperty; s: A and B are two fields of ONE component, scanned once by a
//	                       user-defined scanner <r><w> (as in U) — B exists before the edit and is read after it; t: two scans, two
//	                       registries, two scanner instances (B created after the edit); a: two real applications in this
//	                       process (`wire` tag on a point nobody can fill; A is edited by a user post-processor of the first
//	                       application). observed: `<A after the edits> | <B>` (+ ` | <start1> <start2>` for m = a)
//	scenario  `F <hex>`  → NewProperty, then the lookups a consumer of arguments makes: Args().Find(q), Has(q), Has(q, ""),
//	                       Has(q, "false", "true") for every stored name (as stored and with a lower-case first letter) and for
//	                       `mapper timeLayout required Qualifier`; observed: `<P observation> | <q>=<item>,…:<bits> <q>!:<bits> …`
//	scenario  `B m <hex>` → a struct field tagged prefix:"<text>" is scanned by the real prefix scanner and the property's
//	                       Unmarshall is handed a map: which TagName reached mapstructure (`ok Y|J|T|M|F` | `err` | `panic`)
//	scenario  `B t <hex> <hexvalue>` → the same with a time.Time field and Unmarshall(<value text>): the bound civil time
//	                       (`ok <year> <month> <day> <hour> <min> <sec> <nsec>` | `err` | `panic`); a leading `# ` marks a case
//	                       whose layout is outside the language the model has of time.Parse (oracle only)
//	scenario  `# B M|T|V …` → the same end to end through app.Run with a raw YAML document (M, T: prefix tag; V: value tag
//	                       `${key},args`); not modelled, judged by the oracles only
//	observation          `<tagval> <args> <required>` | `panic`
//
// Oracles (evaluated on the real code only, independent of the model):
//   - totality: no panic for any byte string;
//   - structured tags (generated from the grammar) parse to exactly what was rendered;
//   - IsRequired() is false iff an argument named required/Required lists the item `false`;
//   - through a scanner (built-in or user-defined, whatever its Required field) the point is optional only when the
//     tag TEXT says required=false (tag-scan-required, tag-scan-required-user);
//   - what a tag parses to is a function of the tag TEXT: after any history of edits to OTHER properties' arguments a
//     property created from text T2 is exactly what T2 says — equal to the property the same route gave before the edits
//     and, for well-formed text, to what the harness' own reader (tagReadOwn, not the library's parser) reads off the
//     text (tag-history); an application whose only point has no candidate starts only when the point's tag text says
//     required=false, whatever happened in earlier applications of the process (tag-history-start);
//   - an argument's values are the space-separated items, as written, empty ones included: Find(name) — either first-letter
//     case — yields exactly the items the text has (tagReadOwn / the generator's rendering), Has(name) and Has(name, item)
//     hold for them, a name the text does not have is not found (tag-find);
//   - totality extends to the consumers of a legal tag: Property.Unmarshall on a property whose tag carries `mapper` /
//     `timeLayout` in any legal form (bare, `name=`, with items) does not panic (tag-bind-panic);
//   - an argument's item reaches its consumer as written: with `timeLayout=<item>` (one item) a time.Time property binds
//     a text exactly as time.Parse(<item>, text) reads it — the same time, or an error when that fails (tag-timelayout);
//     with `mapper=<item>` a struct binds exactly as mapstructure does with TagName <item> (tag-mapper). Arguments with
//     several items are left to the model (the library uses the first item).

import (
	"fmt"
	"reflect"
	"sort"
	"strconv"
	"strings"
	"time"

	"github.com/go-kid/ioc/app"
	"github.com/go-kid/ioc/component_definition"
	"github.com/go-kid/ioc/configure/loader"
	"github.com/go-kid/ioc/container"
	"github.com/go-kid/ioc/container/processors"
	"github.com/go-kid/ioc/container/support"
	"github.com/go-kid/ioc/syslog"
	"github.com/go-kid/strconv2"
	"github.com/mitchellh/mapstructure"
	"gopkg.in/yaml.v3"

	"verifharness/internal/hx"
)

func init() {
	register(&Sub{Name: "tag", Gen: tagGen, Replay: tagReplay, Corpus: tagCorpus})
}

type tagArg struct {
	name  string
	items []string
}

// expectation for a structured tag
type tagExpect struct {
	val  string
	args []tagArg
}

func showArgsMap(m map[string][]string) string {
	if len(m) == 0 {
		return "."
	}
	keys := make([]string, 0, len(m))
	for k := range m {
		keys = append(keys, k)
	}
	sort.Strings(keys)
	var parts []string
	for _, k := range keys {
		var items []string
		for _, it := range m[k] {
			items = append(items, hx.Hex(it))
		}
		parts = append(parts, hx.Hex(k)+"="+strings.Join(items, ","))
	}
	return strings.Join(parts, ";")
}

func propArgs(p *component_definition.Property) map[string][]string {
	m := map[string][]string{}
	p.Args().ForEach(func(t component_definition.ArgType, args []string) {
		m[string(t)] = args
	})
	return m
}

func obsProperty(p *component_definition.Property) string {
	req := "0"
	if p.IsRequired() {
		req = "1"
	}
	return hx.Hex(p.TagVal) + " " + showArgsMap(propArgs(p)) + " " + req
}

func upFirst(s string) string {
	if s == "" {
		return s
	}
	c := s[0]
	if c >= 'a' && c <= 'z' {
		return string(c-32) + s[1:]
	}
	return s
}

// runTagP parses `text` with the real code and evaluates the oracles.
func runTagP(text string, exp *tagExpect, tags []string, w *hx.Writer) {
	var p *component_definition.Property
	pan := hx.Guard(func() {
		p = component_definition.NewProperty(nil, component_definition.PropertyTypeComponent, "wire", text)
	})
	c := hx.Case{Scn: "P " + hx.Hex(text), Tags: tags}
	if pan != nil {
		c.Obs = "panic"
		c.Oracle = "FAIL tag-panic " + fmt.Sprint(pan)
		w.Put(c)
		return
	}
	c.Obs = obsProperty(p)
	got := propArgs(p)
	// required oracle
	wantReq := true
	if items, ok := got["Required"]; ok {
		for _, it := range items {
			if it == "false" {
				wantReq = false
			}
		}
	}
	if p.IsRequired() != wantReq {
		c.Oracle = fmt.Sprintf("FAIL tag-required IsRequired=%v args=%v", p.IsRequired(), got)
	}
	if exp != nil && c.Oracle == "" {
		want := map[string][]string{}
		for _, a := range exp.args {
			want[upFirst(a.name)] = a.items
		}
		if p.TagVal != exp.val || !reflect.DeepEqual(got, want) {
			c.Oracle = fmt.Sprintf("FAIL tag-roundtrip val=%q args=%v want val=%q args=%v", p.TagVal, got, exp.val, want)
		}
		// lookups are insensitive to the case of the first letter
		for _, a := range exp.args {
			lower := strings.ToLower(a.name[:1]) + a.name[1:]
			upper := strings.ToUpper(a.name[:1]) + a.name[1:]
			l1, ok1 := p.Args().Find(component_definition.ArgType(lower))
			l2, ok2 := p.Args().Find(component_definition.ArgType(upper))
			if !ok1 || !ok2 || !reflect.DeepEqual(l1, l2) {
				c.Oracle = fmt.Sprintf("FAIL tag-case name=%q", a.name)
			} else if !sameItems(l1, a.items) {
				c.Oracle = fmt.Sprintf("FAIL tag-find Find(%q) yields %q, the text has the items %q", lower, l1, a.items)
			}
		}
	}
	w.Put(c)
}

var propHandler = func() func(*component_definition.Meta, *component_definition.Field) (string, string, bool) {
	p := processors.NewValueAwarePostProcessors()
	f := reflect.ValueOf(p).Elem().FieldByName("ExtractHandler")
	return f.Interface().(func(*component_definition.Meta, *component_definition.Field) (string, string, bool))
}()

func runTagS(text string, tags []string, w *hx.Writer) {
	structured := len(tags) > 0 && tags[0] == "prop-structured"
	c := hx.Case{Scn: "S " + hx.Hex(text), Tags: tags}
	var rewritten string
	var ok bool
	var p *component_definition.Property
	pan := hx.Guard(func() {
		field := &component_definition.Field{StructField: reflect.StructField{
			Name: "F", Tag: reflect.StructTag("prop:" + strconv.Quote(text))}}
		_, rewritten, ok = propHandler(nil, field)
		if ok {
			p = component_definition.NewProperty(field, component_definition.PropertyTypeConfiguration, "value", rewritten)
		}
	})
	if pan != nil {
		c.Obs = "panic"
		c.Oracle = "FAIL tag-panic " + fmt.Sprint(pan)
		w.Put(c)
		return
	}
	if !ok {
		// strconv.Quote output that StructTag.Lookup does not read back; not a container matter
		return
	}
	c.Obs = hx.Hex(rewritten) + " " + obsProperty(p)
	if f := scanEndToEnd(text, p); f != "" {
		c.Oracle = f
	}
	// oracle: the shorthand is the value tag `${key}` + the same arguments
	// (claimed for bracket-balanced text only: wrapping unbalanced text in ${…} changes what "top level" means)
	var direct *component_definition.Property
	if structured && hx.Guard(func() {
		direct = component_definition.NewProperty(nil, component_definition.PropertyTypeConfiguration, "value", text)
	}) == nil {
		if p.TagVal != "${"+direct.TagVal+"}" || !reflect.DeepEqual(propArgs(p), propArgs(direct)) {
			c.Oracle = fmt.Sprintf("FAIL tag-prop shorthand %q → %q args %v, direct parse %q args %v", text, p.TagVal, propArgs(p), direct.TagVal, propArgs(direct))
		}
	}
	w.Put(c)
}

// scanEndToEnd pushes `prop:"<text>"` (ExtractHandler branch) and `value:"<text>"` (tag-lookup branch) through the
// REAL scanner (DefaultTagScanDefinitionRegistryPostProcessor.PostProcessDefinitionRegistry of the value processor) on a
// run-time struct type and compares what arrives in the registry with the direct parse: same value part, same arguments
// except the scanner's `Required` default, and in particular the same IsRequired() — only an explicit required=false
// makes a point optional, on both branches.
func scanEndToEnd(text string, direct *component_definition.Property) string {
	var fail string
	pan := hx.Guard(func() {
		st := reflect.StructOf([]reflect.StructField{
			{Name: "P", Type: reflect.TypeOf(""), Tag: reflect.StructTag("prop:" + strconv.Quote(text))},
			{Name: "V", Type: reflect.TypeOf(""), Tag: reflect.StructTag("value:" + strconv.Quote(text))},
		})
		if _, ok := st.Field(0).Tag.Lookup("prop"); !ok {
			return
		}
		comp := reflect.New(st).Interface()
		reg := support.DefaultDefinitionRegistry()
		scanner, ok := processors.NewValueAwarePostProcessors().(container.DefinitionRegistryPostProcessor)
		if !ok {
			fail = "FAIL tag-scan the value processor is no longer a definition scanner"
			return
		}
		if err := scanner.PostProcessDefinitionRegistry(reg, comp, "c"); err != nil {
			fail = "FAIL tag-scan scanning failed: " + err.Error()
			return
		}
		meta := reg.GetMetaByName("c")
		var byProp, byValue *component_definition.Property
		for _, q := range meta.GetAllProperties() {
			switch q.StructField.Name {
			case "P":
				byProp = q
			case "V":
				byValue = q
			}
		}
		if byProp == nil || byValue == nil {
			fail = "FAIL tag-scan a tagged field produced no property"
			return
		}
		if byProp.TagVal != direct.TagVal || byProp.IsRequired() != direct.IsRequired() {
			fail = fmt.Sprintf("FAIL tag-scan-required prop:%q scanned as value %q required=%v, direct parse of the rewritten text gives %q required=%v",
				text, byProp.TagVal, byProp.IsRequired(), direct.TagVal, direct.IsRequired())
			return
		}
		var plain *component_definition.Property
		plain = component_definition.NewProperty(nil, component_definition.PropertyTypeConfiguration, "value", text)
		if byValue.TagVal != plain.TagVal || byValue.IsRequired() != plain.IsRequired() {
			fail = fmt.Sprintf("FAIL tag-scan-required value:%q scanned as value %q required=%v, direct parse gives %q required=%v",
				text, byValue.TagVal, byValue.IsRequired(), plain.TagVal, plain.IsRequired())
		}
	})
	if pan != nil && fail == "" {
		fail = "FAIL tag-panic scanner: " + fmt.Sprint(pan)
	}
	if fail == "" {
		// the same text under a user-defined scanner that leaves Required unset, and one that sets it
		for _, cfg := range []string{"00", "11"} {
			if _, f, ok := scanUser(cfg, text, nil); ok && f != "" {
				return f
			}
		}
	}
	return fail
}

// userTagScanner is what an application writes to get its own tag scanned (cf. /repo/unittest/component/modified_inject):
// the stock scanner embedded, only the fields it cares about filled in.
type userTagScanner struct {
	processors.DefaultTagScanDefinitionRegistryPostProcessor
}

func newUserScanner(cfg string) (container.DefinitionRegistryPostProcessor, string) {
	sc := &userTagScanner{}
	sc.NodeType = component_definition.PropertyTypeComponent
	switch cfg[0] {
	case '1':
		sc.Required = true
	case '2':
		sc.Required = false
	} // '0': the field is never mentioned (zero value)
	key := "plugin"
	switch cfg[1] {
	case '0':
		sc.Tag = "plugin"
	case '1':
		sc.ExtractHandler = func(_ *component_definition.Meta, field *component_definition.Field) (string, string, bool) {
			v, ok := field.StructField.Tag.Lookup("plugin")
			return "plugin", v, ok
		}
	default:
		key = "plug"
		sc.Tag = "plugin"
		sc.ExtractHandler = func(_ *component_definition.Meta, field *component_definition.Field) (string, string, bool) {
			v, ok := field.StructField.Tag.Lookup("plug")
			return "", v, ok
		}
	}
	return sc, key
}

func validUserCfg(cfg string) bool {
	return len(cfg) == 2 && cfg[0] >= '0' && cfg[0] <= '2' && cfg[1] >= '0' && cfg[1] <= '2'
}

// textSaysOptional: what the TEXT of a structured tag says — optional iff its (last) required argument lists `false`.
func textSaysOptional(exp *tagExpect) bool {
	for _, a := range exp.args {
		if upFirst(a.name) == "Required" {
			for _, it := range a.items {
				if it == "false" {
					return true
				}
			}
		}
	}
	return false
}

// scanUser runs the REAL scanner code of a user-defined scanner over a run-time struct whose only field carries `text`
// and evaluates the property on the property that arrives in the registry: same value part, the same arguments as the
// tag text (the scanner may add its own Required marker, nothing else), and optional ONLY when the text says
// required=false — whatever the scanner's Required field is (set, or left at its zero value).
// ok=false: reflect.StructTag does not read the quoted text back (not a container matter).
func scanUser(cfg, text string, exp *tagExpect) (obs, fail string, ok bool) {
	var q *component_definition.Property
	pan := hx.Guard(func() {
		scanner, key := newUserScanner(cfg)
		st := reflect.StructOf([]reflect.StructField{
			{Name: "F", Type: reflect.TypeOf((*fmt.Stringer)(nil)).Elem(), Tag: reflect.StructTag(key + ":" + strconv.Quote(text))},
		})
		if v, found := st.Field(0).Tag.Lookup(key); !found || v != text {
			return
		}
		ok = true
		reg := support.DefaultDefinitionRegistry()
		if err := scanner.PostProcessDefinitionRegistry(reg, reflect.New(st).Interface(), "c"); err != nil {
			fail = "FAIL tag-scan-user scanning failed: " + err.Error()
			return
		}
		for _, p := range reg.GetMetaByName("c").GetAllProperties() {
			if p.StructField.Name == "F" {
				q = p
			}
		}
	})
	if pan != nil {
		return "panic", "FAIL tag-panic user scanner " + cfg + ": " + fmt.Sprint(pan), true
	}
	if !ok || fail != "" {
		return "", fail, ok
	}
	if q == nil {
		return "none", "FAIL tag-scan-user the tagged field produced no property (scanner " + cfg + ")", true
	}
	obs = obsProperty(q)
	var direct *component_definition.Property
	if hx.Guard(func() {
		direct = component_definition.NewProperty(nil, component_definition.PropertyTypeComponent, "plugin", text)
	}) != nil {
		return obs, "", true // the panic of the parser itself is reported by the P scenarios
	}
	// what the text says: from the grammar for structured tags, from the direct parse of the text otherwise
	optional := !direct.IsRequired()
	if exp != nil {
		optional = textSaysOptional(exp)
	}
	if q.IsRequired() == optional {
		return obs, fmt.Sprintf("FAIL tag-scan-required-user scanner %s: plugin:%q scanned with IsRequired=%v args=%v, but the tag text has explicit required=false: %v (only that makes a point optional)",
			cfg, text, q.IsRequired(), propArgs(q), optional), true
	}
	got, want := propArgs(q), propArgs(direct)
	delete(got, "Required")
	delete(want, "Required")
	if q.TagVal != direct.TagVal || !reflect.DeepEqual(got, want) {
		return obs, fmt.Sprintf("FAIL tag-scan-user scanner %s: plugin:%q scanned as value %q args %v, the text parses to %q args %v",
			cfg, text, q.TagVal, got, direct.TagVal, want), true
	}
	return obs, "", true
}

func runTagU(cfg, text string, exp *tagExpect, tags []string, w *hx.Writer) {
	if !validUserCfg(cfg) {
		return
	}
	obs, fail, ok := scanUser(cfg, text, exp)
	if !ok {
		return
	}
	w.Put(hx.Case{Scn: "U " + cfg + " " + hx.Hex(text), Obs: obs, Oracle: fail, Tags: tags})
}

/* ---------- histories (scenario H) ---------- */

// tagOp: one edit of a property's arguments through the public API
type tagOp struct {
	kind  byte // S Args().Set | A Args().Add | s SetArg | a AddArg
	name  string
	items []string
}

func encodeTagOps(ops []tagOp) string {
	if len(ops) == 0 {
		return "-"
	}
	var parts []string
	for _, o := range ops {
		var its []string
		for _, it := range o.items {
			its = append(its, hx.Hex(it))
		}
		parts = append(parts, string(o.kind)+hx.Hex(o.name)+":"+strings.Join(its, "/"))
	}
	return strings.Join(parts, ",")
}

func decodeTagOps(s string) ([]tagOp, bool) {
	if s == "-" {
		return nil, true
	}
	var ops []tagOp
	for _, p := range strings.Split(s, ",") {
		if len(p) < 2 || strings.IndexByte("SAsa", p[0]) < 0 {
			return nil, false
		}
		nv := strings.Split(p[1:], ":")
		if len(nv) != 2 {
			return nil, false
		}
		name, err := hx.UnHex(nv[0])
		if err != nil {
			return nil, false
		}
		o := tagOp{kind: p[0], name: name}
		if nv[1] != "" {
			for _, h := range strings.Split(nv[1], "/") {
				it, err := hx.UnHex(h)
				if err != nil {
					return nil, false
				}
				o.items = append(o.items, it)
			}
		}
		ops = append(ops, o)
	}
	return ops, true
}

func applyTagOp(p *component_definition.Property, o tagOp) {
	switch o.kind {
	case 'S':
		p.Args().Set(component_definition.ArgType(o.name), o.items...)
	case 'A':
		p.Args().Add(component_definition.ArgType(o.name), o.items...)
	case 's':
		p.SetArg(component_definition.ArgType(o.name), o.items...)
	case 'a':
		p.AddArg(component_definition.ArgType(o.name), o.items...)
	}
}

// tagSnap: a deep copy of what a property says at one moment
type tagSnap struct {
	val  string
	args map[string][]string
	req  bool
}

func snapProperty(p *component_definition.Property) tagSnap {
	sn := tagSnap{val: p.TagVal, args: map[string][]string{}, req: p.IsRequired()}
	for k, v := range propArgs(p) {
		sn.args[k] = append([]string{}, v...)
	}
	return sn
}

func (sn tagSnap) String() string {
	return fmt.Sprintf("value %q args %s required=%v", sn.val, scanShowArgsPlain(sn.args), sn.req)
}

// sameTagArgs: the same names with the same items (a nil and an empty item list are the same thing)
func sameTagArgs(a, b map[string][]string) bool {
	if len(a) != len(b) {
		return false
	}
	for k, v := range a {
		w, ok := b[k]
		if !ok || len(v) != len(w) {
			return false
		}
		for i := range v {
			if v[i] != w[i] {
				return false
			}
		}
	}
	return true
}

// withoutMarker: the arguments minus the bare `Required` marker (no items) a scanner with Required=true stores on a
// property whose tag has no required argument
func withoutMarker(m map[string][]string) map[string][]string {
	out := map[string][]string{}
	for k, v := range m {
		if k == "Required" && len(v) == 0 {
			continue
		}
		out[k] = v
	}
	return out
}

// tagSplitTop splits s at every sep that is outside brackets; ok=false when a closing bracket has no opening one or a
// bracket stays open (the library counts { [ ( alike, so does this reader)
func tagSplitTop(s string, sep byte) ([]string, bool) {
	var out []string
	depth, start := 0, 0
	for i := 0; i < len(s); i++ {
		switch c := s[i]; {
		case c == '{' || c == '[' || c == '(':
			depth++
		case c == '}' || c == ']' || c == ')':
			if depth == 0 {
				return nil, false
			}
			depth--
		case c == sep && depth == 0:
			out = append(out, s[start:i])
			start = i + 1
		}
	}
	return append(out, s[start:]), depth == 0
}

// tagReadOwn: the harness' own reading of a WELL-FORMED tag text (the form the property's faithful part speaks about):
// the text before the first top-level comma is the value, every following segment is `name` or `name=item item…` (the
// first `=` ends the name, top-level blanks separate the items), a repeated name keeps the last. ok=false for text
// outside the form (unbalanced brackets, an empty name, a bracket in a name, a name starting with a non-ASCII byte).
func tagReadOwn(text string) (*tagExpect, bool) {
	segs, ok := tagSplitTop(text, ',')
	if !ok {
		return nil, false
	}
	exp := &tagExpect{val: segs[0]}
	pos := map[string]int{}
	for _, seg := range segs[1:] {
		a := tagArg{name: seg, items: []string{""}}
		if i := strings.IndexByte(seg, '='); i >= 0 {
			a.name = seg[:i]
			if a.items, ok = tagSplitTop(seg[i+1:], ' '); !ok {
				return nil, false
			}
		}
		if a.name == "" || a.name[0] >= 0x80 || strings.ContainsAny(a.name, "{[(}])") {
			return nil, false
		}
		if j, dup := pos[upFirst(a.name)]; dup {
			exp.args[j] = a
			continue
		}
		pos[upFirst(a.name)] = len(exp.args)
		exp.args = append(exp.args, a)
	}
	return exp, true
}

func (e *tagExpect) argMap() map[string][]string {
	m := map[string][]string{}
	for _, a := range e.args {
		m[upFirst(a.name)] = a.items
	}
	return m
}

// an injection point type nobody implements
type tagNobody interface{ tagNobodyImplementsThis() }

// tagEditor: a user post-processor (cf. the InstantiationAware processors of the library) that edits the arguments of
// the `wire` property of ONE component through the public API and writes down what it then reads
type tagEditor struct {
	processors.DefaultInstantiationAwareComponentPostProcessor
	target any
	ops    []tagOp
	seen   []string
	snaps  []tagSnap
}

func (e *tagEditor) Order() int { return 1 }

func (e *tagEditor) PostProcessAfterInstantiation(component any, componentName string) (bool, error) {
	return true, nil
}

func (e *tagEditor) PostProcessProperties(properties []*component_definition.Property, component any, componentName string) ([]*component_definition.Property, error) {
	if component != e.target {
		return nil, nil
	}
	for _, p := range properties {
		if p.Tag == "wire" && p.StructField.Name == "F" {
			for _, o := range e.ops {
				applyTagOp(p, o)
			}
			e.seen = append(e.seen, obsProperty(p))
			e.snaps = append(e.snaps, snapProperty(p))
		}
	}
	return nil, nil
}

// tagFieldStruct: a run-time struct type with one field per text, F, G, …, each tagged key:"text"; ok=false when
// reflect.StructTag does not read a quoted text back (not a container matter)
func tagFieldStruct(key string, ft reflect.Type, texts ...string) (reflect.Type, bool) {
	var fields []reflect.StructField
	for i, t := range texts {
		fields = append(fields, reflect.StructField{Name: string(rune('F' + i)), Type: ft, Tag: reflect.StructTag(key + ":" + strconv.Quote(t))})
	}
	st := reflect.StructOf(fields)
	for i, t := range texts {
		if v, found := st.Field(i).Tag.Lookup(key); !found || v != t {
			return nil, false
		}
	}
	return st, true
}

// tagScanFields runs a NEW user-defined scanner <cfg> over a new component with one field per text in a NEW registry and
// returns the properties of the fields in field order
func tagScanFields(cfg string, texts ...string) ([]*component_definition.Property, bool, string) {
	scanner, key := newUserScanner(cfg)
	st, ok := tagFieldStruct(key, reflect.TypeOf((*fmt.Stringer)(nil)).Elem(), texts...)
	if !ok {
		return nil, false, ""
	}
	reg := support.DefaultDefinitionRegistry()
	if err := scanner.PostProcessDefinitionRegistry(reg, reflect.New(st).Interface(), "c"); err != nil {
		return nil, true, "FAIL tag-scan-user scanning failed: " + err.Error()
	}
	out := make([]*component_definition.Property, len(texts))
	for _, p := range reg.GetMetaByName("c").GetAllProperties() {
		if i := int(p.StructField.Name[0] - 'F'); len(p.StructField.Name) == 1 && i >= 0 && i < len(out) {
			out[i] = p
		}
	}
	for _, p := range out {
		if p == nil {
			return nil, true, "FAIL tag-scan-user a tagged field produced no property (scanner " + cfg + ")"
		}
	}
	return out, true, ""
}

// tagStartApp starts a real application around one component whose field F (type tagNobody: no candidate can exist)
// carries wire:"text"; the editor is registered with it. ok=false: the quoted text is not read back by reflect.StructTag
func tagStartApp(text string, ed *tagEditor) (outcome string, ok bool) {
	st, ok := tagFieldStruct("wire", reflect.TypeOf((*tagNobody)(nil)).Elem(), text)
	if !ok {
		return "", false
	}
	comp := reflect.New(st).Interface()
	ed.target = comp
	if err := app.NewApp().Run(app.LogLevel(syslog.LvPanic), app.SetComponents(comp, ed)); err != nil {
		return "err", true
	}
	return "ok", true
}

func tagAppText(s string) bool { return !strings.ContainsAny(s, "$#") }

func validHist(mode byte, cfg, t, t2 string) bool {
	switch mode {
	case 'd':
		return cfg == "00"
	case 's', 't':
		return validUserCfg(cfg)
	case 'a':
		// the value part of a wire tag goes through the configuration-quote and expression processors: keep to text they pass over
		return cfg == "10" && tagAppText(t) && tagAppText(t2)
	}
	return false
}

// runTagH runs one history on the real code and evaluates the property on what it observes (see the header).
// exp2 = what the generator knows text t2 to say (nil: the harness reads the text itself when it is well-formed).
func runTagH(mode byte, cfg, t string, ops []tagOp, t2 string, exp2 *tagExpect, tags []string, w *hx.Writer) {
	if !validHist(mode, cfg, t, t2) {
		return
	}
	c := hx.Case{Scn: "H " + string(mode) + cfg + " " + hx.Hex(t) + " " + encodeTagOps(ops) + " " + hx.Hex(t2), Tags: tags}
	var a, b *component_definition.Property
	var obsA, obsB, starts, fail string
	var before, after tagSnap // B's text through the same route before the edits; B itself after them
	scanned := mode != 'd'
	skip := false
	pan := hx.Guard(func() {
		switch mode {
		case 'd':
			mk := func(s string) *component_definition.Property {
				return component_definition.NewProperty(nil, component_definition.PropertyTypeComponent, "wire", s)
			}
			before = snapProperty(mk(t2))
			a = mk(t)
			for _, o := range ops {
				applyTagOp(a, o)
			}
			obsA = obsProperty(a)
			b = mk(t2)
		case 't':
			pre, ok, f := tagScanFields(cfg, t2)
			if !ok || f != "" {
				skip, fail = !ok, f
				return
			}
			before = snapProperty(pre[0])
			ps, _, f := tagScanFields(cfg, t)
			if f != "" {
				fail = f
				return
			}
			a = ps[0]
			for _, o := range ops {
				applyTagOp(a, o)
			}
			obsA = obsProperty(a)
			qs, _, f := tagScanFields(cfg, t2)
			if f != "" {
				fail = f
				return
			}
			b = qs[0]
		case 's':
			ps, ok, f := tagScanFields(cfg, t, t2)
			if !ok || f != "" {
				skip, fail = !ok, f
				return
			}
			a, b = ps[0], ps[1]
			before = snapProperty(b)
			for _, o := range ops {
				applyTagOp(a, o)
			}
			obsA = obsProperty(a)
		case 'a':
			before = snapProperty(component_definition.NewProperty(nil, component_definition.PropertyTypeComponent, "wire", t2))
			ed1 := &tagEditor{ops: ops}
			s1, ok := tagStartApp(t, ed1)
			if !ok {
				skip = true
				return
			}
			ed2 := &tagEditor{}
			s2, ok := tagStartApp(t2, ed2)
			if !ok {
				skip = true
				return
			}
			if len(ed1.seen) != 1 || len(ed2.seen) != 1 {
				fail = fmt.Sprintf("FAIL tag-history-app the wire property of the component was handed to the user post-processor %d / %d times, want once", len(ed1.seen), len(ed2.seen))
				obsA, obsB, starts = "none", "none", s1+" "+s2
				return
			}
			obsA, obsB, starts = ed1.seen[0], ed2.seen[0], s1+" "+s2
			after = ed2.snaps[0]
			// only an explicit required=false makes a point optional: the second application has no editor at work
			wantOptional := !before.req
			if e := exp2; e != nil {
				wantOptional = textSaysOptional(e)
			} else if e, ok := tagReadOwn(t2); ok {
				wantOptional = textSaysOptional(e)
			}
			if (s2 == "ok") != wantOptional {
				fail = fmt.Sprintf("FAIL tag-history-start a second application with a point wire:%q that nobody can fill: start=%s, but the tag text has explicit required=false: %v (first application: wire:%q edited by %s)",
					t2, s2, wantOptional, t, encodeTagOps(ops))
			}
		}
		if b != nil {
			obsB = obsProperty(b)
			after = snapProperty(b)
		}
	})
	if skip {
		return
	}
	if pan != nil {
		c.Obs, c.Oracle = "panic", "FAIL tag-panic history: "+fmt.Sprint(pan)
		w.Put(c)
		return
	}
	c.Obs = obsA + " | " + obsB
	if starts != "" {
		c.Obs += " | " + starts
	}
	if fail == "" && obsB != "none" && obsB != "" {
		fail = tagHistoryOracle(mode, cfg, t, ops, t2, exp2, before, after, scanned)
	}
	c.Oracle = fail
	w.Put(c)
}

// tagHistoryOracle: B (created from t2 / read after the edits of A) against (1) what the same text gave through the same
// route BEFORE the edits and (2) what the text says, read by the harness itself
func tagHistoryOracle(mode byte, cfg, t string, ops []tagOp, t2 string, exp2 *tagExpect, before, after tagSnap, scanned bool) string {
	hist := fmt.Sprintf("(history %c%s: property A from %q edited by %s)", mode, cfg, t, encodeTagOps(ops))
	ba, aa := before.args, after.args
	if mode == 'a' { // `before` was parsed directly, `after` came through the wire scanner (Required=true)
		ba, aa = withoutMarker(ba), withoutMarker(aa)
	}
	if before.val != after.val || before.req != after.req || !sameTagArgs(ba, aa) {
		return fmt.Sprintf("FAIL tag-history the text %q gave %s before the edits and gives %s after them %s", t2, before, after, hist)
	}
	exp := exp2
	if exp == nil {
		var ok bool
		if exp, ok = tagReadOwn(t2); !ok {
			return ""
		}
	}
	want := exp.argMap()
	got := after.args
	if scanned {
		got, want = withoutMarker(got), withoutMarker(want)
	}
	if after.val != exp.val || !sameTagArgs(got, want) || after.req == textSaysOptional(exp) {
		return fmt.Sprintf("FAIL tag-history the text %q reads value %q args %s optional=%v, the property created from it says %s %s",
			t2, exp.val, scanShowArgsPlain(exp.argMap()), textSaysOptional(exp), after, hist)
	}
	return ""
}

func tagSalt(r *hx.Rng) string {
	const al = "abcdefghijklmnopqrstuvwxyz0123456789"
	b := []byte{'~'}
	for i := 0; i < 7; i++ {
		b = append(b, al[r.Intn(len(al))])
	}
	return string(b)
}

// salted: the same structured tag with a per-case salt at the end of its value part, so that no two cases of a run
// (and no P/S/U case) use the same text: a history of one case cannot reach into another case
func salted(text string, exp *tagExpect, salt string) (string, *tagExpect) {
	e := &tagExpect{val: exp.val + salt, args: exp.args}
	return e.val + text[len(exp.val):], e
}

func genTagOps(r *hx.Rng, exp *tagExpect) []tagOp {
	var ops []tagOp
	for n := 1 + r.Intn(3); n > 0; n-- {
		o := tagOp{kind: "SSSSSSSSAAAAAssssaaa"[r.Intn(20)]}
		switch k := r.Intn(20); {
		case k < 12:
			o.name = []string{"required", "Required"}[r.Intn(2)]
			switch r.Intn(8) {
			case 0, 1, 2, 3:
				o.items = []string{"false"}
			case 4:
				o.items = []string{"true"}
			case 5:
				o.items = []string{"false", "true"}
			case 6:
				o.items = []string{""}
			}
		case k < 15:
			o.name = []string{"qualifier", "Qualifier"}[r.Intn(2)]
			o.items = []string{genAtom(r, false)}
		case k < 18 && exp != nil && len(exp.args) > 0:
			o.name = exp.args[r.Intn(len(exp.args))].name
			for m := r.Intn(3); m > 0; m-- {
				o.items = append(o.items, genBalanced(r, 0, true))
			}
		default:
			o.name = genName(r)
			if r.P(1, 12) {
				o.name = ""
			}
			for m := r.Intn(3); m > 0; m-- {
				o.items = append(o.items, genAtom(r, true))
			}
		}
		ops = append(ops, o)
	}
	return ops
}

// genTagH: one history. 70% of the histories create B from the SAME text as A.
func genTagH(r *hx.Rng, w *hx.Writer) {
	mode := "dddddddsssssstttttta"[r.Intn(20)]
	cfg := "00"
	switch mode {
	case 's', 't':
		cfg = string([]byte{"012"[r.Intn(3)], "012"[r.Intn(3)]})
	case 'a':
		cfg = "10"
	}
	gen := func() (string, *tagExpect) {
		for tries := 0; ; tries++ {
			var s string
			var e *tagExpect
			if r.P(7, 10) {
				s, e = genReqTag(r)
			} else {
				s, e = genStructured(r)
			}
			if mode != 'a' || tagAppText(s) {
				return salted(s, e, tagSalt(r))
			}
			if tries > 50 {
				return salted("main,required=true", &tagExpect{val: "main", args: []tagArg{{name: "required", items: []string{"true"}}}}, tagSalt(r))
			}
		}
	}
	t, exp := gen()
	t2, exp2 := t, exp
	label := "same-text"
	switch k := r.Intn(20); {
	case k < 14:
	case k < 17: // the same arguments behind another value part
		label = "same-args"
		e := &tagExpect{val: exp.val[:len(exp.val)-8] + tagSalt(r), args: exp.args}
		t2, exp2 = e.val+t[len(exp.val):], e
	default:
		label = "other-text"
		t2, exp2 = gen()
	}
	if mode != 'a' && r.P(1, 10) { // arbitrary bytes: no own reading, the before/after comparison still applies
		label = "bytes"
		t = genBytes(r) + tagSalt(r)
		t2, exp, exp2 = t, nil, nil
	}
	ops := genTagOps(r, exp)
	tags := []string{"history", "mode-" + string(mode), label, "R" + cfg[:1]}
	direct := false
	for _, o := range ops {
		if o.kind == 'S' || o.kind == 'A' {
			direct = true
		}
	}
	if direct {
		tags = append(tags, "edits-through-Args")
	}
	runTagH(mode, cfg, t, ops, t2, exp2, tags, w)
}

/* ---------- lookups through the public API (scenario F) ---------- */

func sameItems(a, b []string) bool {
	if len(a) != len(b) {
		return false
	}
	for i := range a {
		if a[i] != b[i] {
			return false
		}
	}
	return true
}

func lowFirst(s string) string {
	if s != "" && s[0] >= 'A' && s[0] <= 'Z' {
		return string(s[0]+32) + s[1:]
	}
	return s
}

var tagFixedQueries = []string{"mapper", "timeLayout", "required", "Qualifier"}

func tagBit(b bool) string {
	if b {
		return "1"
	}
	return "0"
}

// runTagF: the lookups a consumer of arguments makes, on the property the real parser built from `text`
func runTagF(text string, exp *tagExpect, tags []string, w *hx.Writer) {
	c := hx.Case{Scn: "F " + hx.Hex(text), Tags: tags}
	var p *component_definition.Property
	var obs []string
	find := func(q string) ([]string, bool) { return p.Args().Find(component_definition.ArgType(q)) }
	has := func(q string, wants ...string) bool { return p.Args().Has(component_definition.ArgType(q), wants...) }
	pan := hx.Guard(func() {
		p = component_definition.NewProperty(nil, component_definition.PropertyTypeComponent, "wire", text)
		stored := propArgs(p)
		names := make([]string, 0, len(stored))
		for k := range stored {
			names = append(names, k)
		}
		sort.Strings(names)
		var qs []string
		for _, k := range names {
			qs = append(qs, k)
			if l := lowFirst(k); l != k {
				qs = append(qs, l)
			}
		}
		qs = append(qs, tagFixedQueries...)
		for _, q := range qs {
			o := hx.Hex(q)
			if items, ok := find(q); ok {
				var its []string
				for _, it := range items {
					its = append(its, hx.Hex(it))
				}
				o += "=" + strings.Join(its, ",")
			} else {
				o += "!"
			}
			obs = append(obs, o+":"+tagBit(has(q))+tagBit(has(q, ""))+tagBit(has(q, "false", "true")))
		}
	})
	if pan != nil {
		c.Obs, c.Oracle = "panic", "FAIL tag-panic lookups: "+fmt.Sprint(pan)
		w.Put(c)
		return
	}
	c.Obs = obsProperty(p) + " | " + strings.Join(obs, " ")
	// what the TEXT says: from the generator for structured tags, from the harness' own reader for well-formed text
	if exp == nil {
		if e, ok := tagReadOwn(text); ok {
			exp = e
		}
	}
	if exp != nil {
		pan := hx.Guard(func() {
			named := map[string]bool{}
			for _, a := range exp.args {
				named[upFirst(a.name)] = true
				for _, q := range []string{lowFirst(a.name), upFirst(a.name)} {
					items, ok := find(q)
					switch {
					case !ok:
						c.Oracle = fmt.Sprintf("FAIL tag-find the text %q has the argument %q, Find(%q) does not find it", text, a.name, q)
					case !sameItems(items, a.items):
						c.Oracle = fmt.Sprintf("FAIL tag-find the text %q gives %q the items %q, Find(%q) yields %q", text, a.name, a.items, q, items)
					case !has(q):
						c.Oracle = fmt.Sprintf("FAIL tag-find the text %q has the argument %q, Has(%q) denies it", text, a.name, q)
					}
					for _, it := range a.items {
						if c.Oracle == "" && !has(q, it) {
							c.Oracle = fmt.Sprintf("FAIL tag-find the text %q gives %q the item %q, Has(%q, %q) denies it", text, a.name, it, q, it)
						}
					}
				}
			}
			for _, q := range tagFixedQueries {
				if _, ok := find(q); ok && !named[upFirst(q)] && c.Oracle == "" {
					c.Oracle = fmt.Sprintf("FAIL tag-find the text %q has no argument %q, Find finds one", text, q)
				}
			}
		})
		if pan != nil {
			c.Oracle = "FAIL tag-panic lookups: " + fmt.Sprint(pan)
		}
	}
	w.Put(c)
}

/* ---------- Property.Unmarshall: the consumers of `mapper` and `timeLayout` (scenario B) ---------- */

// tagBindTarget: every way mapstructure can be told to match keys gives N another value
type tagBindTarget struct {
	N string `yaml:"yn" json:"jn" toml:"tn" mapstructure:"mn"`
}

func tagBindDoc() map[string]any {
	return map[string]any{"yn": "Y", "jn": "J", "tn": "T", "mn": "M", "n": "F"}
}

var tagTimeType = reflect.TypeOf(time.Time{})

// tagScanPrefix: a run-time struct whose field F (type ft) carries prefix:"text", scanned by the REAL prefix scanner;
// returns the property of F and the component. ok=false: reflect.StructTag does not read the quoted text back
func tagScanPrefix(ft reflect.Type, text string) (p *component_definition.Property, comp reflect.Value, ok bool, fail string) {
	st, ok := tagFieldStruct("prefix", ft, text)
	if !ok {
		return nil, comp, false, ""
	}
	comp = reflect.New(st)
	scanner, isScanner := processors.NewPropertiesAwarePostProcessors().(container.DefinitionRegistryPostProcessor)
	if !isScanner {
		return nil, comp, true, "FAIL tag-scan the prefix processor is no longer a definition scanner"
	}
	reg := support.DefaultDefinitionRegistry()
	if err := scanner.PostProcessDefinitionRegistry(reg, comp.Interface(), "c"); err != nil {
		return nil, comp, true, "FAIL tag-scan scanning failed: " + err.Error()
	}
	for _, q := range reg.GetMetaByName("c").GetAllProperties() {
		if q.StructField.Name == "F" {
			p = q
		}
	}
	if p == nil {
		return nil, comp, true, "FAIL tag-scan a tagged field produced no property"
	}
	return p, comp, true, ""
}

func tagShowTime(t time.Time) string {
	t = t.UTC()
	return fmt.Sprintf("ok %d %d %d %d %d %d %d", t.Year(), int(t.Month()), t.Day(), t.Hour(), t.Minute(), t.Second(), t.Nanosecond())
}

// tagLayoutModelled: the layouts the model has of time.Parse — literals and the chunks 2006 01 02 15 04 05
func tagLayoutModelled(l string) bool {
	for i := 0; i < len(l); {
		c := l[i]
		switch {
		case c >= '0' && c <= '9':
			switch {
			case strings.HasPrefix(l[i:], "2006"):
				i += 4
			case strings.HasPrefix(l[i:], "01"), strings.HasPrefix(l[i:], "02"), strings.HasPrefix(l[i:], "15"),
				strings.HasPrefix(l[i:], "04"), strings.HasPrefix(l[i:], "05"):
				i += 2
			default:
				return false
			}
		case strings.IndexByte("JMPpZ_", c) >= 0:
			return false
		default:
			i++
		}
	}
	return true
}

// ownArg: the items the TEXT gives the argument `name` (either first-letter case; the last one of a repeated name)
func ownArg(exp *tagExpect, name string) ([]string, bool) {
	for _, a := range exp.args {
		if upFirst(a.name) == upFirst(name) {
			return a.items, true
		}
	}
	return nil, false
}

// refMapper: what mapstructure itself binds with TagName = item (the consumer handed the item as written)
func refMapper(item string) string {
	var ref tagBindTarget
	dec, err := mapstructure.NewDecoder(&mapstructure.DecoderConfig{Result: &ref, TagName: item, WeaklyTypedInput: true})
	if err != nil || dec.Decode(tagBindDoc()) != nil {
		return "err"
	}
	return "ok " + ref.N
}

// refTime: what time.Parse itself reads with layout = item (the consumer handed the item as written)
func refTime(item, value string) string {
	t, err := time.Parse(item, value)
	if err != nil {
		return "err"
	}
	return tagShowTime(t)
}

// tagE2ESafe: end to end the other processors of the pipeline see the arguments too; only these names are inert there
func tagE2ESafe(exp *tagExpect) bool {
	for _, a := range exp.args {
		switch upFirst(a.name) {
		case "TimeLayout", "Mapper", "Required":
		default:
			return false
		}
	}
	return true
}

func tagSimpleKey(s string) bool {
	if s == "" || len(s) > 12 {
		return false
	}
	for i := 0; i < len(s); i++ {
		if s[i] < 'a' || s[i] > 'z' {
			return false
		}
	}
	return true
}

// tagRunApp: one component with field F (type ft) tagged key:"text" through a real application over a raw YAML document
func tagRunApp(key string, ft reflect.Type, text string, doc map[string]any) (comp reflect.Value, outcome string, ok bool) {
	st, ok := tagFieldStruct(key, ft, text)
	if !ok {
		return comp, "", false
	}
	y, err := yaml.Marshal(doc)
	if err != nil {
		return comp, "", false
	}
	comp = reflect.New(st)
	var runErr error
	pan := hx.Guard(func() {
		runErr = app.NewApp().Run(app.LogLevel(syslog.LvPanic), app.SetConfigLoader(loader.NewRawLoader(y)), app.SetComponents(comp.Interface()))
	})
	switch {
	case pan != nil:
		return comp, "panic " + fmt.Sprint(pan), true
	case runErr != nil:
		return comp, "err", true
	}
	return comp, "ok", true
}

// runTagB: kind m / t = Unmarshall called on the scanned property; M / T / V = end to end (oracle only).
// exp = what the generator knows the text to say (nil: the harness reads the text itself when it is well-formed).
func runTagB(kind byte, text, value string, exp *tagExpect, tags []string, w *hx.Writer) {
	if exp == nil {
		if e, ok := tagReadOwn(text); ok {
			exp = e
		}
	}
	isTime := kind == 't' || kind == 'T' || kind == 'V'
	c := hx.Case{Scn: "B " + string(kind) + " " + hx.Hex(text), Tags: tags}
	if isTime {
		c.Scn += " " + hx.Hex(value)
	}
	var panMsg string
	switch kind {
	case 'm', 't':
		ft := reflect.TypeOf(tagBindTarget{})
		if isTime {
			ft = tagTimeType
		}
		var p *component_definition.Property
		var comp reflect.Value
		var ok bool
		var fail string
		if pan := hx.Guard(func() { p, comp, ok, fail = tagScanPrefix(ft, text) }); pan != nil {
			c.Obs, c.Oracle = "panic", "FAIL tag-panic prefix scanner: "+fmt.Sprint(pan)
			w.Put(c)
			return
		}
		if !ok {
			return
		}
		if fail != "" {
			c.Obs, c.Oracle = "none", fail
			w.Put(c)
			return
		}
		if isTime {
			// outside the model's language of layouts: judged by the oracles only (the layout as the real parser stored it)
			if items := propArgs(p)["TimeLayout"]; len(items) > 0 && !tagLayoutModelled(items[0]) {
				c.Scn = "# " + c.Scn
				c.Tags = append(c.Tags, "layout-unmodelled")
			}
		}
		var err error
		pan := hx.Guard(func() {
			if isTime {
				err = p.Unmarshall(value)
			} else {
				err = p.Unmarshall(tagBindDoc())
			}
		})
		switch {
		case pan != nil:
			c.Obs, panMsg = "panic", fmt.Sprint(pan)
		case err != nil:
			c.Obs = "err"
		case isTime:
			c.Obs = tagShowTime(comp.Elem().Field(0).Interface().(time.Time))
		default:
			c.Obs = "ok " + comp.Elem().Field(0).Interface().(tagBindTarget).N
		}
	case 'M', 'T', 'V':
		// end to end: the document holds the value under the key the TEXT names
		c.Scn = "# " + c.Scn
		if exp == nil || !tagE2ESafe(exp) {
			return
		}
		key, tagKey := exp.val, "prefix"
		if kind == 'V' {
			tagKey = "value"
			if !strings.HasPrefix(key, "${") || !strings.HasSuffix(key, "}") {
				return
			}
			key = key[2 : len(key)-1]
			// the value route hands the text to strconv2.ParseAny first (C17's matter): keep to texts it passes on unchanged
			var pv any
			var perr error
			if hx.Guard(func() { pv, perr = strconv2.ParseAny(value) }) != nil || perr != nil || pv != any(value) {
				return
			}
		}
		if !tagSimpleKey(key) {
			return
		}
		var comp reflect.Value
		var outcome string
		var ok bool
		if kind == 'M' {
			comp, outcome, ok = tagRunApp(tagKey, reflect.TypeOf(tagBindTarget{}), text, map[string]any{key: tagBindDoc()})
		} else {
			comp, outcome, ok = tagRunApp(tagKey, tagTimeType, text, map[string]any{key: value})
		}
		if !ok {
			return
		}
		switch {
		case strings.HasPrefix(outcome, "panic"):
			c.Obs, panMsg = "panic", outcome[6:]
		case outcome == "err":
			c.Obs = "err"
		case kind == 'M':
			c.Obs = "ok " + comp.Elem().Field(0).Interface().(tagBindTarget).N
		default:
			c.Obs = tagShowTime(comp.Elem().Field(0).Interface().(time.Time))
		}
	default:
		return
	}
	// oracles
	switch {
	case c.Obs == "panic":
		c.Oracle = fmt.Sprintf("FAIL tag-bind-panic binding through a property tagged %q panics: %s", text, panMsg)
	case exp == nil:
	case isTime:
		if items, has := ownArg(exp, "timeLayout"); has && len(items) == 1 {
			c.Tags = append(c.Tags, "consumer-oracle")
			if want := refTime(items[0], value); c.Obs != want {
				c.Oracle = fmt.Sprintf("FAIL tag-timelayout the tag %q has timeLayout=%q; time.Parse(%q, %q) gives [%s], the property binds [%s]", text, items[0], items[0], value, want, c.Obs)
			}
		} else if has {
			c.Tags = append(c.Tags, "several-items")
		}
	default:
		if items, has := ownArg(exp, "mapper"); has && len(items) == 1 {
			c.Tags = append(c.Tags, "consumer-oracle")
			if want := refMapper(items[0]); c.Obs != want {
				c.Oracle = fmt.Sprintf("FAIL tag-mapper the tag %q has mapper=%q; mapstructure with TagName %q binds [%s], the property binds [%s]", text, items[0], items[0], want, c.Obs)
			}
		} else if has {
			c.Tags = append(c.Tags, "several-items")
		}
	}
	w.Put(c)
}

func dedupeArgs(args []tagArg) []tagArg {
	last := map[string]int{}
	for i, a := range args {
		last[upFirst(a.name)] = i
	}
	var kept []tagArg
	for i, a := range args {
		if last[upFirst(a.name)] == i {
			kept = append(kept, a)
		}
	}
	return kept
}

var tagChunks = []string{"2006", "01", "02", "15", "04", "05"}

// genLayoutCore: 1-6 chunks with separators; blanks and commas only when `inside` (a bracket will keep them together)
func genLayoutCore(r *hx.Rng, inside bool) string {
	var sb strings.Builder
	n := 1 + r.Intn(6)
	start := 0
	if r.P(2, 3) { // mostly in calendar order
		start = r.Intn(len(tagChunks))
	}
	for i := 0; i < n; i++ {
		if i > 0 {
			seps := []string{"-", "/", ":", ".", "T", "", "-", ":"}
			if inside {
				seps = append(seps, " ", " ", ", ", ",", "  ")
			}
			sb.WriteString(seps[r.Intn(len(seps))])
		}
		if r.P(2, 3) {
			sb.WriteString(tagChunks[(start+i)%len(tagChunks)])
		} else {
			sb.WriteString(tagChunks[r.Intn(len(tagChunks))])
		}
	}
	return sb.String()
}

// genLayout: a layout and its shape label; every layout is ONE item of an argument unless the label says `blank`
func genLayout(r *hx.Rng) (string, string) {
	open, shut := "[({", "])}"
	k := r.Intn(3)
	switch r.Intn(16) {
	case 0, 1, 2, 3:
		return genLayoutCore(r, false), "plain"
	case 4, 5, 6, 7:
		return open[k:k+1] + genLayoutCore(r, true) + shut[k:k+1], "wrapped"
	case 8, 9:
		return genLayoutCore(r, false) + open[k:k+1] + genLayoutCore(r, true) + shut[k:k+1], "bracket-tail"
	case 10:
		j := r.Intn(3)
		return open[k:k+1] + genLayoutCore(r, true) + shut[k:k+1] + []string{"-", "T", ""}[r.Intn(3)] + open[j:j+1] + genLayoutCore(r, true) + shut[j:j+1], "two-groups"
	case 11:
		j := r.Intn(3)
		return open[k:k+1] + open[j:j+1] + genLayoutCore(r, true) + shut[j:j+1] + shut[k:k+1], "nested"
	case 12:
		return open[k:k+1] + genLayoutCore(r, true) + shut[k:k+1] + genLayoutCore(r, false), "bracket-head"
	case 13:
		return genLayoutCore(r, false) + " " + genLayoutCore(r, false), "blank"
	case 14:
		return []string{"[02/Jan/2006:15:04:05]", "Jan-02-2006", "(Mon)Jan-2-(2006)", "3:04PM", "[2006-01-02T15:04:05Z07:00]", "{Monday}02.01.06", "2006-01-02T15:04:05.000",
			"[Mon Jan _2 15:04:05 2006]", "(2006.01.02 MST)"}[r.Intn(9)], "names"
	}
	return open[k:k+1] + genLayoutCore(r, false) + shut[k:k+1], "wrapped"
}

func genTime(r *hx.Rng) time.Time {
	year := 1 + r.Intn(9999)
	if r.P(1, 2) {
		year = 1970 + r.Intn(80)
	}
	return time.Date(year, time.Month(1+r.Intn(12)), 1+r.Intn(31), r.Intn(24), r.Intn(60), r.Intn(60), 0, time.UTC)
}

// genBindOther: arguments next to the one under test
func genBindOther(r *hx.Rng, e2e bool) tagArg {
	switch k := r.Intn(6); {
	case k < 3 || e2e:
		name := []string{"required", "Required"}[r.Intn(2)]
		switch r.Intn(3) {
		case 0:
			return tagArg{name: name, items: []string{""}}
		case 1:
			return tagArg{name: name, items: []string{"true"}}
		}
		return tagArg{name: name, items: []string{"false"}}
	case k < 5:
		a := tagArg{name: genName2(r)}
		for n := 1 + r.Intn(2); n > 0; n-- {
			a.items = append(a.items, genBalanced(r, 0, true))
		}
		return a
	}
	return tagArg{name: genName2(r), items: []string{""}}
}

func renderArgSeg(a tagArg, bare bool) string {
	if bare {
		return a.name
	}
	return a.name + "=" + strings.Join(a.items, " ")
}

// genTagB: one binding case. Half of them around `timeLayout` on a time.Time field, half around `mapper` on a struct.
func genTagB(r *hx.Rng, w *hx.Writer) {
	e2e := r.P(1, 8)
	exp := &tagExpect{val: "k" + string(rune('a'+r.Intn(26))) + string(rune('a'+r.Intn(26)))}
	if !e2e && r.P(1, 4) {
		exp.val = genBalanced(r, 0, true)
	}
	seg := []string{}
	add := func(a tagArg, bare bool) {
		exp.args = append(exp.args, a)
		seg = append(seg, renderArgSeg(a, bare))
	}
	others := func(n int) {
		for ; n > 0; n-- {
			a := genBindOther(r, e2e)
			add(a, len(a.items) == 1 && a.items[0] == "" && r.P(1, 2))
		}
	}
	// an argument without a value, in its legal spellings
	empty := func(name string) {
		add(tagArg{name: name, items: []string{""}}, r.Bool())
	}
	if r.Bool() {
		// timeLayout
		name := []string{"timeLayout", "TimeLayout"}[r.Intn(2)]
		layout, shape := genLayout(r)
		t := genTime(r)
		value := t.Format(layout)
		if shape == "blank" {
			value = t.Format(layout[:strings.IndexByte(layout, ' ')]) // what the first item alone reads
			if r.P(1, 3) {
				value = t.Format(layout)
			}
		}
		label := "value-formatted"
		if r.P(1, 6) {
			label = "value-damaged"
			b := []byte(value)
			switch r.Intn(4) {
			case 0:
				if len(b) > 0 {
					b = b[:len(b)-1]
				}
			case 1:
				if len(b) > 0 {
					b = b[1:]
				}
			case 2:
				if len(b) > 0 {
					b[r.Intn(len(b))] = "x9 .0"[r.Intn(5)]
				}
			default:
				b = append(b, ".5x"[r.Intn(3)])
			}
			value = string(b)
		}
		others(r.Intn(3))
		form := "item"
		switch k := r.Intn(20); {
		case k < 14:
			add(tagArg{name: name, items: strings.Split(layout, " ")}, false)
			if shape != "blank" {
				exp.args[len(exp.args)-1].items = []string{layout}
			}
		case k < 17:
			form = "no-value"
			empty(name)
		case k < 18:
			form = "absent"
		default: // written twice: the last one counts
			form = "twice"
			other, _ := genLayout(r)
			add(tagArg{name: []string{"timeLayout", "TimeLayout"}[r.Intn(2)], items: []string{other}}, false) // (its items do not matter: overwritten)
			others(r.Intn(2))
			add(tagArg{name: name, items: strings.Split(layout, " ")}, false)
			if shape != "blank" {
				exp.args[len(exp.args)-1].items = []string{layout}
			}
		}
		if r.P(1, 5) {
			empty([]string{"mapper", "Mapper"}[r.Intn(2)])
		}
		others(r.Intn(2))
		kind := byte('t')
		if e2e {
			kind = "TTV"[r.Intn(3)]
			if kind == 'V' {
				exp.val = "${" + exp.val + "}"
			}
		}
		text := strings.Join(append([]string{exp.val}, seg...), ",")
		exp.args = dedupeArgs(exp.args)
		runTagB(kind, text, value, exp, []string{"bind", "bind-time", "layout-" + shape, "arg-" + form, label, "route-" + string(kind)}, w)
		return
	}
	// mapper
	name := []string{"mapper", "Mapper"}[r.Intn(2)]
	others(r.Intn(3))
	form := "item"
	switch k := r.Intn(20); {
	case k < 7:
		form = "no-value"
		empty(name)
	case k < 14:
		add(tagArg{name: name, items: []string{[]string{"yaml", "json", "toml", "mapstructure", "json", "yaml"}[r.Intn(6)]}}, false)
	case k < 16:
		form = "other-name"
		add(tagArg{name: name, items: []string{[]string{"xml", "Yaml", "JSON", "[json]", "(yaml)", "js on"[:2], genAtom(r, false)}[r.Intn(7)]}}, false)
	case k < 18:
		form = "several-items"
		add(tagArg{name: name, items: []string{[]string{"json", "toml", ""}[r.Intn(3)], []string{"yaml", "json"}[r.Intn(2)]}}, false)
	case k < 19:
		form = "absent"
	default:
		form = "twice"
		add(tagArg{name: []string{"mapper", "Mapper"}[r.Intn(2)], items: []string{[]string{"json", "toml", ""}[r.Intn(3)]}}, false)
		others(r.Intn(2))
		add(tagArg{name: name, items: []string{[]string{"yaml", "json", "toml", ""}[r.Intn(4)]}}, false)
	}
	if r.P(1, 4) {
		empty([]string{"timeLayout", "TimeLayout"}[r.Intn(2)])
	}
	others(r.Intn(2))
	kind := byte('m')
	if e2e {
		kind = 'M'
	}
	text := strings.Join(append([]string{exp.val}, seg...), ",")
	exp.args = dedupeArgs(exp.args)
	runTagB(kind, text, "", exp, []string{"bind", "bind-mapper", "arg-" + form, "route-" + string(kind)}, w)
}

// genTagF: lookups on structured tags (half of them with arguments written without a value and with repeated blanks
// between items, which leave empty items), on the forms of required-ness, and on arbitrary bytes
func genTagF(r *hx.Rng, w *hx.Writer) {
	switch k := r.Intn(10); {
	case k < 4:
		s, exp := genStructured(r)
		runTagF(s, exp, []string{"find", "structured", fmt.Sprintf("args%d", len(exp.args))}, w)
	case k < 7:
		// arguments without a value / with empty items between the others
		exp := &tagExpect{val: genBalanced(r, 0, true)}
		seg := []string{exp.val}
		for n := 1 + r.Intn(4); n > 0; n-- {
			a := tagArg{name: genName(r)}
			switch r.Intn(4) {
			case 0:
				a.items = []string{""}
				exp.args = append(exp.args, a)
				seg = append(seg, a.name)
				continue
			case 1:
				a.items = []string{""}
			default:
				for m := 1 + r.Intn(3); m > 0; m-- {
					if r.P(1, 3) {
						a.items = append(a.items, "")
					} else {
						a.items = append(a.items, genBalanced(r, 0, true))
					}
				}
			}
			exp.args = append(exp.args, a)
			seg = append(seg, a.name+"="+strings.Join(a.items, " "))
		}
		exp.args = dedupeArgs(exp.args)
		runTagF(strings.Join(seg, ","), exp, []string{"find", "empty-items"}, w)
	case k < 8:
		s, exp := genReqTag(r)
		runTagF(s, exp, []string{"find", "req-forms"}, w)
	default:
		s := genBytes(r)
		tags := []string{"find", "bytes"}
		if !strings.ContainsAny(s, ",") {
			tags = append(tags, "trivial")
		}
		runTagF(s, nil, tags, w)
	}
}

func tagReplay(scn string, w *hx.Writer) {
	scn = strings.TrimPrefix(scn, "# ")
	f := strings.Fields(scn)
	if len(f) >= 3 && f[0] == "B" && len(f[1]) == 1 {
		text, e1 := hx.UnHex(f[2])
		value, e2 := "", error(nil)
		if len(f) == 4 {
			value, e2 = hx.UnHex(f[3])
		}
		isTime := strings.Contains("tTV", f[1])
		if e1 == nil && e2 == nil && strings.Contains("mtMTV", f[1]) && (len(f) == 4) == isTime {
			runTagB(f[1][0], text, value, nil, []string{"replay"}, w)
		}
		return
	}
	if len(f) == 3 && f[0] == "U" {
		if s, err := hx.UnHex(f[2]); err == nil {
			runTagU(f[1], s, nil, []string{"replay"}, w)
		}
		return
	}
	if len(f) == 5 && f[0] == "H" && len(f[1]) == 3 {
		t, e1 := hx.UnHex(f[2])
		ops, ok := decodeTagOps(f[3])
		t2, e2 := hx.UnHex(f[4])
		if e1 == nil && e2 == nil && ok {
			runTagH(f[1][0], f[1][1:], t, ops, t2, nil, []string{"replay"}, w)
		}
		return
	}
	if len(f) != 2 {
		return
	}
	s, err := hx.UnHex(f[1])
	if err != nil {
		return
	}
	switch f[0] {
	case "P":
		runTagP(s, nil, []string{"replay"}, w)
	case "F":
		runTagF(s, nil, []string{"replay"}, w)
	case "S":
		runTagS(s, []string{"replay"}, w)
	}
}

func tagCorpus(w *hx.Writer) {
	for _, s := range []string{"", ",", "=", ",=", ",=,", "a,required=false", "a,Required=false", "a,required=true false",
		"a,required", "a,required=", "(,", "),x", "),(x", "{a,b},c={d e} f", "a,b=(c,d),e", "x,=y", "x, =y", ",,,",
		"a,\x80b=c", "a,\xc3\xa9=c", "${a:b},required=false", "#{1+2},validate=min=1 max=3", "a,b=c=d", "a,b==", "[", "]", "a,]b=[", "a,(=)"} {
		runTagP(s, nil, []string{"corpus"}, w)
		runTagS(s, []string{"corpus"}, w)
	}
	// user-defined scanners: every Required setting x every way a tag reaches NewProperty, over the forms of required-ness
	for _, s := range []string{"main", "", "main,qualifier=[x y]", "main,required", "main,Required", "main,required=true", "main,required=false",
		"main,Required=false", "main,required=", "main,required=true false", "main,qualifier=[x y],required=false", "main,required=false,required=true",
		"main, required=false", "main,required=False", "main,qualifier=required=false", "[main,required=false]", "main,required=[false]", "),required=false"} {
		for _, cfg := range []string{"00", "10", "20", "01", "11", "02", "12"} {
			runTagU(cfg, s, nil, []string{"corpus"}, w)
		}
	}
	// histories: one property relaxed / edited through Args() or SetArg, another one created from the same text
	relax := []tagOp{{kind: 'S', name: "required", items: []string{"false"}}}
	for i, h := range []struct {
		t   string
		ops []tagOp
		t2  string
	}{
		{"ledger,required=true", relax, "ledger,required=true"},
		{"mailer,required=true", []tagOp{{kind: 'A', name: "Required", items: []string{"false"}}}, "mailer,required=true"},
		{"audit,required=true", []tagOp{{kind: 's', name: "required", items: []string{"false"}}}, "audit,required=true"},
		{"clock,required=true", []tagOp{{kind: 'a', name: "required", items: []string{"false"}}}, "clock,required=true"},
		{"store", relax, "store"},
		{"queue,qualifier=[x y]", []tagOp{{kind: 'S', name: "qualifier", items: []string{"z"}}, {kind: 'A', name: "extra"}}, "queue,qualifier=[x y]"},
		{"cache,required=false", []tagOp{{kind: 'S', name: "Required", items: []string{"true"}}}, "cache,required=false"},
		{"index,required", []tagOp{{kind: 'A', name: "required", items: []string{"false"}}}, "index,required"},
		{"bus,required=true", relax, "bus2,required=true"},
		{",required=true,x=(a b) c", []tagOp{{kind: 'S', name: "x"}, {kind: 'S', name: ""}, {kind: 'A', name: "\xc3\xa9", items: []string{"", "k"}}}, ",required=true,x=(a b) c"},
	} {
		for _, mc := range []string{"d00", "s00", "s10", "s21", "t00", "t10", "t12", "a10"} {
			runTagH(mc[0], mc[1:], fmt.Sprintf("h%d%s.", i, mc)+h.t, h.ops, fmt.Sprintf("h%d%s.", i, mc)+h.t2, nil, []string{"corpus", "history"}, w)
		}
	}
	// seventh round: nested blocks of one kind whose inner closer comes before a comma of the outer block
	for _, s := range []string{"${motd.${lang}:Welcome, stranger}", "${motd.${lang}:Welcome, stranger},required", "#{max(${low:1},${quota.${tier}:100})},validate=min=1 max=3",
		"f(g(a),b),x=(p(q),r) s", "[[a],b],q=[[c] d,e]", "{a{b}c,d{e}},{f}={{g},h}"} {
		runTagP(s, nil, []string{"corpus"}, w)
		runTagS(s, []string{"corpus"}, w)
		runTagF(s, nil, []string{"corpus", "find"}, w)
	}
	// lookups: arguments without a value, empty items between blanks
	for _, s := range []string{"app,mapper", "app,mapper=", "app,Mapper=,required=true,validate", "${day},timeLayout=", "${day},required=false,timeLayout",
		"abc,validate=required  min=3", "a,x=a  b", "a,x= ", "a,x=  ", "a,x", "a,X=,x=1", ",=", "a,required=false,Required"} {
		runTagF(s, nil, []string{"corpus", "find"}, w)
	}
	// consumers: mapper / timeLayout without a value, bracketed layouts (the brackets are part of the item)
	for _, s := range []string{"app,mapper", "app,mapper=", "app,Mapper=,required=true", "app,mapper=json", "app,mapper=yaml", "app,mapper=[json]", "app,mapper=xml",
		"app,mapper=json yaml", "app", "app,timeLayout", "app,timeLayout=,mapper"} {
		runTagB('m', s, "", nil, []string{"corpus", "bind"}, w)
		runTagB('M', s, "", nil, []string{"corpus", "bind"}, w)
	}
	for _, tv := range [][2]string{{"day,timeLayout=2006-01-02", "2024-05-06"}, {"day,timeLayout=[2006-01-02]", "[2024-05-06]"}, {"day,Required=true,TimeLayout=(2006-01-02 15:04)", "(2024-05-06 17:30)"},
		{"day,timeLayout={2006-01-02}", "{2024-05-06}"}, {"day,timeLayout=(2006) 01", "(2024)"}, {"day,timeLayout=2006-01-02 15:04:05", "2024-05-06"},
		{"day,timeLayout=2006-01-02 15:04:05", "2024-05-06 17:30:00"}, {"day,timeLayout=[2006-01-02]", "2024-05-06"}, {"day,timeLayout=", "2024-05-06"},
		{"day,required=false,timeLayout", "2024-05-06"}, {"day,timeLayout=,mapper", "x"}, {"day", "2024-05-06"}, {"day,timeLayout=[02/Jan/2006:15:04:05]", "[06/May/2024:17:30:00]"},
		{"day,timeLayout=05.01", "07.03"}, {"day,timeLayout=2006-01-02,timeLayout=[2006]", "[2024]"}} {
		runTagB('t', tv[0], tv[1], nil, []string{"corpus", "bind"}, w)
		runTagB('T', tv[0], tv[1], nil, []string{"corpus", "bind"}, w)
		runTagB('V', "${day}"+tv[0][3:], tv[1], nil, []string{"corpus", "bind"}, w)
	}
}

// genReqTag: a structured tag built around the forms of required-ness the property speaks about: no required argument,
// a bare `required`, required=true, required=false (either first-letter case), next to other arguments.
func genReqTag(r *hx.Rng) (string, *tagExpect) {
	exp := &tagExpect{}
	if r.P(4, 5) {
		exp.val = genBalanced(r, 0, true)
	}
	seg := []string{exp.val}
	add := func(name string, bare bool, items ...string) {
		if bare {
			exp.args = append(exp.args, tagArg{name: name, items: []string{""}})
			seg = append(seg, name)
			return
		}
		exp.args = append(exp.args, tagArg{name: name, items: items})
		seg = append(seg, name+"="+strings.Join(items, " "))
	}
	other := func() {
		switch r.Intn(4) {
		case 0:
			add("qualifier", false, "[x y]")
		case 1:
			add([]string{"qualifier", "Qualifier"}[r.Intn(2)], false, genBalanced(r, 0, true))
		case 2:
			add(genName2(r), false, genBalanced(r, 0, true), genBalanced(r, 0, true))
		default:
			add(genName2(r), true)
		}
	}
	for n := r.Intn(3); n > 0; n-- {
		other()
	}
	req := []string{"required", "Required"}[r.Intn(2)]
	switch r.Intn(8) {
	case 0, 1, 2: // no required argument at all
	case 3:
		add(req, true)
	case 4:
		add(req, false, "true")
	case 5:
		add(req, false, "false")
	case 6:
		add(req, false, "")
	default:
		add(req, false, []string{"true", "false", "False", "no", "[false]"}[r.Intn(5)], []string{"true", "false", "FALSE"}[r.Intn(3)])
	}
	for n := r.Intn(2); n > 0; n-- {
		other()
	}
	last := map[string]int{}
	for i, a := range exp.args {
		last[upFirst(a.name)] = i
	}
	var kept []tagArg
	for i, a := range exp.args {
		if last[upFirst(a.name)] == i {
			kept = append(kept, a)
		}
	}
	exp.args = kept
	return strings.Join(seg, ","), exp
}

// genName2: an argument name that is not a spelling of `required`
func genName2(r *hx.Rng) string {
	for {
		if n := genName(r); upFirst(n) != "Required" {
			return n
		}
	}
}

const tagPlain = "abcxyzABQR019._-:$#'\""

func genAtom(r *hx.Rng, allowEq bool) string {
	n := 1 + r.Intn(4)
	var sb strings.Builder
	for i := 0; i < n; i++ {
		ch := tagPlain[r.Intn(len(tagPlain))]
		if allowEq && r.P(1, 12) {
			ch = '='
		}
		sb.WriteByte(ch)
	}
	return sb.String()
}

// genBalanced: text that is bracket balanced; commas/spaces only inside brackets when top is false
func genBalanced(r *hx.Rng, depth int, allowEq bool) string {
	var sb strings.Builder
	parts := 1 + r.Intn(2)
	for i := 0; i < parts; i++ {
		if depth < 3 && r.P(1, 3) {
			k := r.Intn(3)
			sb.WriteByte("{[("[k])
			inner := r.Intn(3)
			for j := 0; j < inner; j++ {
				if j > 0 {
					sb.WriteByte(", ="[r.Intn(4)%3+0])
				}
				sb.WriteString(genBalanced(r, depth+1, true))
			}
			sb.WriteByte("}])"[k])
		} else {
			sb.WriteString(genAtom(r, allowEq))
		}
	}
	return sb.String()
}

func genName(r *hx.Rng) string {
	if r.P(1, 3) {
		return []string{"required", "Required", "qualifier", "Qualifier", "validate", "mapper", "returns", "embed"}[r.Intn(8)]
	}
	n := 1 + r.Intn(5)
	var sb strings.Builder
	for i := 0; i < n; i++ {
		sb.WriteByte("abcdwxyzABCDWXYZ0189_-."[r.Intn(23)])
	}
	return sb.String()
}

func genStructured(r *hx.Rng) (string, *tagExpect) {
	exp := &tagExpect{}
	if r.P(4, 5) {
		exp.val = genBalanced(r, 0, true)
	}
	nargs := r.Intn(6)
	seg := []string{exp.val}
	for i := 0; i < nargs; i++ {
		a := tagArg{name: genName(r)}
		ni := 1 + r.Intn(3)
		if r.P(1, 6) {
			ni = 1
			a.items = []string{""}
		} else {
			for j := 0; j < ni; j++ {
				if a.name == "required" || a.name == "Required" {
					a.items = append(a.items, []string{"false", "true", "False", "false "}[r.Intn(3)])
				} else {
					a.items = append(a.items, genBalanced(r, 0, true))
				}
			}
		}
		exp.args = append(exp.args, a)
		seg = append(seg, a.name+"="+strings.Join(a.items, " "))
	}
	// duplicates: the last one wins (Go map); keep only the last for the expectation
	last := map[string]int{}
	for i, a := range exp.args {
		last[upFirst(a.name)] = i
	}
	var kept []tagArg
	for i, a := range exp.args {
		if last[upFirst(a.name)] == i {
			kept = append(kept, a)
		}
	}
	exp.args = kept
	return strings.Join(seg, ","), exp
}

const tagSpecial = ",=()[]{} \"'$#:"

func genBytes(r *hx.Rng) string {
	n := r.Intn(65)
	if r.P(1, 4) {
		n = r.Intn(8)
	}
	b := make([]byte, n)
	for i := range b {
		switch r.Intn(10) {
		case 0, 1, 2, 3, 4:
			b[i] = tagSpecial[r.Intn(len(tagSpecial))]
		case 5, 6, 7:
			b[i] = "abrRqQ01"[r.Intn(8)]
		case 8:
			b[i] = byte(r.Intn(256))
		default:
			b[i] = byte(32 + r.Intn(95))
		}
	}
	return string(b)
}

func tagGen(rng *hx.Rng, n int, tier string, w *hx.Writer) {
	for i := 0; i < n; i++ {
		r := rng.Fork()
		switch k := r.Intn(11); {
		case k == 10:
			cfg := string([]byte{"012"[r.Intn(3)], "012"[r.Intn(3)]})
			switch j := r.Intn(10); {
			case j < 5:
				s, exp := genReqTag(r)
				runTagU(cfg, s, exp, []string{"user-scan", "req-forms", "R" + cfg[:1]}, w)
			case j < 8:
				s, exp := genStructured(r)
				runTagU(cfg, s, exp, []string{"user-scan", "structured", "R" + cfg[:1]}, w)
			default:
				runTagU(cfg, genBytes(r), nil, []string{"user-scan", "bytes", "R" + cfg[:1]}, w)
			}
		case k < 4:
			s, exp := genStructured(r)
			tags := []string{"structured", fmt.Sprintf("args%d", len(exp.args))}
			if strings.ContainsAny(s, "([{") {
				tags = append(tags, "bracketed")
			}
			if len(exp.args) == 0 && !strings.ContainsAny(s, "([{") {
				tags = append(tags, "trivial")
			}
			runTagP(s, exp, tags, w)
		case k < 8:
			s := genBytes(r)
			tags := []string{"bytes", fmt.Sprintf("len%d", len(s)/16*16)}
			if !strings.ContainsAny(s, ",=") {
				tags = append(tags, "trivial")
			}
			runTagP(s, nil, tags, w)
		case k < 9:
			s, _ := genStructured(r)
			runTagS(s, []string{"prop-structured"}, w)
		default:
			runTagS(genBytes(r), []string{"prop-bytes"}, w)
		}
		// one case in ten is followed by a history (drawn from the case's own stream after it, so the cases above are
		// what they were before histories existed)
		if r.P(1, 10) {
			genTagH(r.Fork(), w)
		}
	}
	// seventh round, after the main stream (whose cases stay what they were): lookups through the public API and the
	// consumers of arguments in Property.Unmarshall
	fr := rng.Fork()
	for i := 0; i < (n+11)/12; i++ {
		genTagF(fr.Fork(), w)
	}
	br := rng.Fork()
	for i := 0; i < (n+19)/20; i++ {
		genTagB(br.Fork(), w)
	}
}
