package main

// sub-harness `tag` (C19): the tag-argument grammar.
//
//	scenario  `P <hex>`  → component_definition.NewProperty(nil, …, "wire", text)
//	scenario  `S <hex>`  → the `prop` shorthand rewrite of the value processor, then NewProperty
//	scenario  `U <r><m> <hex>` → a USER-DEFINED tag scanner (embeds DefaultTagScanDefinitionRegistryPostProcessor, tag `plugin`;
//	                       r: 0 = Required left unset, 1 = Required:true, 2 = Required:false; m: 0 = tag lookup,
//	                       1 = ExtractHandler only, 2 = ExtractHandler + the scanner's tag name) scans a run-time struct
//	                       whose field carries the text; observed: the property that arrives in the registry
//	scenario  `H <m><r><w> <hexT> <ops> <hexT2>` → a HISTORY: property A is created from text T, its arguments are edited
//	                       (ops: `-` or `,`-joined <k><hexname>:<hexitem>/<hexitem>…, k = S Args().Set | A Args().Add | s SetArg |
//	                       a AddArg), property B is created from text T2 (the same text, or another one).
//	                       m = d: both through NewProperty; s: A and B are two fields of ONE component, scanned once by a
//	                       user-defined scanner <r><w> (as in U) — B exists before the edit and is read after it; t: two scans, two
//	                       registries, two scanner instances (B created after the edit); a: two real applications in this
//	                       process (`wire` tag on a point nobody can fill; A is edited by a user post-processor of the first
//	                       application). observed: `<A after the edits> | <B>` (+ ` | <start1> <start2>` for m = a)
//	observation          `<tagval> <args> <required>` | `panic`
//
// Oracles (evaluated on the real code only, independent of the model):
//   - totality: no panic for any byte string;
//   - structured tags (generated from the grammar) parse to exactly what was rendered;
//   - IsRequired() is false iff an argument named required/Required lists the item `false`;
//   - through a scanner (built-in or user-defined, whatever its Required field) the point is optional only when the
//     tag TEXT says required=false (tag-scan-required, tag-scan-required-user);
//   - what a tag parses to is a function of the tag TEXT: after any history of edits to OTHER properties' arguments a
//     property created from text T2 is exactly what T2 says — equal to the property the same route gave before the edits
//     and, for well-formed text, to what the harness' own reader (tagReadOwn, not the library's parser) reads off the
//     text (tag-history); an application whose only point has no candidate starts only when the point's tag text says
//     required=false, whatever happened in earlier applications of the process (tag-history-start).

import (
	"fmt"
	"reflect"
	"sort"
	"strconv"
	"strings"

	"github.com/go-kid/ioc/app"
	"github.com/go-kid/ioc/component_definition"
	"github.com/go-kid/ioc/container"
	"github.com/go-kid/ioc/container/processors"
	"github.com/go-kid/ioc/container/support"
	"github.com/go-kid/ioc/syslog"

	"verifharness/internal/hx"
)

func init() {
	register(&Sub{Name: "tag", Gen: tagGen, Replay: tagReplay, Corpus: tagCorpus})
}

type tagArg struct {
	name  string
	items []string
}

// expectation for a structured tag
type tagExpect struct {
	val  string
	args []tagArg
}

func showArgsMap(m map[string][]string) string {
	if len(m) == 0 {
		return "."
	}
	keys := make([]string, 0, len(m))
	for k := range m {
		keys = append(keys, k)
	}
	sort.Strings(keys)
	var parts []string
	for _, k := range keys {
		var items []string
		for _, it := range m[k] {
			items = append(items, hx.Hex(it))
		}
		parts = append(parts, hx.Hex(k)+"="+strings.Join(items, ","))
	}
	return strings.Join(parts, ";")
}

func propArgs(p *component_definition.Property) map[string][]string {
	m := map[string][]string{}
	p.Args().ForEach(func(t component_definition.ArgType, args []string) {
		m[string(t)] = args
	})
	return m
}

func obsProperty(p *component_definition.Property) string {
	req := "0"
	if p.IsRequired() {
		req = "1"
	}
	return hx.Hex(p.TagVal) + " " + showArgsMap(propArgs(p)) + " " + req
}

func upFirst(s string) string {
	if s == "" {
		return s
	}
	c := s[0]
	if c >= 'a' && c <= 'z' {
		return string(c-32) + s[1:]
	}
	return s
}

// runTagP parses `text` with the real code and evaluates the oracles.
func runTagP(text string, exp *tagExpect, tags []string, w *hx.Writer) {
	var p *component_definition.Property
	pan := hx.Guard(func() {
		p = component_definition.NewProperty(nil, component_definition.PropertyTypeComponent, "wire", text)
	})
	c := hx.Case{Scn: "P " + hx.Hex(text), Tags: tags}
	if pan != nil {
		c.Obs = "panic"
		c.Oracle = "FAIL tag-panic " + fmt.Sprint(pan)
		w.Put(c)
		return
	}
	c.Obs = obsProperty(p)
	got := propArgs(p)
	// required oracle
	wantReq := true
	if items, ok := got["Required"]; ok {
		for _, it := range items {
			if it == "false" {
				wantReq = false
			}
		}
	}
	if p.IsRequired() != wantReq {
		c.Oracle = fmt.Sprintf("FAIL tag-required IsRequired=%v args=%v", p.IsRequired(), got)
	}
	if exp != nil && c.Oracle == "" {
		want := map[string][]string{}
		for _, a := range exp.args {
			want[upFirst(a.name)] = a.items
		}
		if p.TagVal != exp.val || !reflect.DeepEqual(got, want) {
			c.Oracle = fmt.Sprintf("FAIL tag-roundtrip val=%q args=%v want val=%q args=%v", p.TagVal, got, exp.val, want)
		}
		// lookups are insensitive to the case of the first letter
		for _, a := range exp.args {
			lower := strings.ToLower(a.name[:1]) + a.name[1:]
			upper := strings.ToUpper(a.name[:1]) + a.name[1:]
			l1, ok1 := p.Args().Find(component_definition.ArgType(lower))
			l2, ok2 := p.Args().Find(component_definition.ArgType(upper))
			if !ok1 || !ok2 || !reflect.DeepEqual(l1, l2) {
				c.Oracle = fmt.Sprintf("FAIL tag-case name=%q", a.name)
			}
		}
	}
	w.Put(c)
}

var propHandler = func() func(*component_definition.Meta, *component_definition.Field) (string, string, bool) {
	p := processors.NewValueAwarePostProcessors()
	f := reflect.ValueOf(p).Elem().FieldByName("ExtractHandler")
	return f.Interface().(func(*component_definition.Meta, *component_definition.Field) (string, string, bool))
}()

func runTagS(text string, tags []string, w *hx.Writer) {
	structured := len(tags) > 0 && tags[0] == "prop-structured"
	c := hx.Case{Scn: "S " + hx.Hex(text), Tags: tags}
	var rewritten string
	var ok bool
	var p *component_definition.Property
	pan := hx.Guard(func() {
		field := &component_definition.Field{StructField: reflect.StructField{
			Name: "F", Tag: reflect.StructTag("prop:" + strconv.Quote(text))}}
		_, rewritten, ok = propHandler(nil, field)
		if ok {
			p = component_definition.NewProperty(field, component_definition.PropertyTypeConfiguration, "value", rewritten)
		}
	})
	if pan != nil {
		c.Obs = "panic"
		c.Oracle = "FAIL tag-panic " + fmt.Sprint(pan)
		w.Put(c)
		return
	}
	if !ok {
		// strconv.Quote output that StructTag.Lookup does not read back; not a container matter
		return
	}
	c.Obs = hx.Hex(rewritten) + " " + obsProperty(p)
	if f := scanEndToEnd(text, p); f != "" {
		c.Oracle = f
	}
	// oracle: the shorthand is the value tag `${key}` + the same arguments
	// (claimed for bracket-balanced text only: wrapping unbalanced text in ${…} changes what "top level" means)
	var direct *component_definition.Property
	if structured && hx.Guard(func() {
		direct = component_definition.NewProperty(nil, component_definition.PropertyTypeConfiguration, "value", text)
	}) == nil {
		if p.TagVal != "${"+direct.TagVal+"}" || !reflect.DeepEqual(propArgs(p), propArgs(direct)) {
			c.Oracle = fmt.Sprintf("FAIL tag-prop shorthand %q → %q args %v, direct parse %q args %v", text, p.TagVal, propArgs(p), direct.TagVal, propArgs(direct))
		}
	}
	w.Put(c)
}

// scanEndToEnd pushes `prop:"<text>"` (ExtractHandler branch) and `value:"<text>"` (tag-lookup branch) through the
// REAL scanner (DefaultTagScanDefinitionRegistryPostProcessor.PostProcessDefinitionRegistry of the value processor) on a
// run-time struct type and compares what arrives in the registry with the direct parse: same value part, same arguments
// except the scanner's `Required` default, and in particular the same IsRequired() — only an explicit required=false
// makes a point optional, on both branches.
func scanEndToEnd(text string, direct *component_definition.Property) string {
	var fail string
	pan := hx.Guard(func() {
		st := reflect.StructOf([]reflect.StructField{
			{Name: "P", Type: reflect.TypeOf(""), Tag: reflect.StructTag("prop:" + strconv.Quote(text))},
			{Name: "V", Type: reflect.TypeOf(""), Tag: reflect.StructTag("value:" + strconv.Quote(text))},
		})
		if _, ok := st.Field(0).Tag.Lookup("prop"); !ok {
			return
		}
		comp := reflect.New(st).Interface()
		reg := support.DefaultDefinitionRegistry()
		scanner, ok := processors.NewValueAwarePostProcessors().(container.DefinitionRegistryPostProcessor)
		if !ok {
			fail = "FAIL tag-scan the value processor is no longer a definition scanner"
			return
		}
		if err := scanner.PostProcessDefinitionRegistry(reg, comp, "c"); err != nil {
			fail = "FAIL tag-scan scanning failed: " + err.Error()
			return
		}
		meta := reg.GetMetaByName("c")
		var byProp, byValue *component_definition.Property
		for _, q := range meta.GetAllProperties() {
			switch q.StructField.Name {
			case "P":
				byProp = q
			case "V":
				byValue = q
			}
		}
		if byProp == nil || byValue == nil {
			fail = "FAIL tag-scan a tagged field produced no property"
			return
		}
		if byProp.TagVal != direct.TagVal || byProp.IsRequired() != direct.IsRequired() {
			fail = fmt.Sprintf("FAIL tag-scan-required prop:%q scanned as value %q required=%v, direct parse of the rewritten text gives %q required=%v",
				text, byProp.TagVal, byProp.IsRequired(), direct.TagVal, direct.IsRequired())
			return
		}
		var plain *component_definition.Property
		plain = component_definition.NewProperty(nil, component_definition.PropertyTypeConfiguration, "value", text)
		if byValue.TagVal != plain.TagVal || byValue.IsRequired() != plain.IsRequired() {
			fail = fmt.Sprintf("FAIL tag-scan-required value:%q scanned as value %q required=%v, direct parse gives %q required=%v",
				text, byValue.TagVal, byValue.IsRequired(), plain.TagVal, plain.IsRequired())
		}
	})
	if pan != nil && fail == "" {
		fail = "FAIL tag-panic scanner: " + fmt.Sprint(pan)
	}
	if fail == "" {
		// the same text under a user-defined scanner that leaves Required unset, and one that sets it
		for _, cfg := range []string{"00", "11"} {
			if _, f, ok := scanUser(cfg, text, nil); ok && f != "" {
				return f
			}
		}
	}
	return fail
}

// userTagScanner is what an application writes to get its own tag scanned (cf. /repo/unittest/component/modified_inject):
// the stock scanner embedded, only the fields it cares about filled in.
type userTagScanner struct {
	processors.DefaultTagScanDefinitionRegistryPostProcessor
}

func newUserScanner(cfg string) (container.DefinitionRegistryPostProcessor, string) {
	sc := &userTagScanner{}
	sc.NodeType = component_definition.PropertyTypeComponent
	switch cfg[0] {
	case '1':
		sc.Required = true
	case '2':
		sc.Required = false
	} // '0': the field is never mentioned (zero value)
	key := "plugin"
	switch cfg[1] {
	case '0':
		sc.Tag = "plugin"
	case '1':
		sc.ExtractHandler = func(_ *component_definition.Meta, field *component_definition.Field) (string, string, bool) {
			v, ok := field.StructField.Tag.Lookup("plugin")
			return "plugin", v, ok
		}
	default:
		key = "plug"
		sc.Tag = "plugin"
		sc.ExtractHandler = func(_ *component_definition.Meta, field *component_definition.Field) (string, string, bool) {
			v, ok := field.StructField.Tag.Lookup("plug")
			return "", v, ok
		}
	}
	return sc, key
}

func validUserCfg(cfg string) bool {
	return len(cfg) == 2 && cfg[0] >= '0' && cfg[0] <= '2' && cfg[1] >= '0' && cfg[1] <= '2'
}

// textSaysOptional: what the TEXT of a structured tag says — optional iff its (last) required argument lists `false`.
func textSaysOptional(exp *tagExpect) bool {
	for _, a := range exp.args {
		if upFirst(a.name) == "Required" {
			for _, it := range a.items {
				if it == "false" {
					return true
				}
			}
		}
	}
	return false
}

// scanUser runs the REAL scanner code of a user-defined scanner over a run-time struct whose only field carries `text`
// and evaluates the property on the property that arrives in the registry: same value part, the same arguments as the
// tag text (the scanner may add its own Required marker, nothing else), and optional ONLY when the text says
// required=false — whatever the scanner's Required field is (set, or left at its zero value).
// ok=false: reflect.StructTag does not read the quoted text back (not a container matter).
func scanUser(cfg, text string, exp *tagExpect) (obs, fail string, ok bool) {
	var q *component_definition.Property
	pan := hx.Guard(func() {
		scanner, key := newUserScanner(cfg)
		st := reflect.StructOf([]reflect.StructField{
			{Name: "F", Type: reflect.TypeOf((*fmt.Stringer)(nil)).Elem(), Tag: reflect.StructTag(key + ":" + strconv.Quote(text))},
		})
		if v, found := st.Field(0).Tag.Lookup(key); !found || v != text {
			return
		}
		ok = true
		reg := support.DefaultDefinitionRegistry()
		if err := scanner.PostProcessDefinitionRegistry(reg, reflect.New(st).Interface(), "c"); err != nil {
			fail = "FAIL tag-scan-user scanning failed: " + err.Error()
			return
		}
		for _, p := range reg.GetMetaByName("c").GetAllProperties() {
			if p.StructField.Name == "F" {
				q = p
			}
		}
	})
	if pan != nil {
		return "panic", "FAIL tag-panic user scanner " + cfg + ": " + fmt.Sprint(pan), true
	}
	if !ok || fail != "" {
		return "", fail, ok
	}
	if q == nil {
		return "none", "FAIL tag-scan-user the tagged field produced no property (scanner " + cfg + ")", true
	}
	obs = obsProperty(q)
	var direct *component_definition.Property
	if hx.Guard(func() {
		direct = component_definition.NewProperty(nil, component_definition.PropertyTypeComponent, "plugin", text)
	}) != nil {
		return obs, "", true // the panic of the parser itself is reported by the P scenarios
	}
	// what the text says: from the grammar for structured tags, from the direct parse of the text otherwise
	optional := !direct.IsRequired()
	if exp != nil {
		optional = textSaysOptional(exp)
	}
	if q.IsRequired() == optional {
		return obs, fmt.Sprintf("FAIL tag-scan-required-user scanner %s: plugin:%q scanned with IsRequired=%v args=%v, but the tag text has explicit required=false: %v (only that makes a point optional)",
			cfg, text, q.IsRequired(), propArgs(q), optional), true
	}
	got, want := propArgs(q), propArgs(direct)
	delete(got, "Required")
	delete(want, "Required")
	if q.TagVal != direct.TagVal || !reflect.DeepEqual(got, want) {
		return obs, fmt.Sprintf("FAIL tag-scan-user scanner %s: plugin:%q scanned as value %q args %v, the text parses to %q args %v",
			cfg, text, q.TagVal, got, direct.TagVal, want), true
	}
	return obs, "", true
}

func runTagU(cfg, text string, exp *tagExpect, tags []string, w *hx.Writer) {
	if !validUserCfg(cfg) {
		return
	}
	obs, fail, ok := scanUser(cfg, text, exp)
	if !ok {
		return
	}
	w.Put(hx.Case{Scn: "U " + cfg + " " + hx.Hex(text), Obs: obs, Oracle: fail, Tags: tags})
}

/* ---------- histories (scenario H) ---------- */

// tagOp: one edit of a property's arguments through the public API
type tagOp struct {
	kind  byte // S Args().Set | A Args().Add | s SetArg | a AddArg
	name  string
	items []string
}

func encodeTagOps(ops []tagOp) string {
	if len(ops) == 0 {
		return "-"
	}
	var parts []string
	for _, o := range ops {
		var its []string
		for _, it := range o.items {
			its = append(its, hx.Hex(it))
		}
		parts = append(parts, string(o.kind)+hx.Hex(o.name)+":"+strings.Join(its, "/"))
	}
	return strings.Join(parts, ",")
}

func decodeTagOps(s string) ([]tagOp, bool) {
	if s == "-" {
		return nil, true
	}
	var ops []tagOp
	for _, p := range strings.Split(s, ",") {
		if len(p) < 2 || strings.IndexByte("SAsa", p[0]) < 0 {
			return nil, false
		}
		nv := strings.Split(p[1:], ":")
		if len(nv) != 2 {
			return nil, false
		}
		name, err := hx.UnHex(nv[0])
		if err != nil {
			return nil, false
		}
		o := tagOp{kind: p[0], name: name}
		if nv[1] != "" {
			for _, h := range strings.Split(nv[1], "/") {
				it, err := hx.UnHex(h)
				if err != nil {
					return nil, false
				}
				o.items = append(o.items, it)
			}
		}
		ops = append(ops, o)
	}
	return ops, true
}

func applyTagOp(p *component_definition.Property, o tagOp) {
	switch o.kind {
	case 'S':
		p.Args().Set(component_definition.ArgType(o.name), o.items...)
	case 'A':
		p.Args().Add(component_definition.ArgType(o.name), o.items...)
	case 's':
		p.SetArg(component_definition.ArgType(o.name), o.items...)
	case 'a':
		p.AddArg(component_definition.ArgType(o.name), o.items...)
	}
}

// tagSnap: a deep copy of what a property says at one moment
type tagSnap struct {
	val  string
	args map[string][]string
	req  bool
}

func snapProperty(p *component_definition.Property) tagSnap {
	sn := tagSnap{val: p.TagVal, args: map[string][]string{}, req: p.IsRequired()}
	for k, v := range propArgs(p) {
		sn.args[k] = append([]string{}, v...)
	}
	return sn
}

func (sn tagSnap) String() string {
	return fmt.Sprintf("value %q args %s required=%v", sn.val, scanShowArgsPlain(sn.args), sn.req)
}

// sameTagArgs: the same names with the same items (a nil and an empty item list are the same thing)
func sameTagArgs(a, b map[string][]string) bool {
	if len(a) != len(b) {
		return false
	}
	for k, v := range a {
		w, ok := b[k]
		if !ok || len(v) != len(w) {
			return false
		}
		for i := range v {
			if v[i] != w[i] {
				return false
			}
		}
	}
	return true
}

// withoutMarker: the arguments minus the bare `Required` marker (no items) a scanner with Required=true stores on a
// property whose tag has no required argument
func withoutMarker(m map[string][]string) map[string][]string {
	out := map[string][]string{}
	for k, v := range m {
		if k == "Required" && len(v) == 0 {
			continue
		}
		out[k] = v
	}
	return out
}

// tagSplitTop splits s at every sep that is outside brackets; ok=false when a closing bracket has no opening one or a
// bracket stays open (the library counts { [ ( alike, so does this reader)
func tagSplitTop(s string, sep byte) ([]string, bool) {
	var out []string
	depth, start := 0, 0
	for i := 0; i < len(s); i++ {
		switch c := s[i]; {
		case c == '{' || c == '[' || c == '(':
			depth++
		case c == '}' || c == ']' || c == ')':
			if depth == 0 {
				return nil, false
			}
			depth--
		case c == sep && depth == 0:
			out = append(out, s[start:i])
			start = i + 1
		}
	}
	return append(out, s[start:]), depth == 0
}

// tagReadOwn: the harness' own reading of a WELL-FORMED tag text (the form the property's faithful part speaks about):
// the text before the first top-level comma is the value, every following segment is `name` or `name=item item…` (the
// first `=` ends the name, top-level blanks separate the items), a repeated name keeps the last. ok=false for text
// outside the form (unbalanced brackets, an empty name, a bracket in a name, a name starting with a non-ASCII byte).
func tagReadOwn(text string) (*tagExpect, bool) {
	segs, ok := tagSplitTop(text, ',')
	if !ok {
		return nil, false
	}
	exp := &tagExpect{val: segs[0]}
	pos := map[string]int{}
	for _, seg := range segs[1:] {
		a := tagArg{name: seg, items: []string{""}}
		if i := strings.IndexByte(seg, '='); i >= 0 {
			a.name = seg[:i]
			if a.items, ok = tagSplitTop(seg[i+1:], ' '); !ok {
				return nil, false
			}
		}
		if a.name == "" || a.name[0] >= 0x80 || strings.ContainsAny(a.name, "{[(}])") {
			return nil, false
		}
		if j, dup := pos[upFirst(a.name)]; dup {
			exp.args[j] = a
			continue
		}
		pos[upFirst(a.name)] = len(exp.args)
		exp.args = append(exp.args, a)
	}
	return exp, true
}

func (e *tagExpect) argMap() map[string][]string {
	m := map[string][]string{}
	for _, a := range e.args {
		m[upFirst(a.name)] = a.items
	}
	return m
}

// an injection point type nobody implements
type tagNobody interface{ tagNobodyImplementsThis() }

// tagEditor: a user post-processor (cf. the InstantiationAware processors of the library) that edits the arguments of
// the `wire` property of ONE component through the public API and writes down what it then reads
type tagEditor struct {
	processors.DefaultInstantiationAwareComponentPostProcessor
	target any
	ops    []tagOp
	seen   []string
	snaps  []tagSnap
}

func (e *tagEditor) Order() int { return 1 }

func (e *tagEditor) PostProcessAfterInstantiation(component any, componentName string) (bool, error) {
	return true, nil
}

func (e *tagEditor) PostProcessProperties(properties []*component_definition.Property, component any, componentName string) ([]*component_definition.Property, error) {
	if component != e.target {
		return nil, nil
	}
	for _, p := range properties {
		if p.Tag == "wire" && p.StructField.Name == "F" {
			for _, o := range e.ops {
				applyTagOp(p, o)
			}
			e.seen = append(e.seen, obsProperty(p))
			e.snaps = append(e.snaps, snapProperty(p))
		}
	}
	return nil, nil
}

// tagFieldStruct: a run-time struct type with one field per text, F, G, …, each tagged key:"text"; ok=false when
// reflect.StructTag does not read a quoted text back (not a container matter)
func tagFieldStruct(key string, ft reflect.Type, texts ...string) (reflect.Type, bool) {
	var fields []reflect.StructField
	for i, t := range texts {
		fields = append(fields, reflect.StructField{Name: string(rune('F' + i)), Type: ft, Tag: reflect.StructTag(key + ":" + strconv.Quote(t))})
	}
	st := reflect.StructOf(fields)
	for i, t := range texts {
		if v, found := st.Field(i).Tag.Lookup(key); !found || v != t {
			return nil, false
		}
	}
	return st, true
}

// tagScanFields runs a NEW user-defined scanner <cfg> over a new component with one field per text in a NEW registry and
// returns the properties of the fields in field order
func tagScanFields(cfg string, texts ...string) ([]*component_definition.Property, bool, string) {
	scanner, key := newUserScanner(cfg)
	st, ok := tagFieldStruct(key, reflect.TypeOf((*fmt.Stringer)(nil)).Elem(), texts...)
	if !ok {
		return nil, false, ""
	}
	reg := support.DefaultDefinitionRegistry()
	if err := scanner.PostProcessDefinitionRegistry(reg, reflect.New(st).Interface(), "c"); err != nil {
		return nil, true, "FAIL tag-scan-user scanning failed: " + err.Error()
	}
	out := make([]*component_definition.Property, len(texts))
	for _, p := range reg.GetMetaByName("c").GetAllProperties() {
		if i := int(p.StructField.Name[0] - 'F'); len(p.StructField.Name) == 1 && i >= 0 && i < len(out) {
			out[i] = p
		}
	}
	for _, p := range out {
		if p == nil {
			return nil, true, "FAIL tag-scan-user a tagged field produced no property (scanner " + cfg + ")"
		}
	}
	return out, true, ""
}

// tagStartApp starts a real application around one component whose field F (type tagNobody: no candidate can exist)
// carries wire:"text"; the editor is registered with it. ok=false: the quoted text is not read back by reflect.StructTag
func tagStartApp(text string, ed *tagEditor) (outcome string, ok bool) {
	st, ok := tagFieldStruct("wire", reflect.TypeOf((*tagNobody)(nil)).Elem(), text)
	if !ok {
		return "", false
	}
	comp := reflect.New(st).Interface()
	ed.target = comp
	if err := app.NewApp().Run(app.LogLevel(syslog.LvPanic), app.SetComponents(comp, ed)); err != nil {
		return "err", true
	}
	return "ok", true
}

func tagAppText(s string) bool { return !strings.ContainsAny(s, "$#") }

func validHist(mode byte, cfg, t, t2 string) bool {
	switch mode {
	case 'd':
		return cfg == "00"
	case 's', 't':
		return validUserCfg(cfg)
	case 'a':
		// the value part of a wire tag goes through the configuration-quote and expression processors: keep to text they pass over
		return cfg == "10" && tagAppText(t) && tagAppText(t2)
	}
	return false
}

// runTagH runs one history on the real code and evaluates the property on what it observes (see the header).
// exp2 = what the generator knows text t2 to say (nil: the harness reads the text itself when it is well-formed).
func runTagH(mode byte, cfg, t string, ops []tagOp, t2 string, exp2 *tagExpect, tags []string, w *hx.Writer) {
	if !validHist(mode, cfg, t, t2) {
		return
	}
	c := hx.Case{Scn: "H " + string(mode) + cfg + " " + hx.Hex(t) + " " + encodeTagOps(ops) + " " + hx.Hex(t2), Tags: tags}
	var a, b *component_definition.Property
	var obsA, obsB, starts, fail string
	var before, after tagSnap // B's text through the same route before the edits; B itself after them
	scanned := mode != 'd'
	skip := false
	pan := hx.Guard(func() {
		switch mode {
		case 'd':
			mk := func(s string) *component_definition.Property {
				return component_definition.NewProperty(nil, component_definition.PropertyTypeComponent, "wire", s)
			}
			before = snapProperty(mk(t2))
			a = mk(t)
			for _, o := range ops {
				applyTagOp(a, o)
			}
			obsA = obsProperty(a)
			b = mk(t2)
		case 't':
			pre, ok, f := tagScanFields(cfg, t2)
			if !ok || f != "" {
				skip, fail = !ok, f
				return
			}
			before = snapProperty(pre[0])
			ps, _, f := tagScanFields(cfg, t)
			if f != "" {
				fail = f
				return
			}
			a = ps[0]
			for _, o := range ops {
				applyTagOp(a, o)
			}
			obsA = obsProperty(a)
			qs, _, f := tagScanFields(cfg, t2)
			if f != "" {
				fail = f
				return
			}
			b = qs[0]
		case 's':
			ps, ok, f := tagScanFields(cfg, t, t2)
			if !ok || f != "" {
				skip, fail = !ok, f
				return
			}
			a, b = ps[0], ps[1]
			before = snapProperty(b)
			for _, o := range ops {
				applyTagOp(a, o)
			}
			obsA = obsProperty(a)
		case 'a':
			before = snapProperty(component_definition.NewProperty(nil, component_definition.PropertyTypeComponent, "wire", t2))
			ed1 := &tagEditor{ops: ops}
			s1, ok := tagStartApp(t, ed1)
			if !ok {
				skip = true
				return
			}
			ed2 := &tagEditor{}
			s2, ok := tagStartApp(t2, ed2)
			if !ok {
				skip = true
				return
			}
			if len(ed1.seen) != 1 || len(ed2.seen) != 1 {
				fail = fmt.Sprintf("FAIL tag-history-app the wire property of the component was handed to the user post-processor %d / %d times, want once", len(ed1.seen), len(ed2.seen))
				obsA, obsB, starts = "none", "none", s1+" "+s2
				return
			}
			obsA, obsB, starts = ed1.seen[0], ed2.seen[0], s1+" "+s2
			after = ed2.snaps[0]
			// only an explicit required=false makes a point optional: the second application has no editor at work
			wantOptional := !before.req
			if e := exp2; e != nil {
				wantOptional = textSaysOptional(e)
			} else if e, ok := tagReadOwn(t2); ok {
				wantOptional = textSaysOptional(e)
			}
			if (s2 == "ok") != wantOptional {
				fail = fmt.Sprintf("FAIL tag-history-start a second application with a point wire:%q that nobody can fill: start=%s, but the tag text has explicit required=false: %v (first application: wire:%q edited by %s)",
					t2, s2, wantOptional, t, encodeTagOps(ops))
			}
		}
		if b != nil {
			obsB = obsProperty(b)
			after = snapProperty(b)
		}
	})
	if skip {
		return
	}
	if pan != nil {
		c.Obs, c.Oracle = "panic", "FAIL tag-panic history: "+fmt.Sprint(pan)
		w.Put(c)
		return
	}
	c.Obs = obsA + " | " + obsB
	if starts != "" {
		c.Obs += " | " + starts
	}
	if fail == "" && obsB != "none" && obsB != "" {
		fail = tagHistoryOracle(mode, cfg, t, ops, t2, exp2, before, after, scanned)
	}
	c.Oracle = fail
	w.Put(c)
}

// tagHistoryOracle: B (created from t2 / read after the edits of A) against (1) what the same text gave through the same
// route BEFORE the edits and (2) what the text says, read by the harness itself
func tagHistoryOracle(mode byte, cfg, t string, ops []tagOp, t2 string, exp2 *tagExpect, before, after tagSnap, scanned bool) string {
	hist := fmt.Sprintf("(history %c%s: property A from %q edited by %s)", mode, cfg, t, encodeTagOps(ops))
	ba, aa := before.args, after.args
	if mode == 'a' { // `before` was parsed directly, `after` came through the wire scanner (Required=true)
		ba, aa = withoutMarker(ba), withoutMarker(aa)
	}
	if before.val != after.val || before.req != after.req || !sameTagArgs(ba, aa) {
		return fmt.Sprintf("FAIL tag-history the text %q gave %s before the edits and gives %s after them %s", t2, before, after, hist)
	}
	exp := exp2
	if exp == nil {
		var ok bool
		if exp, ok = tagReadOwn(t2); !ok {
			return ""
		}
	}
	want := exp.argMap()
	got := after.args
	if scanned {
		got, want = withoutMarker(got), withoutMarker(want)
	}
	if after.val != exp.val || !sameTagArgs(got, want) || after.req == textSaysOptional(exp) {
		return fmt.Sprintf("FAIL tag-history the text %q reads value %q args %s optional=%v, the property created from it says %s %s",
			t2, exp.val, scanShowArgsPlain(exp.argMap()), textSaysOptional(exp), after, hist)
	}
	return ""
}

func tagSalt(r *hx.Rng) string {
	const al = "abcdefghijklmnopqrstuvwxyz0123456789"
	b := []byte{'~'}
	for i := 0; i < 7; i++ {
		b = append(b, al[r.Intn(len(al))])
	}
	return string(b)
}

// salted: the same structured tag with a per-case salt at the end of its value part, so that no two cases of a run
// (and no P/S/U case) use the same text: a history of one case cannot reach into another case
func salted(text string, exp *tagExpect, salt string) (string, *tagExpect) {
	e := &tagExpect{val: exp.val + salt, args: exp.args}
	return e.val + text[len(exp.val):], e
}

func genTagOps(r *hx.Rng, exp *tagExpect) []tagOp {
	var ops []tagOp
	for n := 1 + r.Intn(3); n > 0; n-- {
		o := tagOp{kind: "SSSSSSSSAAAAAssssaaa"[r.Intn(20)]}
		switch k := r.Intn(20); {
		case k < 12:
			o.name = []string{"required", "Required"}[r.Intn(2)]
			switch r.Intn(8) {
			case 0, 1, 2, 3:
				o.items = []string{"false"}
			case 4:
				o.items = []string{"true"}
			case 5:
				o.items = []string{"false", "true"}
			case 6:
				o.items = []string{""}
			}
		case k < 15:
			o.name = []string{"qualifier", "Qualifier"}[r.Intn(2)]
			o.items = []string{genAtom(r, false)}
		case k < 18 && exp != nil && len(exp.args) > 0:
			o.name = exp.args[r.Intn(len(exp.args))].name
			for m := r.Intn(3); m > 0; m-- {
				o.items = append(o.items, genBalanced(r, 0, true))
			}
		default:
			o.name = genName(r)
			if r.P(1, 12) {
				o.name = ""
			}
			for m := r.Intn(3); m > 0; m-- {
				o.items = append(o.items, genAtom(r, true))
			}
		}
		ops = append(ops, o)
	}
	return ops
}

// genTagH: one history. 70% of the histories create B from the SAME text as A.
func genTagH(r *hx.Rng, w *hx.Writer) {
	mode := "dddddddsssssstttttta"[r.Intn(20)]
	cfg := "00"
	switch mode {
	case 's', 't':
		cfg = string([]byte{"012"[r.Intn(3)], "012"[r.Intn(3)]})
	case 'a':
		cfg = "10"
	}
	gen := func() (string, *tagExpect) {
		for tries := 0; ; tries++ {
			var s string
			var e *tagExpect
			if r.P(7, 10) {
				s, e = genReqTag(r)
			} else {
				s, e = genStructured(r)
			}
			if mode != 'a' || tagAppText(s) {
				return salted(s, e, tagSalt(r))
			}
			if tries > 50 {
				return salted("main,required=true", &tagExpect{val: "main", args: []tagArg{{name: "required", items: []string{"true"}}}}, tagSalt(r))
			}
		}
	}
	t, exp := gen()
	t2, exp2 := t, exp
	label := "same-text"
	switch k := r.Intn(20); {
	case k < 14:
	case k < 17: // the same arguments behind another value part
		label = "same-args"
		e := &tagExpect{val: exp.val[:len(exp.val)-8] + tagSalt(r), args: exp.args}
		t2, exp2 = e.val+t[len(exp.val):], e
	default:
		label = "other-text"
		t2, exp2 = gen()
	}
	if mode != 'a' && r.P(1, 10) { // arbitrary bytes: no own reading, the before/after comparison still applies
		label = "bytes"
		t = genBytes(r) + tagSalt(r)
		t2, exp, exp2 = t, nil, nil
	}
	ops := genTagOps(r, exp)
	tags := []string{"history", "mode-" + string(mode), label, "R" + cfg[:1]}
	direct := false
	for _, o := range ops {
		if o.kind == 'S' || o.kind == 'A' {
			direct = true
		}
	}
	if direct {
		tags = append(tags, "edits-through-Args")
	}
	runTagH(mode, cfg, t, ops, t2, exp2, tags, w)
}

func tagReplay(scn string, w *hx.Writer) {
	f := strings.Fields(scn)
	if len(f) == 3 && f[0] == "U" {
		if s, err := hx.UnHex(f[2]); err == nil {
			runTagU(f[1], s, nil, []string{"replay"}, w)
		}
		return
	}
	if len(f) == 5 && f[0] == "H" && len(f[1]) == 3 {
		t, e1 := hx.UnHex(f[2])
		ops, ok := decodeTagOps(f[3])
		t2, e2 := hx.UnHex(f[4])
		if e1 == nil && e2 == nil && ok {
			runTagH(f[1][0], f[1][1:], t, ops, t2, nil, []string{"replay"}, w)
		}
		return
	}
	if len(f) != 2 {
		return
	}
	s, err := hx.UnHex(f[1])
	if err != nil {
		return
	}
	switch f[0] {
	case "P":
		runTagP(s, nil, []string{"replay"}, w)
	case "S":
		runTagS(s, []string{"replay"}, w)
	}
}

func tagCorpus(w *hx.Writer) {
	for _, s := range []string{"", ",", "=", ",=", ",=,", "a,required=false", "a,Required=false", "a,required=true false",
		"a,required", "a,required=", "(,", "),x", "),(x", "{a,b},c={d e} f", "a,b=(c,d),e", "x,=y", "x, =y", ",,,",
		"a,\x80b=c", "a,\xc3\xa9=c", "${a:b},required=false", "#{1+2},validate=min=1 max=3", "a,b=c=d", "a,b==", "[", "]", "a,]b=[", "a,(=)"} {
		runTagP(s, nil, []string{"corpus"}, w)
		runTagS(s, []string{"corpus"}, w)
	}
	// user-defined scanners: every Required setting x every way a tag reaches NewProperty, over the forms of required-ness
	for _, s := range []string{"main", "", "main,qualifier=[x y]", "main,required", "main,Required", "main,required=true", "main,required=false",
		"main,Required=false", "main,required=", "main,required=true false", "main,qualifier=[x y],required=false", "main,required=false,required=true",
		"main, required=false", "main,required=False", "main,qualifier=required=false", "[main,required=false]", "main,required=[false]", "),required=false"} {
		for _, cfg := range []string{"00", "10", "20", "01", "11", "02", "12"} {
			runTagU(cfg, s, nil, []string{"corpus"}, w)
		}
	}
	// histories: one property relaxed / edited through Args() or SetArg, another one created from the same text
	relax := []tagOp{{kind: 'S', name: "required", items: []string{"false"}}}
	for i, h := range []struct {
		t   string
		ops []tagOp
		t2  string
	}{
		{"ledger,required=true", relax, "ledger,required=true"},
		{"mailer,required=true", []tagOp{{kind: 'A', name: "Required", items: []string{"false"}}}, "mailer,required=true"},
		{"audit,required=true", []tagOp{{kind: 's', name: "required", items: []string{"false"}}}, "audit,required=true"},
		{"clock,required=true", []tagOp{{kind: 'a', name: "required", items: []string{"false"}}}, "clock,required=true"},
		{"store", relax, "store"},
		{"queue,qualifier=[x y]", []tagOp{{kind: 'S', name: "qualifier", items: []string{"z"}}, {kind: 'A', name: "extra"}}, "queue,qualifier=[x y]"},
		{"cache,required=false", []tagOp{{kind: 'S', name: "Required", items: []string{"true"}}}, "cache,required=false"},
		{"index,required", []tagOp{{kind: 'A', name: "required", items: []string{"false"}}}, "index,required"},
		{"bus,required=true", relax, "bus2,required=true"},
		{",required=true,x=(a b) c", []tagOp{{kind: 'S', name: "x"}, {kind: 'S', name: ""}, {kind: 'A', name: "\xc3\xa9", items: []string{"", "k"}}}, ",required=true,x=(a b) c"},
	} {
		for _, mc := range []string{"d00", "s00", "s10", "s21", "t00", "t10", "t12", "a10"} {
			runTagH(mc[0], mc[1:], fmt.Sprintf("h%d%s.", i, mc)+h.t, h.ops, fmt.Sprintf("h%d%s.", i, mc)+h.t2, nil, []string{"corpus", "history"}, w)
		}
	}
}

// genReqTag: a structured tag built around the forms of required-ness the property speaks about: no required argument,
// a bare `required`, required=true, required=false (either first-letter case), next to other arguments.
func genReqTag(r *hx.Rng) (string, *tagExpect) {
	exp := &tagExpect{}
	if r.P(4, 5) {
		exp.val = genBalanced(r, 0, true)
	}
	seg := []string{exp.val}
	add := func(name string, bare bool, items ...string) {
		if bare {
			exp.args = append(exp.args, tagArg{name: name, items: []string{""}})
			seg = append(seg, name)
			return
		}
		exp.args = append(exp.args, tagArg{name: name, items: items})
		seg = append(seg, name+"="+strings.Join(items, " "))
	}
	other := func() {
		switch r.Intn(4) {
		case 0:
			add("qualifier", false, "[x y]")
		case 1:
			add([]string{"qualifier", "Qualifier"}[r.Intn(2)], false, genBalanced(r, 0, true))
		case 2:
			add(genName2(r), false, genBalanced(r, 0, true), genBalanced(r, 0, true))
		default:
			add(genName2(r), true)
		}
	}
	for n := r.Intn(3); n > 0; n-- {
		other()
	}
	req := []string{"required", "Required"}[r.Intn(2)]
	switch r.Intn(8) {
	case 0, 1, 2: // no required argument at all
	case 3:
		add(req, true)
	case 4:
		add(req, false, "true")
	case 5:
		add(req, false, "false")
	case 6:
		add(req, false, "")
	default:
		add(req, false, []string{"true", "false", "False", "no", "[false]"}[r.Intn(5)], []string{"true", "false", "FALSE"}[r.Intn(3)])
	}
	for n := r.Intn(2); n > 0; n-- {
		other()
	}
	last := map[string]int{}
	for i, a := range exp.args {
		last[upFirst(a.name)] = i
	}
	var kept []tagArg
	for i, a := range exp.args {
		if last[upFirst(a.name)] == i {
			kept = append(kept, a)
		}
	}
	exp.args = kept
	return strings.Join(seg, ","), exp
}

// genName2: an argument name that is not a spelling of `required`
func genName2(r *hx.Rng) string {
	for {
		if n := genName(r); upFirst(n) != "Required" {
			return n
		}
	}
}

const tagPlain = "abcxyzABQR019._-:$#'\""

func genAtom(r *hx.Rng, allowEq bool) string {
	n := 1 + r.Intn(4)
	var sb strings.Builder
	for i := 0; i < n; i++ {
		ch := tagPlain[r.Intn(len(tagPlain))]
		if allowEq && r.P(1, 12) {
			ch = '='
		}
		sb.WriteByte(ch)
	}
	return sb.String()
}

// genBalanced: text that is bracket balanced; commas/spaces only inside brackets when top is false
func genBalanced(r *hx.Rng, depth int, allowEq bool) string {
	var sb strings.Builder
	parts := 1 + r.Intn(2)
	for i := 0; i < parts; i++ {
		if depth < 3 && r.P(1, 3) {
			k := r.Intn(3)
			sb.WriteByte("{[("[k])
			inner := r.Intn(3)
			for j := 0; j < inner; j++ {
				if j > 0 {
					sb.WriteByte(", ="[r.Intn(4)%3+0])
				}
				sb.WriteString(genBalanced(r, depth+1, true))
			}
			sb.WriteByte("}])"[k])
		} else {
			sb.WriteString(genAtom(r, allowEq))
		}
	}
	return sb.String()
}

func genName(r *hx.Rng) string {
	if r.P(1, 3) {
		return []string{"required", "Required", "qualifier", "Qualifier", "validate", "mapper", "returns", "embed"}[r.Intn(8)]
	}
	n := 1 + r.Intn(5)
	var sb strings.Builder
	for i := 0; i < n; i++ {
		sb.WriteByte("abcdwxyzABCDWXYZ0189_-."[r.Intn(23)])
	}
	return sb.String()
}

func genStructured(r *hx.Rng) (string, *tagExpect) {
	exp := &tagExpect{}
	if r.P(4, 5) {
		exp.val = genBalanced(r, 0, true)
	}
	nargs := r.Intn(6)
	seg := []string{exp.val}
	for i := 0; i < nargs; i++ {
		a := tagArg{name: genName(r)}
		ni := 1 + r.Intn(3)
		if r.P(1, 6) {
			ni = 1
			a.items = []string{""}
		} else {
			for j := 0; j < ni; j++ {
				if a.name == "required" || a.name == "Required" {
					a.items = append(a.items, []string{"false", "true", "False", "false "}[r.Intn(3)])
				} else {
					a.items = append(a.items, genBalanced(r, 0, true))
				}
			}
		}
		exp.args = append(exp.args, a)
		seg = append(seg, a.name+"="+strings.Join(a.items, " "))
	}
	// duplicates: the last one wins (Go map); keep only the last for the expectation
	last := map[string]int{}
	for i, a := range exp.args {
		last[upFirst(a.name)] = i
	}
	var kept []tagArg
	for i, a := range exp.args {
		if last[upFirst(a.name)] == i {
			kept = append(kept, a)
		}
	}
	exp.args = kept
	return strings.Join(seg, ","), exp
}

const tagSpecial = ",=()[]{} \"'$#:"

func genBytes(r *hx.Rng) string {
	n := r.Intn(65)
	if r.P(1, 4) {
		n = r.Intn(8)
	}
	b := make([]byte, n)
	for i := range b {
		switch r.Intn(10) {
		case 0, 1, 2, 3, 4:
			b[i] = tagSpecial[r.Intn(len(tagSpecial))]
		case 5, 6, 7:
			b[i] = "abrRqQ01"[r.Intn(8)]
		case 8:
			b[i] = byte(r.Intn(256))
		default:
			b[i] = byte(32 + r.Intn(95))
		}
	}
	return string(b)
}

func tagGen(rng *hx.Rng, n int, tier string, w *hx.Writer) {
	for i := 0; i < n; i++ {
		r := rng.Fork()
		switch k := r.Intn(11); {
		case k == 10:
			cfg := string([]byte{"012"[r.Intn(3)], "012"[r.Intn(3)]})
			switch j := r.Intn(10); {
			case j < 5:
				s, exp := genReqTag(r)
				runTagU(cfg, s, exp, []string{"user-scan", "req-forms", "R" + cfg[:1]}, w)
			case j < 8:
				s, exp := genStructured(r)
				runTagU(cfg, s, exp, []string{"user-scan", "structured", "R" + cfg[:1]}, w)
			default:
				runTagU(cfg, genBytes(r), nil, []string{"user-scan", "bytes", "R" + cfg[:1]}, w)
			}
		case k < 4:
			s, exp := genStructured(r)
			tags := []string{"structured", fmt.Sprintf("args%d", len(exp.args))}
			if strings.ContainsAny(s, "([{") {
				tags = append(tags, "bracketed")
			}
			if len(exp.args) == 0 && !strings.ContainsAny(s, "([{") {
				tags = append(tags, "trivial")
			}
			runTagP(s, exp, tags, w)
		case k < 8:
			s := genBytes(r)
			tags := []string{"bytes", fmt.Sprintf("len%d", len(s)/16*16)}
			if !strings.ContainsAny(s, ",=") {
				tags = append(tags, "trivial")
			}
			runTagP(s, nil, tags, w)
		case k < 9:
			s, _ := genStructured(r)
			runTagS(s, []string{"prop-structured"}, w)
		default:
			runTagS(genBytes(r), []string{"prop-bytes"}, w)
		}
		// one case in ten is followed by a history (drawn from the case's own stream after it, so the cases above are
		// what they were before histories existed)
		if r.P(1, 10) {
			genTagH(r.Fork(), w)
		}
	}
}
