package main

// scenario generators of the `graph` sub-harness: templates with forced coverage quotas
// (cycles and their rotations, diamonds, slice fan-in, self candidates, substitution, faults,
// qualifier/primary populations with several fields per holder, by-name edges, ties).

import (
	"fmt"
	"math"
	"sort"
	"strings"

	"verifharness/internal/hx"
)

// the types the random generators draw from (later types are only added on purpose by templates; keeping the number fixed
// keeps every earlier scenario stream as it was)
const universeTypeCount = 28

// what the generator needs to know about a universe type (kept in sync with tools/gen_universe.py by gen_check below)
type utInfo struct {
	ifs               []int
	qual, lazy, prim  bool
	runner, closer    bool
	f0, f1, f2, pp    bool
}

var utInfos = []utInfo{
	{ifs: []int{0}}, {ifs: []int{0, 1}}, {ifs: []int{1}}, {ifs: []int{0}, prim: true}, {ifs: []int{0, 1}, qual: true},
	{ifs: []int{0}, lazy: true}, {ifs: []int{1, 2}, prim: true, qual: true}, {ifs: []int{2}, lazy: true, qual: true},
	{ifs: []int{0, 2}, runner: true}, {ifs: []int{0}, runner: true, closer: true}, {ifs: []int{3}, f0: true, f1: true},
	{ifs: []int{3}, qual: true, f1: true, f2: true}, {ifs: []int{0, 3}, lazy: true, f0: true}, {closer: true},
	{ifs: []int{0}, pp: true}, {ifs: []int{2}, lazy: true, runner: true}, {ifs: []int{0, 1}, f1: true}, {ifs: []int{1}, qual: true},
	{ifs: []int{0, 1}, pp: true}, {ifs: []int{1}, pp: true},
	{ifs: []int{0, 2}}, {ifs: []int{1}, qual: true}, {ifs: []int{0}, pp: true},
	{ifs: []int{1}, pp: true}, {ifs: []int{2}, pp: true}, {ifs: []int{3}, pp: true},
	{ifs: []int{0}}, {ifs: []int{0}, prim: true}, // 26, 27: the function-local twins (same package path and type name)
	{ifs: []int{0}, pp: true}, // 28: user post-processor with the Priority marker only
	{ifs: []int{1}},           // 29: the third twin (Ifc1 only)
	{ifs: []int{0}},           // 30: the holder with a second P0 / X1 pair in an embedded struct
	{ifs: []int{0, 2}, runner: true}, // 31: the fourth twin (an application runner)
	{ifs: []int{0}},                  // 32: the holder with real `func:"…"` struct tags (FQ, FS)
	{ifs: []int{0, 1}},               // 33: the holder with an embedded `*T0` that carries a real wire tag
	{ifs: []int{0, 1, 2}},            // 34: … an embedded `*T1` wired BY NAME (eptarget), required
	{ifs: []int{0}, pp: true},        // 35: ordered (20) user post-processor with slots
	{ifs: []int{0}, pp: true},        // 36: priority-ordered user post-processor that filters its argument slice in place (keeps the by-name wire points)
	{ifs: []int{2}},                  // 37: the holder with two embedded structs that each declare a tagged field `Dep`
}

var namePool = []string{"a", "b", "c", "d", "e", "f", "ga", "gz", "h", "k", "la", "lz", "m", "n", "p", "q", "s", "t", "u", "w", "x", "y", "za", "zz"}

type gBuilder struct {
	r     *hx.Rng
	sc    *gScen
	used  map[string]bool
	unnamedTy map[int]bool
}

func newBuilder(r *hx.Rng) *gBuilder {
	return &gBuilder{r: r, sc: &gScen{rankSeed: r.U64() % 1000000}, used: map[string]bool{}, unnamedTy: map[int]bool{}}
}

// addNode adds an instance of universe type ty; named unless `unnamed` is possible and requested
func (g *gBuilder) addNode(ty int, wantUnnamed bool) int {
	n := gNode{ty: ty, slots: map[string]string{}}
	if wantUnnamed && !g.unnamedTy[ty] {
		g.unnamedTy[ty] = true
	} else {
		for tries := 0; tries < 100; tries++ {
			c := namePool[g.r.Intn(len(namePool))] + fmt.Sprint(g.r.Intn(3))
			if !g.used[c] {
				g.used[c] = true
				n.cust = c
				break
			}
		}
		if n.cust == "" {
			n.cust = fmt.Sprintf("node%d", len(g.sc.nodes))
		}
	}
	if utInfos[ty].qual {
		n.q = []string{"", "a", "b", "c", "a", "A", "B"}[g.r.Intn(7)]
	}
	if utInfos[ty].f1 {
		n.r = []string{"x", "y", "z"}[g.r.Intn(3)]
	}
	n.ord = []int{-2, 0, 0, 1, 5, math.MinInt64, math.MaxInt64}[g.r.Intn(7)]
	g.sc.nodes = append(g.sc.nodes, n)
	return len(g.sc.nodes) - 1
}

func (g *gBuilder) nameOf(i int) string {
	n := g.sc.nodes[i]
	if n.cust != "" {
		return n.cust
	}
	return fmt.Sprintf("main/T%d", n.ty)
}

func (g *gBuilder) randType(pred func(utInfo) bool) int {
	for tries := 0; tries < 200; tries++ {
		t := g.r.Intn(universeTypeCount)
		if t == 14 || t == 19 || t == 23 || t == 24 || t == 25 || t == 26 || t == 27 {
			continue // the priority post-processor types are only added on purpose (at most one per scenario)
		}
		if pred == nil || pred(utInfos[t]) {
			return t
		}
	}
	return 0
}

var anySlots = []string{"A0", "A1", "A2"}

// edgeByName wires `from` to `to` through a free `any` slot (always assignable), so arbitrary digraphs can be built
func (g *gBuilder) edgeByName(from, to int, opt bool) bool {
	for _, s := range anySlots {
		if _, ok := g.sc.nodes[from].slots[s]; !ok {
			t := "w" + g.nameOf(to)
			if opt {
				t += ",required=false"
			}
			g.sc.nodes[from].slots[s] = t
			return true
		}
	}
	return false
}

func (g *gBuilder) args(ifaceSlot bool) string {
	a := ""
	switch g.r.Intn(4) { // (one draw, as before: `required=false` in one case of four)
	case 0:
		// (one time in four with a blank behind the `=`: the argument's values are then "" and "false" — still optional)
		a += []string{",required=false", ",required=false", ",required=false", ",required= false"}[len(g.sc.nodes)%4]
	case 3:
		// (tenth round) the flag spelled out: a point is required unless the argument holds "false" — the bare flag and
		// `=true` change nothing
		a += []string{",required", ",required=true"}[len(g.sc.nodes)%2]
	}
	if ifaceSlot && g.r.P(1, 3) {
		qs := []string{"a", "b", "c", "", "zz", "A", "C"}
		k := 1 + g.r.Intn(2)
		var pick []string
		for i := 0; i < k; i++ {
			pick = append(pick, qs[g.r.Intn(len(qs))])
		}
		a += ",qualifier=" + strings.Join(pick, " ")
	}
	return a
}

// randomSlots gives node i up to k typed / by-name / func slots
func (g *gBuilder) randomSlots(i int, k int) {
	typed := []string{"P0", "P1", "P4", "X0", "X0b", "X1", "X2", "X3", "S0", "S1", "S2", "SP0", "SP4", "A0", "AS0"}
	for j := 0; j < k; j++ {
		if g.r.P(1, 25) { // an array-typed point (never filled; required ⇒ the start fails): mostly optional
			if _, ok := g.sc.nodes[i].slots["RR0"]; !ok {
				g.sc.nodes[i].slots["RR0"] = "w" + []string{",required=false", ",required=false", ",required=false", ""}[g.r.Intn(4)]
			}
			continue
		}
		s := typed[g.r.Intn(len(typed))]
		for tries := 0; tries < 6 && !g.satisfiable(i, s) && g.r.P(9, 10); tries++ {
			s = typed[g.r.Intn(len(typed))]
		}
		if _, ok := g.sc.nodes[i].slots[s]; ok {
			continue
		}
		isSlice := strings.HasPrefix(s, "S") || s == "AS0"
		isIface := strings.HasPrefix(s, "X") || strings.HasPrefix(s, "S") && !strings.HasPrefix(s, "SP") || strings.HasPrefix(s, "A")
		switch c := g.r.Intn(10); {
		case c < 6: // by type
			g.sc.nodes[i].slots[s] = "w" + g.args(isIface)
		case c < 8 && !isSlice: // by name: present (maybe incompatible) or absent
			var name string
			if g.r.P(1, 5) {
				name = "nope"
				if g.r.P(1, 2) {
					// the default (type) name of some node's type: absent unless an unnamed instance of that type exists
					name = fmt.Sprintf("main/T%d", g.sc.nodes[g.r.Intn(len(g.sc.nodes))].ty)
				}
			} else {
				name = g.nameOf(g.r.Intn(len(g.sc.nodes)))
				if g.r.P(1, 8) {
					// blanks are part of a name: nothing is registered under the padded one
					name = []string{" " + name, name + " ", " " + name + " "}[g.r.Intn(3)]
				}
			}
			g.sc.nodes[i].slots[s] = "w" + name + g.args(false)
		case c < 8: // by name on a slice kind: the container ignores it (no candidates)
			g.sc.nodes[i].slots[s] = "w" + g.nameOf(g.r.Intn(len(g.sc.nodes))) + g.args(false)
		default: // func tag
			fn := []string{"F0", "F1", "F2", "F1,returns=x", "F1,returns=x y", "F1,returns=*", "F2,returns=*", "F0,returns=", "Nope",
				"F1,returns=x *", "F1,returns=y y"}[g.r.Intn(11)]
			g.sc.nodes[i].slots[s] = "f" + fn + g.args(false)
		}
	}
}

// satisfiable: is there a node other than i that the by-type slot s could receive?
func (g *gBuilder) satisfiable(i int, s string) bool {
	want := map[string]int{"P0": 0, "P1": 1, "P4": 4, "SP0": 0, "SP4": 4}
	ifc := map[string]int{"X0": 0, "X0b": 0, "X1": 1, "X2": 2, "X3": 3, "S0": 0, "S1": 1, "S2": 2}
	for j, n := range g.sc.nodes {
		if j == i {
			continue
		}
		if t, ok := want[s]; ok {
			if n.ty == t {
				return true
			}
			continue
		}
		if f, ok := ifc[s]; ok {
			for _, x := range utInfos[n.ty].ifs {
				if x == f {
					return true
				}
			}
			continue
		}
		return true // any
	}
	return false
}

func (g *gBuilder) sprinkle() {
	// substitution
	if g.r.P(1, 3) {
		k := 1 + g.r.Intn(2)
		for j := 0; j < k; j++ {
			i := g.r.Intn(len(g.sc.nodes))
			switch g.r.Intn(5) {
			case 0:
				g.sc.nodes[i].early = 1
			case 1:
				g.sc.nodes[i].after = 2
			case 2:
				g.sc.nodes[i].early, g.sc.nodes[i].after = 1, 1
			case 3:
				g.sc.nodes[i].early, g.sc.nodes[i].after = 1, 2
			default:
				g.sc.nodes[i].early, g.sc.nodes[i].after = 1, 0
			}
		}
	}
	// configuration slot
	for i := range g.sc.nodes {
		if g.r.P(1, 5) {
			g.sc.nodes[i].cfg = []int{1, 1, 3, 4, 2, 5, 6, 7}[g.r.Intn(8)]
		}
	}
	// a holder whose fields were filled by hand before the start
	if g.r.P(1, 6) {
		g.sc.prefill = append(g.sc.prefill, g.r.Intn(len(g.sc.nodes)))
	}
	// zero-size components in the population (they are candidates of every Ifc0 / any point)
	if g.r.P(1, 6) {
		g.sc.zs = []int{2, 3, 5, 5}[g.r.Intn(4)]
	}
	// faults: usually none, sometimes one, rarely two
	switch g.r.Intn(8) {
	case 0:
		g.fault()
	case 1:
		g.fault()
		if g.r.P(1, 2) {
			g.fault()
		}
	}
}

func (g *gBuilder) fault() {
	switch g.r.Intn(12) {
	case 0:
		g.sc.loaderFail = true
	case 1:
		g.sc.scanFail = true
	default:
		i := g.r.Intn(len(g.sc.nodes))
		g.sc.nodes[i].flt |= 1 << g.r.Intn(8)
	}
}

// ---- templates

func genRandom(r *hx.Rng, maxN int) *gScen {
	g := newBuilder(r)
	n := 2 + r.Intn(maxN-1)
	for i := 0; i < n; i++ {
		g.addNode(g.randType(nil), r.P(1, 3))
	}
	for i := 0; i < n; i++ {
		g.randomSlots(i, r.Intn(4))
		if r.P(1, 3) {
			g.edgeByName(i, r.Intn(n), r.P(1, 5))
		}
	}
	g.sprinkle()
	return g.sc
}

// a simple cycle of length k entered at every rotation through naming, with tails/heads and optional slice fan-in
func genCycle(r *hx.Rng, k int, extra int) *gScen {
	g := newBuilder(r)
	var cyc []int
	for i := 0; i < k; i++ {
		cyc = append(cyc, g.addNode(g.randType(func(u utInfo) bool { return !u.lazy || r.P(1, 3) }), r.P(1, 4)))
	}
	for i := 0; i < k; i++ {
		to := cyc[(i+1)%k]
		// edge kinds: by name through `any`, by interface type when unambiguous is not controllable → by name only, plus typed extras
		g.edgeByName(cyc[i], to, false)
	}
	for j := 0; j < extra; j++ {
		x := g.addNode(g.randType(nil), r.P(1, 3))
		switch r.Intn(3) {
		case 0: // tail: cycle member depends on x
			g.edgeByName(cyc[r.Intn(k)], x, false)
		case 1: // head: x depends on a cycle member
			g.edgeByName(x, cyc[r.Intn(k)], false)
		default: // slice fan-in over whatever implements Ifc0
			g.sc.nodes[x].slots["S0"] = "w"
		}
	}
	if r.P(1, 2) { // second, overlapping cycle
		a, b := cyc[r.Intn(k)], cyc[r.Intn(k)]
		g.edgeByName(a, b, false)
	}
	if r.P(1, 2) {
		i := cyc[r.Intn(k)]
		switch r.Intn(4) {
		case 0:
			g.sc.nodes[i].early = 1
		case 1:
			g.sc.nodes[i].after = 2
		case 2:
			g.sc.nodes[i].early, g.sc.nodes[i].after = 1, 1
		default:
			g.sc.nodes[i].early, g.sc.nodes[i].after = 1, 2
		}
	}
	if r.P(1, 6) {
		g.fault()
	}
	return g.sc
}

// holder(s) whose point can only be satisfied by the holder itself, or where the holder competes with others
func genSelf(r *hx.Rng) *gScen {
	g := newBuilder(r)
	h := g.addNode(g.randType(func(u utInfo) bool { return len(u.ifs) > 0 && !u.lazy }), r.P(1, 2))
	ifc := utInfos[g.sc.nodes[h].ty].ifs[0]
	slot := map[int]string{0: "X0", 1: "X1", 2: "X2", 3: "X3"}[ifc]
	sl := map[int]string{0: "S0", 1: "S1", 2: "S2", 3: "AS0"}[ifc]
	opt := ""
	if r.P(1, 3) {
		opt = ",required=false"
	}
	switch r.Intn(4) {
	case 0:
		g.sc.nodes[h].slots[slot] = "w" + opt
	case 1:
		g.sc.nodes[h].slots[sl] = "w" + opt
	case 2:
		g.sc.nodes[h].slots[slot] = "w" + g.nameOf(h) + opt
	default:
		g.sc.nodes[h].slots[slot] = "w" + opt
		g.sc.nodes[h].slots[sl] = "w" + opt
	}
	others := r.Intn(3)
	for j := 0; j < others; j++ {
		g.addNode(g.randType(func(u utInfo) bool {
			for _, x := range u.ifs {
				if x == ifc {
					return r.P(2, 3)
				}
			}
			return r.P(1, 3)
		}), r.P(1, 2))
	}
	// peers: the other implementers of the interface carry the same by-type point, so every holder is among the candidates
	// of its own point AND of its peers' points (a cycle through an interface)
	if r.P(1, 2) {
		for j := 1; j < len(g.sc.nodes); j++ {
			for _, x := range utInfos[g.sc.nodes[j].ty].ifs {
				if x == ifc && !utInfos[g.sc.nodes[j].ty].pp {
					g.sc.nodes[j].slots[slot] = "w" + opt
					if r.P(1, 3) {
						g.sc.nodes[j].slots[sl] = "w"
					}
				}
			}
		}
	}
	if r.P(1, 3) {
		g.sc.nodes[h].early = 1
		if r.P(1, 2) {
			g.sc.nodes[h].after = 2
		}
	}
	return g.sc
}

// provider populations with qualifier/primary/custom attributes and holders with several fields
func genMatch(r *hx.Rng) *gScen {
	g := newBuilder(r)
	np := 2 + r.Intn(5)
	for i := 0; i < np; i++ {
		g.addNode(g.randType(func(u utInfo) bool { return len(u.ifs) > 0 }), r.P(1, 3))
	}
	nh := 1 + r.Intn(2)
	for j := 0; j < nh; j++ {
		h := g.addNode(g.randType(nil), r.P(1, 3))
		if r.P(1, 2) { // an optional point without candidates placed first (field order = slotNames order)
			g.sc.nodes[h].slots["P4"] = "wnope,required=false"
			if r.P(1, 2) {
				g.sc.nodes[h].slots["P4"] = "w,qualifier=zz,required=false"
			}
		}
		g.randomSlots(h, 1+r.Intn(4))
		if r.P(1, 3) {
			g.sc.nodes[h].slots["S0"] = "w"
		}
	}
	if r.P(1, 3) {
		g.sc.zs = []int{2, 3, 5, 5}[r.Intn(4)]
	}
	if r.P(1, 4) {
		g.sc.prefill = append(g.sc.prefill, len(g.sc.nodes)-1)
	}
	if r.P(1, 8) {
		g.fault()
	}
	return g.sc
}

// a cycle that closes through a multi-valued point: a → b by name, b → []I by type with a among several implementers;
// a (sometimes another member) is substituted, so the stale-version check has to see a holder that received the
// early reference as a NON-first, non-last slice element
func genSliceCycle(r *hx.Rng) *gScen {
	g := newBuilder(r)
	ifc := r.Intn(3) // Ifc0..Ifc2 have slice slots S0..S2
	has := func(u utInfo) bool {
		for _, x := range u.ifs {
			if x == ifc {
				return !u.pp
			}
		}
		return false
	}
	a := g.addNode(g.randType(func(u utInfo) bool { return has(u) && !u.lazy }), r.P(1, 4))
	b := g.addNode(g.randType(func(u utInfo) bool { return !u.pp }), r.P(1, 4))
	g.edgeByName(a, b, false)
	g.sc.nodes[b].slots[[]string{"S0", "S1", "S2"}[ifc]] = "w"
	others := 1 + r.Intn(3)
	for j := 0; j < others; j++ {
		x := g.addNode(g.randType(has), r.P(1, 3))
		if r.P(1, 3) {
			g.edgeByName(x, b, r.P(1, 3))
		}
	}
	switch r.Intn(6) {
	case 0:
	case 1:
		g.sc.nodes[a].early = 1
	case 2, 3:
		g.sc.nodes[a].after = 2
	case 4:
		g.sc.nodes[a].early, g.sc.nodes[a].after = 1, 2
	default:
		g.sc.nodes[a].early, g.sc.nodes[a].after = 1, 1
	}
	if r.P(1, 4) {
		x := r.Intn(len(g.sc.nodes))
		g.sc.nodes[x].after = 2
	}
	return g.sc
}

// sibling single-valued points of the SAME type on one holder: a qualified one first (narrowed to several non-primary
// candidates), then an unqualified one for which a unique Primary (or a unique unnamed component) exists
func genSiblings(r *hx.Rng) *gScen {
	g := newBuilder(r)
	// Ifc0 implementers: T4 (qualifier, no primary) twice with the same qualifier, T3 (Primary), T0/T1 (plain)
	q := []string{"a", "b"}[r.Intn(2)]
	for i := 0; i < 2+r.Intn(2); i++ {
		x := g.addNode(4, false)
		g.sc.nodes[x].q = q
	}
	if r.P(2, 3) {
		g.addNode(3, r.P(1, 2)) // the unique Primary
	} else {
		g.addNode(0, true) // the unique unnamed one
	}
	if r.P(1, 2) {
		g.addNode(1, false)
	}
	nh := 1 + r.Intn(2)
	for j := 0; j < nh; j++ {
		h := g.addNode(g.randType(func(u utInfo) bool { return !u.pp && !u.lazy }), r.P(1, 3))
		g.sc.nodes[h].slots["X0"] = "w,qualifier=" + q
		g.sc.nodes[h].slots["X0b"] = "w"
		if r.P(1, 2) {
			g.sc.nodes[h].slots["S0"] = "w"
		}
		if r.P(1, 3) {
			g.sc.nodes[h].slots["X1"] = "w,qualifier=" + q
		}
	}
	return g.sc
}

// user post-processors that are legal but unusual: T23 sorts between discovery and narrowing and answers false to
// PostProcessAfterInstantiation for everybody (only its OWN PostProcessProperties is skipped by that); T24 filters its argument
// slice in place (harmless while every processor is handed its own slice). Holders have configuration values and several
// wire points with Primary / unnamed / qualifier preferences.
func genOddProcessors(r *hx.Rng) *gScen {
	g := newBuilder(r)
	if r.P(2, 3) {
		g.addNode(23, true)
	}
	if r.P(2, 3) {
		g.addNode(24, true)
	}
	np := 3 + r.Intn(4)
	for i := 0; i < np; i++ {
		g.addNode(g.randType(func(u utInfo) bool { return len(u.ifs) > 0 && !u.pp }), r.P(1, 3))
	}
	nh := 1 + r.Intn(2)
	for j := 0; j < nh; j++ {
		h := g.addNode(g.randType(func(u utInfo) bool { return !u.pp }), r.P(1, 3))
		g.sc.nodes[h].cfg = 1
		g.randomSlots(h, 2+r.Intn(3))
		if r.P(1, 2) {
			g.sc.nodes[h].slots["S0"] = "w"
		}
		if r.P(1, 2) {
			g.sc.nodes[h].slots["X0"] = "w"
		}
	}
	return g.sc
}

// holders whose unqualified wire points are qualified IN CODE by a user processor (T25, ordered before narrowing) — over
// providers with and without matching qualifiers
func genProgQualified(r *hx.Rng) *gScen {
	g := newBuilder(r)
	g.addNode(25, true)
	np := 3 + r.Intn(4)
	for i := 0; i < np; i++ {
		g.addNode(g.randType(func(u utInfo) bool { return len(u.ifs) > 0 && !u.pp && (u.qual || r.P(1, 3)) }), r.P(1, 3))
	}
	nh := 1 + r.Intn(2)
	for j := 0; j < nh; j++ {
		h := g.addNode(g.randType(func(u utInfo) bool { return !u.pp }), r.P(1, 3))
		g.sc.nodes[h].progQ = []string{"a", "b", "c", "zz"}[r.Intn(4)]
		for _, sl := range []string{"S0", "S1", "S2", "X0", "X1", "X2"} {
			if r.P(1, 2) {
				g.sc.nodes[h].slots[sl] = "w" + []string{"", ",required=false"}[r.Intn(2)]
			}
		}
		if len(g.sc.nodes[h].slots) == 0 {
			g.sc.nodes[h].slots["S1"] = "w,required=false"
		}
	}
	return g.sc
}

// a two-cycle hub ⇄ peer next to a DENSE layered acyclic region (every component of layer i wires all three of layer i+1):
// 3·depth + 2 components, each created once — but 3^depth different paths lead through the region
func genLadder(r *hx.Rng, depth int) *gScen {
	g := newBuilder(r)
	plain := func(u utInfo) bool { return !u.pp && !u.lazy && !u.runner && !u.closer }
	hub := g.addNode(g.randType(plain), true)
	peer := g.addNode(g.randType(plain), true)
	g.sc.nodes[hub].cust, g.sc.nodes[peer].cust = "a-hub", "b-peer"
	layer := func(i, j int) string { return fmt.Sprintf("l%02d-%d", i, j) }
	for i := 0; i < depth; i++ {
		for j := 0; j < 3; j++ {
			n := g.addNode(g.randType(plain), true)
			g.sc.nodes[n].cust = layer(i, j)
			if i+1 < depth {
				g.sc.nodes[n].slots["A0"] = "w" + layer(i+1, 0)
				g.sc.nodes[n].slots["A1"] = "w" + layer(i+1, 1)
				g.sc.nodes[n].slots["A2"] = "w" + layer(i+1, 2)
			}
		}
	}
	g.sc.nodes[hub].slots["A0"] = "w" + layer(0, 0) // declared before the point that closes the cycle
	g.sc.nodes[hub].slots["A1"] = "wb-peer"
	g.sc.nodes[peer].slots["A0"] = "wa-hub"
	g.sc.nodes[peer].slots["A1"] = "w" + layer(0, 1)
	return g.sc
}

// configuration sections bound by prefix that nobody configured: optional ones (fine) and required ones (the start fails),
// on one holder and spread over holders whose names sort in both orders
func genAbsentPrefix(r *hx.Rng) *gScen {
	g := newBuilder(r)
	plain := func(u utInfo) bool { return !u.pp && !u.lazy }
	a := g.addNode(g.randType(plain), true)
	b := g.addNode(g.randType(plain), true)
	g.sc.nodes[a].cust, g.sc.nodes[b].cust = "a-first", "b-second"
	switch r.Intn(5) {
	case 0:
		g.sc.nodes[a].cfg, g.sc.nodes[b].cfg = 5, 6 // the optional one is processed first
	case 1:
		g.sc.nodes[a].cfg, g.sc.nodes[b].cfg = 6, 5
	case 2:
		g.sc.nodes[a].cfg = 7
	case 3:
		g.sc.nodes[a].cfg, g.sc.nodes[b].cfg = 5, 5
	default:
		g.sc.nodes[a].cfg, g.sc.nodes[b].cfg = 5, 7
	}
	if r.P(1, 2) {
		g.randomSlots(a, 1+r.Intn(2))
	}
	return g.sc
}

// the function-local twins (two different Go types printing the same package path and name), one Primary and one not, as
// candidates of single-valued and slice points; both always custom-named (their default names would collide)
func genTwins(r *hx.Rng) *gScen {
	g := newBuilder(r)
	order := r.Intn(2)
	var a, b int
	if order == 0 {
		a, b = g.addNode(26, false), g.addNode(27, false)
	} else {
		b, a = g.addNode(27, false), g.addNode(26, false)
	}
	_, _ = a, b
	for i := 0; i < r.Intn(3); i++ {
		g.addNode(g.randType(func(u utInfo) bool { return len(u.ifs) > 0 && !u.pp && !u.prim }), true)
	}
	nh := 1 + r.Intn(2)
	for j := 0; j < nh; j++ {
		h := g.addNode(g.randType(func(u utInfo) bool { return !u.pp }), r.P(1, 2))
		g.sc.nodes[h].slots["X0"] = "w"
		if r.P(1, 2) {
			g.sc.nodes[h].slots["S0"] = "w"
		}
		if r.P(1, 3) {
			g.sc.nodes[h].slots["X0b"] = "w" + g.nameOf(a)
		}
	}
	return g.sc
}

// every point optional: qualifiers that match nothing although candidates of the type exist, names that are absent or of
// another type, func tags nobody exposes, self-only points, array points — none of it may fail the start
func genAllOptional(r *hx.Rng) *gScen {
	g := newBuilder(r)
	np := 2 + r.Intn(4)
	for i := 0; i < np; i++ {
		g.addNode(g.randType(func(u utInfo) bool { return len(u.ifs) > 0 && !u.pp }), r.P(1, 3))
	}
	nh := 1 + r.Intn(3)
	for j := 0; j < nh; j++ {
		h := g.addNode(g.randType(func(u utInfo) bool { return !u.pp }), r.P(1, 3))
		k := 1 + r.Intn(4)
		slots := []string{"P0", "P1", "P4", "X0", "X0b", "X1", "X2", "S0", "S1", "S2", "SP0", "A0", "A1", "AS0", "RR0"}
		for i := 0; i < k; i++ {
			s := slots[r.Intn(len(slots))]
			var t string
			switch r.Intn(6) {
			case 0:
				t = "w,qualifier=" + []string{"zz", "nope", "a b", "Q"}[r.Intn(4)]
			case 1:
				t = "w" + []string{"absent", "main/T0", g.nameOf(r.Intn(np))}[r.Intn(3)]
			case 2:
				t = "f" + []string{"Nope", "F1,returns=none", "F2"}[r.Intn(3)]
			case 3:
				t = "w,qualifier=zz"
			default:
				t = "w"
			}
			g.sc.nodes[h].slots[s] = t + ",required=false"
		}
	}
	return g.sc
}

// a lazy holder whose FIRST creation fails (Init fails once) and which nobody needs during the start: after Run it is looked
// up until a retried creation succeeds. Its points — slices, single values, by name — must then hold what a first-time
// population would have given them (the property nodes of the definition survive the failed attempt).
func genRetry(r *hx.Rng) *gScen {
	g := newBuilder(r)
	np := 2 + r.Intn(4)
	for i := 0; i < np; i++ {
		g.addNode(g.randType(func(u utInfo) bool { return len(u.ifs) > 0 && !u.pp && !u.lazy && !u.runner }), r.P(1, 3))
	}
	nh := 1 + r.Intn(2)
	for j := 0; j < nh; j++ {
		h := g.addNode([]int{5, 7, 12}[r.Intn(3)], r.P(1, 2))
		g.sc.nodes[h].flt = fltInitOnce
		g.sc.nodes[h].slots["S0"] = "w"
		if r.P(1, 2) {
			g.sc.nodes[h].slots["S1"] = "w" + []string{"", ",required=false"}[r.Intn(2)]
		}
		if r.P(1, 2) {
			g.sc.nodes[h].slots["X0"] = "w"
		}
		if r.P(1, 2) {
			g.sc.nodes[h].slots["A0"] = "w" + g.nameOf(r.Intn(np))
		}
		if r.P(1, 3) {
			g.sc.nodes[h].slots["AS0"] = "fF1,returns=*,required=false"
		}
		if r.P(1, 3) {
			g.randomSlots(h, 1+r.Intn(2))
		}
	}
	return g.sc
}

// a cycle that would close ONLY through an array-typed point: a → b by name, b has an optional `[2]Ifc0` point; a is
// substituted after initialization (sometimes early as well). The container leaves arrays alone, so nobody holds an early
// reference of a and the start succeeds with b's array empty.
func genArrayCycle(r *hx.Rng) *gScen {
	g := newBuilder(r)
	a := g.addNode(g.randType(func(u utInfo) bool {
		for _, x := range u.ifs {
			if x == 0 {
				return !u.pp && !u.lazy && !u.runner
			}
		}
		return false
	}), r.P(1, 3))
	b := g.addNode(g.randType(func(u utInfo) bool { return !u.pp && !u.lazy }), r.P(1, 3))
	g.edgeByName(a, b, false)
	g.sc.nodes[b].slots["RR0"] = "w,required=false"
	switch r.Intn(3) {
	case 0:
		g.sc.nodes[a].after = 2
	case 1:
		g.sc.nodes[a].early, g.sc.nodes[a].after = 1, 2
	}
	if r.P(1, 2) {
		g.addNode(g.randType(func(u utInfo) bool { return len(u.ifs) > 0 && !u.pp }), r.P(1, 3))
	}
	return g.sc
}

// several func-tag points with `returns` on ONE holder, over providers that expose the methods with different results
func genFunc(r *hx.Rng) *gScen {
	g := newBuilder(r)
	for _, ty := range []int{10, 11, 12, 16} {
		if r.P(3, 4) {
			g.addNode(ty, r.P(1, 2))
		}
		if r.P(1, 3) {
			g.addNode(ty, false)
		}
	}
	if len(g.sc.nodes) == 0 {
		g.addNode(10, true)
	}
	nh := 1 + r.Intn(2)
	// overlapping alternatives (`x *`, `x x`, `* y`): a provider that satisfies several of them is still ONE candidate
	tags := []string{"F1,returns=x", "F1,returns=y", "F1,returns=z", "F1,returns=x y", "F1,returns=*", "F0", "F0,returns=", "F2", "F2,returns=*", "F1",
		"F1,returns=x *", "F1,returns=x x", "F1,returns=* y", "F1,returns=y x *"}
	slots := []string{"X3", "A0", "A1", "A2", "AS0", "X0", "X1", "S0", "S1"}
	for j := 0; j < nh; j++ {
		h := g.addNode(g.randType(func(u utInfo) bool { return !u.pp }), r.P(1, 3))
		k := 2 + r.Intn(3)
		for i := 0; i < k; i++ {
			s := slots[r.Intn(len(slots))]
			if _, ok := g.sc.nodes[h].slots[s]; ok {
				continue
			}
			t := "f" + tags[r.Intn(len(tags))]
			if r.P(1, 2) {
				t += ",required=false"
			}
			g.sc.nodes[h].slots[s] = t
		}
	}
	return g.sc
}

// diamond: top depends on l and r, both depend on bottom; optionally bottom depends back on top (cycle with tails)
// a component X that a post-processor replaces — early AND after initialization, by the same object — with a substitute
// of ANOTHER Go type (FW: implements Ifc0 and Ifc1 only). Holders reach X by name and by type through pointer, interface,
// slice and `any` fields, required and optional, with and without a cycle back from X.
func genForeign(r *hx.Rng) *gScen {
	return genForeignP(r, r.Intn(5), r.Intn(4), -1)
}

// genForeignP: xti = which substituted type, fnMode = which substitute, holderCase = -1 (random per holder) or the forced
// shape of every holder's point (the corpus enumerates them)
func genForeignP(r *hx.Rng, xti, fnMode, holderCase int) *gScen {
	g := newBuilder(r)
	xt := []int{0, 1, 4, 16, 3}[xti] // T0, T1, T4 (the pointer-slot types), T16, T3: all implement Ifc0
	x := g.addNode(xt, r.P(1, 3))
	g.sc.nodes[x].early, g.sc.nodes[x].after = foreignVer, foreignVer
	// fnMode 1: func-kinded substitute at both timings, two different closures; 2: the same one; 0, 3: a struct of another type
	switch fnMode {
	case 1:
		g.sc.nodes[x].early, g.sc.nodes[x].after = fnVer, fnVer+1
	case 2:
		g.sc.nodes[x].early, g.sc.nodes[x].after = fnVer, fnVer
	}
	nh := 1 + r.Intn(3)
	ptrSlot := map[int]string{0: "P0", 1: "P1", 4: "P4"}
	for j := 0; j < nh; j++ {
		h := g.addNode(g.randType(func(u utInfo) bool { return !u.pp }), r.P(1, 3))
		opt := ""
		if r.P(1, 2) {
			opt = ",required=false"
		}
		hc := holderCase
		if hc < 0 {
			hc = r.Intn(6)
		}
		switch hc {
		case 0: // *T by name
			if s, ok := ptrSlot[xt]; ok {
				g.sc.nodes[h].slots[s] = "w" + g.nameOf(x) + opt
			} else {
				g.sc.nodes[h].slots["X0"] = "w" + g.nameOf(x) + opt
			}
		case 1: // *T by type
			if s, ok := ptrSlot[xt]; ok {
				g.sc.nodes[h].slots[s] = "w" + opt
			} else {
				g.sc.nodes[h].slots["S0"] = "w" + opt
			}
		case 2: // interface by name (FW implements it)
			g.sc.nodes[h].slots["X0"] = "w" + g.nameOf(x) + opt
		case 3: // slice of pointers / of interfaces by type
			if xt == 0 {
				g.sc.nodes[h].slots["SP0"] = "w" + opt
			} else if xt == 4 {
				g.sc.nodes[h].slots["SP4"] = "w" + opt
			}
			g.sc.nodes[h].slots["S0"] = "w" + opt
		case 4: // any by name
			g.sc.nodes[h].slots["A0"] = "w" + g.nameOf(x) + opt
		default:
			g.randomSlots(h, 1+r.Intn(3))
			g.sc.nodes[h].slots["X0b"] = "w" + g.nameOf(x) + opt
		}
		if r.P(1, 2) || fnMode == 1 { // close a cycle X -> h
			g.edgeByName(x, h, r.P(1, 4))
		}
	}
	if r.P(1, 10) {
		g.fault()
	}
	return g.sc
}

// a callback that re-enters the container: G's Init fetches the lazy P by name from the factory; P is wired back to G.
// With a substituting post-processor on G the early reference is requested DURING G's initialization, not during its
// population. Oracle-only (the machine model has no re-entrant callbacks): identity / version oracles c01-*, c03-stale.
func genReentrant(r *hx.Rng) *gScen {
	g := newBuilder(r)
	gt := g.randType(func(u utInfo) bool { return !u.pp && !u.lazy && len(u.ifs) > 0 })
	x := g.addNode(gt, false)
	lazyTypes := []int{5, 7, 12}
	p := g.addNode(lazyTypes[r.Intn(len(lazyTypes))], false)
	g.sc.nodes[x].fetch = g.nameOf(p)
	if r.P(1, 3) {
		// P does not wire G but looks it up by name from its own Init — while G is still in creation
		g.sc.nodes[p].fetch = g.nameOf(x)
	} else {
		g.sc.nodes[p].slots["A0"] = "w" + g.nameOf(x)
	}
	switch r.Intn(7) {
	case 0, 1, 2, 3:
		g.sc.nodes[x].early = 1
	case 4:
		g.sc.nodes[x].early, g.sc.nodes[x].after = 1, 2
	case 5:
		g.sc.nodes[x].early, g.sc.nodes[x].after = 1, 1
	default:
		g.sc.nodes[x].after = 2
	}
	if r.P(1, 2) { // somebody else who wants G as well
		h := g.addNode(g.randType(func(u utInfo) bool { return !u.pp }), r.P(1, 2))
		g.edgeByName(h, x, false)
		if r.P(1, 2) {
			g.edgeByName(h, p, false)
		}
	}
	return g.sc
}

// a LAZY cycle entered by a lookup after the start: H (substituted early and again after initialization — or only one of the
// two) and its partner P, whose Init fails the first time. H is looked up until it is created.
func genRetryCycle(r *hx.Rng, mode int) *gScen {
	g := newBuilder(r)
	h := g.addNode([]int{5, 7, 12}[r.Intn(3)], true)
	p := g.addNode([]int{5, 7, 12}[r.Intn(3)], true)
	g.sc.nodes[h].cust, g.sc.nodes[p].cust = "a-h", "b-p"
	g.sc.nodes[h].slots["A0"] = "wb-p"
	g.sc.nodes[p].slots["A0"] = "wa-h"
	g.sc.nodes[h].flt = fltLookup
	g.sc.nodes[p].flt = fltInitOnce
	switch mode {
	case 0:
		g.sc.nodes[h].early, g.sc.nodes[h].after = 1, 2 // the known finding's shape
	case 1:
		g.sc.nodes[h].early = 1
	case 2:
		g.sc.nodes[h].early, g.sc.nodes[h].after = 1, 1
	case 3:
		g.sc.nodes[h].after = 2
	case 5: // H itself fails the first time, AFTER P was completed with H's early version
		g.sc.nodes[h].early = 1
		g.sc.nodes[h].flt = fltLookup | fltInitOnce
		g.sc.nodes[p].flt = 0
	}
	if r.P(1, 2) {
		g.addNode(g.randType(func(u utInfo) bool { return len(u.ifs) > 0 && !u.pp && !u.lazy && !u.runner }), r.P(1, 3))
	}
	return g.sc
}

// a component G on a cycle with a partner (the partner receives G's early reference — a substitute) whose Init looks up an
// OPTIONAL lazy collaborator that fails to start and absorbs the error: G's own creation goes on and must publish the very
// version its partner was handed
func genTolerated(r *hx.Rng) *gScen {
	g := newBuilder(r)
	x := g.addNode(g.randType(func(u utInfo) bool { return !u.pp && !u.lazy && len(u.ifs) > 0 }), true)
	p := g.addNode(g.randType(func(u utInfo) bool { return !u.pp && !u.lazy }), true)
	lz := g.addNode([]int{5, 7, 12}[r.Intn(3)], true)
	g.sc.nodes[lz].flt = []int{fltInit, fltAPS, fltBefore}[r.Intn(3)]
	// x is created first (name order): force names
	g.sc.nodes[x].cust, g.sc.nodes[p].cust, g.sc.nodes[lz].cust = "a-x", "b-p", "c-lz"
	g.edgeByName(x, p, false)
	g.edgeByName(p, x, false)
	g.sc.nodes[x].fetch = "~c-lz"
	switch r.Intn(4) {
	case 0, 1:
		g.sc.nodes[x].early = 1
	case 2:
		g.sc.nodes[x].early, g.sc.nodes[x].after = 1, 1
	}
	if r.P(1, 2) { // a late holder of x
		h := g.addNode(g.randType(func(u utInfo) bool { return !u.pp && !u.lazy }), true)
		g.sc.nodes[h].cust = "d-h"
		g.edgeByName(h, x, false)
	}
	return g.sc
}

// many components and a definition scanner that fails for every one of them (more failures than any worker pool has slots)
func genBigScan(r *hx.Rng) *gScen {
	g := newBuilder(r)
	n := 34 + r.Intn(14)
	for i := 0; i < n; i++ {
		g.addNode(g.randType(func(u utInfo) bool { return !u.pp }), false)
	}
	g.sc.scanFail = r.P(3, 4)
	return g.sc
}

// a healthy little graph in which ONE by-name point asks for a name that differs from a registered one only by blanks
// (names are compared verbatim: nothing is registered under the padded name)
func genPadded(r *hx.Rng) *gScen {
	g := newBuilder(r)
	x := g.addNode(g.randType(func(u utInfo) bool { return !u.pp && len(u.ifs) > 0 }), r.P(1, 4))
	h := g.addNode(g.randType(func(u utInfo) bool { return !u.pp }), r.P(1, 3))
	name := g.nameOf(x)
	padded := []string{" " + name, name + " ", " " + name + " ", "  " + name}[r.Intn(4)]
	opt := ""
	if r.P(1, 2) {
		opt = ",required=false"
	}
	g.sc.nodes[h].slots[[]string{"A0", "A1", "X0"}[r.Intn(3)]] = "w" + padded + opt
	if r.P(1, 2) { // and a correct edge next to it
		g.sc.nodes[h].slots["A2"] = "w" + name
	}
	if r.P(1, 3) {
		k := g.addNode(g.randType(func(u utInfo) bool { return !u.pp }), false)
		g.edgeByName(k, h, false)
	}
	return g.sc
}

func genDiamond(r *hx.Rng) *gScen {
	g := newBuilder(r)
	top := g.addNode(g.randType(func(u utInfo) bool { return !u.lazy }), false)
	l := g.addNode(g.randType(nil), r.P(1, 3))
	rr := g.addNode(g.randType(nil), r.P(1, 3))
	bot := g.addNode(g.randType(nil), r.P(1, 3))
	g.edgeByName(top, l, false)
	g.edgeByName(top, rr, false)
	g.edgeByName(l, bot, false)
	g.edgeByName(rr, bot, false)
	if r.P(1, 3) {
		g.edgeByName(bot, top, false)
	}
	if r.P(1, 3) {
		g.sc.nodes[bot].after = 2
	}
	if r.P(1, 3) {
		g.sc.nodes[bot].early = 1
	}
	if r.P(1, 5) {
		g.fault()
	}
	return g.sc
}

// the priority-ordered user post-processor with an injection point (finding D8)
func genD8(r *hx.Rng) *gScen {
	g := newBuilder(r)
	ppType := 14
	if r.P(1, 3) {
		ppType = 19
	}
	p := g.addNode(ppType, r.P(1, 2))
	d := g.addNode(0, true)
	_ = d
	g.sc.nodes[p].slots["P0"] = "w"
	if r.P(1, 2) {
		g.sc.nodes[p].slots["P0"] = "w,required=false"
	}
	if r.P(1, 2) {
		q := g.addNode(18, r.P(1, 2))
		g.sc.nodes[q].slots["P0"] = "w"
		g.randomSlots(q, r.Intn(2))
	}
	for i := 0; i < r.Intn(3); i++ {
		x := g.addNode(g.randType(nil), r.P(1, 3))
		g.randomSlots(x, r.Intn(3))
	}
	if r.P(1, 4) {
		g.sprinkle()
	}
	return g.sc
}

// every single place where something can fail, one at a time, on a small base scenario
func genFaultSweep(r *hx.Rng) []*gScen {
	base := genCycle(r.Fork(), 2+r.Intn(2), 2)
	for i := range base.nodes {
		base.nodes[i].flt = 0
		base.nodes[i].early, base.nodes[i].after = 0, 0
	}
	base.loaderFail, base.scanFail = false, false
	var out []*gScen
	cp := func() *gScen {
		c := &gScen{rankSeed: base.rankSeed}
		for _, n := range base.nodes {
			m := n
			m.slots = map[string]string{}
			for k, v := range n.slots {
				m.slots[k] = v
			}
			c.nodes = append(c.nodes, m)
		}
		return c
	}
	for i := range base.nodes {
		for bit := 0; bit < 8; bit++ {
			c := cp()
			c.nodes[i].flt = 1 << bit
			out = append(out, c)
		}
		c := cp()
		c.nodes[i].cfg = 2
		out = append(out, c)
		c = cp()
		c.nodes[i].cfg = 3
		out = append(out, c)
		c = cp()
		c.nodes[i].slots["P4"] = "wnope"
		out = append(out, c)
		c = cp()
		c.nodes[i].slots["P4"] = "wnope,required=false"
		out = append(out, c)
	}
	c := cp()
	c.loaderFail = true
	out = append(out, c)
	c = cp()
	c.scanFail = true
	out = append(out, c)
	return out
}

func graphCorpus(w *hx.Writer) {
	// hand-written witnesses: 2-cycle, self-only required/optional, by-name wrong type, D8 representative
	r := hx.NewRng(424242)
	emitGraph(genCycle(r.Fork(), 2, 0), []string{"corpus", "cycle"}, w)
	emitGraph(genCycle(r.Fork(), 3, 2), []string{"corpus", "cycle"}, w)
	emitGraph(genSelf(r.Fork()), []string{"corpus", "self"}, w)
	emitGraph(genD8(r.Fork()), []string{"corpus", "d8"}, w)
	emitGraph(genDiamond(r.Fork()), []string{"corpus", "diamond"}, w)
	// template sweep, independent of the run's seed: the rare templates are present in EVERY run in all their shapes
	for xti := 0; xti < 5; xti++ {
		for mode := 0; mode < 3; mode++ {
			for hc := 0; hc < 6; hc++ {
				emitGraph(genForeignP(r.Fork(), xti, mode, hc), []string{"corpus", "foreign"}, w)
			}
		}
	}
	emitGraph(genLadder(r.Fork(), 22), []string{"corpus", "ladder"}, w)
	emitGraph(genLadder(r.Fork(), 30), []string{"corpus", "ladder"}, w)
	for i := 0; i < 24; i++ {
		emitGraph(genRetry(r.Fork()), []string{"corpus", "retry"}, w)
		emitGraph(genReentrant(r.Fork()), []string{"corpus", "reentrant"}, w)
		emitGraph(genFunc(r.Fork()), []string{"corpus", "func"}, w)
		emitGraph(genPadded(r.Fork()), []string{"corpus", "padded"}, w)
		emitGraph(genMatch(r.Fork()), []string{"corpus", "match"}, w)
		emitGraph(genSliceCycle(r.Fork()), []string{"corpus", "slicecycle"}, w)
		emitGraph(genSelf(r.Fork()), []string{"corpus", "self"}, w)
		emitGraph(genArrayCycle(r.Fork()), []string{"corpus", "arraycycle"}, w)
		emitGraph(genAllOptional(r.Fork()), []string{"corpus", "alloptional"}, w)
		if i < 8 {
			emitGraph(genTwins(r.Fork()), []string{"corpus", "twins"}, w)
		}
		if i < 10 {
			emitGraph(genAbsentPrefix(r.Fork()), []string{"corpus", "absentprefix"}, w)
		}
		emitGraph(genOddProcessors(r.Fork()), []string{"corpus", "oddpp"}, w)
		emitGraph(genProgQualified(r.Fork()), []string{"corpus", "progq"}, w)
		if i < 12 {
			emitGraph(genTolerated(r.Fork()), []string{"corpus", "tolerated"}, w)
			emitGraph(genRetryCycle(r.Fork(), i%6), []string{"corpus", "retrycycle"}, w)
		}
	}
	graphCorpus7(r, w, 12, "corpus")
	graphCorpus8(r, w, 10, "corpus")
	emitGraph(genHugeScan(r.Fork()), []string{"corpus", "hugescan"}, w)
	graphCorpus9(r.Fork(), w, 8, "corpus")
}

// ---- seventh round

// a user post-processor that carries the Priority MARKER but has no Order(): it is not Ordered, so it belongs to the
// unordered processors (created in the boot phase after every ordered one, fully wired and configured)
func genMarkerOnly(r *hx.Rng) *gScen {
	g := newBuilder(r)
	np := 2 + r.Intn(3)
	for i := 0; i < np; i++ {
		g.addNode(g.randType(func(u utInfo) bool { return len(u.ifs) > 0 && !u.pp && !u.lazy }), r.P(1, 2))
	}
	p := g.addNode(28, r.P(1, 2))
	g.sc.nodes[p].slots["X0"] = "w" + []string{"", ",required=false"}[r.Intn(2)]
	if r.P(1, 2) {
		g.sc.nodes[p].slots["S0"] = "w"
	}
	if r.P(1, 2) {
		g.sc.nodes[p].slots["A0"] = "w" + g.nameOf(r.Intn(np))
	}
	g.sc.nodes[p].cfg = []int{0, 1, 8, 9}[r.Intn(4)]
	if r.P(1, 2) { // an ordered one between the built-ins and the harness's own: wired and configured like any component
		q := g.addNode(35, r.P(1, 2))
		g.sc.nodes[q].slots["X0"] = "w"
		g.sc.nodes[q].slots["S0"] = "w" + []string{"", ",required=false"}[r.Intn(2)]
		g.sc.nodes[q].cfg = []int{0, 1, 8}[r.Intn(3)]
	}
	switch r.Intn(4) {
	case 0:
		g.addNode(14, r.P(1, 2)) // next to a priority-ORDERED one
	case 1:
		g.addNode(22, r.P(1, 2)) // next to an ordered one
	case 2:
		g.addNode(18, r.P(1, 2)) // next to a plain one
	}
	h := g.addNode(g.randType(func(u utInfo) bool { return !u.pp }), r.P(1, 2))
	g.randomSlots(h, 1+r.Intn(3))
	return g.sc
}

// a holder with TWO injection points of the same Go field name (one in an embedded struct next to Base) and the same tag
func genSameName(r *hx.Rng) *gScen {
	g := newBuilder(r)
	t0 := g.addNode(0, r.P(1, 2))
	g.addNode([]int{1, 2, 4, 17}[r.Intn(4)], r.P(1, 2))
	if r.P(1, 2) {
		g.addNode([]int{1, 2}[r.Intn(2)], false)
	}
	h := g.addNode(30, r.P(1, 2))
	switch r.Intn(4) {
	case 0:
		g.sc.nodes[h].slots["P0"] = "w"
	case 1:
		g.sc.nodes[h].slots["P0"] = "w" + g.nameOf(t0)
	case 2:
		g.sc.nodes[h].slots["P0"] = "w,required=false"
	default:
		g.sc.nodes[h].slots["P0"] = "w"
		g.sc.nodes[h].slots["X1"] = "w" + []string{"", ",required=false", ",qualifier=a"}[r.Intn(3)]
	}
	if r.P(1, 3) {
		g.sc.nodes[h].slots["X1"] = "w" + g.nameOf(1)
	}
	if r.P(1, 3) { // a cycle back through the holder
		g.edgeByName(t0, h, false)
	}
	if r.P(1, 3) {
		g.sc.nodes[t0].early, g.sc.nodes[t0].after = 1, 1
	}
	return g.sc
}

// func-tagged points WITH a qualifier (the interface-typed slot X3: T10, T11, T12 implement Ifc3 and have F1 / F0): two T11
// with different qualifier values and an unqualified T10 are candidates of the method; the qualifier picks one
func genFuncQualified(r *hx.Rng) *gScen {
	g := newBuilder(r)
	a := g.addNode(11, r.P(1, 2)) // F1, F2, Qualifier()
	b := g.addNode(11, false)
	g.sc.nodes[a].q, g.sc.nodes[b].q = "a", "b"
	if r.P(2, 3) {
		g.addNode(10, r.P(1, 2)) // F0, F1, no qualifier
	}
	if r.P(1, 3) {
		g.addNode(12, r.P(1, 2)) // F0 only, lazy
	}
	nh := 1 + r.Intn(2)
	for j := 0; j < nh; j++ {
		h := g.addNode(g.randType(func(u utInfo) bool { return !u.pp && !u.f1 && !u.f0 }), r.P(1, 3))
		q := []string{"a", "b", "b", "c"}[r.Intn(4)]
		fn := []string{"F1", "F1", "F2", "F1,returns=*"}[r.Intn(4)]
		g.sc.nodes[h].slots["X3"] = "f" + fn + ",qualifier=" + q + []string{"", "", ",required=false"}[r.Intn(3)]
	}
	if r.P(2, 3) {
		g.addNode(32, r.P(1, 2)) // its two points are declared with struct tags
	}
	return g.sc
}

// the three function-local types called `twin`: one implements Ifc0, one Ifc0 + Primary, one Ifc1 ONLY
func genTwinIfaces(r *hx.Rng) *gScen {
	g := newBuilder(r)
	tys := [][]int{{26, 29}, {29, 26}, {26, 27, 29}, {29, 27, 26}, {29, 26, 27}, {26, 31}, {31, 26}, {31, 29, 26}, {29, 31}}[r.Intn(9)]
	for _, t := range tys {
		g.addNode(t, false)
	}
	if r.P(1, 2) {
		g.addNode([]int{0, 1, 2}[r.Intn(3)], true)
	}
	nh := 1 + r.Intn(2)
	for j := 0; j < nh; j++ {
		h := g.addNode(g.randType(func(u utInfo) bool { return !u.pp }), r.P(1, 2))
		g.sc.nodes[h].slots["S0"] = "w"
		g.sc.nodes[h].slots["S1"] = "w"
		if r.P(1, 2) {
			g.sc.nodes[h].slots["X1"] = "w" + []string{"", ",required=false"}[r.Intn(2)]
		}
		if r.P(1, 3) {
			g.sc.nodes[h].slots["X0"] = "w"
		}
	}
	return g.sc
}

// history 2: a lazy holder with qualifier-narrowed points is looked up AFTER another application (same names, the
// qualifier values handed round) has started in the same process
func genLateQualified(r *hx.Rng) *gScen {
	g := newBuilder(r)
	a := g.addNode(4, false)
	b := g.addNode(4, false)
	g.sc.nodes[a].q, g.sc.nodes[b].q = "a", "b"
	if r.P(1, 2) {
		c := g.addNode(17, r.P(1, 2))
		g.sc.nodes[c].q = []string{"c", "a", "b"}[r.Intn(3)]
	}
	if r.P(1, 3) {
		g.addNode(1, true)
	}
	h := g.addNode([]int{5, 7, 12}[r.Intn(3)], r.P(1, 2))
	g.sc.nodes[h].flt = fltLookup
	q := []string{"a", "b"}[r.Intn(2)]
	switch r.Intn(3) {
	case 0:
		g.sc.nodes[h].slots["X1"] = "w,qualifier=" + q
	case 1:
		g.sc.nodes[h].slots["S1"] = "w,qualifier=" + q
	default:
		g.sc.nodes[h].slots["X0"] = "w,qualifier=" + q
		g.sc.nodes[h].slots["S0"] = "w,qualifier=" + []string{"a", "b", "a b"}[r.Intn(3)]
	}
	g.sc.hist = 2
	return g.sc
}

// history 1: the same component objects are started twice (two Apps, one after the other); cycles with a member that is
// substituted after initialization only (the start must be refused BOTH times), and ordinary graphs
func genRerun(r *hx.Rng, k int) *gScen {
	var sc *gScen
	switch k % 6 {
	case 0:
		sc = genCycle(r, 2, 0)
	case 1:
		sc = genCycle(r, 3, 1)
	case 2:
		sc = genDiamond(r)
	case 3:
		sc = genMatch(r)
	case 4:
		sc = genSliceCycle(r)
	default:
		sc = genRandom(r, 5)
	}
	if k%6 < 2 && len(sc.nodes) > 0 && k%4 != 3 {
		i := r.Intn(2)
		sc.nodes[i].early, sc.nodes[i].after = 0, 2 // wrapped after initialization only, on a cycle
	}
	sc.hist = 1
	return sc
}

// configuration slots: a placeholder inside a placeholder (resolvable / its outer key absent), decoy sibling keys of a
// section bound by prefix, a time.Time bound with a validate argument
func genConfigSlots(r *hx.Rng) *gScen {
	g := newBuilder(r)
	n := 1 + r.Intn(3)
	for i := 0; i < n; i++ {
		g.addNode(g.randType(func(u utInfo) bool { return !u.pp && !u.lazy }), r.P(1, 2))
	}
	codes := []int{8, 9, 10, 11, 11, 9, 12, 4, 1}
	for i := 0; i < n; i++ {
		if i == 0 || r.P(1, 2) {
			g.sc.nodes[i].cfg = codes[r.Intn(len(codes))]
		}
	}
	if r.P(1, 2) {
		g.randomSlots(0, 1+r.Intn(2))
	}
	return g.sc
}

func graphCorpus7(r *hx.Rng, w *hx.Writer, n int, tag string) {
	for i := 0; i < n; i++ {
		emitGraph(genMarkerOnly(r.Fork()), []string{tag, "markeronly"}, w)
		emitGraph(genSameName(r.Fork()), []string{tag, "samename"}, w)
		emitGraph(genFuncQualified(r.Fork()), []string{tag, "funcq"}, w)
		emitGraph(genTwinIfaces(r.Fork()), []string{tag, "twinifaces"}, w)
		emitGraph(genLateQualified(r.Fork()), []string{tag, "latequalified"}, w)
		emitGraph(genRerun(r.Fork(), i), []string{tag, "rerun"}, w)
		cs := genConfigSlots(r.Fork())
		cs.nodes[0].cfg = []int{8, 9, 10, 11, 12, 11, 9, 4, 1, 10, 11, 12}[i%12] // every code in every sweep of twelve
		emitGraph(cs, []string{tag, "configslots"}, w)
	}
}

// ---- eighth round

// more singletons than one batch of anything: the definition scan, the registries and the sorted creation all see > 128 names
func genHugeScan(r *hx.Rng) *gScen {
	g := newBuilder(r)
	n := 131 + r.Intn(12)
	for i := 0; i < n; i++ {
		g.addNode([]int{0, 1, 2, 8, 13, 16, 17}[r.Intn(7)], false)
	}
	if len(g.sc.nodes) > 3 {
		g.sc.nodes[1].slots["S0"] = "w,required=false"
	}
	return g.sc
}

// a holder whose configuration can never be bound (a list where a struct is expected): eager — the start fails —, or lazy and
// looked up after the start: every lookup fails, nothing of it is ever published
func genUnbindable(r *hx.Rng) *gScen {
	g := newBuilder(r)
	np := 1 + r.Intn(3)
	for i := 0; i < np; i++ {
		g.addNode(g.randType(func(u utInfo) bool { return len(u.ifs) > 0 && !u.pp && !u.lazy && !u.runner }), r.P(1, 3))
	}
	lazy := r.P(3, 4)
	var h int
	if lazy {
		h = g.addNode([]int{5, 7, 12}[r.Intn(3)], r.P(1, 2))
		g.sc.nodes[h].flt = fltLookup
	} else {
		h = g.addNode(g.randType(func(u utInfo) bool { return !u.pp && !u.lazy }), r.P(1, 2))
	}
	g.sc.nodes[h].cfg = 13
	if r.P(1, 2) {
		g.sc.nodes[h].slots["S0"] = "w,required=false"
	}
	if lazy && r.P(1, 2) { // a second lazy holder that is fine
		k := g.addNode([]int{5, 7, 12}[r.Intn(3)], r.P(1, 2))
		g.sc.nodes[k].flt = fltLookup
		g.sc.nodes[k].cfg = []int{0, 8, 11}[r.Intn(3)]
	}
	return g.sc
}

// history 4: the same objects were started before under OTHER custom names (every custom-named node had the next one's name)
func genRenamed(r *hx.Rng) *gScen {
	g := newBuilder(r)
	n := 2 + r.Intn(3)
	for i := 0; i < n; i++ {
		g.addNode(g.randType(func(u utInfo) bool { return len(u.ifs) > 0 && !u.pp && !u.lazy }), false)
	}
	if r.P(1, 2) {
		g.addNode(g.randType(func(u utInfo) bool { return len(u.ifs) > 0 && !u.pp && !u.lazy }), true)
	}
	h := g.addNode(g.randType(func(u utInfo) bool { return !u.pp }), false)
	g.edgeByName(h, r.Intn(n), false)
	if r.P(1, 2) {
		g.edgeByName(h, r.Intn(n), r.P(1, 2))
	}
	if r.P(1, 2) {
		g.sc.nodes[h].slots["S0"] = "w"
	}
	g.sc.hist = 4
	return g.sc
}

// the holder with an embedded pointer field `*T0` that carries a real wire tag (optional): filled with the T0 component when
// there is exactly one to choose, left nil without one
func genEmbeddedPointer(r *hx.Rng) *gScen {
	g := newBuilder(r)
	switch r.Intn(3) {
	case 0:
		g.addNode(0, r.P(1, 2))
	case 1:
		g.addNode(0, true)
		g.addNode(1, r.P(1, 2))
	default:
		g.addNode(1, r.P(1, 2)) // no T0 at all: the point stays nil
	}
	h := g.addNode(33, r.P(1, 2))
	if r.P(1, 2) {
		g.sc.nodes[h].slots["X0"] = "w" + []string{"", ",required=false"}[r.Intn(2)]
	}
	if r.P(1, 2) { // the by-name twin: its target is there under the name, under another name, or of another type
		t := g.addNode([]int{1, 1, 2}[r.Intn(3)], false)
		if r.P(3, 4) {
			g.used[g.sc.nodes[t].cust] = false
			g.sc.nodes[t].cust = "eptarget"
		}
		g.addNode(34, r.P(1, 2))
	}
	if r.P(1, 3) {
		k := g.addNode(g.randType(func(u utInfo) bool { return !u.pp }), r.P(1, 2))
		g.sc.nodes[k].slots["S1"] = "w"
	}
	return g.sc
}

// components that are not structs (pointer to a named integer, pointer to a named slice) among the candidates of interface
// and `any` points
func genNonStruct(r *hx.Rng) *gScen {
	g := newBuilder(r)
	g.sc.zs = []int{6, 7, 7}[r.Intn(3)]
	if r.P(1, 2) {
		g.addNode([]int{0, 1, 3}[r.Intn(3)], r.P(1, 2))
	}
	nh := 1 + r.Intn(2)
	for j := 0; j < nh; j++ {
		h := g.addNode(g.randType(func(u utInfo) bool { return !u.pp && len(u.ifs) == 0 || u.closer && !u.runner }), r.P(1, 2))
		g.sc.nodes[h].slots["S0"] = "w"
		if r.P(1, 2) {
			g.sc.nodes[h].slots["S1"] = "w,required=false"
		}
		if r.P(1, 2) {
			g.sc.nodes[h].slots["AS0"] = "w"
		}
	}
	return g.sc
}

var usedIocRegister bool

// history 3: runners, closers and providers of a slice point; the FIRST half is registered through ioc.Register
func genIocEntry(r *hx.Rng) *gScen {
	g := newBuilder(r)
	g.addNode(8, r.P(1, 2))  // runner
	g.addNode(13, r.P(1, 2)) // closer
	g.addNode(0, false)
	g.addNode(9, false) // runner + closer
	g.addNode(1, r.P(1, 2))
	h := g.addNode(2, false)
	g.sc.nodes[h].slots["S0"] = "w"
	g.sc.nodes[h].slots["A0"] = "w" + g.nameOf(2)
	g.sc.hist = 3
	return g.sc
}

func graphCorpus8(r *hx.Rng, w *hx.Writer, n int, tag string) {
	for i := 0; i < n; i++ {
		emitGraph(genUnbindable(r.Fork()), []string{tag, "unbindable"}, w)
		emitGraph(genRenamed(r.Fork()), []string{tag, "renamed"}, w)
		emitGraph(genEmbeddedPointer(r.Fork()), []string{tag, "embeddedptr"}, w)
		emitGraph(genNonStruct(r.Fork()), []string{tag, "nonstruct"}, w)
	}
}

// ---- ninth round

// history 5: a lazy holder whose points are all BY NAME is looked up after another application — whose components carry
// OTHER names — has started in the same process: required points naming components of its own application, optional points
// naming a component that only the other application has
func genLateNamed(r *hx.Rng) *gScen {
	g := newBuilder(r)
	np := 2 + r.Intn(2)
	for i := 0; i < np; i++ {
		g.addNode(g.randType(func(u utInfo) bool { return len(u.ifs) > 0 && !u.pp && !u.lazy && !u.runner && !u.closer }), false)
	}
	nh := 1 + r.Intn(2)
	for j := 0; j < nh; j++ {
		h := g.addNode([]int{5, 7, 12}[r.Intn(3)], r.P(1, 2))
		g.sc.nodes[h].flt = fltLookup
		switch r.Intn(3) {
		case 0: // a required point naming a component of its own application
			g.sc.nodes[h].slots["A0"] = "w" + g.nameOf(r.Intn(np))
		case 1: // an optional point naming what only the other application has
			g.sc.nodes[h].slots["A0"] = "w" + g.nameOf(r.Intn(np)) + "~v,required=false"
		default: // both
			g.sc.nodes[h].slots["A0"] = "w" + g.nameOf(r.Intn(np))
			g.sc.nodes[h].slots["A1"] = "w" + g.nameOf(r.Intn(np)) + []string{"", ",required=false"}[r.Intn(2)]
			g.sc.nodes[h].slots["A2"] = "w" + g.nameOf(r.Intn(np)) + "~v,required=false"
		}
	}
	if r.P(1, 2) { // an eager holder next to them, wired at the start
		k := g.addNode(g.randType(func(u utInfo) bool { return !u.pp && !u.lazy && !u.runner && !u.closer }), false)
		g.edgeByName(k, r.Intn(np), false)
	}
	g.sc.hist = 5
	return g.sc
}

// a priority-ordered user processor (type 36) that compacts its argument slice in place, keeping the by-name wire points;
// holders with a by-TYPE point declared before by-name points (sometimes a configuration value too), cycles back to the holder
func genInPlaceFilter(r *hx.Rng) *gScen {
	g := newBuilder(r)
	g.addNode(36, r.P(1, 2))
	t0 := g.addNode(0, r.P(1, 2))
	i1 := g.addNode([]int{2, 17, 2}[r.Intn(3)], r.P(1, 2)) // Ifc1 only
	nh := 1 + r.Intn(2)
	for j := 0; j < nh; j++ {
		h := g.addNode([]int{13, 20, 8, 13}[r.Intn(4)], r.P(1, 3)) // no Ifc1, not a *T0: never a candidate of the points below
		switch r.Intn(4) {
		case 0:
			g.sc.nodes[h].slots["P0"] = "w"
		case 1:
			g.sc.nodes[h].slots["X1"] = "w"
		case 2:
			g.sc.nodes[h].slots["S1"] = "w"
		default:
			g.sc.nodes[h].slots["P0"] = "w"
			g.sc.nodes[h].slots["X1"] = "w"
		}
		g.sc.nodes[h].slots["A0"] = "w" + g.nameOf([]int{t0, i1}[r.Intn(2)])
		if r.P(1, 2) {
			g.sc.nodes[h].slots["A1"] = "w" + g.nameOf([]int{t0, i1}[r.Intn(2)]) + []string{"", ",required=false"}[r.Intn(2)]
		}
		if r.P(1, 3) {
			g.sc.nodes[h].cfg = []int{1, 8, 4}[r.Intn(3)]
		}
		if r.P(1, 2) { // a cycle back to the holder
			g.edgeByName([]int{t0, i1}[r.Intn(2)], h, false)
		}
	}
	return g.sc
}

// the holder (type 37) with two embedded structs that each declare a tagged field `Dep` (*T0 and *T1, both required), on
// cycles through either of them
func genTwoEmbedded(r *hx.Rng) *gScen {
	g := newBuilder(r)
	t0 := g.addNode(0, r.P(1, 2))
	t1 := -1
	if r.P(7, 8) {
		t1 = g.addNode(1, r.P(1, 2))
	}
	h := g.addNode(37, r.P(1, 2))
	if r.P(1, 2) {
		g.edgeByName(t0, h, false)
	}
	if t1 >= 0 && r.P(1, 2) {
		g.edgeByName(t1, h, false)
	}
	if r.P(1, 2) {
		g.sc.nodes[h].slots[[]string{"X0", "S1", "A0"}[r.Intn(3)]] = "w"
	}
	if r.P(1, 3) {
		k := g.addNode(g.randType(func(u utInfo) bool { return !u.pp }), r.P(1, 2))
		g.edgeByName(k, h, false)
	}
	return g.sc
}

// ordered runners with DISTINCT Order() values, each building on the one before it (it refuses to run first), sometimes a
// priority-ordered one in front and an unordered one behind; nothing else in the population cares about any order
func genRunnerChain(r *hx.Rng) *gScen {
	g := newBuilder(r)
	k := 2 + r.Intn(3)
	ords := r.Perm(k) // node j gets the Order 10*(ords[j]+1): the registration sequence and the contract sequence are unrelated
	byOrd := make([]int, k)
	for j := 0; j < k; j++ {
		n := g.addNode(9, false)
		g.sc.nodes[n].ord = 10 * (ords[j] + 1)
		byOrd[ords[j]] = n
	}
	for p := 1; p < k; p++ {
		if r.P(4, 5) {
			g.sc.nodes[byOrd[p]].runAfter = 1 + byOrd[p-1]
		}
	}
	if r.P(1, 3) { // priority-ordered runners come before every ordered one
		n := g.addNode(15, false)
		g.sc.nodes[n].ord = 1000
		g.sc.nodes[byOrd[0]].runAfter = 1 + n
	}
	if r.P(1, 2) { // an unordered runner comes after every ordered one
		n := g.addNode(8, false)
		g.sc.nodes[n].runAfter = 1 + byOrd[k-1]
	}
	if r.P(1, 2) {
		h := g.addNode([]int{13, 2, 17}[r.Intn(3)], r.P(1, 2))
		g.edgeByName(h, byOrd[r.Intn(k)], false)
	}
	return g.sc
}

// genRunnerChain with Orders from the two ends of the integer range: the contract sequence is MinInt, a negative Order,
// a small positive one, MaxInt (a subset of 3 or 4 of them, registered in a random sequence); every runner but the first
// refuses to run before its predecessor
func genRunnerChainExtreme(r *hx.Rng) *gScen {
	g := newBuilder(r)
	all := []int{math.MinInt64, -7 - r.Intn(90), 3 + r.Intn(90), math.MaxInt64}
	if r.P(1, 2) {
		i := 1 + r.Intn(2)
		all = append(all[:i], all[i+1:]...)
	}
	k := len(all)
	pos := r.Perm(k)
	byOrd := make([]int, k)
	for j := 0; j < k; j++ {
		n := g.addNode(9, false)
		g.sc.nodes[n].ord = all[pos[j]]
		byOrd[pos[j]] = n
	}
	for p := 1; p < k; p++ {
		g.sc.nodes[byOrd[p]].runAfter = 1 + byOrd[p-1]
	}
	return g.sc
}

// a non-lazy component that is never handed to the start: its definition is registered by a factory post-processor of the
// application. Nobody — or one by-name point — asks for it; runners are present.
func genExtraDefinition(r *hx.Rng) *gScen {
	g := newBuilder(r)
	g.addNode([]int{8, 9, 8}[r.Intn(3)], r.P(1, 2)) // a runner
	n := 1 + r.Intn(2)
	for i := 0; i < n; i++ {
		g.addNode([]int{2, 13, 17, 2}[r.Intn(4)], r.P(1, 2))
	}
	x := g.addNode([]int{0, 1, 16, 20}[r.Intn(4)], r.P(1, 3))
	g.sc.nodes[x].extra = true
	if r.P(1, 4) { // somebody needs it: created on demand, whatever Refresh walks
		g.edgeByName(1, x, false)
	}
	if r.P(1, 3) {
		g.edgeByName(1, 0, false)
	}
	return g.sc
}

// a ring of 129..134 components closed by name through `any` points: creation nests as deep as the ring is long (a depth
// limit, a recursion guard or a per-creation resource shows here; seed C02L)
func genLongRing(r *hx.Rng) *gScen {
	g := newBuilder(r)
	n := 129 + r.Intn(6)
	for i := 0; i < n; i++ {
		g.addNode([]int{0, 1, 2, 8, 13}[r.Intn(5)], false)
	}
	for i := 0; i < n; i++ {
		g.edgeByName(i, (i+1)%n, false)
	}
	return g.sc
}

func graphCorpus9(r *hx.Rng, w *hx.Writer, n int, tag string) {
	if tag == "corpus" {
		defer func() { emitGraph(genLongRing(r.Fork()), []string{tag, "longring"}, w) }()
	}
	for i := 0; i < n; i++ {
		emitGraph(genLateNamed(r.Fork()), []string{tag, "latenamed"}, w)
		emitGraph(genInPlaceFilter(r.Fork()), []string{tag, "inplacefilter"}, w)
		emitGraph(genTwoEmbedded(r.Fork()), []string{tag, "twoembedded"}, w)
		emitGraph(genRunnerChain(r.Fork()), []string{tag, "runnerchain"}, w)
		emitGraph(genExtraDefinition(r.Fork()), []string{tag, "extradef"}, w)
	}
}

func graphGen(rng *hx.Rng, n int, tier string, w *hx.Writer) {
	maxN := 7
	if tier == "thorough" {
		maxN = 11
	}
	count := 0
	for count < n {
		r := rng.Fork()
		switch k := r.Intn(20); {
		case k < 6:
			sc := genRandom(r, maxN)
			if active() {
				emitGraph(sc, []string{"random"}, w)
			}
			count++
		case k < 11:
			kk := 1 + r.Intn(5)
			sc := genCycle(r, kk, r.Intn(3))
			if active() {
				emitGraph(sc, []string{"cycle", fmt.Sprintf("cyc%d", kk)}, w)
			}
			count++
		case k < 13:
			sc := genSelf(r)
			if active() {
				emitGraph(sc, []string{"self"}, w)
			}
			count++
		case k < 14:
			sc := genMatch(r)
			tag := "match"
			if r.P(1, 3) {
				sc, tag = genForeign(r), "foreign"
			} else if r.P(1, 4) {
				sc, tag = genPadded(r), "padded"
			}
			if active() {
				emitGraph(sc, []string{tag}, w)
			}
			count++
		case k < 15:
			sc := genDiamond(r)
			tag := "diamond"
			if r.P(1, 3) {
				sc, tag = genReentrant(r), "reentrant"
			}
			if active() {
				emitGraph(sc, []string{tag}, w)
			}
			count++
		case k == 15:
			sc := genSiblings(r)
			tag := "siblings"
			if r.P(1, 12) {
				sc, tag = genBigScan(r), "bigscan"
			}
			if active() {
				emitGraph(sc, []string{tag}, w)
			}
			count++
		case k == 16:
			sc := genFunc(r)
			tag := "func"
			if r.P(1, 3) {
				sc, tag = genRetry(r), "retry"
			} else if r.P(1, 3) {
				sc, tag = genOddProcessors(r), "oddpp"
			}
			if active() {
				emitGraph(sc, []string{tag}, w)
			}
			count++
		case k < 18:
			sc := genSliceCycle(r)
			if active() {
				emitGraph(sc, []string{"slicecycle"}, w)
			}
			count++
		case k < 19 || k == 19 && r.P(1, 2):
			sc := genD8(r)
			if active() {
				emitGraph(sc, []string{"d8"}, w)
			}
			count++
		default:
			sweep := genFaultSweep(r)
			if tier != "thorough" && len(sweep) > 14 {
				// a random sample of the fault places per base scenario (every place is reached across base scenarios)
				perm := r.Perm(len(sweep))
				var pick []*gScen
				for _, i := range perm[:14] {
					pick = append(pick, sweep[i])
				}
				sweep = pick
			}
			for _, sc := range sweep {
				if active() {
					emitGraph(sc, []string{"faultsweep"}, w)
				}
				count++
				if count >= n {
					break
				}
			}
		}
	}
	// seventh-round templates, seeded (drawn after everything else: the streams above are as they were)
	if active() {
		graphCorpus7(rng.Fork(), w, n/120+1, "round7")
		graphCorpus8(rng.Fork(), w, n/150+1, "round8")
		// the start through ioc.Register + ioc.Run: ONE per process, the very last start of the run (ioc.Register's list is
		// package-level and is never cleared)
		var last *gScen
		if !usedIocRegister {
			usedIocRegister = true
			last = genIocEntry(rng.Fork())
		}
		// ninth-round templates (their fork is drawn after every earlier one: the streams above are as they were)
		graphCorpus9(rng.Fork(), w, n/150+1, "round9")
		if last != nil {
			emitGraph(last, []string{"round8", "iocregister"}, w)
		}
	}
	_ = sort.Strings
}
