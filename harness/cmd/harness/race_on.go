//go:build race

package main

// raceEnabled: this binary was built with `go build -race` (sub `conc` is meant to be).
const raceEnabled = true
