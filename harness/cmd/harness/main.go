// harness: runs the real go-kid/ioc code (built from /repo's working tree with -tags verif)
// on generated scenarios and prints canonical observations, one case per line.
//
//	harness <sub> -seed S -n N -tier quick|thorough -out cases.tsv [-replay scenarios.txt]
package main

import (
	"flag"
	"fmt"
	"os"
	"sort"

	"verifharness/internal/hx"
)

// Sub is one sub-harness. Gen produces n cases from the seed; Replay re-runs given scenario lines.
type Sub struct {
	Name   string
	Gen    func(rng *hx.Rng, n int, tier string, w *hx.Writer)
	Replay func(scn string, w *hx.Writer)
	Corpus func(w *hx.Writer) // fixed, hand-written cases that run first (may be nil)
}

var subs = map[string]*Sub{}

func register(s *Sub) { subs[s.Name] = s }

func main() {
	if len(os.Args) < 2 {
		usage()
	}
	sub, ok := subs[os.Args[1]]
	if !ok {
		usage()
	}
	fs := flag.NewFlagSet(sub.Name, flag.ExitOnError)
	seed := fs.Uint64("seed", 1, "PRNG seed")
	n := fs.Int("n", 100, "number of generated cases")
	tier := fs.String("tier", "quick", "quick|thorough")
	out := fs.String("out", "cases.tsv", "output file")
	replay := fs.String("replay", "", "file with scenario lines to re-run instead of generating")
	_ = fs.Parse(os.Args[2:])
	w, err := hx.NewWriter(*out)
	if err != nil {
		fmt.Fprintln(os.Stderr, err)
		os.Exit(2)
	}
	if *replay != "" {
		data, err := os.ReadFile(*replay)
		if err != nil {
			fmt.Fprintln(os.Stderr, err)
			os.Exit(2)
		}
		for _, line := range splitLines(string(data)) {
			if line == "" {
				continue
			}
			sub.Replay(line, w)
		}
	} else {
		if sub.Corpus != nil {
			sub.Corpus(w)
		}
		sub.Gen(hx.NewRng(*seed), *n, *tier, w)
	}
	if err := w.Close(); err != nil {
		fmt.Fprintln(os.Stderr, err)
		os.Exit(2)
	}
}

func splitLines(s string) []string {
	var out []string
	cur := ""
	for _, c := range s {
		if c == '\n' {
			out = append(out, cur)
			cur = ""
		} else {
			cur += string(c)
		}
	}
	if cur != "" {
		out = append(out, cur)
	}
	return out
}

func usage() {
	var names []string
	for k := range subs {
		names = append(names, k)
	}
	sort.Strings(names)
	fmt.Fprintln(os.Stderr, "usage: harness <sub> [flags]; subs:", names)
	os.Exit(2)
}
