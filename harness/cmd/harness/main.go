// harness: runs the real go-kid/ioc code (built from /repo's working tree with -tags verif)
// on generated scenarios and prints canonical observations, one case per line.
//
//	harness <sub> -seed S -n N -tier quick|thorough -out cases.tsv [-replay scenarios.txt]
package main

import (
	"flag"
	"fmt"
	"os"
	"runtime/debug"
	"sort"

	"verifharness/internal/hx"
)

// Sub is one sub-harness. Gen produces n cases from the seed; Replay re-runs given scenario lines.
type Sub struct {
	Name   string
	Gen    func(rng *hx.Rng, n int, tier string, w *hx.Writer)
	Replay func(scn string, w *hx.Writer)
	Corpus func(w *hx.Writer) // fixed, hand-written cases that run first (may be nil)
}

var subs = map[string]*Sub{}

func register(s *Sub) { subs[s.Name] = s }

func main() {
	// a runaway recursion of the real code must end the process quickly (the default limit is 1 GB)
	debug.SetMaxStack(48 << 20)
	if len(os.Args) < 2 {
		usage()
	}
	sub, ok := subs[os.Args[1]]
	if !ok {
		usage()
	}
	fs := flag.NewFlagSet(sub.Name, flag.ExitOnError)
	seed := fs.Uint64("seed", 1, "PRNG seed")
	n := fs.Int("n", 100, "number of generated cases")
	tier := fs.String("tier", "quick", "quick|thorough")
	out := fs.String("out", "cases.tsv", "output file")
	replay := fs.String("replay", "", "file with scenario lines to re-run instead of generating")
	lo := fs.Int("lo", 0, "execute only generated cases with index >= lo (the generator still draws every case)")
	hi := fs.Int("hi", -1, "execute only generated cases with index < hi (-1 = no limit)")
	nocorpus := fs.Bool("nocorpus", false, "skip the fixed corpus cases")
	shrink := fs.String("shrink", "", "with -replay: delta-debug each scenario while an oracle failure with this signature persists")
	_ = fs.Parse(os.Args[2:])
	w, err := hx.NewWriter(*out)
	if err != nil {
		fmt.Fprintln(os.Stderr, err)
		os.Exit(2)
	}
	shrinkSig = *shrink
	if *replay != "" {
		data, err := os.ReadFile(*replay)
		if err != nil {
			fmt.Fprintln(os.Stderr, err)
			os.Exit(2)
		}
		for _, line := range splitLines(string(data)) {
			if line == "" {
				continue
			}
			sub.Replay(line, w)
		}
	} else {
		caseLo, caseHi = *lo, *hi
		if sub.Corpus != nil && !*nocorpus {
			sub.Corpus(w)
		}
		sub.Gen(hx.NewRng(*seed), *n, *tier, w)
	}
	if err := w.Close(); err != nil {
		fmt.Fprintln(os.Stderr, err)
		os.Exit(2)
	}
}

// case window for crash isolation: a sub-harness whose cases can kill the process (stack overflow) asks
// `active()` before executing a generated case; the generator draws the same random choices regardless.
var shrinkSig string

var caseLo, caseHi, caseIdx = 0, -1, 0

func active() bool {
	i := caseIdx
	caseIdx++
	return i >= caseLo && (caseHi < 0 || i < caseHi)
}

func splitLines(s string) []string {
	var out []string
	cur := ""
	for _, c := range s {
		if c == '\n' {
			out = append(out, cur)
			cur = ""
		} else {
			cur += string(c)
		}
	}
	if cur != "" {
		out = append(out, cur)
	}
	return out
}

func usage() {
	var names []string
	for k := range subs {
		names = append(names, k)
	}
	sort.Strings(names)
	fmt.Fprintln(os.Stderr, "usage: harness <sub> [flags]; subs:", names)
	os.Exit(2)
}
