package main

// sub-harness `placeholder` (C16), eighth round: "the tag is then processed AS IF IT HAD BEEN WRITTEN with the replacement text".
//
//	scenario     `W <kind> <tag-text-hex> <cfg>`    kind = type of the field that carries the tag: s string, i int, b bool,
//	                                                li []int, f float64, ls []string; the text is the whole text of a `value`
//	                                                tag (value part and arguments); cfg as in the other scenarios
//	observation  `<TagStr-hex> <TagVal-hex>` | `<TagStr-hex> err|panic|hang`     (the real placeholder processor on the real
//	                                                property made by NewProperty from the text - as for scenario `T`)
//
// The oracle is metamorphic and evaluated end to end on real Apps; it never looks at the model:
//
//	(a) an App is started with a holder whose field (of the given kind) is tagged with the text T, under the configuration;
//	(b) an App is started with a holder whose field (same kind) is tagged with T' = the text that T becomes when every
//	    placeholder of its value part is replaced BY HAND - the harness's own substitution account (phEv), the arguments
//	    unchanged -, under the same configuration.
//
// Both must end the same way: the same bound value, or both a start error (both a panic).  A difference carries the
// signature `placeholder-as-written`.  Whatever the value path does to a text (number-like, bool-like, quoted, bracketed
// texts are normalised: the known findings KF-C17-*) happens in BOTH runs and cancels out.
//
// What is generated: configured values (and the operands / defaults inside them) that carry `#{…}` expressions - arithmetic,
// string concatenation, boolean, lists, ternaries, builtin calls - so that the expression reaches the tag ONLY through a
// replacement (`${cache.ttl}` with `cache.ttl: "#{60*60}"`: nothing in the written tag says "expression"), through a chain of
// values, through a key that is itself selected by a placeholder, between literals, twice in one tag, next to expressions that
// ARE written in the tag (`#{${a}+${b:2}}`), in string / int / bool / []int / float64 / []string fields, with arguments behind.
//
// Where the oracle abstains (each class counted by a label):
//   - the harness's substitution abstains (lone braces, number-like / bracketed defaults, circular chains, an expression
//     wrapper arriving INSIDE another placeholder's key or default: the library's placeholder grammar `${[^{}]*}` has
//     brace-free contents, so the enclosing text is no placeholder any more - label aw-abstain);
//   - the replacement brings a top-level comma or an unbalanced bracket into the value part (label aw-comma): NO written
//     tag has that value part (the tag grammar would read the rest as arguments), so T' does not exist;
//   - T' still shows `${` (label aw-abstain);
//   - Go's struct-tag syntax cannot carry T or T' (label aw-notag).

import (
	"fmt"
	"reflect"
	"strconv"
	"strings"

	"github.com/go-kid/ioc/app"
	"github.com/go-kid/ioc/configure/loader"
	"github.com/go-kid/ioc/syslog"
	"gopkg.in/yaml.v3"

	"verifharness/internal/hx"
)

// ---------------------------------------------------------------- reading a text with expression wrappers

// phParseX reads a text as literals, placeholders `${ … }` (brace-free literals and placeholders inside, as phParse) and
// expression wrappers `#{ … }` whose inside is brace-free text, placeholders and further wrappers.  The wrapper's own braces
// come back as the literals "#{" and "}".  ok=false for any other text (a lone brace, a wrapper inside a placeholder).
func phParseX(s string) ([]*phNode, bool) {
	ns, rest, ok := phParseXSeq(s, false, 0)
	return ns, ok && rest == ""
}

func phParseXSeq(s string, inExpr bool, depth int) (ns []*phNode, rest string, ok bool) {
	if depth > 40 {
		return nil, "", false
	}
	var lit strings.Builder
	flush := func() {
		if lit.Len() > 0 {
			ns = append(ns, &phNode{lit: lit.String()})
			lit.Reset()
		}
	}
	for len(s) > 0 {
		switch {
		case strings.HasPrefix(s, "${"):
			flush()
			inner, r, ok := phParseSeq(s[2:], true, depth+1)
			if !ok {
				return nil, "", false
			}
			if inner == nil {
				inner = []*phNode{}
			}
			ns = append(ns, &phNode{key: inner})
			s = r
		case strings.HasPrefix(s, "#{"):
			flush()
			inner, r, ok := phParseXSeq(s[2:], true, depth+1)
			if !ok {
				return nil, "", false
			}
			ns = append(ns, &phNode{lit: "#{"})
			ns = append(ns, inner...)
			ns = append(ns, &phNode{lit: "}"})
			s = r
		case s[0] == '}':
			if !inExpr {
				return nil, "", false
			}
			flush()
			return ns, s[1:], true
		case s[0] == '{':
			return nil, "", false
		default:
			lit.WriteByte(s[0])
			s = s[1:]
		}
	}
	flush()
	return ns, "", !inExpr
}

// ---------------------------------------------------------------- starting a real App

var phKinds = map[string]reflect.Type{
	"s":  reflect.TypeOf(""),
	"i":  reflect.TypeOf(0),
	"b":  reflect.TypeOf(false),
	"li": reflect.TypeOf([]int(nil)),
	"f":  reflect.TypeOf(float64(0)),
	"ls": reflect.TypeOf([]string(nil)),
}

// phStart: an App with ONE holder whose only field has the given type and `value:"<text>"`.  outcome: `ok <value>` | `err`
// | `panic` | `hang`; ran=false when Go's struct-tag syntax cannot carry the text.
func phStart(yamlBytes []byte, kind, text string) (outcome string, detail string, ran bool) {
	return phStartTag(yamlBytes, kind, "value", text)
}

// phWholePlaceholder: the value part is ONE placeholder `${inner}` (the closer of the first opener is its last byte) whose
// inner text holds no comma and no quote: then `prop:"inner<args>"` is by definition the tag `value:"${inner}<args>"`
func phWholePlaceholder(val string) (inner string, ok bool) {
	if !strings.HasPrefix(val, "${") || !strings.HasSuffix(val, "}") {
		return "", false
	}
	depth := 0
	for i := 0; i < len(val); i++ {
		switch val[i] {
		case '{':
			depth++
		case '}':
			depth--
			if depth == 0 && i != len(val)-1 {
				return "", false
			}
			if depth < 0 {
				return "", false
			}
		}
	}
	inner = val[2 : len(val)-1]
	if depth != 0 || inner == "" || strings.ContainsAny(inner, ",'\"`\\ \t") {
		return "", false
	}
	return inner, true
}

func phStartTag(yamlBytes []byte, kind, tagName, text string) (outcome string, detail string, ran bool) {
	typ, ok := phKinds[kind]
	if !ok {
		return "", "", false
	}
	tag := reflect.StructTag(tagName + ":" + strconv.Quote(text))
	if got, ok := tag.Lookup(tagName); !ok || got != text {
		return "", "", false
	}
	t := reflect.StructOf([]reflect.StructField{{Name: "V", Type: typ, Tag: tag}})
	h := reflect.New(t)
	var err error
	pan, hung := phWatch(func() {
		err = app.NewApp().Run(app.LogLevel(syslog.LvPanic), app.SetConfigLoader(loader.NewRawLoader(yamlBytes)), app.SetComponents(h.Interface()))
	})
	switch {
	case hung:
		return "hang", "", true
	case pan != nil:
		return "panic", fmt.Sprint(pan), true
	case err != nil:
		msg := err.Error()
		if i := strings.LastIndex(msg, "failed: "); i >= 0 && i+8 < len(msg) {
			msg = msg[i+8:]
		}
		if len(msg) > 160 {
			msg = msg[len(msg)-160:]
		}
		return "err", msg, true
	}
	return fmt.Sprintf("ok %#v", h.Elem().Field(0).Interface()), "", true
}

// ---------------------------------------------------------------- one case

type phWCase struct {
	kind  string
	text  string
	val   string    // the value part as the generator rendered it ("" = read it off the text)
	nodes []*phNode // the structure of the value part (nil = read it off the value part, if it reads)
	cfg   *cval
	tags  []string
}

func runPhWritten(c phWCase, w *hx.Writer) {
	if phHung {
		return
	}
	phQuiet.Do(func() { syslog.Level(syslog.LvPanic) })
	yamlBytes, err := yaml.Marshal(c.cfg.toAny())
	if err != nil || len(c.cfg.xs) == 0 {
		yamlBytes = nil
	}
	cfg, err := newConfigure(yamlBytes)
	if err != nil {
		return
	}
	segs, ok := tagSplitTop(c.text, ',')
	if !ok {
		return // outside the form the oracle speaks about
	}
	if c.val == "" {
		c.val = segs[0]
	}
	args := strings.TrimPrefix(c.text, segs[0])
	if c.val != segs[0] {
		return
	}
	if c.nodes == nil {
		if ns, ok := phParseX(c.val); ok {
			c.nodes = ns
		}
	}
	r := phDirect(cfg, c.text, false)
	var toks []string
	c.cfg.tokens(&toks)
	res := r.obs
	out := hx.Case{Scn: "W " + c.kind + " " + hx.Hex(c.text) + " " + strings.Join(toks, " "), Obs: hx.Hex(r.tagStr) + " " + res, Tags: c.tags}
	tr := phRefTrace(cfg, r.tagStr)
	if tr.opaque {
		out.Scn = "# " + out.Scn
		out.Tags = append(out.Tags, "opaque")
	}
	switch res {
	case "hang":
		phHung = true
		out.Oracle = "FAIL placeholder-hang no answer within 5s"
	case "panic":
		msg := fmt.Sprint(r.pan)
		switch {
		case tr.loneQuote && strings.Contains(msg, "slice bounds out of range [1:0]"):
			out.Oracle = "FAIL placeholder-panic-lone-quote " + msg
		case tr.getPanic && strings.Contains(msg, "index out of range [-"):
			out.Oracle = "FAIL placeholder-panic-negative-index " + msg
		default:
			out.Oracle = "FAIL placeholder-panic " + msg
		}
	case "err":
	default:
		if phQuote.MatchString(r.val) {
			out.Oracle = fmt.Sprintf("FAIL placeholder-left result %q still has a placeholder", r.val)
		}
	}
	if r.tagStr != c.val && strings.Contains(c.val, "${") && res != "hang" && res != "panic" {
		out.Oracle = fmt.Sprintf("FAIL placeholder-tagtext the value part of the tag %q is %q (the text before its first top-level comma); the processor was handed %q and gives %q (obs %s): the placeholders of the tag are not replaced",
			c.text, c.val, r.tagStr, r.val, res)
	}
	// the substitution by hand
	want, haveWant := "", false
	if c.nodes != nil && out.Oracle == "" {
		ev := &phEv{root: c.cfg, litBraces: true, exprOK: true}
		if s, ok := ev.eval(c.nodes); ok {
			want, haveWant = s, true
			out.Tags = append(out.Tags, "eval-oracle")
			if ev.exprRepl {
				out.Tags = append(out.Tags, "eval-expr-repl")
			}
			if res != hx.Hex(want) {
				sig := "placeholder-eval"
				switch {
				case ev.indirect:
					sig = "placeholder-indirect"
				case ev.emptyNoDefault:
					sig = "placeholder-empty-container-kept"
				}
				out.Oracle = fmt.Sprintf("FAIL %s tag %q gives %q (obs %s), substitution of its value part %q gives %q", sig, c.text, r.val, res, c.val, want)
			}
		}
	}
	// as written: T against T' on real Apps
	switch {
	case out.Oracle != "" || res == "hang" || res == "panic":
	case !haveWant || strings.Contains(want, "${"):
		out.Tags = append(out.Tags, "aw-abstain")
	default:
		written := want + args
		if ws, ok := tagSplitTop(written, ','); !ok || ws[0] != want || len(ws) != len(segs) {
			out.Tags = append(out.Tags, "aw-comma")
			break
		}
		oa, da, ranA := phStart(yamlBytes, c.kind, c.text)
		ob, db, ranB := "", "", false
		if ranA && oa != "hang" {
			ob, db, ranB = phStart(yamlBytes, c.kind, written)
		}
		if oa == "hang" || ob == "hang" {
			phHung = true
		}
		if !ranA || !ranB {
			if oa == "hang" {
				out.Oracle = fmt.Sprintf("FAIL placeholder-hang the App whose %s field is tagged %q does not start within 5s", phKinds[c.kind], c.text)
			} else {
				out.Tags = append(out.Tags, "aw-notag")
			}
			break
		}
		out.Tags = append(out.Tags, "aw-oracle")
		if strings.Contains(want, "#{") && !strings.Contains(c.val, "#{") {
			out.Tags = append(out.Tags, "aw-expr-only-after")
		}
		if strings.HasPrefix(oa, "ok") {
			out.Tags = append(out.Tags, "aw-bound")
		} else {
			out.Tags = append(out.Tags, "aw-"+oa)
		}
		// (tenth round) the `prop` shorthand of the same tag: `prop:"K<args>"` IS `value:"${K}<args>"`
		if inner, ok := phWholePlaceholder(c.val); ok && oa == ob && (args == "" || strings.HasPrefix(args, ",")) {
			if oc, dc, ranC := phStartTag(yamlBytes, c.kind, "prop", inner+args); ranC {
				out.Tags = append(out.Tags, "aw-prop-twin")
				if oc == "hang" {
					phHung = true
				}
				if oc != oa {
					out.Oracle = fmt.Sprintf("FAIL placeholder-prop-shorthand a %s field tagged value:%q ends in [%s]; tagged with the shorthand prop:%q it ends in [%s %s] under the same configuration",
						phKinds[c.kind], c.text, oa, inner+args, oc, dc)
				}
			}
		}
		if oa != ob {
			show := func(o, d string) string {
				if d != "" {
					return o + " (" + d + ")"
				}
				return o
			}
			out.Oracle = fmt.Sprintf("FAIL placeholder-as-written a %s field tagged value:%q ends in [%s]; tagged with the text it becomes when every placeholder is replaced by hand, value:%q, it ends in [%s] under the same configuration",
				phKinds[c.kind], c.text, show(oa, da), written, show(ob, db))
		}
	}
	w.Put(out)
}

func phWrittenReplay(f []string, w *hx.Writer) {
	if len(f) < 4 {
		return
	}
	if _, ok := phKinds[f[1]]; !ok {
		return
	}
	s, err := hx.UnHex(f[2])
	if err != nil {
		return
	}
	cfg, rest, ok := parseCfgTokens(f[3:])
	if !ok || len(rest) != 0 || cfg.kind != 'm' {
		return
	}
	runPhWritten(phWCase{kind: f[1], text: s, cfg: cfg, tags: []string{"replay"}}, w)
}

// ---------------------------------------------------------------- corpus

func phWrittenCorpus(w *hx.Writer) {
	cfg := func() *cval {
		return phCfgOf("region", "eu", "cache", phCfgOf("ttl", "#{60*60}", "label", "#{'cache-'+'${region}'}", "on", "#{${n} > 3 and not false}", "sizes", "#{[${n}, ${n}*2, 10]}",
			"ratio", "#{${n} / 2}", "names", "#{['a', '${region}']}"), "n", 5, "ttl", "${cache.ttl}", "which", "ttl", "plain", "text", "sum", "#{${n}+${m:7}}", "inner", "#{2*3}",
			"pick", "#{${n} > 3 ? 'big' : 'small'}", "len", "#{len('${region}')}", "comma", "a, b", "max", "#{max(${n}, 9)}", "w2", "cache")
	}
	for _, c := range [][2]string{
		{"i", "${cache.ttl}"}, {"s", "${cache.ttl}"}, {"s", "${cache.label}"}, {"s", "${region}"}, {"i", "${cache.ttl},required"}, {"i", "${cache.ttl},validate=min=1 max=4000"},
		{"i", "${cache.ttl},validate=max=100"}, {"b", "${cache.on}"}, {"s", "${cache.on}"}, {"li", "${cache.sizes}"}, {"s", "${cache.sizes}"}, {"f", "${cache.ratio}"}, {"i", "${cache.ratio}"},
		{"ls", "${cache.names}"}, {"i", "${ttl}"}, {"i", "${cache.${which}}"}, {"i", "${CACHE.TTL}"}, {"s", "ttl=${cache.ttl}s"}, {"s", "${cache.ttl}:${cache.label}"}, {"i", "${sum}"},
		{"i", "${sum},required=false"}, {"i", "#{${n}+${m:7}}"}, {"i", "#{${inner}+1}"}, {"i", "${nope:${cache.ttl}}"}, {"i", "${cache.ttl:12}"}, {"i", "${nope:12}"}, {"s", "${pick}"},
		{"i", "${len}"}, {"i", "${max}"}, {"s", "${comma}"}, {"s", "${nope}"}, {"s", "${nope},required=false"}, {"i", "${plain}"}, {"s", "#{1+1}${cache.ttl}"}, {"b", "${cache.ttl}"},
		{"li", "${cache.ttl}"}, {"s", "${plain}-${nope:x}"},
		// a wrapper inside another placeholder's default - arriving through a value, or written: the scanner's placeholders have
		// brace-free contents, the enclosing text stays (oracles (a), (c) and the model only; the substitution abstains)
		{"s", "${nope:${cache.ttl}}"}, {"s", "${nope:#{1+2}}"}, {"i", "${nope:#{1+2}}"}, {"s", "${cache.ttl:#{4}}"}, {"i", "${n:#{4}}"},
		// (tenth round) a key that BEGINS with a nested placeholder, also as the `prop` shorthand of the same tag (aw-prop-twin)
		{"i", "${${which}}"}, {"s", "${${which}}"}, {"i", "${${w2}.ttl}"}, {"s", "${${w2}.label}"}, {"i", "${${w2}.ttl},required"}, {"i", "${${w2}.${which}}"},
		{"i", "${${nope:cache}.ttl}"}, {"s", "${${w2}.nope:dflt}"},
	} {
		runPhWritten(phWCase{kind: c[0], text: c[1], cfg: cfg(), tags: []string{"corpus", "written"}}, w)
	}
}

// ---------------------------------------------------------------- generator

type phWGen struct {
	*phIndGen
}

func (g *phWGen) lit(s string) *phNode { return &phNode{lit: s} }

func (g *phWGen) ref(key string) *phNode { return &phNode{key: []*phNode{{lit: key}}} }

func (g *phWGen) refD(key, def string) *phNode {
	return &phNode{key: []*phNode{{lit: key}}, hasD: true, def: []*phNode{{lit: def}}}
}

func (g *phWGen) casing(k string) string {
	if g.r.P(1, 10) {
		return strings.ToUpper(k)
	}
	return k
}

// a number operand: a literal, or a placeholder for a configured number / an absent key with a number default
func (g *phWGen) numOperand(allowRef bool) []*phNode {
	r := g.r
	if !allowRef || r.P(1, 3) {
		return []*phNode{g.lit(strconv.Itoa(1 + r.Intn(90)))}
	}
	k := g.fresh(true)
	switch r.Intn(4) {
	case 0: // absent, default
		return []*phNode{g.refD(g.casing(k), strconv.Itoa(1+r.Intn(60)))}
	case 1: // present, default unused
		g.put(k, cNum(strconv.Itoa(1+r.Intn(90))))
		return []*phNode{g.refD(g.casing(k), strconv.Itoa(1+r.Intn(60)))}
	}
	g.put(k, cNum(strconv.Itoa(1+r.Intn(90))))
	return []*phNode{g.ref(g.casing(k))}
}

// a string operand: a quoted literal, or quotes around a placeholder for a configured word
func (g *phWGen) strOperand(allowRef bool) []*phNode {
	r := g.r
	word := g.letters(1, 4)
	if r.P(1, 4) {
		word += []string{"-", " ", "_", "."}[r.Intn(4)] + g.letters(1, 2)
	}
	if !allowRef || r.P(1, 2) {
		return []*phNode{g.lit("'" + word + "'")}
	}
	k := g.fresh(true)
	if r.P(1, 4) {
		return []*phNode{g.lit("'"), g.refD(k, word), g.lit("'")}
	}
	g.put(k, cStr(word))
	return []*phNode{g.lit("'"), g.ref(g.casing(k)), g.lit("'")}
}

func phCat(parts ...[]*phNode) []*phNode {
	var out []*phNode
	for _, p := range parts {
		out = append(out, p...)
	}
	return out
}

// the body of an expression and the kind of its result: i int, s string, b bool, li list of ints, f float, ls list of strings
func (g *phWGen) exprBody(allowRef bool) ([]*phNode, string) {
	r := g.r
	L := func(s string) []*phNode { return []*phNode{g.lit(s)} }
	num := func() []*phNode { return g.numOperand(allowRef) }
	str := func() []*phNode { return g.strOperand(allowRef) }
	switch r.Intn(16) {
	case 0, 1, 2:
		op := []string{"+", "*", "-", " + ", " * ", " - ", " % "}[r.Intn(7)]
		return phCat(num(), L(op), num()), "i"
	case 3:
		return phCat(L("("), num(), L(" + "), num(), L(") * "), num()), "i"
	case 4:
		fn := []string{"max", "min"}[r.Intn(2)]
		return phCat(L(fn+"("), num(), L(", "), num(), L(")")), "i"
	case 5:
		return phCat(L("len("), str(), L(")")), "i"
	case 6, 7:
		return phCat(str(), L([]string{"+", " + "}[r.Intn(2)]), str()), "s"
	case 8:
		fn := []string{"upper", "lower", "trim"}[r.Intn(3)]
		return phCat(L(fn+"("), str(), L(")")), "s"
	case 9:
		op := []string{" < ", " >= ", " == ", " != ", ">"}[r.Intn(5)]
		return phCat(num(), L(op), num()), "b"
	case 10:
		switch r.Intn(3) {
		case 0:
			return phCat(L("not ("), num(), L(" > "), num(), L(")")), "b"
		case 1:
			return phCat(num(), L(" > "), num(), L([]string{" and ", " or ", " && ", " || "}[r.Intn(4)]), L([]string{"true", "false", "!false"}[r.Intn(3)])), "b"
		}
		return phCat(str(), L(" in ["), str(), L(", "), str(), L("]")), "b"
	case 11:
		return phCat(str(), L(" == "), str()), "b"
	case 12:
		if r.Bool() {
			return phCat(L("["), num(), L(", "), num(), L(", "), num(), L("]")), "li"
		}
		return phCat(num(), L(".."), num()), "li"
	case 13:
		if r.Bool() {
			return phCat(num(), L(" > "), num(), L(" ? "), num(), L(" : "), num()), "i"
		}
		return phCat(num(), L(" > "), num(), L(" ? "), str(), L(" : "), str()), "s"
	case 14:
		if r.Bool() {
			return phCat(num(), L(" / "), num()), "f"
		}
		return phCat(L("["), str(), L(", "), str(), L("]")), "ls"
	}
	return phCat(num(), L(" + "), num(), L(" + "), num()), "i"
}

func (g *phWGen) wrapper(allowRef bool) ([]*phNode, string) {
	body, kind := g.exprBody(allowRef)
	return phCat([]*phNode{g.lit("#{")}, body, []*phNode{g.lit("}")}), kind
}

var phWArgs = map[string][]string{
	"i":  {"required", "required=true", "required=false", "validate=required", "validate=min=1 max=4000", "validate=gte=0", "validate=max=50"},
	"s":  {"required", "required=true", "required=false", "validate=required", "validate=min=1 max=30", "validate=max=3"},
	"b":  {"required", "required=false", "Required"},
	"li": {"required", "required=false", "validate=min=1", "validate=max=2"},
	"f":  {"required", "required=false", "validate=gte=0"},
	"ls": {"required", "required=false", "validate=min=1"},
}

// phWrittenCase: a configuration, the value part of a tag, the kind of the expression's result
// (raw != "": a value part the harness's reader does not take apart - the text itself is the case)
func phWrittenCase(r *hx.Rng) (*cval, []*phNode, string, string, string) {
	g := &phWGen{&phIndGen{r: r, cfg: cMap(), used: map[string]bool{"zz": true}}}
	// a configured value that IS an expression (its operands literal, or placeholders for further keys / defaults)
	exprKey := func() (string, string) {
		k := g.fresh(true)
		ns, kind := g.wrapper(r.P(1, 2))
		g.put(k, cStr(phRender(ns)))
		return k, kind
	}
	ref := func(k string) *phNode {
		if r.P(1, 6) {
			return g.refD(g.casing(k), []string{"12", "dflt", "false", "x y"}[r.Intn(4)])
		}
		return g.ref(g.casing(k))
	}
	var ns []*phNode
	var kind, raw string
	shape := r.Intn(12)
	switch shape {
	case 0, 1, 2: // the expression reaches the tag only through the configured value
		k, kd := exprKey()
		ns, kind = []*phNode{ref(k)}, kd
	case 3: // … through a chain of values
		k, kd := exprKey()
		mid := g.fresh(true)
		g.put(mid, cStr(phRender([]*phNode{ref(k)})))
		if r.P(1, 3) {
			top := g.fresh(true)
			g.put(top, cStr(phRender([]*phNode{ref(mid)})))
			mid = top
		}
		ns, kind = []*phNode{ref(mid)}, kd
	case 4: // … between literals
		k, kd := exprKey()
		ns, kind = []*phNode{g.lit(g.atom(3)), ref(k)}, kd
		if r.P(2, 3) {
			ns = append(ns, g.lit(g.atom(3)))
		}
		if r.P(1, 2) {
			ns = ns[1:]
		}
		if len(ns) > 1 {
			kind = "s"
		}
	case 5: // the key itself is selected by a placeholder: ${cache.${which}}
		word := g.letters(2, 3)
		base := g.fresh(false)
		wns, kd := g.wrapper(r.P(1, 2))
		g.put(base+"."+word, cStr(phRender(wns)))
		sel := g.fresh(false)
		g.put(sel, cStr(word))
		ns, kind = []*phNode{{key: []*phNode{g.lit(base + "."), g.ref(sel)}}}, kd
	case 6: // two placeholders in one tag
		k1, _ := exprKey()
		sep := []string{":", " ", "-", "/", ""}[r.Intn(5)]
		if r.Bool() {
			k2, _ := exprKey()
			ns = []*phNode{ref(k1), g.lit(sep), ref(k2)}
		} else {
			p := g.fresh(true)
			g.put(p, cStr(g.atom(4)))
			ns = []*phNode{ref(p), g.lit(sep), ref(k1)}
			if r.Bool() {
				ns[0], ns[2] = ns[2], ns[0]
			}
		}
		kind = "s"
	case 7: // the expression is WRITTEN in the tag, its operands are placeholders (both versions of the tag say "expression")
		ns, kind = g.wrapper(true)
	case 8: // … and an operand's value is an expression again (a number, so that the outer expression computes)
		k := g.fresh(true)
		g.put(k, cStr(phRender(phCat([]*phNode{g.lit("#{")}, g.numOperand(r.Bool()), []*phNode{g.lit([]string{"*", " + ", "-"}[r.Intn(3)])}, g.numOperand(false), []*phNode{g.lit("}")}))))
		ns, kind = phCat([]*phNode{g.lit("#{")}, []*phNode{ref(k)}, []*phNode{g.lit([]string{" + ", "*", " - "}[r.Intn(3)])}, g.numOperand(true), []*phNode{g.lit("}")}), "i"
	case 9: // the key is absent or empty: the default of the tag's placeholder, no expression anywhere; or a plain value
		k := g.fresh(true)
		switch r.Intn(4) {
		case 0:
			g.put(k, cMap())
		case 1:
			g.put(k, cStr(g.atom(4)))
		case 2:
			g.put(k, cNum(strconv.Itoa(r.Intn(500))))
		}
		n := g.ref(k)
		if r.P(2, 3) {
			n = g.refD(k, []string{"12", "dflt", "true", "'q'", "1.50"}[r.Intn(5)])
		}
		ns, kind = []*phNode{n}, []string{"s", "i", "b"}[r.Intn(3)]
	case 10: // a written expression next to one that arrives through a value
		k, _ := exprKey()
		wns, _ := g.wrapper(r.Bool())
		ns, kind = phCat(wns, []*phNode{g.lit([]string{"", " ", "-"}[r.Intn(3)])}, []*phNode{ref(k)}), "s"
		if r.Bool() {
			ns = phCat([]*phNode{ref(k)}, []*phNode{g.lit([]string{"", " ", "-"}[r.Intn(3)])}, wns)
		}
	default: // the wrapper arrives inside ANOTHER placeholder's default, or is written there (the substitution abstains: see the header)
		k, kd := exprKey()
		ns, kind = []*phNode{{key: []*phNode{g.lit("zz" + g.letters(1, 2))}, hasD: true, def: []*phNode{ref(k)}}}, kd
		if r.P(1, 2) {
			wns, kd := g.wrapper(r.Bool())
			key := "zz" + g.letters(1, 2)
			if r.Bool() {
				key = k // a configured key with a default that is written as an expression
			}
			ns, kind, raw = nil, kd, "${"+key+":"+phRender(wns)+"}"
		}
	}
	return g.cfg, ns, raw, kind, fmt.Sprintf("aw-shape%d", shape)
}

func phGenWritten(rng *hx.Rng, groups int, w *hx.Writer) {
	kinds := []string{"s", "i", "b", "li", "f", "ls"}
	for i := 0; i < groups; i++ {
		r := rng.Fork()
		cfg, nodes, raw, resKind, shape := phWrittenCase(r)
		val := phRender(nodes)
		if raw != "" {
			val, nodes = raw, nil
		}
		// the field: mostly of the kind the expression gives, sometimes a string, sometimes any other kind
		kind := resKind
		switch c := r.Intn(10); {
		case c < 2:
			kind = "s"
		case c < 4:
			kind = kinds[r.Intn(len(kinds))]
		}
		text := val
		nargs := 0
		if r.P(1, 2) {
			pool := phWArgs[kind]
			for n := 1 + r.Intn(2); n > 0; n-- {
				text += "," + pool[r.Intn(len(pool))]
				nargs++
			}
		}
		np, depth := countPh(nodes)
		tags := []string{"grammar", "written", shape, "kind-" + kind, fmt.Sprintf("args%d", nargs), fmt.Sprintf("ph%d", np), fmt.Sprintf("depth%d", depth)}
		runPhWritten(phWCase{kind: kind, text: text, val: val, nodes: nodes, cfg: cfg, tags: append(append([]string{}, tags...), "cfg-designed")}, w)
		runPhWritten(phWCase{kind: kind, text: text, val: val, nodes: nodes, cfg: phMutate(r, cfg), tags: append(append([]string{}, tags...), "cfg-mutated")}, w)
	}
}
