package main

// sub-harness `naming` (C07_name, C07_unique): histories of RegisterSingleton on the real singleton registry
// (support.NewRegistry) with repeated objects and clashing names, under recover(); and the registered name of
// instances of the universe types (custom name / default package path + type name).
//
//	scenario  `H <name>:<obj> <name>:<obj> …`    registration attempts: component name (hex) and object identity
//	observation  `<name>=<obj>,…` sorted by name  — the registry's content read back by GetSingletonNames/GetSingleton
//	scenario  `N <custom> <pkg> <type>` → registered name (hex)

import (
	"fmt"
	"reflect"
	"sort"
	"strings"

	"github.com/go-kid/ioc/container/support"
	"github.com/go-kid/ioc/syslog"
	"github.com/go-kid/ioc/util/framework_helper"

	"verifharness/internal/hx"
	east "verifharness/u/east/model"
	west "verifharness/u/west/model"
)

func init() { register(&Sub{Name: "naming", Gen: namingGen, Replay: namingReplay}) }

type namedObj struct{ N string }

func (n *namedObj) Naming() string { return n.N }

func runNamingHistory(ops [][2]int, names []string, tags []string, w *hx.Writer) {
	syslog.Level(syslog.LvPanic)
	reg := support.NewRegistry()
	objs := map[int]*namedObj{}
	var toks []string
	firstObj := map[string]int{}
	var fails []string
	fwdPanic := false
	for _, op := range ops {
		name := names[op[0]]
		key := op[1]*100 + op[0] // an object identity always carries one name
		o, ok := objs[key]
		if !ok {
			o = &namedObj{N: name}
			objs[key] = o
		}
		toks = append(toks, fmt.Sprintf("%s:%d", hx.Hex(name), key))
		pan := hx.Guard(func() { reg.RegisterSingleton(o) })
		if pan != nil {
			fwdPanic = true
		}
		if _, seen := firstObj[name]; !seen {
			firstObj[name] = key
			if pan != nil {
				fails = append(fails, fmt.Sprintf("FAIL c07-register-panic first registration of %q panicked: %v", name, pan))
			}
		} else if firstObj[name] != key && pan == nil {
			fails = append(fails, fmt.Sprintf("FAIL c07-duplicate-accepted a second, different object was accepted under the name %q", name))
		}
	}
	var obs []string
	ns := reg.GetSingletonNames()
	sort.Strings(ns)
	for _, n := range ns {
		c, err := reg.GetSingleton(n)
		id := -1
		if err == nil {
			for k, o := range objs {
				if any(o) == c {
					id = k
				}
			}
		}
		obs = append(obs, fmt.Sprintf("%s=%d", hx.Hex(n), id))
		if want, ok := firstObj[n]; ok && want != id {
			fails = append(fails, fmt.Sprintf("FAIL c07-unique name %q holds object %d, the first registered was %d", n, id, want))
		}
	}
	o := "-"
	if len(obs) > 0 {
		o = strings.Join(obs, ",")
	}
	// C10: when no registration is refused, what ends up registered must not depend on the registration order
	// (the same attempts in reverse on a fresh registry)
	anyPanic := false
	{
		reg2 := support.NewRegistry()
		for i := len(ops) - 1; i >= 0; i-- {
			key := ops[i][1]*100 + ops[i][0]
			if hx.Guard(func() { reg2.RegisterSingleton(objs[key]) }) != nil {
				anyPanic = true
			}
		}
		if !anyPanic && !fwdPanic {
			var obs2 []string
			ns2 := reg2.GetSingletonNames()
			sort.Strings(ns2)
			for _, n := range ns2 {
				c, err := reg2.GetSingleton(n)
				id := -1
				if err == nil {
					for k, ob := range objs {
						if any(ob) == c {
							id = k
						}
					}
				}
				obs2 = append(obs2, fmt.Sprintf("%s=%d", hx.Hex(n), id))
			}
			if strings.Join(obs2, ",") != strings.Join(obs, ",") {
				fails = append(fails, fmt.Sprintf("FAIL c10-registration-order the same registrations in reverse order leave %v registered instead of %v, and none was refused", obs2, obs))
			}
		}
	}
	w.Put(hx.Case{Scn: "H " + strings.Join(toks, " "), Obs: o, Oracle: joinFails(fails), Tags: tags})
}

// same short type name `model.User` in two packages: default names must differ, in whichever order they are first seen
func namingTwins(w *hx.Writer) {
	objs := []any{&east.User{}, &west.User{}, &west.User{Custom: "cw"}, &east.User{}}
	for _, o := range objs {
		t := reflect.TypeOf(o).Elem()
		cust := ""
		if nc, ok := o.(interface{ Naming() string }); ok {
			cust = nc.Naming()
		}
		got := framework_helper.GetComponentName(o)
		want := cust
		if want == "" {
			want = t.PkgPath() + "/" + t.Name()
		}
		c := hx.Case{Scn: fmt.Sprintf("N %s %s %s", hx.Hex(cust), hx.Hex(t.PkgPath()), hx.Hex(t.Name())), Obs: hx.Hex(got), Tags: []string{"name", "twins"}}
		if got != want {
			c.Oracle = fmt.Sprintf("FAIL c07-name registered name %q, expected %q", got, want)
		}
		w.Put(c)
	}
}

func namingGen(rng *hx.Rng, n int, tier string, w *hx.Writer) {
	namingTwins(w)
	pool := []string{"a", "b", "svc", "main/T0", "x/y", ""}
	for i := 0; i < n; i++ {
		r := rng.Fork()
		if r.P(1, 5) {
			// registered name of a universe instance
			ty := r.Intn(universeTypeCount)
			cust := []string{"", "", "nm", "a/b"}[r.Intn(4)]
			nd := universeCtors[ty]()
			nd.base().Cust = cust
			t := reflect.TypeOf(nd).Elem()
			got := framework_helper.GetComponentName(nd)
			want := cust
			if want == "" {
				want = t.PkgPath() + "/" + t.Name()
			}
			c := hx.Case{Scn: fmt.Sprintf("N %s %s %s", hx.Hex(cust), hx.Hex(t.PkgPath()), hx.Hex(t.Name())), Obs: hx.Hex(got), Tags: []string{"name"}}
			if got != want {
				c.Oracle = fmt.Sprintf("FAIL c07-name registered name %q, expected %q", got, want)
			}
			w.Put(c)
			continue
		}
		k := 1 + r.Intn(8)
		var ops [][2]int
		for j := 0; j < k; j++ {
			ops = append(ops, [2]int{r.Intn(4), r.Intn(3)})
		}
		names := []string{pool[r.Intn(5)], pool[r.Intn(5)], pool[r.Intn(5)], pool[r.Intn(5)]}
		tags := []string{"history"}
		if k < 2 {
			tags = append(tags, "trivial")
		}
		runNamingHistory(ops, names, tags, w)
	}
}

func namingReplay(scn string, w *hx.Writer) {
	f := strings.Fields(scn)
	if len(f) < 2 || f[0] != "H" {
		return
	}
	var names []string
	idx := map[string]int{}
	var ops [][2]int
	for _, t := range f[1:] {
		p := strings.SplitN(t, ":", 2)
		if len(p) != 2 {
			return
		}
		nm, _ := hx.UnHex(p[0])
		var key int
		fmt.Sscan(p[1], &key)
		if _, ok := idx[nm]; !ok {
			idx[nm] = len(names)
			names = append(names, nm)
		}
		ops = append(ops, [2]int{idx[nm], key / 100})
	}
	for len(names) < 4 {
		names = append(names, "pad")
	}
	runNamingHistory(ops, names, []string{"replay"}, w)
}
