package main

// sub-harness `placeholder` (C16), ninth round: histories of SOURCES on the library's DEFAULT configure.
//
//	scenario     `R <route> <k> <TagStr-hex>×k <j> <step>×j <cfg>`
//	             step  = `D <doc>`             Configure.SetConfig(yaml of doc): the binder merges the document
//	                   | `A <doc>`             Configure.AddLoaders(RawLoader(yaml of doc)), then Configure.Initialize(): every
//	                                           loader of the configure is loaded again, in order, the new one last
//	                   | `P<path-hex> <value>` Configure.Set(path, value)
//	             cfg, doc, value in the prefix form of the other scenarios; route = d | a | z (what ELSE is run, see below)
//	observation  `<first>×k / <second>×k`, each `<TagVal-hex>` | `err` | `panic` | `hang`
//
// The configure is the one the library itself builds - configure.Default(), what app.NewApp() holds when no
// app.SetConfigure option is given - with the base document as its loader (SetLoaders(RawLoader), what
// app.SetConfigLoader does) and Initialize().  Every tag is resolved by the real processor on a real, fresh property
// (first); then the steps in order, all through the public API of Configure; then every tag is resolved AGAIN on a fresh
// property by a fresh processor (second).
//
// Routes (the observation is always the one above; the routes add real Apps, judged by oracles only):
//
//	a   an App from app.NewApp() - default configure - starts with a holder whose fields carry the tags (eager); the steps are
//	    applied to the RUNNING App (App embeds its Configure: app.SetConfig / app.AddLoaders + app.Initialize / app.Set); a
//	    second App that shares that Configure (app.SetConfigure) starts with a second holder carrying the same tags.  When
//	    the last step is an `A`, it is carried by the second start itself (app.AddConfigLoader as an option of the later start).
//	z   the tags are those of one of the harness's fixed component types (phLazyShapes): the App starts with an EAGER
//	    component and a LazyInit component of that shape; after the steps the lazy one is fetched with GetComponentByName -
//	    it is created, and its placeholders resolved, only then.
//
// Oracles: (a), (c) on both resolutions and (b) on the first as in every history; on the second resolution the harness
// substitutes under ITS OWN account of the configured values (phSrcView): for a key, the documents that say something at the
// key's path, in the order they were merged - the LAST one's value is the configured value.  It answers only where that is
// beyond doubt: every document that touches the path holds a scalar or a list exactly there (no map, no null, nothing
// above or below the path), the last document in the order of first merging and the last one in the order of actual merging
// (Initialize loads every loader again) agree, and no Set is near the path unless no later source touches it (then the
// account of the `H` histories, phCurView).  A second result that differs: placeholder-merge-stale when it is what the
// FIRST resolution gave, placeholder-merge-current otherwise.  Routes a / z: the strings the later component was bound
// with against the same substitution (same signatures), and against the direct resolution (placeholder-e2e).

import (
	"fmt"
	"reflect"
	"strconv"
	"strings"

	"github.com/go-kid/ioc/app"
	"github.com/go-kid/ioc/configure"
	"github.com/go-kid/ioc/configure/loader"
	"github.com/go-kid/ioc/definition"
	"github.com/go-kid/ioc/syslog"
	"gopkg.in/yaml.v3"

	"verifharness/internal/hx"
)

type phStep struct {
	kind byte   // 'D' SetConfig | 'A' AddLoaders + Initialize | 'P' Set
	path string // 'P' only
	val  *cval  // the document ('D', 'A') or the value ('P')
}

type phReload struct {
	route string
	tags  []string
	nodes [][]*phNode // per tag; nil = not from the grammar
	steps []phStep
	cfg   *cval
	lbl   []string
}

// ---------------------------------------------------------------- the fixed component types of route z

type phEagerRegion struct {
	Region   string `value:"${region:none},required=false"`
	Greeting string `value:"${greeting},required=false"`
	Path     string `value:"/srv/${region:none}/${region:none}.log,required=false"`
	Upper    string `value:"${REGION:none},required=false"`
}

type phLazyRegion struct {
	definition.LazyInitComponent
	Region   string `value:"${region:none},required=false"`
	Greeting string `value:"${greeting},required=false"`
	Path     string `value:"/srv/${region:none}/${region:none}.log,required=false"`
	Upper    string `value:"${REGION:none},required=false"`
}

func (*phLazyRegion) Naming() string { return "phLazyRegion" }

type phEagerSvc struct {
	Endpoint string `value:"${svc.url}/${svc.name},required=false"`
	Base     string `value:"${base},required=false"`
	Picked   string `value:"${svc.${which}},required=false"`
	TTL      string `value:"${cache.ttl:30}s,required=false"`
}

type phLazySvc struct {
	definition.LazyInitComponent
	Endpoint string `value:"${svc.url}/${svc.name},required=false"`
	Base     string `value:"${base},required=false"`
	Picked   string `value:"${svc.${which}},required=false"`
	TTL      string `value:"${cache.ttl:30}s,required=false"`
}

func (*phLazySvc) Naming() string { return "phLazySvc" }

type phLazyShape struct {
	name  string
	eager func() any
	lazy  func() any
}

var phLazyShapes = []phLazyShape{
	{"phLazyRegion", func() any { return &phEagerRegion{} }, func() any { return &phLazyRegion{} }},
	{"phLazySvc", func() any { return &phEagerSvc{} }, func() any { return &phLazySvc{} }},
}

// the value parts of the `value` tags of a component's string fields, in field order
func phShapeTags(c any) []string {
	t := reflect.TypeOf(c).Elem()
	var out []string
	for i := 0; i < t.NumField(); i++ {
		if v, ok := t.Field(i).Tag.Lookup("value"); ok {
			out = append(out, strings.TrimSuffix(v, ",required=false"))
		}
	}
	return out
}

func phShapeStrings(c any) []string {
	v := reflect.ValueOf(c).Elem()
	var out []string
	for i := 0; i < v.NumField(); i++ {
		if _, ok := v.Type().Field(i).Tag.Lookup("value"); ok {
			out = append(out, v.Field(i).String())
		}
	}
	return out
}

func phShapeFor(tags []string) *phLazyShape {
	for i := range phLazyShapes {
		st := phShapeTags(phLazyShapes[i].lazy())
		if len(st) != len(tags) {
			continue
		}
		same := true
		for j := range st {
			same = same && st[j] == tags[j]
		}
		if same {
			return &phLazyShapes[i]
		}
	}
	return nil
}

// ---------------------------------------------------------------- the harness's own account of the configured values

func phYaml(c *cval) []byte {
	if c == nil || c.kind != 'm' || len(c.xs) == 0 {
		return nil
	}
	b, err := yaml.Marshal(c.toAny())
	if err != nil {
		return nil
	}
	return b
}

// what a document says at a path: nothing (touch=false), a scalar or list exactly there (leaf), or something the oracle
// does not read (clean=false: a map or null at the path, a scalar / list / null above it)
func phTouch(doc *cval, path []string) (leaf *cval, touch, clean bool) {
	cur := doc
	for _, seg := range path {
		if cur.kind != 'm' {
			return nil, true, false
		}
		cur = cur.child(seg)
		if cur == nil {
			return nil, false, true
		}
	}
	if cur.kind == 'm' || cur.kind == 'z' {
		return nil, true, false
	}
	return cur, true, true
}

func phSameVal(a, b *cval) bool {
	if a.kind != b.kind || a.s != b.s || a.b != b.b || len(a.xs) != len(b.xs) {
		return false
	}
	for i := range a.xs {
		if (a.kind == 'm' && a.ks[i] != b.ks[i]) || !phSameVal(a.xs[i], b.xs[i]) {
			return false
		}
	}
	return true
}

type phSrcView struct {
	first  []*cval // the documents in the order they were merged for the first time: base, then those of the D / A steps
	actual []*cval // … in the order the binder was handed them (an `A` step loads every loader so far again)
	sets   *phCurView
	reload bool // some step is an `A`
}

func phNewSrcView(base *cval, steps []phStep) *phSrcView {
	v := &phSrcView{first: []*cval{base}, actual: []*cval{base}}
	loaders := []*cval{base}
	var ops []phOp
	for _, s := range steps {
		switch s.kind {
		case 'D':
			v.first, v.actual = append(v.first, s.val), append(v.actual, s.val)
		case 'A':
			loaders = append(loaders, s.val)
			v.first, v.actual = append(v.first, s.val), append(v.actual, loaders...)
			v.reload = true
		case 'P':
			ops = append(ops, phOp{s.path, s.val})
		}
	}
	v.sets = phNewCurView(base, ops)
	return v
}

func (v *phSrcView) lookup(key string) (*cval, bool) {
	if key == "" {
		return nil, false
	}
	path := strings.Split(strings.ToLower(key), ".")
	setNear := false
	for _, op := range v.sets.ops {
		if phIsPrefix(op, path) || phIsPrefix(path, op) {
			setNear = true
		}
	}
	if setNear {
		// Set and sources together: claimed only when no source merged after the start says anything at the path
		if v.reload {
			return nil, false
		}
		for _, d := range v.first[1:] {
			if _, touch, _ := phTouch(d, path); touch {
				return nil, false
			}
		}
		return v.sets.lookup(key)
	}
	last := func(docs []*cval) (*cval, bool) {
		var leaf *cval
		for _, d := range docs {
			l, touch, clean := phTouch(d, path)
			if !clean {
				return nil, false
			}
			if touch {
				leaf = l
			}
		}
		return leaf, true
	}
	byFirst, ok1 := last(v.first)
	byActual, ok2 := last(v.actual)
	if !ok1 || !ok2 {
		return nil, false
	}
	if byFirst == nil && byActual == nil {
		return nil, true // no source says anything there: absent
	}
	if byFirst == nil || byActual == nil || !phSameVal(byFirst, byActual) {
		return nil, false
	}
	return byFirst, true
}

// ---------------------------------------------------------------- running the real code

func phDefaultConfigure(yamlBytes []byte) (configure.Configure, error) {
	c := configure.Default()
	c.SetLoaders(loader.NewRawLoader(yamlBytes)) // what app.SetConfigLoader does
	return c, c.Initialize()
}

func phApplyStep(c configure.Configure, s phStep) error {
	switch s.kind {
	case 'D':
		return c.SetConfig(phYaml(s.val))
	case 'A':
		c.AddLoaders(loader.NewRawLoader(phYaml(s.val)))
		return c.Initialize()
	default:
		c.Set(s.path, s.val.toAny())
	}
	return nil
}

func phReloadScn(h *phReload) string {
	toks := []string{"R", h.route, strconv.Itoa(len(h.tags))}
	for _, t := range h.tags {
		toks = append(toks, hx.Hex(t))
	}
	toks = append(toks, strconv.Itoa(len(h.steps)))
	for _, s := range h.steps {
		switch s.kind {
		case 'P':
			toks = append(toks, hexTok("P", s.path))
		default:
			toks = append(toks, string(s.kind))
		}
		s.val.tokens(&toks)
	}
	h.cfg.tokens(&toks)
	return strings.Join(toks, " ")
}

// route a: two Apps, the second one shares the first one's (default) Configure.  second = the strings its holder was bound with
func phReloadTwoApps(h *phReload) (second []string, failed bool, pan any, ran bool) {
	var fs []reflect.StructField
	for i, t := range h.tags {
		tag := reflect.StructTag("value:" + strconv.Quote(t+",required=false"))
		if got, ok := tag.Lookup("value"); !ok || got != t+",required=false" {
			return nil, false, nil, false
		}
		fs = append(fs, reflect.StructField{Name: "V" + strconv.Itoa(i), Type: reflect.TypeOf(""), Tag: tag})
	}
	first := reflect.New(reflect.StructOf(fs))
	for i := range fs {
		fs[i].Name = "W" + strconv.Itoa(i)
	}
	late := reflect.New(reflect.StructOf(fs))
	var err1, err2, errStep error
	pan, hung := phWatch(func() {
		a := app.NewApp()
		err1 = a.Run(app.LogLevel(syslog.LvPanic), app.SetConfigLoader(loader.NewRawLoader(phYaml(h.cfg))), app.SetComponents(first.Interface()))
		if err1 != nil {
			return
		}
		opts := []app.SettingOption{app.LogLevel(syslog.LvPanic), app.SetConfigure(a.Configure)}
		steps := h.steps
		if n := len(steps); n > 0 && steps[n-1].kind == 'A' {
			// the last source is an option of the later start: AddLoaders, and that start's own Initialize
			opts = append(opts, app.AddConfigLoader(loader.NewRawLoader(phYaml(steps[n-1].val))))
			steps = steps[:n-1]
		} else {
			opts = append(opts, app.SetConfigLoader())
		}
		for _, s := range steps {
			if errStep = phApplyStep(a, s); errStep != nil {
				return
			}
		}
		err2 = app.NewApp().Run(append(opts, app.SetComponents(late.Interface()))...)
	})
	switch {
	case hung:
		return nil, false, "hang", true
	case pan != nil:
		return nil, false, pan, true
	case err1 != nil:
		return nil, false, nil, false // the first start fails (a tag that does not resolve): nothing to compare
	case errStep != nil:
		return nil, false, fmt.Sprintf("a step failed: %v", errStep), true
	case err2 != nil:
		return nil, true, nil, true
	}
	for i := range h.tags {
		second = append(second, late.Elem().Field(i).String())
	}
	return second, false, nil, true
}

// route z: one App, an eager and a LazyInit component of the shape; the lazy one is fetched after the steps
func phReloadLazy(h *phReload, shape *phLazyShape) (first, second []string, failed bool, pan any, ran bool) {
	eager, lazy := shape.eager(), shape.lazy()
	var err1, err2, errStep error
	pan, hung := phWatch(func() {
		a := app.NewApp()
		err1 = a.Run(app.LogLevel(syslog.LvPanic), app.SetConfigLoader(loader.NewRawLoader(phYaml(h.cfg))), app.SetComponents(eager, lazy))
		if err1 != nil {
			return
		}
		for _, s := range h.steps {
			if errStep = phApplyStep(a, s); errStep != nil {
				return
			}
		}
		var got any
		got, err2 = a.GetComponentByName(shape.name)
		if err2 == nil && got != lazy {
			err2 = fmt.Errorf("GetComponentByName(%q) returned another object", shape.name)
		}
	})
	switch {
	case hung:
		return nil, nil, false, "hang", true
	case pan != nil:
		return nil, nil, false, pan, true
	case err1 != nil:
		return nil, nil, false, nil, false
	case errStep != nil:
		return nil, nil, false, fmt.Sprintf("a step failed: %v", errStep), true
	case err2 != nil:
		return phShapeStrings(eager), nil, true, nil, true
	}
	return phShapeStrings(eager), phShapeStrings(lazy), false, nil, true
}

func runPhReload(h *phReload, w *hx.Writer) {
	if phHung {
		return
	}
	phQuiet.Do(func() { syslog.Level(syslog.LvPanic) })
	cfg, err := phDefaultConfigure(phYaml(h.cfg))
	if err != nil {
		return // a configuration YAML cannot carry; not a container matter
	}
	opaque := false
	judge := func(r phRun, tr phTrace, out *hx.Case, which string) {
		switch r.obs {
		case "hang":
			phHung = true
			if out.Oracle == "" {
				out.Oracle = "FAIL placeholder-hang no answer within 5s (" + which + " resolution)"
			}
		case "panic":
			if out.Oracle == "" {
				msg := fmt.Sprint(r.pan)
				switch {
				case tr.loneQuote && strings.Contains(msg, "slice bounds out of range [1:0]"):
					out.Oracle = "FAIL placeholder-panic-lone-quote " + msg
				case tr.getPanic && strings.Contains(msg, "index out of range [-"):
					out.Oracle = "FAIL placeholder-panic-negative-index " + msg
				default:
					out.Oracle = "FAIL placeholder-panic " + msg + " (" + which + " resolution)"
				}
			}
		case "err":
		default:
			if phQuote.MatchString(r.val) && out.Oracle == "" {
				out.Oracle = fmt.Sprintf("FAIL placeholder-left %s result %q still has a placeholder", which, r.val)
			}
		}
	}
	out := hx.Case{Tags: append([]string{"reload", "route-" + h.route}, h.lbl...)}
	var firsts, seconds []phRun
	for _, t := range h.tags {
		r := phDirect(cfg, t, true)
		tr := phRefTrace(cfg, t)
		opaque = opaque || tr.opaque
		firsts = append(firsts, r)
		judge(r, tr, &out, "first")
		if phHung {
			break
		}
	}
	stepErr := ""
	if !phHung {
		for i, s := range h.steps {
			var err error
			if pan := hx.Guard(func() { err = phApplyStep(cfg, s) }); pan != nil {
				if out.Oracle == "" {
					out.Oracle = fmt.Sprintf("FAIL placeholder-panic step %d (%c) panicked: %v", i, s.kind, pan)
				}
				stepErr = "steppanic"
				break
			}
			if err != nil {
				stepErr = "steperr"
				break
			}
		}
		for _, t := range h.tags {
			r := phDirect(cfg, t, true)
			tr := phRefTrace(cfg, t)
			opaque = opaque || tr.opaque
			seconds = append(seconds, r)
			judge(r, tr, &out, "second")
			if phHung {
				break
			}
		}
	}
	var obs []string
	for _, r := range firsts {
		obs = append(obs, r.obs)
	}
	obs = append(obs, "/")
	if stepErr != "" {
		obs = append(obs, stepErr) // a well-formed document / value was refused: the model has no such outcome
	}
	for _, r := range seconds {
		obs = append(obs, r.obs)
	}
	out.Scn, out.Obs = phReloadScn(h), strings.Join(obs, " ")
	if opaque {
		out.Scn = "# " + out.Scn
		out.Tags = append(out.Tags, "opaque")
	}
	// the substitution oracle: first resolution under the base document, second under the account of the sources
	view := phNewSrcView(h.cfg, h.steps)
	wants := make([]string, len(h.tags))
	haveWant := make([]bool, len(h.tags))
	judged := false
	for i := range h.tags {
		if out.Oracle != "" || stepErr != "" || i >= len(seconds) || h.nodes[i] == nil {
			continue
		}
		ev1 := &phEv{root: h.cfg}
		if want, ok := ev1.eval(h.nodes[i]); ok && firsts[i].obs != hx.Hex(want) {
			out.Oracle = fmt.Sprintf("FAIL placeholder-eval tag %q gives %q (obs %s), substitution gives %q", h.tags[i], firsts[i].val, firsts[i].obs, want)
			continue
		}
		ev2 := &phEv{root: h.cfg, look: view.lookup}
		if want, ok := ev2.eval(h.nodes[i]); ok {
			judged = true
			wants[i], haveWant[i] = want, true
			if seconds[i].obs != hx.Hex(want) {
				sig := "placeholder-merge-current"
				if seconds[i].obs == firsts[i].obs {
					sig = "placeholder-merge-stale"
				}
				out.Oracle = fmt.Sprintf("FAIL %s tag %q resolved again after the sources changed gives %q (obs %s; first %q), substitution under the configured values gives %q",
					sig, h.tags[i], seconds[i].val, seconds[i].obs, firsts[i].val, want)
			}
		}
	}
	if judged {
		out.Tags = append(out.Tags, "eval-oracle")
	}
	// routes a / z: real Apps
	plainRun := func(rs []phRun) bool {
		for _, r := range rs {
			if r.obs == "panic" || r.obs == "hang" || (r.obs != "err" && r.val != "" && !phPlain(r.val)) {
				return false
			}
		}
		return true
	}
	if h.route != "d" && out.Oracle == "" && stepErr == "" && !opaque && len(seconds) == len(h.tags) && plainRun(firsts) && plainRun(seconds) {
		commas := false
		for _, t := range h.tags {
			commas = commas || strings.Contains(t, ",") // the part behind a top-level comma would be read as tag arguments
		}
		var early, late []string
		var failed, ran bool
		var pan any
		what := "the second App"
		switch shape := phShapeFor(h.tags); {
		case h.route == "z" && shape != nil:
			early, late, failed, pan, ran = phReloadLazy(h, shape)
			what = "the LazyInit component fetched after the steps"
		case h.route == "a" && !commas:
			late, failed, pan, ran = phReloadTwoApps(h)
		}
		if ran {
			out.Tags = append(out.Tags, "e2e")
			anyErr := false
			for _, r := range seconds {
				anyErr = anyErr || r.obs == "err"
			}
			switch {
			case pan != nil:
				if pan == "hang" {
					phHung = true
				}
				out.Oracle = fmt.Sprintf("FAIL placeholder-e2e the App run panicked, hung or refused a step: %v", pan)
			case anyErr != failed:
				out.Oracle = fmt.Sprintf("FAIL placeholder-e2e later creation failed=%v, direct resolution failed=%v", failed, anyErr)
			case !failed:
				for i, r := range firsts {
					if early != nil && early[i] != r.val && out.Oracle == "" {
						out.Oracle = fmt.Sprintf("FAIL placeholder-e2e tag %q: direct %q at the start, the eager component was bound %q", h.tags[i], r.val, early[i])
					}
				}
				for i, r := range seconds {
					if out.Oracle != "" {
						break
					}
					switch {
					case haveWant[i] && (wants[i] == "" || phPlain(wants[i])) && late[i] != wants[i]:
						sig := "placeholder-merge-current"
						if late[i] == firsts[i].val {
							sig = "placeholder-merge-stale"
						}
						out.Oracle = fmt.Sprintf("FAIL %s tag %q: %s was bound %q (at the start the tag gave %q), substitution under the configured values gives %q",
							sig, h.tags[i], what, late[i], firsts[i].val, wants[i])
					case late[i] != r.val:
						out.Oracle = fmt.Sprintf("FAIL placeholder-e2e tag %q: direct %q after the steps, %s was bound %q", h.tags[i], r.val, what, late[i])
					}
				}
			}
		}
	}
	w.Put(out)
}

// ---------------------------------------------------------------- replay

func phReloadReplay(f []string, w *hx.Writer) {
	if len(f) < 3 || (f[1] != "d" && f[1] != "a" && f[1] != "z") {
		return
	}
	i := 2
	num := func() (int, bool) {
		if i >= len(f) {
			return 0, false
		}
		n, err := strconv.Atoi(f[i])
		i++
		return n, err == nil && n >= 0 && n < 1000
	}
	h := &phReload{route: f[1], lbl: []string{"replay"}}
	k, ok := num()
	if !ok {
		return
	}
	for ; k > 0; k-- {
		if i >= len(f) {
			return
		}
		t, err := hx.UnHex(f[i])
		if err != nil {
			return
		}
		i++
		h.tags = append(h.tags, t)
		nodes, ok := phParse(t)
		if !ok {
			nodes = nil
		}
		h.nodes = append(h.nodes, nodes)
	}
	j, ok := num()
	if !ok {
		return
	}
	for ; j > 0; j-- {
		if i >= len(f) || f[i] == "" {
			return
		}
		s := phStep{kind: f[i][0]}
		switch {
		case f[i] == "D" || f[i] == "A":
		case s.kind == 'P':
			if len(f[i]) > 1 {
				p, err := hx.UnHex(f[i][1:])
				if err != nil {
					return
				}
				s.path = p
			}
		default:
			return
		}
		v, rest, ok := parseCfgTokens(f[i+1:])
		if !ok || (s.kind != 'P' && v.kind != 'm') {
			return
		}
		s.val = v
		h.steps = append(h.steps, s)
		i = len(f) - len(rest)
	}
	cfg, rest, ok := parseCfgTokens(f[i:])
	if !ok || len(rest) != 0 || cfg.kind != 'm' {
		return
	}
	h.cfg = cfg
	runPhReload(h, w)
}

// ---------------------------------------------------------------- corpus

func phReloadOf(route string, cfg *cval, steps []phStep, lbl []string, tags ...string) *phReload {
	h := &phReload{route: route, cfg: cfg, steps: steps, lbl: lbl}
	for _, t := range tags {
		nodes, ok := phParse(t)
		if !ok {
			nodes = nil
		}
		h.tags = append(h.tags, t)
		h.nodes = append(h.nodes, nodes)
	}
	return h
}

func phReloadCorpus(w *hx.Writer) {
	lbl := []string{"corpus"}
	region := func() *cval { return phCfgOf("region", "us", "greeting", "hello from ${region}") }
	regionTags := phShapeTags(&phLazyRegion{})
	for _, steps := range [][]phStep{
		nil,
		{{kind: 'P', path: "region", val: cStr("ap")}},
		{{kind: 'D', val: phCfgOf("region", "eu")}},
		{{kind: 'A', val: phCfgOf("region", "eu")}},
		{{kind: 'D', val: phCfgOf("region", "eu")}, {kind: 'D', val: phCfgOf("region", "sa", "greeting", "${region} says hello")}},
		{{kind: 'A', val: phCfgOf("region", "eu")}, {kind: 'A', val: phCfgOf("greeting", "welcome to ${region}")}},
		{{kind: 'D', val: phCfgOf("region", "eu")}, {kind: 'A', val: phCfgOf("other", "x")}}, // Initialize loads the base document again
		{{kind: 'D', val: phCfgOf("other", "x")}},
		{{kind: 'P', path: "region", val: cStr("ap")}, {kind: 'D', val: phCfgOf("region", "eu")}}, // what was Set stays in front
		{{kind: 'D', val: phCfgOf("region", "eu")}, {kind: 'P', path: "REGION", val: cStr("ap")}},
		{{kind: 'D', val: phCfgOf("region", phCfgOf("name", "eu"))}}, // a section where the scalar was
		{{kind: 'D', val: phCfgOf("region", nil)}},
	} {
		for _, route := range []string{"d", "a", "z"} {
			runPhReload(phReloadOf(route, region(), steps, lbl, regionTags...), w)
		}
	}
	svc := func() *cval {
		return phCfgOf("svc", phCfgOf("url", "http://old.example", "name", "billing"), "base", "${svc.url}/v1", "which", "url",
			"db", phCfgOf("host", "primary", "port", 5432), "l", &cval{kind: 'l', xs: []*cval{cNum("1"), cStr("x")}})
	}
	svcTags := phShapeTags(&phLazySvc{})
	for _, steps := range [][]phStep{
		{{kind: 'D', val: phCfgOf("svc", phCfgOf("url", "http://new.example"))}},
		{{kind: 'A', val: phCfgOf("svc", phCfgOf("url", "http://new.example", "name", "ledger"), "cache", phCfgOf("ttl", 60))}},
		{{kind: 'D', val: phCfgOf("which", "name")}, {kind: 'A', val: phCfgOf("cache", phCfgOf("ttl", 45))}, {kind: 'D', val: phCfgOf("which", "url")}},
		{{kind: 'D', val: phCfgOf("svc", "gone")}},                                                // a scalar over the section: the section stays (viper keeps the map)
		{{kind: 'D', val: phCfgOf("base", "${svc.name}@${svc.url}", "svc", phCfgOf("name", "x"))}}, // the value that carries placeholders changes
	} {
		for _, route := range []string{"d", "a", "z"} {
			runPhReload(phReloadOf(route, svc(), steps, lbl, svcTags...), w)
		}
	}
	for _, steps := range [][]phStep{
		{{kind: 'D', val: phCfgOf("db", phCfgOf("host", "replica"))}},
		{{kind: 'A', val: phCfgOf("db", phCfgOf("port", 6543), "l", &cval{kind: 'l', xs: []*cval{cStr("only")}})}},
		{{kind: 'D', val: phCfgOf("l", phCfgOf("0", "zero"))}},
		{{kind: 'D', val: phCfgOf("db", phCfgOf("host", phCfgOf("name", "replica")))}, {kind: 'P', path: "db.port", val: cNum("1")}},
	} {
		runPhReload(phReloadOf("a", svc(), steps, lbl, "${db.host}:${db.port}", "${DB.HOST}", "${l}", "${l.0}", "${l.1:none}", "${db}", "${}", "${nope:${db.host}}"), w)
	}
}

// ---------------------------------------------------------------- generator

func phPutPath(doc *cval, segs []string, v *cval) {
	cur := doc
	for _, seg := range segs[:len(segs)-1] {
		next := cur.child(seg)
		if next == nil || next.kind != 'm' {
			next = cMap()
			cur.put(seg, next)
		}
		cur = next
	}
	cur.put(segs[len(segs)-1], v)
}

// a document that says something at, above, below or beside some of the given paths (keys the tags look up)
func phDocNear(r *hx.Rng, root *cval, paths []string) *cval {
	doc := cMap()
	for n, k := 0, 1+r.Intn(3); n < k; n++ {
		path := "z" + phKeyName(r)
		if len(paths) > 0 && r.P(5, 6) {
			path = strings.ToLower(paths[r.Intn(len(paths))])
		}
		segs := strings.Split(path, ".")
		cur, _ := phLookup(root, path)
		switch c := r.Intn(12); {
		case c < 7: // another scalar at the path
			phPutPath(doc, segs, phVaryScalar(r, cur))
			if r.P(1, 4) && len(segs) > 1 {
				phPutPath(doc, append(append([]string{}, segs[:len(segs)-1]...), "z"+phKeyName(r)), phScalar(r))
			}
		case c < 8: // a value that carries a placeholder itself
			other := "z" + phKeyName(r)
			if len(paths) > 0 {
				other = strings.ToLower(paths[r.Intn(len(paths))])
			}
			if other == path {
				other = "zz"
			}
			phPutPath(doc, segs, cStr(phAtom(r, 2)+"${"+other+":d}"))
		case c < 9: // something below the path
			phPutPath(doc, append(append([]string{}, segs...), []string{"zz", "x", "0", phKeyName(r)}[r.Intn(4)]), phVaryScalar(r, nil))
		case c < 10: // a map / a list / nothing / null at the path
			phPutPath(doc, segs, []*cval{cMap(), {kind: 'l'}, phCfgOf("x", "y"), {kind: 'l', xs: []*cval{cStr("e0")}}, {kind: 'z'}}[r.Intn(5)])
		case c < 11 && len(segs) > 1: // a scalar where the section above the path is
			phPutPath(doc, segs[:len(segs)-1], phVaryScalar(r, nil))
		default: // the same value once more
			if cur != nil && cur.kind != 'm' {
				phPutPath(doc, segs, cur.clone())
			} else {
				phPutPath(doc, segs, phVaryScalar(r, cur))
			}
		}
	}
	return doc
}

func phStepsNear(r *hx.Rng, root *cval, paths []string) []phStep {
	var steps []phStep
	for n, k := 0, 1+r.Intn(3); n < k; n++ {
		switch c := r.Intn(20); {
		case c < 9:
			steps = append(steps, phStep{kind: 'D', val: phDocNear(r, root, paths)})
		case c < 17:
			steps = append(steps, phStep{kind: 'A', val: phDocNear(r, root, paths)})
		default:
			path := "z" + phKeyName(r)
			if len(paths) > 0 {
				path = paths[r.Intn(len(paths))]
			}
			for _, o := range phOpsNear(r, root, path) {
				steps = append(steps, phStep{kind: 'P', path: o.path, val: o.val})
			}
		}
	}
	return steps
}

func phWord(r *hx.Rng) string {
	n := 2 + r.Intn(5)
	b := make([]byte, n)
	for i := range b {
		b[i] = "abcdeghiklmnoprstuw"[r.Intn(19)]
	}
	return string(b)
}

// route z: the configuration of a fixed shape with random plain values, and sources that change its keys
func phLazyCase(r *hx.Rng) *phReload {
	si := r.Intn(len(phLazyShapes))
	var cfg *cval
	var paths []string
	if si == 0 {
		cfg = cMap()
		if r.P(5, 6) {
			cfg.put("region", cStr(phWord(r)))
		}
		cfg.put("greeting", cStr([]string{"hello from ${region}", "${region:nowhere} calling", "plain " + phWord(r), "${region}-${region}"}[r.Intn(4)]))
		paths = []string{"region", "region", "greeting"}
	} else {
		cfg = phCfgOf("svc", phCfgOf("url", "http://"+phWord(r), "name", phWord(r)), "base", "${svc.url}/v1", "which", []string{"url", "name"}[r.Intn(2)])
		if r.P(1, 3) {
			cfg.put("cache", phCfgOf("ttl", 10+r.Intn(80)))
		}
		paths = []string{"svc.url", "svc.url", "svc.name", "which", "cache.ttl", "base"}
	}
	var steps []phStep
	for n, k := 0, 1+r.Intn(2); n < k; n++ {
		doc := cMap()
		for m, j := 0, 1+r.Intn(2); m < j; m++ {
			p := paths[r.Intn(len(paths))]
			var v *cval
			switch p {
			case "which":
				v = cStr([]string{"url", "name"}[r.Intn(2)])
			case "cache.ttl":
				v = cNum(strconv.Itoa(10 + r.Intn(80)))
			case "base":
				v = cStr([]string{"${svc.name}@${svc.url}", "${svc.url}/v2", phWord(r)}[r.Intn(3)])
			case "greeting":
				v = cStr([]string{"welcome to ${region}", "${region} says hello", phWord(r)}[r.Intn(3)])
			case "svc.url":
				v = cStr("http://" + phWord(r))
			default:
				v = cStr(phWord(r))
			}
			phPutPath(doc, strings.Split(p, "."), v)
		}
		switch c := r.Intn(10); {
		case c < 5:
			steps = append(steps, phStep{kind: 'D', val: doc})
		case c < 9:
			steps = append(steps, phStep{kind: 'A', val: doc})
		default:
			p := paths[r.Intn(len(paths))]
			steps = append(steps, phStep{kind: 'P', path: phCasing(r, p), val: cStr(phWord(r))})
		}
	}
	return phReloadOf("z", cfg, steps, []string{"reload-lazy", phLazyShapes[si].name}, phShapeTags(phLazyShapes[si].lazy())...)
}

func phGenReload(rng *hx.Rng, groups int, w *hx.Writer) {
	for i := 0; i < groups; i++ {
		r := rng.Fork()
		route := "d"
		if r.P(1, 6) {
			route = "a"
		}
		switch i % 4 {
		case 0:
			runPhReload(phLazyCase(r), w)
		case 1, 3:
			// designed in levels (leaves, keys whose values carry placeholders): the sources change leaf keys; the tag and the
			// leaves themselves are resolved before and after
			cfg, nodes, tags, info := phIndirectCase(r)
			h := &phReload{route: route, cfg: cfg, lbl: append(append([]string{}, tags...), "reload-indirect")}
			h.tags, h.nodes = []string{phRender(nodes)}, [][]*phNode{nodes}
			var paths []string
			for n, k := 0, 1+r.Intn(2); n < k; n++ {
				leaf := info.leaves[r.Intn(len(info.leaves))]
				ref := []*phNode{{key: []*phNode{{lit: phCasing(r, leaf.name)}}}}
				if leaf.absent || r.P(1, 3) {
					ref[0].hasD, ref[0].def = true, []*phNode{{lit: "dflt"}}
				}
				h.tags, h.nodes = append(h.tags, phRender(ref)), append(h.nodes, ref)
				paths = append(paths, leaf.name, leaf.name)
			}
			if r.P(1, 3) {
				paths = append(paths, info.mids[0].name)
			}
			h.steps = phStepsNear(r, cfg, paths)
			runPhReload(h, w)
		default:
			cfg0 := phRandomCfg(r)
			g := &phGenCtx{r: r, cfg: cfg0}
			phPaths(cfg0, "", &g.paths)
			h := &phReload{route: route, cfg: cfg0, lbl: []string{"reload-random"}}
			for n, k := 0, 1+r.Intn(3); n < k; n++ {
				g.nph = 0
				nodes := g.tag()
				h.tags, h.nodes = append(h.tags, phRender(nodes)), append(h.nodes, nodes)
			}
			h.steps = phStepsNear(r, cfg0, g.paths)
			runPhReload(h, w)
		}
	}
}
