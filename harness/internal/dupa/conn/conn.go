// Package conn (verifharness/internal/dupa/conn) is one of TWO packages of the harness that are both called `conn` and both
// declare the types Conn, Pool and Sess (the other one: verifharness/internal/dupb/conn). The types of the two packages
// are different Go types, but reflect.Type.String() prints them the same way (`*conn.Conn`, …): whatever the container
// keeps per TYPE must be kept per reflect.Type, never per type text. Here Conn, Pool and Sess are all CLOSER components.
// Used by the `closed` scenarios of the concurrency sub-harness (cmd/harness/sub_conc.go).
package conn

import (
	"sync/atomic"
	"time"
)

// State counts invocations of Close and completed invocations.
type State struct {
	Calls, Done int32
}

func (s *State) close() error {
	atomic.AddInt32(&s.Calls, 1)
	time.Sleep(200 * time.Microsecond)
	atomic.AddInt32(&s.Done, 1)
	return nil
}

// Sample reads the counters.
func (s *State) Sample() (calls, done int32) {
	return atomic.LoadInt32(&s.Calls), atomic.LoadInt32(&s.Done)
}

// Conn is named by the container after its type (verifharness/internal/dupa/conn/Conn).
type Conn struct {
	St *State
}

func (c *Conn) Close() error { return c.St.close() }

// Pool names itself.
type Pool struct {
	N  string
	St *State
}

func (p *Pool) Naming() string { return p.N }
func (p *Pool) Close() error   { return p.St.close() }

// Sess is a closer in BOTH packages.
type Sess struct {
	St *State
}

func (s *Sess) Close() error { return s.St.close() }
