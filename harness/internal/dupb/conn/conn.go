// Package conn (verifharness/internal/dupb/conn): the second of two packages called `conn` (see
// verifharness/internal/dupa/conn). Its Conn and Pool have NOTHING to close (they are ordinary components that print
// exactly like the closers `*conn.Conn` / `*conn.Pool` of the other package); its Sess is a closer like the other Sess.
package conn

import (
	"sync/atomic"
	"time"
)

// State counts invocations of Close and completed invocations.
type State struct {
	Calls, Done int32
}

// Sample reads the counters.
func (s *State) Sample() (calls, done int32) {
	return atomic.LoadInt32(&s.Calls), atomic.LoadInt32(&s.Done)
}

// Conn is named by the container after its type (verifharness/internal/dupb/conn/Conn); it is not a closer.
type Conn struct {
	Uses int
}

// Pool names itself; it is not a closer.
type Pool struct {
	N string
}

func (p *Pool) Naming() string { return p.N }

// Sess is a closer in BOTH packages.
type Sess struct {
	St *State
}

func (s *Sess) Close() error {
	atomic.AddInt32(&s.St.Calls, 1)
	time.Sleep(200 * time.Microsecond)
	atomic.AddInt32(&s.St.Done, 1)
	return nil
}
