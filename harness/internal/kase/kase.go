// Package kase (verifharness/internal/kase) declares closer component types whose NAMES DIFFER ONLY IN LETTER CASE: the
// exported type Pool next to the package-internal types pool, pOOL and POOL (and Hub, which the harness pairs with
// self-named closers called …/kase/hub, …/kase/HUB). Go treats them as unrelated types and so does the container: it names
// them after their types, `verifharness/internal/kase/Pool`, `…/kase/pool`, … — four different component names. Whatever
// the container keys by component name must be keyed by the exact name. Used by the `closec` scenarios of the concurrency
// sub-harness (cmd/harness/sub_conc.go).
package kase

import (
	"errors"
	"sync/atomic"
	"time"
)

// State carries what a closer does (delay, error) and counts invocations of Close and completed invocations.
type State struct {
	Delay       time.Duration
	Fail        bool
	Calls, Done int32
}

func (s *State) close() error {
	atomic.AddInt32(&s.Calls, 1)
	if s.Delay > 0 {
		time.Sleep(s.Delay)
	}
	atomic.AddInt32(&s.Done, 1)
	if s.Fail {
		return errors.New("close failed")
	}
	return nil
}

// Sample reads the counters.
func (s *State) Sample() (calls, done int32) {
	return atomic.LoadInt32(&s.Calls), atomic.LoadInt32(&s.Done)
}

// Pool is the exported closer of this package; pool, pOOL and POOL are internal ones. All are named by the container after
// their types.
type Pool struct{ St *State }

type pool struct{ St *State }

type pOOL struct{ St *State }

type POOL struct{ St *State }

func (p *Pool) Close() error { return p.St.close() }
func (p *pool) Close() error { return p.St.close() }
func (p *pOOL) Close() error { return p.St.close() }
func (p *POOL) Close() error { return p.St.close() }

// PoolVariants: the spellings, in the order the harness numbers them.
var PoolVariants = []string{"pool", "Pool", "POOL", "pOOL"}

// NewPool returns a closer component of the type spelled PoolVariants[i%4].
func NewPool(i int, st *State) any {
	switch i % 4 {
	case 0:
		return &pool{st}
	case 1:
		return &Pool{st}
	case 2:
		return &POOL{st}
	}
	return &pOOL{st}
}

// Hub is a closer named by the container after its type: verifharness/internal/kase/Hub.
type Hub struct{ St *State }

func (h *Hub) Close() error { return h.St.close() }

// HubName is the component name the container derives for *Hub.
const HubName = "verifharness/internal/kase/Hub"
