// Package hx holds what every sub-harness shares: the seeded PRNG, the hex token
// encoding of the line protocol, the case writer and the watchdog/recover wrapper.
package hx

import (
	"bufio"
	"encoding/hex"
	"fmt"
	"os"
	"sort"
	"strings"
)

// Rng is splitmix64; every random choice of a run derives from one state.
type Rng struct{ s uint64 }

// NewRng scrambles the seed through one splitmix step, so that consecutive seeds give unrelated streams
// (with a plain multiple of the increment, seed s+1 would be seed s shifted by one draw).
func NewRng(seed uint64) *Rng {
	r := &Rng{s: seed ^ 0x5851F42D4C957F2D}
	return &Rng{s: r.U64() ^ (seed * 0xD1342543DE82EF95)}
}

func (r *Rng) U64() uint64 {
	r.s += 0x9E3779B97F4A7C15
	z := r.s
	z = (z ^ (z >> 30)) * 0xBF58476D1CE4E5B9
	z = (z ^ (z >> 27)) * 0x94D049BB133111EB
	return z ^ (z >> 31)
}

// Intn returns a value in [0,n); n<=0 gives 0.
func (r *Rng) Intn(n int) int {
	if n <= 0 {
		return 0
	}
	return int(r.U64() % uint64(n))
}

func (r *Rng) Bool() bool { return r.U64()&1 == 1 }

// P is true with probability num/den.
func (r *Rng) P(num, den int) bool { return r.Intn(den) < num }

// Fork derives an independent stream (so that adding draws in one place does not shift others).
func (r *Rng) Fork() *Rng { return &Rng{s: r.U64()} }

// Perm returns a permutation of 0..n-1.
func (r *Rng) Perm(n int) []int {
	p := make([]int, n)
	for i := range p {
		p[i] = i
	}
	for i := n - 1; i > 0; i-- {
		j := r.Intn(i + 1)
		p[i], p[j] = p[j], p[i]
	}
	return p
}

// Hex encodes a byte string as one token; the empty string is "-".
func Hex(s string) string {
	if s == "" {
		return "-"
	}
	return hex.EncodeToString([]byte(s))
}

func UnHex(t string) (string, error) {
	if t == "-" {
		return "", nil
	}
	b, err := hex.DecodeString(t)
	return string(b), err
}

// Case is one line of the cases file: scenario, implementation observation, oracle verdict, labels.
type Case struct {
	Scn    string   // what the model driver reads
	Obs    string   // canonical observation of the real code
	Oracle string   // "ok" | "FAIL <signature> <detail>"
	Tags   []string // labels for the input distribution; "trivial" marks a trivial case
}

type Writer struct {
	w *bufio.Writer
	f *os.File
	N int
}

func NewWriter(path string) (*Writer, error) {
	f, err := os.Create(path)
	if err != nil {
		return nil, err
	}
	return &Writer{w: bufio.NewWriterSize(f, 1<<20), f: f}, nil
}

func clean(s string) string {
	s = strings.ReplaceAll(s, "\t", " ")
	s = strings.ReplaceAll(s, "\n", " ")
	return s
}

func (w *Writer) Put(c Case) {
	if c.Oracle == "" {
		c.Oracle = "ok"
	}
	sort.Strings(c.Tags)
	fmt.Fprintf(w.w, "%s\t%s\t%s\t%s\n", clean(c.Scn), clean(c.Obs), clean(c.Oracle), strings.Join(c.Tags, ","))
	w.N++
}

func (w *Writer) Close() error {
	if err := w.w.Flush(); err != nil {
		return err
	}
	return w.f.Close()
}

// Guard runs f and reports a panic as a value.
func Guard(f func()) (pan any) {
	defer func() { pan = recover() }()
	f()
	return nil
}

// Flush pushes buffered cases to the file (for a child process that may be killed, e.g. by the race detector).
func (w *Writer) Flush() error { return w.w.Flush() }
