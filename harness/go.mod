module verifharness

go 1.20

require (
	github.com/go-kid/ioc v0.0.0
	github.com/expr-lang/expr v1.16.9
	github.com/go-kid/properties v0.0.6
	github.com/go-kid/strconv2 v0.0.2
	github.com/go-kid/strings2 v0.0.1
	github.com/go-playground/validator/v10 v10.22.0
	github.com/mitchellh/mapstructure v1.5.0
	github.com/pkg/errors v0.9.1
	github.com/samber/lo v1.46.0
	github.com/spf13/viper v1.19.0
	github.com/stretchr/testify v1.9.0
	gopkg.in/yaml.v3 v3.0.1
	github.com/davecgh/go-spew v1.1.2-0.20180830191138-d8f796af33cc // indirect
	github.com/fsnotify/fsnotify v1.7.0 // indirect
	github.com/gabriel-vasile/mimetype v1.4.3 // indirect
	github.com/go-playground/locales v0.14.1 // indirect
	github.com/go-playground/universal-translator v0.18.1 // indirect
	github.com/hashicorp/hcl v1.0.0 // indirect
	github.com/leodido/go-urn v1.4.0 // indirect
	github.com/magiconair/properties v1.8.7 // indirect
	github.com/pelletier/go-toml/v2 v2.2.2 // indirect
	github.com/pmezard/go-difflib v1.0.1-0.20181226105442-5d4384ee4fb2 // indirect
	github.com/sagikazarmark/locafero v0.4.0 // indirect
	github.com/sagikazarmark/slog-shim v0.1.0 // indirect
	github.com/sourcegraph/conc v0.3.0 // indirect
	github.com/spf13/afero v1.11.0 // indirect
	github.com/spf13/cast v1.6.0 // indirect
	github.com/spf13/pflag v1.0.5 // indirect
	github.com/subosito/gotenv v1.6.0 // indirect
	go.uber.org/atomic v1.9.0 // indirect
	go.uber.org/multierr v1.9.0 // indirect
	golang.org/x/crypto v0.21.0 // indirect
	golang.org/x/exp v0.0.0-20230905200255-921286631fa9 // indirect
	golang.org/x/net v0.23.0 // indirect
	golang.org/x/sys v0.18.0 // indirect
	golang.org/x/text v0.16.0 // indirect
	gopkg.in/ini.v1 v1.67.0 // indirect
)

replace github.com/go-kid/ioc => /repo
