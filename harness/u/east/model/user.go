// Package model (east): a component type whose short name `model.User` collides with the west package's.
package model

type User struct{ Custom string }

func (u *User) Naming() string { return u.Custom }
