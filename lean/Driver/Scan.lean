/-
  Driver.Scan — line protocol of the `scan` sub-harness (C11).
    in :  `<mode> <n> node*`   one component type in prefix notation (mode `G` / `X<k>` is ignored here)
          mode `G+<pos><ret>`: the same component started next to an EXTRA user post-processor ahead of the recording one
          (pos f|l) whose PostProcessProperties returns nil / the list / a reversed, empty or partial list (ret n|s|r|e|b|m|p).
          ResolveAfterInstantiation drops that result (`Scan.handedLoop`, C11_handed_all, C11_code_handed), and the extra
          processor registers no tag scanner, so the definition printed here is the same as for mode `G`.
          mode `X<k>@<cls>[<order>]`: the component is ITSELF a non-lazy user post-processor (cls u = not Ordered, o = Ordered,
          p = Ordered and Priority, Order() = <order>), started next to the built-in processors (`Facts.builtinProcessors`:
          names, Priority, LazyInit, Order() regenerated from /repo) and an ORDERED lazy recording processor (Order() = 50).
          It is created inside the registration loop (`Scan.populateLoop` over `Order.sortOrdered`), by the processors sorted
          ahead of it; the definition is the same, the output gets the suffix ` pp rec=<c>`: c = 1 when the recorder is in
          that chain (it is then handed the holder's properties once), else 0.
          node = L <name> <ty> <marker> <ntags> (<key> <valhex>)*
               | S <name> <ty> <marker> <av|ap|nv|np> <ntags> (<key> <valhex>)* <nkids> node*
    out:  `fields <n> <path>… props <m> <path>/<tag>/<ptype>/<valhex>/<args>…`
          fields in scan order; properties of the five built-in scanners and of the custom `mytag`
          scanner, sorted as text (path, then tag); args as in Driver.Tag.
-/
import Ioc.Scan
import Ioc.Order
import Ioc.Generated.Facts
import Driver.Tag
namespace Driver.Scan
open Ioc Ioc.Scan

def str (b : Bytes) : String := String.ofList (b.map fun x => Char.ofNat x.toNat)

def isUpperName (s : String) : Bool :=
  match s.toList with
  | c :: _ => 'A' ≤ c && c ≤ 'Z'
  | [] => false

def readTags : Nat → List String → Option (List (Bytes × Bytes) × List String)
  | 0, ts => some ([], ts)
  | n+1, k :: v :: ts =>
    match fromHex v, readTags n ts with
    | some vb, some (r, ts') => some ((ofString k, vb) :: r, ts')
    | _, _ => none
  | _, _ => none

def readInfo (name ty mk : String) (tags : List (Bytes × Bytes)) : Option FInfo :=
  let marker : Option (Option Bytes) := if mk = "." then some none else (fromHex mk).map some
  marker.map fun m => ⟨ofString name, isUpperName name, tags, ofString ty, m⟩

mutual
def readNode : Nat → List String → Option (FieldT × List String)
  | 0, _ => none
  | _+1, "L" :: name :: ty :: mk :: nt :: ts =>
    match nt.toNat? with
    | none => none
    | some n =>
      match readTags n ts with
      | none => none
      | some (tags, ts1) => (readInfo name ty mk tags).map fun i => (.leaf i, ts1)
  | fuel+1, "S" :: name :: ty :: mk :: fl :: nt :: ts =>
    match nt.toNat? with
    | none => none
    | some n =>
      match readTags n ts with
      | none => none
      | some (tags, ts1) =>
        match readInfo name ty mk tags, readKids fuel ts1 with
        | some i, some (kids, ts2) =>
          let anon := fl.startsWith "a"
          let byv := fl.endsWith "v"
          some (.struct i anon byv kids, ts2)
        | _, _ => none
  | _, _ => none
def readKids : Nat → List String → Option (Shape × List String)
  | 0, _ => none
  | fuel+1, nk :: ts =>
    match nk.toNat? with
    | none => none
    | some k => readSeq fuel k ts
  | _, _ => none
def readSeq : Nat → Nat → List String → Option (Shape × List String)
  | 0, _, _ => none
  | _+1, 0, ts => some (.nil, ts)
  | fuel+1, k+1, ts =>
    match readNode fuel ts with
    | none => none
    | some (f, ts1) =>
      match readSeq fuel k ts1 with
      | none => none
      | some (r, ts2) => some (.cons f r, ts2)
end

def customTag : Bytes := ofString "mytag"

/-- the scanners registered in a harness run: the built-in five and the recording processor -/
def procs : List TagProc := builtinProcs ++ [customProc ntConfiguration customTag]

def showPath (p : List Bytes) : String := joinWith "." (p.map str)

def showProp (p : Property) : String :=
  showPath p.field.fullPath ++ "/" ++ str p.tag ++ "/" ++ str p.nodeType ++ "/" ++ toHex p.tagVal ++ "/" ++ Driver.Tag.showArgs p.args

def render (sh : Shape) : String :=
  let fs := scan sh
  let head := "fields " ++ toString fs.length ++ String.join (fs.map fun f => " " ++ showPath f.fullPath)
  match properties? procs fs with
  | none => head ++ " panic"
  | some ps =>
    let lines := isort (fun a b => decide (a < b)) (ps.map showProp)
    head ++ " props " ++ toString lines.length ++ String.join (lines.map fun l => " " ++ l)

/-- what the extra processor of a `G+<pos><ret>` line returns for the list it is handed (the content-chosen part `p` is
    some sublist: which one does not matter, the result is dropped) -/
def extraRet (ret : Char) : Option PropsRet :=
  if ret = 'n' then some (fun _ => none)
  else if ret = 's' then some (fun l => some l)
  else if ret = 'r' then some (fun l => some l.reverse)
  else if ret = 'e' then some (fun _ => some [])
  else if ret = 'b' then some (fun l => some (l.filter (fun q => q.tag ≠ customTag)))
  else if ret = 'm' then some (fun l => some (ofTag customTag l))
  else if ret = 'p' then some (fun l => some (l.take (l.length / 2)))
  else none

/-- the chain of a `G+` line as far as C11 looks at it: the extra processor, then the recording one (which returns nil) -/
def chainOf (mode : String) : Option (List PropsRet) :=
  match mode.toList with
  | ['G', '+', pos, ret] =>
    if pos = 'f' || pos = 'l' then (extraRet ret).map (fun r => [r, fun _ => none]) else none
  | _ => if mode.startsWith "G+" then none else some [fun _ => none]

/-! ### a holder that is itself a post-processor (mode `X<k>@<cls>[<order>]`) -/

/-- a participant of the registration: name, what SortOrderedComponents sees of it, LazyInit -/
structure PPart where
  name : String
  part : Order.Part
  lazy : Bool

def recorderName : String := "recorder"
def holderName : String := "holder"

/-- the harness' recorder in these runs: Ordered (not Priority) with Order() = 50, lazy -/
def recorderPart : PPart := ⟨recorderName, .ord 50, true⟩

def builtinParts : List PPart :=
  Facts.builtinProcessors.map fun f => ⟨f.name, Order.Part.ofIfaces (some f.order) f.priority, f.lazy⟩

/-- `@u` / `@o<int>` / `@p<int>` -/
def holderPart? (suffix : String) : Option Order.Part :=
  match suffix.toList with
  | ['u'] => some .plain
  | 'o' :: ds => (String.ofList ds).toInt?.map .ord
  | 'p' :: ds => (String.ofList ds).toInt?.map .prio
  | _ => none

/-- the chain the holder is populated by: registration order is irrelevant here (the keys of holder and recorder differ from
    every other key), the sort is the driver's insertion sort -/
def holderChain (hp : Order.Part) : Option (List String) :=
  let raw := builtinParts ++ [recorderPart, ⟨holderName, hp, false⟩]
  let sorted := Order.sortOrdered (fun lt l => isort lt l) PPart.part raw
  populatedBy (sorted.map fun p => ⟨p.name, p.lazy⟩) [] holderName

/-- `some ""` for a plain holder, `some " pp rec=<c>"` for a processor holder, `none` for a malformed mode -/
def holderSuffix (mode : String) : Option String :=
  match mode.splitOn "@" with
  | [_] => some ""
  | [_, suf] =>
    (holderPart? suf).map fun hp =>
      let c := match holderChain hp with
        | some chain => if chain.contains recorderName then 1 else 0
        | none => 0
      " pp rec=" ++ toString c
  | _ => none

def handle (line : String) : String :=
  match (line.splitOn " ").filter (· ≠ "") with
  | mode :: ts =>
    match holderSuffix mode, chainOf mode, readKids (3 * ts.length + 10) ts with
    | some suffix, some chain, some (sh, []) =>
      -- the recorder (last of the chain) is handed everything: what it finds under its tag is the custom scanner's output
      let fs := scan sh
      match properties? procs fs with
      | none => render sh ++ suffix
      | some ps =>
        let handed := (handedLoop ps chain).getLast?.getD []
        if (ofTag customTag handed).length = (ofTag customTag ps).length then render sh ++ suffix else "recorder-starved"
    | _, _, _ => "bad-line"
  | [] => "bad-line"

end Driver.Scan
