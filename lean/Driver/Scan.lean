/-
  Driver.Scan — line protocol of the `scan` sub-harness (C11).
    in :  `<mode> <n> node*`   one component type in prefix notation (mode `G` / `X<k>` is ignored here)
          node = L <name> <ty> <marker> <ntags> (<key> <valhex>)*
               | S <name> <ty> <marker> <av|ap|nv|np> <ntags> (<key> <valhex>)* <nkids> node*
    out:  `fields <n> <path>… props <m> <path>/<tag>/<ptype>/<valhex>/<args>…`
          fields in scan order; properties of the five built-in scanners and of the custom `mytag`
          scanner, sorted as text (path, then tag); args as in Driver.Tag.
-/
import Ioc.Scan
import Driver.Tag
namespace Driver.Scan
open Ioc Ioc.Scan

def str (b : Bytes) : String := String.ofList (b.map fun x => Char.ofNat x.toNat)

def isUpperName (s : String) : Bool :=
  match s.toList with
  | c :: _ => 'A' ≤ c && c ≤ 'Z'
  | [] => false

def readTags : Nat → List String → Option (List (Bytes × Bytes) × List String)
  | 0, ts => some ([], ts)
  | n+1, k :: v :: ts =>
    match fromHex v, readTags n ts with
    | some vb, some (r, ts') => some ((ofString k, vb) :: r, ts')
    | _, _ => none
  | _, _ => none

def readInfo (name ty mk : String) (tags : List (Bytes × Bytes)) : Option FInfo :=
  let marker : Option (Option Bytes) := if mk = "." then some none else (fromHex mk).map some
  marker.map fun m => ⟨ofString name, isUpperName name, tags, ofString ty, m⟩

mutual
def readNode : Nat → List String → Option (FieldT × List String)
  | 0, _ => none
  | _+1, "L" :: name :: ty :: mk :: nt :: ts =>
    match nt.toNat? with
    | none => none
    | some n =>
      match readTags n ts with
      | none => none
      | some (tags, ts1) => (readInfo name ty mk tags).map fun i => (.leaf i, ts1)
  | fuel+1, "S" :: name :: ty :: mk :: fl :: nt :: ts =>
    match nt.toNat? with
    | none => none
    | some n =>
      match readTags n ts with
      | none => none
      | some (tags, ts1) =>
        match readInfo name ty mk tags, readKids fuel ts1 with
        | some i, some (kids, ts2) =>
          let anon := fl.startsWith "a"
          let byv := fl.endsWith "v"
          some (.struct i anon byv kids, ts2)
        | _, _ => none
  | _, _ => none
def readKids : Nat → List String → Option (Shape × List String)
  | 0, _ => none
  | fuel+1, nk :: ts =>
    match nk.toNat? with
    | none => none
    | some k => readSeq fuel k ts
  | _, _ => none
def readSeq : Nat → Nat → List String → Option (Shape × List String)
  | 0, _, _ => none
  | _+1, 0, ts => some (.nil, ts)
  | fuel+1, k+1, ts =>
    match readNode fuel ts with
    | none => none
    | some (f, ts1) =>
      match readSeq fuel k ts1 with
      | none => none
      | some (r, ts2) => some (.cons f r, ts2)
end

def customTag : Bytes := ofString "mytag"

/-- the scanners registered in a harness run: the built-in five and the recording processor -/
def procs : List TagProc := builtinProcs ++ [customProc ntConfiguration customTag]

def showPath (p : List Bytes) : String := joinWith "." (p.map str)

def showProp (p : Property) : String :=
  showPath p.field.fullPath ++ "/" ++ str p.tag ++ "/" ++ str p.nodeType ++ "/" ++ toHex p.tagVal ++ "/" ++ Driver.Tag.showArgs p.args

def render (sh : Shape) : String :=
  let fs := scan sh
  let head := "fields " ++ toString fs.length ++ String.join (fs.map fun f => " " ++ showPath f.fullPath)
  match properties? procs fs with
  | none => head ++ " panic"
  | some ps =>
    let lines := isort (fun a b => decide (a < b)) (ps.map showProp)
    head ++ " props " ++ toString lines.length ++ String.join (lines.map fun l => " " ++ l)

def handle (line : String) : String :=
  match (line.splitOn " ").filter (· ≠ "") with
  | _mode :: ts =>
    match readKids (3 * ts.length + 10) ts with
    | some (sh, []) => render sh
    | _ => "bad-line"
  | [] => "bad-line"

end Driver.Scan
