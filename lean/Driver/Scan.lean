/- Driver.Scan — line protocol of the `scan` sub-harness (stub until the unit is built). -/
import Ioc.Basic
namespace Driver.Scan
def handle (_line : String) : String := "unimplemented"
end Driver.Scan
