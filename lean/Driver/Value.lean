/- Driver.Value — line protocol of the `value` sub-harness (stub until the unit is built). -/
import Ioc.Basic
namespace Driver.Value
def handle (_line : String) : String := "unimplemented"
end Driver.Value
