/-
  Driver.Value — line protocol of the `value` / `valueexpr` sub-harnesses (C17, C18).

    <kind> <type> <cfg> <evals> <verdicts> <tag>…
      V3 … tagV tagP tagX   → `<V> <P> <X>`     value tag, prop shorthand, prefix tag on the same configuration
      E  … tag              → `<V>`             one value tag (expressions, validation)
      Q  … tag              → `<V>`             one prefix tag
    the kind may carry harness flags after a `+` (`V3+p`, `E+d`, `V3+y2f`, `E+e2`, …), ignored here: they say how the
    harness builds the holder and writes the document, none of them changes the configuration or the tags

    <kind> <type> <cfg> <evals> <verdicts> <set> <gate> <tag>…      two creations of the same holder
      R3 / RE / RQ  as V3 / E / Q; the holder is created under cfg — that creation fails —, then the keys of
      `set` (a map value) are overwritten and the holder is created again: `Ioc.Value.createTwice`
      gate  n | a0 | a1 (an extra property `G int value:"${kgate}"` first / last) | w (the creation fails after
            the properties were populated)
      → `<first: ok|err> <field>…`  (when the second creation fails and there are several tags: one holder per tag)
    type     S I J U D B A | P<ty> | L<ty> | M<ty> | T(hexname:ty:hexvalidate,…)
    value    z | s<hex> | i<dec> | F<dec> | f<decimal> | b0 | b1 | l(v,…) | m(hexkey=v,…)
    evals    e(hexexpr=value|!,…)       the expression engine as a table (anything else: `unmodelled`)
    verdicts v(hexrender=0|1,…)         the validator as a table keyed by the rendering of the bound value
    output   rendering of the field | err | panic | unmodelled | noverdict

  Every binding goes through `Ioc.Value.runProperty`, i.e. through the stage order computed from the
  regenerated processor table, with the concrete JSON codec `goJson`.
-/
import Ioc.Value
namespace Driver.Value
open Ioc Ioc.Value

/-! ### rendering -/

mutual
partial def render : FVal → String
  | .nil => "nil"
  | .str s => "s" ++ toHex s
  | .int i => "n" ++ toString i
  | .dec t => "n" ++ String.ofList (t.map (fun b => Char.ofNat b.toNat))
  | .bool b => if b then "b1" else "b0"
  | .list l => "[" ++ joinWith "," (l.map render) ++ "]"
  | .map m => "{" ++ joinWith "," ((isort (fun a b => bytesLt a.1 b.1) m).map fun kv => toHex kv.1 ++ ":" ++ render kv.2) ++ "}"
  | .struct fs => "(" ++ joinWith "," (fs.map fun kv => toHex kv.1 ++ ":" ++ render kv.2) ++ ")"
  | .ptr v => "&" ++ render v
end

def showRes : Except Err FVal → String
  | .ok v => render v
  | .error .panic => "panic"
  | .error .unmodelled => "unmodelled"
  | .error _ => "err"

/-! ### parsing the tokens -/

def isHexCh (c : Char) : Bool := c.isDigit || ('a' ≤ c && c ≤ 'f') || c = '-'

def spanCh (p : Char → Bool) (l : List Char) : List Char × List Char := (l.takeWhile p, l.dropWhile p)

def hexTok (l : List Char) : Option Bytes := fromHex (String.ofList l)

partial def pVal : List Char → Option (Val × List Char)
  | 'z' :: r => some (.null, r)
  | 's' :: r =>
    let (h, rest) := spanCh isHexCh r
    (hexTok h).map fun b => (.str b, rest)
  | 'i' :: r =>
    let (d, rest) := spanCh (fun c => c.isDigit || c = '-') r
    (String.ofList d).toInt?.map fun i => (.int i, rest)
  | 'F' :: r =>
    let (d, rest) := spanCh (fun c => c.isDigit || c = '-') r
    (String.ofList d).toInt?.map fun i => (.flt i, rest)
  | 'f' :: r =>
    let (d, rest) := spanCh (fun c => c.isDigit || c = '-' || c = '.') r
    some (.dec (ofString (String.ofList d)), rest)
  | 'b' :: c :: r => some (.bool (c = '1'), r)
  | 'l' :: '(' :: r =>
    let rec goL (r : List Char) (acc : List Val) : Option (Val × List Char) :=
      match r with
      | ')' :: rest => some (.list acc.reverse, rest)
      | ',' :: rest => goL rest acc
      | _ => match pVal r with
        | some (v, rest) => goL rest (v :: acc)
        | none => none
    goL r []
  | 'm' :: '(' :: r =>
    let rec goM (r : List Char) (acc : List (Bytes × Val)) : Option (Val × List Char) :=
      match r with
      | ')' :: rest => some (.map acc.reverse, rest)
      | ',' :: rest => goM rest acc
      | _ =>
        let (h, rest) := spanCh isHexCh r
        match hexTok h, rest with
        | some k, '=' :: rest2 =>
          match pVal rest2 with
          | some (v, rest3) => goM rest3 ((k, v) :: acc)
          | none => none
        | _, _ => none
    goM r []
  | _ => none

partial def pTy : List Char → Option (FieldTy × List Char)
  | 'S' :: r => some (.string, r)
  | 'I' :: r => some (.int, r)
  | 'J' :: r => some (.int, r)
  | 'U' :: r => some (.uint, r)
  | 'D' :: r => some (.float, r)
  | 'B' :: r => some (.bool, r)
  | 'A' :: r => some (.any, r)
  | 'P' :: r => (pTy r).map fun x => (.ptr x.1, x.2)
  | 'L' :: r => (pTy r).map fun x => (.slice x.1, x.2)
  | 'M' :: r => (pTy r).map fun x => (.map x.1, x.2)
  | 'T' :: '(' :: r =>
    let rec go (r : List Char) (acc : List (Bytes × FieldTy)) : Option (FieldTy × List Char) :=
      match r with
      | ')' :: rest => some (.struct acc.reverse, rest)
      | ',' :: rest => go rest acc
      | _ =>
        let (h, rest) := spanCh isHexCh r
        match hexTok h, rest with
        | some k, ':' :: rest2 =>
          match pTy rest2 with
          | some (t, ':' :: rest3) =>
            let (_, rest4) := spanCh isHexCh rest3      -- the validate tag of the field: used by the harness only
            go rest4 ((k, t) :: acc)
          | _ => none
        | _, _ => none
    go r []
  | _ => none

/-- `e(hex=val|!,…)` -/
partial def pEvals (s : String) : Option (List (Bytes × Except Err Val)) :=
  match s.toList with
  | 'e' :: '(' :: r =>
    let rec go (r : List Char) (acc : List (Bytes × Except Err Val)) : Option (List (Bytes × Except Err Val)) :=
      match r with
      | [')'] => some acc.reverse
      | ',' :: rest => go rest acc
      | _ =>
        let (h, rest) := spanCh isHexCh r
        match hexTok h, rest with
        | some k, '=' :: '!' :: rest2 => go rest2 ((k, .error .expr) :: acc)
        | some k, '=' :: rest2 =>
          match pVal rest2 with
          | some (v, rest3) => go rest3 ((k, .ok v) :: acc)
          | none => none
        | _, _ => none
    go r []
  | _ => none

/-- `v(hex=0|1,…)` -/
partial def pVerdicts (s : String) : Option (List (Bytes × Bool)) :=
  match s.toList with
  | 'v' :: '(' :: r =>
    let rec go (r : List Char) (acc : List (Bytes × Bool)) : Option (List (Bytes × Bool)) :=
      match r with
      | [')'] => some acc.reverse
      | ',' :: rest => go rest acc
      | _ =>
        let (h, rest) := spanCh isHexCh r
        match hexTok h, rest with
        | some k, '=' :: c :: rest2 => go rest2 ((k, c = '1') :: acc)
        | _, _ => none
    go r []
  | _ => none

def strBytes (s : String) : Bytes := s.toUTF8.toList

mutual
  /-- viper.AllSettings (what ViperBinder.Get answers for the EMPTY path): rebuilt from the leaf keys, so nil leaves and,
      recursively, empty maps vanish; lists are leaves -/
  def pruneAll : Val → Option Val
    | .null => none
    | .map m =>
      match pruneAllM m with
      | [] => none
      | m' => some (.map m')
    | v => some v
  def pruneAllM : List (Bytes × Val) → List (Bytes × Val)
    | [] => []
    | (k, v) :: rest =>
      match pruneAll v with
      | none => pruneAllM rest
      | some v' => (k, v') :: pruneAllM rest
end

def mkCfg (v : Val) : Cfg :=
  match v with
  | .map m => fun k => if k.isEmpty then .map (pruneAllM m) else (alookup k m).getD .null
  | _ => fun _ => .null

def mkEval (t : List (Bytes × Except Err Val)) : Bytes → Except Err Val :=
  fun e => (alookup e t).getD (.error .unmodelled)

def mkValidate (t : List (Bytes × Bool)) (dflt : Bool) : FVal → List Bytes → Bool :=
  fun v _ => (alookup (strBytes (render v)) t).getD dflt

/-- one property through the stages; a missing verdict shows as `noverdict` -/
def runOne (cfg : Cfg) (ev : Bytes → Except Err Val) (vt : List (Bytes × Bool)) (isValue : Bool) (tag : Bytes) (ty : FieldTy) : String :=
  let a := showRes (runProperty goJson ev (mkValidate vt true) cfg isValue tag ty)
  let b := showRes (runProperty goJson ev (mkValidate vt false) cfg isValue tag ty)
  if a = b then a else "noverdict"

/-! ### two creations of the same holder (R3, RE, RQ) -/

def overlay (cfg1 : Cfg) (set : Val) : Cfg :=
  match set with
  | .map m => fun k => match alookup k m with
    | some v => v
    | none => cfg1 k
  | _ => cfg1

def showErr : Option Err → String
  | none => "ok"
  | some .panic => "panic"
  | some .unmodelled => "unmodelled"
  | some _ => "err"

def gateTag : Bytes := strBytes "${kgate}"

/-- the holder of a history: the tagged properties (value?, tag) of type `ty`, the gate property where the gate is one -/
def mkHolder (gate : String) (ty : FieldTy) (tags : List (Bool × Bytes)) : Option (List HProp) :=
  let g := if gate = "a0" || gate = "a1" then freshProp true gateTag .int else none
  match tags.mapM (fun t => freshProp t.1 t.2 ty) with
  | none => none
  | some ps =>
    match gate, g with
    | "a0", some gp => some (gp :: ps)
    | "a1", some gp => some (ps ++ [gp])
    | _, _ => some ps

/-- `<first> <field>…` of one history with the given validator default; `none` = a tag the grammar panics on -/
def runTwice (cfg1 cfg2 : Cfg) (ev : Bytes → Except Err Val) (vt : List (Bytes × Bool)) (dflt : Bool)
    (gate : String) (ty : FieldTy) (tags : List (Bool × Bytes)) : String × Option (List String) :=
  match mkHolder gate ty tags with
  | none => ("panic", some (tags.map fun _ => "panic"))
  | some ps =>
    let r := createTwice goJson ev (mkValidate vt dflt) cfg1 cfg2 (gate = "w") ps
    let first := if r.failed then (match r.first with | none => "err" | e => showErr e) else "ok"
    match r.second with
    | some _ => (first, none)
    | none =>
      let own := if gate = "a0" then r.props.drop 1 else r.props.take tags.length
      (first, some (own.map fun p => render (p.st.bound.getD (zero p.ty))))

def historyWith (cfg1 cfg2 : Cfg) (ev : Bytes → Except Err Val) (vt : List (Bytes × Bool)) (dflt : Bool)
    (gate : String) (ty : FieldTy) (tags : List (Bool × Bytes)) : String :=
  match runTwice cfg1 cfg2 ev vt dflt gate ty tags with
  | (first, some fields) => first ++ " " ++ joinWith " " fields
  | (first, none) =>
    -- the second creation failed: one history per tag (as the harness does)
    let each := tags.map fun t =>
      match runTwice cfg1 cfg2 ev vt dflt gate ty [t] with
      | (_, some [f]) => f
      | (_, some _) => "bad"
      | (_, none) =>
        match mkHolder gate ty [t] with
        | none => "panic"
        | some ps => showErr (createTwice goJson ev (mkValidate vt dflt) cfg1 cfg2 (gate = "w") ps).second
    first ++ " " ++ joinWith " " each

def history (cfg1 cfg2 : Cfg) (ev : Bytes → Except Err Val) (vt : List (Bytes × Bool))
    (gate : String) (ty : FieldTy) (tags : List (Bool × Bytes)) : String :=
  let a := historyWith cfg1 cfg2 ev vt true gate ty tags
  let b := historyWith cfg1 cfg2 ev vt false gate ty tags
  if a = b then a else "noverdict"

def handleR (kind : String) (ty : FieldTy) (cfgV : Val) (evs : List (Bytes × Except Err Val)) (vds : List (Bytes × Bool))
    (rest : List String) : String :=
  match rest with
  | setS :: gate :: tags =>
    match pVal setS.toList, tags.mapM fromHex with
    | some (setV, []), some tagBs =>
      if !(gate = "n" || gate = "a0" || gate = "a1" || gate = "w") then "bad-line" else
      let cfg1 := mkCfg cfgV
      let cfg2 := overlay cfg1 setV
      let ev := mkEval evs
      match kind, tagBs with
      | "R3", [tv, tp, tx] =>
        (match Tag.propShorthand? tp with
          | none => "panic"
          | some t => history cfg1 cfg2 ev vds gate ty [(true, tv), (true, t), (false, tx)])
      | "RE", [tv] => history cfg1 cfg2 ev vds gate ty [(true, tv)]
      | "RQ", [tx] => history cfg1 cfg2 ev vds gate ty [(false, tx)]
      | _, _ => "bad-line"
    | _, _ => "bad-line"
  | _ => "bad-line"

/-! ### histories with Set between two populations (HS)

    HS <mode> <cfg> <ops> <eager> <late>
      mode   s | z<n>   the start populates the eager holder under the document; the paths of `ops` are set in order;
                        then the late holder — fresh properties — is populated under the configuration as it is then
                        (`Ioc.Value.populateLater`)
             w          the start populates the eager holder, then the late holder, whose creation fails afterwards; the
                        paths are set; the late holder is created again (`Ioc.Value.createTwice`)
      ops    o(hexpath=val,…)
      eager, late   h(value|prop|prefix:<ty>:<hextag>,…)
      → `<start> <eager field>… <second> <late field>…`
    The configuration is the binder model `Ioc.Value.Binder` (what was set, over the document). -/

/-- `o(hexpath=val,…)` -/
partial def pOps (s : String) : Option (List (Bytes × Val)) :=
  match s.toList with
  | 'o' :: '(' :: r =>
    let rec go (r : List Char) (acc : List (Bytes × Val)) : Option (List (Bytes × Val)) :=
      match r with
      | [')'] => some acc.reverse
      | ',' :: rest => go rest acc
      | _ =>
        let (h, rest) := spanCh isHexCh r
        match hexTok h, rest with
        | some k, '=' :: rest2 =>
          match pVal rest2 with
          | some (v, rest3) => go rest3 ((k, v) :: acc)
          | none => none
        | _, _ => none
    go r []
  | _ => none

/-- `h(name:ty:hextag,…)` -/
partial def pHolder (s : String) : Option (List (String × FieldTy × Bytes)) :=
  match s.toList with
  | 'h' :: '(' :: r =>
    let rec go (r : List Char) (acc : List (String × FieldTy × Bytes)) : Option (List (String × FieldTy × Bytes)) :=
      match r with
      | [')'] => some acc.reverse
      | ',' :: rest => go rest acc
      | _ =>
        let (n, rest) := spanCh Char.isAlpha r
        match rest with
        | ':' :: rest2 =>
          match pTy rest2 with
          | some (t, ':' :: rest3) =>
            let (h, rest4) := spanCh isHexCh rest3
            match hexTok h with
            | some tag => go rest4 ((String.ofList n, t, tag) :: acc)
            | none => none
          | _ => none
        | _ => none
    go r []
  | _ => none

/-- the scanned properties of a holder; `none` = a tag the grammar panics on -/
def holderProps (fs : List (String × FieldTy × Bytes)) : Option (List HProp) :=
  fs.mapM fun f =>
    if f.1 = "prefix" then freshProp false f.2.2 f.2.1
    else if f.1 = "prop" then (Tag.propShorthand? f.2.2).bind fun t => freshProp true t f.2.1
    else freshProp true f.2.2 f.2.1

def fieldsOf (ps : List HProp) : String := joinWith " " (ps.map fun p => render (p.st.bound.getD (zero p.ty)))

def handleHS (mode cfgS opsS eagerS lateS : String) : String :=
  match pVal cfgS.toList, pOps opsS, pHolder eagerS, pHolder lateS with
  | some (.map cfgM, []), some ops, some ef, some lf =>
    if !(mode = "s" || mode = "w" || mode.startsWith "z") then "bad-line" else
    match holderProps ef, holderProps lf with
    | some es, some ls =>
      let b0 : Binder := ⟨[], cfgM⟩
      let ev := mkEval []
      let vd := mkValidate [] true
      let r1 := populateAll goJson ev vd b0.get stageOrder es
      match r1.2 with
      | some e => showErr (some e)
      | none =>
        if mode = "w" then
          let r := createTwice goJson ev vd b0.get (b0.setAll ops).get true ls
          "err " ++ fieldsOf r1.1 ++ " " ++
            (match r.second with
              | some e => showErr (some e)
              | none => "ok " ++ fieldsOf r.props)
        else
          let r2 := populateLater goJson ev vd b0 ops ls
          "ok " ++ fieldsOf r1.1 ++ " " ++
            (match r2.2 with
              | some e => showErr (some e)
              | none => "ok " ++ fieldsOf r2.1)
    | _, _ => "panic"
  | _, _, _, _ => "bad-line"

/-! ### a component edits the value it was given (HM)

    HM <mode> <cfg> <muts> <eager> <late>
      The eager holder is populated under the document; the owner of its fields (the harness, or the component's own
      Init) then edits the bound values — `muts`, a matter of the harness.  A bound value is the field's OWN value
      (`FVal`, built by the decoder): editing it is no operation on the binder.  The late holder — fresh properties — is
      populated under the same binder: `Ioc.Value.populateLater` with no Set at all.
      → `<start> <eager field as bound>… <second> <late field>…` -/
def handleHM (cfgS eagerS lateS : String) : String :=
  match pVal cfgS.toList, pHolder eagerS, pHolder lateS with
  | some (.map cfgM, []), some ef, some lf =>
    match holderProps ef, holderProps lf with
    | some es, some ls =>
      let b0 : Binder := ⟨[], cfgM⟩
      let ev := mkEval []
      let vd := mkValidate [] true
      let r1 := populateAll goJson ev vd b0.get stageOrder es
      match r1.2 with
      | some e => showErr (some e)
      | none =>
        let r2 := populateLater goJson ev vd b0 [] ls
        "ok " ++ fieldsOf r1.1 ++ " " ++
          (match r2.2 with
            | some e => showErr (some e)
            | none => "ok " ++ fieldsOf r2.1)
    | _, _ => "panic"
  | _, _, _ => "bad-line"

/-! ### tag-less fields that name their own prefix (CP)

    CP g<n>[+p] <ty> <cfg> c(<shape>:<hexname>:<hexown>,…)
      One Go-declared holder whose fields carry NO tag; field i is declared / pre-populated as `shape` says
      (pp np pv nv vv vp = `Ioc.Value.CPShape`), holds the state `name` (a matter of the harness) and its own Prefix()
      answers `own`.  A second component has one twin per seen field, tagged `prefix:"<own>"`.  Pointer shapes bind
      `*ty`, value shapes `ty`.  Both components are populated under the document.
      → `ok <field | unbound>… | <twin>…`, `err`, `panic` -/

def pShape : String → Option CPShape
  | "pp" => some .ptrPtrRecv
  | "np" => some .nilPtrRecv
  | "pv" => some .ptrValRecv
  | "nv" => some .nilValRecv
  | "vv" => some .valValRecv
  | "vp" => some .valPtrRecv
  | _ => none

def shapeTy (sh : CPShape) (ty : FieldTy) : FieldTy :=
  match sh with
  | .valValRecv | .valPtrRecv => ty
  | _ => .ptr ty

/-- `c(shape:hexname:hexown,…)` → (shape, own) per field -/
def pCpFields (s : String) : Option (List (CPShape × Bytes)) :=
  match s.toList with
  | 'c' :: '(' :: r =>
  if r.getLast? ≠ some ')' then none else
  let body := String.ofList r.dropLast
  (body.splitOn ",").mapM fun part =>
    match part.splitOn ":" with
    | [sh, _, own] =>
      match pShape sh, fromHex own with
      | some c, some o => some (c, o)
      | _, _ => none
    | _ => none
  | _ => none

def handleCP (tyS cfgS fieldsS : String) : String :=
  match pTy tyS.toList, pVal cfgS.toList, pCpFields fieldsS with
  | some (ty, []), some (.map cfgM, []), some fs =>
    let b0 : Binder := ⟨[], cfgM⟩
    let ev := mkEval []
    let vd := mkValidate [] true
    -- the holder: the scanned properties of its tag-less fields (`none` = the field is no property)
    match mapMExcept (fun f => taglessProp f.1 f.2 (shapeTy f.1 ty)) fs with
    | .error e => showErr (some e)
    | .ok scanned =>
      -- the twins: `prefix:"<own>"` on a field of the same type, one per seen field
      let twins := (fs.zip scanned).filterMap fun x =>
        match x.2 with
        | none => none
        | some _ => some (freshProp false x.1.2 (shapeTy x.1.1 ty))
      match twins.mapM id with
      | none => "panic"
      | some tw =>
        let r1 := populateAll goJson ev vd b0.get stageOrder (scanned.filterMap id)
        let r2 := populateAll goJson ev vd b0.get stageOrder tw
        match r1.2, r2.2 with
        | some .panic, _ => "panic"
        | _, some .panic => "panic"
        | some e, _ => showErr (some e)
        | _, some e => showErr (some e)
        | none, none =>
          -- put the bound properties back into the order of the fields
          let rec place (sc : List (Option HProp)) (bound : List HProp) : List String :=
            match sc, bound with
            | [], _ => []
            | none :: rest, bs => "unbound" :: place rest bs
            | some _ :: rest, b :: bs => render (b.st.bound.getD (zero b.ty)) :: place rest bs
            | some _ :: rest, [] => "bad" :: place rest []
          "ok " ++ joinWith " " (place scanned r1.1) ++ " | " ++ fieldsOf r2.1
  | _, _, _ => "bad-line"

def handle (line : String) : String :=
  match line.splitOn " " with
  | ["HS", mode, cfgS, opsS, eagerS, lateS] => handleHS mode cfgS opsS eagerS lateS
  | ["HM", _, cfgS, _, eagerS, lateS] => handleHM cfgS eagerS lateS
  | ["CP", _, tyS, cfgS, fieldsS] => handleCP tyS cfgS fieldsS
  | kind :: tyS :: cfgS :: evS :: vdS :: tags =>
    if kind = "R3" || kind = "RE" || kind = "RQ" then
      match pTy tyS.toList, pVal cfgS.toList, pEvals evS, pVerdicts vdS with
      | some (ty, []), some (cfgV, []), some evs, some vds => handleR kind ty cfgV evs vds tags
      | _, _, _, _ => "bad-line"
    else
    match pTy tyS.toList, pVal cfgS.toList, pEvals evS, pVerdicts vdS, tags.mapM fromHex with
    | some (ty, []), some (cfgV, []), some evs, some vds, some tagBs =>
      let cfg := mkCfg cfgV
      let ev := mkEval evs
      -- `V3+pd`: the flags after `+` (fields pre-filled with defaults, an extra component field on the holder)
      -- are for the harness; what is bound does not depend on them
      let kind := (kind.splitOn "+").headD kind
      match kind, tagBs with
      | "V3", [tv, tp, tx] =>
        let p := match Tag.propShorthand? tp with
          | none => "panic"
          | some t => runOne cfg ev vds true t ty
        runOne cfg ev vds true tv ty ++ " " ++ p ++ " " ++ runOne cfg ev vds false tx ty
      | "E", [tv] => runOne cfg ev vds true tv ty
      | "Q", [tx] => runOne cfg ev vds false tx ty
      | _, _ => "bad-line"
    | _, _, _, _, _ => "bad-line"
  | _ => "bad-line"

end Driver.Value
