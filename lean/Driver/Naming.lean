/- Driver.Naming — line protocol of the `naming` sub-harness (C07_name, C07_unique). -/
import Ioc.Naming
namespace Driver.Naming
open Ioc Ioc.Naming

def parseOp (t : String) : Option (Bytes × Nat) :=
  match t.splitOn ":" with
  | [n, o] => match fromHex n, o.toNat? with
    | some b, some k => some (b, k)
    | _, _ => none
  | _ => none

def handle (line : String) : String :=
  match (line.splitOn " ").filter (· ≠ "") with
  | "H" :: toks =>
    let ops := toks.filterMap parseOp
    let reg := registerAll [] ops
    let sorted := isort (fun a b => bytesLt a.1 b.1) reg
    if sorted.isEmpty then "-" else joinWith "," (sorted.map fun kv => toHex kv.1 ++ "=" ++ toString kv.2)
  | ["N", c, p, t] =>
    match fromHex c, fromHex p, fromHex t with
    | some c, some p, some t => toHex (componentName c p t)
    | _, _, _ => "bad-line"
  | _ => "bad-line"

end Driver.Naming
