/-
  Driver.Placeholder — line protocol of the `placeholder` sub-harness (C16).
    in :  `<tagstr-hex> <cfg>`     cfg = one value in prefix form, always a map at top level:
            Z null | T | F | S<hex> string | N<hex> number text | L<k> v1 … vk | M<k> K<hex> v1 … K<hex> vk
          (bare `S`/`N`/`K` = empty text)
    out:  `<tagval-hex>` | `err` | `panic` | `opaque` | `hang`
          `T <tagtext-hex> <cfg>`  the whole text of the tag (value part and arguments): NewProperty cuts the arguments off
    out:  `<tagstr-hex> <outcome as above>` | `panic`
          `W <kind> <tagtext-hex> <cfg>`  (eighth round) the same text on a field of the given kind; the observation is that of
                                  `T` (what the field's kind does to the bound value is judged end to end by the oracle
                                  placeholder-as-written, which compares two real runs)
          `R <route> <k> <tagstr-hex>×k <j> <step>×j <cfg>`  (ninth round) sources merged after the start on the default configure
    out:  `<first>×k / <second>×k`
-/
import Ioc.Placeholder
namespace Driver.Placeholder
open Ioc Ioc.Placeholder

def hexArg (t : String) : Option Bytes :=
  let h := (t.drop 1).toString
  if h.isEmpty then some [] else fromHex h

mutual
  def parseVal : Nat → List String → Option (CVal × List String)
    | 0, _ => none
    | _, [] => none
    | fuel + 1, tok :: rest =>
      match tok.toList with
      | ['Z'] => some (.null, rest)
      | ['T'] => some (.bool true, rest)
      | ['F'] => some (.bool false, rest)
      | 'S' :: _ => (hexArg tok).map fun b => (.str b, rest)
      | 'N' :: _ => (hexArg tok).map fun b => (.num b, rest)
      | 'L' :: _ =>
        match (tok.drop 1).toString.toNat? with
        | some k => (parseList fuel k rest).map fun (xs, r) => (.list xs, r)
        | none => none
      | 'M' :: _ =>
        match (tok.drop 1).toString.toNat? with
        | some k => (parsePairs fuel k rest).map fun (kvs, r) => (.map kvs, r)
        | none => none
      | _ => none
  def parseList : Nat → Nat → List String → Option (List CVal × List String)
    | 0, _, _ => none
    | _, 0, toks => some ([], toks)
    | fuel + 1, k + 1, toks =>
      match parseVal fuel toks with
      | some (v, r) => (parseList fuel k r).map fun (vs, r') => (v :: vs, r')
      | none => none
  def parsePairs : Nat → Nat → List String → Option (List (Bytes × CVal) × List String)
    | 0, _, _ => none
    | _, 0, toks => some ([], toks)
    | _, _ + 1, [] => none
    | fuel + 1, k + 1, kt :: toks =>
      match kt.toList, hexArg kt with
      | 'K' :: _, some key =>
        match parseVal fuel toks with
        | some (v, r) => (parsePairs fuel k r).map fun (kvs, r') => ((key, v) :: kvs, r')
        | none => none
      | _, _ => none
end

def showRes : Res → String
  | .value s => toHex s
  | .error => "err"
  | .panic => "panic"
  | .unmodelled => "opaque"
  | .outOfFuel => "hang"

/-! histories: `H <k> <tag-hex>×k <j> (P<path-hex> <value>)×j <cfg>` → `<first>×k / <second>×k` (`Ioc.Placeholder.resolveTwice`) -/

def takeTags : Nat → List String → Option (List Bytes × List String)
  | 0, toks => some ([], toks)
  | _ + 1, [] => none
  | k + 1, t :: rest =>
    match fromHex t, takeTags k rest with
    | some b, some (bs, r) => some (b :: bs, r)
    | _, _ => none

def takeOps : Nat → List String → Option (List (Bytes × CVal) × List String)
  | 0, toks => some ([], toks)
  | _ + 1, [] => none
  | j + 1, pt :: rest =>
    match pt.toList, hexArg pt with
    | 'P' :: _, some path =>
      match parseVal (2 * rest.length + 2) rest with
      | some (v, r) => (takeOps j r).map fun (ops, r') => ((path, v) :: ops, r')
      | none => none
    | _, _ => none

def handleH (toks : List String) : String :=
  match toks with
  | kt :: rest =>
    match kt.toNat?.bind (fun k => takeTags k rest) with
    | some (tags, jt :: rest2) =>
      match jt.toNat?.bind (fun j => takeOps j rest2) with
      | some (ops, rest3) =>
        match parseVal (2 * rest3.length + 2) rest3 with
        | some (.map cfg, []) =>
          let r := resolveTwice cfg ops tags
          joinWith " " (r.1.map showRes ++ ["/"] ++ r.2.map showRes)
        | _ => "bad-line"
      | none => "bad-line"
    | _ => "bad-line"
  | [] => "bad-line"

/-! sources merged after the start: `R <route> <k> <tag-hex>×k <j> <step>×j <cfg>`, step = `D <doc>` | `A <doc>` |
    `P<path-hex> <value>` → `<first>×k / <second>×k` (`Ioc.Placeholder.resolveAround`); the route names what else the harness
    runs on real Apps (judged by oracles only) -/

def takeSteps : Nat → List String → Option (List Step × List String)
  | 0, toks => some ([], toks)
  | _ + 1, [] => none
  | j + 1, st :: rest =>
    match parseVal (2 * rest.length + 2) rest with
    | some (v, r) =>
      let step : Option Step :=
        match st.toList, v with
        | ['D'], .map d => some (.setConfig d)
        | ['A'], .map d => some (.addLoader d)
        | 'P' :: _, v => (hexArg st).map fun p => Step.set p v
        | _, _ => none
      match step with
      | some s => (takeSteps j r).map fun (ss, r') => (s :: ss, r')
      | none => none
    | none => none

def handleR (toks : List String) : String :=
  match toks with
  | _route :: kt :: rest =>
    match kt.toNat?.bind (fun k => takeTags k rest) with
    | some (tags, jt :: rest2) =>
      match jt.toNat?.bind (fun j => takeSteps j rest2) with
      | some (steps, rest3) =>
        match parseVal (2 * rest3.length + 2) rest3 with
        | some (.map cfg, []) =>
          let r := resolveAround cfg steps tags
          joinWith " " (r.1.map showRes ++ ["/"] ++ r.2.map showRes)
        | _ => "bad-line"
      | none => "bad-line"
    | _ => "bad-line"
  | _ => "bad-line"

def handle (line : String) : String :=
  match line.splitOn " " with
  | "H" :: toks => handleH toks
  | "R" :: toks => handleR toks
  | "T" :: th :: toks =>
    match fromHex th, parseVal (2 * toks.length + 2) toks with
    | some s, some (.map cfg, []) =>
      match processText cfg s with
      | none => "panic"
      | some (v, r) => toHex v ++ " " ++ showRes r
    | _, _ => "bad-line"
  | "W" :: _kind :: th :: toks =>
    match fromHex th, parseVal (2 * toks.length + 2) toks with
    | some s, some (.map cfg, []) =>
      match processText cfg s with
      | none => "panic"
      | some (v, r) => toHex v ++ " " ++ showRes r
    | _, _ => "bad-line"
  | th :: toks =>
    match fromHex th, parseVal (2 * toks.length + 2) toks with
    | some s, some (.map cfg, []) => showRes (process cfg s)
    | _, _ => "bad-line"
  | _ => "bad-line"

end Driver.Placeholder
