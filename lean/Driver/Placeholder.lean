/- Driver.Placeholder — line protocol of the `placeholder` sub-harness (stub until the unit is built). -/
import Ioc.Basic
namespace Driver.Placeholder
def handle (_line : String) : String := "unimplemented"
end Driver.Placeholder
