/-
  sub-driver `conc` (C14, C20). Scenario lines (everything else the harness does is oracle-only, `#…`):
    close <n> <errmask> <seed>   one pseudo-random schedule of the Close system (configuration read from the regenerated
                                 skeleton), sampled at the moment main returns      → calls=1,1,… done=1,1,…
    closez <n> <errmask> <zmask> <seed>
                                 the same system: which of the n closers are values of zero-size types (zmask) is a matter of
                                 representation; each of them is a registered closer component like any other
    closew <n> <errmask> <fastmask> <seed>
                                 the same system under the environment "a closer (not in fastmask) returns only when all n
                                 closers have been entered" (`scheduleW`); nobody gives up iff the run reaches the return of
                                 Close                                             → calls=1,1,… done=1,1,… gaveup=0 | stuck
    closea <n> <errmask> <amask> <bmask> <tmask> <seed>
                                 the same system with n + (bits 0/1 of tmask) closers: what a closer is wired with (amask: the
                                 App itself), what it is called (bmask: a name before the App's) and how it is named is
                                 representation; each of them is a registered closer component
    closed <n> <errmask> <pairs> <seed>
                                 the same system: n closers + the closers among the same-printing pairs; a pair split over two
                                 Apps (orders s/t) = two runs of the system         → calls=… done=… [/ calls=… done=…]
    closel <n> <errmask> <rounds> <seed>
                                 the same system; reports = failing closers whose report is complete (`reported`) at the
                                 moment main returns                                → calls=… done=… reports=<k>
    closec <n> <errmask> <groups> <seed>
                                 the same system with n + (members of the groups) closers: closers whose names differ only in
                                 letter case are different registered closer components (names are compared exactly:
                                 `Ioc.Conc.definedNames`), each of them closed like any other
    closeb <n> <errmask> <rounds> <seed>
                                 the same system; intact = failing closers whose report is complete (`reported`) at the
                                 moment main returns — with the built-in logger each report is one atomic write of its
                                 own line                                           → calls=… done=… intact=<k>
    closep <regs> <opts> <errmask> <seed>
                                 a start through ioc.Register + ioc.Run: the option list `append(ops, registerHandlers...)`
                                 applied to a new App (`iocRunRegistry`, section 8 of Ioc.Conc); the Close system over the
                                 closers that are in the App's registry after the last option; a closer that is not there is
                                 never invoked                                      → calls=… done=…
    closek <n> <errmask> <kinds> <seed>
                                 n closers of the Go kinds `kinds`: the Close system over the closers that get a definition in
                                 the tag scan (`scanDefined codeScanGuard`: all of them, whatever the kind)
    gmor <g> <trials>            g callers LoadOrStoreFn(name, own definition) on an empty map, all past the Load before the
                                 first LoadOrStore (`gmorSched`)                   → defs=<n> listed=<n> kept=<0|1>
    gscan <n> <trials> <seed>    one scanning round over n+1 components, no scanner failing, and the n load-or-stores of the
                                 shared definition                                 → errs=0 defs=<n> kept=<0|1>
    cstart <hist> <nops> <sync> <trials> <r>x<m>…
                                 concurrent starts of different Apps after the app.Settings history `hist` (section 4 of
                                 Ioc.Conc): every App evaluates `append(ops, globalOptions...)`, then all of them run their
                                 option loops (`startRendezvous`, with one spare slot behind globalOptions); a runner is
                                 invoked once by every App that applied the SetComponents option it came in
                                                        → st=ok.ok… runs=<per runner, apps joined by /> early=0 foreign=<k>
    scan <n> <failmask> <seed>   same for one scanning round; completed appends to errs when main reads it → errs=<k>
    fstart <n> <kinds> <seed>    the first start of a process with one dependency and n tag-carrying components: one scanning
                                 round over n+1 components in which no scanner fails                → errs=0
    lofn <digits>                two callers LoadOrStoreFn(1, 10+t) on an empty map, schedule = thread per step
                                                                                    → t0=<v>,<loaded> t1=<v>,<loaded>
    range <nk> <a>               Range over keys 1..nk; after a visits another thread deletes every key, visited first
                                                                                    → seen=<pairs reported>
    hist <init> <call>…          a recorded history; is it linearizable w.r.t. `Op.spec` (`HOp.spec` for the `N` = Length()
                                 calls of set histories)?                          → lin | nonlin
    plog <apps> <n> <nc> <first> <flags> <seed>
                                 Apps 1..apps one after the other in one process, App i under its own root logger i; from App
                                 `first` on the n+nc scan goroutines (flags bit 0) and the nc Close goroutines (bit 1) call
                                 syslog.Pref(one prefix) = prefCache.LoadOrStoreFn(prefix, derive from the current root)
                                 (`plogObs`): per App the loggers that receive the lines   → scan=<t,…> close=<t,…> lines=ok
    rdel <g> <rounds>            Range (threads 1..g) against Store/Delete of a third key (thread 0), round robin (`rdelObs`)
                                                                                    → phantom=0 dup=0 missing=0
    closeq <n> <errmask> <procs> <seed>
                                 n closers next to user post-processors (class p/o/u + order digit + answer d/t): the processors
                                 of the App in their sorted order, `resolveAfter` over them for the App component; the Close system
                                 over the n closers iff the dependency processor's PostProcessProperties is applied (it always is)
    closeh <n> <errmask> <quals> <holders> <seed>
                                 n closers with qualifiers, other components with an injection point of the closer type: the App
                                 is offered `ownCandidates` = every registered closer, whatever the holders kept of theirs
    fdirect <n> <parts> <starts> <seed>
                                 the public factory driven directly: per scanner one scanning round over n + |parts| components in
                                 which no scanner fails; every goroutine reads the registry field `Default()` filled (`fdirectObs`)
                                                                                    → errs=0 lost=<k> two=<k>
    setlen <obj> <nk> <trials> <queue>…
                                 a fresh ConcurrentSets (`cs`) / GenericConcurrentSets (`gs`) holding the keys 1..nk; one goroutine
                                 per queue (`x<k>` Remove k, `p<k>` Put k, joined by `.`; no key both removed and put, so every
                                 schedule ends in the same set), all released together; after they have returned:
                                 Length(), len(ToArray()) and the keys 1..8 for which Exists holds = what a sequential
                                 execution leaves                                  → len=<n> arr=<n> has=<k.k…|->
-/
import Ioc.Conc
namespace Driver.Conc
open Ioc Ioc.Conc

def joinC (l : List String) : String := ",".intercalate l

def bitMask (mask : Nat) : Nat → Bool := fun i => mask.testBit i

def runFan (cfg : FanCfg) (n mask seed : Nat) : St :=
  schedule cfg n (bitMask mask) (40 * (n + 2)) seed init

def showClose (n : Nat) (s : St) : String :=
  if s.mainPc != 3 then "stuck" else
  "calls=" ++ joinC ((List.range n).map fun i => toString (s.calls i)) ++
  " done=" ++ joinC ((List.range n).map fun i => if s.wpc i == WPc.finished then "1" else "0")

def runFanW (cfg : FanCfg) (n mask fast seed : Nat) : St :=
  scheduleW cfg n (bitMask mask) (bitMask fast) (40 * (n + 2)) seed init

/-! fifth round: closers wired with the App, types that print the same, the closing phase under a user logger,
    load-or-store of a definition -/

def bitsBelow (mask n : Nat) : Bool := mask < 2 ^ n

/-- `closea`: n named closers + one closer per bit 0/1 of tmask; every one of them is a registered closer component -/
def handleCloseA (n mask amask bmask tmask seed : Nat) : String :=
  if n > 60 || tmask > 15 || !bitsBelow mask (n + 2) || !bitsBelow amask n || !bitsBelow bmask n then "bad-line" else
  let n' := n + (if tmask.testBit 0 then 1 else 0) + (if tmask.testBit 1 then 1 else 0)
  showClose n' (runFan (closeShape Facts.closeSkel).cfg n' mask seed)

/-- a pair token of `closed`: (closers of the pair in the first App, in the second App, split over two Apps) -/
def dupCount (tok : String) : Option (Nat × Nat × Bool) :=
  match tok.toList with
  | [k, o] =>
    if !("pnlq".toList.contains k) || !("cxst".toList.contains o) then none else
    if o == 'c' || o == 'x' then some (if k == 'q' then 2 else 1, 0, false)
    else if k == 'q' then some (1, 1, true)
    else if o == 's' then some (1, 0, true) else some (0, 1, true)
  | _ => none

/-- `closed`: which types print the same is a matter of representation; every closer among them is a registered closer
    component of its App like any other. Two Apps when a pair is split: two runs of the Close system. -/
def handleCloseD (n mask : Nat) (pairs : String) (seed : Nat) : String :=
  let toks := if pairs == "-" then [] else pairs.splitOn "."
  let cs := toks.map dupCount
  let kinds := toks.map fun t => t.toList.head?
  if n > 62 || !bitsBelow mask n || cs.any Option.isNone || kinds.eraseDups.length != kinds.length then "bad-line" else
  let cs := cs.filterMap id
  let k1 := n + (cs.map (·.1)).foldl (· + ·) 0
  let k2 := (cs.map (·.2.1)).foldl (· + ·) 0
  let cfg := (closeShape Facts.closeSkel).cfg
  let r1 := showClose k1 (runFan cfg k1 mask seed)
  if cs.any (·.2.2) then r1 ++ " / " ++ showClose k2 (runFan cfg k2 0 (seed + 1)) else r1

/-- `closel`: when Close returns, the user's logger holds the reports of the failing closers that are complete -/
def handleCloseL (n mask rounds seed : Nat) : String :=
  if n > 62 || !bitsBelow mask n || rounds < 1 || rounds > 200 then "bad-line" else
  let s := runFan (closeShape Facts.closeSkel).cfg n mask seed
  let r := showClose n s
  if r == "stuck" then r else r ++ " reports=" ++ toString (reported n (bitMask mask) s)

/-! sixth round: names that differ only in letter case; the closing phase under the built-in logger -/

/-- a group token of `closec`: kind (n t m) + count (2..4) + order (a d) → number of closers of the group -/
def caseCount (tok : String) : Option Nat :=
  match tok.toList with
  | [k, c, o] =>
    if !("ntm".toList.contains k) || !("ad".toList.contains o) || c.toNat < 50 || c.toNat > 52 then none
    else some (c.toNat - 48)
  | _ => none

/-- `closec`: the spellings of a group are different names (`caseNames`), so each member is a registered closer component
    with a definition of its own (`definedNames` under the exact key keeps all of them) -/
def handleCloseC (n mask : Nat) (groups : String) (seed : Nat) : String :=
  let toks := if groups == "-" then [] else groups.splitOn "."
  let cs := toks.map caseCount
  let kinds := toks.map fun t => t.toList.head?
  if n > 40 || cs.any Option.isNone || kinds.eraseDups.length != kinds.length then "bad-line" else
  let names := caseNames n (cs.filterMap id)
  let k := (definedNames (fun x => x) names).length
  if !bitsBelow mask k then "bad-line" else
  showClose k (runFan (closeShape Facts.closeSkel).cfg k mask seed)

/-- `closeb`: when Close returns, the output of the built-in logger holds the report of every failing closer whose report is
    complete, each as one line of its own -/
def handleCloseB (n mask rounds seed : Nat) : String :=
  if n > 62 || !bitsBelow mask n || rounds < 1 || rounds > 200 then "bad-line" else
  let s := runFan (closeShape Facts.closeSkel).cfg n mask seed
  let r := showClose n s
  if r == "stuck" then r else r ++ " intact=" ++ toString (reported n (bitMask mask) s)

/-! eighth round: starts through the package-level entry points; closers of other Go kinds -/

def posOf (x : Nat) : List Nat → Option Nat
  | [] => none
  | y :: ys => if x == y then some 0 else (posOf x ys).map (· + 1)

/-- the Close system over the closers `present` (numbers below `total`); closer i fails iff bit i of mask. Observation per
    closer 0..total-1; a closer that is not among the App's closers is never invoked. -/
def showPresent (total : Nat) (present : List Nat) (mask seed : Nat) : String :=
  let k := present.length
  let fails : Nat → Bool := fun j => mask.testBit (present.getD j 0)
  let s := schedule (closeShape Facts.closeSkel).cfg k fails (40 * (k + 2)) seed init
  if s.mainPc != 3 then "stuck" else
  "calls=" ++ joinC ((List.range total).map fun i => match posOf i present with
      | some j => toString (s.calls j) | none => "0") ++
  " done=" ++ joinC ((List.range total).map fun i => match posOf i present with
      | some j => if s.wpc j == WPc.finished then "1" else "0" | none => "0")

def parseCount (t : String) : Option Nat :=
  match t.toNat? with
  | some v => if 1 ≤ v && v ≤ 8 && toString v == t then some v else none
  | none => none

/-- counts 1..8 joined by `.`, at most `max` of them; `-` = none -/
def parseCounts (s : String) (max : Nat) : Option (List Nat) :=
  if s == "-" then some [] else
  let ks := (s.splitOn ".").map parseCount
  if ks.any Option.isNone || ks.length > max then none else some (ks.filterMap id)

/-- an option token of `closep`: `r` (none) or a count -/
def parsePOpt (t : String) : Option (Option Nat) := if t == "r" then some none else (parseCount t).map some

/-- `r` after a count -/
def registryAfterComponents : List (Option Nat) → Bool
  | [] => false
  | some _ :: rest => rest.any Option.isNone
  | none :: rest => registryAfterComponents rest

/-- consecutive numbers from `next` on for every count; `none` = SetRegistry -/
def numberOpts : Nat → List (Option Nat) → List ROpt
  | _, [] => []
  | next, none :: rest => .setRegistry :: numberOpts next rest
  | next, some k :: rest => .setComponents ((List.range k).map (· + next)) :: numberOpts (next + k) rest

def sumL (l : List Nat) : Nat := l.foldl (· + ·) 0

/-- `closep`: the ioc.Register calls, then ioc.Run with the call's own options -/
def handleCloseP (regs opts : String) (mask seed : Nat) : String :=
  match parseCounts regs 6 with
  | none => "bad-line"
  | some groups =>
    let toks := if opts == "-" then [] else opts.splitOn "."
    let parsed := toks.map parsePOpt
    if toks.length > 8 || parsed.any Option.isNone then "bad-line" else
    let ps := parsed.filterMap id
    let nreg := sumL groups
    let total := nreg + sumL (ps.filterMap id)
    if registryAfterComponents ps || total > 60 || !bitsBelow mask total then "bad-line" else
    let handlers := (numberOpts 0 (groups.map some)).foldl (fun hs o => iocRegister hs o.ids) []
    let ops := numberOpts nreg ps
    showPresent total (iocRunRegistry ops handlers) mask seed

def kindOf : Char → Option CKind
  | 's' => some .struct
  | 'i' => some .int | 'I' => some .int
  | 'l' => some .slice | 'L' => some .slice
  | 'c' => some .chan | 'C' => some .chan
  | 't' => some .text
  | 'm' => some .map
  | _ => none

/-- `closek`: every closer gets its definition in the tag scan, whatever its kind -/
def handleCloseK (n mask : Nat) (kinds : String) (seed : Nat) : String :=
  let cs := if n == 0 && kinds == "-" then [] else kinds.toList
  let ks := cs.map kindOf
  let upper := cs.filter fun c => c == 'I' || c == 'L' || c == 'C'
  if n > 40 || cs.length != n || ks.any Option.isNone || upper.eraseDups.length != upper.length || !bitsBelow mask n then "bad-line" else
  showPresent n (scanDefined codeScanGuard ((List.range n).zip (ks.filterMap id))) mask seed

/-! ninth round: user post-processors, other holders of closers, the factory driven directly -/

/-- Order() of a user processor with order digit d -/
def closeqOrders : List Int := [-1, 0, 1, 2, 3, 4, 5, 8, 16, 100]

/-- (rank: 0 PriorityOrdered, 1 Ordered, 2 neither; order; processor) -/
abbrev RankedProc := Nat × Int × IProc

/-- the built-in post-processors of an App (app/app.go:46-57; container/processors/orders.go): all answer true -/
def builtinProcs : List RankedProc :=
  [(1, 2, depProc), (1, 4, ⟨1, true, true⟩), (1, 8, ⟨2, true, true⟩), (1, 2, ⟨3, true, true⟩),
   (0, 2, ⟨4, true, true⟩), (0, 4, ⟨5, true, true⟩), (0, 8, ⟨6, true, true⟩), (0, 16, ⟨7, true, true⟩), (0, 16, ⟨8, true, true⟩)]

def parseQProc (idx : Nat) (t : String) : Option RankedProc :=
  match t.toList with
  | [c, d, a] =>
    if !("pou".toList.contains c) || !d.isDigit || !("dt".toList.contains a) || (c == 'u' && d != '0') then none else
    let rank := if c == 'p' then 0 else if c == 'o' then 1 else 2
    some (rank, closeqOrders.getD (d.toNat - 48) 0, ⟨100 + idx, true, a == 't'⟩)
  | _ => none

def rankedBefore (a b : RankedProc) : Bool :=
  a.1 < b.1 || (a.1 == b.1 && a.1 != 2 && a.2.1 < b.2.1)

/-- SortOrderedComponents: the three classes one after the other, the first two sorted by Order() (insertion keeps the
    earlier of two equal ones first) -/
def insertRanked (x : RankedProc) : List RankedProc → List RankedProc
  | [] => [x]
  | y :: ys => if rankedBefore y x || !(rankedBefore x y) then y :: insertRanked x ys else x :: y :: ys

def sortRanked (l : List RankedProc) : List RankedProc := l.foldr insertRanked []

def handleCloseQ (n mask : Nat) (procs : String) (seed : Nat) : String :=
  let toks := if procs == "-" then [] else procs.splitOn "."
  let ps := (List.range toks.length).zip toks |>.map fun (i, t) => parseQProc i t
  if n > 40 || toks.length > 6 || ps.any Option.isNone || !bitsBelow mask n then "bad-line" else
  let sorted := sortRanked (ps.filterMap id ++ builtinProcs)
  let present := if collectsClosers (resolveAfter (sorted.map (·.2.2))) then List.range n else []
  showPresent n present mask seed

def handleCloseH (n mask : Nat) (quals holders : String) (seed : Nat) : String :=
  let qs := if n == 0 && quals == "-" then [] else quals.toList
  let hs := if holders == "-" then [] else holders.splitOn "."
  let okTok : String → Bool := fun t => match t.toList with
    | [k, q, p] => "lo".toList.contains k && "dmn".toList.contains q && "ba".toList.contains p &&
        n > 0 && (q == 'n' || qs.contains q)
    | _ => false
  if n > 40 || qs.length != n || qs.any (fun q => !("sdm".toList.contains q)) || hs.length > 6 || !hs.all okTok
      || !bitsBelow mask n then "bad-line" else
  -- what the holders populated before the App keep of THEIR candidates
  let keeps : List (Nat → Bool) := (hs.filter fun t => t.toList.getD 2 'a' == 'b').map fun t i =>
    let q := t.toList.getD 1 'n'
    q == 'n' || qs.getD i 's' == q
  showPresent n (ownCandidates (List.range n) keeps) mask seed

def handleFdirect (n : Nat) (parts : String) (starts seed : Nat) : String :=
  let ps := parts.toList
  let count : Char → Nat := fun c => (ps.filter (· == c)).length
  let nscan := count 't' + count 'u' + count 'r'
  if n < 1 || n > 96 || starts < 1 || starts > 2000 || ps.length < 1 || ps.length > 6 || ps.any (fun c => !("turf".toList.contains c))
      || nscan == 0 || count 'f' > 1 || count 't' > 1 || count 'u' > 1 then "bad-line" else
  let g := n + ps.length
  let rounds := (List.range nscan).map fun k => runFan (scanShape Facts.scanSkel).cfg g 0 (seed + k)
  if rounds.any (fun s => s.mainPc != 3) then "stuck" else
  let r := fdirectObs g
  "errs=" ++ toString ((rounds.map (·.acc)).foldl (· + ·) 0) ++ " lost=" ++ toString r.1 ++ " two=" ++ toString r.2

/-! seventh round -/

/-- `plog`: which loggers receive the lines of each App's scan / Close; every line arrives once -/
def handlePlog (apps n nc first flags : Nat) : String :=
  if apps < 1 || apps > 12 || n < 1 || n > 64 || nc > 32 || first < 1 || first > apps || flags < 1 || flags > 3 then "bad-line" else
  let r := plogObs apps n nc first flags
  "scan=" ++ ",".intercalate r.1 ++ " close=" ++ ",".intercalate r.2 ++ " lines=ok"

/-- `rdel`: Range against Store/Delete of one key (a bounded instance of the harness's run: the model's Range visits
    every key atomically, so the numbers do not depend on g and rounds) -/
def handleRdel (g rounds : Nat) : String :=
  if g < 1 || g > 32 || rounds < 1 || rounds > 1000000 then "bad-line" else
  let r := rdelObs g rounds
  "phantom=" ++ toString (min r.1 1) ++ " dup=" ++ toString (min r.2.1 1) ++ " missing=" ++ toString (min r.2.2 1)

def showGmor (g : Nat) : String :=
  let r := gmorObs g
  "defs=" ++ toString r.1 ++ " listed=" ++ toString r.2.1 ++ " kept=" ++ (if r.2.2 then "1" else "0")

def handleGmor (g trials : Nat) : String :=
  if g < 1 || g > 64 || trials < 1 || trials > 100000 then "bad-line" else showGmor g

/-- `gscan`: one scanning round in which no scanner fails (n components and the scanner), and n load-or-stores of the
    shared definition -/
def handleGscan (n trials seed : Nat) : String :=
  if n < 1 || n > 99 || trials < 1 || trials > 1000 then "bad-line" else
  let s := runFan (scanShape Facts.scanSkel).cfg (n + 1) 0 seed
  if s.mainPc != 3 then "stuck" else
  let r := gmorObs n
  "errs=" ++ toString s.acc ++ " defs=" ++ toString r.1 ++ " kept=" ++ (if r.2.2 then "1" else "0")

/-! concurrent starts -/

def parseShape (t : String) : Option (Nat × Nat) :=
  match t.splitOn "x" with
  | [r, m] => match r.toNat?, m.toNat? with
    | some r, some m => if 1 ≤ r ∧ r ≤ 4 ∧ m ≤ 6 then some (r, m) else none
    | _, _ => none
  | _ => none

def parseHist (h : String) : Option Nat :=
  if h == "-" then some 0 else
  let ks := (h.splitOn ".").map String.toNat?
  if ks.any (fun k => k.isNone || k == some 0) then none else some ((ks.filterMap id).foldl (· + ·) 0)

def handleCstart (hist nops sync trials : String) (apps : List String) : String :=
  let shapes := apps.map parseShape
  match parseHist hist, nops.toNat?, trials.toNat? with
  | some glen, some nops, some trials =>
    if shapes.any Option.isNone || shapes.isEmpty || shapes.length > 8 || nops < 1 || nops > 3 || trials < 1 || trials > 1000
        || glen > 12 || (sync != "0" && sync != "1") || (sync == "1" && glen == 0) then "bad-line" else
    let shapes := shapes.filterMap id
    let c := stdCfg false glen (glen + 1) nops shapes.length
    let s := startRendezvous c (startInit stdHeap (shapes.length + 1))
    let idx := List.range shapes.length
    let runs := (idx.zip shapes).map fun (j, sh) => ".".intercalate (List.replicate sh.1 (toString (runsOf c s j)))
    let foreign := ((idx.zip shapes).map fun (j, sh) => sh.1 * foreignOf c s j).foldl (· + ·) 0
    "st=" ++ ".".intercalate (shapes.map fun _ => "ok") ++ " runs=" ++ "/".intercalate runs ++ " early=0 foreign=" ++ toString foreign
  | _, _, _ => "bad-line"

def lofnQueues : Nat → List Op := fun t => if t < 2 then [Op.loadOrStoreFn 1 (10 + t)] else []

def showRes : Option Res → String
  | some (.got (some v) l) => toString v ++ "," ++ (if l then "1" else "0")
  | some (.got none l) => "-," ++ (if l then "1" else "0")
  | some .unit => "u"
  | some (.seen l) => "s" ++ toString l.length
  | none => "?"

def resOf (h : List (Nat × Op × Res)) (t : Nat) : Option Res :=
  (h.find? fun e => e.1 == t).map fun e => e.2.2

def handleLofn (digits : String) : String :=
  let sched := digits.toList.map fun c => c.toNat - 48
  let s := run factProgs (Sys.start emptyMap lofnQueues) sched
  "t0=" ++ showRes (resOf s.hist 0) ++ " t1=" ++ showRes (resOf s.hist 1)

def handleRange (nk a : Nat) : String :=
  let keys := (List.range nk).map (· + 1)
  let m0 : MapSt := fun k => if 1 ≤ k ∧ k ≤ nk then some 1 else none
  let dels := keys.map Op.delete
  let q : Nat → List Op := fun t => if t = 0 then [Op.range keys] else if t = 1 then dels else []
  let sched := [0] ++ List.replicate (min a nk) 0 ++ List.replicate (2 * nk) 1 ++ List.replicate nk 0
  let s := run factProgs (Sys.start m0 q) sched
  match resOf s.hist 0 with
  | some (.seen l) => "seen=" ++ toString l.length
  | _ => "seen=?"

/-! recorded histories -/

def natOr (s : String) (d : Nat) : Nat := s.toNat?.getD d

def parsePairs (sep : String) (kv : String) (s : String) : List (Nat × Nat) :=
  if s == "-" || s == "" then [] else
  (s.splitOn sep).filterMap fun p =>
    match p.splitOn kv with
    | [k, v] => some (natOr k 0, natOr v 0)
    | _ => none

def parseRes (s : String) : Option Res :=
  match s.splitOn "/" with
  | ["u"] => some .unit
  | ["g", v, b] => some (.got (if v == "-" then none else some (natOr v 0)) (b == "1"))
  | "s" :: ps => some (.seen (ps.filterMap fun p => match p.splitOn "=" with | [k, v] => some (natOr k 0, natOr v 0) | _ => none))
  | _ => none

def parseOp (name k v : String) : Option Op :=
  let kn := natOr k 0
  let vn := natOr v 0
  match name with
  | "L" => some (.load kn)
  | "S" => some (.store kn vn)
  | "LS" => some (.loadOrStore kn vn)
  | "LF" => some (.loadOrStoreFn kn vn)
  | "D" => some (.delete kn)
  | "R" => some (.range ((k.splitOn ".").map fun x => natOr x 0))
  | "P" => some (.put kn)
  | "E" => some (.exists_ kn)
  | "X" => some (.remove kn)
  | _ => none

/-- `N:<k.k.k>:-:g/<n>/0:…` = Length() of a set over the key universe of the history -/
def parseHOp (name k v : String) : Option HOp :=
  if name == "N" then some (.length ((k.splitOn ".").map fun x => natOr x 0))
  else (parseOp name k v).map HOp.op

def parseCall (tok : String) : Option HRec :=
  match tok.splitOn ":" with
  | [name, k, v, res, inv, ret] =>
    match parseHOp name k v, parseRes res with
    | some op, some r => some ⟨op, r, natOr inv 0, natOr ret 0⟩
    | _, _ => none
  | _ => none

/-- `linearizableHB` on a history without `Length` calls is `linearizableB` (IocProofs.C20.C20_hist_conservative) -/
def handleHist (init : String) (calls : List String) : String :=
  let m0 : MapSt := fun k => (parsePairs "," "=" init).lookup k
  let recs := calls.map parseCall
  if recs.any Option.isNone then "bad-line" else
  if linearizableHB m0 (recs.filterMap id) then "lin" else "nonlin"

/-! quiescent reads of a set after concurrent removals / insertions -/

def parseSetOp (s : String) : Option Op :=
  match s.toList with
  | 'x' :: r => (String.ofList r).toNat?.map Op.remove
  | 'p' :: r => (String.ofList r).toNat?.map Op.put
  | _ => none

def parseQueue (s : String) : Option (List Op) :=
  let ops := (s.splitOn ".").map parseSetOp
  if ops.any Option.isNone then none else some (ops.filterMap id)

def setUniverse : List Nat := [1, 2, 3, 4, 5, 6, 7, 8]

def handleSetLen (obj : String) (nk : Nat) (queues : List String) : String :=
  let qs := queues.map parseQueue
  if (obj != "cs" && obj != "gs") || nk > 8 || qs.isEmpty || qs.any Option.isNone then "bad-line" else
  let qs := qs.filterMap id
  let all := qs.flatten
  if all.any (fun op => op.key == 0 || op.key > 8) then "bad-line" else
  if (removedKeys all).any (fun k => (putKeys all).contains k) then "bad-line" else
  let m0 : MapSt := fun k => if 1 ≤ k ∧ k ≤ nk then some 0 else none
  let r := quiescentObs m0 qs setUniverse
  "len=" ++ toString r.1 ++ " arr=" ++ toString r.2.1 ++ " has=" ++
    (if r.2.2.isEmpty then "-" else ".".intercalate (r.2.2.map toString))

def handle (line : String) : String :=
  match line.splitOn " " with
  | ["close", n, mask, seed] =>
    let n := natOr n 0
    showClose n (runFan (closeShape Facts.closeSkel).cfg n (natOr mask 0) (natOr seed 0))
  | ["closef", n, mask, seed] =>
    let n := natOr n 0
    showClose n (runFan (closeShape Facts.closeSkel).cfg n (natOr mask 0) (natOr seed 0))
  | ["closez", n, mask, _zmask, seed] =>
    let n := natOr n 0
    showClose n (runFan (closeShape Facts.closeSkel).cfg n (natOr mask 0) (natOr seed 0))
  | ["closew", n, mask, fast, seed] =>
    let n := natOr n 0
    if n > 62 then "bad-line" else
    let r := showClose n (runFanW (closeShape Facts.closeSkel).cfg n (natOr mask 0) (natOr fast 0) (natOr seed 0))
    if r == "stuck" then r else r ++ " gaveup=0"
  | ["closea", n, mask, amask, bmask, tmask, seed] =>
    handleCloseA (natOr n 99) (natOr mask 0) (natOr amask 0) (natOr bmask 0) (natOr tmask 99) (natOr seed 0)
  | ["closed", n, mask, pairs, seed] => handleCloseD (natOr n 99) (natOr mask 0) pairs (natOr seed 0)
  | ["closel", n, mask, rounds, seed] => handleCloseL (natOr n 99) (natOr mask 0) (natOr rounds 0) (natOr seed 0)
  | ["closec", n, mask, groups, seed] => handleCloseC (natOr n 99) (natOr mask 0) groups (natOr seed 0)
  | ["closeb", n, mask, rounds, seed] => handleCloseB (natOr n 99) (natOr mask 0) (natOr rounds 0) (natOr seed 0)
  | ["closep", regs, opts, mask, seed] => handleCloseP regs opts (natOr mask 0) (natOr seed 0)
  | ["closek", n, mask, kinds, seed] => handleCloseK (natOr n 99) (natOr mask 0) kinds (natOr seed 0)
  | ["closeq", n, mask, procs, seed] => handleCloseQ (natOr n 99) (natOr mask 0) procs (natOr seed 0)
  | ["closeh", n, mask, quals, holders, seed] => handleCloseH (natOr n 99) (natOr mask 0) quals holders (natOr seed 0)
  | ["fdirect", n, parts, starts, seed] => handleFdirect (natOr n 0) parts (natOr starts 0) (natOr seed 0)
  | ["plog", apps, n, nc, first, flags, _seed] =>
    handlePlog (natOr apps 0) (natOr n 0) (natOr nc 99) (natOr first 0) (natOr flags 0)
  | ["rdel", g, rounds] => handleRdel (natOr g 0) (natOr rounds 0)
  | ["gmor", g, trials] => handleGmor (natOr g 0) (natOr trials 0)
  | ["gscan", n, trials, seed] => handleGscan (natOr n 0) (natOr trials 0) (natOr seed 0)
  | "cstart" :: hist :: nops :: sync :: trials :: apps => handleCstart hist nops sync trials apps
  | ["fstart", n, _kinds, seed] =>
    let s := runFan (scanShape Facts.scanSkel).cfg (natOr n 0 + 1) 0 (natOr seed 0)
    if s.mainPc != 3 then "stuck" else "errs=" ++ toString s.acc
  | ["scan", n, mask, seed] =>
    let s := runFan (scanShape Facts.scanSkel).cfg (natOr n 0) (natOr mask 0) (natOr seed 0)
    if s.mainPc != 3 then "stuck" else "errs=" ++ toString s.acc
  | ["lofn", digits] => handleLofn digits
  | ["range", nk, a] => handleRange (natOr nk 0) (natOr a 0)
  | "hist" :: init :: calls => handleHist init calls
  | "setlen" :: obj :: nk :: _trials :: queues => handleSetLen obj (natOr nk 9) queues
  | _ => "bad-line"

end Driver.Conc
