/- Driver.Conc — line protocol of the `conc` sub-harness (stub until the unit is built). -/
import Ioc.Basic
namespace Driver.Conc
def handle (_line : String) : String := "unimplemented"
end Driver.Conc
