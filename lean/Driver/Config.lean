/-
  Driver.Config — line protocol of the `config` sub-harness (C15).

    scenario := ["EV" n (namehex value)^n] ["CF" | "OA" n (pathhex node)^n] opt* ("IN" opt*)* "|" path*
              | "GS" opt* (("GS" | "NA") opt*)* "|" path*
                 a PROCESS history: `GS` = app.Settings(the options up to the next mark), `NA` = a new App:
                 app.NewApp().Run(the options up to the next mark) (`Ioc.Config.runProc`); one phase per App, every App
                 is started whatever became of the earlier ones
                 `EV` = n variables the harness puts into the ENVIRONMENT of the process for the duration of the scenario
                 (value: hex, or `*` = as the process has it).  The effective configuration is a function of the loader
                 outputs alone (`Ioc.Config` has no environment): the prefix is checked for its form and dropped (`dropEnv`)
                 `OA` = the process command line holds these n `--app.config=path=value` arguments: the output of the
                 default ArgsLoader(os.Args) every new App starts with (`St.appCmd`)
                 `IN` = "Initialize now": the options before the first `IN` (all of them when there is none) are the
                 arguments of `app.NewApp().Run(…)`, which initialises; every later batch is applied to the SAME live App
                 (`opt(app)`) and followed by `app.Initialize()`.  A leading `CF` = the same on a bare
                 `configure.NewConfigure()` with a ViperBinder (no default ArgsLoader; SL = SetLoaders, AL/CA/SF = AddLoaders)
    opt      := "SL" n loader^n      app.SetConfigLoader(…)
              | "AL" n loader^n      app.AddConfigLoader(…)
              | "CA" n loader^n      option calling s.Configure.AddLoaders(…)
              | "SC" n loader^n      app.SetConfigure(fresh configure with SetLoaders(…))
              | "SF" loader          app.SetConfig(file)            (loader must be `f …` or `~ k`)
    loader   := "r" out | "f" out | "p" int out | "o" int out       raw / file / Priority raw / Ordered raw
              | "n" out                                             a FileLoader whose path is a named pipe that delivers
                                                                    `out` once: LoadConfig reads to the end of the input
                                                                    (os.ReadFile), so it is the FileLoader with that output
              | "a" n (pathhex node)^n                              ArgsLoader with n `--app.config=path=value`
              | "=" k                                               the same loader object as the k-th loader of the line
              | "~" k                                               a new FileLoader on the path of the k-th loader
                                                                    (both: a loader is a value here, so it is that loader again)
    out      := "E" (no bytes) | "X" (LoadConfig fails) | node
    node     := "M" n (keyhex node)^n | "L" n node^n | "P"hex (plain scalar) | "Q"hex (quoted string) | "N" (null)
    path     := hex of the dotted path (`-` = the empty path)

    output   := phase ("/" phase)*   one per Initialize, ending at the first `err` / `panic`
    phase    := `err` | `panic` | one rendering per path, space separated:
                `nil` | `s:<hex of %v text>` | `list[n](e,…)` | `map{k,…}` (hex keys, sorted; for the empty path
                only keys below which viper.AllKeys finds a non-nil leaf)
-/
import Ioc.Config
namespace Driver.Config
open Ioc Ioc.Config

abbrev Toks := List String

mutual
def pNode : Nat → Toks → Option (Cfg × Toks)
  | 0, _ => none
  | _, [] => none
  | f+1, tok :: rest =>
    if tok = "N" then some (.scalar .null, rest)
    else if tok = "M" then
      match rest with
      | n :: rest' => match n.toNat? with
        | some k => (pKvs f k rest').map fun (kvs, r) => (.map kvs, r)
        | none => none
      | [] => none
    else if tok = "L" then
      match rest with
      | n :: rest' => match n.toNat? with
        | some k => (pList f k rest').map fun (l, r) => (.list l, r)
        | none => none
      | [] => none
    else match tok.toList with
      | 'P' :: h => (fromHex (String.ofList h)).map fun b => (.scalar (.val b), rest)
      | 'Q' :: h => (fromHex (String.ofList h)).map fun b => (.scalar (.val b), rest)
      | _ => none
def pKvs : Nat → Nat → Toks → Option (Kvs × Toks)
  | _, 0, toks => some ([], toks)
  | 0, _, _ => none
  | f+1, k+1, key :: toks =>
    match fromHex key, pNode f toks with
    | some kb, some (v, r) => (pKvs f k r).map fun (kvs, r') => ((kb, v) :: kvs, r')
    | _, _ => none
  | _, _, [] => none
def pList : Nat → Nat → Toks → Option (List Cfg × Toks)
  | _, 0, toks => some ([], toks)
  | 0, _, _ => none
  | f+1, k+1, toks =>
    match pNode f toks with
    | some (v, r) => (pList f k r).map fun (l, r') => (v :: l, r')
    | none => none
end

def splitDots (s : Bytes) : List Bytes :=
  let step := fun (b : UInt8) (acc : List Bytes) =>
    if b = 46 then [] :: acc else
    match acc with
    | [] => [[b]]
    | cur :: more => (b :: cur) :: more
  s.foldr step [[]]

def pOut (fuel : Nat) : Toks → Option (Out × Toks)
  | "E" :: r => some (.empty, r)
  | "X" :: r => some (.fail, r)
  | toks => (pNode fuel toks).map fun (c, r) => (.doc c, r)

def pPairs : Nat → Nat → Toks → Option (List (Path × Cfg) × Toks)
  | _, 0, toks => some ([], toks)
  | 0, _, _ => none
  | f+1, k+1, p :: toks =>
    match fromHex p, pNode f toks with
    | some pb, some (v, r) => (pPairs f k r).map fun (ps, r') => ((splitDots pb, v) :: ps, r')
    | _, _ => none
  | _, _, [] => none

/-- one loader; `id` numbers the loaders of a scenario, `env` = the loaders of the line so far (loader #k = env[k-1]) -/
def pLoader (fuel id : Nat) (env : List Loader) : Toks → Option (Loader × Toks)
  | "=" :: n :: r => match n.toNat? with
    | some k => if k = 0 then none else (env[k-1]?).map fun l => (l, r)
    | none => none
  | "~" :: n :: r => match n.toNat? with
    | some k => if k = 0 then none else (env[k-1]?).map fun l => ({ l with id := id }, r)
    | none => none
  | "r" :: r => (pOut fuel r).map fun (o, r') => (⟨id, .plain, o⟩, r')
  | "f" :: r => (pOut fuel r).map fun (o, r') => (fileLoader id o, r')
  | "n" :: r => (pOut fuel r).map fun (o, r') => (pipeLoader id o, r')
  | "p" :: k :: r => match k.toInt? with
    | some ki => (pOut fuel r).map fun (o, r') => (⟨id, .prio ki, o⟩, r')
    | none => none
  | "o" :: k :: r => match k.toInt? with
    | some ki => (pOut fuel r).map fun (o, r') => (⟨id, .ord ki, o⟩, r')
    | none => none
  | "a" :: n :: r => match n.toNat? with
    | some k => (pPairs fuel k r).map fun (ps, r') => (⟨id, .plain, argsOut ps⟩, r')
    | none => none
  | _ => none

def pLoaders (fuel : Nat) : Nat → Nat → List Loader → Toks → Option (List Loader × Nat × List Loader × Toks)
  | 0, id, env, toks => some ([], id, env, toks)
  | k+1, id, env, toks =>
    match pLoader fuel id env toks with
    | some (l, r) => (pLoaders fuel k (id+1) (env ++ [l]) r).map fun (ls, id', env', r') => (l :: ls, id', env', r')
    | none => none

/-- an option, or a mark: `IN` Initialize now, `GS` app.Settings(what follows), `NA` a new App runs with what follows -/
inductive Item
  | opt (o : Opt)
  | init
  | settings
  | newApp

def pOpts : Nat → Nat → List Loader → Toks → Option (List Item × Toks)
  | 0, _, _, _ => none
  | _, _, _, [] => none
  | f+1, id, env, tok :: rest =>
    if tok = "|" then some ([], rest)
    else if tok = "IN" then (pOpts f id env rest).map fun (os, r') => (.init :: os, r')
    else if tok = "GS" then (pOpts f id env rest).map fun (os, r') => (.settings :: os, r')
    else if tok = "NA" then (pOpts f id env rest).map fun (os, r') => (.newApp :: os, r')
    else if tok = "SF" then
      match pLoader (f+1) id env rest with
      | some (l, r) => (pOpts f (id+1) (env ++ [l]) r).map fun (os, r') => (.opt (.setConfig l) :: os, r')
      | none => none
    else
      match rest with
      | n :: rest' =>
        match n.toNat? with
        | some k =>
          match pLoaders (f+1) k id env rest' with
          | some (ls, id', env', r) =>
            let mk : Option Opt :=
              if tok = "SL" then some (.setLoaders ls) else if tok = "AL" then some (.addLoaders ls)
              else if tok = "CA" then some (.configureAdd ls) else if tok = "SC" then some (.setConfigure ls) else none
            match mk with
            | some o => (pOpts f id' env' r).map fun (os, r') => (.opt o :: os, r')
            | none => none
          | none => none
        | none => none
      | [] => none

def insertKey (k : Key) : List Key → List Key
  | [] => [k]
  | y :: ys => if bytesLt k y then k :: y :: ys else y :: insertKey k ys

def sortKeys (l : List Key) : List Key := l.foldl (fun acc k => insertKey k acc) []

def showKeys (ks : List Key) : String := "map{" ++ joinWith "," ((sortKeys ks).map toHex) ++ "}"

mutual
def render : Cfg → String
  | .scalar .null => "nil"
  | .scalar (.val b) => "s:" ++ toHex b
  | .list l => "list[" ++ toString l.length ++ "](" ++ joinWith "," (renderList l) ++ ")"
  | .map kvs => showKeys (keysOf kvs)
def renderList : List Cfg → List String
  | [] => []
  | c :: rest => render c :: renderList rest
end

/-- ViperBinder.Get: "" → AllSettings (rebuilt from AllKeys), otherwise Viper.Get(lower-cased path) -/
def query (c : Cfg) (p : Bytes) : String :=
  if p.isEmpty then
    match c with
    | .map kvs => showKeys (keysOf (kvs.filter fun kv => hasLeaf kv.2))
    | _ => "nil"
  else
    match c.get ((splitDots p).map lower) with
    | none => "nil"
    | some v => render v

/-- the batches between the `IN` marks (k marks → k+1 batches) -/
def batches : List Item → List (List Opt)
  | [] => [[]]
  | .opt o :: rest =>
    match batches rest with
    | b :: bs => (o :: b) :: bs
    | [] => [[o]]
  | _ :: rest => [] :: batches rest

/-- the steps of a process history: every `GS` / `NA` mark opens a step, the options up to the next mark belong to it
    (options before the first mark: there are none, a history starts with `GS`) -/
def procSteps : List Item → List ProcStep
  | [] => []
  | .settings :: rest =>
    match batches rest with
    | b :: _ => .settings b :: procSteps rest
    | [] => .settings [] :: procSteps rest
  | .newApp :: rest =>
    match batches rest with
    | b :: _ => .newApp b :: procSteps rest
    | [] => .newApp [] :: procSteps rest
  | _ :: rest => procSteps rest

def renderApp (paths : List Bytes) : Except Bool St → String
  | .error true => "panic"
  | .error false => "err"
  | .ok s => joinWith " " (paths.map (query s.acc))

/-- one Initialize per batch on the same live Configure; the observation ends at the first error / panic -/
def runBatches (paths : List Bytes) : St → List (List Opt) → List String
  | _, [] => []
  | s, b :: rest =>
    match runPhase s b with
    | .error true => ["panic"]
    | .error false => ["err"]
    | .ok s' => joinWith " " (paths.map (query s'.acc)) :: runBatches paths s' rest

/-- the leading `OA n (pathhex node)^n`: the command line of the process; none = no such prefix / malformed -/
def pCmdline (fuel : Nat) : Toks → Option (List (Path × Cfg) × Toks)
  | "OA" :: n :: r => match n.toNat? with
    | some k => pPairs fuel k r
    | none => none
  | _ => none

/-- a leading `EV n (namehex value)^n`: the environment of the process.  The model has no environment — the loaders alone
    determine the configuration —, so the 2n tokens are dropped; none = malformed -/
def dropEnv : Toks → Option Toks
  | "EV" :: n :: r =>
    match n.toNat? with
    | some k =>
      let vars := r.take (2 * k)
      if vars.length = 2 * k && vars.all (fun t => t = "*" || (fromHex t).isSome) then some (r.drop (2 * k)) else none
    | none => none
  | toks => some toks

def handle (line : String) : String :=
  match dropEnv (line.splitOn " ") with
  | none => "bad-line"
  | some toks0 =>
  let bare := toks0.head? = some "CF"
  let cmd := toks0.head? = some "OA"
  let fuel0 := 2 * toks0.length + 4
  match (if cmd then pCmdline fuel0 toks0 else some ([], if bare then toks0.drop 1 else toks0)) with
  | none => "bad-line"
  | some (pairs, toks) =>
    let fuel := 2 * toks.length + 4
    match pOpts fuel 1 [] toks with
    | none => "bad-line"
    | some (items, pathToks) =>
      match pathToks.mapM fromHex with
      | none => "bad-line"
      | some paths =>
        if toks0.head? = some "GS" then joinWith " / " ((runProc [] (procSteps items)).map (renderApp paths))
        else joinWith " / " (runBatches paths (if bare then St.bare else St.appCmd pairs) (batches items))

end Driver.Config
