/- Driver.Config — line protocol of the `config` sub-harness (stub until the unit is built). -/
import Ioc.Basic
namespace Driver.Config
def handle (_line : String) : String := "unimplemented"
end Driver.Config
