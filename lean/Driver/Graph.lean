/- Driver.Graph — line protocol of the `graph` sub-harness (stub until the unit is built). -/
import Ioc.Basic
namespace Driver.Graph
def handle (_line : String) : String := "unimplemented"
end Driver.Graph
