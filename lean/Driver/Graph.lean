/-
  Driver.Graph — line protocol of the `graph` sub-harness: composes M8 (tag text) → M3 (candidates, narrowing)
  → M2 (factory machine) → M5 (App.run, runners) exactly as the code does, from the scenario line alone.
  Format: see harness/cmd/harness/sub_graph.go.
-/
import Ioc.Match
import Ioc.App
namespace Driver.Graph
open Ioc Ioc.Match Ioc.M2 Ioc.App

structure RowRec where
  prov : Prov
  lazy : Bool
  ocls : OrdClass
  okey : Int

structure NodeRec where
  row : Nat
  early : Nat
  after : Nat
  flt : Nat
  cfg : Nat
  wired : Bool

structure SlotRec where
  row : Nat
  name : String
  slot : Slot

structure Parsed where
  loaderFail : Bool := false
  scanFail : Bool := false
  order : List Nat := []
  boot : List Nat := []
  rows : List RowRec := []
  nodes : List NodeRec := []
  slots : List SlotRec := []

def natOf (s : String) : Nat := s.toNat?.getD 0
def intOf (s : String) : Int := s.toInt?.getD 0
def natList (s : String) : List Nat := if s = "-" then [] else (s.splitOn ",").map natOf
def hexOr (s : String) : Bytes := (fromHex s).getD []

def parseMeths (s : String) : List Meth :=
  if s = "." then [] else
  (s.splitOn ",").filterMap fun m =>
    match m.splitOn "/" with
    | [n, i, o, r] => some { name := n, numIn := natOf i, numOut := natOf o, result := hexOr r }
    | _ => none

def parseKind (k t : String) : Kind :=
  match k with
  | "p" => .ptr (natOf t) | "i" => .iface (natOf t) | "P" => .slicePtr (natOf t) | "I" => .sliceIface (natOf t) | _ => .other

def parseRec (p : Parsed) (rec : String) : Parsed :=
  match (rec.splitOn " ").filter (· ≠ "") with
  | "X" :: lf :: sf :: _ => { p with loaderFail := lf = "1", scanFail := sf = "1" }
  | ["K", l] => { p with order := natList l }
  | ["B", l] => { p with boot := natList l }
  | "R" :: idx :: name :: ty :: impl :: custom :: primary :: lazy :: qual :: meths :: ocls :: okey :: more =>
    let inj : Option (Nat × Nat) :=
      match more with
      | [tok] => (match tok.splitOn "/" with
          | [a, b] => if tok = "~" then none else some (natOf a, natOf b)
          | _ => none)
      | _ => none
    let pr : Prov := { id := natOf idx, name := hexOr name, ty := natOf ty, impl := natOf impl, custom := custom = "1",
                       primary := primary = "1", qual := if qual = "~" then none else some (hexOr qual), meths := parseMeths meths,
                       inj := inj }
    { p with rows := p.rows ++ [{ prov := pr, lazy := lazy = "1",
                                  ocls := if ocls = "p" then .prio else if ocls = "o" then .ord else .plain, okey := intOf okey }] }
  | "N" :: row :: _ty :: _cust :: _q :: _r :: _ord :: early :: after :: flt :: cfg :: wired :: _ =>
    { p with nodes := p.nodes ++ [{ row := natOf row, early := natOf early, after := natOf after, flt := natOf flt,
                                    cfg := natOf cfg, wired := wired = "1" }] }
  | ["F", row, sname, kind, target, tk, tag] =>
    { p with slots := p.slots ++ [{ row := natOf row, name := sname,
                                    slot := { holder := natOf row, kind := parseKind kind target, isFunc := tk = "f", tag := hexOr tag } }] }
  | _ => p

def parse (line : String) : Parsed :=
  (line.splitOn " | ").foldl parseRec {}

def showObj (o : Obj) : String := toString o.name ++ "#" ++ toString o.ver

def showEv : Ev → String
  | .new n => "n" ++ toString n | .conf n => "c" ++ toString n | .before n => "b" ++ toString n
  | .aps n => "a" ++ toString n | .init n => "i" ++ toString n | .after n => "f" ++ toString n
  | .early n => "e" ++ toString n

/-- build the machine scenario from the parsed line -/
def build (p : Parsed) : AppScen × List SlotRec :=
  let byRow : Nat → Option RowRec := fun i => p.rows.find? (fun r => r.prov.id == i)
  -- population in GetMetas enumeration order
  let pop : List Prov := p.order.filterMap (fun i => (byRow i).map (·.prov))
  let nodeOf : Nat → Option NodeRec := fun i => p.nodes.find? (fun n => n.row == i)
  let slotsOf : Nat → List Slot := fun i => (p.slots.filter (fun s => s.row == i)).map (·.slot)
  let names := p.rows.map (·.prov.id)
  let eagerRows := (p.rows.filter (fun r => !r.lazy))
  let eager := (isort (fun a b => bytesLt a.prov.name b.prov.name) eagerRows).map (·.prov.id)
  let flt : Nat → Nat → Bool := fun i b => match nodeOf i with | some n => n.flt.testBit b | none => false
  -- resolve every holder's points once (pure function of the scenario)
  let resolved : List (Nat × Option (List M2.Point)) := names.map fun i =>
    (i, (resolveAll pop (slotsOf i)).map (fun l => l.map fun rp =>
      { cands := rp.cands, slice := rp.slice, required := rp.required, incompat := rp.incompat }))
  let sc : Scen :=
    { names := names, boot := p.boot, eager := eager,
      points := fun i => match resolved.find? (fun x => x.1 == i) with | some x => x.2 | none => some []
      wired := fun i => match nodeOf i with | some n => n.wired | none => true
      logged := fun i => (nodeOf i).isSome
      cfgOk := fun i => !(match nodeOf i with | some n => n.cfg == 2 || n.cfg == 6 || n.cfg == 7 || n.cfg == 10 || n.cfg == 13 | none => false) && !flt i 0 && !flt i 1
      fBefore := fun i => flt i 2, fAps := fun i => flt i 3, fInit := fun i => flt i 4, fAfter := fun i => flt i 5,
      fEarly := fun i => flt i 6,
      earlyO := fun i => match nodeOf i with | some n => ⟨i, n.early⟩ | none => raw i
      afterO := fun i => match nodeOf i with | some n => ⟨i, n.after⟩ | none => raw i }
  let appSlots := p.slots.filter (fun s => s.name == "ApplicationRunners")
  let appRow := match appSlots with | s :: _ => s.row | [] => 0
  let rp := ((p.slots.filter (fun s => s.row == appRow)).findIdx? (fun s => s.name == "ApplicationRunners")).getD 0
  ({ loaderFail := p.loaderFail, scanFail := p.scanFail, sc := sc, appRow := appRow, runnersPoint := rp,
     runnerInfo := fun i => match byRow i with
       | some r => (r.ocls, r.okey, flt i 7)
       | none => (.plain, 0, false) }, p.slots)

def pointIndex (slots : List SlotRec) (s : SlotRec) : Nat :=
  ((slots.filter (fun x => x.row == s.row)).findIdx? (fun x => x.name == s.name)).getD 0

def render (p : Parsed) (a : AppScen) (r : Result) : String :=
  let st := match r.outcome with
    | .ok => "ok" | .errConfig => "err.config" | .errFactory => "err.factory" | .errRefresh => "err.refresh" | .errRunners => "err.runners"
  let evs := r.st.log.reverse.map showEv ++ r.invoked.map (fun x => "r" ++ toString x.obj.name)
  let ev := if evs.isEmpty then "-" else joinWith "," evs
  let base := "st=" ++ st ++ " ev=" ++ ev
  if r.outcome == .ok then
    let shown := p.slots.filter (fun s => s.name != "ApplicationRunners")
    let fl := shown.map fun s =>
      let objs := r.st.fields s.row (pointIndex p.slots s)
      toString s.row ++ "." ++ s.name ++ ":" ++ (if objs.isEmpty then "-" else joinWith "+" (objs.map showObj))
    let pubs := p.nodes.filterMap fun n =>
      (r.st.l1 n.row).map fun o => toString n.row ++ ":" ++ showObj o
    let _ := a
    base ++ " fl=" ++ (if fl.isEmpty then "-" else joinWith ";" fl) ++ " pub=" ++ (if pubs.isEmpty then "-" else joinWith "," pubs)
  else base

/-- retry scenarios: after a successful start, the nodes marked fail-once (bit 9) or look-up (bit 10) are looked up by name
    until they are published, at most 4 times each; a fail-once `Init` fails exactly when it has not run before -/
def retryLookups (p : Parsed) (sc : Scen) (st0 : St) : St :=
  let marked := p.nodes.filter (fun n => n.flt.testBit 9 || n.flt.testBit 10)
  marked.foldl (fun st n =>
    (List.range 4).foldl (fun st _ =>
      if (st.l1 n.row).isSome then st
      else
        let once : Nat → Bool := fun i =>
          (p.nodes.any (fun m => m.row == i && m.flt.testBit 9)) && !(st.log.contains (M2.Ev.init i))
        let scK : Scen := { sc with fInit := fun i => sc.fInit i || once i }
        M2.lookupAfter scK st n.row) st) st0

def handle (line : String) : String :=
  let p := parse line
  let (a, _) := build p
  let r := appRun a
  if r.outcome == .ok && p.nodes.any (fun n => n.flt.testBit 9 || n.flt.testBit 10) then
    -- events are those of the start; fields and published instances are read after the lookups
    let stEnd := retryLookups p a.sc r.st
    render p a { r with st := { stEnd with log := r.st.log } }
  else render p a r

end Driver.Graph
