/-
  Driver.Registry — line protocol of the `registry` sub-harness (C04).

  scenario   a list of operation trees in prefix form, space separated:
               L <n> <0|1> <e>          GetSingleton(n, allowEarly); e = what the early factory returns if run
               G <n> <e> [ … ] <res>    doGetComponent(n): lookup, else creation with the body … returning <res>
             <e>, <res> ::= x (error) | o<name>#<ver>
             A line may start with `F <words…> |`: a history recorded from the real factory (the words describe the
             component graph for the harness; the model reads only what follows the bar).
  output     the trace, space separated:  `[<n>` a creation body is entered;
             `<n>=<o<name>#<ver>|nil|err><+|-><!>`  a call on n returned (+ = n in creation afterwards, ! = ran the
             early factory).  Empty trace = `.`
-/
import Ioc.Registry
namespace Driver.Registry
open Ioc

def parseRes (t : String) : Option (Except Err Obj) :=
  if t = "x" then some (.error .fail) else
  match t.toList with
  | 'o' :: rest =>
    match (String.ofList rest).splitOn "#" with
    | [a, b] =>
      match a.toNat?, b.toNat? with
      | some a, some b => some (.ok ⟨a, b⟩)
      | _, _ => none
    | _ => none
  | _ => none

mutual
def parseAct : Nat → List String → Option (Act × List String)
  | 0, _ => none
  | _ + 1, "L" :: n :: b :: e :: rest =>
    match n.toNat?, parseRes e with
    | some n, some e =>
      if b = "1" then some (.lookup n true e, rest)
      else if b = "0" then some (.lookup n false e, rest)
      else none
    | _, _ => none
  | f + 1, "G" :: n :: e :: "[" :: rest =>
    match n.toNat?, parseRes e, parseActs f rest with
    | some n, some e, some (body, "]" :: res :: rest') =>
      match parseRes res with
      | some res => some (.getOrCreate n e body res, rest')
      | none => none
    | _, _, _ => none
  | _, _ => none
/-- parses operations up to a closing bracket (left in the rest) or the end of the input -/
def parseActs : Nat → List String → Option (List Act × List String)
  | 0, _ => none
  | _ + 1, [] => some ([], [])
  | _ + 1, "]" :: rest => some ([], "]" :: rest)
  | f + 1, toks =>
    match parseAct f toks with
    | some (a, rest) =>
      match parseActs f rest with
      | some (as, rest') => some (a :: as, rest')
      | none => none
    | none => none
end

def showObj (o : Obj) : String := "o" ++ toString o.name ++ "#" ++ toString o.ver

def showEv : Ev → String
  | .begin n => "[" ++ toString n
  | .ret n r c ran =>
    toString n ++ "=" ++
      (match r with
       | .obj o => showObj o
       | .none => "nil"
       | .err => "err") ++
      (if c then "+" else "-") ++ (if ran then "!" else "")

def dropHeader (toks : List String) : List String :=
  match toks with
  | "F" :: rest => (rest.dropWhile (· != "|")).drop 1
  | _ => toks

def handle (line : String) : String :=
  let toks := dropHeader ((line.splitOn " ").filter (· != ""))
  match parseActs (2 * toks.length + 2) toks with
  | some (as, []) =>
    let evs := (execs Reg.empty as).2
    if evs.isEmpty then "." else joinWith " " (evs.map showEv)
  | _ => "bad-line"

end Driver.Registry
