/- Driver.Registry — line protocol of the `registry` sub-harness (stub until the unit is built). -/
import Ioc.Basic
namespace Driver.Registry
def handle (_line : String) : String := "unimplemented"
end Driver.Registry
