/-
  Driver.Order — line protocol of the `order` / `orderstart` sub-harnesses (C12).

  participant token:  [i|s] (p<k> | o<k> | n | q) markers*
      p<k>  priority-ordered, Order() = k (signed decimal, int64 range)     o<k>  ordered only
      n     neither interface                                               q     Priority() without Order()  (→ plain)
      i     (processors) InstantiationAware
      s     (processors) SmartInstantiationAware (InstantiationAware + GetEarlyBeanReference)
      markers   loaders:    !  LoadConfig fails      +  non-empty config      *  non-empty config that SetConfig rejects
                runners:    !  Run fails      e  zero-size Go type (no effect on the model)
                            c  Order() answers a field bound from configuration, which holds k: when the runners are started
                               (app.go:142 sorts THEN, after Refresh has populated every component) the answer is k
                processors and runners:
                            t  the instance is listed twice in the application's SetComponents call
                            u  the instance is listed once more in a second SetComponents option applied after it
                               (`registered`: registry.RegisterSingleton ignores the same object under a taken name)
                processors: !  Before… fails   ?  Before… returns nil   ^  After… fails   ~  After… returns nil
                            z  LazyInit (definition.LazyInitComponent): appended to the chain as registered, at its sorted
                               position (delegate:51 skips the factory lookup); every other processor is fetched from the factory
                            w  DECORATING processor: every eager processor the factory creates after it (= behind it in the sorted
                               raw slice) comes back inside a decorator that has neither Order() nor Priority(); the decorator forwards
                               every callback, and it is appended at the position of the processor it decorates (delegate:56-60)

  in :  `D tok*`                          → SortOrderedComponents:  `p<k>` / `o<k>` / `n<id>` sequence  (`-` = empty)
        `S L tok* P tok* R tok*`          → one start with a probe component:
               `L:… B:… I:… P:… A:… R:… E:ok|err`   (LoadConfig, SetConfig, AfterInstantiation, BeforeInit, AfterInit, Run logs)
               plain participants print as `n<id>` for loaders (registration order is defined) and `n` otherwise
        `SC L tok* P tok* R tok*`         → the same start with the probe in a circular reference (one early-reference request):
               `L:… B:… I:… P:… A:… R:… G:… E:ok|err`   (G = GetEarlyBeanReference log of the smart processors)
        `SB L tok* P tok* R tok*`         → a start with two watched components (ordprobe, ordtwin) and processors that may SUPPLY an
               instance from PostProcessBeforeInstantiation (markers b: for ordprobe, d: for ordtwin, %: fails there; r: answers
               PostProcessAfterInitialization with a wrapper):
               `L:… B:… C1 N:… I:… P:… A:… F:… C2 N:… I:… P:… A:… F:… R:… E:ok|err`   (N = PostProcessBeforeInstantiation log,
               F = what the component finally is: `raw` | `sup.<supplier>`, then `+<wrapper>`…; `-` when the start failed)
        `Q op (/ op)*`,  op = `S tok*` (SetLoaders) | `A tok*` (AddLoaders) | `I` (Initialize)
                                          → one `L:… B:… E:ok|err` per Initialize, joined by ` | `  (`-` when there is none);
               loader ids run over the whole line
  Tie order inside a (class, key) group is never printed, so Go's unstable sort.Slice and `isort` agree.
-/
import Ioc.Order
namespace Driver.Order
open Ioc Ioc.Order

structure Tok where
  part : Part
  id : Nat
  inst : Bool := false
  smart : Bool := false
  marks : List Char := []
  /-- the instance in `componentPostProcessors` is a decorator around the registered processor (marker `w` on an earlier one) -/
  decorated : Bool := false

def parseTok (s : String) (id : Nat) : Option Tok :=
  let cs := s.toList
  let (inst, smart, cs) := match cs with
    | 'i' :: r => (true, false, r)
    | 's' :: r => (true, true, r)
    | _ => (false, false, cs)
  match cs with
  | [] => none
  | c :: rest =>
    let ks := rest.takeWhile (fun ch => ch.isDigit || ch == '-')
    let ms := rest.dropWhile (fun ch => ch.isDigit || ch == '-')
    if c == 'n' || c == 'q' then
      if ks.isEmpty then some { part := Part.ofIfaces none (c == 'q'), id := id, inst := inst, smart := smart, marks := ms } else none
    else if c == 'p' || c == 'o' then
      match (String.ofList ks).toInt? with
      | some k => some { part := Part.ofIfaces (some k) (c == 'p'), id := id, inst := inst, smart := smart, marks := ms }
      | none => none
    else none

def parseToks : List String → Nat → Option (List Tok)
  | [], _ => some []
  | s :: rest, i =>
    match parseTok s i, parseToks rest (i + 1) with
    | some t, some ts => some (t :: ts)
    | _, _ => none

def showTok (withId : Bool) (t : Tok) : String :=
  match t.part with
  | .prio k => "p" ++ toString k
  | .ord k => "o" ++ toString k
  | .plain => if withId then "n" ++ toString t.id else "n"

def showList (sep : String) (withId : Bool) (l : List Tok) : String :=
  if l.isEmpty then "-" else joinWith sep (l.map (showTok withId))

def theSort : (Tok → Tok → Bool) → List Tok → List Tok := fun lt l => isort lt l

def loadRes (t : Tok) : Step :=
  if t.marks.contains '!' then .err
  else if t.marks.contains '*' then .next true
  else if t.marks.contains '+' then .next false
  else .skip

def beforeCb (t : Tok) (_ : Unit) : Res Unit :=
  if t.marks.contains '!' then .err else if t.marks.contains '?' then .nil else .val ()

def afterCb (t : Tok) (_ : Unit) : Res Unit :=
  if t.marks.contains '^' then .err else if t.marks.contains '~' then .nil else .val ()

/-- marker `z`: the processor implements definition.LazyInit -/
def Tok.lazy (t : Tok) : Bool := t.marks.contains 'z'

/-- the `resolve` argument of `registerLoop` (delegate:50-62) for the harness' processors: a LazyInit processor is appended
    as itself; an eager one is replaced by `factory.GetComponentByName(name)`, which for these processors (no injection
    points, no substituting processor ahead of them) succeeds and is the registered instance again.  Either way the
    processor lands at its SORTED position: `registerLoop` appends inside the one loop over the sorted slice. -/
def resolveTok (t : Tok) : Option Tok :=
  if t.lazy then some t            -- delegate:51  `_, lazy := processor.(definition.LazyInit)`; lazy: used as registered
  else some t                      -- delegate:52-58  instance of that name from the factory

/-- marker `w`: the processor's PostProcessAfterInitialization decorates post-processor components -/
def Tok.decorates (t : Tok) : Bool := t.marks.contains 'w'

/-- what SortOrderedComponents WOULD see of the instance that sits in `componentPostProcessors`: a decorator implements
    neither `Ordered` nor `Priority`.  Nothing in the unchanged delegate asks (the chain is never sorted again). -/
def Tok.seen (t : Tok) : Part := if t.decorated then .plain else t.part

/-- `resolve` in the presence of decorating processors.  `sorted` = the sorted raw slice the registration loop walks
    (delegate:49-50).  When the loop reaches an eager `t`, `componentPostProcessors` holds the resolutions of everything
    before `t` in `sorted`; `GetComponentByName` creates `t` (factory.go:164-215) and runs that chain's
    PostProcessAfterInitialization over it (delegate:154-171), so `t` comes back decorated iff some processor ahead of it
    decorates — a decorated decorator still decorates (the decorator forwards the callback).  LazyInit processors are never
    created, hence never decorated.  The result is appended where `t` stood: same position, other instance. -/
def resolveIn (sorted : List Tok) (t : Tok) : Option Tok :=
  if t.lazy then some t
  else some { t with decorated := (sorted.takeWhile (fun u => u.id != t.id)).any Tok.decorates }

/-- what the singleton registry holds of one section (processors / runners) of a start line after all SetComponents
    options ran: the application's own list — marker `t`: listed twice — and then a second option with the instances
    marked `u`; every registration goes through `registerSingleton` (names = ids: `ordP<id>` / `ordR<id>`).
    `C12_registered_routes`: this is the section itself. -/
def registered (l : List Tok) : List Tok :=
  registerAll Tok.id (listed (fun t => t.marks.contains 't') l ++ l.filter (fun t => t.marks.contains 'u'))

/-- split `L … P … R …` into its three sections -/
def sections (ws : List String) : Option (List String × List String × List String) :=
  match ws with
  | "L" :: rest =>
    let ls := rest.takeWhile (· != "P")
    match rest.dropWhile (· != "P") with
    | "P" :: rest2 =>
      let ps := rest2.takeWhile (· != "R")
      match rest2.dropWhile (· != "R") with
      | "R" :: rs => some (ls, ps, rs)
      | _ => none
    | _ => none
  | _ => none

/-- `Q` lines: split at `/`, parse each step; loader ids run over the whole line -/
def parseOps : List (List String) → Nat → Option (List (ConfOp Tok))
  | [], _ => some []
  | seg :: rest, i =>
    match seg with
    | ["I"] => (parseOps rest i).map (ConfOp.init :: ·)
    | "S" :: ws =>
      match parseToks ws i, parseOps rest (i + ws.length) with
      | some ts, some os => if ts.any (·.inst) then none else some (ConfOp.set ts :: os)
      | _, _ => none
    | "A" :: ws =>
      match parseToks ws i, parseOps rest (i + ws.length) with
      | some ts, some os => if ts.any (·.inst) then none else some (ConfOp.add ts :: os)
      | _, _ => none
    | _ => none

def splitSlash (ws : List String) : List (List String) :=
  ws.foldr (fun w acc => if w == "/" then [] :: acc else
    match acc with
    | [] => [[w]]
    | a :: as => (w :: a) :: as) [[]]

def showStart (cyc : Bool) (g : StartLog Tok) : String :=
  "L:" ++ showList "," true (firsts g.loads) ++ " B:" ++ showList "," true (seconds g.loads) ++
  " I:" ++ showList "," false (firsts g.inst) ++ " P:" ++ showList "," false g.before ++
  " A:" ++ showList "," false g.after ++ " R:" ++ showList "," false g.runs ++
  (if cyc then " G:" ++ showList "," false g.early else "") ++
  " E:" ++ (if g.err then "err" else "ok")

/-- what a watched component of an `SB` start is: the registered instance (`sup = none`) or the stand-in a processor
    supplied (`some` its printed token), and the wrappers put around it (innermost first) -/
structure Comp where
  sup : Option String
  wraps : List String

/-- PostProcessBeforeInstantiation of the harness' processors for the watched component whose supply marker is `m`
    (`b` ordprobe, `d` ordtwin): `%` fails, the supply marker hands out a stand-in -/
def biCb (m : Char) (t : Tok) : Res Comp :=
  if t.marks.contains '%' then .err
  else if t.marks.contains m then .val { sup := some (showTok false t), wraps := [] }
  else .nil

def beforeCbB (t : Tok) (c : Comp) : Res Comp :=
  if t.marks.contains '!' then .err else if t.marks.contains '?' then .nil else .val c

/-- marker `r`: the processor answers with a wrapper around what it was given -/
def afterCbB (t : Tok) (c : Comp) : Res Comp :=
  if t.marks.contains '^' then .err else if t.marks.contains '~' then .nil
  else if t.marks.contains 'r' then .val { c with wraps := c.wraps ++ [showTok false t] }
  else .val c

def showComp (c : Comp) : String :=
  (match c.sup with | none => "raw" | some s => "sup." ++ s) ++ String.join (c.wraps.map ("+" ++ ·))

/-- one `C<k> N:… I:… P:… A:… F:…` group per watched component; a component the start did not reach shows empty logs -/
def showCompLog (ok : Bool) (k : Nat) (r : Option (CompLog Tok × Option Comp)) : String :=
  let g : CompLog Tok := match r with | some x => x.1 | none => {}
  let f := match r with
    | some (_, some c) => if ok then showComp c else "-"
    | _ => "-"
  " C" ++ toString k ++ " N:" ++ showList "," false g.binst ++ " I:" ++ showList "," false (firsts g.inst) ++
  " P:" ++ showList "," false g.before ++ " A:" ++ showList "," false g.after ++ " F:" ++ f

def showStartB (g : StartLogB Tok Comp) : String :=
  "L:" ++ showList "," true (firsts g.loads) ++ " B:" ++ showList "," true (seconds g.loads) ++
  showCompLog (!g.err) 1 g.comps[0]? ++ showCompLog (!g.err) 2 g.comps[1]? ++
  " R:" ++ showList "," false g.runs ++ " E:" ++ (if g.err then "err" else "ok")

def handle (line : String) : String :=
  match (line.splitOn " ").filter (· != "") with
  | "Q" :: ws =>
    match parseOps (splitSlash ws) 0 with
    | some ops =>
      let rs := confRun theSort Tok.part loadRes ops []
      if rs.isEmpty then "-" else
      joinWith " | " (rs.map fun r =>
        "L:" ++ showList "," true (firsts r.1) ++ " B:" ++ showList "," true (seconds r.1) ++
        " E:" ++ (if r.2 then "err" else "ok"))
    | none => "bad-line"
  | "SC" :: ws =>
    match sections ws with
    | some (ls, ps, rs) =>
      match parseToks ls 0, parseToks ps 0, parseToks rs 0 with
      | some l, some p, some r =>
        showStart true (startC theSort Tok.part loadRes (resolveIn (sortOrdered theSort Tok.part (registered p))) Tok.inst (fun _ => .skip)
                   beforeCb afterCb (fun t => t.marks.contains '!') true Tok.smart (fun _ _ => some ()) l (registered p) (registered r))
      | _, _, _ => "bad-line"
    | none => "bad-line"
  | "SB" :: ws =>
    match sections ws with
    | some (ls, ps, rs) =>
      match parseToks ls 0, parseToks ps 0, parseToks rs 0 with
      | some l, some p, some r =>
        showStartB (startB theSort Tok.part loadRes (resolveIn (sortOrdered theSort Tok.part (registered p))) true Tok.inst biCb (fun _ => .skip)
                   beforeCbB afterCbB (fun t => t.marks.contains '!') (fun _ => { sup := none, wraps := [] }) ['b', 'd'] l (registered p) (registered r))
      | _, _, _ => "bad-line"
    | none => "bad-line"
  | "D" :: toks =>
    match parseToks toks 0 with
    | some ts => showList " " true (sortOrdered theSort Tok.part ts)
    | none => "bad-line"
  | "S" :: ws =>
    match sections ws with
    | some (ls, ps, rs) =>
      match parseToks ls 0, parseToks ps 0, parseToks rs 0 with
      | some l, some p, some r =>
        showStart false (start theSort Tok.part loadRes (resolveIn (sortOrdered theSort Tok.part (registered p))) Tok.inst (fun _ => .skip)
                   beforeCb afterCb (fun t => t.marks.contains '!') l (registered p) (registered r))
      | _, _, _ => "bad-line"
    | none => "bad-line"
  | _ => "bad-line"

end Driver.Order
