/- Driver.Order — line protocol of the `order` sub-harness (stub until the unit is built). -/
import Ioc.Basic
namespace Driver.Order
def handle (_line : String) : String := "unimplemented"
end Driver.Order
