/-
  Driver.Tag — line protocol for the `tag` sub-harness (C19).
    in :  `P <hex>`   NewProperty(tag text)            → `<tagval> <args> <required>`
          `S <hex>`   prop shorthand rewrite + parse     → `<rewritten> <tagval> <args> <required>`
          `U <r><m> <hex>`  user-defined tag scanner (Required field r) over a field tagged with the text
                                                         → `<tagval> <args> <required>` of the scanned property
    args are printed sorted by name:  name=item,item;name=…   (all hex, `-` = empty, `.` = no args)
-/
import Ioc.Tag
namespace Driver.Tag
open Ioc Ioc.Tag

def showArgs (a : Args) : String :=
  if a.isEmpty then "." else
  let sorted := isort (fun x y => bytesLt x.1 y.1) a
  joinWith ";" (sorted.map fun kv => toHex kv.1 ++ "=" ++ joinWith "," (kv.2.map toHex))

def showParsed (r : Option (Bytes × Args)) : String :=
  match r with
  | none => "panic"
  | some (v, a) => toHex v ++ " " ++ showArgs a ++ " " ++ (if isRequired a then "1" else "0")

def handle (line : String) : String :=
  match line.splitOn " " with
  | ["P", h] =>
    match fromHex h with
    | some s => showParsed (parse? s)
    | none => "bad-line"
  | ["S", h] =>
    match fromHex h with
    | some s =>
      match propShorthand? s with
      | none => "panic"
      | some t => toHex t ++ " " ++ showParsed (parse? t)
    | none => "bad-line"
  | ["U", cfg, h] =>
    -- cfg = <r><m>: r = the scanner's Required field (1 = true; 0 = left unset, 2 = set to false: the same zero value),
    -- m = how the tag reaches NewProperty (0 tag lookup, 1 ExtractHandler, 2 ExtractHandler with the scanner's tag name);
    -- all three ways build the same property
    match fromHex h with
    | some s =>
      match cfg.toList with
      | [r, _] => showParsed (scan? (r == '1') s)
      | _ => "bad-line"
    | none => "bad-line"
  | _ => "bad-line"

end Driver.Tag
