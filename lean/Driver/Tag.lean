/-
  Driver.Tag — line protocol for the `tag` sub-harness (C19).
    in :  `P <hex>`   NewProperty(tag text)            → `<tagval> <args> <required>`
          `S <hex>`   prop shorthand rewrite + parse     → `<rewritten> <tagval> <args> <required>`
          `U <r><m> <hex>`  user-defined tag scanner (Required field r) over a field tagged with the text
                                                         → `<tagval> <args> <required>` of the scanned property
          `H <m><r><w> <hexT> <ops> <hexT2>`  history: property A is created from T and its arguments are edited, property B
                 is created from T2.  m = d direct NewProperty | s one scan, A and B two fields of the same component |
                 t two scans (two registries) | a two real applications (`wire` tag, no candidate; A edited by a user
                 post-processor of the first one); <r><w> = the scanner configuration as in U;
                 ops = `-` or `,`-joined  <k><hexname>:<hexitem>/<hexitem>…  with k = S Args().Set | A Args().Add |
                 s SetArg | a AddArg (nothing after the colon = no items)
                                                         → `<A after the edits> | <B>` (+ ` | <start1> <start2>` for m = a)
          `F <hex>`   NewProperty(tag text), then lookups through the public API: for every stored name (sorted) the name
                 itself and the name with its first letter in lower case, then `mapper timeLayout required Qualifier`:
                 Args().Find(q) and Has(q), Has(q, ""), Has(q, "false", "true")
                                                         → `<tagval> <args> <required> | <q>=<item>,<item>…:<bits>  <q>!:<bits> …`
          `B m <hex>`  a struct field tagged prefix:"<text>" scanned by the real prefix scanner, then
                 Property.Unmarshall(map): which TagName reached mapstructure
                                                         → `ok Y|J|T|M|F` (yaml, json, toml, mapstructure/empty, anything else) | `panic`
          `B t <hex> <hexvalue>`  a time.Time field tagged prefix:"<text>", Property.Unmarshall(value text)
                                                         → `ok <year> <month> <day> <hour> <min> <sec> <nsec>` | `err` | `panic` | `opaque`
    args are printed sorted by name:  name=item,item;name=…   (all hex, `-` = empty, `.` = no args)
-/
import Ioc.Tag
namespace Driver.Tag
open Ioc Ioc.Tag

def showArgs (a : Args) : String :=
  if a.isEmpty then "." else
  let sorted := isort (fun x y => bytesLt x.1 y.1) a
  joinWith ";" (sorted.map fun kv => toHex kv.1 ++ "=" ++ joinWith "," (kv.2.map toHex))

def showParsed (r : Option (Bytes × Args)) : String :=
  match r with
  | none => "panic"
  | some (v, a) => toHex v ++ " " ++ showArgs a ++ " " ++ (if isRequired a then "1" else "0")

def parseItems (s : String) : Option (List Bytes) :=
  if s = "" then some [] else (s.splitOn "/").mapM fromHex

def parseOp (s : String) : Option ArgOp :=
  match s.toList with
  | k :: rest =>
    match (String.ofList rest).splitOn ":" with
    | [n, its] =>
      match fromHex n, parseItems its with
      | some n, some its =>
        if k = 'S' ∨ k = 's' then some ⟨false, n, its⟩
        else if k = 'A' ∨ k = 'a' then some ⟨true, n, its⟩
        else none
      | _, _ => none
    | _ => none
  | [] => none

def parseOps (s : String) : Option (List ArgOp) :=
  if s = "-" then some [] else (s.splitOn ",").mapM parseOp

/-- an application whose only injection point has no candidate starts iff the point is optional
    (dependency_further_matching_processors.go:36-43) -/
def showStart (a : Args) : String := if isRequired a then "err" else "ok"

/-! lookups (scenario F) and Property.Unmarshall (scenario B) -/

def lowerFirst : Bytes → Bytes
  | [] => []
  | b :: rest => (if 65 ≤ b ∧ b ≤ 90 then b + 32 else b) :: rest

def bit (b : Bool) : String := if b then "1" else "0"

def showQuery (a : Args) (q : Bytes) : String :=
  toHex q ++ (match find a q with
    | none => "!"
    | some items => "=" ++ joinWith "," (items.map toHex)) ++ ":" ++
  bit (has a q []) ++ bit (has a q [[]]) ++ bit (has a q [ofString "false", ofString "true"])

def queriesOf (a : Args) : List Bytes :=
  let sorted := isort (fun x y => bytesLt x.1 y.1) a
  (sorted.flatMap fun kv => if lowerFirst kv.1 = kv.1 then [kv.1] else [kv.1, lowerFirst kv.1]) ++
    [ofString "mapper", ofString "timeLayout", ofString "required", ofString "Qualifier"]

def showFind (r : Option (Bytes × Args)) : String :=
  match r with
  | none => "panic"
  | some (v, a) => showParsed (some (v, a)) ++ " | " ++ joinWith " " ((queriesOf a).map (showQuery a))

def tagNameLetter (n : Bytes) : String :=
  if n = ofString "yaml" then "Y" else if n = ofString "json" then "J" else if n = ofString "toml" then "T"
  else if n = [] ∨ n = ofString "mapstructure" then "M" else "F"

def showTime : TimeRes → String
  | .ok y mo d h mi s ns => "ok " ++ joinWith " " ([y, mo, d, h, mi, s, ns].map toString)
  | .err => "err"
  | .unmodelled => "opaque"

def showBind : Option BindRes → String
  | none => "panic"
  | some .err => "err"
  | some (.time t) => showTime t
  | some (.tagName n) => "ok " ++ tagNameLetter n

def handle (line : String) : String :=
  match line.splitOn " " with
  | ["P", h] =>
    match fromHex h with
    | some s => showParsed (parse? s)
    | none => "bad-line"
  | ["S", h] =>
    match fromHex h with
    | some s =>
      match propShorthand? s with
      | none => "panic"
      | some t => toHex t ++ " " ++ showParsed (parse? t)
    | none => "bad-line"
  | ["F", h] =>
    match fromHex h with
    | some s => showFind (parse? s)
    | none => "bad-line"
  | ["B", "m", h] =>
    -- the prefix scanner (Required = true) creates the property; Unmarshall reads its arguments
    match fromHex h with
    | some s =>
      match scan? true s with
      | none => "panic"
      | some (_, a) => showBind (bindTagName? a)
    | none => "bad-line"
  | ["B", "t", h, hv] =>
    match fromHex h, fromHex hv with
    | some s, some v =>
      match scan? true s with
      | none => "panic"
      | some (_, a) => showBind (bindTime? a v)
    | _, _ => "bad-line"
  | ["U", cfg, h] =>
    -- cfg = <r><m>: r = the scanner's Required field (1 = true; 0 = left unset, 2 = set to false: the same zero value),
    -- m = how the tag reaches NewProperty (0 tag lookup, 1 ExtractHandler, 2 ExtractHandler with the scanner's tag name);
    -- all three ways build the same property
    match fromHex h with
    | some s =>
      match cfg.toList with
      | [r, _] => showParsed (scan? (r == '1') s)
      | _ => "bad-line"
    | none => "bad-line"
  | ["H", mc, h1, ops, h2] =>
    match mc.toList, fromHex h1, parseOps ops, fromHex h2 with
    | [m, r, _], some t, some os, some t2 =>
      match hist? (m != 'd') (r == '1') t os t2 with
      | none => "panic"
      | some (a, b) =>
        let base := showParsed (some a) ++ " | " ++ showParsed (some b)
        if m == 'a' then base ++ " | " ++ showStart a.2 ++ " " ++ showStart b.2 else base
    | _, _, _, _ => "bad-line"
  | _ => "bad-line"

end Driver.Tag
