/-
  C02 — Circular references between singletons resolve: start-up terminates for every dependency graph.
  PROPERTY THEOREMS ONLY (lemmas live in IocProofs/Lemmas/M2Term.lean, M2TermSelf.lean, M2Succeeds*.lean).

  Model: Ioc.Container (M2), the component factory as a small-step machine over the three-level singleton cache.
    container/factory/factory.go:92-118    Refresh: one GetComponent per non-lazy definition (work lists `todoBoot`, `todo`)
    container/factory/factory.go:140-162   doGetComponent: GetSingleton(name, true), else create (`lookup`, `enter`)
    container/factory/factory.go:190-198   early exposure: AddSingletonFactory before populate (`l3 := true` in `enter`);
                                           guarded by `allowCircularReferences`, regenerated fact below
    container/factory/factory.go:252-283   populateComponent: one nested doGetComponent per candidate — the recursion
                                           (the explicit creation stack of the machine)
    component_definition/property.go:72-81 Inject removes the holder itself from what was obtained; nothing left is an
                                           error when required, the field stays empty otherwise
  Why it terminates: the second visit of a name that is still being created finds it in l3 (or l2) and returns the early
  reference instead of pushing a second frame, so every definition is entered at most once and every frame walks its
  finite candidate lists once. The potential `mu` makes this exact; the number of steps is at most `fuelBound sc`.
  The termination proof needs NO hypothesis on the scenario (`C02_terminates_unconditional`); `TermWF` (names distinct)
  is kept in the signature of `C02_terminates` for callers and is not used.
-/
import IocProofs.Lemmas.M2TermSelf
import IocProofs.Lemmas.M2SucceedsPerm
import Ioc.Generated.Facts
import IocProofs.Lemmas.SemCreate
import IocProofs.Lemmas.SemRefresh
import IocProofs.Lemmas.M2Lookups
import IocProofs.Lemmas.SemFacAccess
import IocProofs.Lemmas.SemMeta
import IocProofs.Lemmas.SemUnmarshall
namespace Ioc.C02
open Ioc Ioc.M2

/-- start-up terminates for EVERY dependency graph: cycles of any length, overlapping cycles, cycles through slices,
    any candidate order, any post-processors, any faults -/
theorem C02_terminates (sc : Scen) (wf : TermWF sc) : (final sc).status ≠ .running :=
  terminates sc wf

/-- the same without any well-formedness hypothesis: unknown names, duplicated definitions, anything -/
theorem C02_terminates_unconditional (sc : Scen) : (final sc).status ≠ .running :=
  terminates_any sc

/-- the bound is explicit: one step per work-list entry, and per definition two steps plus one per point and candidate -/
theorem C02_fuel_explicit (sc : Scen) :
    fuelBound sc = 1 + sc.boot.length + sc.eager.length + (sc.names.map (work sc)).sum := rfl

/-- the mechanism behind the bound: a potential that is exactly `fuelBound` at the start and strictly decreases at every
    step taken from a running state, under an invariant that holds in every reachable running state -/
theorem C02_potential (sc : Scen) :
    mu sc (init sc) = fuelBound sc ∧
    (∀ k, (run sc k (init sc)).status = .running → TInv sc (run sc k (init sc))) ∧
    (∀ st, TInv sc st → st.status = .running → mu sc (step sc st) < mu sc st) :=
  ⟨mu_init_eq sc, tinv_reachable sc, mu_dec sc⟩

/-- once stopped the machine stays in the same state: `final` is THE result, more fuel changes nothing -/
theorem C02_stable (sc : Scen) (m : Nat) : run sc (fuelBound sc + m) (init sc) = final sc :=
  run_stable sc (fuelBound sc) m (terminates_any sc)

/-- regenerated from factory.go: the early-exposure flag is the constant true and nothing assigns it -/
theorem C02_early_exposure_on : Ioc.Facts.allowCircularReferences = true := by decide

/-- a component is never wired to itself, at any time of any start -/
theorem C02_never_self (sc : Scen) (k : Nat) : ∀ h i o, o ∈ (run sc k (init sc)).fields h i → o.name ≠ h :=
  noSelf_reachable sc k

/-- a required point that could only be satisfied by its own holder is reported as an error: when the top frame `f` has
    finished collecting point `f.p`, the point has candidates, and everything obtained is `f` itself, the next step fails
    the start and blames `f` -/
theorem C02_self_only_required (sc : Scen) (st : St) (f : Frame) (rest : List Frame)
    (hr : st.status = .running) (hs : st.stack = f :: rest)
    (hp : f.p < (pts sc f.name).length)
    (hd : f.d = ((pts sc f.name)[f.p]).cands.length)
    (hne : ((pts sc f.name)[f.p]).cands ≠ [])
    (hacc : ∀ o ∈ f.acc, o.name = f.name)
    (hreq : ((pts sc f.name)[f.p]).required = true) :
    (step sc st).status = .failed f.name st.stage := by
  rw [step_self_only sc st f rest hr hs hp hd hne hacc, if_pos hreq]; rfl

/-- … and an optional one is left empty: no field is written and the frame moves on to its next point -/
theorem C02_self_only_optional (sc : Scen) (st : St) (f : Frame) (rest : List Frame)
    (hr : st.status = .running) (hs : st.stack = f :: rest)
    (hp : f.p < (pts sc f.name).length)
    (hd : f.d = ((pts sc f.name)[f.p]).cands.length)
    (hne : ((pts sc f.name)[f.p]).cands ≠ [])
    (hacc : ∀ o ∈ f.acc, o.name = f.name)
    (hopt : ((pts sc f.name)[f.p]).required = false) :
    (step sc st).fields = st.fields ∧ (step sc st).status = .running ∧
    (step sc st).stack = { f with p := f.p + 1, d := 0, acc := [] } :: rest := by
  rw [step_self_only sc st f rest hr hs hp hd hne hacc, hopt]
  exact ⟨rfl, hr, rfl⟩

/-! ### non-vacuity: concrete graphs with cycles -/

/-- a scenario without faults, every processor active, no substitution -/
def plain (names : List Nat) (points : Nat → Option (List Point)) : Scen :=
  { names := names, boot := [], eager := names, points := points,
    wired := fun _ => true, logged := fun _ => true, cfgOk := fun _ => true,
    fBefore := fun _ => false, fAps := fun _ => false, fInit := fun _ => false, fAfter := fun _ => false,
    fEarly := fun _ => false, earlyO := raw, afterO := raw }

/-- 3-cycle 0→1→2→0 with a slice fan-in on 0 (which also lists members of the cycle) and a diamond tail into 4 -/
def cyc : Scen := plain [0, 1, 2, 3, 4] fun n => match n with
  | 0 => some [⟨[1], false, true, []⟩, ⟨[1, 2, 3], true, true, []⟩]
  | 1 => some [⟨[2], false, true, []⟩, ⟨[4], false, true, []⟩]
  | 2 => some [⟨[0], false, true, []⟩, ⟨[4], false, true, []⟩]
  | 3 => some [⟨[4], false, false, []⟩]
  | _ => some []

/-- a component whose only candidate for a point is itself -/
def selfLoop (required : Bool) : Scen := plain [0] fun _ => some [⟨[0], false, required, []⟩]

/-- 5-cycle 0→1→2→3→4→0 -/
def cyc5 : Scen := plain [0, 1, 2, 3, 4] fun n => some [⟨[(n + 1) % 5], false, true, []⟩]

/-- two cycles sharing node 1 (0→1→0 and 1→2→3→1), the shared node reached through a slice -/
def overlap : Scen := plain [0, 1, 2, 3] fun n => match n with
  | 0 => some [⟨[1], false, true, []⟩]
  | 1 => some [⟨[0, 2], true, true, []⟩]
  | 2 => some [⟨[3], false, true, []⟩]
  | 3 => some [⟨[1], false, true, []⟩]
  | _ => some []

example : TermWF cyc := ⟨by decide⟩
example : TermWF (selfLoop true) := ⟨by decide⟩
example : TermWF (selfLoop false) := ⟨by decide⟩
example : TermWF cyc5 := ⟨by decide⟩
example : TermWF overlap := ⟨by decide⟩

example : fuelBound cyc = 32 := by decide
example : (final cyc).status = .done := by decide
example : (final cyc5).status = .done := by decide
example : (final overlap).status = .done := by decide
example : (final (selfLoop true)).status = .failed 0 .refresh := by decide
example : (final (selfLoop false)).status = .done := by decide

/-- the cycle really is wired with the early references, and the slice gets all three -/
example : (final cyc).fields 2 0 = [raw 0] ∧ (final cyc).fields 0 1 = [raw 1, raw 2, raw 3] := by decide
/-- the bound is not far off: the 5-cycle needs 21 of its 26 steps -/
example : fuelBound cyc5 = 26 ∧ (run cyc5 20 (init cyc5)).status = .running ∧ (run cyc5 21 (init cyc5)).status = .done := by
  decide
/-- the optional self-only point is left empty -/
example : (final (selfLoop false)).fields 0 0 = [] := by decide

/-- the hypotheses of `C02_self_only_required` are met by a reachable state: two steps into `selfLoop true` the frame of
    0 has obtained its own early reference and nothing else -/
example :
    let sc := selfLoop true
    let st := run sc 2 (init sc)
    ∃ f rest, st.status = .running ∧ st.stack = f :: rest ∧ f.name = 0 ∧ f.p = 0 ∧ f.d = 1 ∧
      f.acc = [raw 0] ∧ (step sc st).status = .failed 0 .refresh :=
  ⟨⟨0, 0, 1, [raw 0]⟩, [], by decide, rfl, rfl, rfl, rfl, rfl, by decide⟩

/-- … and of `C02_self_only_optional`: same state of `selfLoop false`; the step leaves the field empty and moves on -/
example :
    let sc := selfLoop false
    let st := run sc 2 (init sc)
    ∃ f rest, st.status = .running ∧ st.stack = f :: rest ∧ f.name = 0 ∧ f.p = 0 ∧ f.d = 1 ∧
      f.acc = [raw 0] ∧ (step sc st).status = .running ∧ (step sc st).fields 0 0 = [] :=
  ⟨⟨0, 0, 1, [raw 0]⟩, [], by decide, rfl, rfl, rfl, rfl, rfl, by decide, by decide⟩

/-! ### the success characterisation

  Vocabulary (IocProofs/Lemmas/M2SucceedsDefs.lean), all on the scenario alone — the machine is not mentioned:
  `Sx.NoSubstitution sc`  no post-processor substitutes a component: `earlyO n = raw n ∧ afterO n = raw n` for every n.
  `Sx.Reach sc n`         least set containing `boot ++ eager` and closed under "candidate of a point of `pts sc n`".
  `Sx.StaticFault sc n`   n is not a definition; or n is wired and its configuration fails / a required point has no
                          candidate (`points n = none`); or a callback of n fails (`Lc.CbFault`); or n has a required point
                          with candidates that are all n itself (`Sx.SelfOnly`) or with a candidate other than n that is
                          not assignable (`Sx.Unassignable`).
  `Sx.NoFault sc`         `static`: no reached name has a static fault; `early`: no reached name has a failing
                          early-reference factory (that fault is only met when the early reference is asked for, which
                          depends on the creation order — see C10_counterexample_early).
  `Sx.NoFaultOn sc S`     decidable certificate for `NoFault`: the list S contains boot ++ eager, is closed under candidates
                          and is fault free (`Sx.noFault_of_on`).
  `Sx.expected n pt`      what the field of point `pt` of holder `n` holds: `[]` when no candidate other than n exists or
                          one of them is not assignable, else the registered instances of all of them (slice) / of the
                          first (single).
-/
section succeeds
open Ioc.M2.Sx

/-- For every dependency graph — cycles of any length, overlapping cycles, cycles through slices, any candidate order —
    when no post-processor substitutes components and no reachable component has a fault, start-up SUCCEEDS. -/
theorem C02_succeeds (sc : Scen) (ns : NoSubstitution sc) (nf : NoFault sc) : (final sc).status = .done :=
  succeeds sc ns nf

/-- … and the faults listed are exactly what can make it fail: without substitution and without a failing
    early-reference factory on a reachable name, the start succeeds IFF no reachable name has a static fault. -/
theorem C02_succeeds_iff (sc : Scen) (ns : NoSubstitution sc) (he : ∀ n, Reach sc n → sc.fEarly n = false) :
    (final sc).status = .done ↔ ∀ n, Reach sc n → ¬ StaticFault sc n :=
  done_iff sc ns he

/-- After a successful start without substitution every reachable name is published as its registered instance and
    every one of its injection points holds exactly the registered instances of its usable candidates. -/
theorem C02_wired (sc : Scen) (ns : NoSubstitution sc) (hd : (final sc).status = .done) (n : Nat) (hn : Reach sc n) :
    (final sc).l1 n = some (raw n) ∧
    ∀ i pt, (pts sc n)[i]? = some pt → (final sc).fields n i = expected n pt := by
  have hpub := done_reach_published sc ns.wf _ hd n hn
  have hnf : ¬ Lc.Failed (final sc) := fun ⟨x, s, h⟩ => by rw [hd] at h; cases h
  refine ⟨?_, fun i pt hpt => fields_expected sc ns hnf n i pt hpt hpub⟩
  cases h : (final sc).l1 n with
  | none => exact absurd h hpub
  | some o => rw [l1_raw sc ns _ n o h]

/-- Every required injection point (with candidates; a required point without any is `points n = none`, a static fault)
    of every reachable component is populated by its target at the end. -/
theorem C02_required_populated (sc : Scen) (ns : NoSubstitution sc) (nf : NoFault sc) (n : Nat) (hn : Reach sc n)
    (i : Nat) (pt : Point) (hpt : (pts sc n)[i]? = some pt) (hreq : pt.required = true) (hne : pt.cands ≠ []) :
    (final sc).fields n i ≠ [] ∧ (final sc).fields n i = expected n pt := by
  have hw := (C02_wired sc ns (succeeds sc ns nf) n hn).2 i pt hpt
  refine ⟨?_, hw⟩
  rw [hw]
  exact expected_ne_nil hreq hne (fun hb => nf.static n hn (Or.inr (Or.inr (Or.inr ⟨pt, List.mem_of_getElem? hpt, hb⟩))))

/-! non-vacuity: the 3-cycle with slice fan-in and diamond tail, the 5-cycle, the overlapping cycles -/
theorem plain_noSubst (names : List Nat) (points : Nat → Option (List Point)) : NoSubstitution (plain names points) :=
  fun _ => ⟨rfl, rfl⟩
example : NoFaultOn cyc [0, 1, 2, 3, 4] := by decide
example : NoFault cyc := noFault_of_on (S := [0, 1, 2, 3, 4]) (by decide)
example : NoFault cyc5 := noFault_of_on (S := [0, 1, 2, 3, 4]) (by decide)
example : NoFault overlap := noFault_of_on (S := [0, 1, 2, 3]) (by decide)
example : (final cyc).status = .done := C02_succeeds cyc (plain_noSubst _ _) (noFault_of_on (S := [0, 1, 2, 3, 4]) (by decide))
-- the hypotheses of C02_required_populated: 2 is reachable, its point 0 is required with the candidate 0 (on the cycle)
example : Reach cyc 2 := ((Reach.root (n := 0) (by decide)).edge 1 (by decide)).edge 2 (by decide)
example : (pts cyc 2)[0]?.map (fun p => (p.cands, p.required)) = some ([0], true) ∧
    expected 2 ⟨[0], false, true, []⟩ = [raw 0] ∧ expected 0 ⟨[1, 2, 3], true, true, []⟩ = [raw 1, raw 2, raw 3] := by decide
-- the self-only required point is a static fault, and (C02_succeeds_iff) the start fails
example : StaticFault (selfLoop true) 0 ∧ Reach (selfLoop true) 0 := ⟨by decide, Reach.root (by decide)⟩
example : (final (selfLoop true)).status ≠ .done :=
  fun h => (C02_succeeds_iff _ (plain_noSubst _ _) (fun _ _ => rfl)).mp h 0 (Reach.root (by decide)) (by decide)

end succeeds

/-! ### the tie to the code: early exposure precedes population (regenerated doCreateComponent)

Cycles resolve because a component in creation registers its early-reference factory BEFORE its dependencies are looked
up.  About the regenerated program of `doCreateComponent` (see C03_code_doCreateComponent): whenever the component is a
singleton in creation and circular references are allowed, the first effectful call is AddSingletonFactory and
populateComponent comes right after it — for every behaviour of every collaborator. -/
theorem C02_code_exposure_before_populate (d : Sem.DCC) (hc : Sem.dccConsistent d)
    (hx : (d.singleton && d.allow && d.inCrOf d.n) = true) :
    ∃ out rest, Go.run (Sem.dccPrims d) Progs.fac_doCreateComponent [.int d.n, .ref d.n 0] [] =
      some (out, "addFactory" :: "populate" :: rest) := by
  have htr : ∃ rest, (Sem.createDecision d).2 = "addFactory" :: "populate" :: rest := by
    unfold Sem.createDecision
    simp only [hx]
    repeat' split
    all_goals simp_all
  obtain ⟨rest, hr⟩ := htr
  exact ⟨_, rest, (Sem.doCreateComponent_sem d hc).trans (by rw [hr])⟩

/-! ### the tie to the code: Meta.IsSelf (regenerated, a three-clause loop)

`Ioc.Progs.meta_IsSelf` is the syntax tree of Meta.IsSelf (meta.go:76-83) — the test behind "never wired to itself"
(`Property.Inject` drops the candidates for which the holder's `IsSelf` answers true, `C06_code_Inject`).  For a proxy chain
of EVERY length (metas numbered from the chain's end), every assignment of origin addresses and every holder address, the
regenerated loop answers true exactly when SOME meta of the chain — the candidate itself or anything it proxies, at any
depth — originates from the holder's address (`Sem.isSelfModel`); `nil` is never self.  The three-clause loop is interpreted
with fuel; the statement holds for every fuel above the chain length + 1 (out of fuel is `none`, never a made-up answer). -/
theorem C02_code_IsSelf (selfPtr : Nat) (addr : Nat → Nat) (t : Option Nat) (fuel : Nat)
    (hf : (match t with | none => 1 | some k => k + 2) ≤ fuel) :
    Go.run (Sem.isSelfPrims selfPtr addr fuel) Progs.meta_IsSelf [Sem.encMetaO t] () =
      some (.bool (Sem.isSelfModel selfPtr addr t), ()) :=
  Sem.isSelf_sem selfPtr addr t fuel hf

/-- non-vacuity: a chain of three metas whose innermost (meta 0) is the holder's own instance -/
example : Sem.isSelfModel 77 (fun k => if k == 0 then 77 else 10 + k) (some 2) = true ∧
    Sem.isSelfModel 77 (fun k => 10 + k) (some 2) = false := by decide

/-- … and so does every lookup after the start (`M2.lookupAfter`: a lazily created component, a retry after a failure): from
    any stopped state with an empty creation stack it stops within `fuelBound sc + 1` steps, for every graph -/
theorem C02_lookup_terminates (sc : Scen) (st : St) (n : Nat) (hs : st.stack = []) (hnr : st.status ≠ .running) :
    (lookupAfter sc st n).status ≠ .running :=
  lookupAfter_terminates sc st n hs hnr

/-- every declared injection point stays a point of its holder: the IDs (regenerated: Field.ID / Holder.ID / Property.ID /
    info) of two same-named fields in DIFFERENT embedded structs differ — a field's ID contains its holder's ID, which for an
    embedded holder contains the embedding path — and SetProperties (regenerated, `C07_code_SetProperties`) appends EVERY
    property it is handed to the group of its type, whatever its ID -/
theorem C02_code_points_kept (holderID typeName metaID fieldName fieldID info pt tag tagStr : String) (isEmbed : Bool) :
    Go.run (Sem.idPrims holderID typeName metaID fieldName fieldID info pt tag tagStr isEmbed) Progs.field_ID [] () =
      some (.str (holderID ++ ".Field(" ++ fieldName ++ ")"), ()) ∧
    Go.run (Sem.idPrims holderID typeName metaID fieldName fieldID info pt tag tagStr isEmbed) Progs.holder_ID [] () =
      some (.str (if isEmbed then holderID ++ ".Embed(" ++ typeName ++ ")" else metaID), ()) ∧
    Go.run (Sem.idPrims holderID typeName metaID fieldName fieldID info pt tag tagStr isEmbed) Progs.prop_ID [] () =
      some (.str (fieldID ++ info), ()) ∧
    Go.run (Sem.idPrims holderID typeName metaID fieldName fieldID info pt tag tagStr isEmbed) Progs.prop_info [] () =
      some (.str (".Type(" ++ pt ++ ").Tag(" ++ tag ++ ":'" ++ tagStr ++ "')"), ()) :=
  Sem.ids_sem holderID typeName metaID fieldName fieldID info pt tag tagStr isEmbed

/-- SetProperties appends EVERY property it is handed, in order, to the group of its type — none is dropped for its name, tag
    or ID (the same regenerated function as in `C07_code_SetProperties`, stated here because "every required point is
    populated" needs every declared point to BE a point) -/
theorem C02_code_SetProperties_keeps_all (idOf nameOf : Nat → String) (isComp : Nat → Bool) (ps : List Nat) (w : Sem.MW) :
    Go.run (Sem.metaPrims idOf nameOf isComp) Progs.meta_SetProperties [.list (ps.map (fun i => Go.Val.ref i 20))] w =
      some (.tuple [], { w with comp := w.comp ++ ps.filter isComp, conf := w.conf ++ ps.filter (fun i => !isComp i) }) :=
  Sem.metaSetProperties_sem idOf nameOf isComp ps w

/-- "or left empty when optional": a point is optional exactly when its `required` argument holds the value "false" among its
    values (IsRequired, regenerated, `C09_code_IsRequired`) -/
theorem C02_code_IsRequired (has : Sem.AM → String → List String → Bool) (fmtKey : String → String) (w : Sem.PW) :
    Go.run (Sem.pmPrims has fmtKey) Progs.prop_IsRequired [] w = some (.bool (!(has w.args "required" ["false"])), w) :=
  Sem.isRequired_sem has fmtKey w

end Ioc.C02
