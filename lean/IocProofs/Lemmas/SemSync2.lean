/-
  The regenerated programs of util/sync2/map.go: Load is the lookup; LoadOrStoreFn returns the stored value without running
  the constructor when the key is present, and otherwise runs it exactly once and stores its value.
-/
import Ioc.SemSync2
import IocProofs.Lemmas.GoTactics
namespace Ioc.Sem
open Ioc Ioc.Go

theorem sync2_load_sem (fv : Nat) (k : Nat) (w : MapW) :
    run (mapBase fv) Progs.sync2_Load [.int k] w =
      some (match alookup k w.m with
            | some v => .tuple [.int v, .bool true]
            | none => .tuple [.nil, .bool false], w) := by
  cases h : alookup k w.m <;> go_simp [Progs.sync2_Load, mapBase, mapFn, h]

theorem sync2_loadOrStoreFn_sem (fv : Nat) (k : Nat) (w : MapW) :
    run (mapPrims fv) Progs.sync2_LoadOrStoreFn [.int k, .ref 0 30] w =
      some (match alookup k w.m with
            | some v => (.tuple [.int v, .bool true], w)
            | none => (.tuple [.int fv, .bool false], { m := ainsert k fv w.m, fCalls := w.fCalls + 1 })) := by
  have hl : callMapLoad fv [.int k] w = _ := sync2_load_sem fv k w
  cases h : alookup k w.m with
  | some v => go_simp [Progs.sync2_LoadOrStoreFn, mapPrims, mapFn, hl, h]
  | none => go_simp [Progs.sync2_LoadOrStoreFn, mapPrims, mapFn, hl, h]

end Ioc.Sem
