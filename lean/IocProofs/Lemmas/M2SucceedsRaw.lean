/-
  Without substitution every object the machine ever holds is the registered instance of its name (`raw`).
  Bridge to the cache invariant of Lemmas/M2Inv.lean (C01/C03); kept in a file of its own because that development and
  the life-cycle development (namespace `Lc`) use the same short names.
-/
import IocProofs.Lemmas.M2Inv
import IocProofs.Lemmas.M2SucceedsDefs
namespace Ioc.M2.Sx
open Ioc.M2

theorem NoSubstitution.wf1 {sc : Scen} (ns : NoSubstitution sc) : M2.WF sc :=
  ⟨fun n => by rw [(ns n).1]; rfl, fun n => by rw [(ns n).2]; rfl⟩

theorem cur_raw {sc : Scen} (ns : NoSubstitution sc) {st : St} (hi : M2.Inv sc st) {o : Obj} (h : M2.Cur st o) :
    o = raw o.name := by
  rcases h with h | h
  · rcases hi.l1_src _ _ h with e | e
    · exact e.trans (ns o.name).1
    · exact e.trans (ns.initResult o.name)
  · exact (hi.l2_src _ _ h).trans (ns o.name).1

/-- what the frames have collected -/
theorem acc_raw (sc : Scen) (ns : NoSubstitution sc) (k : Nat) :
    ∀ f ∈ (run sc k (init sc)).stack, ∀ o ∈ f.acc, o = raw o.name := by
  intro f hf o ho
  have hi := M2.inv_run sc ns.wf1 k
  exact cur_raw ns hi (hi.acc f hf o ho).cur

/-- what the cache holds -/
theorem l1_raw (sc : Scen) (ns : NoSubstitution sc) (k : Nat) (n : Nat) (o : Obj)
    (h : (run sc k (init sc)).l1 n = some o) : o = raw n := by
  have hi := M2.inv_run sc ns.wf1 k
  have hn := hi.l1_name n o h
  have := cur_raw ns hi (o := o) (Or.inl (by rw [hn]; exact h))
  rw [hn] at this; exact this

end Ioc.M2.Sx
