/-
  The finish step of the factory machine M2 (all points of the top frame done: initialization callbacks, version check,
  publication) IS the regenerated program of doCreateComponent evaluated on the answers the machine state gives.
-/
import IocProofs.Lemmas.M2Inv
import IocProofs.Lemmas.M2Step
import IocProofs.Lemmas.SemCreate
import IocProofs.Lemmas.SemInject
namespace Ioc.M2
open Ioc Ioc.M2

theorem step_finish (sc : Scen) (st : St) (f : Frame) (rest : List Frame) (hrun : st.status = .running)
    (hst : st.stack = f :: rest) (hp : ¬ f.p < (pts sc f.name).length) :
    step sc st =
      (if !(initCallbacks sc st f.name).2 then failAt (initCallbacks sc st f.name).1 f.name else
       match (initCallbacks sc st f.name).1.l2 f.name with
       | none => publish (initCallbacks sc st f.name).1 f.name (initResult sc f.name) rest
       | some e =>
         if initResult sc f.name = raw f.name then publish (initCallbacks sc st f.name).1 f.name e rest
         else if finishedHolderHas sc (initCallbacks sc st f.name).1 e then failAt (initCallbacks sc st f.name).1 f.name
         else publish (initCallbacks sc st f.name).1 f.name (initResult sc f.name) rest) := by
  unfold step
  simp only [hrun, hst]
  rw [dif_neg hp]
  cases hcb : (initCallbacks sc st f.name).2 with
  | false => simp
  | true =>
    simp only [Bool.not_true, Bool.false_eq_true, if_false]
    cases h2 : (initCallbacks sc st f.name).1.l2 f.name <;> simp

/-- the holders one of whose fields contains `o` (what Meta.GetDependents of `o` lists) -/
def holdersOf (sc : Scen) (st : St) (o : Obj) : List Nat :=
  sc.names.filter fun h => (List.range (pts sc h).length).any fun i => (st.fields h i).contains o

theorem finished_holders (sc : Scen) (st : St) (o : Obj) :
    ((holdersOf sc st o).filter (fun x => !(onStack st x))).isEmpty = !(finishedHolderHas sc st o) := by
  unfold holdersOf finishedHolderHas
  rw [List.filter_filter]
  cases h : (sc.names.any fun h => !(onStack st h) &&
      (List.range (pts sc h).length).any fun i => (st.fields h i).contains o) with
  | true =>
    obtain ⟨x, hx, hp⟩ := List.any_eq_true.mp h
    have : x ∈ sc.names.filter (fun a => (!onStack st a) &&
        (List.range (pts sc a).length).any fun i => (st.fields a i).contains o) := by
      simp only [List.mem_filter]; exact ⟨hx, hp⟩
    cases hl : sc.names.filter (fun a => (!onStack st a) &&
        (List.range (pts sc a).length).any fun i => (st.fields a i).contains o) with
    | nil => rw [hl] at this; cases this
    | cons a t => rfl
  | false =>
    have hnil : sc.names.filter (fun a => (!onStack st a) &&
        (List.range (pts sc a).length).any fun i => (st.fields a i).contains o) = [] := by
      rw [List.filter_eq_nil_iff]
      intro x hx hp
      have : (sc.names.any fun h => !(onStack st h) &&
          (List.range (pts sc h).length).any fun i => (st.fields h i).contains o) = true :=
        List.any_eq_true.mpr ⟨x, hx, hp⟩
      rw [h] at this; cases this
    rw [hnil]; rfl


theorem finished_raw_is_early (sc : Scen) (st : St) (hi : Inv sc st) (hnf : NF st) (n : Nat) (hn : n ∈ snames st)
    (h : finishedHolderHas sc st (raw n) = true) : st.l2 n = some (raw n) := by
  unfold finishedHolderHas at h
  obtain ⟨x, _, hp⟩ := List.any_eq_true.mp h
  simp only [Bool.and_eq_true, List.any_eq_true, List.mem_range] at hp
  obtain ⟨_, i, _, hc⟩ := hp
  have hmem : raw n ∈ st.fields x i := by simpa using hc
  have hcur := (hi.fld hnf x i (raw n) hmem).cur
  rcases hcur with h1 | h2
  · have : st.l1 n = none := hi.l1_off n hn
    simp [raw] at h1
    rw [this] at h1; cases h1
  · simpa [raw] using h2


/-- what doCreateComponent's collaborators answer in machine state `st` when the top frame `n` has all its points done -/
def dccOf (sc : Scen) (st : St) (n : Nat) : Sem.DCC :=
  { n := n, singleton := true, allow := true, populateOk := true,
    initRes := if (initCallbacks sc st n).2 then some (initResult sc n).ver else none,
    proxyOk := true,
    earlyRes := some ((st.l2 n).map (·.ver)),
    depsEarly := holdersOf sc st (match st.l2 n with | some e => e | none => raw n),
    depsRaw := holdersOf sc st (raw n),
    inCrOf := onStack st }

theorem dccOf_consistent (sc : Scen) (st : St) (hi : Inv sc st) (n : Nat) : Sem.dccConsistent (dccOf sc st n) := by
  intro h
  simp only [dccOf] at h ⊢
  cases h2 : st.l2 n with
  | none => rfl
  | some e =>
    rw [h2] at h
    simp only [Option.map_some, Option.some.injEq] at h
    have hn := hi.l2_name n e h2
    have : e = raw n := by cases e; simp_all [raw]
    rw [this]

theorem isEmpty_append' {α : Type} (a b : List α) : (a ++ b).isEmpty = (a.isEmpty && b.isEmpty) := by
  cases a <;> cases b <;> rfl

theorem obj_eta (o : Obj) (n : Nat) (h : o.name = n) : (⟨n, o.ver⟩ : Obj) = o := by
  cases o; simp_all

theorem ver_zero_iff_raw (o : Obj) (n : Nat) (h : o.name = n) : o.ver = 0 ↔ o = raw n := by
  cases o; simp_all [raw]

/-- THE FINISH STEP OF THE MACHINE IS THE REGENERATED doCreateComponent: when all points of the top frame are done, `step`
    does what `Sem.createDecision` — proved equal to the regenerated program (doCreateComponent_sem) — decides on the
    answers the machine state gives to the program's questions. -/
theorem step_finish_is_code (sc : Scen) (wf : WF sc) (st : St) (hi : Inv sc st) (f : Frame) (rest : List Frame)
    (hrun : st.status = .running) (hst : st.stack = f :: rest) (hp : ¬ f.p < (pts sc f.name).length) :
    step sc st =
      match (Sem.createDecision (dccOf sc st f.name)).1 with
      | none => failAt (initCallbacks sc st f.name).1 f.name
      | some v => publish (initCallbacks sc st f.name).1 f.name ⟨f.name, v⟩ rest := by
  rw [step_finish sc st f rest hrun hst hp, Sem.createDecision_fst]
  have same := initCallbacks_same sc st f.name
  have hon : onStack st f.name = true := by simp [onStack, hst]
  have hn : f.name ∈ snames st := (onStack_iff st f.name).mp hon
  have hwn : (initResult sc f.name).name = f.name := wf.init_name f.name
  unfold Sem.createResult
  simp only [dccOf, hon, Bool.and_self, Bool.not_true, Bool.false_eq_true, if_false, if_true]
  cases hcb : (initCallbacks sc st f.name).2 with
  | false => simp
  | true =>
    simp only [if_true, Bool.not_true, Bool.false_eq_true, if_false, same.l2]
    obtain h2 | ⟨e, h2⟩ : st.l2 f.name = none ∨ ∃ e, st.l2 f.name = some e := by
      cases st.l2 f.name <;> simp
    · simp only [h2, Option.map_none, and_false, if_false, obj_eta _ _ hwn]
    · have hen : e.name = f.name := hi.l2_name _ _ h2
      simp only [h2, Option.map_some, and_false, if_false]
      by_cases hw : (initResult sc f.name).ver = 0
      · have hraw : initResult sc f.name = raw f.name := (ver_zero_iff_raw _ _ hwn).mp hw
        have hr0 : (raw f.name).ver = 0 := rfl
        simp only [hraw, hr0, if_true, obj_eta _ _ hen]
      · have hraw : ¬ initResult sc f.name = raw f.name := fun h => hw ((ver_zero_iff_raw _ _ hwn).mpr h)
        rw [Lc.finishedHolderHas_same sc _ st e same]
        simp only [hw, hraw, if_false]
        rw [List.filter_append, isEmpty_append', finished_holders, finished_holders]
        cases he : finishedHolderHas sc st e with
        | true => simp
        | false =>
          have hr : finishedHolderHas sc st (raw f.name) = false := by
            cases hr : finishedHolderHas sc st (raw f.name) with
            | false => rfl
            | true =>
              have := finished_raw_is_early sc st hi (NF_of_running hrun) f.name hn hr
              rw [h2] at this
              have : e = raw f.name := Option.some.inj this
              rw [this] at he; rw [he] at hr; cases hr
          simp [hr, obj_eta _ _ hwn]



/-! ### the Inject step -/

section inject
open Ioc.M2.Lc

theorem step_inject (sc : Scen) (st : St) (f : Frame) (rest : List Frame) (hrun : st.status = .running)
    (hst : st.stack = f :: rest) (hp : f.p < (pts sc f.name).length)
    (hd : ¬ f.d < ((pts sc f.name)[f.p]).cands.length) :
    step sc st =
      (let pt := (pts sc f.name)[f.p]
       if pt.cands.isEmpty then { st with stack := advance f :: rest }
       else if (metasOf f).isEmpty then
         (if pt.required then failAt st f.name else { st with stack := advance f :: rest })
       else if (metasOf f).any (fun o => pt.incompat.contains o.name) then
         (if pt.required then failAt st f.name else { st with stack := advance f :: rest })
       else { st with fields := upd2 st.fields f.name f.p (if pt.slice then metasOf f else (metasOf f).take 1),
                      stack := advance f :: rest }) := by
  unfold step
  simp only [hrun, hst]
  rw [dif_pos hp, dif_neg hd]
  rfl

/-- what Inject is asked in machine state: the metas are ids `ids` standing for the collected objects `f.acc` -/
def injCtxOf (pt : Point) (holder : Nat) (obj : Nat → Obj) : Sem.InjCtx :=
  { isComponent := true, required := pt.required, slice := pt.slice,
    isSelf := fun i => (obj i).name == holder,
    assignable := fun i => !(pt.incompat.contains (obj i).name) }

theorem filter_map_obj (obj : Nat → Obj) (holder : Nat) (ids : List Nat) :
    (ids.filter (fun m => !((obj m).name == holder))).map obj = (ids.map obj).filter (fun o => o.name != holder) := by
  induction ids with
  | nil => rfl
  | cons a t ih =>
    simp only [List.filter_cons, List.map_cons]
    cases h : (obj a).name == holder <;> simp [bne, h, ih]

theorem any_map_obj (obj : Nat → Obj) (inc : List Nat) (l : List Nat) :
    (l.any fun m => !(!(inc.contains (obj m).name))) = (l.map obj).any (fun o => inc.contains o.name) := by
  induction l with
  | nil => rfl
  | cons a t ih => simp [List.any_cons, List.any_map, Function.comp_def]

/-- the decision after the self filter, on an abstract outcome type -/
theorem inject_core {α : Type} (pt : Point) (holder : Nat) (obj : Nat → Obj) (L : List Nat) (A B : α) (Wf : List Obj → α) :
    (if (L.map obj).isEmpty then (if pt.required then A else B)
     else if (L.map obj).any (fun o => pt.incompat.contains o.name) then (if pt.required then A else B)
     else Wf (if pt.slice then L.map obj else (L.map obj).take 1)) =
    (if (Sem.injectTail (injCtxOf pt holder obj) L).1 then A
     else match (Sem.injectTail (injCtxOf pt holder obj) L).2.injects with
       | none => B
       | some ms => Wf (if pt.slice then ms.map obj else (ms.map obj).take 1)) := by
  unfold Sem.injectTail
  simp only [injCtxOf]
  cases L with
  | nil =>
    by_cases hr : pt.required = true
    · simp [hr]
    · simp [hr]
  | cons m rest' =>
    simp only [List.map_cons, List.isEmpty_cons, Bool.false_eq_true, if_false]
    have hany := any_map_obj obj pt.incompat (m :: rest')
    simp only [List.map_cons] at hany
    simp only [hany]
    cases ha : (obj m :: List.map obj rest').any (fun o => pt.incompat.contains o.name) with
    | true =>
      by_cases hr : pt.required = true
      · simp [hr]
      · simp [hr]
    | false =>
      simp only [Bool.false_eq_true, if_false]
      by_cases hs : pt.slice = true
      · simp [hs]
      · simp [hs]

/-- THE INJECT STEP OF THE MACHINE IS THE REGENERATED Property.Inject: when all candidates of the current point are
    collected (and the point has candidates), `step` fails / skips / writes exactly as `Sem.injectModel` — proved equal to
    the regenerated program (inject_sem) — says on the answers the machine state gives. -/
theorem step_inject_is_code (sc : Scen) (st : St) (f : Frame) (rest : List Frame) (hrun : st.status = .running)
    (hst : st.stack = f :: rest) (hp : f.p < (pts sc f.name).length)
    (hd : ¬ f.d < ((pts sc f.name)[f.p]).cands.length) (hne : ((pts sc f.name)[f.p]).cands ≠ [])
    (ids : List Nat) (obj : Nat → Obj) (hacc : ids.map obj = f.acc) (hids : ids ≠ []) :
    step sc st =
      (if (Sem.injectModel (injCtxOf ((pts sc f.name)[f.p]) f.name obj) ids).1 then failAt st f.name
       else match (Sem.injectModel (injCtxOf ((pts sc f.name)[f.p]) f.name obj) ids).2.injects with
         | none => { st with stack := advance f :: rest }
         | some ms => { st with
             fields := upd2 st.fields f.name f.p
               (if ((pts sc f.name)[f.p]).slice then ms.map obj else (ms.map obj).take 1),
             stack := advance f :: rest }) := by
  rw [step_inject sc st f rest hrun hst hp hd]
  have hc : ((pts sc f.name)[f.p]).cands.isEmpty = false := by
    cases h : ((pts sc f.name)[f.p]).cands with
    | nil => exact absurd h hne
    | cons a t => rfl
  have hie : ids.isEmpty = false := by cases ids <;> simp_all
  have hmetas : metasOf f = (ids.filter (fun m => !((obj m).name == f.name))).map obj := by
    rw [filter_map_obj, hacc]; rfl
  have hmodel : Sem.injectModel (injCtxOf ((pts sc f.name)[f.p]) f.name obj) ids =
      Sem.injectTail (injCtxOf ((pts sc f.name)[f.p]) f.name obj) (ids.filter (fun m => !((obj m).name == f.name))) := by
    simp [Sem.injectModel, injCtxOf, hie]
  simp only [hc, Bool.false_eq_true, if_false]
  rw [hmodel, hmetas]
  exact inject_core ((pts sc f.name)[f.p]) f.name obj _ _ _
    (fun v => { st with fields := upd2 st.fields f.name f.p v, stack := advance f :: rest })


end inject

end Ioc.M2
