/-
  Lemmas for the ninth-round scenarios of the concurrency unit (Ioc.Conc section 9):
  * `resolveAfter_mem`: a processor that answers true has its PostProcessProperties applied whatever the others answer;
    `resolveAfterBreak_stops`: the loop that ends at the first `false` applies nothing behind that processor;
  * `scanStores_mem`: a definition stored in registry r is in registry r after all the stores, in every order;
  * `seq_loads_same`: a sequential history of reads of one key returns what was there and changes nothing.
-/
import Ioc.Conc
import IocProofs.Lemmas.ConcMap

namespace Ioc.Conc

theorem resolveAfter_mem (ps : List IProc) (p : IProc) (hp : p ∈ ps) (ha : p.aware = true) (hpop : p.populate = true) :
    p.id ∈ resolveAfter ps := by
  induction ps with
  | nil => cases hp
  | cons q rest ih =>
    unfold resolveAfter
    rcases List.mem_cons.mp hp with h | h
    · subst h; simp [ha, hpop]
    · split
      · exact List.mem_cons_of_mem _ (ih h)
      · exact ih h

theorem resolveAfterBreak_stops (pre post : List IProc) (v : IProc) (ha : v.aware = true) (hv : v.populate = false) :
    ∀ x, x ∈ resolveAfterBreak (pre ++ v :: post) → x ∈ pre.map (·.id) := by
  induction pre with
  | nil =>
    intro x hx
    simp [resolveAfterBreak, ha, hv] at hx
  | cons q rest ih =>
    intro x hx
    simp only [List.cons_append, resolveAfterBreak] at hx
    split at hx
    · exact List.mem_cons_of_mem _ (ih x hx)
    · split at hx
      · rcases List.mem_cons.mp hx with h | h
        · subst h; simp
        · exact List.mem_cons_of_mem _ (ih x h)
      · cases hx

theorem scanStores_mono (acts : List (Nat × Nat)) : ∀ (regs : Nat → List Nat) (r name : Nat),
    name ∈ regs r → name ∈ scanStores regs acts r := by
  induction acts with
  | nil => intro regs r name h; exact h
  | cons a rest ih =>
    intro regs r name h
    unfold scanStores
    rw [List.foldl_cons]
    refine ih _ r name ?_
    unfold upd
    split
    · rename_i heq; subst heq; exact List.mem_cons_of_mem _ h
    · exact h

theorem scanStores_mem (acts : List (Nat × Nat)) : ∀ (regs : Nat → List Nat) (a : Nat × Nat),
    a ∈ acts → a.2 ∈ scanStores regs acts a.1 := by
  induction acts with
  | nil => intro _ a h; cases h
  | cons b rest ih =>
    intro regs a h
    rcases List.mem_cons.mp h with h | h
    · subst h
      unfold scanStores
      rw [List.foldl_cons]
      refine scanStores_mono rest _ a.1 a.2 ?_
      simp [upd]
    · unfold scanStores
      rw [List.foldl_cons]
      exact ih _ a h

/-- a legal sequential history of `load k` calls: nothing is written, every call returns what the map held at the start -/
theorem seq_loads_same (k : Nat) (m0 : MapSt) :
    ∀ (h : List (Nat × Op × Res)) (m : MapSt), Explains m0 h m → (∀ e, e ∈ h → e.2.1 = .load k) →
      m = m0 ∧ ∀ e, e ∈ h → e.2.2 = .got (m0 k) (m0 k).isSome := by
  intro h
  induction h with
  | nil => intro m hex _; exact ⟨hex, fun e he => by cases he⟩
  | cons e0 older ih =>
    intro m hex hall
    obtain ⟨t, op, r⟩ := e0
    obtain ⟨m1, hold, hspec⟩ := hex
    have hop : op = .load k := hall (t, op, r) (by simp)
    subst hop
    obtain ⟨hm1, hres⟩ := ih m1 hold (fun e he => hall e (List.mem_cons_of_mem _ he))
    subst hm1
    simp only [Op.spec] at hspec
    have h1 : m1 = m := (Prod.mk.inj hspec).1
    have h2 : Res.got (m1 k) (m1 k).isSome = r := (Prod.mk.inj hspec).2
    refine ⟨h1.symm, fun e he => ?_⟩
    rcases List.mem_cons.mp he with h | h
    · subst h; exact h2.symm
    · exact hres e h

/-- an element of a duplicate-free list occurs in it exactly once -/
theorem nodup_count_one (l : List Nat) (h : l.Nodup) (c : Nat) (hc : c ∈ l) : l.count c = 1 := by
  induction l with
  | nil => cases hc
  | cons a t ih =>
    rw [List.nodup_cons] at h
    rw [List.count_cons]
    rcases List.mem_cons.mp hc with heq | hm
    · subst heq
      have : t.count c = 0 := List.count_eq_zero.mpr h.1
      simp [this]
    · have hne : a ≠ c := fun e => h.1 (e ▸ hm)
      simp [ih h.2 hm, hne]

end Ioc.Conc
