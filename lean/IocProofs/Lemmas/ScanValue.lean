/-
  The value part of a tag is handed over AS WRITTEN (C11, sixth round): TagArg.Parse (Ioc.Tag.parse?) returns the text
  before the first comma byte for byte — leading and trailing white space included — whenever that text holds no
  bracket; NewProperty stores it unchanged (component_definition/property.go:21-33).
-/
import IocProofs.Lemmas.TagRound
namespace Ioc.Tag

/-- text without comma and without brackets -/
def PlainVal (v : Bytes) : Prop := ∀ b ∈ v, b ≠ cComma ∧ isLB b = false ∧ isRB b = false

instance (v : Bytes) : Decidable (PlainVal v) := by unfold PlainVal; exact inferInstance

theorem count_pos_of_mem (sep : UInt8) (pre post : Bytes) : 1 ≤ count sep (pre ++ sep :: post) := by
  rw [count_append]
  have : 1 ≤ count sep (sep :: post) := by simp [count]
  omega

/-- a comma after a plain value: the first part of the split is the value, whatever follows -/
theorem split_plain_comma (v rest : Bytes) (hv : PlainVal v) :
    ∃ parts, split cComma isLB isRB (v ++ cComma :: rest) = v :: parts := by
  unfold split
  have hc := count_pos_of_mem cComma v rest
  have hl : 1 ≤ (v ++ cComma :: rest).length := by simp; omega
  obtain ⟨k, hk⟩ : ∃ k, min (count cComma (v ++ cComma :: rest)) (v ++ cComma :: rest).length = k + 1 :=
    ⟨min (count cComma (v ++ cComma :: rest)) (v ++ cComma :: rest).length - 1, by omega⟩
  rw [hk]
  have hi : index cComma isLB isRB (v ++ cComma :: rest) = v.length :=
    index_toplevel cComma isLB isRB (by decide) (by decide) v rest (WFpre_plain _ _ _ _ hv)
  simp only [splitGo, hi]
  have hneg : ¬ ((v.length : Int) < 0) := by omega
  simp only [hneg, if_false, Int.toNat_natCast, List.take_left']
  exact ⟨_, rfl⟩

/-- no comma at all: the whole text is the value and there are no arguments -/
theorem parse?_plain (v : Bytes) (hv : PlainVal v) : parse? v = some (v, []) := by
  unfold parse?
  rw [split?_eq]
  have h0 : count cComma v = 0 := by
    unfold count
    rw [List.length_eq_zero_iff, List.filter_eq_nil_iff]
    intro b hb
    simpa using (hv b hb).1
  simp [split, h0, splitGo, parseExps?]

theorem parse?_plain_comma (v rest : Bytes) (hv : PlainVal v) :
    ∃ a, parse? (v ++ cComma :: rest) = some (v, a) := by
  unfold parse?
  rw [split?_eq]
  obtain ⟨parts, hp⟩ := split_plain_comma v rest hv
  rw [hp]
  obtain ⟨m, hm⟩ := parseExps?_total [] parts
  exact ⟨m, by simp [hm]⟩

end Ioc.Tag
