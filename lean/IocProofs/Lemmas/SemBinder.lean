/-
  Semantic theorems for the REGENERATED functions of configure/binder/viper.go (interpretation: Ioc.SemBinder).
-/
import Ioc.SemBinder
import IocProofs.Lemmas.GoTactics
set_option linter.unusedSimpArgs false
namespace Ioc.Sem
open Ioc Ioc.Go

section binder
variable (keq : Val → Val → Bool) (rec : Val → Heap → Val × Heap)

/-- a typed nil map / list, and anything that is neither a map nor a list, is returned as it is; nothing is allocated -/
theorem cloneValue_asis (x : Val) (h : Heap)
    (hx : (assertMS h x = .tuple [.nil, .bool true] ∨ assertMS h x = .tuple [.nil, .bool false]) ∧
          (assertMS h x = .tuple [.nil, .bool false] →
            (assertMA h x = .tuple [.nil, .bool true] ∨ assertMA h x = .tuple [.nil, .bool false]) ∧
            (assertMA h x = .tuple [.nil, .bool false] →
              (assertL h x = .tuple [.nil, .bool true] ∨ assertL h x = .tuple [.nil, .bool false])))) :
    run (cvPrims keq rec) Progs.binder_cloneValue [x] h = some (x, h) := by
  obtain ⟨h1, h2⟩ := hx
  rcases h1 with h1 | h1
  · go_simp [Progs.binder_cloneValue, cvPrims, cvFn, h1]
  · obtain ⟨h3, h4⟩ := h2 h1
    rcases h3 with h3 | h3
    · go_simp [Progs.binder_cloneValue, cvPrims, cvFn, h1, h3]
    · rcases h4 h3 with h5 | h5
      · go_simp [Progs.binder_cloneValue, cvPrims, cvFn, h1, h3, h5]
      · go_simp [Progs.binder_cloneValue, cvPrims, cvFn, h1, h3, h5]

/-! the three clauses of the type switch -/

def cvT1 : List Stmt := match Progs.binder_cloneValue.body with
  | [.ifs _ _ [_, .ifs _ _ t1 _] _, _] => t1 | _ => []
def cvT2 : List Stmt := match Progs.binder_cloneValue.body with
  | [.ifs _ _ [_, .ifs _ _ _ [.ifs _ _ t2 _]] _, _] => t2 | _ => []
def cvT3 : List Stmt := match Progs.binder_cloneValue.body with
  | [.ifs _ _ [_, .ifs _ _ _ [.ifs _ _ _ [.ifs _ _ t3 _]]] _, _] => t3 | _ => []

theorem cv_shape : Progs.binder_cloneValue.body =
    [.ifs [] (.bool true) [.define ["$ts"] (.var "val"),
      .ifs [.define ["$v0", "$ok0"] (.assert2 (.var "$ts") "map[string]any")] (.var "$ok0") cvT1
        [.ifs [.define ["$v0", "$ok0"] (.assert2 (.var "$ts") "map[any]any")] (.var "$ok0") cvT2
          [.ifs [.define ["$v0", "$ok0"] (.assert2 (.var "$ts") "[]any")] (.var "$ok0") cvT3 []]]] [],
     .ret [.var "val"]] := rfl

def cvLoopBody : List Stmt := [.expr (.call ".setidx" [(.var "m"), (.var "k"), (.call "cloneValue" [(.var "e")])])]

def envMS (j : Nat) (es : List (Val × Val)) (x : Val) : Env :=
  [("m", .ref j 90), ("v", pairsVal es), ("$ok0", .bool true), ("$v0", pairsVal es), ("$ts", x), ("val", x)]

theorem cv_mapLoopS (j : Nat) (all : List (Val × Val)) (x : Val)
    (g : Nat → Val → Env → Heap → Option (Env × Heap × Ctl))
    (hg : ∀ n kk vv e w', g n (.tuple [kk, vv]) e w' =
      (evalB (cvPrims keq rec) (Env.def (Env.def e "k" kk) "e" vv) w' cvLoopBody).map
        (fun r => (Env.leave r.1 e.length, r.2.1, r.2.2))) :
    ∀ (es : List (Val × Val)) (i : Nat) (h : Heap),
      loopM g i (es.map (fun e => Val.tuple [e.1, e.2])) (envMS j all x) h =
      some (envMS j all x, cloneEntries keq rec j es h, .norm) := by
  intro es
  induction es with
  | nil => intro i h; simp [loopM, cloneEntries]
  | cons e rest ih =>
    intro i h
    obtain ⟨k, v⟩ := e
    have hit : (evalB (cvPrims keq rec) (Env.def (Env.def (envMS j all x) "k" k) "e" v) h cvLoopBody).map
        (fun r => (Env.leave r.1 (envMS j all x).length, r.2.1, r.2.2)) =
        some (envMS j all x, heapSetIdx keq (rec v h).2 j k (rec v h).1, .norm) := by
      go_simp [cvLoopBody, cvPrims, cvFn, envMS]
    simp only [List.map_cons, loopM, hg, hit, cloneEntries]
    exact ih (i + 1) _

theorem cvT1_eq : cvT1 = [.define ["v"] (.var "$v0"),
    .ifs [] (.bin "==" (.var "v") .nil) [.ret [(.var "val")]] [],
    .define ["m"] (.call "make:map[string]any" [.call "len" [.var "v"]]),
    .range "k" "e" (.var "v") cvLoopBody,
    .ret [(.var "m")]] := rfl

theorem cv_blockS (x : Val) (es : List (Val × Val)) (h : Heap) :
    evalB (cvPrims keq rec) [("$ok0", .bool true), ("$v0", pairsVal es), ("$ts", x), ("val", x)] h cvT1 =
      some (envMS h.length es x, cloneEntries keq rec h.length es (h ++ [.mapS (some [])]), .ret (.ref h.length 90)) := by
  rw [cvT1_eq]
  rw [evalB_cons]
  have h1 : evalS (cvPrims keq rec) [("$ok0", .bool true), ("$v0", pairsVal es), ("$ts", x), ("val", x)] h
      (.define ["v"] (.var "$v0")) =
      some ([("v", pairsVal es), ("$ok0", .bool true), ("$v0", pairsVal es), ("$ts", x), ("val", x)], h, .norm) := by
    go_simp []
  rw [h1]; simp only []
  rw [evalB_cons]
  have h2 : evalS (cvPrims keq rec) [("v", pairsVal es), ("$ok0", .bool true), ("$v0", pairsVal es), ("$ts", x), ("val", x)] h
      (.ifs [] (.bin "==" (.var "v") .nil) [.ret [(.var "val")]] []) =
      some ([("v", pairsVal es), ("$ok0", .bool true), ("$v0", pairsVal es), ("$ts", x), ("val", x)], h, .norm) := by
    go_simp [pairsVal]
  rw [h2]; simp only []
  rw [evalB_cons]
  have h3 : evalS (cvPrims keq rec) [("v", pairsVal es), ("$ok0", .bool true), ("$v0", pairsVal es), ("$ts", x), ("val", x)] h
      (.define ["m"] (.call "make:map[string]any" [.call "len" [.var "v"]])) =
      some (envMS h.length es x, h ++ [.mapS (some [])], .norm) := by
    go_simp [pairsVal, cvPrims, cvFn, envMS]
  rw [h3]; simp only []
  rw [evalB_cons]
  simp only [evalS]
  have hc : evalE (cvPrims keq rec) (envMS h.length es x) (h ++ [.mapS (some [])]) (.var "v") =
      some (.tuple (.str "$map" :: es.map (fun e => Val.tuple [e.1, e.2])), h ++ [.mapS (some [])]) := by
    go_simp [envMS, pairsVal]
  rw [hc]; simp only []
  rw [cv_mapLoopS keq rec h.length es x _ (by intro n kk vv e w'; rfl) es 0 _]
  simp only []
  go_simp [envMS]

def envMA (j : Nat) (es : List (Val × Val)) (x : Val) : Env :=
  [("m", .ref j 90), ("v", pairsVal es), ("$ok0", .bool true), ("$v0", pairsVal es), ("$ok0", .bool false), ("$v0", .nil), ("$ts", x), ("val", x)]

theorem cv_mapLoopA (j : Nat) (all : List (Val × Val)) (x : Val)
    (g : Nat → Val → Env → Heap → Option (Env × Heap × Ctl))
    (hg : ∀ n kk vv e w', g n (.tuple [kk, vv]) e w' =
      (evalB (cvPrims keq rec) (Env.def (Env.def e "k" kk) "e" vv) w' cvLoopBody).map
        (fun r => (Env.leave r.1 e.length, r.2.1, r.2.2))) :
    ∀ (es : List (Val × Val)) (i : Nat) (h : Heap),
      loopM g i (es.map (fun e => Val.tuple [e.1, e.2])) (envMA j all x) h =
      some (envMA j all x, cloneEntries keq rec j es h, .norm) := by
  intro es
  induction es with
  | nil => intro i h; simp [loopM, cloneEntries]
  | cons e rest ih =>
    intro i h
    obtain ⟨k, v⟩ := e
    have hit : (evalB (cvPrims keq rec) (Env.def (Env.def (envMA j all x) "k" k) "e" v) h cvLoopBody).map
        (fun r => (Env.leave r.1 (envMA j all x).length, r.2.1, r.2.2)) =
        some (envMA j all x, heapSetIdx keq (rec v h).2 j k (rec v h).1, .norm) := by
      go_simp [cvLoopBody, cvPrims, cvFn, envMA]
    simp only [List.map_cons, loopM, hg, hit, cloneEntries]
    exact ih (i + 1) _

theorem cvT2_eq : cvT2 = [.define ["v"] (.var "$v0"),
    .ifs [] (.bin "==" (.var "v") .nil) [.ret [(.var "val")]] [],
    .define ["m"] (.call "make:map[any]any" [.call "len" [.var "v"]]),
    .range "k" "e" (.var "v") cvLoopBody,
    .ret [(.var "m")]] := rfl

theorem cv_blockA (x : Val) (es : List (Val × Val)) (h : Heap) :
    evalB (cvPrims keq rec) [("$ok0", .bool true), ("$v0", pairsVal es), ("$ok0", .bool false), ("$v0", .nil), ("$ts", x), ("val", x)] h cvT2 =
      some (envMA h.length es x, cloneEntries keq rec h.length es (h ++ [.mapA (some [])]), .ret (.ref h.length 90)) := by
  rw [cvT2_eq]
  rw [evalB_cons]
  have h1 : evalS (cvPrims keq rec) [("$ok0", .bool true), ("$v0", pairsVal es), ("$ok0", .bool false), ("$v0", .nil), ("$ts", x), ("val", x)] h
      (.define ["v"] (.var "$v0")) =
      some ([("v", pairsVal es), ("$ok0", .bool true), ("$v0", pairsVal es), ("$ok0", .bool false), ("$v0", .nil), ("$ts", x), ("val", x)], h, .norm) := by
    go_simp []
  rw [h1]; simp only []
  rw [evalB_cons]
  have h2 : evalS (cvPrims keq rec) [("v", pairsVal es), ("$ok0", .bool true), ("$v0", pairsVal es), ("$ok0", .bool false), ("$v0", .nil), ("$ts", x), ("val", x)] h
      (.ifs [] (.bin "==" (.var "v") .nil) [.ret [(.var "val")]] []) =
      some ([("v", pairsVal es), ("$ok0", .bool true), ("$v0", pairsVal es), ("$ok0", .bool false), ("$v0", .nil), ("$ts", x), ("val", x)], h, .norm) := by
    go_simp [pairsVal]
  rw [h2]; simp only []
  rw [evalB_cons]
  have h3 : evalS (cvPrims keq rec) [("v", pairsVal es), ("$ok0", .bool true), ("$v0", pairsVal es), ("$ok0", .bool false), ("$v0", .nil), ("$ts", x), ("val", x)] h
      (.define ["m"] (.call "make:map[any]any" [.call "len" [.var "v"]])) =
      some (envMA h.length es x, h ++ [.mapA (some [])], .norm) := by
    go_simp [pairsVal, cvPrims, cvFn, envMA]
  rw [h3]; simp only []
  rw [evalB_cons]
  simp only [evalS]
  have hc : evalE (cvPrims keq rec) (envMA h.length es x) (h ++ [.mapA (some [])]) (.var "v") =
      some (.tuple (.str "$map" :: es.map (fun e => Val.tuple [e.1, e.2])), h ++ [.mapA (some [])]) := by
    go_simp [envMA, pairsVal]
  rw [hc]; simp only []
  rw [cv_mapLoopA keq rec h.length es x _ (by intro n kk vv e w'; rfl) es 0 _]
  simp only []
  go_simp [envMA]

/-- a (non-nil) `map[string]any`: a NEW map object is returned; it holds, under the same keys, what the recursive call returns
    for each value; the map that was passed in is not written to -/
theorem cloneValue_mapS (i : Nat) (es : List (Val × Val)) (h : Heap) (hi : h[i]? = some (.mapS (some es))) :
    run (cvPrims keq rec) Progs.binder_cloneValue [.ref i 90] h =
      some (.ref h.length 90, cloneEntries keq rec h.length es (h ++ [.mapS (some [])])) := by
  have ha : assertMS h (.ref i 90) = .tuple [pairsVal es, .bool true] := by simp [assertMS, hi]
  have hT := cv_blockS keq rec (.ref i 90) es h
  simp only [cvPrims] at hT
  simp only [run, cv_shape, show Progs.binder_cloneValue.params = ["val"] from rfl, List.length_cons, List.length_nil, if_true,
    List.zip_cons_cons, List.zip_nil_right]
  go_simp [cvPrims, cvFn, ha, hT]

/-- the same for a `map[any]any` -/
theorem cloneValue_mapA (i : Nat) (es : List (Val × Val)) (h : Heap) (hi : h[i]? = some (.mapA (some es))) :
    run (cvPrims keq rec) Progs.binder_cloneValue [.ref i 90] h =
      some (.ref h.length 90, cloneEntries keq rec h.length es (h ++ [.mapA (some [])])) := by
  have ha0 : assertMS h (.ref i 90) = .tuple [.nil, .bool false] := by simp [assertMS, hi]
  have ha : assertMA h (.ref i 90) = .tuple [pairsVal es, .bool true] := by simp [assertMA, hi]
  have hT := cv_blockA keq rec (.ref i 90) es h
  simp only [cvPrims] at hT
  simp only [run, cv_shape, show Progs.binder_cloneValue.params = ["val"] from rfl, List.length_cons, List.length_nil, if_true,
    List.zip_cons_cons, List.zip_nil_right]
  go_simp [cvPrims, cvFn, ha0, ha, hT]

/-! the list clause -/

def cvListBody : List Stmt := [.expr (.call ".setidx" [(.var "l"), (.var "i"), (.call "cloneValue" [(.var "e")])])]

theorem cvT3_eq : cvT3 = [.define ["v"] (.var "$v0"),
    .ifs [] (.bin "==" (.var "v") .nil) [.ret [(.var "val")]] [],
    .define ["l"] (.call "make:[]any" [.call "len" [.var "v"]]),
    .range "i" "e" (.var "v") cvListBody,
    .ret [(.var "l")]] := rfl

def envL (j : Nat) (es : List Val) (x : Val) : Env :=
  [("l", .ref j 90), ("v", .list es), ("$ok0", .bool true), ("$v0", .list es), ("$ok0", .bool false), ("$v0", .nil), ("$ok0", .bool false), ("$v0", .nil), ("$ts", x), ("val", x)]

theorem cv_listLoop (j : Nat) (all : List Val) (x : Val)
    (g : Nat → Val → Env → Heap → Option (Env × Heap × Ctl))
    (hg : ∀ n y e w', g n y e w' =
      (evalB (cvPrims keq rec) (Env.def (Env.def e "i" (.int n)) "e" y) w' cvListBody).map
        (fun r => (Env.leave r.1 e.length, r.2.1, r.2.2))) :
    ∀ (es : List Val) (i : Nat) (h : Heap),
      loopM g i es (envL j all x) h = some (envL j all x, cloneItems keq rec j i es h, .norm) := by
  intro es
  induction es with
  | nil => intro i h; simp [loopM, cloneItems]
  | cons v rest ih =>
    intro i h
    have hit : (evalB (cvPrims keq rec) (Env.def (Env.def (envL j all x) "i" (.int i)) "e" v) h cvListBody).map
        (fun r => (Env.leave r.1 (envL j all x).length, r.2.1, r.2.2)) =
        some (envL j all x, heapSetIdx keq (rec v h).2 j (.int i) (rec v h).1, .norm) := by
      go_simp [cvListBody, cvPrims, cvFn, envL]
    simp only [loopM, hg, hit, cloneItems]
    exact ih (i + 1) _

/-- a (non-nil) `[]any`: a NEW list of the same length; item i is what the recursive call returns for item i -/
theorem cloneValue_list (i : Nat) (es : List Val) (h : Heap) (hi : h[i]? = some (.lst (some es))) :
    run (cvPrims keq rec) Progs.binder_cloneValue [.ref i 90] h =
      some (.ref h.length 90, cloneItems keq rec h.length 0 es (h ++ [.lst (some (List.replicate es.length .nil))])) := by
  have ha0 : assertMS h (.ref i 90) = .tuple [.nil, .bool false] := by simp [assertMS, hi]
  have ha1 : assertMA h (.ref i 90) = .tuple [.nil, .bool false] := by simp [assertMA, hi]
  have ha : assertL h (.ref i 90) = .tuple [.list es, .bool true] := by simp [assertL, hi]
  generalize hx : Val.ref i 90 = x at *
  have hT : evalB (cvPrims keq rec) [("$ok0", .bool true), ("$v0", .list es), ("$ok0", .bool false), ("$v0", .nil), ("$ok0", .bool false), ("$v0", .nil), ("$ts", x), ("val", x)] h cvT3 =
      some (envL h.length es x, cloneItems keq rec h.length 0 es (h ++ [.lst (some (List.replicate es.length .nil))]),
        .ret (.ref h.length 90)) := by
    rw [cvT3_eq]
    rw [evalB_cons]
    have h1 : evalS (cvPrims keq rec) [("$ok0", .bool true), ("$v0", .list es), ("$ok0", .bool false), ("$v0", .nil), ("$ok0", .bool false), ("$v0", .nil), ("$ts", x), ("val", x)] h
        (.define ["v"] (.var "$v0")) =
        some ([("v", .list es), ("$ok0", .bool true), ("$v0", .list es), ("$ok0", .bool false), ("$v0", .nil), ("$ok0", .bool false), ("$v0", .nil), ("$ts", x), ("val", x)], h, .norm) := by
      go_simp []
    rw [h1]; simp only []
    rw [evalB_cons]
    have h2 : evalS (cvPrims keq rec) [("v", .list es), ("$ok0", .bool true), ("$v0", .list es), ("$ok0", .bool false), ("$v0", .nil), ("$ok0", .bool false), ("$v0", .nil), ("$ts", x), ("val", x)] h
        (.ifs [] (.bin "==" (.var "v") .nil) [.ret [(.var "val")]] []) =
        some ([("v", .list es), ("$ok0", .bool true), ("$v0", .list es), ("$ok0", .bool false), ("$v0", .nil), ("$ok0", .bool false), ("$v0", .nil), ("$ts", x), ("val", x)], h, .norm) := by
      go_simp []
    rw [h2]; simp only []
    rw [evalB_cons]
    have h3 : evalS (cvPrims keq rec) [("v", .list es), ("$ok0", .bool true), ("$v0", .list es), ("$ok0", .bool false), ("$v0", .nil), ("$ok0", .bool false), ("$v0", .nil), ("$ts", x), ("val", x)] h
        (.define ["l"] (.call "make:[]any" [.call "len" [.var "v"]])) =
        some (envL h.length es x, h ++ [.lst (some (List.replicate es.length .nil))], .norm) := by
      go_simp [cvPrims, cvFn, envL]
    rw [h3]; simp only []
    rw [evalB_cons]
    simp only [evalS]
    have hc : evalE (cvPrims keq rec) (envL h.length es x) (h ++ [.lst (some (List.replicate es.length .nil))]) (.var "v") =
        some (.list es, h ++ [.lst (some (List.replicate es.length .nil))]) := by
      go_simp [envL]
    rw [hc]; simp only []
    rw [cv_listLoop keq rec h.length es x _ (by intro n y e w'; rfl) es 0 _]
    simp only []
    go_simp [envL]
  simp only [cvPrims] at hT
  simp only [run, cv_shape, show Progs.binder_cloneValue.params = ["val"] from rfl, List.length_cons, List.length_nil, if_true,
    List.zip_cons_cons, List.zip_nil_right]
  go_simp [cvPrims, cvFn, ha0, ha1, ha, hT]

/-! ### the objects that were passed in are never written -/

theorem heapSetIdx_other (h : Heap) (j : Nat) (k v : Val) (i : Nat) (hij : i ≠ j) : (heapSetIdx keq h j k v)[i]? = h[i]? := by
  unfold heapSetIdx
  split
  · simp [List.getElem?_set, Ne.symm hij]
  · simp [List.getElem?_set, Ne.symm hij]
  · split
    · simp [List.getElem?_set, Ne.symm hij]
    · rfl
  · rfl

theorem heapSetIdx_length (h : Heap) (j : Nat) (k v : Val) : (heapSetIdx keq h j k v).length = h.length := by
  unfold heapSetIdx
  split
  · simp
  · simp
  · split
    · simp
    · rfl
  · rfl

/-- the recursive call only allocates: it leaves the first n objects as they are and does not shrink the heap -/
def RecFrame (rec : Val → Heap → Val × Heap) (n : Nat) : Prop :=
  ∀ e h, n ≤ h.length → (∀ i, i < n → (rec e h).2[i]? = h[i]?) ∧ h.length ≤ (rec e h).2.length

theorem cloneEntries_frame (n : Nat) (hrec : RecFrame rec n) :
    ∀ (es : List (Val × Val)) (h : Heap), n ≤ h.length → ∀ i, i < n → (cloneEntries keq rec n es h)[i]? = h[i]? := by
  intro es
  induction es with
  | nil => intro h _ i _; rfl
  | cons e rest ih =>
    intro h hn i hi
    obtain ⟨k, v⟩ := e
    simp only [cloneEntries]
    have hr := hrec v h hn
    rw [ih _ (by rw [heapSetIdx_length]; omega) i hi, heapSetIdx_other keq _ _ _ _ _ (by omega), hr.1 i hi]

theorem cloneItems_frame (n : Nat) (hrec : RecFrame rec n) :
    ∀ (es : List Val) (s : Nat) (h : Heap), n ≤ h.length → ∀ i, i < n → (cloneItems keq rec n s es h)[i]? = h[i]? := by
  intro es
  induction es with
  | nil => intro s h _ i _; rfl
  | cons e rest ih =>
    intro s h hn i hi
    simp only [cloneItems]
    have hr := hrec e h hn
    rw [ih _ _ (by rw [heapSetIdx_length]; omega) i hi, heapSetIdx_other keq _ _ _ _ _ (by omega), hr.1 i hi]

/-! ### Get / Set / SetConfig -/

/-- Get: what viper holds under the path — all settings for the empty path — handed out THROUGH cloneValue, always -/
theorem binderGet_sem (b : VB) (path : String) (h : Heap) :
    run (bgPrims b) Progs.binder_Get [.str path] h = some (b.clone (if path = "" then b.all else b.get path) h) := by
  by_cases hp : path = ""
  · have hb : (path == "") = true := by simpa using hp
    go_simp [Progs.binder_Get, bgPrims, bgFn, hp, hb]
  · have hb : (path == "") = false := by simpa using hp
    go_simp [Progs.binder_Get, bgPrims, bgFn, hp, hb]

/-- Set: exactly one `Viper.Set(path, val)`, path and value as given -/
theorem binderSet_sem (me : Val → Option String) (path : String) (v : Val) (w : List VCall) :
    run (bsPrims me) Progs.binder_Set [.str path, v] w = some (.tuple [], w ++ [.set path v]) := by
  go_simp [Progs.binder_Set, bsPrims, bsFn]

/-- SetConfig: exactly one `MergeConfig` of the document; its error comes back wrapped, never swallowed -/
theorem binderSetConfig_sem (me : Val → Option String) (c : Val) (w : List VCall) :
    run (bsPrims me) Progs.binder_SetConfig [c] w =
      some (match me c with | none => .nil | some e => .str ("viper merge config: " ++ e), w ++ [.merge c]) := by
  cases hm : me c <;> go_simp [Progs.binder_SetConfig, bsPrims, bsFn, hm]

end binder
end Ioc.Sem
