/-
  The regenerated programs of app/app.go (App.run, App.callRunners) compute the stage pipeline and the runner loop of M5.
-/
import Ioc.SemApp
import IocProofs.Lemmas.GoTactics
namespace Ioc.Sem
open Ioc Ioc.Go Ioc.App

/-- App.run calls initConfiguration, initFactory, refresh, callRunners in this order, each only when all earlier ones
    returned nil, and returns nil exactly when all four did — for every failure pattern -/
theorem app_run_sem (fails : String → Bool) :
    run (runPrims fails) Progs.app_run [] [] =
      some (if (stagesUntilFail fails theStages).2 then .nil else errA, (stagesUntilFail fails theStages).1) := by
  cases h1 : fails "initConfiguration" <;> cases h2 : fails "initFactory" <;> cases h3 : fails "refresh" <;>
    cases h4 : fails "callRunners" <;>
    go_simp [Progs.app_run, runPrims, runFn, stageCall, stagesUntilFail, theStages, h1, h2, h3, h4, errA]


/-! ### App.callRunners -/


def encI (i : Nat) : Val := .ref i 0

def failsAt (rs : List Runner) (x : Nat) : Bool :=
  match rs[x]? with
  | some r => r.fails
  | none => true

theorem callIdx_cons (rs : List Runner) (x : Nat) (rest : List Nat) :
    callIdx rs (x :: rest) = if failsAt rs x then ([x], false) else (x :: (callIdx rs rest).1, (callIdx rs rest).2) := by
  unfold failsAt
  cases h : rs[x]? with
  | none => simp [callIdx, h]
  | some r => cases hf : r.fails <;> simp [callIdx, h, hf]

/-- an index loop whose body calls Run on `sorted[i]` and returns on error -/
theorem loopM_call (rs : List Runner) (sorted : List Nat) (f : Nat → Val → Env → RunW → Option (Env × RunW × Ctl)) (env : Env)
    (hf : ∀ i v w x, sorted[i]? = some x →
      f i v env w = some (env, { w with invoked := w.invoked ++ [x] }, if failsAt rs x then Ctl.ret errA else Ctl.norm)) :
    ∀ (suffix : List Nat) (k : Nat) (w : RunW), sorted.drop k = suffix →
      loopM f k (suffix.map encI) env w =
        some (env, { w with invoked := w.invoked ++ (callIdx rs suffix).1 },
              if (callIdx rs suffix).2 then Ctl.norm else Ctl.ret errA) := by
  intro suffix
  induction suffix with
  | nil => intro k w _; simp [loopM, callIdx]
  | cons x rest ih =>
    intro k w hd
    have hx : sorted[k]? = some x := by
      have := congrArg List.head? hd
      simpa [List.head?_drop] using this
    have hrest : sorted.drop (k + 1) = rest := by
      have := congrArg List.tail hd
      simpa [List.tail_drop] using this
    simp only [List.map_cons, loopM, hf k (encI x) w x hx, callIdx_cons]
    cases hfx : failsAt rs x with
    | true => simp
    | false =>
      simp only [Bool.false_eq_true, if_false]
      rw [ih (k + 1) _ hrest]
      simp [List.append_assoc]


def crStmt (i : Nat) : Stmt := Progs.app_callRunners.body.getD i .brk
theorem cr_body : Progs.app_callRunners.body = [crStmt 0, crStmt 1, crStmt 2, crStmt 3, crStmt 4, crStmt 5] := rfl
theorem cr_params : Progs.app_callRunners.params = [] := rfl

def envRun (l : List Nat) : Env := [("runners", .list (l.map encI))]

theorem cr_s3 (rs : List Runner) (sorted : List Nat) (w : RunW) :
    evalS (crPrims rs sorted) (envRun sorted) w (crStmt 3) =
      some (envRun sorted, { w with invoked := w.invoked ++ (callIdx rs sorted).1 },
            if (callIdx rs sorted).2 then Ctl.norm else Ctl.ret errA) := by
  simp only [crStmt, Progs.app_callRunners, List.getD_cons_succ, List.getD_cons_zero, evalS]
  have hcoll : evalE (crPrims rs sorted) (envRun sorted) w (.var "runners") = some (.list (sorted.map encI), w) := by
    go_simp [envRun]
  rw [hcoll]
  simp only []
  rw [loopM_call rs sorted _ (envRun sorted) (by
    intro i v w x hx
    have hget : (List.map encI sorted)[i]? = some (encI x) := by simp [hx]
    unfold failsAt
    cases hr : rs[x]? with
    | none => go_simp [envRun, crPrims, crFn, hget, encI, hr, errA]
    | some r => cases hfl : r.fails <;> go_simp [envRun, crPrims, crFn, hget, encI, hr, hfl, errA]) sorted 0 w (by simp)]

theorem cr_s0 (rs : List Runner) (sorted : List Nat) (w : RunW) :
    evalS (crPrims rs sorted) [] w (crStmt 0) = some (envRun (List.range rs.length), w, .norm) := by
  go_simp [crStmt, Progs.app_callRunners, crPrims, crFn, envRun, encI]

theorem cr_s1 (rs : List Runner) (sorted : List Nat) (w : RunW) :
    evalS (crPrims rs sorted) (envRun (List.range rs.length)) w (crStmt 1) =
      if rs.length = 0 then some (envRun (List.range rs.length), w, .ret .nil)
      else some (envRun (List.range rs.length), w, .norm) := by
  cases hl : rs.length with
  | zero => go_simp [crStmt, Progs.app_callRunners, envRun, hl]
  | succ n => go_simp [crStmt, Progs.app_callRunners, envRun, hl, List.range_succ]

theorem cr_s2 (rs : List Runner) (sorted : List Nat) (w : RunW) (l : List Nat) :
    evalS (crPrims rs sorted) (envRun l) w (crStmt 2) = some (envRun sorted, w, .norm) := by
  go_simp [crStmt, Progs.app_callRunners, crPrims, crFn, envRun, encI]

theorem cr_s4 (rs : List Runner) (sorted : List Nat) (w : RunW) (l : List Nat) :
    evalS (crPrims rs sorted) (envRun l) w (crStmt 4) = some (envRun l, { w with cleared := true }, .norm) := by
  go_simp [crStmt, Progs.app_callRunners, crPrims, crFn, envRun]

theorem cr_s5 (rs : List Runner) (sorted : List Nat) (w : RunW) (l : List Nat) :
    evalS (crPrims rs sorted) (envRun l) w (crStmt 5) = some (envRun l, w, .ret .nil) := by
  go_simp [crStmt, Progs.app_callRunners, envRun]

/-- App.callRunners: nothing happens without runners; otherwise the runners are sorted, invoked in that order up to and
    including the first failing one, and only a complete pass clears the list and returns nil -/
theorem app_callRunners_sem (rs : List Runner) (sorted : List Nat) :
    run (crPrims rs sorted) Progs.app_callRunners [] {} =
      if rs.length = 0 then some (.nil, {})
      else some (if (callIdx rs sorted).2 then .nil else errA,
                 { invoked := (callIdx rs sorted).1, cleared := (callIdx rs sorted).2 }) := by
  simp only [run, cr_params, cr_body, List.length_nil, if_true, List.zip_nil_left]
  rw [evalB_cons, cr_s0]
  simp only []
  rw [evalB_cons, cr_s1]
  by_cases hl : rs.length = 0
  · simp [hl]
  · simp only [hl, if_false]
    rw [evalB_cons, cr_s2]
    simp only []
    rw [evalB_cons, cr_s3]
    cases hc : (callIdx rs sorted).2 with
    | false => simp
    | true =>
      simp only [if_true]
      rw [evalB_cons, cr_s4]
      simp only []
      rw [evalB_cons, cr_s5]
      simp

/-- the position-level loop is the model's `callRunners` on the runners at those positions -/
theorem callIdx_model (rs : List Runner) (sorted : List Nat) (hv : ∀ i ∈ sorted, i < rs.length) :
    App.callRunners (sorted.filterMap (fun i => rs[i]?)) =
      (((callIdx rs sorted).1).filterMap (fun i => rs[i]?), (callIdx rs sorted).2) := by
  induction sorted with
  | nil => simp [App.callRunners, callIdx]
  | cons i rest ih =>
    have hi : i < rs.length := hv i (by simp)
    have hget : rs[i]? = some rs[i] := by simp [hi]
    have ih' := ih (fun j hj => hv j (by simp [hj]))
    simp only [List.filterMap_cons, hget, App.callRunners, callIdx]
    cases hf : rs[i].fails with
    | true => simp [hget]
    | false => simp [hget, ih']

end Ioc.Sem
