/-
  One characterisation of `step` of the factory machine (Ioc.Container), used by every invariant proof:
  `Step sc st st'` has one constructor per kind of transition, `step_spec` shows that a running state always
  takes one of them.  Logging and the work lists are abstracted by `Sim` (agreement on the cache, the stack, the
  injected fields and the status).
-/
import IocProofs.Lemmas.M2Basic
namespace Ioc.M2

/-- agreement on everything the cache invariant speaks about -/
structure Sim (a b : St) : Prop where
  l1 : a.l1 = b.l1
  l2 : a.l2 = b.l2
  l3 : a.l3 = b.l3
  stack : a.stack = b.stack
  fields : a.fields = b.fields
  status : a.status = b.status

theorem Sim.refl (a : St) : Sim a a := ⟨rfl, rfl, rfl, rfl, rfl, rfl⟩
theorem Sim.symm {a b : St} (h : Sim a b) : Sim b a :=
  ⟨h.l1.symm, h.l2.symm, h.l3.symm, h.stack.symm, h.fields.symm, h.status.symm⟩
theorem Sim.trans {a b c : St} (h1 : Sim a b) (h2 : Sim b c) : Sim a c :=
  ⟨h1.l1.trans h2.l1, h1.l2.trans h2.l2, h1.l3.trans h2.l3, h1.stack.trans h2.stack, h1.fields.trans h2.fields,
   h1.status.trans h2.status⟩
theorem SameButLog.sim {a b : St} (h : SameButLog a b) : Sim a b := ⟨h.l1, h.l2, h.l3, h.stack, h.fields, h.status⟩
theorem addLog_sim (sc : Scen) (st : St) (n : Nat) (e : Ev) : Sim (addLog sc st n e) st := (addLog_same sc st n e).sim
theorem initCallbacks_sim (sc : Scen) (st : St) (n : Nat) : Sim (initCallbacks sc st n).1 st :=
  (initCallbacks_same sc st n).sim

/-! ### lookup -/

/-- the state after GetSingleton ran the early-reference factory of `c` -/
def earlyRef (sc : Scen) (st : St) (c : Nat) : St :=
  { addLog sc st c (.early c) with
    l2 := upd (addLog sc st c (.early c)).l2 c (some (sc.earlyO c)),
    l3 := upd (addLog sc st c (.early c)).l3 c false }

@[simp] theorem earlyRef_l1 (sc : Scen) (st : St) (c : Nat) : (earlyRef sc st c).l1 = st.l1 := by simp [earlyRef]
@[simp] theorem earlyRef_l2 (sc : Scen) (st : St) (c : Nat) :
    (earlyRef sc st c).l2 = upd st.l2 c (some (sc.earlyO c)) := by simp [earlyRef]
@[simp] theorem earlyRef_l3 (sc : Scen) (st : St) (c : Nat) : (earlyRef sc st c).l3 = upd st.l3 c false := by
  simp [earlyRef]
@[simp] theorem earlyRef_stack (sc : Scen) (st : St) (c : Nat) : (earlyRef sc st c).stack = st.stack := by
  simp [earlyRef]
@[simp] theorem earlyRef_fields (sc : Scen) (st : St) (c : Nat) : (earlyRef sc st c).fields = st.fields := by
  simp [earlyRef]
@[simp] theorem earlyRef_status (sc : Scen) (st : St) (c : Nat) : (earlyRef sc st c).status = st.status := by
  simp [earlyRef]

theorem lookup_spec (sc : Scen) (st : St) (c : Nat) :
    (∃ o, (st.l1 c = some o ∨ (st.l1 c = none ∧ st.l2 c = some o)) ∧ lookup sc st c = .hit o st) ∨
    (st.l1 c = none ∧ st.l2 c = none ∧ st.l3 c = true ∧
      ((sc.fEarly c = true ∧ lookup sc st c = .err (addLog sc st c (.early c))) ∨
       (sc.fEarly c = false ∧ lookup sc st c = .hit (sc.earlyO c) (earlyRef sc st c)))) ∨
    (st.l1 c = none ∧ st.l2 c = none ∧ st.l3 c = false ∧ lookup sc st c = .miss) := by
  unfold lookup
  cases h1 : st.l1 c with
  | some o => exact Or.inl ⟨o, Or.inl rfl, rfl⟩
  | none =>
    cases h2 : st.l2 c with
    | some o => exact Or.inl ⟨o, Or.inr ⟨rfl, rfl⟩, rfl⟩
    | none =>
      cases h3 : st.l3 c with
      | false => exact Or.inr (Or.inr ⟨rfl, rfl, rfl, by simp⟩)
      | true =>
        refine Or.inr (Or.inl ⟨rfl, rfl, rfl, ?_⟩)
        cases h4 : sc.fEarly c with
        | true => exact Or.inl ⟨rfl, by simp⟩
        | false => exact Or.inr ⟨rfl, by simp [earlyRef]⟩

theorem lookup_hit (sc : Scen) (st st' : St) (c : Nat) (o : Obj) (h : lookup sc st c = .hit o st') :
    (st' = st ∧ (st.l1 c = some o ∨ (st.l1 c = none ∧ st.l2 c = some o))) ∨
    (st.l1 c = none ∧ st.l2 c = none ∧ st.l3 c = true ∧ o = sc.earlyO c ∧ st' = earlyRef sc st c) := by
  rcases lookup_spec sc st c with ⟨o1, h1, hl⟩ | ⟨h1, h2, h3, ⟨_, hl⟩ | ⟨_, hl⟩⟩ | ⟨_, _, _, hl⟩
  · rw [hl] at h; injection h with ho hs; subst ho; subst hs; exact Or.inl ⟨rfl, h1⟩
  · rw [hl] at h; cases h
  · rw [hl] at h; injection h with ho hs; subst ho; subst hs; exact Or.inr ⟨h1, h2, h3, rfl, rfl⟩
  · rw [hl] at h; cases h

theorem lookup_err (sc : Scen) (st st' : St) (c : Nat) (h : lookup sc st c = .err st') : Sim st' st := by
  rcases lookup_spec sc st c with ⟨o1, h1, hl⟩ | ⟨h1, h2, h3, ⟨_, hl⟩ | ⟨_, hl⟩⟩ | ⟨_, _, _, hl⟩
  · rw [hl] at h; cases h
  · rw [hl] at h; injection h with hs; subst hs; exact addLog_sim sc st c _
  · rw [hl] at h; cases h
  · rw [hl] at h; cases h

theorem lookup_miss (sc : Scen) (st : St) (c : Nat) (h : lookup sc st c = .miss) :
    st.l1 c = none ∧ st.l2 c = none ∧ st.l3 c = false := by
  rcases lookup_spec sc st c with ⟨o1, h1, hl⟩ | ⟨h1, h2, h3, ⟨_, hl⟩ | ⟨_, hl⟩⟩ | ⟨h1, h2, h3, hl⟩
  · rw [hl] at h; cases h
  · rw [hl] at h; cases h
  · rw [hl] at h; cases h
  · exact ⟨h1, h2, h3⟩

/-- a successful lookup changes nothing but (possibly) l2/l3 of the name looked up, and the log -/
theorem lookup_hit_frame (sc : Scen) (st st' : St) (c : Nat) (o : Obj) (h : lookup sc st c = .hit o st') :
    st'.l1 = st.l1 ∧ st'.stack = st.stack ∧ st'.fields = st.fields ∧ st'.status = st.status := by
  rcases lookup_hit sc st st' c o h with ⟨rfl, _⟩ | ⟨_, _, _, _, rfl⟩
  · exact ⟨rfl, rfl, rfl, rfl⟩
  · simp

/-! ### the version check when a creation finishes (factory.go:222-247) -/

/-- which object `n` is published as, given the cache after the callbacks -/
def PubCond (sc : Scen) (s : St) (n : Nat) (pub : Obj) : Prop :=
  (s.l2 n = none ∧ pub = initResult sc n) ∨
  (∃ e, s.l2 n = some e ∧
    ((initResult sc n = raw n ∧ pub = e) ∨
     (initResult sc n ≠ raw n ∧ finishedHolderHas sc s e = false ∧ pub = initResult sc n)))

/-! ### the transitions -/

inductive Step (sc : Scen) (st : St) : St → Prop
  /-- nothing left to create -/
  | done (hs : st.stack = []) : Step sc st { st with status := .done }
  /-- a top-level GetComponent finds the component in the cache -/
  | topHit (s : St) (n : Nat) (o : Obj) (s' : St) (hs : st.stack = []) (hsim : Sim s st)
      (hl : lookup sc s n = .hit o s') : Step sc st s'
  /-- a candidate of the point being resolved is in the cache (published, or an early reference) -/
  | candHit (f : Frame) (rest : List Frame) (c : Nat) (o : Obj) (s' : St) (hs : st.stack = f :: rest)
      (hl : lookup sc st c = .hit o s') :
      Step sc st { s' with stack := { f with d := f.d + 1, acc := f.acc ++ [o] } :: rest }
  /-- not in the cache: start creating it (which may fail at once) -/
  | miss (s : St) (c : Nat) (hsim : Sim s st) (hl : lookup sc s c = .miss) : Step sc st (enter sc s c)
  /-- any failure: early-reference factory, required point without a usable candidate, callbacks, version check -/
  | fail (s : St) (n : Nat) (hsim : Sim s st) : Step sc st (failAt s n)
  /-- an optional point is left unset -/
  | skip (f : Frame) (rest : List Frame) (hs : st.stack = f :: rest) :
      Step sc st { st with stack := { f with p := f.p + 1, d := 0, acc := [] } :: rest }
  /-- Inject: the field receives (some of) the components obtained for it, never the holder itself -/
  | inject (f : Frame) (rest : List Frame) (v : List Obj) (hs : st.stack = f :: rest)
      (hp : f.p < (pts sc f.name).length) (hv : ∀ o ∈ v, o ∈ f.acc ∧ o.name ≠ f.name) :
      Step sc st { st with fields := upd2 st.fields f.name f.p v,
                           stack := { f with p := f.p + 1, d := 0, acc := [] } :: rest }
  /-- AddSingleton -/
  | publish (f : Frame) (rest : List Frame) (s : St) (pub : Obj) (hs : st.stack = f :: rest) (hsim : Sim s st)
      (hpub : PubCond sc s f.name pub) : Step sc st (publish s f.name pub rest)

theorem step_not_running (sc : Scen) (st : St) (h : st.status ≠ .running) : step sc st = st := by
  unfold step
  split
  · rename_i hr; exact absurd hr h
  · rfl

theorem step_spec (sc : Scen) (st : St) (hr : st.status = .running) : Step sc st (step sc st) := by
  unfold step
  split
  case h_2 hne => exact absurd hr (hne)
  split
  · -- empty stack
    rename_i hs
    split
    · rename_i n t hb
      dsimp only
      have hsim : Sim { st with todoBoot := t, stage := Stage.factory } st := ⟨rfl, rfl, rfl, rfl, rfl, rfl⟩
      split
      · rename_i o s' hl; exact .topHit _ n o s' hs hsim hl
      · rename_i s' hl; exact .fail s' n ((lookup_err sc _ s' n hl).trans hsim)
      · rename_i hl; exact .miss _ n hsim hl
    · split
      · exact .done hs
      · rename_i n t ht
        dsimp only
        have hsim : Sim { st with todo := t, stage := Stage.refresh } st := ⟨rfl, rfl, rfl, rfl, rfl, rfl⟩
        split
        · rename_i o s' hl; exact .topHit _ n o s' hs hsim hl
        · rename_i s' hl; exact .fail s' n ((lookup_err sc _ s' n hl).trans hsim)
        · rename_i hl; exact .miss _ n hsim hl
  · rename_i f rest hs
    dsimp only
    split
    · rename_i hp
      split
      · rename_i hd
        split
        · rename_i o s' hl; exact .candHit f rest _ o s' hs hl
        · rename_i s' hl; exact .fail s' _ (lookup_err sc _ s' _ hl)
        · rename_i hl; exact .miss st _ (Sim.refl st) hl
      · split
        · exact .skip f rest hs
        · split
          · split
            · exact .fail st f.name (Sim.refl st)
            · exact .skip f rest hs
          · split
            · split
              · exact .fail st f.name (Sim.refl st)
              · exact .skip f rest hs
            · refine .inject f rest _ hs hp ?_
              intro o ho
              have hmem : o ∈ f.acc.filter (fun o => o.name != f.name) := by
                split at ho
                · exact ho
                · exact List.mem_of_mem_take ho
              have ⟨hacc, hne⟩ := List.mem_filter.mp hmem
              exact ⟨hacc, by simpa using hne⟩
    · -- the creation finishes
      have hsim : Sim (initCallbacks sc st f.name).1 st := initCallbacks_sim sc st f.name
      generalize (initCallbacks sc st f.name).1 = s at hsim ⊢
      split
      · exact .fail s f.name hsim
      · split
        · rename_i h2
          exact .publish f rest s _ hs hsim (Or.inl ⟨h2, rfl⟩)
        · rename_i e h2
          split
          · rename_i hw
            exact .publish f rest s e hs hsim (Or.inr ⟨e, h2, Or.inl ⟨hw, rfl⟩⟩)
          · rename_i hw
            split
            · exact .fail s f.name hsim
            · rename_i hh
              exact .publish f rest s _ hs hsim (Or.inr ⟨e, h2, Or.inr ⟨hw, by simpa using hh, rfl⟩⟩)

/-! ### frame facts read off the characterisation -/

theorem enter_l1 (sc : Scen) (st : St) (c : Nat) : (enter sc st c).l1 = st.l1 := by
  unfold enter
  split
  · dsimp only
    split
    · split <;> simp [failAt]
    · rfl
  · rfl

theorem enter_fields (sc : Scen) (st : St) (c : Nat) : (enter sc st c).fields = st.fields := by
  unfold enter
  split
  · dsimp only
    split
    · split <;> simp [failAt]
    · rfl
  · rfl

/-- l1 only ever changes by a publication -/
theorem step_l1 (sc : Scen) (st st' : St) (h : Step sc st st') :
    st'.l1 = st.l1 ∨
    ∃ f rest s pub, st.stack = f :: rest ∧ Sim s st ∧ PubCond sc s f.name pub ∧ st' = publish s f.name pub rest := by
  cases h with
  | done hs => exact Or.inl rfl
  | topHit s n o s' hs hsim hl => exact Or.inl ((lookup_hit_frame sc s st' n o hl).1.trans hsim.l1)
  | candHit f rest c o s' hs hl => exact Or.inl (lookup_hit_frame sc st s' c o hl).1
  | miss s c hsim hl => exact Or.inl ((enter_l1 sc s c).trans hsim.l1)
  | fail s n hsim => exact Or.inl hsim.l1
  | skip f rest hs => exact Or.inl rfl
  | inject f rest v hs hp hv => exact Or.inl rfl
  | publish f rest s pub hs hsim hpub => exact Or.inr ⟨f, rest, s, pub, hs, hsim, hpub, rfl⟩

end Ioc.M2
