/-
  `convert`: the document value converted to the field's type, for MATCHING kinds — the specification that
  binding by prefix is compared with (C17_prefix_exact).  Deliberately independent of mapstructure's weak
  conversions: a string only fits a string field, an integer fits the integer kinds and float64, …
-/
import IocProofs.Lemmas.ValueDecode
namespace Ioc.Value

mutual
def convert : FieldTy → Val → FVal
  | .string, v => match v with
    | .str s => .str s
    | _ => .nil
  | .int, v => match v with
    | .int i => .int i
    | _ => .nil
  | .uint, v => match v with
    | .int i => .int i
    | _ => .nil
  | .float, v => match v with
    | .int i => .int (roundF64I i)          -- float64 has 53 bits: the conversion to the field's type rounds
    | .dec t => .dec t
    | _ => .nil
  | .bool, v => match v with
    | .bool b => .bool b
    | _ => .nil
  | .any, v => ofVal v
  | .ptr t, v => .ptr (convert t v)
  | .slice t, v => match v with
    | .list l => .list (l.map (fun x => if x = Val.null then zero t else convert t x))
    | _ => .nil
  | .map t, v => match v with
    | .map m => .map (m.map (fun kv => (kv.1, if kv.2 = Val.null then zero t else convert t kv.2)))
    | _ => .nil
  | .struct fs, v => match v with
    | .map m => .struct (convertFields fs m)
    | _ => .nil
/-- a struct field takes the value stored under exactly its name; without one it keeps its zero value -/
def convertFields : List (Bytes × FieldTy) → List (Bytes × Val) → List (Bytes × FVal)
  | [], _ => []
  | (n, t) :: rest, m =>
    (n, match alookup n m with
        | some v => if v = Val.null then zero t else convert t v
        | none => zero t) :: convertFields rest m
end

mutual
/-- the kinds match (and the integer is in the range of the field) -/
def convertible : FieldTy → Val → Bool
  | .string, v => match v with
    | .str _ => true
    | _ => false
  | .int, v => match v with
    | .int _ => true
    | _ => false
  | .uint, v => match v with
    | .int i => decide (0 ≤ i)
    | _ => false
  | .float, v => match v with
    | .int _ => true
    | .dec _ => true
    | _ => false
  | .bool, v => match v with
    | .bool _ => true
    | _ => false
  | .any, _ => true
  | .ptr t, v => convertible t v
  | .slice t, v => match v with
    | .list l => l.all (fun x => x = Val.null || convertible t x)
    | _ => false
  | .map t, v => match v with
    | .map m => m.all (fun kv => kv.2 = Val.null || convertible t kv.2)
    | _ => false
  | .struct fs, v => match v with
    | .map m => convertibleFields fs m
    | _ => false
def convertibleFields : List (Bytes × FieldTy) → List (Bytes × Val) → Bool
  | [], _ => true
  | (n, t) :: rest, m =>
    (match alookup n m with
     | some v => v = Val.null || convertible t v
     | none => (m.find? (fun kv => lowerEq kv.1 n)).isNone) && convertibleFields rest m
end

theorem mapMExcept_ok {α β : Type} (f : α → Except Err β) (g : α → β) (l : List α) (h : ∀ a ∈ l, f a = .ok (g a)) :
    mapMExcept f l = .ok (l.map g) := by
  induction l with
  | nil => rfl
  | cons a r ih =>
    simp only [mapMExcept, h a (by simp), ih (fun b hb => h b (by simp [hb])), List.map_cons]

mutual
theorem decode_convert : ∀ (ty : FieldTy) (v : Val), convertible ty v = true → decode ty v = .ok (convert ty v)
  | .string, v, h => by cases v <;> simp_all [convertible, decode, decString, convert]
  | .int, v, h => by cases v <;> simp_all [convertible, decode, decInt, convert]
  | .uint, v, h => by
    cases v <;> simp_all [convertible, decode, decUint, convert]
    omega
  | .float, v, h => by cases v <;> simp_all [convertible, decode, decFloat, convert]
  | .bool, v, h => by cases v <;> simp_all [convertible, decode, decBool, convert]
  | .any, v, _ => by simp [decode, convert]
  | .ptr t, v, h => by
    simp only [convertible] at h
    simp only [decode, convert, decode_convert t v h]
  | .slice t, v, h => by
    cases v with
    | list l =>
      simp only [convertible, List.all_eq_true, Bool.or_eq_true, decide_eq_true_eq] at h
      simp only [decode, convert]
      rw [mapMExcept_ok _ (fun x => if x = Val.null then zero t else convert t x)]
      · rfl
      · intro x hx
        by_cases hz : x = .null
        · simp [hz]
        · rcases h x hx with h1 | h1
          · exact absurd h1 hz
          · simp only [hz, if_false, decode_convert t x h1]
    | _ => simp [convertible] at h
  | .map t, v, h => by
    cases v with
    | map m =>
      simp only [convertible, List.all_eq_true, Bool.or_eq_true, decide_eq_true_eq] at h
      simp only [decode, convert]
      rw [mapMExcept_ok _ (fun kv => (kv.1, if kv.2 = Val.null then zero t else convert t kv.2))]
      · rfl
      · intro kv hkv
        by_cases hz : kv.2 = .null
        · simp [hz]
        · rcases h kv hkv with h1 | h1
          · exact absurd h1 hz
          · simp only [hz, if_false, decode_convert t kv.2 h1]
    | _ => simp [convertible] at h
  | .struct fs, v, h => by
    cases v with
    | map m =>
      simp only [convertible] at h
      simp only [decode, convert, decodeFields_convert fs m h]
      rfl
    | _ => simp [convertible] at h
theorem decodeFields_convert : ∀ (fs : List (Bytes × FieldTy)) (m : List (Bytes × Val)), convertibleFields fs m = true →
    decodeFields fs m = .ok (convertFields fs m)
  | [], _, _ => rfl
  | (n, t) :: rest, m, h => by
    simp only [convertibleFields, Bool.and_eq_true] at h
    have hrest := decodeFields_convert rest m h.2
    simp only [decodeFields, convertFields, hrest]
    unfold lookupField
    cases ha : alookup n m with
    | some v =>
      have h1 := h.1
      simp only [ha, Bool.or_eq_true, decide_eq_true_eq] at h1
      by_cases hz : v = .null
      · simp [hz]
      · rcases h1 with h1 | h1
        · exact absurd h1 hz
        · simp only [hz, if_false, decode_convert t v h1]
    | none =>
      have h1 := h.1
      simp only [ha, Option.isNone_iff_eq_none] at h1
      simp [h1]
end

end Ioc.Value
