/-
  Semantic theorems for the REGENERATED Property.Unmarshall, newDecodeConfig, reflectx.SetValue and the small Property
  methods (interpretation: Ioc.SemUnmarshall).
-/
import Ioc.SemUnmarshall
import IocProofs.Lemmas.GoTactics
set_option linter.unusedSimpArgs false
namespace Ioc.Sem
open Ioc Ioc.Go

/-! ### reflectx.SetValue -/

/-- SetValue, regenerated: the setter runs exactly once, on a FRESH zero value (never on what the field holds); when it fails
    its error is returned as it is and the field keeps what it held; when it succeeds the field holds the new value (a pointer
    to it for a pointer-typed field, its contents otherwise) -/
theorem setValue_sem {σ : Type} (isPtr : Bool) (setter : Nat → σ → Option String × σ) (w : SVW σ) :
    run (svPrims isPtr setter) Progs.reflectx_SetValue [.str "value", .str "setter"] w =
      some (encOptErrS (setter w.fresh w.inner).1,
        { cell := if (setter w.fresh w.inner).1.isNone then some (w.fresh, isPtr) else w.cell,
          fresh := w.fresh + 1, inner := (setter w.fresh w.inner).2 }) := by
  cases isPtr <;> cases hs : (setter w.fresh w.inner).1 <;>
    go_simp [Progs.reflectx_SetValue, svPrims, svFn, encOptErrS, hs]

/-! ### newDecodeConfig -/

/-- newDecodeConfig, regenerated: the hooks composed, the result pointer as given, tag name `yaml`, WeaklyTypedInput on, and
    ErrorUnused, ErrorUnset, ZeroFields, Squash, IgnoreUntaggedFields off, no Metadata, no MatchName -/
theorem newDecodeConfig_sem (v hooks : Val) :
    run ndcPrims Progs.prop_newDecodeConfig [v, hooks] () =
      some (.tuple [.str "DecoderConfig", .tuple [.str "compose", hooks], .bool false, .bool false, .bool false, .bool true,
                    .bool false, .nil, v, .str "yaml", .bool false, .nil], ()) := by
  go_simp [Progs.prop_newDecodeConfig, ndcPrims, ndcFn, ndcName]

/-! ### the small methods -/

section small
variable (has : AM → String → List String → Bool) (fmtKey : String → String)

/-- IsRequired: required unless the `required` argument holds the value "false" -/
theorem isRequired_sem (w : PW) :
    run (pmPrims has fmtKey) Progs.prop_IsRequired [] w = some (.bool (!(has w.args "required" ["false"])), w) := by
  go_simp [Progs.prop_IsRequired, pmPrims, pmFn]

/-- SetConfiguration: the value is stored under the path (an earlier value under the same path is replaced) -/
theorem setConfiguration_sem (path : String) (v : Val) (w : PW) :
    run (pmPrims has fmtKey) Progs.prop_SetConfiguration [.str path, v] w =
      some (.tuple [], { w with confs := (path, v) :: w.confs.filter (fun e => e.1 != path) }) := by
  go_simp [Progs.prop_SetConfiguration, pmPrims, pmFn]

/-- Args / SetArg / AddArg go to the property's OWN map -/
theorem args_sem (w : PW) : run (pmPrims has fmtKey) Progs.prop_Args [] w = some (.ref 0 78, w) := by
  go_simp [Progs.prop_Args, pmPrims, pmFn]

theorem setArg_sem (k : String) (vs : List String) (w : PW) :
    run (pmPrims has fmtKey) Progs.prop_SetArg [.str k, strsVal vs] w =
      some (.tuple [], { w with args := if k = "" then w.args else amSet (fmtKey k) vs w.args }) := by
  go_simp [Progs.prop_SetArg, pmPrims, pmFn, strsVal, valStrs_map]

theorem addArg_sem (k : String) (vs : List String) (w : PW) :
    run (pmPrims has fmtKey) Progs.prop_AddArg [.str k, strsVal vs] w =
      some (.tuple [], { w with args := if k = "" then w.args else amSet (fmtKey k) ((amGet (fmtKey k) w.args).getD [] ++ vs) w.args }) := by
  go_simp [Progs.prop_AddArg, pmPrims, pmFn, strsVal, valStrs_map]
end small

/-! ### Property.Unmarshall -/

section unmarshall
variable (p : UMP)

/-- a property that is not a Configuration property refuses, and nothing is decoded or written -/
theorem unmarshall_notConf (cv : Val) (w : UW) (h : p.isConf = false) :
    run (umPrims p) Progs.prop_Unmarshall [cv] w = some (.str "not allowed to unmarshall", w) := by
  go_simp [Progs.prop_Unmarshall, umPrims, umFn, h]

/-- a nil configuration value: nothing is decoded, the field is not written, no error -/
theorem unmarshall_nil (w : UW) (h : p.isConf = true) :
    run (umPrims p) Progs.prop_Unmarshall [.nil] w = some (.nil, w) := by
  go_simp [Progs.prop_Unmarshall, umPrims, umFn, h]

/-- `timeLayout` / `mapper`, when present, have a first value (TagArg.Parse stores at least `[""]` for an argument) -/
def UMP.argsOk (p : UMP) : Prop :=
  (p.timeLayout = none ∨ ∃ l ls, p.timeLayout = some (l :: ls)) ∧ (p.mapper = none ∨ ∃ t ts, p.mapper = some (t :: ts))

set_option maxHeartbeats 1600000 in
theorem unmarshall_value (w : UW) (h : p.isConf = true) (ha : p.argsOk) :
    run (umPrims p) Progs.prop_Unmarshall [.ref 0 72] w =
      some (encOptErrS (unmarshallS p w).1, (unmarshallS p w).2) := by
  obtain ⟨htl, hmp⟩ := ha
  rcases htl with htl | ⟨l, ls, htl⟩ <;> rcases hmp with hmp | ⟨t, ts, hmp⟩
  all_goals
    cases hn : p.newDecoderErr (unmarshallCfg p) with
    | some e =>
      simp only [unmarshallCfg, htl, hmp] at hn
      go_simp [Progs.prop_Unmarshall, umPrims, umFn, umHfn, h, htl, hmp, findVal, strsVal, valStrs, unmarshallS, unmarshallCfg, hn,
        encOptErrS]
    | none =>
      cases hd : p.decodeErr (unmarshallCfg p) with
      | some e =>
        simp only [unmarshallCfg, htl, hmp] at hn hd
        go_simp [Progs.prop_Unmarshall, umPrims, umFn, umHfn, h, htl, hmp, findVal, strsVal, valStrs, unmarshallS, unmarshallCfg, hn, hd,
          encOptErrS]
      | none =>
        simp only [unmarshallCfg, htl, hmp] at hn hd
        go_simp [Progs.prop_Unmarshall, umPrims, umFn, umHfn, h, htl, hmp, findVal, strsVal, valStrs, unmarshallS, unmarshallCfg, hn, hd,
          encOptErrS]

end unmarshall

end Ioc.Sem
