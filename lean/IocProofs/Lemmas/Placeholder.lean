/-
  Lemmas for C16 (placeholders): the scanner finds the leftmost match, strings.Replace rewrites that very
  occurrence, the bounded loop stops, brace-free replacements need no bound, structured tags evaluate innermost first.
-/
import Ioc.Placeholder
namespace Ioc.Placeholder

/-! ### brace-freeness -/

theorem braceFree_nil : braceFree [] = true := rfl

theorem braceFree_cons (x : UInt8) (s : Bytes) :
    braceFree (x :: s) = ((x != 123 && x != 125) && braceFree s) := by
  simp [braceFree]

theorem braceFree_append (a b : Bytes) : braceFree (a ++ b) = (braceFree a && braceFree b) := by
  simp [braceFree, List.all_append]

theorem braceFree_not_mem {s : Bytes} (h : braceFree s = true) : (123 : UInt8) ∉ s ∧ (125 : UInt8) ∉ s := by
  induction s with
  | nil => simp
  | cons x rest ih =>
    rw [braceFree_cons] at h
    simp only [Bool.and_eq_true, bne_iff_ne, ne_eq] at h
    obtain ⟨⟨h1, h2⟩, h3⟩ := h
    have := ih h3
    constructor
    · simp [Ne.symm h1, this.1]
    · simp [Ne.symm h2, this.2]

/-! ### the scanner -/

theorem scanBody_some : ∀ (s c a : Bytes), scanBody s = some (c, a) → s = c ++ 125 :: a ∧ braceFree c = true
  | [], c, a, h => by simp [scanBody] at h
  | x :: rest, c, a, h => by
    simp only [scanBody] at h
    by_cases h1 : x = 125
    · simp only [h1, if_true, Option.some.injEq, Prod.mk.injEq] at h
      obtain ⟨rfl, rfl⟩ := h
      simp [h1, braceFree]
    · by_cases h2 : x = 123
      · simp [h2] at h
      · simp only [h1, h2, if_false] at h
        cases hr : scanBody rest with
        | none => simp [hr] at h
        | some p =>
          obtain ⟨b, a'⟩ := p
          simp only [hr, Option.some.injEq, Prod.mk.injEq] at h
          obtain ⟨rfl, rfl⟩ := h
          obtain ⟨e, bf⟩ := scanBody_some rest b a' hr
          constructor
          · simp [e]
          · rw [braceFree_cons]; simp [h1, h2, bf]

theorem scanBody_of : ∀ (c a : Bytes), braceFree c = true → scanBody (c ++ 125 :: a) = some (c, a)
  | [], a, _ => by simp [scanBody]
  | x :: c, a, h => by
    rw [braceFree_cons] at h
    simp only [Bool.and_eq_true, bne_iff_ne, ne_eq] at h
    obtain ⟨⟨h1, h2⟩, h3⟩ := h
    simp [scanBody, h1, h2, scanBody_of c a h3]

theorem matchText_append (c post : Bytes) : matchText c ++ post = 36 :: 123 :: (c ++ 125 :: post) := by
  simp [matchText]

theorem tryHere_some {s c a : Bytes} (h : tryHere s = some (c, a)) : s = matchText c ++ a ∧ braceFree c = true := by
  match s, h with
  | x :: y :: body, h =>
    simp only [tryHere] at h
    split at h
    · rename_i hxy
      obtain ⟨e, bf⟩ := scanBody_some body c a h
      exact ⟨by rw [matchText_append, hxy.1, hxy.2, e], bf⟩
    · simp at h
  | [_], h => simp [tryHere] at h
  | [], h => simp [tryHere] at h

theorem tryHere_of (c a : Bytes) (h : braceFree c = true) : tryHere (matchText c ++ a) = some (c, a) := by
  rw [matchText_append]
  simp [tryHere, scanBody_of c a h]

/-- no match starts inside `pre` (whatever position), given what follows it -/
def NoMatchBefore (pre rest : Bytes) : Prop :=
  ∀ p q, pre = p ++ q → q ≠ [] → tryHere (q ++ rest) = none

theorem findFirst_some : ∀ (s pre c post : Bytes), findFirst s = some (pre, c, post) →
    s = pre ++ matchText c ++ post ∧ braceFree c = true ∧ NoMatchBefore pre (matchText c ++ post)
  | [], _, _, _, h => by simp [findFirst] at h
  | x :: rest, pre, c, post, h => by
    simp only [findFirst] at h
    cases ht : tryHere (x :: rest) with
    | some p =>
      obtain ⟨content, after⟩ := p
      simp only [ht, Option.some.injEq, Prod.mk.injEq] at h
      obtain ⟨rfl, rfl, rfl⟩ := h
      obtain ⟨e, bf⟩ := tryHere_some ht
      refine ⟨by simpa using e, bf, ?_⟩
      intro p q hpq hq
      have : q = [] := by
        cases p with
        | nil => simpa using hpq.symm
        | cons _ _ => simp at hpq
      exact absurd this hq
    | none =>
      simp only [ht] at h
      cases hr : findFirst rest with
      | none => simp [hr] at h
      | some t =>
        obtain ⟨pre', c', post'⟩ := t
        simp only [hr, Option.some.injEq, Prod.mk.injEq] at h
        obtain ⟨rfl, rfl, rfl⟩ := h
        obtain ⟨e, bf, nm⟩ := findFirst_some rest pre' c' post' hr
        refine ⟨by simp [e], bf, ?_⟩
        intro p q hpq hq
        cases p with
        | nil =>
          simp only [List.nil_append] at hpq
          subst hpq
          have : (x :: pre') ++ (matchText c' ++ post') = x :: rest := by simp [e]
          rw [this]; exact ht
        | cons y p' =>
          simp only [List.cons_append, List.cons.injEq] at hpq
          exact nm p' q hpq.2 hq

theorem stripPrefix_append : ∀ (p a : Bytes), stripPrefix p (p ++ a) = some a
  | [], a => by cases a <;> simp [stripPrefix]
  | x :: p, a => by simp [stripPrefix, stripPrefix_append p a]

theorem stripPrefix_some : ∀ (p s a : Bytes), stripPrefix p s = some a → s = p ++ a
  | [], s, a, h => by cases s <;> simp_all [stripPrefix]
  | _ :: _, [], a, h => by simp [stripPrefix] at h
  | x :: p, y :: s, a, h => by
    simp only [stripPrefix] at h
    split at h
    · rename_i hxy; subst hxy
      simp [stripPrefix_some p s a h]
    · simp at h

/-- strings.Replace(s, elr, r, 1) hits the regexp match itself: the first occurrence of the matched TEXT cannot lie
    before the leftmost match, because every occurrence of that text is a match -/
theorem replaceFirst_leftmost (c r post : Bytes) (bf : braceFree c = true) :
    ∀ (pre : Bytes), NoMatchBefore pre (matchText c ++ post) →
      replaceFirst (matchText c) r (pre ++ matchText c ++ post) = pre ++ r ++ post
  | [], _ => by
    have e : ([] : Bytes) ++ matchText c ++ post = 36 :: 123 :: (c ++ 125 :: post) := by simp [matchText]
    rw [e]
    simp only [replaceFirst]
    rw [← matchText_append, stripPrefix_append]
    simp
  | x :: pre, nm => by
    have hnone : stripPrefix (matchText c) (x :: pre ++ matchText c ++ post) = none := by
      cases hs : stripPrefix (matchText c) (x :: pre ++ matchText c ++ post) with
      | none => rfl
      | some a =>
        have e := stripPrefix_some _ _ _ hs
        have h1 := tryHere_of c a bf
        rw [← e] at h1
        have h2 := nm [] (x :: pre) (by simp) (by simp)
        simp only [List.append_assoc] at h1 h2
        rw [h2] at h1
        simp at h1
    have e : (x :: pre) ++ matchText c ++ post = x :: (pre ++ matchText c ++ post) := by simp
    rw [e]
    simp only [replaceFirst]
    have e2 : x :: (pre ++ matchText c ++ post) = x :: pre ++ matchText c ++ post := by simp
    rw [e2, hnone]
    have nm' : NoMatchBefore pre (matchText c ++ post) := by
      intro p q hpq hq
      exact nm (x :: p) q (by simp [hpq]) hq
    have ih := replaceFirst_leftmost c r post bf pre nm'
    simp only [List.append_assoc] at ih
    simp [ih]

theorem scanBody_open : ∀ (m rest : Bytes), (125 : UInt8) ∉ m → scanBody (m ++ 36 :: 123 :: rest) = none
  | [], rest, _ => by simp [scanBody]
  | x :: m, rest, h => by
    simp only [List.mem_cons, not_or] at h
    have hx : x ≠ 125 := fun e => h.1 e.symm
    simp only [List.cons_append, scanBody, hx, if_false]
    by_cases h2 : x = 123
    · simp [h2]
    · simp [h2, scanBody_open m rest h.2]

theorem tryHere_open (l rest : Bytes) (h : (125 : UInt8) ∉ l) (hl : l ≠ []) :
    tryHere (l ++ 36 :: 123 :: rest) = none := by
  match l, h, hl with
  | [x], _, _ => simp [tryHere]
  | x :: y :: m, h, _ =>
    simp only [List.mem_cons, not_or] at h
    simp only [List.cons_append, tryHere]
    split
    · exact scanBody_open m rest h.2.2
    · rfl

/-- text without `}` in front of a match cannot hold an earlier match: the match is found where it stands -/
theorem findFirst_skip (c post : Bytes) (bf : braceFree c = true) :
    ∀ (l : Bytes), (125 : UInt8) ∉ l → findFirst (l ++ matchText c ++ post) = some (l, c, post)
  | [], _ => by
    have e : ([] : Bytes) ++ matchText c ++ post = 36 :: 123 :: (c ++ 125 :: post) := by simp [matchText]
    rw [e]
    simp only [findFirst]
    rw [← matchText_append, tryHere_of c post bf]
  | x :: l, h => by
    have h' : (125 : UInt8) ∉ l := fun hm => h (List.mem_cons_of_mem _ hm)
    have e : (x :: l) ++ matchText c ++ post = x :: (l ++ matchText c ++ post) := by simp
    rw [e]
    simp only [findFirst]
    have e2 : x :: (l ++ matchText c ++ post) = (x :: l) ++ 36 :: 123 :: (c ++ 125 :: post) := by
      simp [matchText]
    rw [e2, tryHere_open (x :: l) _ h (by simp)]
    have ih := findFirst_skip c post bf l h'
    simp only [List.append_assoc] at ih
    simp [ih]

theorem tryHere_none_of_no_open : ∀ (s : Bytes), (123 : UInt8) ∉ s → tryHere s = none
  | [], _ => rfl
  | [_], _ => rfl
  | x :: y :: rest, h => by
    simp only [List.mem_cons, not_or] at h
    simp only [tryHere]
    split
    · rename_i hxy; exact absurd hxy.2.symm h.2.1
    · rfl

theorem findFirst_none_of_no_open : ∀ (s : Bytes), (123 : UInt8) ∉ s → findFirst s = none
  | [], _ => rfl
  | x :: rest, h => by
    have h' : (123 : UInt8) ∉ rest := fun hm => h (List.mem_cons_of_mem _ hm)
    simp [findFirst, tryHere_none_of_no_open (x :: rest) h, findFirst_none_of_no_open rest h']

theorem findFirst_none_of_braceFree (s : Bytes) (h : braceFree s = true) : findFirst s = none :=
  findFirst_none_of_no_open s (braceFree_not_mem h).1

/-! ### the loop -/

theorem boundCond_false (bound : Option Nat) (round : Nat) (hb : ∀ b, bound = some b → round < b) :
    (match bound with | some b => decide (round ≥ b) | none => false) = false := by
  cases bound with
  | none => rfl
  | some b => have := hb b rfl; simp; omega

/-- one round of ReplaceAllContent: the leftmost match is replaced in place -/
theorem loopF_step (f : Bytes → StepRes) (bound : Option Nat) (fuel round : Nat) (s pre c post r : Bytes)
    (hf : findFirst s = some (pre, c, post)) (hb : ∀ b, bound = some b → round < b) (hr : f c = .ok r) :
    loopF f bound (fuel + 1) round s = loopF f bound fuel (round + 1) (pre ++ r ++ post) := by
  obtain ⟨e, bf, nm⟩ := findFirst_some s pre c post hf
  have hc := boundCond_false bound round hb
  simp only [loopF, hf, hc, hr, Bool.false_eq_true, if_false]
  rw [e, replaceFirst_leftmost c r post bf pre nm]

/-- with a bound the loop always stops: a value or an error after at most b+1 rounds, whatever the callback does -/
theorem loopF_terminates (f : Bytes → StepRes) (b : Nat) :
    ∀ (fuel round : Nat) (s : Bytes), round ≤ b + 1 → b + 2 - round ≤ fuel →
      loopF f (some b) fuel round s ≠ Res.outOfFuel := by
  intro fuel
  induction fuel with
  | zero => intro round s h1 h2; omega
  | succ fuel ih =>
    intro round s h1 h2
    simp only [loopF]
    cases hff : findFirst s with
    | none => simp
    | some t =>
      obtain ⟨pre, content, after⟩ := t
      simp only
      by_cases hb : round ≥ b
      · simp [hb]
      · simp only [hb, decide_false, Bool.false_eq_true, if_false]
        cases hr : f content with
        | err => simp
        | panic => simp
        | opaque => simp
        | ok r => simp only; exact ih (round + 1) _ (by omega) (by omega)

theorem loopF_value_no_match (f : Bytes → StepRes) (bound : Option Nat) :
    ∀ (fuel round : Nat) (s r : Bytes), loopF f bound fuel round s = .value r → findFirst r = none := by
  intro fuel
  induction fuel with
  | zero => intro round s r h; simp [loopF] at h
  | succ fuel ih =>
    intro round s r h
    simp only [loopF] at h
    cases hff : findFirst s with
    | none => simp only [hff, Res.value.injEq] at h; subst h; exact hff
    | some t =>
      obtain ⟨pre, content, after⟩ := t
      simp only [hff] at h
      split at h
      · simp at h
      · cases hr : f content with
        | err => simp [hr] at h
        | panic => simp [hr] at h
        | opaque => simp [hr] at h
        | ok x => simp only [hr] at h; exact ih _ _ _ h

theorem count_zero_of_not_mem {s : Bytes} {x : UInt8} (h : x ∉ s) : s.count x = 0 :=
  List.count_eq_zero.mpr h

theorem count_open_step (pre c r post : Bytes) (bfc : braceFree c = true) (bfr : braceFree r = true) :
    (pre ++ r ++ post).count 123 + 1 = (pre ++ matchText c ++ post).count 123 := by
  have h1 := count_zero_of_not_mem (braceFree_not_mem bfc).1
  have h2 := count_zero_of_not_mem (braceFree_not_mem bfr).1
  simp [List.count_append, matchText, List.count_cons, h1, h2]
  omega

/-- replacements without braces: every round removes one `{`, so the loop needs no bound -/
theorem loopF_safe (f : Bytes → StepRes) (hf : ∀ c r, braceFree c = true → f c = .ok r → braceFree r = true) :
    ∀ (fuel round : Nat) (s : Bytes), s.count 123 < fuel → loopF f none fuel round s ≠ Res.outOfFuel := by
  intro fuel
  induction fuel with
  | zero => intro round s h; omega
  | succ fuel ih =>
    intro round s h
    cases hff : findFirst s with
    | none => simp [loopF, hff]
    | some t =>
      obtain ⟨pre, c, post⟩ := t
      obtain ⟨e, bf, _⟩ := findFirst_some s pre c post hff
      cases hr : f c with
      | err => simp [loopF, hff, hr]
      | panic => simp [loopF, hff, hr]
      | opaque => simp [loopF, hff, hr]
      | ok r =>
        rw [loopF_step f none fuel round s pre c post r hff (by simp) hr]
        have := count_open_step pre c r post bf (hf c r bf hr)
        rw [← e] at this
        exact ih _ _ (by omega)

/-- … and the bound, if it is at least the number of `{`, never fires -/
theorem loopF_bound_irrelevant (f : Bytes → StepRes)
    (hf : ∀ c r, braceFree c = true → f c = .ok r → braceFree r = true) (b : Nat) :
    ∀ (fuel round : Nat) (s : Bytes), s.count 123 + round ≤ b →
      loopF f (some b) fuel round s = loopF f none fuel round s := by
  intro fuel
  induction fuel with
  | zero => intro round s _; rfl
  | succ fuel ih =>
    intro round s h
    cases hff : findFirst s with
    | none => simp [loopF, hff]
    | some t =>
      obtain ⟨pre, c, post⟩ := t
      obtain ⟨e, bf, _⟩ := findFirst_some s pre c post hff
      have hpos : 0 < s.count 123 := by
        rw [e]; simp [List.count_append, matchText, List.count_cons]; omega
      have hlt : ¬ round ≥ b := by omega
      cases hr : f c with
      | err => simp [loopF, hff, hr, hlt]
      | panic => simp [loopF, hff, hr, hlt]
      | opaque => simp [loopF, hff, hr, hlt]
      | ok r =>
        rw [loopF_step f (some b) fuel round s pre c post r hff (by intro b' hb'; cases hb'; omega) hr,
            loopF_step f none fuel round s pre c post r hff (by simp) hr]
        have := count_open_step pre c r post bf (hf c r bf hr)
        rw [← e] at this
        exact ih _ _ (by omega)

/-! ### the self-referencing configuration  a: "${a}" -/

def selfCfg : Cfg := [(ofString "a", .str (ofString "${a}"))]
def selfTag : Bytes := ofString "${a}"

theorem self_find : findFirst selfTag = some ([], ofString "a", []) := by decide +kernel
theorem self_repl : repl selfCfg (ofString "a") = .ok selfTag := by decide +kernel

theorem self_step (bound : Option Nat) (fuel round : Nat) (hb : ∀ b, bound = some b → round < b) :
    loopF (repl selfCfg) bound (fuel + 1) round selfTag = loopF (repl selfCfg) bound fuel (round + 1) selfTag := by
  rw [loopF_step (repl selfCfg) bound fuel round selfTag [] (ofString "a") [] selfTag self_find hb self_repl]
  simp

theorem self_errors (b : Nat) : ∀ (fuel round : Nat), round ≤ b → b - round < fuel →
    loopF (repl selfCfg) (some b) fuel round selfTag = .error := by
  intro fuel
  induction fuel with
  | zero => intro round _ h; omega
  | succ fuel ih =>
    intro round h1 h2
    by_cases hb : round ≥ b
    · simp [loopF, self_find, hb]
    · rw [self_step (some b) fuel round (by intro b' hb'; cases hb'; omega)]
      exact ih (round + 1) (by omega) (by omega)

theorem self_diverges : ∀ (fuel round : Nat), loopF (repl selfCfg) none fuel round selfTag = .outOfFuel := by
  intro fuel
  induction fuel with
  | zero => intro _; rfl
  | succ fuel ih => intro round; rw [self_step none fuel round (by simp)]; exact ih _

end Ioc.Placeholder
