/-
  Lemmas for C16 (placeholders): the scanner finds the leftmost match, strings.Replace rewrites that very
  occurrence, the bounded loop stops, brace-free replacements need no bound, structured tags evaluate innermost first.
-/
import Ioc.Placeholder
namespace Ioc.Placeholder

/-! ### brace-freeness -/

theorem braceFree_nil : braceFree [] = true := rfl

theorem braceFree_cons (x : UInt8) (s : Bytes) :
    braceFree (x :: s) = ((x != 123 && x != 125) && braceFree s) := by
  simp [braceFree]

theorem braceFree_append (a b : Bytes) : braceFree (a ++ b) = (braceFree a && braceFree b) := by
  simp [braceFree, List.all_append]

theorem braceFree_not_mem {s : Bytes} (h : braceFree s = true) : (123 : UInt8) ∉ s ∧ (125 : UInt8) ∉ s := by
  induction s with
  | nil => simp
  | cons x rest ih =>
    rw [braceFree_cons] at h
    simp only [Bool.and_eq_true, bne_iff_ne, ne_eq] at h
    obtain ⟨⟨h1, h2⟩, h3⟩ := h
    have := ih h3
    constructor
    · simp [Ne.symm h1, this.1]
    · simp [Ne.symm h2, this.2]

/-! ### the scanner -/

theorem scanBody_some : ∀ (s c a : Bytes), scanBody s = some (c, a) → s = c ++ 125 :: a ∧ braceFree c = true
  | [], c, a, h => by simp [scanBody] at h
  | x :: rest, c, a, h => by
    simp only [scanBody] at h
    by_cases h1 : x = 125
    · simp only [h1, if_true, Option.some.injEq, Prod.mk.injEq] at h
      obtain ⟨rfl, rfl⟩ := h
      simp [h1, braceFree]
    · by_cases h2 : x = 123
      · simp [h2] at h
      · simp only [h1, h2, if_false] at h
        cases hr : scanBody rest with
        | none => simp [hr] at h
        | some p =>
          obtain ⟨b, a'⟩ := p
          simp only [hr, Option.some.injEq, Prod.mk.injEq] at h
          obtain ⟨rfl, rfl⟩ := h
          obtain ⟨e, bf⟩ := scanBody_some rest b a' hr
          constructor
          · simp [e]
          · rw [braceFree_cons]; simp [h1, h2, bf]

theorem scanBody_of : ∀ (c a : Bytes), braceFree c = true → scanBody (c ++ 125 :: a) = some (c, a)
  | [], a, _ => by simp [scanBody]
  | x :: c, a, h => by
    rw [braceFree_cons] at h
    simp only [Bool.and_eq_true, bne_iff_ne, ne_eq] at h
    obtain ⟨⟨h1, h2⟩, h3⟩ := h
    simp [scanBody, h1, h2, scanBody_of c a h3]

theorem matchText_append (c post : Bytes) : matchText c ++ post = 36 :: 123 :: (c ++ 125 :: post) := by
  simp [matchText]

theorem tryHere_some {s c a : Bytes} (h : tryHere s = some (c, a)) : s = matchText c ++ a ∧ braceFree c = true := by
  match s, h with
  | x :: y :: body, h =>
    simp only [tryHere] at h
    split at h
    · rename_i hxy
      obtain ⟨e, bf⟩ := scanBody_some body c a h
      exact ⟨by rw [matchText_append, hxy.1, hxy.2, e], bf⟩
    · simp at h
  | [_], h => simp [tryHere] at h
  | [], h => simp [tryHere] at h

theorem tryHere_of (c a : Bytes) (h : braceFree c = true) : tryHere (matchText c ++ a) = some (c, a) := by
  rw [matchText_append]
  simp [tryHere, scanBody_of c a h]

/-- no match starts inside `pre` (whatever position), given what follows it -/
def NoMatchBefore (pre rest : Bytes) : Prop :=
  ∀ p q, pre = p ++ q → q ≠ [] → tryHere (q ++ rest) = none

theorem findFirst_some : ∀ (s pre c post : Bytes), findFirst s = some (pre, c, post) →
    s = pre ++ matchText c ++ post ∧ braceFree c = true ∧ NoMatchBefore pre (matchText c ++ post)
  | [], _, _, _, h => by simp [findFirst] at h
  | x :: rest, pre, c, post, h => by
    simp only [findFirst] at h
    cases ht : tryHere (x :: rest) with
    | some p =>
      obtain ⟨content, after⟩ := p
      simp only [ht, Option.some.injEq, Prod.mk.injEq] at h
      obtain ⟨rfl, rfl, rfl⟩ := h
      obtain ⟨e, bf⟩ := tryHere_some ht
      refine ⟨by simpa using e, bf, ?_⟩
      intro p q hpq hq
      have : q = [] := by
        cases p with
        | nil => simpa using hpq.symm
        | cons _ _ => simp at hpq
      exact absurd this hq
    | none =>
      simp only [ht] at h
      cases hr : findFirst rest with
      | none => simp [hr] at h
      | some t =>
        obtain ⟨pre', c', post'⟩ := t
        simp only [hr, Option.some.injEq, Prod.mk.injEq] at h
        obtain ⟨rfl, rfl, rfl⟩ := h
        obtain ⟨e, bf, nm⟩ := findFirst_some rest pre' c' post' hr
        refine ⟨by simp [e], bf, ?_⟩
        intro p q hpq hq
        cases p with
        | nil =>
          simp only [List.nil_append] at hpq
          subst hpq
          have : (x :: pre') ++ (matchText c' ++ post') = x :: rest := by simp [e]
          rw [this]; exact ht
        | cons y p' =>
          simp only [List.cons_append, List.cons.injEq] at hpq
          exact nm p' q hpq.2 hq

theorem stripPrefix_append : ∀ (p a : Bytes), stripPrefix p (p ++ a) = some a
  | [], a => by cases a <;> simp [stripPrefix]
  | x :: p, a => by simp [stripPrefix, stripPrefix_append p a]

theorem stripPrefix_some : ∀ (p s a : Bytes), stripPrefix p s = some a → s = p ++ a
  | [], s, a, h => by cases s <;> simp_all [stripPrefix]
  | _ :: _, [], a, h => by simp [stripPrefix] at h
  | x :: p, y :: s, a, h => by
    simp only [stripPrefix] at h
    split at h
    · rename_i hxy; subst hxy
      simp [stripPrefix_some p s a h]
    · simp at h

/-- strings.Replace(s, elr, r, 1) hits the regexp match itself: the first occurrence of the matched TEXT cannot lie
    before the leftmost match, because every occurrence of that text is a match -/
theorem replaceFirst_leftmost (c r post : Bytes) (bf : braceFree c = true) :
    ∀ (pre : Bytes), NoMatchBefore pre (matchText c ++ post) →
      replaceFirst (matchText c) r (pre ++ matchText c ++ post) = pre ++ r ++ post
  | [], _ => by
    have e : ([] : Bytes) ++ matchText c ++ post = 36 :: 123 :: (c ++ 125 :: post) := by simp [matchText]
    rw [e]
    simp only [replaceFirst]
    rw [← matchText_append, stripPrefix_append]
    simp
  | x :: pre, nm => by
    have hnone : stripPrefix (matchText c) (x :: pre ++ matchText c ++ post) = none := by
      cases hs : stripPrefix (matchText c) (x :: pre ++ matchText c ++ post) with
      | none => rfl
      | some a =>
        have e := stripPrefix_some _ _ _ hs
        have h1 := tryHere_of c a bf
        rw [← e] at h1
        have h2 := nm [] (x :: pre) (by simp) (by simp)
        simp only [List.append_assoc] at h1 h2
        rw [h2] at h1
        simp at h1
    have e : (x :: pre) ++ matchText c ++ post = x :: (pre ++ matchText c ++ post) := by simp
    rw [e]
    simp only [replaceFirst]
    have e2 : x :: (pre ++ matchText c ++ post) = x :: pre ++ matchText c ++ post := by simp
    rw [e2, hnone]
    have nm' : NoMatchBefore pre (matchText c ++ post) := by
      intro p q hpq hq
      exact nm (x :: p) q (by simp [hpq]) hq
    have ih := replaceFirst_leftmost c r post bf pre nm'
    simp only [List.append_assoc] at ih
    simp [ih]

theorem scanBody_open : ∀ (m rest : Bytes), (125 : UInt8) ∉ m → scanBody (m ++ 36 :: 123 :: rest) = none
  | [], rest, _ => by simp [scanBody]
  | x :: m, rest, h => by
    simp only [List.mem_cons, not_or] at h
    have hx : x ≠ 125 := fun e => h.1 e.symm
    simp only [List.cons_append, scanBody, hx, if_false]
    by_cases h2 : x = 123
    · simp [h2]
    · simp [h2, scanBody_open m rest h.2]

theorem tryHere_open (l rest : Bytes) (h : (125 : UInt8) ∉ l) (hl : l ≠ []) :
    tryHere (l ++ 36 :: 123 :: rest) = none := by
  match l, h, hl with
  | [x], _, _ => simp [tryHere]
  | x :: y :: m, h, _ =>
    simp only [List.mem_cons, not_or] at h
    simp only [List.cons_append, tryHere]
    split
    · exact scanBody_open m rest h.2.2
    · rfl

/-- text without `}` in front of a match cannot hold an earlier match: the match is found where it stands -/
theorem findFirst_skip (c post : Bytes) (bf : braceFree c = true) :
    ∀ (l : Bytes), (125 : UInt8) ∉ l → findFirst (l ++ matchText c ++ post) = some (l, c, post)
  | [], _ => by
    have e : ([] : Bytes) ++ matchText c ++ post = 36 :: 123 :: (c ++ 125 :: post) := by simp [matchText]
    rw [e]
    simp only [findFirst]
    rw [← matchText_append, tryHere_of c post bf]
  | x :: l, h => by
    have h' : (125 : UInt8) ∉ l := fun hm => h (List.mem_cons_of_mem _ hm)
    have e : (x :: l) ++ matchText c ++ post = x :: (l ++ matchText c ++ post) := by simp
    rw [e]
    simp only [findFirst]
    have e2 : x :: (l ++ matchText c ++ post) = (x :: l) ++ 36 :: 123 :: (c ++ 125 :: post) := by
      simp [matchText]
    rw [e2, tryHere_open (x :: l) _ h (by simp)]
    have ih := findFirst_skip c post bf l h'
    simp only [List.append_assoc] at ih
    simp [ih]

theorem tryHere_none_of_no_open : ∀ (s : Bytes), (123 : UInt8) ∉ s → tryHere s = none
  | [], _ => rfl
  | [_], _ => rfl
  | x :: y :: rest, h => by
    simp only [List.mem_cons, not_or] at h
    simp only [tryHere]
    split
    · rename_i hxy; exact absurd hxy.2.symm h.2.1
    · rfl

theorem findFirst_none_of_no_open : ∀ (s : Bytes), (123 : UInt8) ∉ s → findFirst s = none
  | [], _ => rfl
  | x :: rest, h => by
    have h' : (123 : UInt8) ∉ rest := fun hm => h (List.mem_cons_of_mem _ hm)
    simp [findFirst, tryHere_none_of_no_open (x :: rest) h, findFirst_none_of_no_open rest h']

theorem findFirst_none : ∀ (s : Bytes), findFirst s = none → ∀ p q, s = p ++ q → tryHere q = none
  | [], _, p, q, e => by
    have : q = [] := (List.append_eq_nil_iff.mp e.symm).2
    subst this; rfl
  | x :: rest, h, p, q, e => by
    simp only [findFirst] at h
    cases ht : tryHere (x :: rest) with
    | some t => simp [ht] at h
    | none =>
      simp only [ht] at h
      cases hr : findFirst rest with
      | some t => obtain ⟨a, b, c⟩ := t; simp [hr] at h
      | none =>
        cases p with
        | nil => simp only [List.nil_append] at e; rw [← e]; exact ht
        | cons y p' =>
          simp only [List.cons_append, List.cons.injEq] at e
          exact findFirst_none rest hr p' q e.2

theorem findFirst_none_of_braceFree (s : Bytes) (h : braceFree s = true) : findFirst s = none :=
  findFirst_none_of_no_open s (braceFree_not_mem h).1

/-! ### the callback: configured value if present, else the default -/

theorem splitColon_key : ∀ (k : Bytes), (58 : UInt8) ∉ k → splitColon k = (k, none)
  | [], _ => rfl
  | x :: k, h => by
    simp only [List.mem_cons, not_or] at h
    have hx : x ≠ 58 := fun e => h.1 e.symm
    simp [splitColon, hx, splitColon_key k h.2]

theorem splitColon_key_default : ∀ (k d : Bytes), (58 : UInt8) ∉ k → splitColon (k ++ 58 :: d) = (k, some d)
  | [], d, _ => by simp [splitColon]
  | x :: k, d, h => by
    simp only [List.mem_cons, not_or] at h
    have hx : x ≠ 58 := fun e => h.1 e.symm
    simp [splitColon, hx, splitColon_key_default k d h.2]

theorem repl_present (cfg : Cfg) (content key : Bytes) (dflt : Option Bytes) (v : CVal)
    (hs : splitColon content = (key, dflt)) (hg : get cfg key = .val (some v)) (hp : isAbsent (some v) = false) :
    repl cfg content = .ok (format v) := by
  simp only [repl, hs, hg, hp]
  cases v <;> simp_all [formatOpt, isAbsent]

theorem repl_absent (cfg : Cfg) (content key : Bytes) (dflt : Option Bytes) (v : Option CVal)
    (hs : splitColon content = (key, dflt)) (hg : get cfg key = .val v) (ha : isAbsent v = true) :
    repl cfg content = defaultAnswer dflt := by
  simp only [repl, hs, hg, ha, if_true]

/-- a default that is none of: true/false, number, map/slice literal, quoted -/
def plainDefault (d : Bytes) : Bool :=
  lower d != ofString "true" && lower d != ofString "false" && (parseNumber d).isNone &&
    !isMapLike d && !isSliceLike d && !isQuoted d

theorem normDefault_plain (d : Bytes) (h : plainDefault d = true) : normDefault d = .ok d := by
  simp only [plainDefault, Bool.and_eq_true, bne_iff_ne, ne_eq, Option.isNone_iff_eq_none, Bool.not_eq_true'] at h
  obtain ⟨⟨⟨⟨⟨h1, h2⟩, h3⟩, h4⟩, h5⟩, h6⟩ := h
  simp [normDefault, h1, h2, h3, h4, h5, h6]

theorem getLast?_snoc' (a : Bytes) (q : UInt8) : (a ++ [q]).getLast? = some q := by simp

/-- a default in single or double quotes loses exactly its quotes -/
theorem normDefault_quoted (q : UInt8) (inner : Bytes) (hq : q = 39 ∨ q = 34) :
    normDefault (q :: (inner ++ [q])) = .ok inner := by
  have htrue : ofString "true" = [116, 114, 117, 101] := by decide
  have hfalse : ofString "false" = [102, 97, 108, 115, 101] := by decide
  have hmap : ofString "map[" = [109, 97, 112, 91] := by decide
  have hslice : slice? (q :: (inner ++ [q])) 1 ((inner.length : Int) + 1) = some inner := by
    unfold slice?
    have : (0 : Int) ≤ 1 ∧ (1 : Int) ≤ (inner.length : Int) + 1 ∧ (inner.length : Int) + 1 ≤ ((q :: (inner ++ [q])).length : Int) := by
      simp only [List.length_cons, List.length_append, List.length_nil]; omega
    rw [if_pos this]
    simp
  have hlast : (q :: (inner ++ [q])).getLast? = some q := by
    have := getLast?_snoc' (q :: inner) q
    simpa using this
  rcases hq with rfl | rfl
  · simp only [normDefault, lower, List.map_cons, htrue, hfalse]
    simp [lowerByte, parseNumber, parseDigits, isDigit, isMapLike, isSliceLike, isQuoted, startsWith, stripPrefix, lastIs, hlast, hmap, hslice]
  · simp only [normDefault, lower, List.map_cons, htrue, hfalse]
    simp [lowerByte, parseNumber, parseDigits, isDigit, isMapLike, isSliceLike, isQuoted, startsWith, stripPrefix, lastIs, hlast, hmap, hslice]

/-! ### the loop -/

theorem hitBound_false (bound : Option Nat) (round : Nat) (hb : ∀ b, bound = some b → round < b) :
    hitBound bound round = false := by
  cases bound with
  | none => rfl
  | some b => have := hb b rfl; simp [hitBound]; omega

/-- one round of ReplaceAllContent: the leftmost match is replaced in place -/
theorem loopF_step (f : Bytes → StepRes) (bound : Option Nat) (fuel round : Nat) (s pre c post r : Bytes)
    (hf : findFirst s = some (pre, c, post)) (hb : ∀ b, bound = some b → round < b) (hr : f c = .ok r) :
    loopF f bound (fuel + 1) round s = loopF f bound fuel (round + 1) (pre ++ r ++ post) := by
  obtain ⟨e, bf, nm⟩ := findFirst_some s pre c post hf
  have hc := hitBound_false bound round hb
  simp only [loopF, hf, hc, hr, Bool.false_eq_true, if_false]
  rw [e, replaceFirst_leftmost c r post bf pre nm]

/-- with a bound the loop always stops: a value or an error after at most b+1 rounds, whatever the callback does -/
theorem loopF_terminates (f : Bytes → StepRes) (b : Nat) :
    ∀ (fuel round : Nat) (s : Bytes), round ≤ b + 1 → b + 2 - round ≤ fuel →
      loopF f (some b) fuel round s ≠ Res.outOfFuel := by
  intro fuel
  induction fuel with
  | zero => intro round s h1 h2; omega
  | succ fuel ih =>
    intro round s h1 h2
    simp only [loopF]
    cases hff : findFirst s with
    | none => simp
    | some t =>
      obtain ⟨pre, content, after⟩ := t
      simp only
      by_cases hb : round ≥ b
      · simp [hitBound, hb]
      · simp only [hitBound, hb, decide_false, Bool.false_eq_true, if_false]
        cases hr : f content with
        | err => simp
        | panic => simp
        | unmodelled => simp
        | ok r => simp only; exact ih (round + 1) _ (by omega) (by omega)

theorem loopF_value_no_match (f : Bytes → StepRes) (bound : Option Nat) :
    ∀ (fuel round : Nat) (s r : Bytes), loopF f bound fuel round s = .value r → findFirst r = none := by
  intro fuel
  induction fuel with
  | zero => intro round s r h; simp [loopF] at h
  | succ fuel ih =>
    intro round s r h
    simp only [loopF] at h
    cases hff : findFirst s with
    | none => simp only [hff, Res.value.injEq] at h; subst h; exact hff
    | some t =>
      obtain ⟨pre, content, after⟩ := t
      simp only [hff] at h
      split at h
      · simp at h
      · cases hr : f content with
        | err => simp [hr] at h
        | panic => simp [hr] at h
        | unmodelled => simp [hr] at h
        | ok x => simp only [hr] at h; exact ih _ _ _ h

theorem count_zero_of_not_mem {s : Bytes} {x : UInt8} (h : x ∉ s) : s.count x = 0 :=
  List.count_eq_zero.mpr h

theorem count_open_step (pre c r post : Bytes) (bfc : braceFree c = true) (bfr : braceFree r = true) :
    (pre ++ r ++ post).count 123 + 1 = (pre ++ matchText c ++ post).count 123 := by
  have h1 := count_zero_of_not_mem (braceFree_not_mem bfc).1
  have h2 := count_zero_of_not_mem (braceFree_not_mem bfr).1
  simp [List.count_append, matchText, h1, h2]
  omega

/-- replacements without braces: every round removes one `{`, so the loop needs no bound -/
theorem loopF_safe (f : Bytes → StepRes) (hf : ∀ c r, braceFree c = true → f c = .ok r → braceFree r = true) :
    ∀ (fuel round : Nat) (s : Bytes), s.count 123 < fuel → loopF f none fuel round s ≠ Res.outOfFuel := by
  intro fuel
  induction fuel with
  | zero => intro round s h; omega
  | succ fuel ih =>
    intro round s h
    cases hff : findFirst s with
    | none => simp [loopF, hff]
    | some t =>
      obtain ⟨pre, c, post⟩ := t
      obtain ⟨e, bf, _⟩ := findFirst_some s pre c post hff
      cases hr : f c with
      | err => simp [loopF, hff, hr, hitBound]
      | panic => simp [loopF, hff, hr, hitBound]
      | unmodelled => simp [loopF, hff, hr, hitBound]
      | ok r =>
        rw [loopF_step f none fuel round s pre c post r hff (by simp) hr]
        have := count_open_step pre c r post bf (hf c r bf hr)
        rw [← e] at this
        exact ih _ _ (by omega)

/-- … and the bound, if it is at least the number of `{`, never fires -/
theorem loopF_bound_irrelevant (f : Bytes → StepRes)
    (hf : ∀ c r, braceFree c = true → f c = .ok r → braceFree r = true) (b : Nat) :
    ∀ (fuel round : Nat) (s : Bytes), s.count 123 + round ≤ b →
      loopF f (some b) fuel round s = loopF f none fuel round s := by
  intro fuel
  induction fuel with
  | zero => intro round s _; rfl
  | succ fuel ih =>
    intro round s h
    cases hff : findFirst s with
    | none => simp [loopF, hff]
    | some t =>
      obtain ⟨pre, c, post⟩ := t
      obtain ⟨e, bf, _⟩ := findFirst_some s pre c post hff
      have hpos : 0 < s.count 123 := by
        rw [e]; simp [List.count_append, matchText]; omega
      have hlt : ¬ round ≥ b := by omega
      cases hr : f c with
      | err => simp [loopF, hff, hr, hlt, hitBound]
      | panic => simp [loopF, hff, hr, hlt, hitBound]
      | unmodelled => simp [loopF, hff, hr, hlt, hitBound]
      | ok r =>
        rw [loopF_step f (some b) fuel round s pre c post r hff (by intro b' hb'; cases hb'; omega) hr,
            loopF_step f none fuel round s pre c post r hff (by simp) hr]
        have := count_open_step pre c r post bf (hf c r bf hr)
        rw [← e] at this
        exact ih _ _ (by omega)

/-! ### the self-referencing configuration  a: "${a}" -/

def selfCfg : Cfg := [(ofString "a", .str (ofString "${a}"))]
def selfTag : Bytes := ofString "${a}"

theorem self_find : findFirst selfTag = some ([], ofString "a", []) := by decide +kernel
theorem self_repl : repl selfCfg (ofString "a") = .ok selfTag := by decide +kernel

theorem self_step (bound : Option Nat) (fuel round : Nat) (hb : ∀ b, bound = some b → round < b) :
    loopF (repl selfCfg) bound (fuel + 1) round selfTag = loopF (repl selfCfg) bound fuel (round + 1) selfTag := by
  rw [loopF_step (repl selfCfg) bound fuel round selfTag [] (ofString "a") [] selfTag self_find hb self_repl]
  simp

theorem self_errors (b : Nat) : ∀ (fuel round : Nat), round ≤ b → b - round < fuel →
    loopF (repl selfCfg) (some b) fuel round selfTag = .error := by
  intro fuel
  induction fuel with
  | zero => intro round _ h; omega
  | succ fuel ih =>
    intro round h1 h2
    by_cases hb : round ≥ b
    · simp [loopF, self_find, hb, hitBound]
    · rw [self_step (some b) fuel round (by intro b' hb'; cases hb'; omega)]
      exact ih (round + 1) (by omega) (by omega)

theorem self_diverges : ∀ (fuel round : Nat), loopF (repl selfCfg) none fuel round selfTag = .outOfFuel := by
  intro fuel
  induction fuel with
  | zero => intro _; rfl
  | succ fuel ih => intro round; rw [self_step none fuel round (by simp)]; exact ih _

/-! ### structured tags: the loop computes the inner-first substitution -/

theorem evalF_spec (f : Bytes → StepRes) (bound : Option Nat) :
    ∀ (t : Tag) (v : Bytes), evalF f t = some v →
      braceFree v = true ∧
      ∀ (l r : Bytes) (fuel round : Nat), (125 : UInt8) ∉ l → (∀ b, bound = some b → round + phCount t ≤ b) →
        loopF f bound (fuel + phCount t) round (l ++ render t ++ r)
          = loopF f bound fuel (round + phCount t) (l ++ v ++ r) := by
  intro t
  induction t with
  | lit s =>
    intro v h
    simp only [evalF] at h
    split at h
    · rename_i hbf
      simp only [Option.some.injEq] at h; subst h
      exact ⟨hbf, by intro l r fuel round _ _; simp [render, phCount]⟩
    · simp at h
  | ph k ihk =>
    intro v h
    simp only [evalF] at h
    cases hk : evalF f k with
    | none => simp [hk] at h
    | some kv =>
      simp only [hk] at h
      cases hr : f kv with
      | err => simp [hr] at h
      | panic => simp [hr] at h
      | unmodelled => simp [hr] at h
      | ok x =>
        simp only [hr] at h
        split at h
        · rename_i hbf
          simp only [Option.some.injEq] at h; subst h
          obtain ⟨bfk, stepk⟩ := ihk kv hk
          refine ⟨hbf, ?_⟩
          intro l r fuel round hl hb
          have e1 : l ++ render (.ph k) ++ r = (l ++ [36, 123]) ++ render k ++ (125 :: r) := by simp [render]
          have hl' : (125 : UInt8) ∉ l ++ [36, 123] := by simp [hl]
          have e2 : fuel + phCount (.ph k) = (fuel + 1) + phCount k := by simp [phCount]; omega
          have hb1 : ∀ b, bound = some b → round + phCount k ≤ b := by
            intro b hb'; have := hb b hb'; simp [phCount] at this; omega
          rw [e1, e2, stepk (l ++ [36, 123]) (125 :: r) (fuel + 1) round hl' hb1]
          have e3 : (l ++ [36, 123]) ++ kv ++ (125 :: r) = l ++ matchText kv ++ r := by simp [matchText]
          have hb2 : ∀ b, bound = some b → round + phCount k < b := by
            intro b hb'; have := hb b hb'; simp [phCount] at this; omega
          rw [e3, loopF_step f bound fuel (round + phCount k) _ l kv r x (findFirst_skip kv r bfk l hl) hb2 hr]
          simp [phCount, Nat.add_assoc]
        · simp at h
  | phd k d ihk ihd =>
    intro v h
    simp only [evalF] at h
    cases hk : evalF f k with
    | none => simp [hk] at h
    | some kv =>
      cases hd : evalF f d with
      | none => simp [hk, hd] at h
      | some dv =>
        simp only [hk, hd] at h
        cases hr : f (kv ++ 58 :: dv) with
        | err => simp [hr] at h
        | panic => simp [hr] at h
        | unmodelled => simp [hr] at h
        | ok x =>
          simp only [hr] at h
          split at h
          · rename_i hbf
            simp only [Option.some.injEq] at h; subst h
            obtain ⟨bfk, stepk⟩ := ihk kv hk
            obtain ⟨bfd, stepd⟩ := ihd dv hd
            refine ⟨hbf, ?_⟩
            intro l r fuel round hl hb
            have hcnt : phCount (.phd k d) = phCount k + phCount d + 1 := rfl
            have e1 : l ++ render (.phd k d) ++ r
                = (l ++ [36, 123]) ++ render k ++ (58 :: (render d ++ 125 :: r)) := by simp [render]
            have hl1 : (125 : UInt8) ∉ l ++ [36, 123] := by simp [hl]
            have e2 : fuel + phCount (.phd k d) = (fuel + 1 + phCount d) + phCount k := by rw [hcnt]; omega
            have hb1 : ∀ b, bound = some b → round + phCount k ≤ b := by
              intro b hb'; have := hb b hb'; rw [hcnt] at this; omega
            rw [e1, e2, stepk (l ++ [36, 123]) _ (fuel + 1 + phCount d) round hl1 hb1]
            have e3 : (l ++ [36, 123]) ++ kv ++ (58 :: (render d ++ 125 :: r))
                = (l ++ [36, 123] ++ kv ++ [58]) ++ render d ++ (125 :: r) := by simp
            have hl2 : (125 : UInt8) ∉ l ++ [36, 123] ++ kv ++ [58] := by
              simp [hl, (braceFree_not_mem bfk).2]
            have hb2 : ∀ b, bound = some b → (round + phCount k) + phCount d ≤ b := by
              intro b hb'; have := hb b hb'; rw [hcnt] at this; omega
            rw [e3, stepd (l ++ [36, 123] ++ kv ++ [58]) (125 :: r) (fuel + 1) (round + phCount k) hl2 hb2]
            have bfc : braceFree (kv ++ 58 :: dv) = true := by
              rw [braceFree_append, braceFree_cons]; simp [bfk, bfd]
            have e4 : (l ++ [36, 123] ++ kv ++ [58]) ++ dv ++ (125 :: r) = l ++ matchText (kv ++ 58 :: dv) ++ r := by
              simp [matchText]
            have hb3 : ∀ b, bound = some b → round + phCount k + phCount d < b := by
              intro b hb'; have := hb b hb'; rw [hcnt] at this; omega
            rw [e4, loopF_step f bound fuel (round + phCount k + phCount d) _ l (kv ++ 58 :: dv) r x
                  (findFirst_skip _ r bfc l hl) hb3 hr]
            simp [phCount, Nat.add_assoc]
          · simp at h
  | seq a b iha ihb =>
    intro v h
    simp only [evalF] at h
    cases ha : evalF f a with
    | none => simp [ha] at h
    | some x =>
      cases hb' : evalF f b with
      | none => simp [ha, hb'] at h
      | some y =>
        simp only [ha, hb', Option.some.injEq] at h; subst h
        obtain ⟨bfa, stepa⟩ := iha x ha
        obtain ⟨bfb, stepb⟩ := ihb y hb'
        refine ⟨by rw [braceFree_append]; simp [bfa, bfb], ?_⟩
        intro l r fuel round hl hb
        have hcnt : phCount (.seq a b) = phCount a + phCount b := rfl
        have e1 : l ++ render (.seq a b) ++ r = l ++ render a ++ (render b ++ r) := by simp [render]
        have e2 : fuel + phCount (.seq a b) = (fuel + phCount b) + phCount a := by rw [hcnt]; omega
        have hb1 : ∀ c, bound = some c → round + phCount a ≤ c := by
          intro c hc; have := hb c hc; rw [hcnt] at this; omega
        rw [e1, e2, stepa l (render b ++ r) (fuel + phCount b) round hl hb1]
        have e3 : l ++ x ++ (render b ++ r) = (l ++ x) ++ render b ++ r := by simp
        have hl2 : (125 : UInt8) ∉ l ++ x := by simp [hl, (braceFree_not_mem bfa).2]
        have hb2 : ∀ c, bound = some c → (round + phCount a) + phCount b ≤ c := by
          intro c hc; have := hb c hc; rw [hcnt] at this; omega
        rw [e3, stepb (l ++ x) r fuel (round + phCount a) hl2 hb2]
        simp [phCount, Nat.add_assoc]

/-- a structured tag resolves to its substitution value, provided the bound (if any) admits one round per placeholder -/
theorem loopF_structured (f : Bytes → StepRes) (bound : Option Nat) (t : Tag) (v : Bytes)
    (h : evalF f t = some v) (hb : ∀ b, bound = some b → phCount t ≤ b) (fuel : Nat) (hfuel : phCount t < fuel) :
    loopF f bound fuel 0 (render t) = .value v := by
  obtain ⟨bf, step⟩ := evalF_spec f bound t v h
  have := step [] [] (fuel - phCount t) 0 (by simp) (by intro b hb'; have := hb b hb'; omega)
  have e : fuel - phCount t + phCount t = fuel := by omega
  simp only [List.nil_append, List.append_nil, e, Nat.zero_add] at this
  rw [this]
  obtain ⟨n, hn⟩ : ∃ n, fuel - phCount t = n + 1 := ⟨fuel - phCount t - 1, by omega⟩
  rw [hn]
  simp [loopF, findFirst_none_of_braceFree v bf]

/-! ### the empty configuration is "safe": defaults of brace-free contents are brace-free -/

/-- membership form of brace-freeness -/
def BF (s : Bytes) : Prop := ∀ x ∈ s, x ≠ 123 ∧ x ≠ 125

theorem bf_iff (s : Bytes) : braceFree s = true ↔ BF s := by
  simp [braceFree, BF, List.all_eq_true]

theorem BF_sub {s t : Bytes} (h : ∀ x ∈ t, x ∈ s) (hs : BF s) : BF t := fun x hx => hs x (h x hx)

theorem BF_append {a b : Bytes} (ha : BF a) (hb : BF b) : BF (a ++ b) := by
  intro x hx; rcases List.mem_append.mp hx with h | h
  · exact ha x h
  · exact hb x h

theorem digit_ok : ∀ k, k < 10 → UInt8.ofNat (48 + k) ≠ 123 ∧ UInt8.ofNat (48 + k) ≠ 125 := by decide

theorem natDigits_BF : ∀ fuel n, BF (natDigits fuel n)
  | 0, _ => by simp [natDigits, BF]
  | fuel + 1, n => by
    simp only [natDigits]
    split
    · rename_i h; intro x hx; simp only [List.mem_singleton] at hx; subst hx; exact digit_ok n h
    · apply BF_append (natDigits_BF fuel (n / 10))
      intro x hx; simp only [List.mem_singleton] at hx; subst hx; exact digit_ok (n % 10) (Nat.mod_lt _ (by omega))

theorem dropTrailingZeros_sub (ds : Bytes) : ∀ x ∈ dropTrailingZeros ds, x ∈ ds := by
  intro x hx
  simp only [dropTrailingZeros, List.mem_reverse] at hx
  have := (List.dropWhile_sublist (fun c => decide (c = 48)) (l := ds.reverse)).subset hx
  simpa using this

theorem BF_lit {s : Bytes} (h : braceFree s = true) : BF s := (bf_iff s).mp h

theorem BF_replicate (n : Nat) : BF (List.replicate n 48) := by
  intro x hx; rw [List.mem_replicate] at hx; rw [hx.2]; decide

theorem BF_cons {x : UInt8} {s : Bytes} (hx : x ≠ 123 ∧ x ≠ 125) (hs : BF s) : BF (x :: s) := by
  intro y hy; rcases List.mem_cons.mp hy with rfl | h
  · exact hx
  · exact hs y h

theorem fmtNumber_BF (neg : Bool) (ip fp r : Bytes) (hip : BF ip) (hfp : BF fp)
    (h : fmtNumber neg ip fp = .ok r) : BF r := by
  have hall : BF (ip ++ fp) := BF_append hip hfp
  have hsig : BF (dropTrailingZeros ((ip ++ fp).drop ((ip ++ fp).takeWhile (· = 48)).length)) :=
    BF_sub (fun x hx => List.mem_of_mem_drop (dropTrailingZeros_sub _ x hx)) hall
  have hsign : BF (if neg = true then [45] else ([] : Bytes)) := by
    cases neg <;> exact BF_lit (by decide)
  unfold fmtNumber at h
  dsimp only at h
  generalize dropTrailingZeros ((ip ++ fp).drop ((ip ++ fp).takeWhile (· = 48)).length) = sig at h hsig
  generalize (if neg = true then [45] else ([] : Bytes)) = sign at h hsign
  split at h
  · simp at h
  · split at h
    · simp only [StepRes.ok.injEq] at h; subst h
      exact BF_append hsign (BF_lit (by decide))
    · split at h
      · simp at h
      · split at h
        · simp only [StepRes.ok.injEq] at h; subst h
          refine BF_append (BF_append (BF_append hsign ?_) ?_) ?_
          · cases sig with
            | nil => exact BF_lit (by decide)
            | cons d more =>
              cases more with
              | nil => exact hsig
              | cons m ms =>
                refine BF_cons (hsig d (by simp)) (BF_cons (by decide) ?_)
                exact BF_sub (fun x hx => List.mem_cons_of_mem _ hx) hsig
          · split <;> exact BF_lit (by decide)
          · split
            · exact BF_cons (by decide) (natDigits_BF _ _)
            · exact natDigits_BF _ _
        · split at h
          · simp only [StepRes.ok.injEq] at h; subst h
            exact BF_append (BF_append (BF_append hsign (BF_lit (by decide))) (BF_replicate _)) hsig
          · split at h
            · simp only [StepRes.ok.injEq] at h; subst h
              exact BF_append (BF_append hsign hsig) (BF_replicate _)
            · simp only [StepRes.ok.injEq] at h; subst h
              refine BF_append (BF_append (BF_append hsign ?_) (BF_lit (by decide))) ?_
              · exact BF_sub (fun x hx => List.mem_of_mem_take hx) hsig
              · exact BF_sub (fun x hx => List.mem_of_mem_drop hx) hsig

theorem isDigit_ok {x : UInt8} (h : isDigit x = true) : x ≠ 123 ∧ x ≠ 125 := by
  simp only [isDigit, Bool.and_eq_true, decide_eq_true_eq] at h
  constructor <;> (intro e; subst e; revert h; decide)

theorem BF_of_digits {s : Bytes} (h : s.all isDigit = true) : BF s := by
  intro x hx; exact isDigit_ok (List.all_eq_true.mp h x hx)

theorem mem_takeWhile_imp' {p : UInt8 → Bool} : ∀ {l : Bytes} {x : UInt8}, x ∈ l.takeWhile p → p x = true
  | [], _, h => by simp at h
  | y :: l, x, h => by
    simp only [List.takeWhile] at h
    split at h
    · rename_i hy
      rcases List.mem_cons.mp h with rfl | h'
      · exact hy
      · exact mem_takeWhile_imp' h'
    · simp at h

theorem parseDigits_BF (body ip fp : Bytes) (h : parseDigits body = some (ip, fp)) : BF ip ∧ BF fp := by
  unfold parseDigits at h
  dsimp only at h
  split at h
  · simp at h
  · split at h
    · simp only [Option.some.injEq, Prod.mk.injEq] at h
      obtain ⟨rfl, rfl⟩ := h
      exact ⟨fun x hx => isDigit_ok (mem_takeWhile_imp' hx), by intro x hx; simp at hx⟩
    · split at h
      · rename_i hc
        simp only [Option.some.injEq, Prod.mk.injEq] at h
        obtain ⟨rfl, rfl⟩ := h
        simp only [Bool.and_eq_true] at hc
        exact ⟨fun x hx => isDigit_ok (mem_takeWhile_imp' hx), BF_of_digits hc.2⟩
      · simp at h
    · simp at h

theorem parseNumber_BF (s : Bytes) (neg : Bool) (ip fp : Bytes) (h : parseNumber s = some (neg, ip, fp)) :
    BF ip ∧ BF fp := by
  have key : ∀ (b : Bool) (body : Bytes),
      (parseDigits body).map (fun p => (b, p.1, p.2)) = some (neg, ip, fp) → BF ip ∧ BF fp := by
    intro b body h
    cases hp : parseDigits body with
    | none => simp [hp] at h
    | some p =>
      obtain ⟨a, c⟩ := p
      simp only [hp, Option.map_some, Option.some.injEq, Prod.mk.injEq] at h
      obtain ⟨_, rfl, rfl⟩ := h
      exact parseDigits_BF _ _ _ hp
  unfold parseNumber at h
  split at h
  · exact key _ _ h
  · exact key _ _ h
  · exact key _ _ h

theorem slice?_sub (s : Bytes) (lo hi : Int) (t : Bytes) (h : slice? s lo hi = some t) : ∀ x ∈ t, x ∈ s := by
  unfold slice? at h
  split at h
  · simp only [Option.some.injEq] at h; subst h
    intro x hx; exact List.mem_of_mem_drop (List.mem_of_mem_take hx)
  · simp at h

theorem normDefault_BF (d r : Bytes) (hd : BF d) (h : normDefault d = .ok r) : BF r := by
  unfold normDefault at h
  split at h
  · simp only [StepRes.ok.injEq] at h; subst h; exact BF_lit (by decide)
  · split at h
    · simp only [StepRes.ok.injEq] at h; subst h; exact BF_lit (by decide)
    · split at h
      · rename_i neg ip fp hp
        obtain ⟨h1, h2⟩ := parseNumber_BF d neg ip fp hp
        exact fmtNumber_BF neg ip fp r h1 h2 h
      · split at h
        · simp at h
        · split at h
          · simp at h
          · split at h
            · split at h
              · rename_i inner hs
                simp only [StepRes.ok.injEq] at h; subst h
                exact BF_sub (slice?_sub d _ _ _ hs) hd
              · simp at h
            · simp only [StepRes.ok.injEq] at h; subst h; exact hd

theorem splitColon_BF : ∀ (c : Bytes), BF c → ∀ d, (splitColon c).2 = some d → BF d
  | [], _, d, h => by simp [splitColon] at h
  | x :: c, hc, d, h => by
    have hc' : BF c := BF_sub (fun y hy => List.mem_cons_of_mem _ hy) hc
    simp only [splitColon] at h
    split at h
    · simp only [Option.some.injEq] at h; subst h; exact hc'
    · exact splitColon_BF c hc' d h

theorem get_nil_absent (key : Bytes) : ∃ v, get [] key = .val v ∧ isAbsent v = true := by
  unfold get
  split
  · exact ⟨_, rfl, rfl⟩
  · cases hs : splitDots (lower key) with
    | nil => exact ⟨some (.map []), by simp [search, nilToNone], rfl⟩
    | cons p rest => exact ⟨none, by simp [search, searchMap], rfl⟩

/-- the empty configuration: every placeholder is answered by its default, and the answer has no brace -/
theorem repl_nil_safe (c r : Bytes) (hc : braceFree c = true) (h : repl [] c = .ok r) : braceFree r = true := by
  rw [bf_iff] at hc ⊢
  obtain ⟨v, hg, ha⟩ := get_nil_absent (splitColon c).1
  have e : repl [] c = defaultAnswer (splitColon c).2 :=
    repl_absent [] c (splitColon c).1 (splitColon c).2 v rfl hg ha
  rw [e] at h
  cases hd : (splitColon c).2 with
  | none => simp only [hd, defaultAnswer, StepRes.ok.injEq] at h; subst h; intro x hx; simp at hx
  | some d =>
    simp only [hd, defaultAnswer] at h
    split at h
    · simp only [StepRes.ok.injEq] at h; subst h; intro x hx; simp at hx
    · exact normDefault_BF d r (splitColon_BF c hc d hd) h

/-! ### example data for the non-vacuity examples of C16 -/

def exCfg : Cfg :=
  [ (ofString "ab", .str (ofString "hit")), (ofString "p", .str (ofString "b")), (ofString "n", .num (ofString "42")),
    (ofString "e", .map []), (ofString "el", .list []), (ofString "z", .null),
    (ofString "m", .map [(ofString "k", .bool true)]) ]

/-- `x${a${p}}-${zz:${n}}${e:dflt}${el}${m.k}`: nested key, nested default, empty map with default, empty list without -/
def exTag : Tag :=
  .seq (.lit (ofString "x")) (.seq (.ph (.seq (.lit (ofString "a")) (.ph (.lit (ofString "p")))))
    (.seq (.lit (ofString "-")) (.seq (.phd (.lit (ofString "zz")) (.ph (.lit (ofString "n"))))
      (.seq (.phd (.lit (ofString "e")) (.lit (ofString "dflt"))) (.seq (.ph (.lit (ofString "el"))) (.ph (.lit (ofString "m.k"))))))))

/-- configured values that carry placeholders themselves: `bin` and `lib` both go through `base` (a diamond), `twice`
    mentions it twice, `left`/`right` are circular with two back references -/
def diaCfg : Cfg :=
  [ (ofString "root", .str (ofString "/opt")), (ofString "base", .str (ofString "${root}/app")),
    (ofString "bin", .str (ofString "${base}/bin")), (ofString "lib", .str (ofString "${base}/lib")),
    (ofString "twice", .str (ofString "${base}:${base}")), (ofString "sel", .str (ofString "${which}")),
    (ofString "which", .str (ofString "x")), (ofString "kx", .str (ofString "${base}!")),
    (ofString "left", .str (ofString "${right} ${right}")), (ofString "right", .str (ofString "${left}")) ]

end Ioc.Placeholder
