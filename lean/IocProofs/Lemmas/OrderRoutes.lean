/-
  Lemmas for C12 (ninth round): one instance that reaches the singleton registry through several routes is ONE participant.
  `Ioc.Order.registerSingleton` / `registerAll` / `listed` model `registry.RegisterSingleton` under `app.SetComponents`.
-/
import Ioc.Order
namespace Ioc.Order

variable {α ν : Type} [DecidableEq ν]

theorem registerSingleton_taken (name : α → ν) (acc : List α) (x : α) (h : name x ∈ acc.map name) :
    registerSingleton name acc x = acc := by
  unfold registerSingleton
  have : acc.any (fun y => decide (name y = name x)) = true := by
    rw [List.any_eq_true]
    obtain ⟨y, hy, e⟩ := List.mem_map.1 h
    exact ⟨y, hy, by simp [e]⟩
  simp [this]

theorem registerSingleton_fresh (name : α → ν) (acc : List α) (x : α) (h : name x ∉ acc.map name) :
    registerSingleton name acc x = acc ++ [x] := by
  unfold registerSingleton
  have : acc.any (fun y => decide (name y = name x)) = false := by
    rw [List.any_eq_false]
    intro y hy hp
    exact h (List.mem_map.2 ⟨y, hy, by simpa using hp⟩)
  simp [this]

/-- registrations of names that are all taken change nothing -/
theorem foldl_register_absorb (name : α → ν) (regs acc : List α) (h : ∀ x ∈ regs, name x ∈ acc.map name) :
    regs.foldl (registerSingleton name) acc = acc := by
  induction regs with
  | nil => rfl
  | cons x r ih =>
    simp only [List.foldl_cons]
    rw [registerSingleton_taken name acc x (h x (by simp))]
    exact ih (fun y hy => h y (by simp [hy]))

/-- one SetComponents call over instances with names of their own, some of them listed twice: each is stored once, in order -/
theorem foldl_register_listed (name : α → ν) (twice : α → Bool) (l acc : List α)
    (hn : (l.map name).Nodup) (hd : ∀ x ∈ l, name x ∉ acc.map name) :
    (listed twice l).foldl (registerSingleton name) acc = acc ++ l := by
  induction l generalizing acc with
  | nil => simp [listed]
  | cons x r ih =>
    have hx : name x ∉ acc.map name := hd x (by simp)
    have hn2 : name x ∉ r.map name ∧ (r.map name).Nodup := by simpa using hn
    have hstep : (if twice x then [x, x] else [x]).foldl (registerSingleton name) acc = acc ++ [x] := by
      cases twice x
      · simp [registerSingleton_fresh name acc x hx]
      · simp only [if_true, List.foldl_cons, List.foldl_nil]
        rw [registerSingleton_fresh name acc x hx]
        exact registerSingleton_taken name (acc ++ [x]) x (by simp)
    have hl : listed twice (x :: r) = (if twice x then [x, x] else [x]) ++ listed twice r := by
      simp [listed, List.flatMap_cons]
    rw [hl, List.foldl_append, hstep, ih (acc ++ [x]) hn2.2]
    · simp
    · intro y hy hmem
      simp only [List.map_append, List.mem_append, List.map_cons, List.map_nil, List.mem_singleton] at hmem
      rcases hmem with hmem | hmem
      · exact hd y (by simp [hy]) hmem
      · exact hn2.1 (hmem ▸ List.mem_map.2 ⟨y, hy, rfl⟩)

/-- the application's own list (some components twice) followed by any further registrations of the same instances:
    the registry holds exactly the list, each instance once, in the order listed -/
theorem registerAll_routes (name : α → ν) (twice : α → Bool) (l extra : List α)
    (hn : (l.map name).Nodup) (he : ∀ x ∈ extra, name x ∈ l.map name) :
    registerAll name (listed twice l ++ extra) = l := by
  unfold registerAll
  rw [List.foldl_append, foldl_register_listed name twice l [] hn (by simp), List.nil_append]
  exact foldl_register_absorb name extra l he

theorem registerSingleton_nodup (name : α → ν) (acc : List α) (x : α) (h : (acc.map name).Nodup) :
    ((registerSingleton name acc x).map name).Nodup := by
  by_cases hx : name x ∈ acc.map name
  · rw [registerSingleton_taken name acc x hx]; exact h
  · rw [registerSingleton_fresh name acc x hx]
    simp only [List.map_append, List.map_cons, List.map_nil]
    exact List.nodup_append.2 ⟨h, by simp, by
      intro a ha b hb
      simp only [List.mem_singleton] at hb
      subst hb
      intro e; subst e; exact hx ha⟩

theorem foldl_register_nodup (name : α → ν) (regs acc : List α) (h : (acc.map name).Nodup) :
    ((regs.foldl (registerSingleton name) acc).map name).Nodup := by
  induction regs generalizing acc with
  | nil => exact h
  | cons x r ih => exact ih _ (registerSingleton_nodup name acc x h)

/-- whatever is registered, however often: one entry per name -/
theorem registerAll_nodup (name : α → ν) (regs : List α) : ((registerAll name regs).map name).Nodup :=
  foldl_register_nodup name regs [] (by simp)

theorem registerSingleton_mono (name : α → ν) (acc : List α) (x : α) (n : ν) (h : n ∈ acc.map name) :
    n ∈ (registerSingleton name acc x).map name := by
  by_cases hx : name x ∈ acc.map name
  · rw [registerSingleton_taken name acc x hx]; exact h
  · rw [registerSingleton_fresh name acc x hx]; simp only [List.map_append, List.mem_append]; exact Or.inl h

theorem registerSingleton_self (name : α → ν) (acc : List α) (x : α) :
    name x ∈ (registerSingleton name acc x).map name := by
  by_cases hx : name x ∈ acc.map name
  · rw [registerSingleton_taken name acc x hx]; exact hx
  · rw [registerSingleton_fresh name acc x hx]; simp

theorem foldl_register_mono (name : α → ν) (regs acc : List α) (n : ν) (h : n ∈ acc.map name) :
    n ∈ (regs.foldl (registerSingleton name) acc).map name := by
  induction regs generalizing acc with
  | nil => exact h
  | cons x r ih => exact ih _ (registerSingleton_mono name acc x n h)

theorem foldl_register_mem (name : α → ν) (regs acc : List α) (x : α) (hx : x ∈ regs) :
    name x ∈ (regs.foldl (registerSingleton name) acc).map name := by
  induction regs generalizing acc with
  | nil => cases hx
  | cons y r ih =>
    simp only [List.foldl_cons]
    rcases List.mem_cons.1 hx with e | hr
    · subst e; exact foldl_register_mono name r _ _ (registerSingleton_self name acc x)
    · exact ih _ hr

/-- nobody is lost: every registered instance's name is in the registry -/
theorem registerAll_mem (name : α → ν) (regs : List α) (x : α) (hx : x ∈ regs) :
    name x ∈ (registerAll name regs).map name :=
  foldl_register_mem name regs [] x hx

end Ioc.Order
