/-
  Concrete populations and injection points used by the non-vacuity examples of C06 / C07 / C08 / C10.
  Five providers with mixed attributes:
    0  "pkg/A"  type 1, implements I0        unnamed            Get() string = "x"
    1  "b"      type 2, implements I0, I1    custom name, qualifier q1      Get() = "y", Run()
    2  "c"      type 2, implements I0        custom name, PRIMARY, qualifier q2   Get(arg) (has a parameter)
    3  "pkg/D"  type 3, implements I1        unnamed, qualifier q1
    4  "pkg/H"  type 4, implements I0        unnamed            (used as the holder)
-/
import Ioc.Match
import Ioc.Container
namespace Ioc.Match.Ex
open Ioc Ioc.Tag Ioc.Match

deriving instance DecidableEq for Ioc.Match.Prov

def pA : Prov := ⟨0, ofString "pkg/A", 1, 0b01, false, false, none, [⟨"Get", 0, 1, ofString "x"⟩], none⟩
def pB : Prov := ⟨1, ofString "b", 2, 0b11, true, false, some (ofString "q1"), [⟨"Get", 0, 1, ofString "y"⟩, ⟨"Run", 0, 0, []⟩], none⟩
def pC : Prov := ⟨2, ofString "c", 2, 0b01, true, true, some (ofString "q2"), [⟨"Get", 1, 1, ofString "x"⟩], none⟩
def pD : Prov := ⟨3, ofString "pkg/D", 3, 0b10, false, false, some (ofString "q1"), [], none⟩
def pH : Prov := ⟨4, ofString "pkg/H", 4, 0b01, false, false, none, [], none⟩

def pop : List Prov := [pA, pB, pC, pD, pH]
/-- the same components enumerated in another order -/
def pop' : List Prov := [pD, pH, pC, pA, pB]
/-- without the Primary: A and H (both unnamed) are tied for I0 when the holder is somebody else -/
def popTie : List Prov := [pA, pB, pD, pH]
def popTie' : List Prov := [pH, pD, pB, pA]

/-- `[]I0` by type, holder 4 -/
def sliceI0 : Slot := ⟨4, .sliceIface 0, false, []⟩
/-- `I0` by type, holder 4: the Primary (2) wins -/
def oneI0 : Slot := ⟨4, .iface 0, false, []⟩
/-- `I1` by type, holder 4: no Primary, the unique unnamed (3) wins over the custom-named 1 -/
def oneI1 : Slot := ⟨4, .iface 1, false, []⟩
/-- `[]I0` with `qualifier=q1 q2` -/
def sliceI0q : Slot := ⟨4, .sliceIface 0, false, ofString ",qualifier=q1 q2"⟩
/-- `*T2` with `qualifier=q1` -/
def oneT2q : Slot := ⟨4, .ptr 2, false, ofString ",qualifier=q1"⟩
/-- `I0` by name "b" -/
def namedB : Slot := ⟨4, .iface 0, false, ofString "b"⟩
/-- `*T1` by name "b": present but not assignable -/
def namedBwrong : Slot := ⟨4, .ptr 1, false, ofString "b"⟩
/-- by name "zz": nobody; required / optional -/
def namedZ : Slot := ⟨4, .iface 0, false, ofString "zz"⟩
def namedZopt : Slot := ⟨4, .iface 0, false, ofString "zz,required=false"⟩
/-- optional with a qualifier nobody declares -/
def oneI0qNone : Slot := ⟨4, .iface 0, false, ofString ",qualifier=nope,required=false"⟩
/-- func tag `Get`, `[]I0`; and with `returns=y` -/
def funcGet : Slot := ⟨4, .sliceIface 0, true, ofString "Run"⟩
def funcGetY : Slot := ⟨4, .sliceIface 0, true, ofString "Get,returns=y"⟩
def funcGetAny : Slot := ⟨4, .sliceIface 0, true, ofString "Get,returns=*"⟩
/-- `I0` by type, holder 1, on `popTie`: 0 and 4 are both unnamed → tied -/
def tieI0 : Slot := ⟨1, .iface 0, false, []⟩

/-- factory scenario: holder 9 has one required single point with candidate 1, which is marked incompatible -/
def scBad (required : Bool) : M2.Scen where
  names := [1, 9]
  boot := []
  eager := [9]
  points := fun n => if n = 9 then some [⟨[1], false, required, [1]⟩] else some []
  wired := fun _ => true
  logged := fun _ => false
  cfgOk := fun _ => true
  fBefore := fun _ => false
  fAps := fun _ => false
  fInit := fun _ => false
  fAfter := fun _ => false
  fEarly := fun _ => false
  earlyO := M2.raw
  afterO := M2.raw

/-- … at the moment the frame of 9 has collected the (published) object of 1 -/
def stBad (required : Bool) : M2.St :=
  { M2.init (scBad required) with stack := [⟨9, 0, 1, [M2.raw 1]⟩], stage := .refresh, l1 := fun n => if n = 1 then some (M2.raw 1) else none }

end Ioc.Match.Ex
