/-
  Lemmas about several Initialize calls on one live Configure (C15): `Config.St`, `stepOpt`, `initOnce`, `runPhase`.
-/
import IocProofs.Lemmas.ConfigSeq
namespace Ioc.Config

/-! ### sorting a sorted class again changes nothing; sorting is stable under appending -/

theorem insertByKey_ge_all (x : Loader) (l : List Loader) (h : ∀ y ∈ l, y.cls.key ≤ x.cls.key) :
    insertByKey x l = l ++ [x] := by
  induction l with
  | nil => rfl
  | cons y ys ih =>
    have hy : ¬ x.cls.key < y.cls.key := Int.not_lt.mpr (h y List.mem_cons_self)
    simp only [insertByKey, hy, if_false, List.cons_append]
    rw [ih (fun z hz => h z (List.mem_cons_of_mem _ hz))]

theorem foldl_insert_of_sorted (l acc : List Loader) (h : (acc ++ l).Pairwise KeyLe) :
    l.foldl (fun acc x => insertByKey x acc) acc = acc ++ l := by
  induction l generalizing acc with
  | nil => simp
  | cons x rest ih =>
    simp only [List.foldl_cons]
    have hx : ∀ y ∈ acc, y.cls.key ≤ x.cls.key := by
      intro y hy
      have := List.pairwise_append.mp h
      exact this.2.2 y hy x List.mem_cons_self
    rw [insertByKey_ge_all x acc hx, ih]
    · simp
    · simpa using h

/-- an ascending list is a fixed point of the insertion sort -/
theorem sortByKey_of_sorted (l : List Loader) (h : l.Pairwise KeyLe) : sortByKey l = l := by
  simpa [sortByKey] using foldl_insert_of_sorted l [] (by simpa using h)

theorem sortByKey_append (a b : List Loader) :
    sortByKey (a ++ b) = b.foldl (fun acc x => insertByKey x acc) (sortByKey a) := by
  simp [sortByKey, List.foldl_append]

/-- the insertion sort is stable under appending: sorting (sorted a) ++ b = sorting a ++ b -/
theorem sortByKey_sorted_append (a b : List Loader) : sortByKey (sortByKey a ++ b) = sortByKey (a ++ b) := by
  rw [sortByKey_append, sortByKey_append, sortByKey_of_sorted _ (sortByKey_sorted a)]

theorem filter_sortByKey_all (q : Loader → Bool) (l : List Loader) (h : ∀ x ∈ l, q x = true) :
    (sortByKey l).filter q = sortByKey l :=
  List.filter_eq_self.mpr (fun x hx => h x ((sortByKey_perm l).subset hx))

theorem filter_sortByKey_none (q : Loader → Bool) (l : List Loader) (h : ∀ x ∈ l, q x = false) :
    (sortByKey l).filter q = [] :=
  List.filter_eq_nil_iff.mpr (fun x hx => by simp [h x ((sortByKey_perm l).subset hx)])

theorem cls_excl (c : Cls) :
    (c.isPrio = true → c.isOrd = false ∧ c.isPlain = false) ∧ (c.isOrd = true → c.isPrio = false ∧ c.isPlain = false) ∧
    (c.isPlain = true → c.isPrio = false ∧ c.isOrd = false) := by
  cases c <;> simp [Cls.isPrio, Cls.isOrd, Cls.isPlain]

theorem filter_filter_none (q1 q2 : Loader → Bool) (l : List Loader) (h : ∀ x, q2 x = true → q1 x = false) :
    (l.filter q2).filter q1 = [] := by
  apply List.filter_eq_nil_iff.mpr
  intro x hx
  have := (List.mem_filter.mp hx).2
  simp [h x this]

theorem filter_loaderSeq_prio (ls : List Loader) :
    (loaderSeq ls).filter (·.cls.isPrio) = sortByKey (ls.filter (·.cls.isPrio)) := by
  simp only [loaderSeq, List.filter_append]
  rw [filter_sortByKey_all _ _ (fun x hx => by simpa using (List.mem_filter.mp hx).2),
      filter_sortByKey_none _ _ (fun x hx => ((cls_excl x.cls).2.1 (by simpa using (List.mem_filter.mp hx).2)).1),
      filter_filter_none _ _ _ (fun x hx => ((cls_excl x.cls).2.2 hx).1)]
  simp

theorem filter_loaderSeq_ord (ls : List Loader) :
    (loaderSeq ls).filter (·.cls.isOrd) = sortByKey (ls.filter (·.cls.isOrd)) := by
  simp only [loaderSeq, List.filter_append]
  rw [filter_sortByKey_none _ _ (fun x hx => ((cls_excl x.cls).1 (by simpa using (List.mem_filter.mp hx).2)).1),
      filter_sortByKey_all _ _ (fun x hx => by simpa using (List.mem_filter.mp hx).2),
      filter_filter_none _ _ _ (fun x hx => ((cls_excl x.cls).2.2 hx).2)]
  simp

theorem filter_loaderSeq_plain (ls : List Loader) :
    (loaderSeq ls).filter (·.cls.isPlain) = ls.filter (·.cls.isPlain) := by
  simp only [loaderSeq, List.filter_append]
  rw [filter_sortByKey_none _ _ (fun x hx => ((cls_excl x.cls).1 (by simpa using (List.mem_filter.mp hx).2)).2),
      filter_sortByKey_none _ _ (fun x hx => ((cls_excl x.cls).2.1 (by simpa using (List.mem_filter.mp hx).2)).2)]
  simp

/-- loadConfigure stores the SORTED list back (configure.go:55); loaders appended to it later and sorted again end up
    where they would be had the list been kept in the order of addition -/
theorem loaderSeq_stored (ls new : List Loader) : loaderSeq (loaderSeq ls ++ new) = loaderSeq (ls ++ new) := by
  have e : ∀ l, loaderSeq l =
      sortByKey (l.filter (·.cls.isPrio)) ++ sortByKey (l.filter (·.cls.isOrd)) ++ l.filter (·.cls.isPlain) := fun _ => rfl
  rw [e (loaderSeq ls ++ new), e (ls ++ new)]
  simp only [List.filter_append, filter_loaderSeq_prio, filter_loaderSeq_ord, filter_loaderSeq_plain,
    sortByKey_sorted_append]

/-! ### one Initialize = all current documents merged on top of what the binder holds -/

theorem initOnce_good (s : St) (h : ∀ l ∈ s.loaders, l.good = true) :
    initOnce s = .ok ⟨loaderSeq s.loaders, (docsOf s.loaders).foldl merge s.acc⟩ := by
  unfold initOnce
  cases hl : s.loaders with
  | nil =>
    cases s with
    | mk ls acc => simp at hl; subst hl; simp [docsOf, loaderSeq, sortByKey]
  | cons a t =>
    rw [← hl]
    have hne : s.loaders.isEmpty = false := by simp [hl]
    simp only [hne, Bool.false_eq_true, if_false]
    rw [loadLoop_good _ _ (good_of_perm (loaderSeq_perm s.loaders) h)]
    rfl

theorem foldl_stepOpt_fresh (init : List Loader) (opts : List Opt) :
    opts.foldl stepOpt ⟨init, .map []⟩ = ⟨applyFrom init opts, .map []⟩ := by
  induction opts generalizing init with
  | nil => rfl
  | cons o rest ih =>
    simp only [List.foldl_cons, applyFrom]
    cases o <;> simp only [stepOpt, applyStep] <;> exact ih _

theorem isSome_fold_of_acc (docs : List Cfg) (acc : Cfg) (p : Path) (hwf : ∀ d ∈ docs, d.wf = true)
    (h : (acc.get p).isSome = true) : ((docs.foldl merge acc).get p).isSome = true := by
  induction docs generalizing acc with
  | nil => exact h
  | cons e rest ih =>
    simp only [List.foldl_cons]
    exact ih _ (fun d hd => hwf d (List.mem_cons_of_mem _ hd))
      (isSome_get_merge_of_tgt acc e p (hwf e List.mem_cons_self) h)

theorem isSome_fold_of_mem (docs : List Cfg) (acc : Cfg) (p : Path) (hwf : ∀ d ∈ docs, d.wf = true)
    (d : Cfg) (hd : d ∈ docs) (h : (d.get p).isSome = true) : ((docs.foldl merge acc).get p).isSome = true := by
  induction docs generalizing acc with
  | nil => cases hd
  | cons e rest ih =>
    simp only [List.foldl_cons]
    have hr := fun x hx => hwf x (List.mem_cons_of_mem _ hx)
    rcases List.mem_cons.mp hd with rfl | hd'
    · exact isSome_fold_of_acc rest _ p hr (isSome_get_merge_of_src acc d p (hwf d List.mem_cons_self) h)
    · exact ih _ hr hd'

end Ioc.Config
