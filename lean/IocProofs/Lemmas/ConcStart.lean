/-
  Concurrent starts of different Apps (Ioc.Conc section 4): the invariant of `append(ops, globalOptions...)` over a
  heap of backing arrays. With the callee's own variadic slice (cap = len) as the FIRST argument of append, no step of any
  App ever writes into an array another App reads: the backing arrays that exist at the beginning are never written, and
  every array created later is written once, by its creator, before anybody can read it.
-/
import Ioc.Conc

namespace Ioc.Conc

theorem StartSteps.trans {c : StartCfg} {a b d : StartSt} (h1 : StartSteps c a b) (h2 : StartSteps c b d) :
    StartSteps c a d := by
  induction h2 with
  | refl => exact h1
  | tail t u _ hs ih => exact StartSteps.tail _ t u ih hs

/-! ### slices and writes -/

theorem readSlice_length (h : Heap) (s : Slice) : (readSlice h s).length = s.len := by
  simp [readSlice]

theorem readSlice_getD (h : Heap) (s : Slice) (k : Nat) (hk : k < s.len) : (readSlice h s).getD k .other = h s.arr k := by
  simp [readSlice, List.getD_eq_getElem?_getD, hk]

/-- a slice is read through its own array only -/
theorem readSlice_congr (h h' : Heap) (s : Slice) (he : ∀ k, h s.arr k = h' s.arr k) : readSlice h s = readSlice h' s := by
  simp [readSlice, he]

theorem writeAt_outside (h : Heap) (arr off : Nat) (l : List SOpt) (a k : Nat)
    (ho : ¬ (a = arr ∧ off ≤ k ∧ k < off + l.length)) : writeAt h arr off l a k = h a k := by
  simp only [writeAt, if_neg ho]

theorem writeAt_inside (h : Heap) (arr off : Nat) (l : List SOpt) (k : Nat) (h1 : off ≤ k) (h2 : k < off + l.length) :
    writeAt h arr off l arr k = l.getD (k - off) .other := by
  simp [writeAt, h1, h2]

/-! ### what App i is meant to apply -/

/-- element k of `ops_i ++ globalOptions`, read from the heap of the beginning -/
def wantAt (c : StartCfg) (h0 : Heap) (i k : Nat) : SOpt :=
  if k < (c.ops i).len then h0 (c.ops i).arr k else h0 c.g.arr (k - (c.ops i).len)

def wantLen (c : StartCfg) (i : Nat) : Nat := (c.ops i).len + c.g.len

theorem want_eq (c : StartCfg) (h0 : Heap) (i : Nat) :
    (List.range (wantLen c i)).map (wantAt c h0 i) = readSlice h0 (c.ops i) ++ readSlice h0 c.g := by
  simp only [wantLen, List.range_add, List.map_append, List.map_map, readSlice]
  congr 1
  · apply List.map_congr_left
    intro k hk
    have : k < (c.ops i).len := by simpa using hk
    simp [wantAt, this]
  · apply List.map_congr_left
    intro k _
    have hn : ¬ ((c.ops i).len + k < (c.ops i).len) := by omega
    simp [wantAt, hn]

/-- the process at the beginning: the code that exists (own options first), globalOptions in array 0, App i's variadic
    slice in array i+1 with cap = len, every later array fresh -/
structure StartWF (c : StartCfg) (next0 : Nat) : Prop where
  own_first : c.globalsFirst = false
  garr : c.g.arr = 0
  oarr : ∀ i, i < c.napps → (c.ops i).arr = i + 1
  ocap : ∀ i, i < c.napps → (c.ops i).cap = (c.ops i).len
  fresh : c.napps + 1 ≤ next0

structure SInv (c : StartCfg) (h0 : Heap) (s : StartSt) : Prop where
  nx : c.napps + 1 ≤ s.next
  static : ∀ a, a ≤ c.napps → ∀ k, s.heap a k = h0 a k
  built : ∀ i sl, i < c.napps → s.sl i = some sl →
    sl.len = wantLen c i ∧ sl.arr < s.next ∧ ∀ k, k < sl.len → s.heap sl.arr k = wantAt c h0 i k
  fresh0 : ∀ i, s.sl i = none → s.pos i = 0
  app : ∀ i, s.applied i = (List.range (s.pos i)).map (wantAt c h0 i)

theorem sinv_init (c : StartCfg) (h0 : Heap) (next0 : Nat) (wf : StartWF c next0) : SInv c h0 (startInit h0 next0) :=
  ⟨wf.fresh, fun _ _ _ => rfl, fun i sl _ h => by simp [startInit] at h, fun _ _ => rfl, fun _ => by simp [startInit]⟩

theorem sinv_step {c : StartCfg} {h0 : Heap} {next0 : Nat} (wf : StartWF c next0) {s s' : StartSt}
    (hi : SInv c h0 s) (hs : StartStep c s s') : SInv c h0 s' := by
  cases hs with
  | build j hj hnone =>
    have harr := wf.oarr j hj
    have hcap := wf.ocap j hj
    -- what this App reads is what was there at the beginning
    have hA : readSlice s.heap (c.ops j) = readSlice h0 (c.ops j) :=
      readSlice_congr _ _ _ (fun k => hi.static _ (by rw [harr]; omega) k)
    have hG : readSlice s.heap c.g = readSlice h0 c.g :=
      readSlice_congr _ _ _ (fun k => hi.static _ (by rw [wf.garr]; omega) k)
    by_cases hfit : (c.ops j).len + c.g.len ≤ (c.ops j).cap
    · -- in place: only possible when there are no global options; nothing is written
      have hg0 : c.g.len = 0 := by omega
      have hheap : (buildSt c s j).heap = s.heap := by
        funext a k
        simp only [buildSt, wf.own_first, goAppend, if_pos hfit]
        apply writeAt_outside
        rw [readSlice_length, hg0]; omega
      have hnext : (buildSt c s j).next = s.next := by
        simp only [buildSt, wf.own_first, goAppend, if_pos hfit]; rfl
      have hsl : (buildSt c s j).sl = upd s.sl j (some ⟨(c.ops j).arr, (c.ops j).len + c.g.len, (c.ops j).cap⟩) := by
        simp only [buildSt, wf.own_first, goAppend, if_pos hfit]; rfl
      refine ⟨by rw [hnext]; exact hi.nx, by rw [hheap]; exact hi.static, ?_, ?_, hi.app⟩
      · intro i sl hilt hsome
        rw [hsl] at hsome
        rw [hheap, hnext]
        by_cases hij : i = j
        · subst hij
          simp only [upd, ↓reduceIte, Option.some.injEq] at hsome
          subst hsome
          refine ⟨rfl, by simp only [harr]; have := hi.nx; omega, ?_⟩
          intro k hk
          have hk' : k < (c.ops i).len := by simp only at hk; omega
          simp only [wantAt, if_pos hk']
          exact hi.static _ (by rw [harr]; omega) k
        · simp only [upd, if_neg hij] at hsome
          exact hi.built i sl hilt hsome
      · intro i hn
        rw [hsl] at hn
        by_cases hij : i = j
        · subst hij; simp [upd] at hn
        · simp only [upd, if_neg hij] at hn
          exact hi.fresh0 i hn
    · -- a fresh array, written by this App only
      have hheap : (buildSt c s j).heap =
          writeAt (writeAt s.heap s.next 0 (readSlice h0 (c.ops j))) s.next (c.ops j).len (readSlice h0 c.g) := by
        simp only [buildSt, wf.own_first, goAppend, if_neg hfit, hA, hG]; rfl
      have hnext : (buildSt c s j).next = s.next + 1 := by
        simp only [buildSt, wf.own_first, goAppend, if_neg hfit]; rfl
      have hsl : (buildSt c s j).sl =
          upd s.sl j (some ⟨s.next, (c.ops j).len + c.g.len, (c.ops j).len + c.g.len⟩) := by
        simp only [buildSt, wf.own_first, goAppend, if_neg hfit]; rfl
      have hother : ∀ a k, a ≠ s.next → (buildSt c s j).heap a k = s.heap a k := by
        intro a k ha
        rw [hheap, writeAt_outside _ _ _ _ _ _ (fun h => ha h.1), writeAt_outside _ _ _ _ _ _ (fun h => ha h.1)]
      refine ⟨by rw [hnext]; have := hi.nx; omega, ?_, ?_, ?_, hi.app⟩
      · intro a ha k
        rw [hother a k (by have := hi.nx; omega)]
        exact hi.static a ha k
      · intro i sl hilt hsome
        rw [hsl] at hsome
        rw [hnext]
        by_cases hij : i = j
        · subst hij
          simp only [upd, ↓reduceIte, Option.some.injEq] at hsome
          subst hsome
          refine ⟨rfl, by simp only; omega, ?_⟩
          intro k hk
          simp only at hk
          simp only
          rw [hheap]
          by_cases hk' : k < (c.ops i).len
          · rw [writeAt_outside _ _ _ _ _ _ (by omega),
              writeAt_inside _ _ _ _ _ (by omega) (by rw [readSlice_length]; omega),
              readSlice_getD _ _ _ (by omega)]
            simp [wantAt, hk']
          · rw [writeAt_inside _ _ _ _ _ (by omega) (by rw [readSlice_length]; omega),
              readSlice_getD _ _ _ (by omega)]
            simp [wantAt, hk']
        · simp only [upd, if_neg hij] at hsome
          obtain ⟨h1, h2, h3⟩ := hi.built i sl hilt hsome
          refine ⟨h1, by omega, ?_⟩
          intro k hk
          rw [hother _ _ (by omega)]
          exact h3 k hk
      · intro i hn
        rw [hsl] at hn
        by_cases hij : i = j
        · subst hij; simp [upd] at hn
        · simp only [upd, if_neg hij] at hn
          exact hi.fresh0 i hn
  | apply j sl hj hsome hp =>
    obtain ⟨_, _, hcont⟩ := hi.built j sl hj hsome
    refine ⟨hi.nx, hi.static, ?_, ?_, ?_⟩
    · intro i sl' hilt hs'
      exact hi.built i sl' hilt hs'
    · intro i hn
      have hij : i ≠ j := by
        intro h; subst h
        have : s.sl i = none := hn
        rw [hsome] at this; cases this
      have := hi.fresh0 i hn
      simp only [applySt, upd, if_neg hij]
      exact this
    · intro i
      by_cases hij : i = j
      · subst hij
        simp only [applySt, upd, ↓reduceIte]
        rw [List.range_succ, List.map_append, hi.app i, hcont _ hp]
        rfl
      · simp only [applySt, upd, if_neg hij]
        exact hi.app i

theorem sinv_steps {c : StartCfg} {h0 : Heap} {next0 : Nat} (wf : StartWF c next0) {s s' : StartSt}
    (hi : SInv c h0 s) (hs : StartSteps c s s') : SInv c h0 s' := by
  induction hs with
  | refl => exact hi
  | tail t u _ hstep ih => exact sinv_step wf ih hstep

/-- whatever the other Apps do in between: an App that has left its option loop applied its own options, then the
    global ones — nothing else, nothing twice -/
theorem starts_isolated (c : StartCfg) (h0 : Heap) (next0 : Nat) (wf : StartWF c next0) (s : StartSt)
    (hr : StartSteps c (startInit h0 next0) s) (i : Nat) (hi : i < c.napps) (hd : startDone s i) :
    s.applied i = readSlice h0 (c.ops i) ++ readSlice h0 c.g := by
  have inv := sinv_steps wf (sinv_init c h0 next0 wf) hr
  obtain ⟨sl, hsl, hpos⟩ := hd
  rw [inv.app i, hpos, (inv.built i sl hi hsl).1]
  exact want_eq c h0 i

/-! ### the executable schedule is a schedule -/

theorem applyAll_sound (c : StartCfg) (i : Nat) (hi : i < c.napps) :
    ∀ (fuel : Nat) (s : StartSt), StartSteps c s (applyAll s i fuel) := by
  intro fuel
  induction fuel with
  | zero => intro s; exact StartSteps.refl s
  | succ fuel ih =>
    intro s
    simp only [applyAll]
    split
    · rename_i sl hsl
      split
      · rename_i hp
        exact StartSteps.trans (StartSteps.tail _ _ _ (StartSteps.refl s) (StartStep.apply s i sl hi hsl hp)) (ih _)
      · exact StartSteps.refl s
    · exact StartSteps.refl s

theorem foldl_steps (c : StartCfg) (f : StartSt → Nat → StartSt)
    (hf : ∀ s i, i < c.napps → StartSteps c s (f s i)) :
    ∀ (l : List Nat), (∀ i, i ∈ l → i < c.napps) → ∀ s, StartSteps c s (l.foldl f s) := by
  intro l
  induction l with
  | nil => intro _ s; exact StartSteps.refl s
  | cons a r ih =>
    intro hl s
    simp only [List.foldl_cons]
    exact StartSteps.trans (hf s a (hl a (by simp))) (ih (fun i hi => hl i (by simp [hi])) _)

theorem startRendezvous_sound (c : StartCfg) (s0 : StartSt) : StartSteps c s0 (startRendezvous c s0) := by
  have hr : ∀ i, i ∈ List.range c.napps → i < c.napps := fun i hi => by simpa using hi
  unfold startRendezvous
  refine StartSteps.trans (foldl_steps c _ ?_ _ hr s0) (foldl_steps c _ ?_ _ hr _)
  · intro s i hi
    by_cases hn : s.sl i = none
    · simp only [if_pos hn]
      exact StartSteps.tail _ _ _ (StartSteps.refl s) (StartStep.build s i hi hn)
    · simp only [if_neg hn]
      exact StartSteps.refl s
  · intro s i hi
    exact applyAll_sound c i hi _ s

/-! ### the standard layout (`stdHeap`, `stdCfg`): whose runners an App registers -/

theorem stdCfg_wf (glen gcap nops napps : Nat) : StartWF (stdCfg false glen gcap nops napps) (napps + 1) :=
  ⟨rfl, rfl, fun _ _ => rfl, fun _ _ => rfl, Nat.le_refl _⟩

theorem mem_readSlice (h : Heap) (s : Slice) (x : SOpt) : x ∈ readSlice h s ↔ ∃ k, k < s.len ∧ h s.arr k = x := by
  simp [readSlice]

/-- in the standard layout App i's own options hold the SetComponents of App i and of nobody else, and the global options
    hold none -/
theorem std_comps_mem (glen gcap nops napps : Nat) (hn : 1 ≤ nops) (i j : Nat) :
    SOpt.comps j ∈ readSlice stdHeap ((stdCfg false glen gcap nops napps).ops i) ++
        readSlice stdHeap (stdCfg false glen gcap nops napps).g ↔ j = i := by
  simp only [List.mem_append, mem_readSlice, stdCfg, stdHeap]
  constructor
  · rintro (⟨k, _, hk⟩ | ⟨k, _, hk⟩)
    · simp only [Nat.add_one_ne_zero, if_false] at hk
      split at hk
      · simp only [Nat.add_sub_cancel] at hk
        exact (SOpt.comps.inj hk).symm
      · cases hk
    · simp at hk
  · intro h
    subst h
    exact Or.inl ⟨0, by omega, by simp⟩

end Ioc.Conc
