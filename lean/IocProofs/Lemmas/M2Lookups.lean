/-
  Lookups after the start (`M2.lookupAfter`): as long as no attempt fails, the machine invariant carries over from one
  lookup to the next, so everything proved from it for ONE start holds after any sequence of lazy creations.
-/
import IocProofs.Lemmas.M2Inv
import IocProofs.Lemmas.M2Term
namespace Ioc.M2.Lc
open Ioc Ioc.M2

/-- resuming creation from a state that has not failed keeps the invariant (registries, stack and fields are untouched) -/
theorem Inv.restart {sc : Scen} {a : St} (hi : Inv sc a) (hnf : NF a) (n : Nat) :
    Inv sc { a with status := .running, todo := [n], todoBoot := [], stage := .refresh } := by
  obtain ⟨al1, al2, al3, ast, afl, atb, atd, asg, alg, asts⟩ := a
  exact ⟨hi.nodup, hi.l1_off, hi.on_has, hi.off_clean, hi.l1_name, hi.l2_name, hi.l1_src, hi.l2_src, hi.stk_names,
    (fun h => absurd rfl h), hi.fld_dom, hi.one_ver, (fun _ => hi.fld_live hnf), (fun _ => hi.fld hnf), hi.acc⟩

theorem lookupAfter_inv (sc : Scen) (wf : WF sc) (st : St) (hi : Inv sc st) (hnf : NF st) (n : Nat) :
    Inv sc (lookupAfter sc st n) := by
  unfold lookupAfter
  cases hs : st.status with
  | running => exact hi
  | done => exact inv_run' sc wf _ _ (Inv.restart hi hnf n)
  | failed w s => exact absurd hs (hnf w s)

/-- a sequence of lookups -/
def lookupsAfter (sc : Scen) : St → List Nat → St
  | st, [] => st
  | st, n :: ns => lookupsAfter sc (lookupAfter sc st n) ns

/-- no attempt of the sequence fails -/
def AllNF (sc : Scen) : St → List Nat → Prop
  | st, [] => NF st
  | st, n :: ns => NF st ∧ AllNF sc (lookupAfter sc st n) ns

theorem lookupsAfter_inv (sc : Scen) (wf : WF sc) (ns : List Nat) : ∀ (st : St), Inv sc st → AllNF sc st ns →
    Inv sc (lookupsAfter sc st ns) ∧ NF (lookupsAfter sc st ns) := by
  induction ns with
  | nil => intro st hi h; exact ⟨hi, h⟩
  | cons n ns ih =>
    intro st hi h
    exact ih _ (lookupAfter_inv sc wf st hi h.1 n) h.2

end Ioc.M2.Lc

namespace Ioc.M2
open Ioc.M2.Term

/-- a lookup after the start stops as well: within `fuelBound sc + 1` steps, from any quiescent stopped state -/
theorem lookupAfter_terminates (sc : Scen) (st : St) (n : Nat) (hs : st.stack = []) (hnr : st.status ≠ .running) :
    (lookupAfter sc st n).status ≠ .running := by
  unfold lookupAfter
  cases hst : st.status with
  | running => exact absurd hst hnr
  | done =>
    simp only []
    intro hr
    have hri : RInv sc { st with status := .running, todo := [n], todoBoot := [], stage := .refresh } := by
      intro _; simp only [TInv, hs]; exact tinvL_nil sc _ _ _
    have h := run_bound sc (fuelBound sc + 1) _ hri hr
    have h3 := mu_running sc _ hr
    have hmu : mu sc { st with status := .running, todo := [n], todoBoot := [], stage := .refresh } ≤ fuelBound sc + 1 := by
      simp only [mu, muRun, if_true, fuelBound, hs, List.length_nil, List.length_cons]
      have : (sc.names.map (potAux sc st.l1 [])).sum ≤ (sc.names.map (work sc)).sum := by
        exact sum_le_of_pointwise sc.names _ _ (fun x _ => potAux_le_work sc st.l1 [] x)
      omega
    omega
  | failed w s =>
    simp only []
    intro hr
    have hri : RInv sc { st with status := .running, todo := [n], todoBoot := [], stage := .refresh } := by
      intro _; simp only [TInv, hs]; exact tinvL_nil sc _ _ _
    have h := run_bound sc (fuelBound sc + 1) _ hri hr
    have h3 := mu_running sc _ hr
    have hmu : mu sc { st with status := .running, todo := [n], todoBoot := [], stage := .refresh } ≤ fuelBound sc + 1 := by
      simp only [mu, muRun, if_true, fuelBound, hs, List.length_nil, List.length_cons]
      have : (sc.names.map (potAux sc st.l1 [])).sum ≤ (sc.names.map (work sc)).sum := by
        exact sum_le_of_pointwise sc.names _ _ (fun x _ => potAux_le_work sc st.l1 [] x)
      omega
    omega
end Ioc.M2
