/-
  Lemmas about M1 (Ioc.Registry) at rest: the in-creation marks after an operation tree are among the marks before it
  (every creation drops its own mark on both exits), so a history that starts with no creation running ends with no
  creation running — and then, by the invariant (l2 ∪ l3 ⊆ inCr), levels 2 and 3 hold NOTHING: whatever failed, at
  whatever nesting depth, through however many enclosing creations the error passed, no early reference and no
  early-reference factory of a failed (or of any) creation is left behind.
  Core Lean only.
-/
import IocProofs.Lemmas.Registry
namespace Ioc
open Reg

mutual
/-- no operation tree leaves a mark behind that was not there before -/
theorem exec_inCr_sub (r : Reg) (k : Name) : (a : Act) → k ∈ (exec r a).1.inCr → k ∈ r.inCr
  | .lookup n b e => by
    rw [exec_lookup]; simp
  | .getOrCreate n early body res => by
    by_cases hg : (r.get n true early).1 = .ok none
    · rw [exec_create r n early body res hg]
      intro hk
      obtain ⟨_, h1, _, _⟩ := get_miss r n true early hg
      have hkn : k ∈ (execs (r.startCreate n) body).1.inCr ∧ k ≠ n := by
        cases res with
        | error x => simpa using hk
        | ok o => simpa using hk
      have h2 := execs_inCr_sub (r.startCreate n) k body hkn.1
      rw [startCreate_eq r n h1] at h2
      have h3 : k = n ∨ k ∈ r.inCr := by simpa using h2
      cases h3 with
      | inl h => exact absurd h hkn.2
      | inr h => exact h
    · rw [exec_answered r n early body res hg]; simp
theorem execs_inCr_sub (r : Reg) (k : Name) : (as : List Act) → k ∈ (execs r as).1.inCr → k ∈ r.inCr
  | [] => by simp
  | a :: as => by
    rw [execs_cons]
    intro h
    exact exec_inCr_sub r k a (execs_inCr_sub _ k as h)
end

/-- a registry at rest (no creation running) that satisfies the invariant holds nothing in levels 2 and 3 -/
theorem Reg.Inv.rest_clean {r : Reg} (hi : r.Inv) (h0 : ∀ k, k ∉ r.inCr) (n : Name) :
    r.l2? n = none ∧ n ∉ r.l3 := by
  refine ⟨?_, fun h => h0 n (hi.l3_inCr n h)⟩
  cases h : r.l2? n with
  | none => rfl
  | some o => exact absurd (hi.l2_inCr n (by simp [h])) (h0 n)

/-- a lookup at rest answers from level 1 alone, changes nothing and runs no factory -/
theorem Reg.Inv.rest_get {r : Reg} (hi : r.Inv) (h0 : ∀ k, k ∉ r.inCr) (n : Name) (b : Bool) (e : Except Err Obj) :
    r.get n b e = (.ok (r.l1? n), r) ∧ r.runsEarly n b = false := by
  obtain ⟨h2, h3⟩ := hi.rest_clean h0 n
  refine ⟨?_, runsEarly_no_factory r n b h3⟩
  cases h1 : r.l1? n with
  | some o => exact get_l1 r n b e o h1
  | none => exact get_no_factory r n b e h1 h2 h3

/-- every history that starts at rest ends at rest, with levels 2 and 3 empty -/
theorem execs_rest (r : Reg) (hi : r.Inv) (h0 : ∀ k, k ∉ r.inCr) (as : List Act) :
    (∀ k, k ∉ (execs r as).1.inCr) ∧ ∀ n, (execs r as).1.l2? n = none ∧ n ∉ (execs r as).1.l3 := by
  have h0' : ∀ k, k ∉ (execs r as).1.inCr := fun k h => h0 k (execs_inCr_sub r k as h)
  exact ⟨h0', fun n => (execs_inv r hi as).rest_clean h0' n⟩

/-- the failure chain of an unknown name: creations of `n`, then of each of `ns` nested inside one another, the innermost
    one failing at once (no definition), every enclosing one failing with that error -/
def failChain (x : Err) : Name → List Name → Act
  | n, [] => .getOrCreate n (.error x) [] (.error x)
  | n, m :: ms => .getOrCreate n (.error x) [failChain x m ms] (.error x)

end Ioc
