/-
  Lemmas for C12: post-processors that come back from the factory as ANOTHER instance (a decorator / proxy put around
  them by an earlier processor's PostProcessAfterInitialization, delegate:52-58 `processor = icp`).  Core Lean only.

  `start … (fun x => some (r x)) …` is the start in which the factory answers the registered processor `x` with `r x`.
  The chain is `(sortOrdered sort part procs).map r`: every registered processor's position is decided by what the
  sorter sees of the REGISTERED processor; nothing is assumed about `part (r x)` (a decorator usually has neither
  `Order()` nor `Priority()`).
-/
import IocProofs.Lemmas.Order
namespace Ioc.Order

variable {α : Type} {part : α → Part} {sort : (α → α → Bool) → List α → List α}

theorem invokeRegister_resolved (r : α → α) (procs : List α) :
    invokeRegister sort part (fun x => some (r x)) procs [] = ((sortOrdered sort part procs).map r, false) := by
  have := registerLoop_total r (sortOrdered sort part procs) []
  simpa [invokeRegister] using this

/-- `start_in_order` for an arbitrary resolution `r` of the registered processors -/
theorem start_resolved_in_order (hs : SortSpec part sort)
    (loadRes : α → Step) (r : α → α) (isInst : α → Bool) (instRes : α → Step)
    (before after : α → Unit → Res Unit) (runFails : α → Bool) (loaders procs runners : List α) :
    let g := start sort part loadRes (fun x => some (r x)) isInst instRes before after runFails loaders procs runners
    let chain := (sortOrdered sort part procs).map r
    firsts g.loads <+: sortOrdered sort part loaders ∧
    firsts g.inst <+: chain.filter isInst ∧
    g.before <+: chain ∧
    g.after <+: chain ∧
    g.runs <+: sortOrdered sort part runners ∧
    ((∀ x, (loadRes x).stops = false) → (∀ x, (instRes x).stops = false) →
     (∀ p b, ∃ c, before p b = .val c) → (∀ p b, ∃ c, after p b = .val c) → (∀ x, runFails x = false) →
       g.err = false ∧
       firsts g.loads = sortOrdered sort part loaders ∧
       firsts g.inst = chain.filter isInst ∧
       g.before = chain ∧
       g.after = chain ∧
       g.runs = sortOrdered sort part runners) := by
  have hreg := invokeRegister_resolved (sort := sort) (part := part) r procs
  have hL := loadConfigure_firsts (sort := sort) (part := part) loadRes loaders
  have hL2 : (loadConfigure sort part loadRes loaders).2 = (sortOrdered sort part loaders).any (fun x => (loadRes x).stops) := by
    unfold loadConfigure; rw [twoStepLoop_eq]
  have hI := resolveAfterInstantiation_firsts isInst instRes ((sortOrdered sort part procs).map r)
  have hI2 : (resolveAfterInstantiation isInst instRes ((sortOrdered sort part procs).map r)).2 =
      (((sortOrdered sort part procs).map r).filter isInst).any (fun x => (instRes x).stops) := by
    unfold resolveAfterInstantiation; rw [twoStepLoop_eq]
  obtain ⟨hB, hA, hC⟩ := initializeComponent_in_order before after (fun _ => false) ((sortOrdered sort part procs).map r) ()
  have hR := callRunners_eq hs runFails runners
  have pL := takeUntil_prefix (fun x => (loadRes x).stops) (sortOrdered sort part loaders)
  have pI := takeUntil_prefix (fun x => (instRes x).stops) (((sortOrdered sort part procs).map r).filter isInst)
  have pR := takeUntil_prefix runFails (sortOrdered sort part runners)
  rw [← hL] at pL; rw [← hI] at pI
  intro g chain
  have hg : g = start sort part loadRes (fun x => some (r x)) isInst instRes before after runFails loaders procs runners := rfl
  have hc : chain = (sortOrdered sort part procs).map r := rfl
  clear_value g chain
  subst hc
  unfold start at hg
  simp only [hreg] at hg
  by_cases h1 : (loadConfigure sort part loadRes loaders).2 = true
  · simp only [h1, if_true] at hg
    subst hg
    refine ⟨pL, by simp [firsts], List.nil_prefix, List.nil_prefix, List.nil_prefix, ?_⟩
    intro n1 _ _ _ _
    rw [hL2, any_false n1] at h1; cases h1
  · simp only [h1, if_false, Bool.false_eq_true] at hg
    by_cases h2 : (resolveAfterInstantiation isInst instRes ((sortOrdered sort part procs).map r)).2 = true
    · simp only [h2, if_true] at hg
      subst hg
      refine ⟨pL, pI, List.nil_prefix, List.nil_prefix, List.nil_prefix, ?_⟩
      intro _ n2 _ _ _
      rw [hI2, any_false n2] at h2; cases h2
    · simp only [h2, if_false, Bool.false_eq_true] at hg
      cases h3 : (initializeComponent before after (fun _ => false) ((sortOrdered sort part procs).map r) ()).2.2 with
      | none =>
        simp only [h3] at hg
        subst hg
        refine ⟨pL, pI, hB, hA, List.nil_prefix, ?_⟩
        intro _ _ n3 n4 _
        have := (hC n3 n4 (fun _ => rfl)).2.2
        rw [h3] at this; cases this
      | some v =>
        simp only [h3, hR] at hg
        subst hg
        refine ⟨pL, pI, hB, hA, pR, ?_⟩
        intro n1 n2 n3 n4 n5
        obtain ⟨c1, c2, _⟩ := hC n3 n4 (fun _ => rfl)
        refine ⟨any_false n5, ?_, ?_, c1, c2, takeUntil_all _ _ (fun x _ => n5 x)⟩
        · rw [hL]; exact takeUntil_all _ _ (fun x _ => n1 x)
        · rw [hI]; exact takeUntil_all _ _ (fun x _ => n2 x)

theorem prefix_map {β : Type} (f : α → β) {l₁ l₂ : List α} (h : l₁ <+: l₂) : l₁.map f <+: l₂.map f := by
  obtain ⟨t, rfl⟩ := h
  exact ⟨t.map f, by simp⟩

theorem map_resolved_orig (r orig : α → α) (horig : ∀ x, orig (r x) = x) (l : List α) : (l.map r).map orig = l := by
  induction l with
  | nil => rfl
  | cons x rest ih => simp only [List.map_cons, horig x, ih]

end Ioc.Order
