/-
  Termination of the factory machine (Ioc.Container, M2).

  Potential: every definition `n` owes `work sc n` steps until it is published (then 0); while it is on the creation
  stack its frame has already paid `progress` of them. `mu` = 1 + Σ owed + what is left of the two work lists while the
  machine runs, 0 once it has stopped. Every step from a running state strictly decreases `mu` (`mu_dec`); the invariant
  carried along (`TInv`) is the part of the cache protocol that termination needs: creation-stack names are distinct,
  registered, absent from l1 and present in l2/l3; every frame is inside its work list; every frame but the innermost
  waits on a candidate. No hypothesis on the scenario is needed: a cycle is cut because the second visit of a name finds
  its entry in l3/l2 (early exposure) and so never pushes a second frame.

  Helper lemmas live in `Ioc.M2.Term`; the exported names are `mu`, `TInv`, `mu_dec`, `mu_init_le`, `TermWF`,
  `terminates`, `run_stable`.
-/
import IocProofs.Lemmas.M2Basic
namespace Ioc.M2
namespace Term

/-! ### sums -/

theorem sum_take_le (l : List Nat) (k : Nat) : (l.take k).sum ≤ l.sum := by
  induction l generalizing k with
  | nil => simp
  | cons a l ih =>
    cases k with
    | zero => simp
    | succ k => simp only [List.take_succ_cons, List.sum_cons]; have := ih k; omega

theorem sum_take_succ (l : List Nat) (k : Nat) (h : k < l.length) : (l.take (k+1)).sum = (l.take k).sum + l[k] := by
  induction l generalizing k with
  | nil => simp at h
  | cons a l ih =>
    cases k with
    | zero => simp
    | succ k =>
      simp only [List.take_succ_cons, List.sum_cons, List.getElem_cons_succ]
      have := ih k (by simpa using h)
      omega

theorem sum_le_of_pointwise (l : List Nat) (f g : Nat → Nat) (hle : ∀ x ∈ l, f x ≤ g x) :
    (l.map f).sum ≤ (l.map g).sum := by
  induction l with
  | nil => simp
  | cons a l ih =>
    simp only [List.map_cons, List.sum_cons]
    have := hle a (by simp)
    have := ih (fun x hx => hle x (by simp [hx]))
    omega

theorem sum_lt_of_pointwise (l : List Nat) (f g : Nat → Nat) (hle : ∀ x ∈ l, f x ≤ g x)
    (hlt : ∃ x ∈ l, f x < g x) : (l.map f).sum < (l.map g).sum := by
  induction l with
  | nil => obtain ⟨x, hx, _⟩ := hlt; simp at hx
  | cons a l ih =>
    simp only [List.map_cons, List.sum_cons]
    have ha := hle a (by simp)
    have hle' : ∀ x ∈ l, f x ≤ g x := fun x hx => hle x (by simp [hx])
    have hsum := sum_le_of_pointwise l f g hle'
    obtain ⟨x, hx, hxlt⟩ := hlt
    rcases List.mem_cons.mp hx with rfl | hx
    · omega
    · have := ih hle' ⟨x, hx, hxlt⟩; omega

/-! ### progress of a frame -/

/-- steps already paid by a frame: 1 for entering, one per finished point and candidate -/
def progress (sc : Scen) (f : Frame) : Nat :=
  1 + (((pts sc f.name).take f.p).map (fun p => p.cands.length + 1)).sum + f.d

/-- a frame is inside its work list -/
def FrameOK (sc : Scen) (f : Frame) : Prop :=
  f.p ≤ (pts sc f.name).length ∧
  (∀ h : f.p < (pts sc f.name).length, f.d ≤ ((pts sc f.name)[f.p]).cands.length) ∧
  (f.p = (pts sc f.name).length → f.d = 0)

/-- a frame that is waiting for a nested creation points at a candidate -/
def WaitOK (sc : Scen) (g : Frame) : Prop :=
  ∃ hp : g.p < (pts sc g.name).length, g.d < ((pts sc g.name)[g.p]).cands.length

theorem progress_lt (sc : Scen) (f : Frame) (h : FrameOK sc f) : progress sc f < work sc f.name := by
  unfold progress work
  obtain ⟨hp, hd, hz⟩ := h
  by_cases hlt : f.p < (pts sc f.name).length
  · have h1 := hd hlt
    have h2 := sum_take_succ ((pts sc f.name).map (fun p => p.cands.length + 1)) f.p (by simpa using hlt)
    have h3 := sum_take_le ((pts sc f.name).map (fun p => p.cands.length + 1)) (f.p + 1)
    simp only [List.getElem_map] at h2
    rw [← List.map_take] at h2 h3
    rw [← List.map_take] at h2
    omega
  · have : f.p = (pts sc f.name).length := by omega
    have hz' := hz this
    have h3 := sum_take_le ((pts sc f.name).map (fun p => p.cands.length + 1)) f.p
    rw [← List.map_take] at h3
    omega

theorem progress_bump (sc : Scen) (g : Frame) (acc' : List Obj) :
    progress sc { g with d := g.d + 1, acc := acc' } = progress sc g + 1 := by
  simp only [progress]; omega

theorem progress_next (sc : Scen) (f : Frame) (hf : FrameOK sc f) (hp : f.p < (pts sc f.name).length)
    (hd : ¬ f.d < ((pts sc f.name)[f.p]).cands.length) (a : List Obj) :
    progress sc { f with p := f.p + 1, d := 0, acc := a } = progress sc f + 1 := by
  have h1 := hf.2.1 hp
  have h2 := sum_take_succ ((pts sc f.name).map (fun p => p.cands.length + 1)) f.p (by simpa using hp)
  simp only [List.getElem_map] at h2
  rw [← List.map_take, ← List.map_take] at h2
  simp only [progress]
  omega

theorem frameOK_new (sc : Scen) (c : Nat) : FrameOK sc ⟨c, 0, 0, []⟩ :=
  ⟨Nat.zero_le _, fun _ => Nat.zero_le _, fun _ => rfl⟩

/-! ### the potential of one name, as a function of the two state components it reads -/

def potAux (sc : Scen) (l1 : Nat → Option Obj) (stack : List Frame) (n : Nat) : Nat :=
  match l1 n with
  | some _ => 0
  | none =>
    match stack.find? (fun f => f.name == n) with
    | some f => work sc n - progress sc f
    | none => work sc n

theorem find_cons_ne (f : Frame) (rest : List Frame) (n : Nat) (h : f.name ≠ n) :
    (f :: rest).find? (fun x => x.name == n) = rest.find? (fun x => x.name == n) := by
  have : (f.name == n) = false := by simp [h]
  simp [List.find?, this]

theorem find_cons_eq (f : Frame) (rest : List Frame) :
    (f :: rest).find? (fun x => x.name == f.name) = some f := by simp [List.find?]

theorem potAux_le_work (sc : Scen) (l1 : Nat → Option Obj) (stack : List Frame) (n : Nat) :
    potAux sc l1 stack n ≤ work sc n := by
  unfold potAux; split
  · omega
  · split <;> omega

/-- replacing the top frame by one with the same name and at least as much progress -/
theorem potAux_top (sc : Scen) (l1 : Nat → Option Obj) (f f' : Frame) (rest : List Frame) (hn : f'.name = f.name)
    (hp : progress sc f ≤ progress sc f') (n : Nat) :
    potAux sc l1 (f' :: rest) n ≤ potAux sc l1 (f :: rest) n := by
  unfold potAux; split
  · omega
  · by_cases h : f.name = n
    · subst h
      have e1 : (f' :: rest).find? (fun x => x.name == f.name) = some f' := by rw [← hn]; exact find_cons_eq f' rest
      rw [e1, find_cons_eq f rest]; simp only; omega
    · rw [find_cons_ne f' rest n (by rw [hn]; exact h), find_cons_ne f rest n h]
      exact Nat.le_refl _

theorem potAux_top_lt (sc : Scen) (l1 : Nat → Option Obj) (f f' : Frame) (rest : List Frame) (hn : f'.name = f.name)
    (hp : progress sc f < progress sc f') (hl : l1 f.name = none) (hw : progress sc f < work sc f.name) :
    potAux sc l1 (f' :: rest) f.name < potAux sc l1 (f :: rest) f.name := by
  unfold potAux; rw [hl]; simp only
  have e1 : (f' :: rest).find? (fun x => x.name == f.name) = some f' := by rw [← hn]; exact find_cons_eq f' rest
  rw [e1, find_cons_eq f rest]; simp only; omega

/-- pushing a fresh name -/
theorem potAux_push (sc : Scen) (l1 : Nat → Option Obj) (stack : List Frame) (c : Nat) (n : Nat)
    (hs : stack.find? (fun x => x.name == c) = none) :
    potAux sc l1 (⟨c, 0, 0, []⟩ :: stack) n ≤ potAux sc l1 stack n := by
  unfold potAux; split
  · omega
  · by_cases h : c = n
    · subst h
      rw [find_cons_eq (⟨c, 0, 0, []⟩ : Frame) stack, hs]; simp only
      omega
    · rw [find_cons_ne _ stack n h]; exact Nat.le_refl _

theorem potAux_push_lt (sc : Scen) (l1 : Nat → Option Obj) (stack : List Frame) (c : Nat)
    (hl : l1 c = none) (hs : stack.find? (fun x => x.name == c) = none) :
    potAux sc l1 (⟨c, 0, 0, []⟩ :: stack) c < potAux sc l1 stack c := by
  unfold potAux; rw [hl]; simp only
  rw [find_cons_eq (⟨c, 0, 0, []⟩ : Frame) stack, hs]; simp only
  simp [progress, work]

/-- the stack after the top frame returned `pub` to its caller -/
def popStack (pub : Obj) : List Frame → List Frame
  | [] => []
  | g :: rest' => { g with d := g.d + 1, acc := g.acc ++ [pub] } :: rest'

theorem publish_stack (st : St) (n : Nat) (pub : Obj) (rest : List Frame) :
    (publish st n pub rest).stack = popStack pub rest := by
  unfold publish popStack; cases rest <;> rfl

theorem potAux_publish_le (sc : Scen) (l1 : Nat → Option Obj) (f : Frame) (rest : List Frame) (pub : Obj) (m : Nat) :
    potAux sc (upd l1 f.name (some pub)) (popStack pub rest) m ≤ potAux sc l1 (f :: rest) m := by
  by_cases hm : m = f.name
  · subst hm; unfold potAux; simp [upd]
  · have hl : upd l1 f.name (some pub) m = l1 m := by simp [upd, hm]
    unfold potAux; rw [hl]; split
    · omega
    · rw [find_cons_ne f rest m (Ne.symm hm)]
      cases rest with
      | nil => simp [popStack]
      | cons g rest' =>
        simp only [popStack]
        by_cases hg : g.name = m
        · subst hg
          have e1 : (({ g with d := g.d + 1, acc := g.acc ++ [pub] } : Frame) :: rest').find? (fun x => x.name == g.name)
              = some { g with d := g.d + 1, acc := g.acc ++ [pub] } := by simp [List.find?]
          rw [e1, find_cons_eq g rest']; simp only
          have := progress_bump sc g (g.acc ++ [pub]); omega
        · rw [find_cons_ne _ rest' m (by simpa using hg), find_cons_ne g rest' m hg]
          exact Nat.le_refl _

theorem potAux_publish_lt (sc : Scen) (l1 : Nat → Option Obj) (f : Frame) (rest : List Frame) (pub : Obj)
    (hl : l1 f.name = none) (hw : progress sc f < work sc f.name) :
    potAux sc (upd l1 f.name (some pub)) (popStack pub rest) f.name < potAux sc l1 (f :: rest) f.name := by
  unfold potAux
  simp only [upd_same, hl, find_cons_eq f rest]
  omega

end Term

open Term

/-! ### the potential -/

/-- what is still owed while the machine runs -/
def muRun (sc : Scen) (st : St) : Nat :=
  (sc.names.map (potAux sc st.l1 st.stack)).sum + (st.todoBoot.length + st.todo.length)

/-- the termination measure: positive while running, 0 once stopped -/
def mu (sc : Scen) (st : St) : Nat :=
  if st.status = .running then 1 + muRun sc st else 0

namespace Term

theorem mu_running (sc : Scen) (st : St) (h : st.status = .running) : mu sc st = 1 + muRun sc st := by
  simp [mu, h]

theorem mu_stopped (sc : Scen) (st : St) (h : st.status ≠ .running) : mu sc st = 0 := by
  simp [mu, h]

theorem mu_congr (sc : Scen) (a b : St) (h : SameButLog a b) : mu sc a = mu sc b := by
  simp only [mu, muRun, h.l1, h.stack, h.todoBoot, h.todo, h.status]

theorem mu_lt_of (sc : Scen) (st st' : St) (hr : st.status = .running) (hr' : st'.status = .running)
    (hle : ∀ n ∈ sc.names, potAux sc st'.l1 st'.stack n ≤ potAux sc st.l1 st.stack n)
    (hcase : (∃ n ∈ sc.names, potAux sc st'.l1 st'.stack n < potAux sc st.l1 st.stack n) ∨
      st'.todoBoot.length + st'.todo.length < st.todoBoot.length + st.todo.length)
    (htodo : st'.todoBoot.length + st'.todo.length ≤ st.todoBoot.length + st.todo.length) :
    mu sc st' < mu sc st := by
  rw [mu_running sc st hr, mu_running sc st' hr']
  unfold muRun
  rcases hcase with h | h
  · have := sum_lt_of_pointwise sc.names _ _ hle h; omega
  · have := sum_le_of_pointwise sc.names _ _ hle; omega

end Term

/-! ### the invariant termination needs -/

structure TInvL (sc : Scen) (l1 l2 : Nat → Option Obj) (l3 : Nat → Bool) (s : List Frame) : Prop where
  nodup : (s.map (·.name)).Nodup
  l1_off : ∀ f ∈ s, l1 f.name = none
  on_has : ∀ f ∈ s, (l2 f.name).isSome ∨ l3 f.name = true
  stk_names : ∀ f ∈ s, f.name ∈ sc.names
  frames : ∀ f ∈ s, FrameOK sc f
  wait : ∀ g ∈ s.tail, WaitOK sc g

/-- creation-stack names are distinct, registered, not in l1, exposed in l2/l3; frames are inside their work lists and
    all but the innermost wait on a candidate -/
def TInv (sc : Scen) (st : St) : Prop := TInvL sc st.l1 st.l2 st.l3 st.stack

namespace Term

theorem tinv_congr (sc : Scen) (a b : St) (h : SameButLog a b) : TInv sc a ↔ TInv sc b := by
  simp only [TInv, h.l1, h.l2, h.l3, h.stack]

theorem tinvL_nil (sc : Scen) (l1 l2 : Nat → Option Obj) (l3 : Nat → Bool) : TInvL sc l1 l2 l3 [] := by
  constructor <;> simp

/-- the early-reference move l3 → l2 (or any change that keeps exposed names exposed) -/
theorem tinvL_expose (sc : Scen) (l1 l2 l2' : Nat → Option Obj) (l3 l3' : Nat → Bool) (s : List Frame)
    (h : TInvL sc l1 l2 l3 s)
    (hx : ∀ x, ((l2 x).isSome ∨ l3 x = true) → ((l2' x).isSome ∨ l3' x = true)) : TInvL sc l1 l2' l3' s :=
  ⟨h.nodup, h.l1_off, fun f hf => hx _ (h.on_has f hf), h.stk_names, h.frames, h.wait⟩

theorem not_exposed_off (sc : Scen) (l1 l2 : Nat → Option Obj) (l3 : Nat → Bool) (s : List Frame)
    (h : TInvL sc l1 l2 l3 s) (c : Nat) (h2 : l2 c = none) (h3 : l3 c = false) : ∀ f ∈ s, f.name ≠ c := by
  intro f hf hc
  rcases h.on_has f hf with h' | h'
  · rw [hc, h2] at h'; simp at h'
  · rw [hc, h3] at h'; simp at h'

theorem find_none_of_off (s : List Frame) (c : Nat) (h : ∀ f ∈ s, f.name ≠ c) :
    s.find? (fun x => x.name == c) = none := by
  rw [List.find?_eq_none]
  intro x hx hc
  simp only [beq_iff_eq] at hc
  exact h x hx hc

/-- pushing a name that is in no cache level -/
theorem tinvL_push (sc : Scen) (l1 l2 : Nat → Option Obj) (l3 : Nat → Bool) (s : List Frame)
    (h : TInvL sc l1 l2 l3 s) (c : Nat) (hc : c ∈ sc.names) (h1 : l1 c = none) (h2 : l2 c = none) (h3 : l3 c = false)
    (hw : ∀ g ∈ s, WaitOK sc g) : TInvL sc l1 l2 (upd l3 c true) (⟨c, 0, 0, []⟩ :: s) := by
  have hoff := not_exposed_off sc l1 l2 l3 s h c h2 h3
  constructor
  · simp only [List.map_cons]
    refine List.nodup_cons.mpr ⟨?_, h.nodup⟩
    intro hm
    obtain ⟨f, hf, hfn⟩ := List.mem_map.mp hm
    exact hoff f hf hfn
  · intro f hf
    rcases List.mem_cons.mp hf with rfl | hf
    · exact h1
    · exact h.l1_off f hf
  · intro f hf
    rcases List.mem_cons.mp hf with rfl | hf
    · right; simp
    · have := h.on_has f hf
      rwa [upd_other _ _ _ _ (hoff f hf)]
  · intro f hf
    rcases List.mem_cons.mp hf with rfl | hf
    · exact hc
    · exact h.stk_names f hf
  · intro f hf
    rcases List.mem_cons.mp hf with rfl | hf
    · exact frameOK_new sc c
    · exact h.frames f hf
  · exact hw

/-- the top frame advances -/
theorem tinvL_top (sc : Scen) (l1 l2 : Nat → Option Obj) (l3 : Nat → Bool) (f f' : Frame) (rest : List Frame)
    (h : TInvL sc l1 l2 l3 (f :: rest)) (hn : f'.name = f.name) (hf' : FrameOK sc f') :
    TInvL sc l1 l2 l3 (f' :: rest) := by
  constructor
  · have := h.nodup; simpa [hn] using this
  · intro g hg
    rcases List.mem_cons.mp hg with rfl | hg
    · rw [hn]; exact h.l1_off f (by simp)
    · exact h.l1_off g (by simp [hg])
  · intro g hg
    rcases List.mem_cons.mp hg with rfl | hg
    · rw [hn]; exact h.on_has f (by simp)
    · exact h.on_has g (by simp [hg])
  · intro g hg
    rcases List.mem_cons.mp hg with rfl | hg
    · rw [hn]; exact h.stk_names f (by simp)
    · exact h.stk_names g (by simp [hg])
  · intro g hg
    rcases List.mem_cons.mp hg with rfl | hg
    · exact hf'
    · exact h.frames g (by simp [hg])
  · exact h.wait

/-- the top frame is published and its caller resumes -/
theorem tinvL_publish (sc : Scen) (l1 l2 : Nat → Option Obj) (l3 : Nat → Bool) (f : Frame) (rest : List Frame)
    (pub : Obj) (h : TInvL sc l1 l2 l3 (f :: rest)) :
    TInvL sc (upd l1 f.name (some pub)) (upd l2 f.name none) (upd l3 f.name false) (popStack pub rest) := by
  have hnd := h.nodup
  simp only [List.map_cons] at hnd
  obtain ⟨hnot, hnd'⟩ := List.nodup_cons.mp hnd
  have hne : ∀ g ∈ rest, g.name ≠ f.name := fun g hg hgn => hnot (hgn ▸ List.mem_map.mpr ⟨g, hg, rfl⟩)
  -- every frame of the new stack has the name of a frame of `rest`, and is inside its work list
  have hfr : ∀ x ∈ popStack pub rest, (∃ g ∈ rest, g.name = x.name) ∧ FrameOK sc x := by
    intro x hx
    cases rest with
    | nil => simp [popStack] at hx
    | cons g rest' =>
      simp only [popStack] at hx
      rcases List.mem_cons.mp hx with rfl | hx
      · refine ⟨⟨g, by simp, rfl⟩, ?_⟩
        obtain ⟨hp, hd⟩ := h.wait g (by simp)
        exact ⟨Nat.le_of_lt hp, fun _ => hd, fun hh => by simp only at hh; omega⟩
      · exact ⟨⟨x, by simp [hx], rfl⟩, h.frames x (by simp [hx])⟩
  have hmap : (popStack pub rest).map (·.name) = rest.map (·.name) := by
    cases rest <;> simp [popStack]
  constructor
  · rw [hmap]; exact hnd'
  · intro x hx
    obtain ⟨⟨g, hg, hgn⟩, _⟩ := hfr x hx
    rw [← hgn, upd_other _ _ _ _ (hne g hg)]
    exact h.l1_off g (by simp [hg])
  · intro x hx
    obtain ⟨⟨g, hg, hgn⟩, _⟩ := hfr x hx
    rw [← hgn, upd_other _ _ _ _ (hne g hg), upd_other _ _ _ _ (hne g hg)]
    exact h.on_has g (by simp [hg])
  · intro x hx
    obtain ⟨⟨g, hg, hgn⟩, _⟩ := hfr x hx
    rw [← hgn]; exact h.stk_names g (by simp [hg])
  · intro x hx; exact (hfr x hx).2
  · intro x hx
    have : x ∈ rest.tail := by
      cases rest with
      | nil => simp [popStack] at hx
      | cons g rest' => simpa [popStack] using hx
    exact h.wait x (by simp only [List.tail_cons]; exact List.mem_of_mem_tail this)

/-! ### the sub-operations of a step -/

theorem lookup_hit (sc : Scen) (st st' : St) (c : Nat) (o : Obj) (hl : lookup sc st c = .hit o st') :
    st'.l1 = st.l1 ∧ st'.stack = st.stack ∧ st'.todoBoot = st.todoBoot ∧ st'.todo = st.todo ∧ st'.status = st.status ∧
    st'.fields = st.fields ∧ st'.stage = st.stage ∧
    (∀ x, ((st.l2 x).isSome ∨ st.l3 x = true) → ((st'.l2 x).isSome ∨ st'.l3 x = true)) := by
  unfold lookup at hl
  split at hl
  · simp only [Look.hit.injEq] at hl; obtain ⟨_, rfl⟩ := hl; simp
  · split at hl
    · simp only [Look.hit.injEq] at hl; obtain ⟨_, rfl⟩ := hl; simp
    · split at hl
      · dsimp only at hl
        split at hl
        · cases hl
        · simp only [Look.hit.injEq] at hl; obtain ⟨_, rfl⟩ := hl
          refine ⟨by simp, by simp, by simp, by simp, by simp, by simp, by simp, ?_⟩
          intro x hx
          by_cases hxc : x = c
          · subst hxc; left; simp
          · simpa [upd, hxc] using hx
      · cases hl

theorem lookup_err (sc : Scen) (st st' : St) (c : Nat) (hl : lookup sc st c = .err st') :
    st'.fields = st.fields ∧ st'.stage = st.stage := by
  unfold lookup at hl
  split at hl
  · cases hl
  · split at hl
    · cases hl
    · split at hl
      · dsimp only at hl
        split at hl
        · simp only [Look.err.injEq] at hl; subst hl; simp
        · cases hl
      · cases hl

theorem lookup_miss (sc : Scen) (st : St) (c : Nat) (hl : lookup sc st c = .miss) :
    st.l1 c = none ∧ st.l2 c = none ∧ st.l3 c = false := by
  unfold lookup at hl
  split at hl
  · cases hl
  · rename_i h1
    split at hl
    · cases hl
    · rename_i h2
      split at hl
      · dsimp only at hl
        split at hl <;> cases hl
      · rename_i h3
        exact ⟨h1, h2, by simpa using h3⟩

theorem failAt_status (st : St) (n : Nat) : (failAt st n).status = .failed n st.stage := rfl

theorem failAt_not_running (st : St) (n : Nat) : (failAt st n).status ≠ .running := by
  rw [failAt_status]; intro h; cases h

/-- the state `enter` builds before it logs or fails -/
def pushed (st : St) (c : Nat) : St := { st with l3 := upd st.l3 c true, stack := ⟨c, 0, 0, []⟩ :: st.stack }

theorem enter_running (sc : Scen) (st : St) (c : Nat) (h : (enter sc st c).status = .running) :
    c ∈ sc.names ∧ SameButLog (enter sc st c) (pushed st c) := by
  unfold enter at h ⊢
  split
  · rename_i hc
    refine ⟨hc, ?_⟩
    rw [if_pos hc] at h
    dsimp only at h ⊢
    split
    · rename_i hw
      rw [if_pos hw] at h
      split
      · rename_i hbad
        rw [if_pos hbad] at h
        exact absurd h (failAt_not_running _ _)
      · exact (addLog_same _ _ _ _).trans (addLog_same _ _ _ _)
    · exact SameButLog.refl _
  · rename_i hc
    rw [if_neg hc] at h
    exact absurd h (failAt_not_running _ _)

theorem enter_fields (sc : Scen) (st : St) (c : Nat) : (enter sc st c).fields = st.fields := by
  unfold enter
  split
  · dsimp only
    split
    · split <;> simp [failAt]
    · rfl
  · rfl

/-- entering a name after a cache miss: the potential does not grow, strictly drops when there is a frame below, and the
    invariant is kept -/
theorem enter_dec (sc : Scen) (st : St) (c : Nat) (hi : TInv sc st)
    (hm : lookup sc st c = .miss) (hw : ∀ g ∈ st.stack, WaitOK sc g)
    (hrun : (enter sc st c).status = .running) :
    TInv sc (enter sc st c) ∧
    (∀ n ∈ sc.names, potAux sc (enter sc st c).l1 (enter sc st c).stack n ≤ potAux sc st.l1 st.stack n) ∧
    (∃ n ∈ sc.names, potAux sc (enter sc st c).l1 (enter sc st c).stack n < potAux sc st.l1 st.stack n) ∧
    (enter sc st c).todoBoot = st.todoBoot ∧ (enter sc st c).todo = st.todo := by
  obtain ⟨hc, hs⟩ := enter_running sc st c hrun
  obtain ⟨c1, c2, c3⟩ := lookup_miss sc st c hm
  have hoff := not_exposed_off sc _ _ _ _ hi c c2 c3
  have hfind := find_none_of_off st.stack c hoff
  refine ⟨(tinv_congr sc _ _ hs).mpr ?_, ?_, ?_, ?_, ?_⟩
  · exact tinvL_push sc st.l1 st.l2 st.l3 st.stack hi c hc c1 c2 c3 hw
  · intro n _
    rw [hs.l1, hs.stack]
    exact potAux_push sc st.l1 st.stack c n hfind
  · refine ⟨c, hc, ?_⟩
    rw [hs.l1, hs.stack]
    exact potAux_push_lt sc st.l1 st.stack c c1 hfind
  · rw [hs.todoBoot]; rfl
  · rw [hs.todo]; rfl

/-- Refresh / the boot loop takes the next name off a work list (the stack is empty) -/
theorem start_dec (sc : Scen) (st sA : St) (n : Nat) (hr : st.status = .running)
    (h1 : sA.l1 = st.l1) (hsA : sA.stack = []) (hs : st.stack = [])
    (hlen : sA.todoBoot.length + sA.todo.length < st.todoBoot.length + st.todo.length)
    (R : St)
    (hR : R = match lookup sc sA n with
      | .hit _ st' => st'
      | .err st' => failAt st' n
      | .miss => enter sc sA n)
    (hrun : R.status = .running) : mu sc R < mu sc st ∧ TInv sc R := by
  have hiA : TInv sc sA := by unfold TInv; rw [hsA]; exact tinvL_nil sc _ _ _
  split at hR
  · rename_i o st' hl
    subst hR
    obtain ⟨e1, e2, e3, e4, e5, _, _, e6⟩ := lookup_hit sc sA R n o hl
    constructor
    · apply mu_lt_of sc st R hr hrun
      · intro m _; rw [e1, e2, h1, hsA, hs]; exact Nat.le_refl _
      · right; rw [e3, e4]; exact hlen
      · rw [e3, e4]; exact Nat.le_of_lt hlen
    · unfold TInv; rw [e2, hsA]; exact tinvL_nil sc _ _ _
  · subst hR; exact absurd hrun (failAt_not_running _ _)
  · rename_i hl
    subst hR
    obtain ⟨hi', hle, _, hb, ht⟩ := enter_dec sc sA n hiA hl (by rw [hsA]; simp) hrun
    refine ⟨?_, hi'⟩
    apply mu_lt_of sc st _ hr hrun
    · intro m hm
      have := hle m hm
      rw [h1, hsA] at this; rw [hs]; exact this
    · right; rw [hb, ht]; exact hlen
    · rw [hb, ht]; exact Nat.le_of_lt hlen

theorem mu_publish (sc : Scen) (st : St) (f : Frame) (rest : List Frame) (pub : Obj)
    (hr : st.status = .running) (hi : TInv sc st) (hs : st.stack = f :: rest) :
    mu sc (publish st f.name pub rest) < mu sc st ∧ TInv sc (publish st f.name pub rest) := by
  unfold TInv at hi
  rw [hs] at hi
  have hl1 := hi.l1_off f (by simp)
  have hfo : FrameOK sc f := hi.frames f (by simp)
  constructor
  · apply mu_lt_of sc st _ hr (by exact hr)
    · intro m _
      rw [publish_stack, hs]
      exact potAux_publish_le sc st.l1 f rest pub m
    · left
      refine ⟨f.name, hi.stk_names f (by simp), ?_⟩
      rw [publish_stack, hs]
      exact potAux_publish_lt sc st.l1 f rest pub hl1 (progress_lt sc f hfo)
    · exact Nat.le_refl _
  · unfold TInv
    rw [publish_stack]
    exact tinvL_publish sc st.l1 st.l2 st.l3 f rest pub hi

end Term

open Term

/-! ### every running step pays -/

/-- a step from a running state that is still running afterwards strictly decreases the potential and keeps the invariant -/
theorem mu_dec_running (sc : Scen) (st : St) (hi : TInv sc st) (hr : st.status = .running) :
    (step sc st).status = .running → mu sc (step sc st) < mu sc st ∧ TInv sc (step sc st) := by
  unfold step
  split
  rotate_left
  · rename_i hne; exact absurd hr hne
  split
  · -- empty stack
    rename_i hstack
    split
    · rename_i n t hboot
      dsimp only
      intro hrun
      refine start_dec sc st { st with todoBoot := t, stage := .factory } n hr rfl hstack hstack ?_ _ rfl hrun
      simp [hboot]
    · rename_i hboot
      split
      · intro h; cases h
      · rename_i n t htodo
        dsimp only
        intro hrun
        refine start_dec sc st { st with todo := t, stage := .refresh } n hr rfl hstack hstack ?_ _ rfl hrun
        simp [hboot, htodo]
  · -- a frame on top
    rename_i f rest hstack
    have hiL : TInvL sc st.l1 st.l2 st.l3 (f :: rest) := by unfold TInv at hi; rw [hstack] at hi; exact hi
    have hfs : f.name ∈ sc.names := hiL.stk_names f (by simp)
    have hl1 := hiL.l1_off f (by simp)
    have hfo : FrameOK sc f := hiL.frames f (by simp)
    have htail : ∀ g ∈ rest, WaitOK sc g := fun g hg => hiL.wait g (by simpa using hg)
    dsimp only
    split
    · rename_i hp
      split
      · rename_i hd
        split
        · -- the candidate is in the cache
          rename_i o st' hl
          intro hrun
          obtain ⟨e1, e2, e3, e4, e5, _, _, e6⟩ := lookup_hit sc st st' _ o hl
          constructor
          · apply mu_lt_of sc st _ hr hrun
            · intro m _; rw [hstack]; simp only [e1]
              exact potAux_top sc st.l1 f { f with d := f.d + 1, acc := f.acc ++ [o] } rest rfl (by simp [progress]) m
            · left
              refine ⟨f.name, hfs, ?_⟩
              rw [hstack]; simp only [e1]
              exact potAux_top_lt sc st.l1 f { f with d := f.d + 1, acc := f.acc ++ [o] } rest rfl (by simp [progress]) hl1
                (progress_lt sc f hfo)
            · simp [e3, e4]
          · unfold TInv; simp only [e1]
            refine tinvL_top sc st.l1 st'.l2 st'.l3 f { f with d := f.d + 1, acc := f.acc ++ [o] } rest
              (tinvL_expose sc _ _ _ _ _ _ hiL e6) rfl ?_
            exact ⟨hfo.1, fun _ => hd, fun h => by simp only at h; omega⟩
        · exact fun h => absurd h (failAt_not_running _ _)
        · -- a nested creation starts
          rename_i hl
          intro hrun
          have hw : ∀ g ∈ st.stack, WaitOK sc g := by
            rw [hstack]; intro g hg
            rcases List.mem_cons.mp hg with rfl | hg
            · exact ⟨hp, hd⟩
            · exact htail g hg
          obtain ⟨hi', hle, hlt, hb, ht⟩ := enter_dec sc st _ hi hl hw hrun
          refine ⟨?_, hi'⟩
          apply mu_lt_of sc st _ hr hrun hle (Or.inl hlt)
          rw [hb, ht]; exact Nat.le_refl _
      · -- Inject for the finished point
        rename_i hd
        have key : ∀ (flds : Nat → Nat → List Obj),
            mu sc { st with fields := flds, stack := { f with p := f.p + 1, d := 0, acc := [] } :: rest } < mu sc st ∧
            TInv sc { st with fields := flds, stack := { f with p := f.p + 1, d := 0, acc := [] } :: rest } := by
          intro flds
          have hpn := progress_next sc f hfo hp hd []
          constructor
          · apply mu_lt_of sc st _ hr (by exact hr)
            · intro m _; rw [hstack]
              exact potAux_top sc st.l1 f { f with p := f.p + 1, d := 0, acc := [] } rest rfl (by omega) m
            · left
              refine ⟨f.name, hfs, ?_⟩
              rw [hstack]
              exact potAux_top_lt sc st.l1 f { f with p := f.p + 1, d := 0, acc := [] } rest rfl (by omega) hl1
                (progress_lt sc f hfo)
            · exact Nat.le_refl _
          · unfold TInv
            refine tinvL_top sc st.l1 st.l2 st.l3 f { f with p := f.p + 1, d := 0, acc := [] } rest hiL rfl ?_
            exact ⟨hp, fun _ => Nat.zero_le _, fun _ => rfl⟩
        split
        · intro _; exact key st.fields
        · split
          · split
            · exact fun h => absurd h (failAt_not_running _ _)
            · intro _; exact key st.fields
          · split
            · split
              · exact fun h => absurd h (failAt_not_running _ _)
              · intro _; exact key st.fields
            · intro _; exact key _
    · -- initialise and publish
      rename_i hp
      have hsame : SameButLog (initCallbacks sc st f.name).1 st := initCallbacks_same sc st f.name
      generalize (initCallbacks sc st f.name).1 = st1 at hsame ⊢
      have hi1 : TInv sc st1 := (tinv_congr sc _ _ hsame).mpr hi
      have hr1 : st1.status = .running := hsame.status.trans hr
      have hs1 : st1.stack = f :: rest := hsame.stack.trans hstack
      have hmu : mu sc st1 = mu sc st := mu_congr sc _ _ hsame
      have pubd : ∀ pub, mu sc (publish st1 f.name pub rest) < mu sc st ∧ TInv sc (publish st1 f.name pub rest) := by
        intro pub; rw [← hmu]; exact mu_publish sc st1 f rest pub hr1 hi1 hs1
      split
      · exact fun h => absurd h (failAt_not_running _ _)
      · split
        · intro _; exact pubd _
        · split
          · intro _; exact pubd _
          · split
            · exact fun h => absurd h (failAt_not_running _ _)
            · intro _; exact pubd _

/-- **the potential strictly decreases at every step taken from a running state** -/
theorem mu_dec (sc : Scen) (st : St) (hi : TInv sc st) (hr : st.status = .running) :
    mu sc (step sc st) < mu sc st := by
  by_cases h : (step sc st).status = .running
  · exact (mu_dec_running sc st hi hr h).1
  · rw [mu_stopped sc _ h, mu_running sc st hr]; omega

namespace Term

theorem step_stuck (sc : Scen) (st : St) (h : st.status ≠ .running) : step sc st = st := by
  unfold step
  split
  · rename_i hr; exact absurd hr h
  · rfl

theorem run_stuck (sc : Scen) (k : Nat) (st : St) (h : st.status ≠ .running) : run sc k st = st := by
  induction k generalizing st with
  | zero => rfl
  | succ k ih => simp only [run]; rw [step_stuck sc st h]; exact ih st h

theorem run_add (sc : Scen) (k m : Nat) (st : St) : run sc (k + m) st = run sc m (run sc k st) := by
  induction k generalizing st with
  | zero => simp [run]
  | succ k ih =>
    have : k + 1 + m = (k + m) + 1 := by omega
    rw [this]; simp only [run]; exact ih _

/-- the invariant, as far as it matters: while running -/
def RInv (sc : Scen) (st : St) : Prop := st.status = .running → TInv sc st

theorem rinv_init (sc : Scen) : RInv sc (init sc) := fun _ => tinvL_nil sc _ _ _

theorem rinv_step (sc : Scen) (st : St) (h : RInv sc st) : RInv sc (step sc st) := by
  intro hr'
  by_cases hr : st.status = .running
  · exact (mu_dec_running sc st (h hr) hr hr').2
  · rw [step_stuck sc st hr] at hr'; exact absurd hr' hr

theorem rinv_run (sc : Scen) (k : Nat) (st : St) (h : RInv sc st) : RInv sc (run sc k st) := by
  induction k generalizing st with
  | zero => exact h
  | succ k ih => exact ih _ (rinv_step sc st h)

theorem run_bound (sc : Scen) (k : Nat) (st : St) (h : RInv sc st)
    (hr : (run sc k st).status = .running) : mu sc (run sc k st) + k ≤ mu sc st := by
  induction k generalizing st with
  | zero => simp [run]
  | succ k ih =>
    simp only [run] at hr ⊢
    have hs : (step sc st).status = .running := by
      by_cases hs : (step sc st).status = .running
      · exact hs
      · rw [run_stuck sc k _ hs] at hr; exact absurd hr hs
    have hst : st.status = .running := by
      by_cases hst : st.status = .running
      · exact hst
      · rw [step_stuck sc st hst] at hs; exact absurd hs hst
    have hdec := mu_dec sc st (h hst) hst
    have := ih (step sc st) (rinv_step sc st h) hr
    omega

end Term

/-- the invariant holds in every reachable running state -/
theorem tinv_reachable (sc : Scen) (k : Nat) (hr : (run sc k (init sc)).status = .running) :
    TInv sc (run sc k (init sc)) := rinv_run sc k (init sc) (rinv_init sc) hr

/-- the initial potential is exactly the explicit fuel bound -/
theorem mu_init_eq (sc : Scen) : mu sc (init sc) = fuelBound sc := by
  have hp : ∀ n, potAux sc (init sc).l1 (init sc).stack n = work sc n := by
    intro n; simp [potAux, init]
  simp only [mu, muRun, fuelBound]
  rw [if_pos (show (init sc).status = .running from rfl)]
  have : sc.names.map (potAux sc (init sc).l1 (init sc).stack) = sc.names.map (work sc) :=
    List.map_congr_left (fun n _ => hp n)
  rw [this]
  simp only [init]
  omega

theorem mu_init_le (sc : Scen) : mu sc (init sc) ≤ fuelBound sc := Nat.le_of_eq (mu_init_eq sc)

/-- **start-up stops within `fuelBound sc` steps, for every scenario whatsoever** -/
theorem terminates_any (sc : Scen) : (final sc).status ≠ .running := by
  intro hr
  unfold final at hr
  have h := run_bound sc (fuelBound sc) (init sc) (rinv_init sc) hr
  have h2 := mu_init_le sc
  have h3 := mu_running sc _ hr
  omega

/-- Well-formedness of a scenario as far as termination is concerned. The proof turned out to need NOTHING about the
    scenario (`terminates_any`): names outside the registry fail in `enter`, duplicates in `names` only make the bound
    larger. The one field is a plainly true fact (the definition registry is a map keyed by name) kept so that callers
    have a stable signature. -/
structure TermWF (sc : Scen) : Prop where
  names_nodup : sc.names.Nodup

theorem terminates (sc : Scen) (_wf : TermWF sc) : (final sc).status ≠ .running := terminates_any sc

/-- once stopped, stays stopped in the same state -/
theorem run_stable (sc : Scen) (k m : Nat) :
    (run sc k (init sc)).status ≠ .running → run sc (k + m) (init sc) = run sc k (init sc) := by
  intro h
  rw [run_add]; exact run_stuck sc m _ h

end Ioc.M2
