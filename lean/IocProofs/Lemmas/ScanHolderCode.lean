/-
  C11, the tie of `Scan.populateLoop` to the code: the REGENERATED InvokeBeanFactoryPostProcessors
  (`Progs.del_InvokeBeanFactoryPostProcessors`, re-translated from /repo on every run), run by the MiniGo interpreter under an
  interpretation in which `factory.GetComponentByName` RECORDS `self.componentPostProcessors` AS IT IS AT THE CALL — the chain
  ResolveAfterInstantiation ranges over while the processor is created and populated as a component.

  The interpretation is Ioc.SemDelegate's `regFn` (same primitives, same answers) with that one record added; the proof follows
  IocProofs.Lemmas.SemDelegate (`invokeBeanFactoryPostProcessors_sem`), whose statement shapes are restated here (`pibStmt`, …)
  so that this file depends on the one regenerated program only.
  Result (`invoke_populates_sem`): for every list of factory processors, raw processors, sort result, LazyInit answers and
  GetComponentByName answers the program records, for every non-lazy processor in sorted order, the processors registered
  so far — `popModel`, which is `Scan.populateLoop` when every GetComponentByName returns the processor itself
  (`popModel_is_populateLoop`).  A rewrite that publishes the chain only after the loop records the chain of BEFORE the loop
  for every processor: a different term.
-/
import Ioc.SemDelegate
import IocProofs.Lemmas.GoTactics
import IocProofs.Lemmas.ScanHolder
namespace Ioc.Sem
open Ioc Ioc.Go Ioc.Order

structure PopW where
  fcalls : List Nat := []               -- PostProcessComponentFactory calls
  defReg : Bool := false                -- applyDefinitionRegistryPostProcessors ran
  raw : Val := .nil                     -- self.rawComponentPostProcessors
  cpp : List Val := []                  -- self.componentPostProcessors
  pops : List (Nat × List Val) := []    -- GetComponentByName calls: (processor, self.componentPostProcessors at the call)

/-- `regFn` with the record: see the header -/
def popFn (fpFails : Nat → Bool) (drFails : Bool) (sorted : List Nat) (lazy : Nat → Bool) (getc : Nat → Option Nat)
    (isCPP : Nat → Bool) : String → List Val → PopW → Option (Val × PopW)
  | ".PostProcessComponentFactory", [.ref p 0, _], w => some (if fpFails p then errN else .nil, { w with fcalls := w.fcalls ++ [p] })
  | "errors.Wrapf", _, w => some (errN, w)
  | "self.applyDefinitionRegistryPostProcessors", [_], w => some (if drFails then errN else .nil, { w with defReg := true })
  | "$self", [], w => some (.ref 0 9, w)
  | "$self.rawComponentPostProcessors", [], w => some (w.raw, w)
  | "$self.componentPostProcessors", [], w => some (.list w.cpp, w)
  | "framework_helper.SortOrderedComponents", [_], w => some (.list (sorted.map encP), w)
  | ".set:rawComponentPostProcessors", [.ref 0 9, v], w => some (.tuple [], { w with raw := v })
  | ".set:componentPostProcessors", [.ref 0 9, .list vs], w => some (.tuple [], { w with cpp := vs })
  | "assert2:definition.LazyInit", [.ref p 0], w => some (.tuple [.ref p 3, .bool (lazy p)], w)
  | "framework_helper.GetComponentName", [.ref p 0], w => some (.int p, w)
  | ".GetComponentByName", [_, .int p], w =>
      some (match getc p.toNat with
            | none => .tuple [.nil, errN]
            | some q => .tuple [.ref q 4, .nil], { w with pops := w.pops ++ [(p.toNat, w.cpp)] })
  | "assert2:container.ComponentPostProcessor", [.ref q 4], w => some (.tuple [.ref q 0, .bool (isCPP q)], w)
  | "append", [.list vs, v], w => some (.list (vs ++ [v]), w)
  | _, _, _ => none

def popPrims (fpFails : Nat → Bool) (drFails : Bool) (sorted : List Nat) (lazy : Nat → Bool) (getc : Nat → Option Nat)
    (isCPP : Nat → Bool) : Prims PopW := { fn := popFn fpFails drFails sorted lazy getc isCPP }

def pibStmt (i : Nat) : Stmt := Progs.del_InvokeBeanFactoryPostProcessors.body.getD i .brk
theorem pib_body : Progs.del_InvokeBeanFactoryPostProcessors.body =
    [pibStmt 0, pibStmt 1, pibStmt 2, pibStmt 3, pibStmt 4, pibStmt 5, pibStmt 6] := rfl
theorem pib_params : Progs.del_InvokeBeanFactoryPostProcessors.params = ["factory", "factoryProcessors"] := rfl

def pibBody1 : List Stmt := match pibStmt 0 with | .range _ _ _ b => b | _ => []
def pibBody2 : List Stmt := match pibStmt 4 with | .range _ _ _ b => b | _ => []
theorem pib_s0_shape : pibStmt 0 = .range "_" "processor" (.var "factoryProcessors") pibBody1 := rfl
theorem pib_s4_shape : pibStmt 4 = .range "_" "processor" (.glob "self.rawComponentPostProcessors") pibBody2 := rfl

def penvIB (fprocs : List Nat) : Env := [("factory", .str "factory"), ("factoryProcessors", .list (fprocs.map encP))]
def penvIB2 (fprocs : List Nat) : Env := ("err", .nil) :: penvIB fprocs

section pop
variable (fpFails : Nat → Bool) (drFails : Bool) (sorted : List Nat) (lazy : Nat → Bool) (getc : Nat → Option Nat) (isCPP : Nat → Bool)

def pfpStep (p : Nat) (_ : Unit) (w : PopW) : Unit × PopW × Option Val :=
  ((), { w with fcalls := w.fcalls ++ [p] }, if fpFails p then some errN else none)

theorem pfpStep_loop (ps : List Nat) (w : PopW) :
    stepLoop (pfpStep fpFails) ps () w =
      ((), { w with fcalls := (runLoop fpFails ps w.fcalls).1 }, if (runLoop fpFails ps w.fcalls).2 then some errN else none) := by
  induction ps generalizing w with
  | nil => simp [stepLoop, runLoop]
  | cons p rest ih =>
    by_cases hf : fpFails p = true
    · simp [stepLoop, pfpStep, runLoop, hf]
    · simp [stepLoop, pfpStep, runLoop, hf, ih]

def popStep (p : Nat) (_ : Unit) (w : PopW) : Unit × PopW × Option Val :=
  if lazy p then ((), { w with cpp := w.cpp ++ [encP p] }, none) else
    match getc p with
    | none => ((), { w with pops := w.pops ++ [(p, w.cpp)] }, some errN)
    | some q => ((), { w with pops := w.pops ++ [(p, w.cpp)], cpp := w.cpp ++ [encP (if isCPP q then q else p)] }, none)

/-- the loop on the model: (who was created under which chain, the final chain, error?) -/
def popModel : List Nat → List Nat → List (Nat × List Nat) × List Nat × Bool
  | [], cpp => ([], cpp, false)
  | p :: rest, cpp =>
    if lazy p then popModel rest (cpp ++ [p]) else
      match getc p with
      | none => ([(p, cpp)], cpp, true)
      | some q =>
        let r := popModel rest (cpp ++ [if isCPP q then q else p])
        ((p, cpp) :: r.1, r.2)

def encPop (e : Nat × List Nat) : Nat × List Val := (e.1, e.2.map encP)

theorem popStep_loop (ps : List Nat) (w : PopW) (cpp0 : List Nat) (hw : w.cpp = cpp0.map encP) :
    stepLoop (popStep lazy getc isCPP) ps () w =
      ((), { w with pops := w.pops ++ (popModel lazy getc isCPP ps cpp0).1.map encPop,
                    cpp := (popModel lazy getc isCPP ps cpp0).2.1.map encP },
        if (popModel lazy getc isCPP ps cpp0).2.2 then some errN else none) := by
  induction ps generalizing w cpp0 with
  | nil => simp [stepLoop, popModel, ← hw]
  | cons p rest ih =>
    by_cases hl : lazy p = true
    · simp only [stepLoop, popStep, popModel, hl, if_true]
      rw [ih _ (cpp0 ++ [p]) (by simp [hw])]
    · obtain hg | ⟨q, hg⟩ : getc p = none ∨ ∃ q, getc p = some q := by cases getc p <;> simp
      · simp [stepLoop, popStep, popModel, hl, hg, hw, encPop]
      · simp only [stepLoop, popStep, popModel, hl, hg, if_false, Bool.false_eq_true]
        rw [ih _ (cpp0 ++ [if isCPP q then q else p]) (by simp [hw])]
        simp [List.append_assoc, encPop, hw]

abbrev PP := popPrims fpFails drFails sorted lazy getc isCPP

theorem pib1_iter (fprocs : List Nat) (i p : Nat) (w : PopW) :
    (evalB (PP fpFails drFails sorted lazy getc isCPP) (Env.def (Env.def (penvIB fprocs) "_" (.int i)) "processor" (encP p)) w pibBody1).map
        (fun (e', w'', ctl) => (Env.leave e' (penvIB fprocs).length, w'', ctl)) =
      some (penvIB fprocs, (pfpStep fpFails p () w).2.1, ctlOf (pfpStep fpFails p () w).2.2) := by
  cases hf : fpFails p <;>
    go_simp [pibBody1, pibStmt, Progs.del_InvokeBeanFactoryPostProcessors, popPrims, popFn, penvIB, encP, pfpStep, hf, ctlOf, errN]

theorem pib_s0 (fprocs : List Nat) (w : PopW) :
    evalS (PP fpFails drFails sorted lazy getc isCPP) (penvIB fprocs) w (pibStmt 0) =
      some (penvIB fprocs, { w with fcalls := (runLoop fpFails fprocs w.fcalls).1 },
            if (runLoop fpFails fprocs w.fcalls).2 then .ret errN else .norm) := by
  rw [pib_s0_shape]
  simp only [evalS]
  have hcoll : evalE (PP fpFails drFails sorted lazy getc isCPP) (penvIB fprocs) w (.var "factoryProcessors") =
      some (.list (fprocs.map encP), w) := by go_simp [penvIB]
  rw [hcoll]; simp only []
  have := loopM_state encP
    (fun i x e w' => (evalB (PP fpFails drFails sorted lazy getc isCPP) (Env.def (Env.def e "_" (.int i)) "processor" x) w' pibBody1).map
      (fun (e', w'', ctl) => (Env.leave e' e.length, w'', ctl)))
    (fun (_ : Unit) => penvIB fprocs) (pfpStep fpFails) (fun i x _ w' => pib1_iter fpFails drFails sorted lazy getc isCPP fprocs i x w') fprocs 0 () w
  rw [this, pfpStep_loop]
  cases h : (runLoop fpFails fprocs w.fcalls).2 <;> simp [ctlOf]

theorem pib2_iter (fprocs : List Nat) (i p : Nat) (w : PopW) :
    (evalB (PP fpFails drFails sorted lazy getc isCPP) (Env.def (Env.def (penvIB2 fprocs) "_" (.int i)) "processor" (encP p)) w pibBody2).map
        (fun (e', w'', ctl) => (Env.leave e' (penvIB2 fprocs).length, w'', ctl)) =
      some (penvIB2 fprocs, (popStep lazy getc isCPP p () w).2.1, ctlOf (popStep lazy getc isCPP p () w).2.2) := by
  cases hl : lazy p with
  | true => go_simp [pibBody2, pibStmt, Progs.del_InvokeBeanFactoryPostProcessors, popPrims, popFn, penvIB2, penvIB, encP, popStep, hl, ctlOf, errN]
  | false =>
    cases hg : getc p with
    | none => go_simp [pibBody2, pibStmt, Progs.del_InvokeBeanFactoryPostProcessors, popPrims, popFn, penvIB2, penvIB, encP, popStep, hl, hg, ctlOf, errN]
    | some q =>
      cases hq : isCPP q <;>
        go_simp [pibBody2, pibStmt, Progs.del_InvokeBeanFactoryPostProcessors, popPrims, popFn, penvIB2, penvIB, encP, popStep, hl, hg, hq, ctlOf, errN]

theorem pib_s4 (fprocs cpp0 : List Nat) (w : PopW) (hraw : w.raw = .list (sorted.map encP)) (hw : w.cpp = cpp0.map encP) :
    evalS (PP fpFails drFails sorted lazy getc isCPP) (penvIB2 fprocs) w (pibStmt 4) =
      some (penvIB2 fprocs, { w with pops := w.pops ++ (popModel lazy getc isCPP sorted cpp0).1.map encPop,
                                     cpp := (popModel lazy getc isCPP sorted cpp0).2.1.map encP },
            if (popModel lazy getc isCPP sorted cpp0).2.2 then .ret errN else .norm) := by
  rw [pib_s4_shape]
  simp only [evalS]
  have hcoll : evalE (PP fpFails drFails sorted lazy getc isCPP) (penvIB2 fprocs) w (.glob "self.rawComponentPostProcessors") =
      some (.list (sorted.map encP), w) := by go_simp [popPrims, popFn, hraw]
  rw [hcoll]; simp only []
  have := loopM_state encP
    (fun i x e w' => (evalB (PP fpFails drFails sorted lazy getc isCPP) (Env.def (Env.def e "_" (.int i)) "processor" x) w' pibBody2).map
      (fun (e', w'', ctl) => (Env.leave e' e.length, w'', ctl)))
    (fun (_ : Unit) => penvIB2 fprocs) (popStep lazy getc isCPP) (fun i x _ w' => pib2_iter fpFails drFails sorted lazy getc isCPP fprocs i x w') sorted 0 () w
  rw [this, popStep_loop lazy getc isCPP sorted w cpp0 hw]
  cases h : (popModel lazy getc isCPP sorted cpp0).2.2 <;> simp [ctlOf]

/-- what InvokeBeanFactoryPostProcessors does, with the chains recorded -/
def popInvokeModel (fprocs raw cpp0 : List Nat) : Val × PopW :=
  let fl := runLoop fpFails fprocs []
  if fl.2 then (errN, { fcalls := fl.1, raw := .list (raw.map encP), cpp := cpp0.map encP })
  else if drFails then (errN, { fcalls := fl.1, defReg := true, raw := .list (raw.map encP), cpp := cpp0.map encP })
  else
    let r := popModel lazy getc isCPP sorted cpp0
    (if r.2.2 then errN else .nil,
     { fcalls := fl.1, defReg := true, raw := if r.2.2 then .list (sorted.map encP) else .nil, cpp := r.2.1.map encP,
       pops := r.1.map encPop })

/-- InvokeBeanFactoryPostProcessors, regenerated, with the chain of every created processor -/
theorem invoke_populates_sem (fprocs raw cpp0 : List Nat) :
    run (PP fpFails drFails sorted lazy getc isCPP) Progs.del_InvokeBeanFactoryPostProcessors
        [.str "factory", .list (fprocs.map encP)] { raw := .list (raw.map encP), cpp := cpp0.map encP } =
      some (popInvokeModel fpFails drFails sorted lazy getc isCPP fprocs raw cpp0) := by
  simp only [run, pib_params, pib_body, List.length_cons, List.length_nil, if_true, List.zip_cons_cons, List.zip_nil_right]
  rw [show ([("factory", Val.str "factory"), ("factoryProcessors", Val.list (fprocs.map encP))] : Env) = penvIB fprocs from rfl]
  rw [evalB_cons, pib_s0]
  unfold popInvokeModel
  cases hfl : (runLoop fpFails fprocs []).2 with
  | true => simp [hfl]
  | false =>
    simp only [hfl, Bool.false_eq_true, if_false]
    rw [evalB_cons]
    cases hd : drFails with
    | true =>
      go_simp [pibStmt, Progs.del_InvokeBeanFactoryPostProcessors, popPrims, popFn, penvIB, hd, errN]
    | false =>
      have h1 : evalS (PP fpFails false sorted lazy getc isCPP) (penvIB fprocs)
          { fcalls := (runLoop fpFails fprocs []).1, raw := .list (raw.map encP), cpp := cpp0.map encP } (pibStmt 1) =
          some (penvIB2 fprocs, { fcalls := (runLoop fpFails fprocs []).1, defReg := true, raw := .list (raw.map encP), cpp := cpp0.map encP }, .norm) := by
        go_simp [pibStmt, Progs.del_InvokeBeanFactoryPostProcessors, popPrims, popFn, penvIB, penvIB2]
      rw [h1]; simp only []
      rw [evalB_cons]
      have h2 : ∀ w, evalS (PP fpFails false sorted lazy getc isCPP) (penvIB2 fprocs) w (pibStmt 2) = some (penvIB2 fprocs, w, .norm) := by
        intro w; go_simp [pibStmt, Progs.del_InvokeBeanFactoryPostProcessors, popPrims, popFn, penvIB, penvIB2]
      rw [h2]; simp only []
      rw [evalB_cons]
      have h3 : ∀ w : PopW, evalS (PP fpFails false sorted lazy getc isCPP) (penvIB2 fprocs) w (pibStmt 3) =
          some (penvIB2 fprocs, { w with raw := .list (sorted.map encP) }, .norm) := by
        intro w; go_simp [pibStmt, Progs.del_InvokeBeanFactoryPostProcessors, popPrims, popFn, penvIB, penvIB2]
      rw [h3]; simp only []
      rw [evalB_cons, pib_s4 fpFails false sorted lazy getc isCPP fprocs cpp0 _ rfl rfl]
      cases hr : (popModel lazy getc isCPP sorted cpp0).2.2 with
      | true => simp
      | false =>
        simp only [Bool.false_eq_true, if_false]
        go_simp [pibStmt, Progs.del_InvokeBeanFactoryPostProcessors, popPrims, popFn, penvIB, penvIB2]

end pop

/-- when every GetComponentByName succeeds and returns the processor it was asked for, the recorded chains and the final
    chain are `Scan.populateLoop`'s, and there is no error -/
theorem popModel_is_populateLoop (lazy : Nat → Bool) (isCPP : Nat → Bool) (ps cpp : List Nat) :
    popModel lazy (fun p => some p) isCPP ps cpp =
      ((Scan.populateLoop (ps.map fun p => ⟨p, lazy p⟩) cpp).1, (Scan.populateLoop (ps.map fun p => ⟨p, lazy p⟩) cpp).2, false) := by
  induction ps generalizing cpp with
  | nil => simp [popModel, Scan.populateLoop]
  | cons p rest ih =>
    cases hl : lazy p with
    | true => simp [popModel, Scan.populateLoop, hl, ih]
    | false => simp [popModel, Scan.populateLoop, hl, ih]

end Ioc.Sem
