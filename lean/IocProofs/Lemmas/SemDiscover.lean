/-
  The regenerated candidate-discovery programs compute M3's candidate lists:
  dependencyAwarePostProcessors.PostProcessProperties = `Match.candidatesWire`, dependencyFunctionAwarePostProcessors… =
  `Match.candidatesFunc`, appended to each node's `Injects`; the helper isActualKind is regenerated and proved too.
-/
import Ioc.SemDiscover
import IocProofs.Lemmas.GoTactics
namespace Ioc.Sem
open Ioc Ioc.Go Ioc.Match

/-! ### isActualKind -/
def isaFn : String → List Val → Unit → Option (Val × Unit)
  | "$reflect.Slice", [], w => some (.str "slice", w)
  | ".Kind", [.ref _ k], w => some (.str (kindName k), w)
  | ".Elem", [.ref t 82], w => some (.ref t 80, w)
  | ".Elem", [.ref i 83], w => some (.ref i 81, w)
  | _, _, _ => none
def isaPrims : Prims Unit := { fn := isaFn }

def isActualModel (k : Kind) (want : String) : Val × Bool :=
  match k, want with
  | .ptr t, "ptr" => (.ref t 80, true)
  | .slicePtr t, "ptr" => (.ref t 80, true)
  | .iface i, "iface" => (.ref i 81, true)
  | .sliceIface i, "iface" => (.ref i 81, true)
  | _, _ => (.nil, false)

theorem isActualKind_sem (k : Kind) (ptr : Bool) :
    run isaPrims Progs.isActualKind [encKind k, .str (if ptr then "ptr" else "iface")] () =
      some (.tuple [(isActualModel k (if ptr then "ptr" else "iface")).1, .bool (isActualModel k (if ptr then "ptr" else "iface")).2], ()) := by
  cases k <;> cases ptr <;> go_simp [Progs.isActualKind, isaPrims, isaFn, encKind, kindName, isActualModel]

/-- the helper as the discovery programs call it -/
def callIsActual (t k : Val) : Option Val := (run isaPrims Progs.isActualKind [t, k] ()).map (·.1)

theorem callIsActual_ptr (k : Kind) : callIsActual (encKind k) (.str "ptr") =
    some (.tuple [(isActualModel k "ptr").1, .bool (isActualModel k "ptr").2]) := by
  have := isActualKind_sem k true
  simp only [if_true] at this
  simp [callIsActual, this]

theorem callIsActual_iface (k : Kind) : callIsActual (encKind k) (.str "iface") =
    some (.tuple [(isActualModel k "iface").1, .bool (isActualModel k "iface").2]) := by
  have := isActualKind_sem k false
  simp only [Bool.false_eq_true, if_false] at this
  simp [callIsActual, this]

/-! ### dependencyAwarePostProcessors.PostProcessProperties -/
section wire
variable (pop : List Prov) (props : List DProp) (byName : String → Option Nat)

abbrev DP := ({ fn := discFn pop props byName (fun _ _ _ => false) (fun _ _ => false) callIsActual } : Prims DW)

/-- what the wire processor discovers for one property node -/
def discoverWire (p : DProp) : List (Option Nat) :=
  if p.tag != "wire" then [] else
  if p.tagVal == "" then
    match typeOption p.kind with
    | some f => (pop.filter f).map (fun q => some q.id)
    | none => []
  else
    match p.kind with
    | .ptr _ => [byName p.tagVal]
    | .iface _ => [byName p.tagVal]
    | _ => []

def wireStep (i : Nat) (_ : Unit) (w : DW) : Unit × DW × Option Val :=
  ((), w.set i (w.getD i [] ++ discoverWire pop byName (propAt props i)), none)

theorem set_getD_self (w : DW) (i : Nat) : w.set i (w[i]?.getD []) = w := by
  induction w generalizing i with
  | nil => simp
  | cons a t ih =>
    cases i with
    | zero => simp
    | succ i => simpa using ih i

theorem decInj_append (a b : List Val) : decInj (a ++ b) = decInj a ++ decInj b := by simp [decInj]

def dwBody : List Stmt := match Progs.depAware_PostProcessProperties.body with | [.range _ _ _ b, _] => b | _ => []
theorem dw_shape : Progs.depAware_PostProcessProperties.body =
    [.range "_" "prop" (.var "properties") dwBody, .ret [.nil, .nil]] := rfl
theorem dw_params : Progs.depAware_PostProcessProperties.params = ["properties", "component", "componentName"] := rfl

def envDW (n : Nat) : Env :=
  [("properties", .list ((List.range' 0 n).map (fun i => Val.ref i 20))), ("component", .str "c"), ("componentName", .str "n")]

theorem decInj_enc (l : List (Option Nat)) : decInj (l.map encMetaD) = l := by
  induction l with
  | nil => rfl
  | cons a t ih =>
    simp only [decInj, List.map_cons, List.map_map] at ih ⊢
    rw [ih]
    cases a <;> rfl

theorem decInj_ids (l : List Prov) : decInj (l.map (fun p => Val.ref p.id 0)) = l.map (fun q => some q.id) := by
  simp [decInj, decMetaD]


theorem dw_iter (n i k : Nat) (w : DW) :
    ∃ c, (evalB (DP pop props byName) (Env.def (Env.def (envDW n) "_" (.int i)) "prop" (.ref k 20)) w dwBody).map
        (fun (e', w'', ctl) => (Env.leave e' (envDW n).length, w'', ctl)) =
      some (envDW n, (wireStep pop props byName k () w).2.1, c) ∧ CtlMatches c (wireStep pop props byName k () w).2.2 := by
  by_cases ht : (propAt props k).tag = "wire"
  · by_cases he : (propAt props k).tagVal = ""
    ·
      have hp := callIsActual_ptr (propAt props k).kind
      have hi := callIsActual_iface (propAt props k).kind
      cases hk : (propAt props k).kind with
      | other =>
        refine ⟨.cont, ?_, Or.inl ⟨rfl, Or.inr rfl⟩⟩
        rw [hk] at hp hi
        simp only [encKind, isActualModel] at hp hi
        go_simp [dwBody, Progs.depAware_PostProcessProperties, discFn_injectTag, discFn_funcTag, discFn_rPointer, discFn_rPtr, discFn_rInterface, discFn_Tag, discFn_TagVal, discFn_Type, discFn_Kind, discFn_isActual, discFn_cType, discFn_cIface, discFn_getMetas1, discFn_byName, discFn_Injects, discFn_setInjects, discFn_append, discFn_appendNil, discFn_appendSpread, envDW, wireStep, discoverWire, ht, he, hk, hp, hi,
          isActualModel, encKind, typeOption, set_getD_self]
      | ptr t =>
        refine ⟨.cont, ?_, Or.inl ⟨rfl, Or.inr rfl⟩⟩
        rw [hk] at hp hi
        simp only [encKind, isActualModel] at hp hi
        have hd := decInj_enc (w[k]?.getD [])
        go_simp [dwBody, Progs.depAware_PostProcessProperties, discFn_injectTag, discFn_funcTag, discFn_rPointer, discFn_rPtr, discFn_rInterface, discFn_Tag, discFn_TagVal, discFn_Type, discFn_Kind, discFn_isActual, discFn_cType, discFn_cIface, discFn_getMetas1, discFn_byName, discFn_Injects, discFn_setInjects, discFn_append, discFn_appendNil, discFn_appendSpread, envDW, wireStep, discoverWire, ht, he, hk, hp, hi,
          isActualModel, encKind, typeOption, typeMeaning, encInj, decInj_ids, decInj_append, hd]
      | iface t =>
        refine ⟨.cont, ?_, Or.inl ⟨rfl, Or.inr rfl⟩⟩
        rw [hk] at hp hi
        simp only [encKind, isActualModel] at hp hi
        have hd := decInj_enc (w[k]?.getD [])
        go_simp [dwBody, Progs.depAware_PostProcessProperties, discFn_injectTag, discFn_funcTag, discFn_rPointer, discFn_rPtr, discFn_rInterface, discFn_Tag, discFn_TagVal, discFn_Type, discFn_Kind, discFn_isActual, discFn_cType, discFn_cIface, discFn_getMetas1, discFn_byName, discFn_Injects, discFn_setInjects, discFn_append, discFn_appendNil, discFn_appendSpread, envDW, wireStep, discoverWire, ht, he, hk, hp, hi,
          isActualModel, encKind, typeOption, typeMeaning, encInj, decInj_ids, decInj_append, hd]
      | slicePtr t =>
        refine ⟨.cont, ?_, Or.inl ⟨rfl, Or.inr rfl⟩⟩
        rw [hk] at hp hi
        simp only [encKind, isActualModel] at hp hi
        have hd := decInj_enc (w[k]?.getD [])
        go_simp [dwBody, Progs.depAware_PostProcessProperties, discFn_injectTag, discFn_funcTag, discFn_rPointer, discFn_rPtr, discFn_rInterface, discFn_Tag, discFn_TagVal, discFn_Type, discFn_Kind, discFn_isActual, discFn_cType, discFn_cIface, discFn_getMetas1, discFn_byName, discFn_Injects, discFn_setInjects, discFn_append, discFn_appendNil, discFn_appendSpread, envDW, wireStep, discoverWire, ht, he, hk, hp, hi,
          isActualModel, encKind, typeOption, typeMeaning, encInj, decInj_ids, decInj_append, hd]
      | sliceIface t =>
        refine ⟨.cont, ?_, Or.inl ⟨rfl, Or.inr rfl⟩⟩
        rw [hk] at hp hi
        simp only [encKind, isActualModel] at hp hi
        have hd := decInj_enc (w[k]?.getD [])
        go_simp [dwBody, Progs.depAware_PostProcessProperties, discFn_injectTag, discFn_funcTag, discFn_rPointer, discFn_rPtr, discFn_rInterface, discFn_Tag, discFn_TagVal, discFn_Type, discFn_Kind, discFn_isActual, discFn_cType, discFn_cIface, discFn_getMetas1, discFn_byName, discFn_Injects, discFn_setInjects, discFn_append, discFn_appendNil, discFn_appendSpread, envDW, wireStep, discoverWire, ht, he, hk, hp, hi,
          isActualModel, encKind, typeOption, typeMeaning, encInj, decInj_ids, decInj_append, hd]
    · refine ⟨.norm, ?_, Or.inl ⟨rfl, Or.inl rfl⟩⟩
      have he' : ((propAt props k).tagVal == "") = false := by simpa using he
      have hd := decInj_enc (w[k]?.getD [])
      have hdn : decInj (List.map encMetaD (w[k]?.getD []) ++ [encMetaD (byName (propAt props k).tagVal)]) = w[k]?.getD [] ++ [byName (propAt props k).tagVal] := by
        rw [decInj_append, hd]; cases byName (propAt props k).tagVal <;> rfl
      cases hk : (propAt props k).kind <;>
        go_simp [dwBody, Progs.depAware_PostProcessProperties, discFn_injectTag, discFn_funcTag, discFn_rPointer, discFn_rPtr, discFn_rInterface, discFn_Tag, discFn_TagVal, discFn_Type, discFn_Kind, discFn_isActual, discFn_cType, discFn_cIface, discFn_getMetas1, discFn_byName, discFn_Injects, discFn_setInjects, discFn_append, discFn_appendNil, discFn_appendSpread, envDW, wireStep, discoverWire, ht, he, he', hk,
          encKind, kindName, encInj, hdn, set_getD_self]
  · refine ⟨.cont, ?_, Or.inl ⟨rfl, Or.inr rfl⟩⟩
    have ht' : ((propAt props k).tag == "wire") = false := by simpa using ht
    go_simp [dwBody, Progs.depAware_PostProcessProperties, discFn_injectTag, discFn_funcTag, discFn_rPointer, discFn_rPtr, discFn_rInterface, discFn_Tag, discFn_TagVal, discFn_Type, discFn_Kind, discFn_isActual, discFn_cType, discFn_cIface, discFn_getMetas1, discFn_byName, discFn_Injects, discFn_setInjects, discFn_append, discFn_appendNil, discFn_appendSpread, envDW, wireStep, discoverWire, ht, ht', set_getD_self]


/-- the effect of a discovery pass on the `Injects` lists: node i gets `disc i` appended -/
def applyDisc (disc : Nat → List (Option Nat)) : List Nat → DW → DW
  | [], w => w
  | i :: rest, w => applyDisc disc rest (w.set i (w.getD i [] ++ disc i))

theorem wireStep_loop (is : List Nat) (w : DW) :
    stepLoop (wireStep pop props byName) is () w =
      ((), applyDisc (fun i => discoverWire pop byName (propAt props i)) is w, none) := by
  induction is generalizing w with
  | nil => simp [stepLoop, applyDisc]
  | cons i rest ih => simp [stepLoop, wireStep, applyDisc, ih]

theorem applyDisc_length (disc : Nat → List (Option Nat)) (is : List Nat) (w : DW) : (applyDisc disc is w).length = w.length := by
  induction is generalizing w with
  | nil => rfl
  | cons i rest ih => simp [applyDisc, ih]

theorem applyDisc_notin (disc : Nat → List (Option Nat)) (is : List Nat) (w : DW) (j : Nat) (hj : j ∉ is) :
    (applyDisc disc is w).getD j [] = w.getD j [] := by
  induction is generalizing w with
  | nil => rfl
  | cons i rest ih =>
    have hne : i ≠ j := fun h => hj (by simp [h])
    have hr : j ∉ rest := fun h => hj (by simp [h])
    simp only [applyDisc]
    rw [ih _ hr]
    simp [List.getD_eq_getElem?_getD, List.getElem?_set, hne]

theorem applyDisc_in (disc : Nat → List (Option Nat)) (is : List Nat) (w : DW) (j : Nat) (hn : is.Nodup) (hj : j ∈ is)
    (hl : j < w.length) : (applyDisc disc is w).getD j [] = w.getD j [] ++ disc j := by
  induction is generalizing w with
  | nil => simp at hj
  | cons i rest ih =>
    simp only [applyDisc]
    have hn' := (List.nodup_cons.mp hn)
    by_cases hij : i = j
    · subst hij
      rw [applyDisc_notin _ _ _ _ hn'.1]
      simp [List.getD_eq_getElem?_getD, List.getElem?_set, hl]
    · have hjr : j ∈ rest := by
        rcases List.mem_cons.mp hj with h | h
        · exact absurd h.symm hij
        · exact h
      rw [ih _ hn'.2 hjr (by simpa using hl)]
      simp [List.getD_eq_getElem?_getD, List.getElem?_set, hij]

/-- dependencyAwarePostProcessors.PostProcessProperties, regenerated: every property node, in order, gets what
    `discoverWire` finds APPENDED to its `Injects`; nothing else changes; the result is (nil, nil) -/
theorem depAware_sem (n : Nat) (w : DW) :
    run (DP pop props byName) Progs.depAware_PostProcessProperties
        [.list ((List.range' 0 n).map (fun i => Val.ref i 20)), .str "c", .str "n"] w =
      some (.tuple [.nil, .nil], applyDisc (fun i => discoverWire pop byName (propAt props i)) (List.range' 0 n) w) := by
  simp only [run, dw_params, dw_shape, List.length_cons, List.length_nil, if_true, List.zip_cons_cons, List.zip_nil_right]
  rw [evalB_cons]
  simp only [evalS]
  rw [show ([("properties", Val.list ((List.range' 0 n).map (fun i => Val.ref i 20))), ("component", Val.str "c"), ("componentName", Val.str "n")] : Env) = envDW n from rfl]
  have hcoll : evalE (DP pop props byName) (envDW n) w (.var "properties") =
      some (.list ((List.range' 0 n).map (fun i => Val.ref i 20)), w) := by go_simp [envDW]
  rw [hcoll]; simp only []
  have := loopM_state_cont (fun i => Val.ref i 20)
    (fun i x e w' => (evalB (DP pop props byName) (Env.def (Env.def e "_" (.int i)) "prop" x) w' dwBody).map
      (fun (e', w'', ctl) => (Env.leave e' e.length, w'', ctl)))
    (fun (_ : Unit) => envDW n) (wireStep pop props byName) (fun i k _ w' => dw_iter pop props byName n i k w') (List.range' 0 n) 0 () w
  rw [this, wireStep_loop]
  go_simp [ctlOf]

/-- … and `discoverWire` is M3's `candidatesWire` when the tag text and the registry's by-name answer are those of the model -/
theorem discoverWire_is_candidatesWire (p : DProp) (tv : Bytes) (hw : p.tag = "wire")
    (htv : tv.isEmpty = (p.tagVal == ""))
    (hbn : byName p.tagVal = (pop.find? (fun q => q.name == tv)).map (·.id)) :
    discoverWire pop byName p = candidatesWire pop p.kind tv := by
  unfold discoverWire candidatesWire
  simp only [hw, bne_self_eq_false, Bool.false_eq_true, if_false, hbn]
  by_cases he : p.tagVal = ""
  · have h1 : tv.isEmpty = true := by rw [htv]; simp [he]
    simp only [he, h1, beq_self_eq_true, if_true]
    cases typeOption p.kind <;> rfl
  · have h0 : (p.tagVal == "") = false := by simpa using he
    have h1 : tv.isEmpty = false := by rw [htv]; exact h0
    simp only [h0, h1, Bool.false_eq_true, if_false]
    cases p.kind <;> rfl

end wire

/-! ### dependencyFunctionAwarePostProcessors.PostProcessProperties -/
section func
variable (pop : List Prov) (props : List DProp) (funcRes : String → Nat → Prov → Bool) (funcName : String → Prov → Bool)

abbrev DF := ({ fn := discFn pop props (fun _ => none) funcRes funcName callIsActual } : Prims DW)

/-- what the func processor discovers for one property node -/
def discoverFunc (p : DProp) : List (Option Nat) :=
  if p.tag != "func" then [] else
  match typeOption p.kind with
  | none => []
  | some f =>
    let g : Prov → Bool :=
      match p.returns with
      | some rs => fun q => rs.any (fun r => funcRes p.tagVal r q)
      | none => funcName p.tagVal
    (pop.filter (fun q => f q && g q)).map (fun q => some q.id)

def resTok (s : String) (r : Nat) : Val := .tuple [.str "funcRes", .str s, .int r]

theorem orMeaning_tokens (s : String) (rs : List Nat) :
    orMeaning funcRes (rs.map (resTok s)) = some (fun p => rs.any (fun r => funcRes s r p)) := by
  induction rs with
  | nil => rfl
  | cons r rest ih => simp [orMeaning, resTok, ih, List.any_cons]

def funcStep (i : Nat) (_ : Unit) (w : DW) : Unit × DW × Option Val :=
  ((), w.set i (w.getD i [] ++ discoverFunc pop funcRes funcName (propAt props i)), none)

def dfBody : List Stmt := match Progs.depFunc_PostProcessProperties.body with | [.range _ _ _ b, _] => b | _ => []
theorem df_shape : Progs.depFunc_PostProcessProperties.body =
    [.range "_" "prop" (.var "properties") dfBody, .ret [.nil, .nil]] := rfl
theorem df_params : Progs.depFunc_PostProcessProperties.params = ["properties", "component", "componentName"] := rfl
def dfStmt (i : Nat) : Stmt := dfBody.getD i .brk
theorem dfBody_eq : dfBody = [dfStmt 0, dfStmt 1, dfStmt 2, dfStmt 3, dfStmt 4, dfStmt 5, dfStmt 6] := rfl


/-- the type option token of a kind -/
def typeTok : Kind → Option Val
  | .ptr t => some (.tuple [.str "type", .int t])
  | .slicePtr t => some (.tuple [.str "type", .int t])
  | .iface i => some (.tuple [.str "iface", .int i])
  | .sliceIface i => some (.tuple [.str "iface", .int i])
  | .other => none

def funcTok (p : DProp) : Val :=
  match p.returns with
  | none => .tuple [.str "funcName", .str p.tagVal]
  | some rs => .tuple [.str "or", .list (rs.map (resTok p.tagVal))]

/-- environment after the two `var` declarations and the type option -/
def envF (n k : Nat) (topt fopt : Val) : Env :=
  [("funcOption", fopt), ("typeOption", topt), ("prop", .ref k 20)] ++ envDW n

/-- statements 0..3: the tag test, the declarations, the type option (or `continue`) -/
theorem df_s03 (n i k : Nat) (w : DW) :
    evalB (DF pop props funcRes funcName) (Env.def (Env.def (envDW n) "_" (.int i)) "prop" (.ref k 20)) w [dfStmt 0, dfStmt 1, dfStmt 2, dfStmt 3] =
      if (propAt props k).tag != "func" then some ([("prop", .ref k 20)] ++ envDW n, w, .cont)
      else match typeTok (propAt props k).kind with
        | some t => some (envF n k t .nil, w, .norm)
        | none => some (envF n k .nil .nil, w, .cont) := by
  by_cases ht : (propAt props k).tag = "func"
  · have hp := callIsActual_ptr (propAt props k).kind
    have hi := callIsActual_iface (propAt props k).kind
    cases hk : (propAt props k).kind <;> rw [hk] at hp hi <;> simp only [encKind, isActualModel] at hp hi <;>
      go_simp [dfStmt, dfBody, Progs.depFunc_PostProcessProperties, discFn_injectTag, discFn_funcTag, discFn_rPointer, discFn_rPtr, discFn_rInterface, discFn_Tag, discFn_TagVal, discFn_Type, discFn_Kind, discFn_isActual, discFn_cType, discFn_cIface, discFn_cFuncName, discFn_cFuncRes, discFn_cOr, discFn_cOrNil, discFn_getMetas2, discFn_Args, discFn_Find, discFn_Injects, discFn_setInjects, discFn_append, discFn_appendNil, discFn_appendSpread, envDW, envF, ht, hk, hp, hi, encKind, typeTok]
  · have ht' : ((propAt props k).tag == "func") = false := by simpa using ht
    go_simp [dfStmt, dfBody, Progs.depFunc_PostProcessProperties, discFn_injectTag, discFn_funcTag, discFn_rPointer, discFn_rPtr, discFn_rInterface, discFn_Tag, discFn_TagVal, discFn_Type, discFn_Kind, discFn_isActual, discFn_cType, discFn_cIface, discFn_cFuncName, discFn_cFuncRes, discFn_cOr, discFn_cOrNil, discFn_getMetas2, discFn_Args, discFn_Find, discFn_Injects, discFn_setInjects, discFn_append, discFn_appendNil, discFn_appendSpread, envDW, ht, ht']


def df4Parts : List Stmt × List Stmt × List Stmt :=
  match dfStmt 4 with
  | .ifs init _ [_, .range _ _ _ b, _] els => (init, b, els)
  | _ => ([], [], [])
theorem df4_shape : dfStmt 4 = .ifs df4Parts.1 (.var "ok")
    [.define ["options"] .nil, .range "_" "arg" (.var "args") df4Parts.2.1,
     .assign ["funcOption"] (.call "container.Or" [.var "options"])] df4Parts.2.2 := rfl

def encOpts (s : String) (acc : List Nat) : Val := if acc.isEmpty then .nil else .list (acc.map (resTok s))

/-- environment inside the `returns` branch -/
def envR (n k : Nat) (t : Val) (rs : List Nat) (s : String) (acc : List Nat) : Env :=
  [("options", encOpts s acc), ("ok", .bool true), ("args", .list (rs.map (fun (r : Nat) => Val.int r)))] ++ envF n k t .nil

def optStep (r : Nat) (acc : List Nat) (w : DW) : List Nat × DW × Option Val := (acc ++ [r], w, none)

theorem optStep_loop (rs acc : List Nat) (w : DW) : stepLoop optStep rs acc w = (acc ++ rs, w, none) := by
  induction rs generalizing acc with
  | nil => simp [stepLoop]
  | cons r rest ih => simp [stepLoop, optStep, ih]

theorem df4_iter (n k i r : Nat) (t : Val) (rs acc : List Nat) (w : DW) :
    (evalB (DF pop props funcRes funcName) (Env.def (Env.def (envR n k t rs (propAt props k).tagVal acc) "_" (.int i)) "arg" (.int r)) w df4Parts.2.1).map
        (fun (e', w'', ctl) => (Env.leave e' (envR n k t rs (propAt props k).tagVal acc).length, w'', ctl)) =
      some (envR n k t rs (propAt props k).tagVal (optStep r acc w).1, (optStep r acc w).2.1, ctlOf (optStep r acc w).2.2) := by
  cases acc with
  | nil => go_simp [df4Parts, dfStmt, dfBody, Progs.depFunc_PostProcessProperties, discFn_injectTag, discFn_funcTag, discFn_rPointer, discFn_rPtr, discFn_rInterface, discFn_Tag, discFn_TagVal, discFn_Type, discFn_Kind, discFn_isActual, discFn_cType, discFn_cIface, discFn_cFuncName, discFn_cFuncRes, discFn_cOr, discFn_cOrNil, discFn_getMetas2, discFn_Args, discFn_Find, discFn_Injects, discFn_setInjects, discFn_append, discFn_appendNil, discFn_appendSpread, envR, envF, envDW, encOpts, optStep, ctlOf, resTok]
  | cons a l => go_simp [df4Parts, dfStmt, dfBody, Progs.depFunc_PostProcessProperties, discFn_injectTag, discFn_funcTag, discFn_rPointer, discFn_rPtr, discFn_rInterface, discFn_Tag, discFn_TagVal, discFn_Type, discFn_Kind, discFn_isActual, discFn_cType, discFn_cIface, discFn_cFuncName, discFn_cFuncRes, discFn_cOr, discFn_cOrNil, discFn_getMetas2, discFn_Args, discFn_Find, discFn_Injects, discFn_setInjects, discFn_append, discFn_appendNil, discFn_appendSpread, envR, envF, envDW, encOpts, optStep, ctlOf, resTok]

theorem df_s4 (n k : Nat) (t : Val) (w : DW) :
    evalS (DF pop props funcRes funcName) (envF n k t .nil) w (dfStmt 4) =
      some (envF n k t (funcTok (propAt props k)), w, .norm) := by
  cases hr : (propAt props k).returns with
  | none =>
    go_simp [dfStmt, dfBody, Progs.depFunc_PostProcessProperties, discFn_injectTag, discFn_funcTag, discFn_rPointer, discFn_rPtr, discFn_rInterface, discFn_Tag, discFn_TagVal, discFn_Type, discFn_Kind, discFn_isActual, discFn_cType, discFn_cIface, discFn_cFuncName, discFn_cFuncRes, discFn_cOr, discFn_cOrNil, discFn_getMetas2, discFn_Args, discFn_Find, discFn_Injects, discFn_setInjects, discFn_append, discFn_appendNil, discFn_appendSpread, envF, envDW, hr, funcTok]
  | some rs =>
    rw [df4_shape]
    rw [evalS_ifs_true (w1 := w) (w2 := w) (env1 := [("ok", .bool true), ("args", .list (rs.map (fun (r : Nat) => Val.int r)))] ++ envF n k t .nil)
      (hinit := by go_simp [df4Parts, dfStmt, dfBody, Progs.depFunc_PostProcessProperties, discFn_injectTag, discFn_funcTag, discFn_rPointer, discFn_rPtr, discFn_rInterface, discFn_Tag, discFn_TagVal, discFn_Type, discFn_Kind, discFn_isActual, discFn_cType, discFn_cIface, discFn_cFuncName, discFn_cFuncRes, discFn_cOr, discFn_cOrNil, discFn_getMetas2, discFn_Args, discFn_Find, discFn_Injects, discFn_setInjects, discFn_append, discFn_appendNil, discFn_appendSpread, envF, envDW, hr])
      (hc := by go_simp [envF])]
    rw [evalB_cons]
    have h0 : evalS (DF pop props funcRes funcName) ([("ok", .bool true), ("args", .list (rs.map (fun (r : Nat) => Val.int r)))] ++ envF n k t .nil) w
        (.define ["options"] .nil) = some (envR n k t rs (propAt props k).tagVal [], w, .norm) := by
      go_simp [envR, encOpts]
    rw [h0]; simp only []
    rw [evalB_cons]
    simp only [evalS]
    have hcoll : evalE (DF pop props funcRes funcName) (envR n k t rs (propAt props k).tagVal []) w (.var "args") =
        some (.list (rs.map (fun (r : Nat) => Val.int r)), w) := by go_simp [envR]
    rw [hcoll]; simp only []
    have := loopM_state (fun (r : Nat) => Val.int r)
      (fun i x e w' => (evalB (DF pop props funcRes funcName) (Env.def (Env.def e "_" (.int i)) "arg" x) w' df4Parts.2.1).map
        (fun (e', w'', ctl) => (Env.leave e' e.length, w'', ctl)))
      (envR n k t rs (propAt props k).tagVal) optStep (fun i r acc w' => df4_iter pop props funcRes funcName n k i r t rs acc w') rs 0 [] w
    rw [this, optStep_loop]
    simp only [ctlOf, List.nil_append]
    cases rs with
    | nil => go_simp [discFn_injectTag, discFn_funcTag, discFn_rPointer, discFn_rPtr, discFn_rInterface, discFn_Tag, discFn_TagVal, discFn_Type, discFn_Kind, discFn_isActual, discFn_cType, discFn_cIface, discFn_cFuncName, discFn_cFuncRes, discFn_cOr, discFn_cOrNil, discFn_getMetas2, discFn_Args, discFn_Find, discFn_Injects, discFn_setInjects, discFn_append, discFn_appendNil, discFn_appendSpread, envR, envF, envDW, encOpts, funcTok, hr]
    | cons a l => go_simp [discFn_injectTag, discFn_funcTag, discFn_rPointer, discFn_rPtr, discFn_rInterface, discFn_Tag, discFn_TagVal, discFn_Type, discFn_Kind, discFn_isActual, discFn_cType, discFn_cIface, discFn_cFuncName, discFn_cFuncRes, discFn_cOr, discFn_cOrNil, discFn_getMetas2, discFn_Args, discFn_Find, discFn_Injects, discFn_setInjects, discFn_append, discFn_appendNil, discFn_appendSpread, envR, envF, envDW, encOpts, funcTok, hr]


theorem typeMeaning_tok (k : Kind) (t : Val) (h : typeTok k = some t) : typeMeaning t = typeOption k := by
  cases k <;> simp [typeTok] at h <;> subst h <;> simp [typeMeaning, typeOption]

def funcFilter (p : DProp) : Prov → Bool :=
  match p.returns with
  | some rs => fun q => rs.any (fun r => funcRes p.tagVal r q)
  | none => funcName p.tagVal

theorem funcMeaning_tok (p : DProp) : funcMeaning funcRes funcName (funcTok p) = some (funcFilter funcRes funcName p) := by
  unfold funcTok funcFilter
  cases p.returns with
  | none => rfl
  | some rs => simp [funcMeaning, orMeaning_tokens]

/-- statements 5..6: the registry lookup with both options and the append to `Injects` -/
theorem df_s56 (n k : Nat) (t : Val) (f : Prov → Bool) (w : DW) (ht : typeMeaning t = some f) :
    evalB (DF pop props funcRes funcName) (envF n k t (funcTok (propAt props k))) w [dfStmt 5, dfStmt 6] =
      some ([("dm", .list ((pop.filter (fun q => f q && funcFilter funcRes funcName (propAt props k) q)).map (fun q => Val.ref q.id 0)))] ++
              envF n k t (funcTok (propAt props k)),
            w.set k (w.getD k [] ++ (pop.filter (fun q => f q && funcFilter funcRes funcName (propAt props k) q)).map (fun q => some q.id)), .norm) := by
  have hf := funcMeaning_tok funcRes funcName (propAt props k)
  have hd := decInj_enc (w[k]?.getD [])
  go_simp [dfStmt, dfBody, Progs.depFunc_PostProcessProperties, discFn_injectTag, discFn_funcTag, discFn_rPointer, discFn_rPtr, discFn_rInterface, discFn_Tag, discFn_TagVal, discFn_Type, discFn_Kind, discFn_isActual, discFn_cType, discFn_cIface, discFn_cFuncName, discFn_cFuncRes, discFn_cOr, discFn_cOrNil, discFn_getMetas2, discFn_Args, discFn_Find, discFn_Injects, discFn_setInjects, discFn_append, discFn_appendNil, discFn_appendSpread, envF, envDW, ht, hf, encInj, decInj_append, decInj_ids, hd]

theorem df_iter (n i k : Nat) (w : DW) :
    ∃ c, (evalB (DF pop props funcRes funcName) (Env.def (Env.def (envDW n) "_" (.int i)) "prop" (.ref k 20)) w dfBody).map
        (fun (e', w'', ctl) => (Env.leave e' (envDW n).length, w'', ctl)) =
      some (envDW n, (funcStep pop props funcRes funcName k () w).2.1, c) ∧
      CtlMatches c (funcStep pop props funcRes funcName k () w).2.2 := by
  rw [dfBody_eq, show [dfStmt 0, dfStmt 1, dfStmt 2, dfStmt 3, dfStmt 4, dfStmt 5, dfStmt 6] =
    [dfStmt 0, dfStmt 1, dfStmt 2, dfStmt 3] ++ ([dfStmt 4] ++ [dfStmt 5, dfStmt 6]) from rfl, evalB_append, df_s03]
  by_cases ht : (propAt props k).tag = "func"
  · have ht' : ((propAt props k).tag != "func") = false := by simp [ht]
    simp only [ht', Bool.false_eq_true, if_false]
    cases htk : typeTok (propAt props k).kind with
    | none =>
      refine ⟨.cont, ?_, Or.inl ⟨rfl, Or.inr rfl⟩⟩
      have hto : typeOption (propAt props k).kind = none := by
        cases hk : (propAt props k).kind <;> simp [hk, typeTok] at htk <;> rfl
      simp [funcStep, discoverFunc, ht, hto, set_getD_self, Env.leave, envF, envDW]
    | some t =>
      refine ⟨.norm, ?_, Or.inl ⟨rfl, Or.inl rfl⟩⟩
      have hm := typeMeaning_tok (propAt props k).kind t htk
      obtain ⟨f, hf⟩ : ∃ f, typeOption (propAt props k).kind = some f := by
        cases hk : (propAt props k).kind <;> simp [hk, typeTok] at htk <;> exact ⟨_, rfl⟩
      simp only []
      rw [evalB_append, evalB_cons, df_s4]; simp only [evalB_nil]
      rw [df_s56 pop props funcRes funcName n k t f w (by rw [hm, hf])]
      simp [funcStep, discoverFunc, ht, hf, funcFilter, Env.leave, envF, envDW]
  · refine ⟨.cont, ?_, Or.inl ⟨rfl, Or.inr rfl⟩⟩
    have ht' : ((propAt props k).tag != "func") = true := by simpa using ht
    simp [ht', funcStep, discoverFunc, set_getD_self, Env.leave, envDW]


theorem funcStep_loop (is : List Nat) (w : DW) :
    stepLoop (funcStep pop props funcRes funcName) is () w =
      ((), applyDisc (fun i => discoverFunc pop funcRes funcName (propAt props i)) is w, none) := by
  induction is generalizing w with
  | nil => simp [stepLoop, applyDisc]
  | cons i rest ih => simp [stepLoop, funcStep, applyDisc, ih]

/-- dependencyFunctionAwarePostProcessors.PostProcessProperties, regenerated: every `func` property node, in order, gets what
    `discoverFunc` finds APPENDED to its `Injects` -/
theorem depFunc_sem (n : Nat) (w : DW) :
    run (DF pop props funcRes funcName) Progs.depFunc_PostProcessProperties
        [.list ((List.range' 0 n).map (fun i => Val.ref i 20)), .str "c", .str "n"] w =
      some (.tuple [.nil, .nil], applyDisc (fun i => discoverFunc pop funcRes funcName (propAt props i)) (List.range' 0 n) w) := by
  simp only [run, df_params, df_shape, List.length_cons, List.length_nil, if_true, List.zip_cons_cons, List.zip_nil_right]
  rw [evalB_cons]
  simp only [evalS]
  rw [show ([("properties", Val.list ((List.range' 0 n).map (fun i => Val.ref i 20))), ("component", Val.str "c"), ("componentName", Val.str "n")] : Env) = envDW n from rfl]
  have hcoll : evalE (DF pop props funcRes funcName) (envDW n) w (.var "properties") =
      some (.list ((List.range' 0 n).map (fun i => Val.ref i 20)), w) := by go_simp [envDW]
  rw [hcoll]; simp only []
  have := loopM_state_cont (fun i => Val.ref i 20)
    (fun i x e w' => (evalB (DF pop props funcRes funcName) (Env.def (Env.def e "_" (.int i)) "prop" x) w' dfBody).map
      (fun (e', w'', ctl) => (Env.leave e' e.length, w'', ctl)))
    (fun (_ : Unit) => envDW n) (funcStep pop props funcRes funcName) (fun i k _ w' => df_iter pop props funcRes funcName n i k w') (List.range' 0 n) 0 () w
  rw [this, funcStep_loop]
  go_simp [ctlOf]

/-- … and `discoverFunc` is M3's `candidatesFunc` when the option closures mean what the model says -/
theorem discoverFunc_is_candidatesFunc (p : DProp) (tv : Bytes) (args : Tag.Args) (alts : Nat → Bytes) (hf : p.tag = "func")
    (hres : ∀ r q, funcRes p.tagVal r q = funcNameAndResult tv (alts r) q)
    (hname : ∀ q, funcName p.tagVal q = Match.funcName tv q)
    (hargs : Tag.find args kReturns = p.returns.map (fun rs => rs.map alts)) :
    discoverFunc pop funcRes funcName p = candidatesFunc pop p.kind tv args := by
  unfold discoverFunc candidatesFunc
  simp only [hf, bne_self_eq_false, Bool.false_eq_true, if_false, hargs]
  cases typeOption p.kind with
  | none => rfl
  | some f =>
    simp only []
    cases p.returns with
    | none =>
      simp only [Option.map_none]
      congr 1
      apply List.filter_congr
      intro q _
      rw [hname]
    | some rs =>
      simp only [Option.map_some]
      congr 1
      apply List.filter_congr
      intro q _
      simp [List.any_map, hres, Function.comp_def]

end func
end Ioc.Sem
