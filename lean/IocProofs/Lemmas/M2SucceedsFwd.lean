/-
  Forward half of the success characterisation: without substitution and without a fault on a reachable name the start
  never fails (hence ends `done`, by termination), and every point of every created component holds exactly the
  registered instances of its non-self candidates (`expected`).
-/
import IocProofs.Lemmas.M2SucceedsAcc
import IocProofs.Lemmas.M2SucceedsRaw
import IocProofs.Lemmas.M2Term
namespace Ioc.M2.Sx
open Ioc.M2 Ioc.M2.Lc

theorem acc_full {sc : Scen} {f : Frame} (h : AccOk sc f) (hp : f.p < (pts sc f.name).length)
    (hd : ¬ f.d < ((pts sc f.name)[f.p]).cands.length) : f.acc.map (·.name) = ((pts sc f.name)[f.p]).cands := by
  unfold AccOk at h
  rw [candsAt_eq hp] at h
  rw [h, List.take_of_length_le (by omega)]

theorem top_reach {sc : Scen} {st : St} (g : Good sc st) {f : Frame} {rest : List Frame} (hs : st.stack = f :: rest) :
    Reach sc f.name :=
  (reach_iff_root sc _).mpr (g.reach.ent _ (Or.inl (by simp [Lc.snames, hs])))

theorem src_reach {sc : Scen} {st st0 : St} {c : Nat} (g : Good sc st) (src : Src sc st st0 c) : Reach sc c :=
  (reach_iff_root sc c).mpr (src_root src g.todo g.reach)

/-- a finished point on which Inject reports an error is a bad point of the holder (scenario vocabulary) -/
theorem bad_point_of_fail {sc : Scen} {f : Frame} (hacc : AccOk sc f) (hp : f.p < (pts sc f.name).length)
    (hd : ¬ f.d < ((pts sc f.name)[f.p]).cands.length) (hne : ((pts sc f.name)[f.p]).cands ≠ [])
    (hreq : ((pts sc f.name)[f.p]).required = true)
    (hwhy : metasOf f = [] ∨ (metasOf f).any (fun o => ((pts sc f.name)[f.p]).incompat.contains o.name) = true) :
    BadPoint f.name ((pts sc f.name)[f.p]) := by
  have hfull := acc_full hacc hp hd
  rcases hwhy with h | h
  · exact Or.inl ⟨hreq, hne, (metas_nil_iff f _ hfull).mp h⟩
  · exact Or.inr ⟨hreq, (metas_any_iff f _ _ hfull).mp h⟩

/-- … and conversely: a finished point that is written or skipped for lack of candidates is not a bad point -/
theorem not_bad_of_write {sc : Scen} {f : Frame} (hacc : AccOk sc f) (hp : f.p < (pts sc f.name).length)
    (hd : ¬ f.d < ((pts sc f.name)[f.p]).cands.length) (hm : metasOf f ≠ [])
    (hc : (metasOf f).any (fun o => ((pts sc f.name)[f.p]).incompat.contains o.name) = false) :
    ¬ BadPoint f.name ((pts sc f.name)[f.p]) := by
  have hfull := acc_full hacc hp hd
  rintro (⟨_, _, h⟩ | ⟨_, h⟩)
  · exact hm ((metas_nil_iff f _ hfull).mpr h)
  · rw [(metas_any_iff f _ _ hfull).mpr h] at hc; cases hc

theorem nofail_stepR (sc : Scen) (ns : NoSubstitution sc) (nf : NoFault sc) (st st' : St) (g : Good sc st)
    (hr : st.status = .running) (hstep : StepR sc st st') : ¬ Failed st' := by
  rintro ⟨x, s, hx⟩
  cases hstep with
  | done hs hb ht => cases hx
  | hit st0 c src o ho => simp [src.same.2.2.2.2.2.2, hr] at hx
  | promote st0 c src h1 h2 h3 hf => simp [src.same.2.2.2.2.2.2, hr] at hx
  | earlyFail st0 c src h1 h2 h3 hf => rw [nf.early c (src_reach g src)] at hf; cases hf
  | unknown st0 c src h1 h2 h3 hn => exact nf.static c (src_reach g src) (Or.inl hn)
  | enterU st0 c src h1 h2 h3 hn hw => simp [push, src.same.2.2.2.2.2.2, hr] at hx
  | enterFail st0 c src h1 h2 h3 hn hw hbad => exact nf.static c (src_reach g src) (Or.inr (Or.inl ⟨hw, hbad⟩))
  | enterW st0 c src h1 h2 h3 hn hw hcfg hpts => simp [push, src.same.2.2.2.2.2.2, hr] at hx
  | advance f rest hs hp hd hwhy => simp [hr] at hx
  | injFail f rest hs hp hd hne hreq hwhy =>
    refine nf.static f.name (top_reach g hs) (Or.inr (Or.inr (Or.inr ⟨_, List.getElem_mem hp, ?_⟩)))
    exact bad_point_of_fail (g.acc f (by simp [hs])) hp hd hne hreq hwhy
  | write f rest hs hp hd hne hm hc => simp [hr] at hx
  | cbFail f rest hs hp hcb =>
    exact nf.static f.name (top_reach g hs) (Or.inr (Or.inr (Or.inl ((initCallbacks_snd sc st f.name).mp hcb))))
  | stale f rest hs hp hcb e he hw hh => exact hw (ns.initResult f.name)
  | publish f rest hs hp hcb pub hpub => simp [M2.publish, hr] at hx

theorem nofail_run (sc : Scen) (ns : NoSubstitution sc) (nf : NoFault sc) (k : Nat) : ¬ Failed (run sc k (init sc)) := by
  induction k with
  | zero => rintro ⟨x, s, h⟩; cases h
  | succ k ih =>
    rw [run_succ]
    by_cases hr : (run sc k (init sc)).status = .running
    · exact nofail_stepR sc ns nf _ _ (good_run sc ns.wf k) hr (step_rel sc _ hr)
    · rw [Lc.step_not_running sc _ hr]; exact ih

/-- the start succeeds -/
theorem succeeds (sc : Scen) (ns : NoSubstitution sc) (nf : NoFault sc) : (final sc).status = .done := by
  have h1 := terminates_any sc
  have h2 := nofail_run sc ns nf (fuelBound sc)
  unfold final at *
  cases h : (run sc (fuelBound sc) (init sc)).status with
  | running => exact absurd h h1
  | done => rfl
  | failed x s => exact absurd ⟨x, s, h⟩ h2

/-! ### what the fields hold -/

/-- the candidates of a point that Inject keeps: everything but the holder itself -/
def nonSelf (n : Nat) (pt : Point) : List Nat := pt.cands.filter (· != n)

/-- the content of a field after a start without substitution: nothing when no candidate other than the holder exists or
    one of them is not assignable; otherwise the registered instances of all of them (slice) / of the first one -/
def expected (n : Nat) (pt : Point) : List Obj :=
  if nonSelf n pt = [] ∨ (nonSelf n pt).any (fun c => pt.incompat.contains c) = true then []
  else (if pt.slice then nonSelf n pt else (nonSelf n pt).take 1).map raw

theorem metas_raw {f : Frame} {cs : List Nat} (hacc : f.acc.map (·.name) = cs) (hraw : ∀ o ∈ f.acc, o = raw o.name) :
    metasOf f = (cs.filter (· != f.name)).map raw := by
  have h1 : f.acc = cs.map raw := by
    rw [← hacc, List.map_map]
    conv => lhs; rw [← List.map_id f.acc]
    exact List.map_congr_left (fun o ho => hraw o ho)
  unfold metasOf
  rw [h1, List.filter_map]
  rfl

theorem any_map_raw (l inc : List Nat) :
    ((l.map raw).any fun o => inc.contains o.name) = l.any (fun c => inc.contains c) := by
  rw [List.any_map]; rfl

theorem ite_map_take (b : Bool) (l : List Nat) :
    (if b = true then l.map raw else (l.map raw).take 1) = (if b = true then l else l.take 1).map raw := by
  cases b <;> simp [List.map_take]

/-- every point that has been processed holds its expected content -/
def Wired (sc : Scen) (st : St) : Prop :=
  ¬ Failed st → ∀ n i pt, (pts sc n)[i]? = some pt → Past st n i → st.fields n i = expected n pt

theorem wired_mono {sc : Scen} {st st' : St} (h : Wired sc st) (hnf : ¬ Failed st) (hf : st'.fields = st.fields)
    (hp : ∀ n i, Past st' n i → Past st n i) : Wired sc st' := by
  intro _ n i pt hpt hpast
  rw [hf]
  exact h hnf n i pt hpt (hp n i hpast)

theorem past_of_bump {stk : List Frame} {l1 : Nat → Option Obj} {o : Obj} {n i : Nat}
    (h : l1 n ≠ none ∨ ∃ f ∈ bump stk o, f.name = n ∧ i < f.p) : l1 n ≠ none ∨ ∃ f ∈ stk, f.name = n ∧ i < f.p := by
  rcases h with h | ⟨f, hf, hn, hi⟩
  · exact Or.inl h
  · right
    cases stk with
    | nil => simp [bump] at hf
    | cons g rest =>
      simp only [bump, List.mem_cons] at hf
      rcases hf with rfl | hf
      · exact ⟨g, by simp, hn, hi⟩
      · exact ⟨f, by simp [hf], hn, hi⟩

/-- the top frame has not processed its current point yet -/
theorem past_top {sc : Scen} {st : St} (hi : Lc.Inv sc st) {f : Frame} {rest : List Frame} (hs : st.stack = f :: rest)
    {i : Nat} (h : Past st f.name i) : i < f.p := by
  rcases h with h | ⟨g, hg, hn, hlt⟩
  · exact absurd (hi.l1_off _ (by simp [Lc.snames, hs])) h
  · rw [hs] at hg
    simp only [List.mem_cons] at hg
    rcases hg with rfl | hg
    · exact hlt
    · have hnd := hi.nodup
      simp [Lc.snames, hs] at hnd
      exact absurd hn (hnd.1 g hg)

theorem wired_stepR (sc : Scen) (st st' : St) (g : Good sc st)
    (hraw : ∀ f ∈ st.stack, ∀ o ∈ f.acc, o = raw o.name) (h : Wired sc st) (hr : st.status = .running)
    (hstep : StepR sc st st') : Wired sc st' := by
  have nf := not_failed_of_running hr
  have fail : ∀ s x, Wired sc (failAt s x) := fun s x hnf => absurd (failed_failAt s x) hnf
  cases hstep with
  | done hs hb ht => exact wired_mono h nf rfl (fun n i hp => hp)
  | hit st0 c src o ho =>
    refine wired_mono h nf src.same.2.2.2.2.1 (fun n i hp => (past_src src n i).mp (past_of_bump hp))
  | promote st0 c src h1 h2 h3 hf =>
    refine wired_mono h nf (by simp [src.same.2.2.2.2.1]) (fun n i hp => (past_src src n i).mp ?_)
    have hp' : st0.l1 n ≠ none ∨ ∃ f ∈ bump st0.stack (sc.earlyO c), f.name = n ∧ i < f.p := by simpa [Past] using hp
    exact past_of_bump hp'
  | earlyFail st0 c src h1 h2 h3 hf => exact fail _ _
  | unknown st0 c src h1 h2 h3 hn => exact fail _ _
  | enterU st0 c src h1 h2 h3 hn hw =>
    refine wired_mono h nf (by simp [push, src.same.2.2.2.2.1]) (fun n i hp => (past_src src n i).mp ?_)
    rcases hp with hp | ⟨f, hf, hn', hlt⟩
    · exact Or.inl hp
    · simp only [push, List.mem_cons] at hf
      rcases hf with rfl | hf
      · simp at hlt
      · exact Or.inr ⟨f, hf, hn', hlt⟩
  | enterFail st0 c src h1 h2 h3 hn hw hbad => exact fail _ _
  | enterW st0 c src h1 h2 h3 hn hw hcfg hpts =>
    refine wired_mono h nf (by simp [push, src.same.2.2.2.2.1]) (fun n i hp => (past_src src n i).mp ?_)
    rcases hp with hp | ⟨f, hf, hn', hlt⟩
    · exact Or.inl (by simpa [push] using hp)
    · simp only [addLog_stack, push, List.mem_cons] at hf
      rcases hf with rfl | hf
      · simp at hlt
      · exact Or.inr ⟨f, hf, hn', hlt⟩
  | advance f rest hs hp hd hwhy =>
    intro _ n i pt hpt hpast
    by_cases hni : n = f.name ∧ i = f.p
    · obtain ⟨rfl, rfl⟩ := hni
      have hz : st.fields f.name f.p = [] := by
        apply Classical.byContradiction
        intro hne
        exact absurd (past_top g.inv hs (g.fresh nf _ _ hne)) (by omega)
      rw [List.getElem?_eq_getElem hp] at hpt
      injection hpt with hpt
      subst hpt
      show st.fields f.name f.p = _
      rw [hz]
      have hm := metas_raw (acc_full (g.acc f (by simp [hs])) hp hd) (hraw f (by simp [hs]))
      unfold expected nonSelf
      rcases hwhy with hc | ⟨_, hm' | hm'⟩
      · simp [hc]
      · rw [hm] at hm'
        rw [if_pos (Or.inl (List.map_eq_nil_iff.mp hm'))]
      · rw [hm, any_map_raw] at hm'
        rw [if_pos (Or.inr hm')]
    · refine h nf n i pt hpt ?_
      rcases hpast with hp' | ⟨f', hf', hn', hlt⟩
      · exact Or.inl hp'
      · simp only [List.mem_cons] at hf'
        rcases hf' with rfl | hf'
        · simp only [advance] at hn' hlt
          exact Or.inr ⟨f, by simp [hs], hn', by
            rcases Nat.lt_succ_iff_lt_or_eq.mp hlt with h' | h'
            · exact h'
            · exact absurd ⟨hn'.symm, h'⟩ hni⟩
        · exact Or.inr ⟨f', by simp [hs, hf'], hn', hlt⟩
  | injFail f rest hs hp hd hne hreq hwhy => exact fail _ _
  | write f rest hs hp hd hne hm hc =>
    intro _ n i pt hpt hpast
    by_cases hni : n = f.name ∧ i = f.p
    · obtain ⟨rfl, rfl⟩ := hni
      rw [List.getElem?_eq_getElem hp] at hpt
      injection hpt with hpt
      subst hpt
      have hmr := metas_raw (acc_full (g.acc f (by simp [hs])) hp hd) (hraw f (by simp [hs]))
      simp only [upd2, and_self, if_true]
      rw [hmr] at hm hc ⊢
      rw [any_map_raw] at hc
      unfold expected nonSelf
      have hcond : ¬ (List.filter (· != f.name) (pts sc f.name)[f.p].cands = [] ∨
          (List.filter (· != f.name) (pts sc f.name)[f.p].cands).any
            (fun c => (pts sc f.name)[f.p].incompat.contains c) = true) := by
        rintro (h' | h')
        · exact hm (by rw [h']; rfl)
        · rw [h'] at hc; cases hc
      rw [if_neg hcond]
      exact ite_map_take _ _
    · simp only [upd2, hni, if_false]
      refine h nf n i pt hpt ?_
      rcases hpast with hp' | ⟨f', hf', hn', hlt⟩
      · exact Or.inl hp'
      · simp only [List.mem_cons] at hf'
        rcases hf' with rfl | hf'
        · simp only [advance] at hn' hlt
          exact Or.inr ⟨f, by simp [hs], hn', by
            rcases Nat.lt_succ_iff_lt_or_eq.mp hlt with h' | h'
            · exact h'
            · exact absurd ⟨hn'.symm, h'⟩ hni⟩
        · exact Or.inr ⟨f', by simp [hs, hf'], hn', hlt⟩
  | cbFail f rest hs hp hcb => exact fail _ _
  | stale f rest hs hp hcb e he hw hh => exact fail _ _
  | publish f rest hs hp hcb pub hpub =>
    intro _ n i pt hpt hpast
    · have hfl : (M2.publish (initCallbacks sc st f.name).1 f.name pub rest).fields = st.fields := by simp [M2.publish]
      rw [hfl]
      refine h nf n i pt hpt ?_
      have hpast' : (upd st.l1 f.name (some pub)) n ≠ none ∨ ∃ f' ∈ bump rest pub, f'.name = n ∧ i < f'.p := by
        rcases hpast with hp' | hp'
        · exact Or.inl (by simpa [M2.publish] using hp')
        · rw [publish_stack] at hp'; exact Or.inr hp'
      rcases past_of_bump hpast' with hp' | ⟨f', hf', hn', hlt⟩
      · by_cases hnf : n = f.name
        · subst hnf
          have hil : i < (pts sc f.name).length := (List.getElem?_eq_some_iff.mp hpt).1
          exact Or.inr ⟨f, by simp [hs], rfl, by omega⟩
        · exact Or.inl (by simpa [upd, hnf] using hp')
      · exact Or.inr ⟨f', by simp [hs, hf'], hn', hlt⟩

theorem wired_run (sc : Scen) (ns : NoSubstitution sc) (k : Nat) : Wired sc (run sc k (init sc)) := by
  induction k with
  | zero =>
    intro _ n i pt _ hp
    rcases hp with hp | ⟨f, hf, _⟩
    · simp [run, init] at hp
    · simp [run, init] at hf
  | succ k ih =>
    rw [run_succ]
    by_cases hr : (run sc k (init sc)).status = .running
    · exact wired_stepR sc _ _ (good_run sc ns.wf k) (acc_raw sc ns k) ih hr (step_rel sc _ hr)
    · rw [Lc.step_not_running sc _ hr]; exact ih

/-- at the end of a start without substitution that did not fail, every point of every created component holds exactly
    the registered instances of its usable candidates -/
theorem fields_expected (sc : Scen) (ns : NoSubstitution sc) (hnf : ¬ Failed (final sc)) (n i : Nat) (pt : Point)
    (hpt : (pts sc n)[i]? = some pt) (hpub : (final sc).l1 n ≠ none) : (final sc).fields n i = expected n pt :=
  wired_run sc ns (fuelBound sc) hnf n i pt hpt (Or.inl hpub)

/-- a point without a static fault that is required and has candidates receives something -/
theorem expected_ne_nil {n : Nat} {pt : Point} (hreq : pt.required = true) (hne : pt.cands ≠ []) (hb : ¬ BadPoint n pt) :
    expected n pt ≠ [] := by
  have h1 : nonSelf n pt ≠ [] := by
    intro h
    apply hb
    left
    refine ⟨hreq, hne, fun c hc => ?_⟩
    have := List.filter_eq_nil_iff.mp h c hc
    simpa using this
  have h2 : (nonSelf n pt).any (fun c => pt.incompat.contains c) = false := by
    cases h : (nonSelf n pt).any (fun c => pt.incompat.contains c) with
    | false => rfl
    | true =>
      exfalso
      apply hb
      right
      obtain ⟨c, hc, hi⟩ := List.any_eq_true.mp h
      obtain ⟨hc1, hc2⟩ := List.mem_filter.mp hc
      exact ⟨hreq, c, hc1, by simpa using hc2, by simpa using hi⟩
  unfold expected
  rw [if_neg (by rintro (h | h); exact h1 h; rw [h2] at h; cases h)]
  cases hl : nonSelf n pt with
  | nil => exact absurd hl h1
  | cons a t => cases pt.slice <;> simp

end Ioc.M2.Sx
