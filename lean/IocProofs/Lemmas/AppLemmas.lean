/-
  Lemmas about the start-up pipeline (Ioc.App): the ordering contract `sortOrdered` (stable insertion sort per class),
  `callRunners` (stop at the first error) and the stage structure of `appRun`.
-/
import Ioc.App
namespace Ioc.App
open Ioc.M2

/-! ### stable insertion sort -/

theorem insertStable_perm {α : Type} (lt : α → α → Bool) (x : α) (l : List α) :
    (insertStable lt x l).Perm (x :: l) := by
  induction l with
  | nil => exact List.Perm.refl _
  | cons y ys ih =>
    simp only [insertStable]
    split
    · exact (List.Perm.cons y ih).trans (List.Perm.swap x y ys)
    · exact List.Perm.refl _

theorem isortStable_cons {α : Type} (lt : α → α → Bool) (x : α) (l : List α) :
    isortStable lt (x :: l) = insertStable lt x (isortStable lt l) := rfl

theorem isortStable_perm {α : Type} (lt : α → α → Bool) (l : List α) : (isortStable lt l).Perm l := by
  induction l with
  | nil => exact List.Perm.refl _
  | cons x l ih =>
    rw [isortStable_cons]
    exact (insertStable_perm lt x _).trans (List.Perm.cons x ih)

def keyLt (a b : Runner) : Bool := decide (a.key < b.key)

theorem insertStable_sorted (x : Runner) (l : List Runner) (h : l.Pairwise (fun a b => a.key ≤ b.key)) :
    (insertStable keyLt x l).Pairwise (fun a b => a.key ≤ b.key) := by
  induction l with
  | nil => simp [insertStable]
  | cons y ys ih =>
    have hy := List.pairwise_cons.mp h
    simp only [insertStable]
    split
    · rename_i hlt
      have hlt' : y.key < x.key := by simpa [keyLt] using hlt
      refine List.pairwise_cons.mpr ⟨?_, ih hy.2⟩
      intro z hz
      have hz' := (insertStable_perm keyLt x ys).mem_iff.mp hz
      simp at hz'
      rcases hz' with rfl | hz'
      · omega
      · exact hy.1 z hz'
    · rename_i hlt
      have hle : x.key ≤ y.key := by
        have : ¬ y.key < x.key := by simpa [keyLt] using hlt
        omega
      refine List.pairwise_cons.mpr ⟨?_, h⟩
      intro z hz
      simp at hz
      rcases hz with rfl | hz
      · exact hle
      · have := hy.1 z hz; omega

theorem isortStable_sorted (l : List Runner) : (isortStable keyLt l).Pairwise (fun a b => a.key ≤ b.key) := by
  induction l with
  | nil => simp [isortStable]
  | cons x l ih => rw [isortStable_cons]; exact insertStable_sorted x _ ih

/-- stability: the runners with one and the same key keep their relative order -/
theorem insertStable_filter_key (x : Runner) (l : List Runner) (k : Int) :
    (insertStable keyLt x l).filter (fun r => r.key == k) =
      if x.key = k then x :: l.filter (fun r => r.key == k) else l.filter (fun r => r.key == k) := by
  induction l with
  | nil => by_cases hx : x.key = k <;> simp [insertStable, hx]
  | cons y ys ih =>
    simp only [insertStable]
    split
    · rename_i hlt
      have hlt' : y.key < x.key := by simpa [keyLt] using hlt
      rw [List.filter_cons, ih]
      by_cases hx : x.key = k
      · have hy : ¬ y.key = k := by omega
        simp [hx, hy]
      · simp only [hx, if_false]
        rw [List.filter_cons]
    · by_cases hx : x.key = k
      · simp [List.filter_cons, hx]
      · simp [List.filter_cons, hx]

theorem isortStable_filter_key (l : List Runner) (k : Int) :
    (isortStable keyLt l).filter (fun r => r.key == k) = l.filter (fun r => r.key == k) := by
  induction l with
  | nil => rfl
  | cons x l ih =>
    rw [isortStable_cons, insertStable_filter_key, ih, List.filter_cons]
    by_cases hx : x.key = k <;> simp [hx]

/-! ### sortOrdered -/

def isPrio (r : Runner) : Bool := r.cls == .prio
def isOrd (r : Runner) : Bool := r.cls == .ord
def isPlain (r : Runner) : Bool := r.cls == .plain

theorem sortOrdered_eq (l : List Runner) :
    sortOrdered l = isortStable keyLt (l.filter isPrio) ++ isortStable keyLt (l.filter isOrd) ++ l.filter isPlain := rfl

theorem classes_perm (l : List Runner) : (l.filter isPrio ++ l.filter isOrd ++ l.filter isPlain).Perm l := by
  induction l with
  | nil => exact List.Perm.refl _
  | cons x l ih =>
    cases hc : x.cls with
    | prio =>
      simp only [List.filter_cons, isPrio, isOrd, isPlain, hc]
      exact List.Perm.cons x ih
    | ord =>
      simp only [List.filter_cons, isPrio, isOrd, isPlain, hc]
      simp only [List.append_assoc]
      exact (List.perm_middle).trans (List.Perm.cons x (by simpa [List.append_assoc] using ih))
    | plain =>
      simp only [List.filter_cons, isPrio, isOrd, isPlain, hc]
      exact (List.perm_middle).trans (List.Perm.cons x ih)

theorem sortOrdered_perm (l : List Runner) : (sortOrdered l).Perm l := by
  rw [sortOrdered_eq]
  exact (List.Perm.append (List.Perm.append (isortStable_perm _ _) (isortStable_perm _ _)) (List.Perm.refl _)).trans
    (classes_perm l)

/-! ### callRunners -/

theorem callRunners_spec (l : List Runner) :
    ∃ rest, l = (callRunners l).1 ++ rest ∧
      (∀ r ∈ (callRunners l).1.dropLast, r.fails = false) ∧
      ((callRunners l).2 = true → rest = [] ∧ ∀ r ∈ (callRunners l).1, r.fails = false) ∧
      ((callRunners l).2 = false → ∃ r, (callRunners l).1.getLast? = some r ∧ r.fails = true) := by
  induction l with
  | nil => exact ⟨[], by simp [callRunners]⟩
  | cons x l ih =>
    obtain ⟨rest, he, hd, hok, hbad⟩ := ih
    cases hx : x.fails with
    | true =>
      refine ⟨l, by simp [callRunners, hx], by simp [callRunners, hx], by simp [callRunners, hx], ?_⟩
      intro _; exact ⟨x, by simp [callRunners, hx], hx⟩
    | false =>
      have h1 : (callRunners (x :: l)).1 = x :: (callRunners l).1 := by simp [callRunners, hx]
      have h2 : (callRunners (x :: l)).2 = (callRunners l).2 := by simp [callRunners, hx]
      rw [h1, h2]
      refine ⟨rest, by rw [List.cons_append, ← he], ?_, ?_, ?_⟩
      · intro r hr
        cases hl : (callRunners l).1 with
        | nil => rw [hl] at hr; simp at hr
        | cons y ys =>
          rw [hl, List.dropLast_cons_cons] at hr
          simp at hr
          rcases hr with rfl | hr
          · exact hx
          · exact hd r (by rw [hl]; exact hr)
      · intro h
        obtain ⟨hr, hall⟩ := hok h
        refine ⟨hr, fun r hr' => ?_⟩
        simp at hr'
        rcases hr' with rfl | hr'
        · exact hx
        · exact hall r hr'
      · intro h
        obtain ⟨r, hr, hf⟩ := hbad h
        refine ⟨r, ?_, hf⟩
        cases hl : (callRunners l).1 with
        | nil => rw [hl] at hr; simp at hr
        | cons y ys => rw [List.getLast?_cons_cons, ← hl]; exact hr

theorem callRunners_all_ok (l : List Runner) (h : ∀ r ∈ l, r.fails = false) : callRunners l = (l, true) := by
  induction l with
  | nil => rfl
  | cons x l ih =>
    have hx := h x (by simp)
    have := ih (fun r hr => h r (by simp [hr]))
    simp [callRunners, hx, this]

/-- an invoked failing runner is the last invoked one -/
theorem callRunners_fail_last (l : List Runner) (r : Runner) (hr : r ∈ (callRunners l).1) (hf : r.fails = true) :
    (callRunners l).2 = false ∧ ∃ pre, (callRunners l).1 = pre ++ [r] ∧ ∀ q ∈ pre, q.fails = false := by
  induction l with
  | nil => simp [callRunners] at hr
  | cons x l ih =>
    cases hx : x.fails with
    | true =>
      simp [callRunners, hx] at hr
      subst hr
      exact ⟨by simp [callRunners, hx], [], by simp [callRunners, hx], by simp⟩
    | false =>
      have h1 : (callRunners (x :: l)).1 = x :: (callRunners l).1 := by simp [callRunners, hx]
      have h2 : (callRunners (x :: l)).2 = (callRunners l).2 := by simp [callRunners, hx]
      rw [h1] at hr
      simp at hr
      rcases hr with rfl | hr
      · rw [hx] at hf; cases hf
      · obtain ⟨hb, pre, hp, hq⟩ := ih hr
        refine ⟨by rw [h2]; exact hb, x :: pre, by rw [h1, hp]; rfl, ?_⟩
        intro q hq'
        simp at hq'
        rcases hq' with rfl | hq'
        · exact hx
        · exact hq q hq'

/-! ### appRun -/

/-- the runner stage is reached exactly when no earlier stage failed -/
def Ready (a : AppScen) : Prop := a.loaderFail = false ∧ a.scanFail = false ∧ (final a.sc).status = .done

instance (a : AppScen) : Decidable (Ready a) := by unfold Ready; infer_instance

theorem appRun_ready (a : AppScen) (h : Ready a) :
    (appRun a).outcome = (if (callRunners (sortOrdered (runnersOf a (final a.sc)))).2 then .ok else .errRunners) ∧
    (appRun a).invoked = (callRunners (sortOrdered (runnersOf a (final a.sc)))).1 ∧
    (appRun a).st = final a.sc := by
  obtain ⟨h1, h2, h3⟩ := h
  unfold appRun
  simp only [h1, h2, Bool.false_eq_true, if_false]
  split <;> simp_all

theorem appRun_not_ready (a : AppScen) (h : ¬ Ready a) :
    (appRun a).invoked = [] ∧ (appRun a).outcome ≠ .ok ∧ (appRun a).outcome ≠ .errRunners := by
  unfold appRun
  cases h1 : a.loaderFail with
  | true => simp
  | false =>
    cases h2 : a.scanFail with
    | true => simp
    | false =>
      simp only [Bool.false_eq_true, if_false]
      split
      · simp
      · simp
      · simp
      · rename_i h3; exact absurd ⟨h1, h2, h3⟩ h

/-- which stage failed, read off the outcome -/
theorem appRun_outcome (a : AppScen) :
    ((appRun a).outcome = .errConfig ↔ a.loaderFail = true) ∧
    ((appRun a).outcome = .errFactory ↔
      a.loaderFail = false ∧ (a.scanFail = true ∨ ∃ x, (final a.sc).status = .failed x .factory)) ∧
    ((appRun a).outcome = .errRefresh ↔
      a.loaderFail = false ∧ a.scanFail = false ∧
        ((∃ x, (final a.sc).status = .failed x .refresh) ∨ (final a.sc).status = .running)) := by
  unfold appRun
  cases h1 : a.loaderFail with
  | true => simp
  | false =>
    cases h2 : a.scanFail with
    | true => simp
    | false =>
      simp only [Bool.false_eq_true, if_false]
      split
      · rename_i x h3; simp [h3]
      · rename_i x h3; simp [h3]
      · rename_i h3; simp [h3]
      · rename_i h3
        simp only [h3]
        cases (callRunners (sortOrdered (runnersOf a (final a.sc)))).2 <;> simp

end Ioc.App
