/-
  The remaining regenerated programs: fas.Filter (= List.filter, what the interpreter's `filter` form assumes), the three
  one-line stage wrappers of App, and the delegate's short-circuit creation path (applyPostProcessBeforeInstantiation,
  ResolveBeforeInstantiation).  Interpretations of their primitives are defined here, next to the proofs.
-/
import Ioc.SemDelegate
import IocProofs.Lemmas.GoTactics
namespace Ioc.Sem
open Ioc Ioc.Go Ioc.Order


/-! ### fas.Filter -/
section filter
def filterFn (g : Nat → Bool) : String → List Val → Unit → Option (Val × Unit)
  | ".call", [.str "f", .int n], w => some (.bool (g n.toNat), w)
  | "append", [.list vs, v], w => some (.list (vs ++ [v]), w)
  | _, _, _ => none
def filterPrims (g : Nat → Bool) : Prims Unit := { fn := filterFn g }

def encInts (l : List Nat) : Val := .list (l.map (fun (n : Nat) => Val.int n))

def flBody : List Stmt := match Progs.fas_Filter.body with | [_, .range _ _ _ b, _] => b | _ => []
theorem fl_shape : Progs.fas_Filter.body =
    [.define ["result"] (.sliceLit []), .range "_" "i" (.var "x") flBody, .ret [.var "result"]] := rfl
theorem fl_params : Progs.fas_Filter.params = ["x", "f"] := rfl

def flStep (g : Nat → Bool) (n : Nat) (acc : List Nat) (w : Unit) : List Nat × Unit × Option Val :=
  (if g n then acc ++ [n] else acc, w, none)

theorem flStep_loop (g : Nat → Bool) (xs acc : List Nat) :
    stepLoop (flStep g) xs acc () = (acc ++ xs.filter g, (), none) := by
  induction xs generalizing acc with
  | nil => simp [stepLoop]
  | cons x xs ih =>
    simp only [stepLoop, flStep, List.filter_cons]
    cases hg : g x <;> simp [ih]

def envFL (l : List Nat) (acc : List Nat) : Env := [("result", encInts acc), ("x", encInts l), ("f", .str "f")]

theorem fl_iter (g : Nat → Bool) (l : List Nat) (i n : Nat) (acc : List Nat) (w : Unit) :
    (evalB (filterPrims g) (Env.def (Env.def (envFL l acc) "_" (.int i)) "i" (.int n)) w flBody).map
        (fun (e', w'', ctl) => (Env.leave e' (envFL l acc).length, w'', ctl)) =
      some (envFL l (flStep g n acc w).1, (flStep g n acc w).2.1, ctlOf (flStep g n acc w).2.2) := by
  cases hg : g n <;> go_simp [flBody, Progs.fas_Filter, filterPrims, filterFn, envFL, encInts, flStep, hg, ctlOf]

/-- fas.Filter, regenerated: `List.filter` — for every slice and every predicate (what the special form `filter` of the
    interpreter, `filterM`, assumes of it) -/
theorem fasFilter_sem (g : Nat → Bool) (l : List Nat) :
    run (filterPrims g) Progs.fas_Filter [encInts l, .str "f"] () = some (encInts (l.filter g), ()) := by
  simp only [run, fl_params, fl_shape, List.length_cons, List.length_nil, if_true, List.zip_cons_cons, List.zip_nil_right]
  rw [evalB_cons]
  have h0 : evalS (filterPrims g) [("x", encInts l), ("f", .str "f")] () (.define ["result"] (.sliceLit [])) =
      some (envFL l [], (), .norm) := by go_simp [envFL, encInts]
  rw [h0]; simp only []
  rw [evalB_cons]
  simp only [evalS]
  have hcoll : evalE (filterPrims g) (envFL l []) () (.var "x") = some (.list (l.map (fun (n : Nat) => Val.int n)), ()) := by
    go_simp [envFL, encInts]
  rw [hcoll]; simp only []
  have := loopM_state (fun (n : Nat) => Val.int n)
    (fun i x e w' => (evalB (filterPrims g) (Env.def (Env.def e "_" (.int i)) "i" x) w' flBody).map
      (fun (e', w'', ctl) => (Env.leave e' e.length, w'', ctl)))
    (envFL l) (flStep g) (fun i x acc w' => fl_iter g l i x acc w') l 0 [] ()
  rw [this, flStep_loop]
  go_simp [ctlOf, envFL]
end filter

/-! ### the stage wrappers of App -/
section stages
def stageFn (callee : String) (fails : Bool) : String → List Val → List String → Option (Val × List String)
  | "errors.WithMessage", [_, _], w => some (errN, w)
  | f, [], w => if f = callee then some (if fails then .str "cause" else .nil, w ++ [f]) else none
  | _, _, _ => none
def stagePrims (callee : String) (fails : Bool) : Prims (List String) := { fn := stageFn callee fails }

/-- the three one-line stage wrappers, regenerated: each calls exactly its stage and returns an error iff the stage did -/
theorem stageWrappers_sem (fails : Bool) :
    run (stagePrims "self.Configure.Initialize" fails) Progs.app_initConfiguration [] [] =
      some (if fails then errN else .nil, ["self.Configure.Initialize"]) ∧
    run (stagePrims "self.Factory.PrepareComponents" fails) Progs.app_initFactory [] [] =
      some (if fails then errN else .nil, ["self.Factory.PrepareComponents"]) ∧
    run (stagePrims "self.Factory.Refresh" fails) Progs.app_refresh [] [] =
      some (if fails then errN else .nil, ["self.Factory.Refresh"]) := by
  cases fails <;>
    go_simp [Progs.app_initConfiguration, Progs.app_initFactory, Progs.app_refresh, stagePrims, stageFn, errN]
end stages


/-! ### applyPostProcessBeforeInstantiation / ResolveBeforeInstantiation -/
section before
variable (procs : List Nat) (isInst : Nat → Bool) (bi : Nat → Res Nat)

def abiFn : String → List Val → List Nat → Option (Val × List Nat)
  | "$self.componentPostProcessors", [], w => some (.list (procs.map encP), w)
  | "assert2:container.InstantiationAwareComponentPostProcessor", [.ref p 0], w => some (.tuple [.ref p 1, .bool (isInst p)], w)
  | ".PostProcessBeforeInstantiation", [.ref p 1, _, _], w => some (encRes (bi p), w ++ [p])
  | "errors.Wrapf", _, w => some (errN, w)
  | _, _, _ => none
def abiPrims : Prims (List Nat) := { fn := abiFn procs isInst bi }

/-- the model: the InstantiationAware processors are asked in list order until one fails or hands out a component -/
def abiLoop : List Nat → List Nat × Res Nat
  | [] => ([], .nil)
  | p :: rest =>
    if isInst p then
      match bi p with
      | .err => ([p], .err)
      | .val c => ([p], .val c)
      | .nil => (p :: (abiLoop rest).1, (abiLoop rest).2)
    else abiLoop rest

def abiStep (p : Nat) (t : Res Nat) (w : List Nat) : Res Nat × List Nat × Option Val :=
  if isInst p then
    match bi p with
    | .err => (.err, w ++ [p], some (.tuple [.nil, errN]))
    | .val c => (.val c, w ++ [p], some (.tuple [encC c, .nil]))
    | .nil => (.nil, w ++ [p], none)
  else (t, w, none)

def isNilRes : Res Nat → Prop
  | .nil => True
  | _ => False

theorem abiStep_loop (ps : List Nat) (w : List Nat) :
    stepLoop (abiStep isInst bi) ps .nil w =
      ((abiLoop isInst bi ps).2, w ++ (abiLoop isInst bi ps).1,
        match (abiLoop isInst bi ps).2 with
        | .err => some (.tuple [.nil, errN])
        | .val c => some (.tuple [encC c, .nil])
        | .nil => none) := by
  induction ps generalizing w with
  | nil => simp [stepLoop, abiLoop]
  | cons p rest ih =>
    by_cases hi : isInst p = true
    · obtain hb | ⟨c, hb⟩ | hb : bi p = .err ∨ (∃ c, bi p = .val c) ∨ bi p = .nil := by
        cases bi p <;> simp
      · simp [stepLoop, abiStep, abiLoop, hi, hb]
      · simp [stepLoop, abiStep, abiLoop, hi, hb]
      · simp [stepLoop, abiStep, abiLoop, hi, hb, ih, List.append_assoc]
    · simp [stepLoop, abiStep, abiLoop, hi, ih]

def abiBody : List Stmt := match Progs.del_applyBeforeInstantiation.body with | [_, _, .range _ _ _ b, _] => b | _ => []
theorem abi_shape : Progs.del_applyBeforeInstantiation.body =
    [.define ["component"] .nil, .define ["err"] .nil,
     .range "_" "processor" (.glob "self.componentPostProcessors") abiBody, .ret [.var "component", .nil]] := rfl
theorem abi_params : Progs.del_applyBeforeInstantiation.params = ["meta", "name"] := rfl

def envABI : Res Nat → Env
  | .nil => [("err", .nil), ("component", .nil), ("meta", .str "meta"), ("name", .str "n")]
  | .err => [("err", errN), ("component", .nil), ("meta", .str "meta"), ("name", .str "n")]
  | .val c => [("err", .nil), ("component", encC c), ("meta", .str "meta"), ("name", .str "n")]

theorem envABI_length (t : Res Nat) : (envABI t).length = 4 := by cases t <;> rfl

theorem abi_iter (i p : Nat) (t : Res Nat) (w : List Nat) (ht : isNilRes t) :
    (evalB (abiPrims procs isInst bi) (Env.def (Env.def (envABI t) "_" (.int i)) "processor" (encP p)) w abiBody).map
        (fun (e', w'', ctl) => (Env.leave e' (envABI t).length, w'', ctl)) =
      some (envABI (abiStep isInst bi p t w).1, (abiStep isInst bi p t w).2.1, ctlOf (abiStep isInst bi p t w).2.2) := by
  cases t with
  | err => exact absurd ht (by simp [isNilRes])
  | val c => exact absurd ht (by simp [isNilRes])
  | nil =>
    cases hi : isInst p with
    | false => go_simp [abiBody, Progs.del_applyBeforeInstantiation, abiPrims, abiFn, envABI, encP, abiStep, hi, ctlOf]
    | true =>
      cases hb : bi p with
      | err => go_simp [abiBody, Progs.del_applyBeforeInstantiation, abiPrims, abiFn, envABI, encP, encC, encRes, abiStep, hi, hb, ctlOf, errN]
      | nil => go_simp [abiBody, Progs.del_applyBeforeInstantiation, abiPrims, abiFn, envABI, encP, encC, encRes, abiStep, hi, hb, ctlOf, errN]
      | val c => go_simp [abiBody, Progs.del_applyBeforeInstantiation, abiPrims, abiFn, envABI, encP, encC, encRes, abiStep, hi, hb, ctlOf, errN]

theorem abiStep_inv (p : Nat) (t : Res Nat) (w : List Nat) (ht : isNilRes t) (h : (abiStep isInst bi p t w).2.2 = none) :
    isNilRes (abiStep isInst bi p t w).1 := by
  cases t with
  | err => exact absurd ht (by simp [isNilRes])
  | val c => exact absurd ht (by simp [isNilRes])
  | nil =>
    simp only [abiStep] at h ⊢
    by_cases hi : isInst p = true
    · obtain hb | ⟨c, hb⟩ | hb : bi p = .err ∨ (∃ c, bi p = .val c) ∨ bi p = .nil := by
        cases bi p <;> simp
      · simp [hi, hb] at h
      · simp [hi, hb] at h
      · simp [hi, hb, isNilRes]
    · simp [hi, isNilRes]

/-- applyPostProcessBeforeInstantiation, regenerated: the InstantiationAware processors in list order until one fails or
    hands out a component (the short-circuit creation path) -/
theorem applyBeforeInstantiation_sem (w : List Nat) :
    run (abiPrims procs isInst bi) Progs.del_applyBeforeInstantiation [.str "meta", .str "n"] w =
      some (encRes (abiLoop isInst bi procs).2, w ++ (abiLoop isInst bi procs).1) := by
  simp only [run, abi_params, abi_shape, List.length_cons, List.length_nil, if_true, List.zip_cons_cons, List.zip_nil_right]
  rw [evalB_cons]
  have h0 : evalS (abiPrims procs isInst bi) [("meta", .str "meta"), ("name", .str "n")] w (.define ["component"] .nil) =
      some ([("component", .nil), ("meta", .str "meta"), ("name", .str "n")], w, .norm) := by go_simp []
  rw [h0]; simp only []
  rw [evalB_cons]
  have h1 : evalS (abiPrims procs isInst bi) [("component", .nil), ("meta", .str "meta"), ("name", .str "n")] w (.define ["err"] .nil) =
      some (envABI .nil, w, .norm) := by go_simp [envABI]
  rw [h1]; simp only []
  rw [evalB_cons]
  simp only [evalS]
  have hcoll : evalE (abiPrims procs isInst bi) (envABI .nil) w (.glob "self.componentPostProcessors") =
      some (.list (procs.map encP), w) := by go_simp [abiPrims, abiFn]
  rw [hcoll]; simp only []
  have := loopM_state_inv encP
    (fun i x e w' => (evalB (abiPrims procs isInst bi) (Env.def (Env.def e "_" (.int i)) "processor" x) w' abiBody).map
      (fun (e', w'', ctl) => (Env.leave e' e.length, w'', ctl)))
    envABI (abiStep isInst bi) isNilRes
    (fun i x t w' ht => abi_iter procs isInst bi i x t w' ht)
    (fun x t w' ht h => abiStep_inv isInst bi x t w' ht h) procs 0 .nil w trivial
  rw [this, abiStep_loop]
  cases hr : (abiLoop isInst bi procs).2 with
  | err => go_simp [ctlOf, encRes]
  | val c => go_simp [ctlOf, encRes]
  | nil => go_simp [ctlOf, encRes, envABI]

end before

section rbi
/-- `bi`: what applyPostProcessBeforeInstantiation answers; `af c`: what applyPostProcessAfterInitialization answers for c
    (`none` = error) -/
def rbiFn (hasInst : Bool) (bi : Res Nat) (af : Nat → Option Nat) : String → List Val → List String → Option (Val × List String)
  | "$self.hasInstantiationAwareComponentPostProcessor", [], w => some (.bool hasInst, w)
  | "self.applyPostProcessBeforeInstantiation", [_, _], w => some (encRes bi, w ++ ["before-instantiation"])
  | "self.applyPostProcessAfterInitialization", [.ref c 50, _], w =>
      some (match af c with | none => .tuple [.nil, errN] | some c' => .tuple [encC c', .nil], w ++ ["after-initialization"])
  | _, _, _ => none
def rbiPrims (hasInst : Bool) (bi : Res Nat) (af : Nat → Option Nat) : Prims (List String) := { fn := rbiFn hasInst bi af }

def rbiModel (hasInst : Bool) (bi : Res Nat) (af : Nat → Option Nat) : Res Nat × List String :=
  if hasInst then
    match bi with
    | .err => (.err, ["before-instantiation"])
    | .nil => (.nil, ["before-instantiation"])
    | .val c =>
      match af c with
      | none => (.err, ["before-instantiation", "after-initialization"])
      | some c' => (.val c', ["before-instantiation", "after-initialization"])
  else (.nil, [])

/-- ResolveBeforeInstantiation, regenerated: nothing without an InstantiationAware processor; otherwise the
    before-instantiation chain, and a component handed out by it goes through the after-initialization chain only -/
theorem resolveBeforeInstantiation_sem (hasInst : Bool) (bi : Res Nat) (af : Nat → Option Nat) :
    run (rbiPrims hasInst bi af) Progs.del_ResolveBeforeInstantiation [.str "meta", .str "n"] [] =
      some (encRes (rbiModel hasInst bi af).1, (rbiModel hasInst bi af).2) := by
  cases hasInst with
  | false => go_simp [Progs.del_ResolveBeforeInstantiation, rbiPrims, rbiFn, rbiModel, encRes]
  | true =>
    cases bi with
    | err => go_simp [Progs.del_ResolveBeforeInstantiation, rbiPrims, rbiFn, rbiModel, encRes, errN]
    | nil => go_simp [Progs.del_ResolveBeforeInstantiation, rbiPrims, rbiFn, rbiModel, encRes, errN]
    | val c =>
      cases ha : af c <;>
        go_simp [Progs.del_ResolveBeforeInstantiation, rbiPrims, rbiFn, rbiModel, encRes, encC, errN, ha]
end rbi
end Ioc.Sem
