/-
  Lemmas for C12 (ordering contract).  Core Lean only.
-/
import Ioc.Order
namespace Ioc.Order

variable {α : Type} (part : α → Part)

/-! ### the partition loop is three filters -/

theorem partitionLoop_eq (l : List α) (p o n : List α) :
    partitionLoop part l (p, o, n) =
      (p ++ l.filter (isPrio part), o ++ l.filter (isOrd part), n ++ l.filter (isPlain part)) := by
  induction l generalizing p o n with
  | nil => simp [partitionLoop]
  | cons x rest ih =>
    simp only [partitionLoop]
    cases h : (part x).cls <;> simp [ih, isPrio, isOrd, isPlain, classOf, h]

theorem sortOrdered_eq (sort : (α → α → Bool) → List α → List α) (l : List α) :
    sortOrdered sort part l =
      sort (less part) (l.filter (isPrio part)) ++ sort (less part) (l.filter (isOrd part)) ++
        l.filter (isPlain part) := by
  simp [sortOrdered, partitionLoop_eq]

theorem filter3_perm (l : List α) :
    (l.filter (isPrio part) ++ l.filter (isOrd part) ++ l.filter (isPlain part)).Perm l := by
  induction l with
  | nil => simp
  | cons x rest ih =>
    cases h : (part x).cls
    · have h1 : isPrio part x = true := by simp [isPrio, classOf, h]
      have h2 : isOrd part x = false := by simp [isOrd, classOf, h]
      have h3 : isPlain part x = false := by simp [isPlain, classOf, h]
      simp only [List.filter_cons, h1, h2, h3, if_true, Bool.false_eq_true, if_false, List.cons_append]
      exact List.Perm.cons x ih
    · have h1 : isPrio part x = false := by simp [isPrio, classOf, h]
      have h2 : isOrd part x = true := by simp [isOrd, classOf, h]
      have h3 : isPlain part x = false := by simp [isPlain, classOf, h]
      simp only [List.filter_cons, h1, h2, h3, if_true, Bool.false_eq_true, if_false, List.append_assoc,
        List.cons_append]
      refine List.Perm.trans List.perm_middle (List.Perm.cons x ?_)
      simpa [List.append_assoc] using ih
    · have h1 : isPrio part x = false := by simp [isPrio, classOf, h]
      have h2 : isOrd part x = false := by simp [isOrd, classOf, h]
      have h3 : isPlain part x = true := by simp [isPlain, classOf, h]
      simp only [List.filter_cons, h1, h2, h3, if_true, Bool.false_eq_true, if_false]
      exact List.Perm.trans List.perm_middle (List.Perm.cons x ih)

/-! ### consequences of the abstract sort specification -/

variable {part}
variable {sort : (α → α → Bool) → List α → List α}

theorem sortOrdered_perm (hs : SortSpec part sort) (l : List α) : (sortOrdered sort part l).Perm l := by
  rw [sortOrdered_eq]
  exact List.Perm.trans
    (List.Perm.append (List.Perm.append (hs _).1 (hs _).1) (List.Perm.refl _)) (filter3_perm part l)

theorem sort_nil (hs : SortSpec part sort) : sort (less part) [] = [] :=
  List.Perm.eq_nil (hs []).1

theorem sortOrdered_nil (hs : SortSpec part sort) : sortOrdered sort part [] = [] :=
  List.Perm.eq_nil (sortOrdered_perm hs [])

theorem mem_sort_filter (hs : SortSpec part sort) (p : α → Bool) (l : List α) (x : α) :
    x ∈ sort (less part) (l.filter p) ↔ x ∈ l ∧ p x = true := by
  rw [(hs _).1.mem_iff, List.mem_filter]

/-- keys of a block: two sorted permutations of the same list show the same key sequence -/
theorem sorted_keys_unique {sort₁ sort₂ : (α → α → Bool) → List α → List α}
    (h1 : SortSpec part sort₁) (h2 : SortSpec part sort₂) (l : List α) :
    (sort₁ (less part) l).map (keyOf part) = (sort₂ (less part) l).map (keyOf part) := by
  have p : ((sort₁ (less part) l).map (keyOf part)).Perm ((sort₂ (less part) l).map (keyOf part)) :=
    List.Perm.map _ (List.Perm.trans (h1 l).1 (h2 l).1.symm)
  refine List.Perm.eq_of_pairwise (le := fun a b : Int => a ≤ b) ?_ ?_ ?_ p
  · intro a b _ _ hab hba; omega
  · exact List.pairwise_map.mpr (h1 l).2
  · exact List.pairwise_map.mpr (h2 l).2

/-- inside one class block, equal class everywhere: the (class,key) view is determined by the keys -/
theorem map_ck_of_class (c : Cls) (l : List α) (h : ∀ x ∈ l, classOf part x = c) :
    l.map (fun x => (classOf part x, keyOf part x)) = (l.map (keyOf part)).map (fun k => (c, k)) := by
  induction l with
  | nil => rfl
  | cons x rest ih =>
    simp only [List.map_cons, List.cons.injEq]
    exact ⟨by rw [h x (List.mem_cons_self)], ih (fun y hy => h y (List.mem_cons_of_mem _ hy))⟩

/-! ### the concrete sorter of the driver satisfies the specification -/

theorem insertSorted_perm (lt : α → α → Bool) (x : α) (l : List α) :
    (insertSorted lt x l).Perm (x :: l) := by
  induction l with
  | nil => simp [insertSorted]
  | cons y ys ih =>
    simp only [insertSorted]
    split
    · exact List.Perm.refl _
    · exact List.Perm.trans (List.Perm.cons y ih) (List.Perm.swap x y ys)

theorem isort_perm (lt : α → α → Bool) (l : List α) : (isort lt l).Perm l := by
  induction l with
  | nil => simp [isort]
  | cons x xs ih =>
    have : isort lt (x :: xs) = insertSorted lt x (isort lt xs) := rfl
    rw [this]
    exact List.Perm.trans (insertSorted_perm lt x _) (List.Perm.cons x ih)

theorem insertSorted_sorted (key : α → Int) (x : α) (l : List α)
    (h : l.Pairwise (fun a b => key a ≤ key b)) :
    (insertSorted (fun a b => decide (key a < key b)) x l).Pairwise (fun a b => key a ≤ key b) := by
  induction l with
  | nil => simp [insertSorted]
  | cons y ys ih =>
    simp only [insertSorted]
    rw [List.pairwise_cons] at h
    split
    · rename_i hlt
      have hxy : key x < key y := by simpa using hlt
      rw [List.pairwise_cons, List.pairwise_cons]
      refine ⟨?_, h⟩
      intro z hz
      rcases List.mem_cons.mp hz with rfl | hz
      · omega
      · have := h.1 z hz; omega
    · rename_i hlt
      have hyx : key y ≤ key x := by
        have : ¬ key x < key y := by simpa using hlt
        omega
      rw [List.pairwise_cons]
      refine ⟨?_, ih h.2⟩
      intro z hz
      have hz' := (insertSorted_perm _ x ys).mem_iff.mp hz
      rcases List.mem_cons.mp hz' with rfl | hz'
      · exact hyx
      · exact h.1 z hz'

theorem isort_sorted (key : α → Int) (l : List α) :
    (isort (fun a b => decide (key a < key b)) l).Pairwise (fun a b => key a ≤ key b) := by
  induction l with
  | nil => simp [isort]
  | cons x xs ih =>
    have : isort (fun a b => decide (key a < key b)) (x :: xs)
        = insertSorted (fun a b => decide (key a < key b)) x (isort (fun a b => decide (key a < key b)) xs) := rfl
    rw [this]
    exact insertSorted_sorted key x _ ih

theorem isort_spec (part : α → Part) : SortSpec part (fun lt l => isort lt l) := by
  intro l
  exact ⟨isort_perm _ l, isort_sorted (keyOf part) l⟩

/-- a second, different algorithm that meets the specification: core's stable merge sort with `¬ lt b a` -/
theorem mergeSort_spec (part : α → Part) :
    SortSpec part (fun lt l => l.mergeSort (fun a b => !lt b a)) := by
  intro l
  refine ⟨List.mergeSort_perm _ _, ?_⟩
  have h := List.pairwise_mergeSort (le := fun a b => !less part b a)
    (by intro a b c; simp [less]; omega) (by intro a b; simp [less]; omega) l
  exact h.imp (by intro a b; simp [less])

/-! ### the loops -/

theorem takeUntil_prefix (stop : α → Bool) (l : List α) : takeUntil stop l <+: l := by
  induction l with
  | nil => simp [takeUntil]
  | cons x rest ih =>
    simp only [takeUntil]
    split
    · exact ⟨rest, rfl⟩
    · exact List.cons_prefix_cons.mpr ⟨rfl, ih⟩

theorem takeUntil_all (stop : α → Bool) (l : List α) (h : ∀ x ∈ l, stop x = false) : takeUntil stop l = l := by
  induction l with
  | nil => rfl
  | cons x rest ih =>
    simp only [takeUntil, h x List.mem_cons_self, Bool.false_eq_true, if_false, List.cons.injEq, true_and]
    exact ih (fun y hy => h y (List.mem_cons_of_mem _ hy))

/-- everything before the last visited element did not stop; if some element stops, the last visited one does -/
theorem takeUntil_stops (stop : α → Bool) (l : List α) :
    (∀ x ∈ (takeUntil stop l).dropLast, stop x = false) ∧
    (l.any stop = true → ∃ x, (takeUntil stop l).getLast? = some x ∧ stop x = true) := by
  induction l with
  | nil => simp [takeUntil]
  | cons x rest ih =>
    simp only [takeUntil]
    by_cases hx : stop x = true
    · simp [hx]
    · have hx' : stop x = false := by simpa using hx
      simp only [hx', Bool.false_eq_true, if_false, List.any_cons, Bool.false_or]
      constructor
      · intro y hy
        cases hr : takeUntil stop rest with
        | nil => simp [hr] at hy
        | cons z zs =>
          rw [hr, List.dropLast_cons_cons] at hy
          rcases List.mem_cons.mp hy with rfl | hy
          · exact hx'
          · exact ih.1 y (by rw [hr]; exact hy)
      · intro h
        obtain ⟨y, hy, hs⟩ := ih.2 h
        refine ⟨y, ?_, hs⟩
        cases hr : takeUntil stop rest with
        | nil => simp [hr] at hy
        | cons z zs => rw [hr] at hy; simpa [List.getLast?_cons_cons] using hy

theorem runLoop_eq (fails : α → Bool) (l log : List α) :
    runLoop fails l log = (log ++ takeUntil fails l, l.any fails) := by
  induction l generalizing log with
  | nil => simp [runLoop, takeUntil]
  | cons x rest ih =>
    simp only [runLoop, takeUntil]
    by_cases hx : fails x = true
    · simp [hx]
    · have hx' : fails x = false := by simpa using hx
      simp [hx', ih]

theorem twoStepLoop_eq (res : α → Step) (l : List α) (log : List (Ev α)) :
    twoStepLoop res l log =
      (log ++ (takeUntil (fun x => (res x).stops) l).flatMap (fun x => (res x).evs x),
       l.any (fun x => (res x).stops)) := by
  induction l generalizing log with
  | nil => simp [twoStepLoop, takeUntil]
  | cons x rest ih =>
    simp only [twoStepLoop]
    split <;> rename_i h <;> simp [takeUntil, Step.stops, Step.evs, h, ih]

theorem registerLoop_ok (resolve : α → Option α) (l cpp : List α)
    (h : (registerLoop resolve l cpp).2 = false) :
    (registerLoop resolve l cpp).1 = cpp ++ l.filterMap resolve ∧ ∀ x ∈ l, (resolve x).isSome = true := by
  induction l generalizing cpp with
  | nil => simp [registerLoop]
  | cons x rest ih =>
    simp only [registerLoop] at h ⊢
    cases hx : resolve x with
    | none => simp [hx] at h
    | some q =>
      simp only [hx] at h ⊢
      obtain ⟨h1, h2⟩ := ih _ h
      refine ⟨by simp [h1, hx], ?_⟩
      intro y hy
      rcases List.mem_cons.mp hy with rfl | hy
      · simp [hx]
      · exact h2 y hy

theorem registerLoop_total (r : α → α) (l cpp : List α) :
    registerLoop (fun x => some (r x)) l cpp = (cpp ++ l.map r, false) := by
  induction l generalizing cpp with
  | nil => simp [registerLoop]
  | cons x rest ih => simp [registerLoop, ih]

theorem applyBefore_prefix {β : Type} (before : α → β → Res β) (l : List α) (cur : β) (log : List α) :
    ∃ done, (applyBefore before l cur log).1 = log ++ done ∧ done <+: l ∧
      (∀ v, (applyBefore before l cur log).2 = .val v → done = l) ∧
      ((∀ p b, ∃ c, before p b = .val c) → done = l) := by
  induction l generalizing cur log with
  | nil => exact ⟨[], by simp [applyBefore]⟩
  | cons x rest ih =>
    simp only [applyBefore]
    cases h : before x cur with
    | err =>
      refine ⟨[x], rfl, ⟨rest, rfl⟩, (by intro v hv; cases hv), ?_⟩
      intro hall; obtain ⟨c, hc⟩ := hall x cur; rw [h] at hc; cases hc
    | nil =>
      refine ⟨[x], rfl, ⟨rest, rfl⟩, (by intro v hv; cases hv), ?_⟩
      intro hall; obtain ⟨c, hc⟩ := hall x cur; rw [h] at hc; cases hc
    | val c =>
      obtain ⟨done, h1, h2, h3, h4⟩ := ih c (log ++ [x])
      refine ⟨x :: done, by simp [h1], List.cons_prefix_cons.mpr ⟨rfl, h2⟩, ?_, ?_⟩
      · intro v hv; rw [h3 v hv]
      · intro hall; rw [h4 hall]

theorem applyAfter_prefix {β : Type} (after : α → β → Res β) (l : List α) (cur : β) (log : List α) :
    ∃ done, (applyAfter after l cur log).1 = log ++ done ∧ done <+: l ∧
      ((∀ p b, ∃ c, after p b = .val c) → done = l ∧ (applyAfter after l cur log).2.isSome = true) := by
  induction l generalizing cur log with
  | nil => exact ⟨[], by simp [applyAfter]⟩
  | cons x rest ih =>
    simp only [applyAfter]
    cases h : after x cur with
    | err =>
      refine ⟨[x], rfl, ⟨rest, rfl⟩, ?_⟩
      intro hall; obtain ⟨c, hc⟩ := hall x cur; rw [h] at hc; cases hc
    | nil =>
      refine ⟨[x], rfl, ⟨rest, rfl⟩, ?_⟩
      intro hall; obtain ⟨c, hc⟩ := hall x cur; rw [h] at hc; cases hc
    | val c =>
      obtain ⟨done, h1, h2, h3⟩ := ih c (log ++ [x])
      refine ⟨x :: done, by simp [h1], List.cons_prefix_cons.mpr ⟨rfl, h2⟩, ?_⟩
      intro hall
      obtain ⟨e1, e2⟩ := h3 hall
      exact ⟨by rw [e1], e2⟩

theorem any_perm {l₁ l₂ : List α} (p : l₁.Perm l₂) (f : α → Bool) : l₁.any f = l₂.any f := by
  rw [Bool.eq_iff_iff]
  simp only [List.any_eq_true]
  constructor
  · rintro ⟨x, hx, hf⟩; exact ⟨x, p.mem_iff.mp hx, hf⟩
  · rintro ⟨x, hx, hf⟩; exact ⟨x, p.mem_iff.mpr hx, hf⟩


/-! ### class blocks -/

section blocks
variable (part : α → Part)

theorem cls_cases (x : α) :
    (isPrio part x = true ∧ isOrd part x = false ∧ isPlain part x = false) ∨
    (isPrio part x = false ∧ isOrd part x = true ∧ isPlain part x = false) ∨
    (isPrio part x = false ∧ isOrd part x = false ∧ isPlain part x = true) := by
  cases h : (part x).cls <;> simp [isPrio, isOrd, isPlain, classOf, h]

theorem filter_all {p : α → Bool} {l : List α} (h : ∀ x ∈ l, p x = true) : l.filter p = l :=
  List.filter_eq_self.mpr h

theorem filter_none {p : α → Bool} {l : List α} (h : ∀ x ∈ l, p x = false) : l.filter p = [] := by
  apply List.filter_eq_nil_iff.mpr
  intro x hx; simp [h x hx]

/-- a decomposition into an all-prio, an all-ord and an all-plain block is determined by the whole list -/
theorem blocks_filter (a b c : List α)
    (ha : ∀ x ∈ a, isPrio part x = true) (hb : ∀ x ∈ b, isOrd part x = true)
    (hc : ∀ x ∈ c, isPlain part x = true) :
    (a ++ b ++ c).filter (isPrio part) = a ∧ (a ++ b ++ c).filter (isOrd part) = b ∧
    (a ++ b ++ c).filter (isPlain part) = c := by
  have a2 : ∀ x ∈ a, isOrd part x = false := fun x hx => by
    rcases cls_cases part x with h | h | h <;> simp_all
  have a3 : ∀ x ∈ a, isPlain part x = false := fun x hx => by
    rcases cls_cases part x with h | h | h <;> simp_all
  have b1 : ∀ x ∈ b, isPrio part x = false := fun x hx => by
    rcases cls_cases part x with h | h | h <;> simp_all
  have b3 : ∀ x ∈ b, isPlain part x = false := fun x hx => by
    rcases cls_cases part x with h | h | h <;> simp_all
  have c1 : ∀ x ∈ c, isPrio part x = false := fun x hx => by
    rcases cls_cases part x with h | h | h <;> simp_all
  have c2 : ∀ x ∈ c, isOrd part x = false := fun x hx => by
    rcases cls_cases part x with h | h | h <;> simp_all
  simp only [List.filter_append]
  rw [filter_all ha, filter_none b1, filter_none c1, filter_none a2, filter_all hb, filter_none c2,
    filter_none a3, filter_none b3, filter_all hc]
  simp

end blocks

variable {sort : (α → α → Bool) → List α → List α}

theorem sorted_block_class (hs : SortSpec part sort) (p : α → Bool) (l : List α) :
    ∀ x ∈ sort (less part) (l.filter p), p x = true :=
  fun x hx => ((mem_sort_filter hs p l x).mp hx).2

theorem plain_block_class (l : List α) : ∀ x ∈ l.filter (isPlain part), isPlain part x = true :=
  fun _ hx => (List.mem_filter.mp hx).2

/-- the whole contract as one relation between every earlier and every later element of the output -/
def Precedes (part : α → Part) (x y : α) : Prop :=
  (classOf part x).rank < (classOf part y).rank ∨
  ((classOf part x).rank = (classOf part y).rank ∧ (classOf part x = .plain ∨ keyOf part x ≤ keyOf part y))

theorem sortOrdered_pairwise (hs : SortSpec part sort) (l : List α) :
    (sortOrdered sort part l).Pairwise (Precedes part) := by
  rw [sortOrdered_eq]
  have hA := sorted_block_class hs (isPrio part) l
  have hB := sorted_block_class hs (isOrd part) l
  have hC := plain_block_class (part := part) l
  have cp : ∀ x, isPrio part x = true → classOf part x = .prio := by intro x h; simpa [isPrio] using h
  have co : ∀ x, isOrd part x = true → classOf part x = .ord := by intro x h; simpa [isOrd] using h
  have cn : ∀ x, isPlain part x = true → classOf part x = .plain := by intro x h; simpa [isPlain] using h
  rw [List.pairwise_append, List.pairwise_append]
  refine ⟨⟨?_, ?_, ?_⟩, ?_, ?_⟩
  · exact (List.Pairwise.and_mem.mp (hs _).2).imp (by
      intro x y ⟨hx, hy, hk⟩
      exact Or.inr ⟨by rw [cp x (hA x hx), cp y (hA y hy)], Or.inr hk⟩)
  · exact (List.Pairwise.and_mem.mp (hs _).2).imp (by
      intro x y ⟨hx, hy, hk⟩
      exact Or.inr ⟨by rw [co x (hB x hx), co y (hB y hy)], Or.inr hk⟩)
  · intro x hx y hy
    exact Or.inl (by rw [cp x (hA x hx), co y (hB y hy)]; decide)
  · exact (List.Pairwise.and_mem.mp (List.pairwise_of_forall (l := l.filter (isPlain part))
      (R := fun _ _ => True) (fun _ _ => trivial))).imp (by
      intro x y ⟨hx, hy, _⟩
      exact Or.inr ⟨by rw [cn x (hC x hx), cn y (hC y hy)], Or.inl (cn x (hC x hx))⟩)
  · intro x hx y hy
    rcases List.mem_append.mp hx with hx | hx
    · exact Or.inl (by rw [cp x (hA x hx), cn y (hC y hy)]; decide)
    · exact Or.inl (by rw [co x (hB x hx), cn y (hC y hy)]; decide)

/-- what the correspondence compares: class and key of every output position -/
def ck (part : α → Part) (x : α) : Cls × Int := (classOf part x, keyOf part x)

theorem sortOrdered_ck_unique {sort₁ sort₂ : (α → α → Bool) → List α → List α}
    (h1 : SortSpec part sort₁) (h2 : SortSpec part sort₂) (l : List α) :
    (sortOrdered sort₁ part l).map (ck part) = (sortOrdered sort₂ part l).map (ck part) := by
  have cp : ∀ x, isPrio part x = true → classOf part x = .prio := by intro x h; simpa [isPrio] using h
  have co : ∀ x, isOrd part x = true → classOf part x = .ord := by intro x h; simpa [isOrd] using h
  rw [sortOrdered_eq, sortOrdered_eq]
  simp only [List.map_append]
  have e1 := map_ck_of_class (part := part) .prio _ (fun x hx => cp x (sorted_block_class h1 (isPrio part) l x hx))
  have e2 := map_ck_of_class (part := part) .prio _ (fun x hx => cp x (sorted_block_class h2 (isPrio part) l x hx))
  have e3 := map_ck_of_class (part := part) .ord _ (fun x hx => co x (sorted_block_class h1 (isOrd part) l x hx))
  have e4 := map_ck_of_class (part := part) .ord _ (fun x hx => co x (sorted_block_class h2 (isOrd part) l x hx))
  rw [show ck part = (fun x => (classOf part x, keyOf part x)) from rfl]
  rw [e1, e2, e3, e4, sorted_keys_unique h1 h2, sorted_keys_unique h1 h2]

/-- a sorter with the OPPOSITE tie order of `isort` that also meets the specification -/
theorem isortRev_spec (part : α → Part) : SortSpec part (fun lt l => isort lt l.reverse) := by
  intro l
  exact ⟨(isort_perm _ _).trans (List.reverse_perm l), isort_sorted (keyOf part) l.reverse⟩

/-! ### events -/

theorem firsts_append (l₁ l₂ : List (Ev α)) : firsts (l₁ ++ l₂) = firsts l₁ ++ firsts l₂ := by
  induction l₁ with
  | nil => rfl
  | cons e rest ih => cases e <;> simp [firsts, ih]

theorem firsts_flatMap_evs (res : α → Step) (l : List α) :
    firsts (l.flatMap (fun x => (res x).evs x)) = l := by
  induction l with
  | nil => rfl
  | cons x rest ih =>
    rw [List.flatMap_cons, firsts_append, ih]
    cases h : res x <;> simp [Step.evs, firsts]

theorem seconds_append (l₁ l₂ : List (Ev α)) : seconds (l₁ ++ l₂) = seconds l₁ ++ seconds l₂ := by
  induction l₁ with
  | nil => rfl
  | cons e rest ih => cases e <;> simp [seconds, ih]

/-- the second calls go, in the same order, to exactly the visited elements whose first call asked for one -/
theorem seconds_flatMap_evs (res : α → Step) (l : List α) :
    seconds (l.flatMap (fun x => (res x).evs x)) =
      l.filter (fun x => match res x with | .next _ => true | _ => false) := by
  induction l with
  | nil => rfl
  | cons x rest ih =>
    rw [List.flatMap_cons, seconds_append, ih]
    cases h : res x <;> simp [Step.evs, seconds, h]


/-! ### InitializeComponent and a whole start -/

theorem applyBefore_all_val {β : Type} (before : α → β → Res β) (l : List α) (cur : β) (log : List α)
    (h : ∀ p b, ∃ c, before p b = .val c) : ∃ v, (applyBefore before l cur log).2 = .val v := by
  induction l generalizing cur log with
  | nil => exact ⟨cur, rfl⟩
  | cons x rest ih =>
    obtain ⟨c, hc⟩ := h x cur
    simp only [applyBefore, hc]
    exact ih c _

theorem initializeComponent_in_order {β : Type} (before after : α → β → Res β) (initFails : β → Bool)
    (procs : List α) (m : β) :
    (initializeComponent before after initFails procs m).1 <+: procs ∧
    (initializeComponent before after initFails procs m).2.1 <+: procs ∧
    ((∀ p b, ∃ c, before p b = .val c) → (∀ p b, ∃ c, after p b = .val c) → (∀ b, initFails b = false) →
      (initializeComponent before after initFails procs m).1 = procs ∧
      (initializeComponent before after initFails procs m).2.1 = procs ∧
      (initializeComponent before after initFails procs m).2.2.isSome = true) := by
  obtain ⟨d1, e1, p1, _, c1⟩ := applyBefore_prefix before procs m []
  have hall := applyBefore_all_val before procs m []
  simp only [List.nil_append] at e1
  unfold initializeComponent
  cases hb : applyBefore before procs m [] with
  | mk lb rb =>
    rw [hb] at e1 hall
    simp only at e1 hall
    subst e1
    cases rb with
    | err =>
      refine ⟨p1, List.nil_prefix, ?_⟩
      intro h1 _ _; obtain ⟨v, hv⟩ := hall h1; cases hv
    | nil =>
      refine ⟨p1, List.nil_prefix, ?_⟩
      intro h1 _ _; obtain ⟨v, hv⟩ := hall h1; cases hv
    | val w =>
      obtain ⟨d2, e2, p2, c2⟩ := applyAfter_prefix after procs w []
      simp only [List.nil_append] at e2
      by_cases hi : initFails w = true
      · simp only [hi, if_true]
        refine ⟨p1, List.nil_prefix, ?_⟩
        intro _ _ h3; rw [h3 w] at hi; cases hi
      · simp only [hi, if_false, Bool.false_eq_true]
        refine ⟨p1, by rw [e2]; exact p2, ?_⟩
        intro h1 h2 _
        obtain ⟨q1, q2⟩ := c2 h2
        exact ⟨c1 h1, by rw [e2]; exact q1, q2⟩

theorem any_false {l : List α} {f : α → Bool} (h : ∀ x, f x = false) : l.any f = false := by
  induction l with
  | nil => rfl
  | cons x rest ih => simp [h x, ih]

theorem loadConfigure_firsts (res : α → Step) (ls : List α) :
    firsts (loadConfigure sort part res ls).1 = takeUntil (fun x => (res x).stops) (sortOrdered sort part ls) := by
  unfold loadConfigure
  rw [twoStepLoop_eq]; simp [firsts_flatMap_evs]

theorem resolveAfterInstantiation_firsts (isInst : α → Bool) (res : α → Step) (procs : List α) :
    firsts (resolveAfterInstantiation isInst res procs).1 =
      takeUntil (fun x => (res x).stops) (procs.filter isInst) := by
  unfold resolveAfterInstantiation
  rw [twoStepLoop_eq]; simp [firsts_flatMap_evs]

theorem callRunners_eq (hs : SortSpec part sort) (fails : α → Bool) (rs : List α) :
    callRunners sort part fails rs = (takeUntil fails (sortOrdered sort part rs), rs.any fails) := by
  unfold callRunners
  split
  · rename_i h
    have : rs = [] := by simpa using h
    subst this
    simp [sortOrdered_nil hs, takeUntil]
  · rw [runLoop_eq, any_perm (sortOrdered_perm hs rs)]; simp

theorem start_in_order (hs : SortSpec part sort)
    (loadRes : α → Step) (isInst : α → Bool) (instRes : α → Step)
    (before after : α → Unit → Res Unit) (runFails : α → Bool) (loaders procs runners : List α) :
    let g := start sort part loadRes (fun x => some x) isInst instRes before after runFails loaders procs runners
    firsts g.loads <+: sortOrdered sort part loaders ∧
    firsts g.inst <+: (sortOrdered sort part procs).filter isInst ∧
    g.before <+: sortOrdered sort part procs ∧
    g.after <+: sortOrdered sort part procs ∧
    g.runs <+: sortOrdered sort part runners ∧
    ((∀ x, (loadRes x).stops = false) → (∀ x, (instRes x).stops = false) →
     (∀ p b, ∃ c, before p b = .val c) → (∀ p b, ∃ c, after p b = .val c) → (∀ x, runFails x = false) →
       g.err = false ∧
       firsts g.loads = sortOrdered sort part loaders ∧
       firsts g.inst = (sortOrdered sort part procs).filter isInst ∧
       g.before = sortOrdered sort part procs ∧
       g.after = sortOrdered sort part procs ∧
       g.runs = sortOrdered sort part runners) := by
  have hreg : invokeRegister sort part (fun x => some x) procs [] = (sortOrdered sort part procs, false) := by
    have := registerLoop_total (fun x : α => x) (sortOrdered sort part procs) []
    simpa [invokeRegister] using this
  have hL := loadConfigure_firsts (sort := sort) (part := part) loadRes loaders
  have hL2 : (loadConfigure sort part loadRes loaders).2 = (sortOrdered sort part loaders).any (fun x => (loadRes x).stops) := by
    unfold loadConfigure; rw [twoStepLoop_eq]
  have hI := resolveAfterInstantiation_firsts isInst instRes (sortOrdered sort part procs)
  have hI2 : (resolveAfterInstantiation isInst instRes (sortOrdered sort part procs)).2 =
      ((sortOrdered sort part procs).filter isInst).any (fun x => (instRes x).stops) := by
    unfold resolveAfterInstantiation; rw [twoStepLoop_eq]
  obtain ⟨hB, hA, hC⟩ := initializeComponent_in_order before after (fun _ => false) (sortOrdered sort part procs) ()
  have hR := callRunners_eq hs runFails runners
  have pL := takeUntil_prefix (fun x => (loadRes x).stops) (sortOrdered sort part loaders)
  have pI := takeUntil_prefix (fun x => (instRes x).stops) ((sortOrdered sort part procs).filter isInst)
  have pR := takeUntil_prefix runFails (sortOrdered sort part runners)
  rw [← hL] at pL; rw [← hI] at pI
  intro g
  have hg : g = start sort part loadRes (fun x => some x) isInst instRes before after runFails loaders procs runners := rfl
  clear_value g
  unfold start at hg
  simp only [hreg] at hg
  by_cases h1 : (loadConfigure sort part loadRes loaders).2 = true
  · simp only [h1, if_true] at hg
    subst hg
    refine ⟨pL, by simp [firsts], List.nil_prefix, List.nil_prefix, List.nil_prefix, ?_⟩
    intro n1 _ _ _ _
    rw [hL2, any_false n1] at h1; cases h1
  · simp only [h1, if_false, Bool.false_eq_true] at hg
    by_cases h2 : (resolveAfterInstantiation isInst instRes (sortOrdered sort part procs)).2 = true
    · simp only [h2, if_true] at hg
      subst hg
      refine ⟨pL, pI, List.nil_prefix, List.nil_prefix, List.nil_prefix, ?_⟩
      intro _ n2 _ _ _
      rw [hI2, any_false n2] at h2; cases h2
    · simp only [h2, if_false, Bool.false_eq_true] at hg
      cases h3 : (initializeComponent before after (fun _ => false) (sortOrdered sort part procs) ()).2.2 with
      | none =>
        simp only [h3] at hg
        subst hg
        refine ⟨pL, pI, hB, hA, List.nil_prefix, ?_⟩
        intro _ _ n3 n4 _
        have := (hC n3 n4 (fun _ => rfl)).2.2
        rw [h3] at this; cases this
      | some v =>
        simp only [h3, hR] at hg
        subst hg
        refine ⟨pL, pI, hB, hA, pR, ?_⟩
        intro n1 n2 n3 n4 n5
        obtain ⟨c1, c2, _⟩ := hC n3 n4 (fun _ => rfl)
        refine ⟨any_false n5, ?_, ?_, c1, c2, takeUntil_all _ _ (fun x _ => n5 x)⟩
        · rw [hL]; exact takeUntil_all _ _ (fun x _ => n1 x)
        · rw [hI]; exact takeUntil_all _ _ (fun x _ => n2 x)

/-! ### early references -/

theorem earlyRefLoop_prefix {β : Type} (isSmart : α → Bool) (get : α → β → Option β)
    (l : List α) (cur : β) (log : List α) :
    ∃ done, (earlyRefLoop isSmart get l cur log).1 = log ++ done ∧ done <+: l.filter isSmart ∧
      ((∀ p b, (get p b).isSome = true) →
        done = l.filter isSmart ∧ (earlyRefLoop isSmart get l cur log).2.isSome = true) := by
  induction l generalizing cur log with
  | nil => exact ⟨[], by simp [earlyRefLoop]⟩
  | cons x rest ih =>
    simp only [earlyRefLoop]
    by_cases hx : isSmart x = true
    · simp only [hx, if_true, List.filter_cons_of_pos]
      cases h : get x cur with
      | none =>
        refine ⟨[x], rfl, ⟨rest.filter isSmart, rfl⟩, ?_⟩
        intro hall; have := hall x cur; rw [h] at this; cases this
      | some c =>
        obtain ⟨done, h1, h2, h3⟩ := ih c (log ++ [x])
        refine ⟨x :: done, by simp [h1], List.cons_prefix_cons.mpr ⟨rfl, h2⟩, ?_⟩
        intro hall
        obtain ⟨e1, e2⟩ := h3 hall
        exact ⟨by rw [e1], e2⟩
    · have hx' : isSmart x = false := by simpa using hx
      simp only [hx', Bool.false_eq_true, if_false]
      rw [List.filter_cons_of_neg (by simp [hx'])]
      exact ih cur log

/-- GetEarlyBeanReference calls the smart processors of the list front to back (a prefix ending at the first
    failing callback); all of them when no callback fails and the flag is set (or there is no smart processor) -/
theorem getEarlyBeanReference_in_order {β : Type} (hasInst : Bool) (isSmart : α → Bool) (get : α → β → Option β)
    (procs : List α) (m : β) :
    (getEarlyBeanReference hasInst isSmart get procs m).1 <+: procs.filter isSmart ∧
    ((hasInst = true ∨ procs.filter isSmart = []) → (∀ p b, (get p b).isSome = true) →
      (getEarlyBeanReference hasInst isSmart get procs m).1 = procs.filter isSmart ∧
      (getEarlyBeanReference hasInst isSmart get procs m).2.isSome = true) := by
  obtain ⟨done, h1, h2, h3⟩ := earlyRefLoop_prefix isSmart get procs m []
  simp only [List.nil_append] at h1
  unfold getEarlyBeanReference
  cases hasInst with
  | true =>
    simp only [if_true]
    refine ⟨by rw [h1]; exact h2, ?_⟩
    intro _ hall
    obtain ⟨e1, e2⟩ := h3 hall
    exact ⟨by rw [h1, e1], e2⟩
  | false =>
    simp only [Bool.false_eq_true, if_false]
    refine ⟨List.nil_prefix, ?_⟩
    intro hf _
    rcases hf with hf | hf
    · cases hf
    · exact ⟨hf.symm, rfl⟩

theorem start_early_nil (loadRes : α → Step) (resolve : α → Option α) (isInst : α → Bool) (instRes : α → Step)
    (before after : α → Unit → Res Unit) (runFails : α → Bool) (loaders procs runners : List α) :
    (start sort part loadRes resolve isInst instRes before after runFails loaders procs runners).early = [] := by
  unfold start
  dsimp only
  repeat' split
  all_goals rfl

/-- a whole start with the probe in a circular reference: the early-reference callbacks are a prefix of the sorted
    smart processors, and all of them (with everything else as in `start`) when nothing stops -/
theorem startC_in_order (hs : SortSpec part sort)
    (loadRes : α → Step) (isInst : α → Bool) (instRes : α → Step)
    (before after : α → Unit → Res Unit) (runFails : α → Bool)
    (builtinInst : Bool) (isSmart : α → Bool) (get : α → Unit → Option Unit) (loaders procs runners : List α) :
    let g := startC sort part loadRes (fun x => some x) isInst instRes before after runFails builtinInst isSmart get
      loaders procs runners
    let s := start sort part loadRes (fun x => some x) isInst instRes before after runFails loaders procs runners
    g.early <+: (sortOrdered sort part procs).filter isSmart ∧
    ((∀ x, isSmart x = true → isInst x = true) →
     (∀ x, (loadRes x).stops = false) → (∀ x, (instRes x).stops = false) → (∀ p b, (get p b).isSome = true) →
       g = { s with early := (sortOrdered sort part procs).filter isSmart }) := by
  have hreg : invokeRegister sort part (fun x => some x) procs [] = (sortOrdered sort part procs, false) := by
    have := registerLoop_total (fun x : α => x) (sortOrdered sort part procs) []
    simpa [invokeRegister] using this
  have hL2 : (loadConfigure sort part loadRes loaders).2 = (sortOrdered sort part loaders).any (fun x => (loadRes x).stops) := by
    unfold loadConfigure; rw [twoStepLoop_eq]
  have hI2 : (resolveAfterInstantiation isInst instRes (sortOrdered sort part procs)).2 =
      ((sortOrdered sort part procs).filter isInst).any (fun x => (instRes x).stops) := by
    unfold resolveAfterInstantiation; rw [twoStepLoop_eq]
  obtain ⟨gP, gA⟩ := getEarlyBeanReference_in_order (builtinInst || procs.any isInst) isSmart get
    (sortOrdered sort part procs) ()
  have hE := start_early_nil (sort := sort) (part := part) loadRes (fun x => some x) isInst instRes before after
    runFails loaders procs runners
  intro g s
  have hg : g = startC sort part loadRes (fun x => some x) isInst instRes before after runFails builtinInst isSmart get
      loaders procs runners := rfl
  clear_value g
  unfold startC at hg
  simp only [hreg] at hg
  by_cases hc : ((loadConfigure sort part loadRes loaders).2 || false ||
      (resolveAfterInstantiation isInst instRes (sortOrdered sort part procs)).2) = true
  · simp only [hc, if_true] at hg
    subst hg
    refine ⟨by rw [hE]; exact List.nil_prefix, ?_⟩
    intro _ n1 n2 _
    rw [hL2, hI2, any_false n1, any_false n2] at hc
    cases hc
  · simp only [hc, if_false, Bool.false_eq_true] at hg
    cases h3 : (getEarlyBeanReference (builtinInst || procs.any isInst) isSmart get (sortOrdered sort part procs) ()).2 with
    | none =>
      simp only [h3] at hg
      subst hg
      refine ⟨gP, ?_⟩
      intro n0 _ _ n3
      have hflag : (builtinInst || procs.any isInst) = true ∨ (sortOrdered sort part procs).filter isSmart = [] := by
        cases hf : (sortOrdered sort part procs).filter isSmart with
        | nil => exact Or.inr rfl
        | cons x xs =>
          have hx : x ∈ (sortOrdered sort part procs).filter isSmart := by rw [hf]; exact List.mem_cons_self
          obtain ⟨hx1, hx2⟩ := List.mem_filter.mp hx
          have hx3 : x ∈ procs := (sortOrdered_perm hs procs).mem_iff.mp hx1
          exact Or.inl (by
            rw [Bool.or_eq_true]; exact Or.inr (List.any_eq_true.mpr ⟨x, hx3, n0 x hx2⟩))
      have := (gA hflag n3).2
      rw [h3] at this; cases this
    | some v =>
      simp only [h3] at hg
      subst hg
      refine ⟨gP, ?_⟩
      intro n0 _ _ n3
      have hflag : (builtinInst || procs.any isInst) = true ∨ (sortOrdered sort part procs).filter isSmart = [] := by
        cases hf : (sortOrdered sort part procs).filter isSmart with
        | nil => exact Or.inr rfl
        | cons x xs =>
          have hx : x ∈ (sortOrdered sort part procs).filter isSmart := by rw [hf]; exact List.mem_cons_self
          obtain ⟨hx1, hx2⟩ := List.mem_filter.mp hx
          have hx3 : x ∈ procs := (sortOrdered_perm hs procs).mem_iff.mp hx1
          exact Or.inl (by
            rw [Bool.or_eq_true]; exact Or.inr (List.any_eq_true.mpr ⟨x, hx3, n0 x hx2⟩))
      rw [(gA hflag n3).1]

/-! ### one Configure, several Initialize calls -/

theorem sortOrdered_filter_plain (hs : SortSpec part sort) (l : List α) :
    (sortOrdered sort part l).filter (isPlain part) = l.filter (isPlain part) := by
  have f := (blocks_filter part _ _ _ (sorted_block_class hs (isPrio part) l)
      (sorted_block_class hs (isOrd part) l) (plain_block_class (part := part) l)).2.2
  rw [sortOrdered_eq, f]

/-- pointwise relation of two lists of the same length (core has no `Forall₂`) -/
def Forall2 {β γ : Type} (R : β → γ → Prop) : List β → List γ → Prop
  | [], [] => True
  | a :: as, b :: bs => R a b ∧ Forall2 R as bs
  | _, _ => False

/-- what one Initialize does, in terms of the loaders `reg` registered at that moment (of which the slice `cur` is a
    rearrangement with the unordered ones in registration order) -/
def InitSpec (part : α → Part) (res : α → Step) (out : List (Ev α) × Bool) (reg : List α) : Prop :=
  ∃ s : List α, s.Perm reg ∧ s.Pairwise (Precedes part) ∧
    s.filter (isPlain part) = reg.filter (isPlain part) ∧
    firsts out.1 = takeUntil (fun x => (res x).stops) s ∧
    seconds out.1 = (firsts out.1).filter (fun x => match res x with | .next _ => true | _ => false) ∧
    out.2 = reg.any (fun x => (res x).stops)

theorem confInitialize_spec (hs : SortSpec part sort) (res : α → Step) (cur reg : List α)
    (hp : cur.Perm reg) (hf : cur.filter (isPlain part) = reg.filter (isPlain part)) :
    (confInitialize sort part res cur).1.Perm reg ∧
    (confInitialize sort part res cur).1.filter (isPlain part) = reg.filter (isPlain part) ∧
    InitSpec part res (confInitialize sort part res cur).2 reg := by
  unfold confInitialize
  by_cases he : cur.isEmpty = true
  · have hc : cur = [] := by simpa using he
    subst hc
    have hr : reg = [] := hp.symm.eq_nil
    subst hr
    refine ⟨by simp, by simp, [], ?_⟩
    simp [firsts, seconds, takeUntil]
  · simp only [he, Bool.false_eq_true, if_false]
    have hsp := sortOrdered_perm hs cur
    refine ⟨hsp.trans hp, (sortOrdered_filter_plain hs cur).trans hf, sortOrdered sort part cur, hsp.trans hp,
      sortOrdered_pairwise hs cur, (sortOrdered_filter_plain hs cur).trans hf, ?_, ?_, ?_⟩
    · rw [twoStepLoop_eq]; simp [firsts_flatMap_evs]
    · rw [twoStepLoop_eq]; simp [firsts_flatMap_evs, seconds_flatMap_evs]
    · rw [twoStepLoop_eq]; exact any_perm (hsp.trans hp) _

theorem confRun_spec (hs : SortSpec part sort) (res : α → Step) (ops : List (ConfOp α)) (cur reg : List α)
    (hp : cur.Perm reg) (hf : cur.filter (isPlain part) = reg.filter (isPlain part)) :
    Forall2 (InitSpec part res) (confRun sort part res ops cur) (confRegistered ops reg) := by
  induction ops generalizing cur reg with
  | nil => exact True.intro
  | cons op rest ih =>
    cases op with
    | set ls => exact ih ls ls (List.Perm.refl _) rfl
    | add ls =>
      exact ih (cur ++ ls) (reg ++ ls) (hp.append_right ls) (by simp [List.filter_append, hf])
    | init =>
      obtain ⟨h1, h2, h3⟩ := confInitialize_spec hs res cur reg hp hf
      exact ⟨h3, ih _ _ h1 h2⟩

end Ioc.Order
