/-
  A property that is populated more than once (C17, C18): the Property object keeps TagStr, TagVal, its arguments
  and the field between two creations of its component.  Whatever an earlier population left in TagVal plays no
  part when TagStr contains a placeholder: the stages compose on TagStr and the CURRENT configuration.
-/
import IocProofs.Lemmas.ValueC18
namespace Ioc.Value
open Ioc Ioc.Tag

/-- the stages after the quote stage, on a value property whose TagVal is `s1` and whose field holds `old` -/
def afterQuoteValue (J : Json) (evalE : Bytes → Except Err Val) (validate : FVal → List Bytes → Bool)
    (ty : FieldTy) (tagStr s1 : Bytes) (args : Args) (old : Option FVal) : Except Err PState :=
  exprStage J evalE s1 >>= fun s2 =>
  valueStage J args ty s2 >>= fun b =>
  validateStage validate args ty (b.orElse fun _ => old) >>= fun b' =>
  pure ⟨true, tagStr, s2, args, b'⟩

/-- … and on a prefix property -/
def afterQuotePrefix (J : Json) (evalE : Bytes → Except Err Val) (validate : FVal → List Bytes → Bool) (cfg : Cfg)
    (ty : FieldTy) (tagStr s1 : Bytes) (args : Args) (old : Option FVal) : Except Err PState :=
  exprStage J evalE s1 >>= fun s2 =>
  prefixStage cfg args ty s2 >>= fun b =>
  validateStage validate args ty (b.orElse fun _ => old) >>= fun b' =>
  pure ⟨false, tagStr, s2, args, b'⟩

theorem runStages_value_some (J : Json) (evalE : Bytes → Except Err Val) (validate : FVal → List Bytes → Bool)
    (cfg : Cfg) (ty : FieldTy) (tagStr tagVal : Bytes) (args : Args) (old : Option FVal)
    (r : Bytes × Bytes × Bytes) (hf : findEl cDollar tagStr = some r) :
    runStagesOn J evalE validate cfg ty stageOrder ⟨true, tagStr, tagVal, args, old⟩ =
      (quoteStage J cfg tagStr >>= fun s1 => afterQuoteValue J evalE validate ty tagStr s1 args old) := by
  unfold afterQuoteValue
  simp only [stageOrder_eq, runStagesOn, stageFn, hf, nQuote, nExpr, nValue, nProps, nValidate, String.reduceEq,
    ↓reduceIte, bind, Except.bind, pure, Except.pure, Except.map]
  cases hq : quoteStage J cfg tagStr with
  | error e => simp
  | ok s1 =>
    cases he : exprStage J evalE s1 with
    | error e => simp [he]
    | ok s2 =>
      cases hv : valueStage J args ty s2 with
      | error e => simp [he, hv]
      | ok b =>
        cases hvd : validateStage validate args ty (b.orElse fun _ => old) <;> simp_all

theorem runStages_value_none (J : Json) (evalE : Bytes → Except Err Val) (validate : FVal → List Bytes → Bool)
    (cfg : Cfg) (ty : FieldTy) (tagStr tagVal : Bytes) (args : Args) (old : Option FVal)
    (hf : findEl cDollar tagStr = none) :
    runStagesOn J evalE validate cfg ty stageOrder ⟨true, tagStr, tagVal, args, old⟩ =
      afterQuoteValue J evalE validate ty tagStr tagVal args old := by
  unfold afterQuoteValue
  simp only [stageOrder_eq, runStagesOn, stageFn, hf, nQuote, nExpr, nValue, nProps, nValidate, String.reduceEq,
    ↓reduceIte, bind, Except.bind, pure, Except.pure, Except.map]
  cases he : exprStage J evalE tagVal with
  | error e => simp
  | ok s2 =>
    cases hv : valueStage J args ty s2 with
    | error e => simp [hv]
    | ok b =>
      cases hvd : validateStage validate args ty (b.orElse fun _ => old) <;> simp_all

theorem runStages_prefix_some (J : Json) (evalE : Bytes → Except Err Val) (validate : FVal → List Bytes → Bool)
    (cfg : Cfg) (ty : FieldTy) (tagStr tagVal : Bytes) (args : Args) (old : Option FVal)
    (r : Bytes × Bytes × Bytes) (hf : findEl cDollar tagStr = some r) :
    runStagesOn J evalE validate cfg ty stageOrder ⟨false, tagStr, tagVal, args, old⟩ =
      (quoteStage J cfg tagStr >>= fun s1 => afterQuotePrefix J evalE validate cfg ty tagStr s1 args old) := by
  unfold afterQuotePrefix
  simp only [stageOrder_eq, runStagesOn, stageFn, hf, nQuote, nExpr, nValue, nProps, nValidate, String.reduceEq,
    ↓reduceIte, bind, Except.bind, pure, Except.pure, Except.map]
  cases hq : quoteStage J cfg tagStr with
  | error e => simp
  | ok s1 =>
    cases he : exprStage J evalE s1 with
    | error e => simp [he]
    | ok s2 =>
      cases hv : prefixStage cfg args ty s2 with
      | error e => simp [he, hv]
      | ok b =>
        cases hvd : validateStage validate args ty (b.orElse fun _ => old) <;> simp_all

theorem runStages_prefix_none (J : Json) (evalE : Bytes → Except Err Val) (validate : FVal → List Bytes → Bool)
    (cfg : Cfg) (ty : FieldTy) (tagStr tagVal : Bytes) (args : Args) (old : Option FVal)
    (hf : findEl cDollar tagStr = none) :
    runStagesOn J evalE validate cfg ty stageOrder ⟨false, tagStr, tagVal, args, old⟩ =
      afterQuotePrefix J evalE validate cfg ty tagStr tagVal args old := by
  unfold afterQuotePrefix
  simp only [stageOrder_eq, runStagesOn, stageFn, hf, nQuote, nExpr, nValue, nProps, nValidate, String.reduceEq,
    ↓reduceIte, bind, Except.bind, pure, Except.pure, Except.map]
  cases he : exprStage J evalE tagVal with
  | error e => simp
  | ok s2 =>
    cases hv : prefixStage cfg args ty s2 with
    | error e => simp [hv]
    | ok b =>
      cases hvd : validateStage validate args ty (b.orElse fun _ => old) <;> simp_all

/-- validation hands on what it was given -/
theorem validateStage_ok (validate : FVal → List Bytes → Bool) (args : Args) (ty : FieldTy) (b b' : Option FVal)
    (h : validateStage validate args ty b = .ok b') : b' = b := by
  rw [validateStage_spec] at h
  cases hfind : Tag.find args kValidate with
  | none => simp [hfind] at h; exact h.symm
  | some cs =>
    simp only [hfind] at h
    split at h
    · simp at h; exact h.symm
    · split at h
      · simp at h; exact h.symm
      · simp at h

theorem orElse_none {α : Type} (b : Option α) : (b.orElse fun _ => none) = b := by cases b <;> rfl

/-- Whenever a first-time population under the current configuration binds a value, a later population of the same
    property — whatever TagVal and field contents the earlier one left — binds exactly that value and ends in exactly
    the same state. -/
theorem repopulate_current (J : Json) (evalE : Bytes → Except Err Val) (validate : FVal → List Bytes → Bool)
    (cfg : Cfg) (ty : FieldTy) (isValue : Bool) (tagStr leftVal : Bytes) (args : Args) (leftBound : Option FVal)
    (r : Bytes × Bytes × Bytes) (hf : findEl cDollar tagStr = some r) (fresh : PState) (v : FVal)
    (h0 : runStagesOn J evalE validate cfg ty stageOrder ⟨isValue, tagStr, tagStr, args, none⟩ = .ok fresh)
    (hb : fresh.bound = some v) :
    runStagesOn J evalE validate cfg ty stageOrder ⟨isValue, tagStr, leftVal, args, leftBound⟩ = .ok fresh := by
  cases isValue with
  | true =>
    rw [runStages_value_some J evalE validate cfg ty tagStr _ args _ r hf] at h0 ⊢
    unfold afterQuoteValue at h0 ⊢
    cases hq : quoteStage J cfg tagStr with
    | error e => simp [hq, bind, Except.bind] at h0
    | ok s1 =>
      simp only [hq, bind, Except.bind] at h0 ⊢
      cases he : exprStage J evalE s1 with
      | error e => simp [he] at h0
      | ok s2 =>
        simp only [he] at h0 ⊢
        cases hv : valueStage J args ty s2 with
        | error e => simp [hv] at h0
        | ok b =>
          simp only [hv, orElse_none] at h0 ⊢
          cases hvd : validateStage validate args ty b with
          | error e => simp [hvd] at h0
          | ok b' =>
            have hbb := validateStage_ok validate args ty b b' hvd
            subst hbb
            simp only [hvd, pure, Except.pure] at h0
            have hfb : fresh.bound = b' := by cases h0; rfl
            rw [hb] at hfb
            subst hfb
            simp only [Option.orElse]
            simp [hvd, pure, Except.pure] at h0 ⊢
            exact h0
  | false =>
    rw [runStages_prefix_some J evalE validate cfg ty tagStr _ args _ r hf] at h0 ⊢
    unfold afterQuotePrefix at h0 ⊢
    cases hq : quoteStage J cfg tagStr with
    | error e => simp [hq, bind, Except.bind] at h0
    | ok s1 =>
      simp only [hq, bind, Except.bind] at h0 ⊢
      cases he : exprStage J evalE s1 with
      | error e => simp [he] at h0
      | ok s2 =>
        simp only [he] at h0 ⊢
        cases hv : prefixStage cfg args ty s2 with
        | error e => simp [hv] at h0
        | ok b =>
          simp only [hv, orElse_none] at h0 ⊢
          cases hvd : validateStage validate args ty b with
          | error e => simp [hvd] at h0
          | ok b' =>
            have hbb := validateStage_ok validate args ty b b' hvd
            subst hbb
            simp only [hvd, pure, Except.pure] at h0
            have hfb : fresh.bound = b' := by cases h0; rfl
            rw [hb] at hfb
            subst hfb
            simp only [Option.orElse]
            simp [hvd, pure, Except.pure] at h0 ⊢
            exact h0

end Ioc.Value
