/-
  Local step facts for C09: the equations of `step` at each place where something can fail, the characterisation of a
  failing callback chain, the exhaustive list of failure causes, and the stability / cleanliness of a failed state.
-/
import IocProofs.Lemmas.M2StepInv
namespace Ioc.M2.Lc
open Ioc.M2

theorem step_visit_err (sc : Scen) (st st0 : St) (c : Nat) (src : Src sc st st0 c) (hr : st.status = .running)
    (s : St) (h : lookup sc st0 c = .err s) : step sc st = failAt s c := by
  cases src with
  | boot n t hs hb =>
    unfold step
    simp only [hr, hs, hb] at h ⊢
    rw [h]
  | todo n t hs hb ht => 
    unfold step
    simp only [hr, hs, hb, ht] at h ⊢
    rw [h]
  | cand f rest hs hp hd => 
    unfold step
    simp only [hr, hs, hp, hd, dite_true]
    rw [h]

theorem step_visit_miss (sc : Scen) (st st0 : St) (c : Nat) (src : Src sc st st0 c) (hr : st.status = .running)
    (h : lookup sc st0 c = .miss) : step sc st = enter sc st0 c := by
  cases src with
  | boot n t hs hb =>
    unfold step
    simp only [hr, hs, hb] at h ⊢
    rw [h]
  | todo n t hs hb ht => 
    unfold step
    simp only [hr, hs, hb, ht] at h ⊢
    rw [h]
  | cand f rest hs hp hd => 
    unfold step
    simp only [hr, hs, hp, hd, dite_true]
    rw [h]

theorem step_inject (sc : Scen) (st : St) (f : Frame) (rest : List Frame) (hr : st.status = .running)
    (hs : st.stack = f :: rest) (hp : f.p < (pts sc f.name).length) (hd : ¬ f.d < ((pts sc f.name)[f.p]).cands.length) :
    step sc st = 
      (if (pts sc f.name)[f.p].cands.isEmpty = true then { st with stack := advance f :: rest }
            else if (metasOf f).isEmpty = true then
              (if (pts sc f.name)[f.p].required = true then failAt st f.name else { st with stack := advance f :: rest })
            else if ((metasOf f).any fun o => (pts sc f.name)[f.p].incompat.contains o.name) = true then
              (if (pts sc f.name)[f.p].required = true then failAt st f.name else { st with stack := advance f :: rest })
            else { st with
              fields := upd2 st.fields f.name f.p
                (if ((pts sc f.name)[f.p]).slice then metasOf f else (metasOf f).take 1),
              stack := advance f :: rest }) := by
  unfold step
  simp only [hr, hs, hp, hd, dite_true, dite_false]
  rfl

theorem step_cbFail (sc : Scen) (st : St) (f : Frame) (rest : List Frame) (hr : st.status = .running)
    (hs : st.stack = f :: rest) (hp : ¬ f.p < (pts sc f.name).length) (hcb : (initCallbacks sc st f.name).2 = false) :
    step sc st = failAt (initCallbacks sc st f.name).1 f.name := by
  unfold step
  simp only [hr, hs, hp, dite_false, hcb]
  simp

/-- some initialization callback of `n` reports an error (the post-processor callbacks only when they are wired) -/
def CbFault (sc : Scen) (n : Nat) : Prop :=
  (sc.wired n = true ∧ sc.fBefore n = true) ∨ sc.fAps n = true ∨ sc.fInit n = true ∨
  (sc.wired n = true ∧ sc.fAfter n = true)

theorem initCallbacks_snd (sc : Scen) (st : St) (n : Nat) : (initCallbacks sc st n).2 = false ↔ CbFault sc n := by
  unfold initCallbacks CbFault
  cases sc.wired n <;> cases sc.fBefore n <;> cases sc.fAps n <;> cases sc.fInit n <;> cases sc.fAfter n <;> simp

theorem enter_fault (sc : Scen) (st : St) (c : Nat) (hn : c ∈ sc.names) (hw : sc.wired c = true)
    (hbad : sc.cfgOk c = false ∨ sc.points c = none) : (enter sc st c).status = .failed c st.stage := by
  rcases enter_eq sc st c with ⟨h, _⟩ | ⟨_, h, _⟩ | ⟨_, _, _, e⟩ | ⟨_, _, h1, h2, _⟩
  · exact absurd hn h
  · rw [hw] at h; cases h
  · rw [e]; simp [failAt, push]
  · rcases hbad with h | h
    · rw [h] at h1; cases h1
    · exact absurd h h2

theorem enter_unknown (sc : Scen) (st : St) (c : Nat) (hn : c ∉ sc.names) :
    (enter sc st c).status = .failed c st.stage := by
  simp [enter, hn, failAt]

theorem lookup_fault (sc : Scen) (st : St) (c : Nat) (h1 : st.l1 c = none) (h2 : st.l2 c = none)
    (h3 : st.l3 c = true) (hf : sc.fEarly c = true) :
    lookup sc st c = .err (addLog sc st c (.early c)) ∧
    (failAt (addLog sc st c (.early c)) c).status = .failed c st.stage := by
  constructor
  · simp [lookup, h1, h2, h3, hf]
  · simp [failAt]

theorem lookup_miss (sc : Scen) (st : St) (c : Nat) (h1 : st.l1 c = none) (h2 : st.l2 c = none)
    (h3 : st.l3 c = false) : lookup sc st c = .miss := by
  simp [lookup, h1, h2, h3]

/-- everything that can make a running start fail in one step, as a property of the state before the step -/
def FailureCause (sc : Scen) (st : St) (x : Nat) : Prop :=
  x ∉ sc.names ∨
  (sc.wired x = true ∧ (sc.cfgOk x = false ∨ sc.points x = none)) ∨
  (sc.fEarly x = true ∧ st.l3 x = true) ∨
  (∃ f rest, st.stack = f :: rest ∧ f.name = x ∧ ∃ hp : f.p < (pts sc f.name).length,
    ((pts sc f.name)[f.p]).required = true ∧ ((pts sc f.name)[f.p]).cands ≠ [] ∧
    ¬ f.d < ((pts sc f.name)[f.p]).cands.length ∧
    ((∀ o ∈ f.acc, o.name = x) ∨ (∃ o ∈ f.acc, o.name ≠ x ∧ o.name ∈ ((pts sc f.name)[f.p]).incompat))) ∨
  (∃ f rest, st.stack = f :: rest ∧ f.name = x ∧ ¬ f.p < (pts sc x).length ∧
    (CbFault sc x ∨ (initResult sc x ≠ raw x ∧ ∃ e, st.l2 x = some e ∧ finishedHolderHas sc st e = true)))

theorem failure_cause_rel (sc : Scen) (st st' : St) (x : Nat) (s : Stage) (hr : st.status = .running)
    (h : StepR sc st st') (hf : st'.status = .failed x s) : FailureCause sc st x := by
  cases h with
  | done hs hb ht => cases hf
  | hit st0 c src o h => simp [src.same.2.2.2.2.2.2, hr] at hf
  | promote st0 c src h1 h2 h3 hf' => simp [src.same.2.2.2.2.2.2, hr] at hf
  | earlyFail st0 c src h1 h2 h3 hf' =>
    simp [failAt] at hf; obtain ⟨rfl, _⟩ := hf
    exact Or.inr (Or.inr (Or.inl ⟨hf', by rw [← src.same.2.2.1]; exact h3⟩))
  | unknown st0 c src h1 h2 h3 hn =>
    simp [failAt] at hf; obtain ⟨rfl, _⟩ := hf
    exact Or.inl hn
  | enterU st0 c src h1 h2 h3 hn hw => simp [push, src.same.2.2.2.2.2.2, hr] at hf
  | enterFail st0 c src h1 h2 h3 hn hw hbad =>
    simp [failAt] at hf; obtain ⟨rfl, _⟩ := hf
    exact Or.inr (Or.inl ⟨hw, hbad⟩)
  | enterW st0 c src h1 h2 h3 hn hw hcfg hpts => simp [push, src.same.2.2.2.2.2.2, hr] at hf
  | advance f rest hs hp hd hwhy => simp [hr] at hf
  | injFail f rest hs hp hd hne hreq hwhy =>
    simp [failAt] at hf; obtain ⟨rfl, _⟩ := hf
    refine Or.inr (Or.inr (Or.inr (Or.inl ⟨f, rest, hs, rfl, hp, hreq, hne, hd, ?_⟩)))
    rcases hwhy with h | h
    · left
      intro o ho
      have := List.filter_eq_nil_iff.mp h o ho
      simpa using this
    · right
      obtain ⟨o, ho, hc⟩ := List.any_eq_true.mp h
      have hm := List.mem_filter.mp ho
      exact ⟨o, hm.1, by simpa using hm.2, by simpa using hc⟩
  | write f rest hs hp hd hne hm hc => simp [hr] at hf
  | cbFail f rest hs hp hcb =>
    simp [failAt] at hf; obtain ⟨rfl, _⟩ := hf
    exact Or.inr (Or.inr (Or.inr (Or.inr ⟨f, rest, hs, rfl, hp, Or.inl ((initCallbacks_snd sc st f.name).mp hcb)⟩)))
  | stale f rest hs hp hcb e he hw hh =>
    simp [failAt] at hf; obtain ⟨rfl, _⟩ := hf
    exact Or.inr (Or.inr (Or.inr (Or.inr ⟨f, rest, hs, rfl, hp, Or.inr ⟨hw, e, he, hh⟩⟩)))
  | publish f rest hs hp hcb pub hpub => simp [publish, hr] at hf

theorem failure_cause (sc : Scen) (st : St) (x : Nat) (s : Stage) (hr : st.status = .running)
    (hf : (step sc st).status = .failed x s) : FailureCause sc st x :=
  failure_cause_rel sc st _ x s hr (step_rel sc st hr) hf

/-- a failed start stays as it is, has no creation in progress and no early cache entry -/
theorem failed_final (sc : Scen) (k : Nat) (x : Nat) (s : Stage) (h : (run sc k (init sc)).status = .failed x s) :
    (∀ m, run sc (k + m) (init sc) = run sc k (init sc)) ∧ (run sc k (init sc)).stack = [] ∧
    ∀ n, (run sc k (init sc)).l2 n = none ∧ (run sc k (init sc)).l3 n = false := by
  have hi := inv_run sc k
  have hnr : (run sc k (init sc)).status ≠ .running := by rw [h]; intro h'; cases h'
  have hq := hi.quiet hnr
  refine ⟨fun m => by rw [run_add, run_not_running sc m _ hnr], hq, fun n => hi.off_clean n (by simp [snames, hq])⟩

/-- an optional point never fails the start; when nothing usable was collected no field is written -/
theorem optional_step (sc : Scen) (st : St) (f : Frame) (rest : List Frame) (hr : st.status = .running)
    (hs : st.stack = f :: rest) (hp : f.p < (pts sc f.name).length)
    (hd : ¬ f.d < ((pts sc f.name)[f.p]).cands.length) (hopt : ((pts sc f.name)[f.p]).required = false) :
    (step sc st).status = .running ∧
    ((metasOf f = [] ∨ (metasOf f).any (fun o => ((pts sc f.name)[f.p]).incompat.contains o.name) = true) →
      (step sc st).fields = st.fields) := by
  rw [step_inject sc st f rest hr hs hp hd]
  simp only [hopt, Bool.false_eq_true, if_false]
  constructor
  · split
    · exact hr
    · split
      · exact hr
      · split <;> exact hr
  · intro h
    split
    · rfl
    · split
      · rfl
      · rename_i hm
        rcases h with h | h
        · simp [h] at hm
        · rw [if_pos h]

/-- a required point that collected nothing usable fails the start at its holder -/
theorem required_step (sc : Scen) (st : St) (f : Frame) (rest : List Frame) (hr : st.status = .running)
    (hs : st.stack = f :: rest) (hp : f.p < (pts sc f.name).length)
    (hd : ¬ f.d < ((pts sc f.name)[f.p]).cands.length) (hreq : ((pts sc f.name)[f.p]).required = true)
    (hne : ((pts sc f.name)[f.p]).cands ≠ [])
    (h : metasOf f = [] ∨ (metasOf f).any (fun o => ((pts sc f.name)[f.p]).incompat.contains o.name) = true) :
    step sc st = failAt st f.name := by
  rw [step_inject sc st f rest hr hs hp hd]
  simp only [hreq, if_true]
  rw [if_neg (by simpa using hne)]
  split
  · rfl
  · rcases h with h | h
    · rename_i hm; simp [h] at hm
    · rw [if_pos h]

end Ioc.M2.Lc
