/-
  The regenerated programs of configure/configure.go (loadConfigure, Initialize) compute M4's two-step loop over the
  sorted loader list.
-/
import Ioc.SemConfigure
import IocProofs.Lemmas.SemOrder
namespace Ioc.Sem
open Ioc Ioc.Go Ioc.Order


/-- the loader loop: LoadConfig, then SetConfig when the document is not empty; any error returns -/
theorem loopM_load (res : Nat → Step) (f : Nat → Val → Env → CfgW → Option (Env × CfgW × Ctl)) (env : Env)
    (hf : ∀ i x w, f i (encR x) env w =
      some (env, { w with log := w.log ++ (res x).evs x }, if (res x).stops then Ctl.ret errG else Ctl.norm)) :
    ∀ (l : List Nat) (k : Nat) (w : CfgW), loopM f k (l.map encR) env w =
      some (env, { w with log := (twoStepLoop res l w.log).1 },
            if (twoStepLoop res l w.log).2 then Ctl.ret errG else Ctl.norm) := by
  intro l
  induction l with
  | nil => intro k w; simp [loopM, twoStepLoop]
  | cons x xs ih =>
    intro k w
    simp only [List.map_cons, loopM, hf, twoStepLoop]
    obtain hr | hr | ⟨b, hr⟩ : res x = .err ∨ res x = .skip ∨ ∃ b, res x = .next b := by
      cases res x <;> simp
    · simp [hr, Step.stops, Step.evs]
    · simp [hr, Step.stops, Step.evs, ih]
    · cases b <;> simp [hr, Step.stops, Step.evs, ih]

def lcStmt (i : Nat) : Stmt := Progs.cfg_loadConfigure.body.getD i .brk
theorem lc_body : Progs.cfg_loadConfigure.body = [lcStmt 0, lcStmt 1, lcStmt 2, lcStmt 3] := rfl
theorem lc_params : Progs.cfg_loadConfigure.params = [] := rfl

theorem lc_s0 (res : Nat → Step) (sorted : List Nat) (w : CfgW) :
    evalS (cfgPrims res sorted) [] w (lcStmt 0) = some ([], { w with loaders := sorted }, .norm) := by
  have hd := decList_map sorted
  go_simp [lcStmt, Progs.cfg_loadConfigure, cfgPrims, cfgFn, hd]

theorem lc_s1 (res : Nat → Step) (sorted : List Nat) (w : CfgW) :
    evalS (cfgPrims res sorted) [] w (lcStmt 1) = some ([("sumLoaders", .int w.loaders.length)], w, .norm) := by
  go_simp [lcStmt, Progs.cfg_loadConfigure, cfgPrims, cfgFn]

theorem lc_s2 (res : Nat → Step) (sorted : List Nat) (w : CfgW) (n : Val) :
    evalS (cfgPrims res sorted) [("sumLoaders", n)] w (lcStmt 2) =
      some ([("sumLoaders", n)], { w with log := (twoStepLoop res w.loaders w.log).1 },
            if (twoStepLoop res w.loaders w.log).2 then .ret errG else .norm) := by
  simp only [lcStmt, Progs.cfg_loadConfigure, List.getD_cons_succ, List.getD_cons_zero, evalS]
  have hcoll : evalE (cfgPrims res sorted) [("sumLoaders", n)] w (.glob "self.loaders") = some (.list (w.loaders.map encR), w) := by
    go_simp [cfgPrims, cfgFn]
  rw [hcoll]
  simp only []
  rw [loopM_load res _ [("sumLoaders", n)] (by
    intro i x w
    cases hr : res x with
    | err => go_simp [cfgPrims, cfgFn, encR, hr, Step.evs, Step.stops, errG]
    | skip => go_simp [cfgPrims, cfgFn, encR, hr, Step.evs, Step.stops, errG]
    | next b => cases b <;> go_simp [cfgPrims, cfgFn, encR, hr, Step.evs, Step.stops, errG]) w.loaders 0 w]

theorem lc_s3 (res : Nat → Step) (sorted : List Nat) (w : CfgW) (env : Env) :
    evalS (cfgPrims res sorted) env w (lcStmt 3) = some (env, w, .ret .nil) := by
  go_simp [lcStmt, Progs.cfg_loadConfigure]

/-- loadConfigure, regenerated: sort (stored back into the loader list), then the two-step loop over the sorted loaders -/
theorem loadConfigure_sem (res : Nat → Step) (sorted : List Nat) (w : CfgW) :
    run (cfgPrims res sorted) Progs.cfg_loadConfigure [] w =
      some (if (twoStepLoop res sorted w.log).2 then errG else .nil,
            { loaders := sorted, log := (twoStepLoop res sorted w.log).1 }) := by
  simp only [run, lc_params, lc_body, List.length_nil, if_true, List.zip_nil_left]
  rw [evalB_cons, lc_s0]; simp only []
  rw [evalB_cons, lc_s1]; simp only []
  rw [evalB_cons, lc_s2]
  cases h : (twoStepLoop res sorted w.log).2 with
  | true => simp [h]
  | false =>
    simp only [h, Bool.false_eq_true, if_false]
    rw [evalB_cons, lc_s3]


/-- a call of the sibling method loadConfigure = a run of its regenerated program -/
def callLoad (res : Nat → Step) (sorted : List Nat) (args : List Val) (w : CfgW) : Option (Val × CfgW) :=
  run (cfgPrims res sorted) Progs.cfg_loadConfigure args w

def initPrims (res : Nat → Step) (sorted : List Nat) : Prims CfgW :=
  { fn := fun f args w =>
      match f with
      | "self.loadConfigure" => callLoad res sorted args w
      | _ => cfgFn res sorted f args w }

/-- Initialize, regenerated: nothing at all for an empty loader list, otherwise loadConfigure and its error -/
theorem initialize_sem (res : Nat → Step) (sorted : List Nat) (w : CfgW) :
    run (initPrims res sorted) Progs.cfg_Initialize [] w =
      if w.loaders.isEmpty then some (.nil, w)
      else some (if (twoStepLoop res sorted w.log).2 then errG else .nil,
                 { loaders := sorted, log := (twoStepLoop res sorted w.log).1 }) := by
  have hl : callLoad res sorted [] w = _ := loadConfigure_sem res sorted w
  cases hw : w.loaders with
  | nil => go_simp [Progs.cfg_Initialize, initPrims, cfgFn, hw]
  | cons a t =>
    cases hb : (twoStepLoop res sorted w.log).2 <;>
      go_simp [Progs.cfg_Initialize, initPrims, cfgFn, hw, hl, hb, errG]


end Ioc.Sem
