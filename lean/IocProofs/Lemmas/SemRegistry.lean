/-
  The regenerated programs of singleton_component_registry.go (Ioc.Progs.reg_*), run by the MiniGo interpreter
  under the map/set interpretation of Ioc.SemRegistry, compute exactly the model functions of Ioc.Registry (M1).
  For every registry, every name, every result of the factories.
-/
import Ioc.SemRegistry
import IocProofs.Lemmas.GoTactics
namespace Ioc.Sem
open Ioc Ioc.Go Ioc.Reg

variable (early : Except Err Obj) (body : Body)

theorem addSingletonFactory_sem (r : Reg) (n m : Nat) :
    run (regPrims early body) Progs.reg_AddSingletonFactory [.int n, .ref m 0] r = some (.tuple [], r.addFactory n) := by
  go_simp [Progs.reg_AddSingletonFactory, regPrims, baseFn, Reg.addFactory]

theorem removeSingleton_base (r : Reg) (n : Nat) :
    run (basePrims early body) Progs.reg_RemoveSingleton [.int n] r = some (.tuple [], r.remove n) := by
  go_simp [Progs.reg_RemoveSingleton, basePrims, baseFn, Reg.remove]

theorem removeSingleton_sem (r : Reg) (n : Nat) :
    run (regPrims early body) Progs.reg_RemoveSingleton [.int n] r = some (.tuple [], r.remove n) := by
  go_simp [Progs.reg_RemoveSingleton, regPrims, baseFn, Reg.remove]

theorem addSingleton_base (r : Reg) (n : Nat) (o : Obj) :
    run (basePrims early body) Progs.reg_AddSingleton [.int n, encObj o] r = some (.tuple [], r.addSingleton n o) := by
  go_simp [Progs.reg_AddSingleton, basePrims, baseFn, Reg.addSingleton, encObj]

theorem addSingleton_sem (r : Reg) (n : Nat) (o : Obj) :
    run (regPrims early body) Progs.reg_AddSingleton [.int n, encObj o] r = some (.tuple [], r.addSingleton n o) := by
  go_simp [Progs.reg_AddSingleton, regPrims, baseFn, Reg.addSingleton, encObj]

theorem isInCreation_sem (r : Reg) (n : Nat) :
    run (regPrims early body) Progs.reg_IsSingletonCurrentlyInCreation [.int n] r = some (.bool (r.isInCreation n), r) := by
  go_simp [Progs.reg_IsSingletonCurrentlyInCreation, regPrims, baseFn]

theorem getSingleton_sem (r : Reg) (n : Nat) (b : Bool) :
    run (regPrims early body) Progs.reg_GetSingleton [.int n, .bool b] r
      = some (encGet (r.get n b early).1, (r.get n b early).2) := by
  unfold Reg.get
  cases h1 : r.l1? n with
  | some o => go_simp [Progs.reg_GetSingleton, regPrims, baseFn, h1, encGet, encOpt]
  | none =>
    cases h2 : r.l2? n with
    | some o => go_simp [Progs.reg_GetSingleton, regPrims, baseFn, h1, h2, encGet, encOpt]
    | none =>
      cases b with
      | false => go_simp [Progs.reg_GetSingleton, regPrims, baseFn, h1, h2, encGet, encOpt]
      | true =>
        by_cases h3 : n ∈ r.l3
        · cases early with
          | ok o => go_simp [Progs.reg_GetSingleton, regPrims, baseFn, h1, h2, h3, encGet, encRes, encOpt, encObj, errVal]
          | error e => go_simp [Progs.reg_GetSingleton, regPrims, baseFn, h1, h2, h3, encGet, encRes, encOpt, encObj, errVal]
        · go_simp [Progs.reg_GetSingleton, regPrims, baseFn, h1, h2, h3, encGet, encOpt]

/-- GetSingletonOrCreateByFactory = beginCreate, the factory, endCreate -/
theorem getSingletonOrCreate_sem (r : Reg) (n : Nat) :
    run (regPrims early body) Progs.reg_GetSingletonOrCreateByFactory [.int n, .ref n 1] r
      = some (match (r.beginCreate n).1 with
              | some o => (.tuple [encObj o, .nil], r)
              | none =>
                let x := body (r.beginCreate n).2
                (encRes x.1, x.2.endCreate n x.1)) := by
  unfold Reg.beginCreate
  cases h1 : r.l1? n with
  | some o => go_simp [Progs.reg_GetSingletonOrCreateByFactory, regPrims, baseFn, h1, encOpt]
  | none =>
    cases hb : body { r with inCr := sput n r.inCr } with
    | mk res r2 =>
      cases res with
      | ok o =>
        have hA : callAdd early body [.int n, .ref o.name o.ver] { r2 with inCr := sdel n r2.inCr } = _ :=
          addSingleton_base early body { r2 with inCr := sdel n r2.inCr } n o
        go_simp [Progs.reg_GetSingletonOrCreateByFactory, regPrims, baseFn, h1, hb, encRes, encObj, errVal, Reg.endCreate, hA]
      | error e =>
        have hR : callRemove early body [.int n] r2 = _ := removeSingleton_base early body r2 n
        go_simp [Progs.reg_GetSingletonOrCreateByFactory, regPrims, baseFn, h1, hb, encRes, encObj, errVal, Reg.endCreate, hR]

end Ioc.Sem
