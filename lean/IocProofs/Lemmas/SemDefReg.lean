/-
  Semantic theorems for the REGENERATED definition registry (interpretation: Ioc.SemDefReg).
-/
import Ioc.SemDefReg
import IocProofs.Lemmas.GoTactics
set_option linter.unusedSimpArgs false
namespace Ioc.Sem
open Ioc Ioc.Go

section dreg
variable (nameOf : Nat → String) (accept : Nat → Bool)

abbrev DR := dregPrims nameOf accept

def encMetas (l : List Nat) : Val := .list (l.map (fun i => Val.ref i 0))

theorem registerMeta_sem (i : Nat) (w : DRW) :
    run (DR nameOf accept) Progs.dreg_RegisterMeta [.ref i 0] w =
      some (.tuple [], { w with entries := upsert (nameOf i) i w.entries }) := by
  go_simp [Progs.dreg_RegisterMeta, DR, dregPrims, dregFn]

theorem getMetaByName_sem (n : String) (w : DRW) :
    run (DR nameOf accept) Progs.dreg_GetMetaByName [.str n] w =
      some (match lookupE n w.entries with | some i => .ref i 0 | none => .nil, w) := by
  cases h : lookupE n w.entries <;> go_simp [Progs.dreg_GetMetaByName, DR, dregPrims, dregFn, h]

theorem getMetaOrRegister_sem (n : String) (c : Nat) (w : DRW) :
    run (DR nameOf accept) Progs.dreg_GetMetaOrRegister [.str n, .ref c 50] w =
      some (match lookupE n w.entries with
            | some i => (.ref i 0, w)
            | none => (.ref c 0, { entries := upsert n c w.entries, named := w.named ++ [(c, n)] })) := by
  cases h : lookupE n w.entries <;> go_simp [Progs.dreg_GetMetaOrRegister, DR, dregPrims, dregFn, h]

/-! GetMetas -/

def gmClosure : List String × List Stmt :=
  match Progs.dreg_GetMetas.body with
  | [_, .hcallS _ _ _ ps b, _] => (ps, b)
  | _ => ([], [])
theorem gm_shape : Progs.dreg_GetMetas.body =
    [.define ["metas"] (.sliceLit []), .hcallS [] "self.metaMaps.Range" [] gmClosure.1 gmClosure.2, .ret [.var "metas"]] := rfl
theorem gm_params : Progs.dreg_GetMetas.params = ["opts"] := rfl
theorem gmClosure_params : gmClosure.1 = ["k", "m"] := rfl

def envGM (opts : Val) (acc : List Nat) : Env := [("metas", encMetas acc), ("opts", opts)]

def gmHandler : HandlerE DRW := fun as env' w'' =>
  if gmClosure.1.length = as.length then
    match evalB (DR nameOf accept) ((gmClosure.1.zip as) ++ env') w'' gmClosure.2 with
    | some (e2, w3, .ret v) => some (v, Env.leave e2 env'.length, w3)
    | some (e2, w3, .norm) => some (.tuple [], Env.leave e2 env'.length, w3)
    | _ => none
  else none

/-- the literal on one entry: `true` (go on), and the definition is appended to `metas` exactly when the options accept it -/
theorem gm_closure (opts : Val) (acc : List Nat) (n : String) (i : Nat) (w : DRW) :
    gmHandler nameOf accept [.str n, .ref i 0] (envGM opts acc) w =
      some (.bool true, envGM opts (if accept i then acc ++ [i] else acc), w) := by
  unfold gmHandler
  rw [gmClosure_params]
  simp only [List.length_cons, List.length_nil, if_true, List.zip_cons_cons, List.zip_nil_right]
  cases ha : accept i <;>
    go_simp [gmClosure, Progs.dreg_GetMetas, DR, dregPrims, dregFn, envGM, encMetas, ha]

theorem rangeLoopE_gm (opts : Val) : ∀ (es : List (String × Nat)) (acc : List Nat) (w : DRW),
    rangeLoopE (gmHandler nameOf accept) es (envGM opts acc) w =
      some (.tuple [], envGM opts (acc ++ (es.filter (fun e => accept e.2)).map (·.2)), w) := by
  intro es
  induction es with
  | nil => intro acc w; simp [rangeLoopE]
  | cons e rest ih =>
    intro acc w
    obtain ⟨n, i⟩ := e
    simp only [rangeLoopE, gm_closure]
    rw [ih]
    cases ha : accept i <;> simp [List.filter_cons, ha]

/-- GetMetas, regenerated (the literal handed to Range appends to the CAPTURED `metas`): the definitions the options accept,
    in the order in which the map enumerates them — nothing else decides the order of the candidates of an injection point -/
theorem getMetas_sem (opts : Val) (w : DRW) :
    run (DR nameOf accept) Progs.dreg_GetMetas [opts] w =
      some (encMetas ((w.entries.filter (fun e => accept e.2)).map (·.2)), w) := by
  simp only [run, gm_params, gm_shape, List.length_cons, List.length_nil, if_true, List.zip_cons_cons, List.zip_nil_right]
  rw [evalB_cons]
  have h0 : evalS (DR nameOf accept) [("opts", opts)] w (.define ["metas"] (.sliceLit [])) = some (envGM opts [], w, .norm) := by
    go_simp [envGM, encMetas]
  rw [h0]
  simp only []
  rw [evalB_cons]
  have h1 : evalS (DR nameOf accept) (envGM opts []) w (.hcallS [] "self.metaMaps.Range" [] gmClosure.1 gmClosure.2) =
      some (envGM opts ((w.entries.filter (fun e => accept e.2)).map (·.2)), w, .norm) := by
    rw [evalS]
    simp only [evalEs]
    have key : ∀ (h1 h2 : HandlerE DRW), (∀ as e w'', h1 as e w'' = h2 as e w'') →
        (DR nameOf accept).hfnE "self.metaMaps.Range" [] h1 (envGM opts []) w =
        (DR nameOf accept).hfnE "self.metaMaps.Range" [] h2 (envGM opts []) w := by
      intro h1 h2 hh
      have : h1 = h2 := funext fun as => funext fun e => funext fun w'' => hh as e w''
      rw [this]
    rw [key _ (gmHandler nameOf accept) (by
      intro as e w''
      unfold gmHandler
      by_cases hlen : gmClosure.1.length = as.length
      · simp only [hlen, if_true]
        cases evalB (DR nameOf accept) (gmClosure.1.zip as ++ e) w'' gmClosure.2 with
        | none => rfl
        | some r => obtain ⟨e2, w3, c⟩ := r; cases c <;> rfl
      · simp only [hlen, if_false])]
    have hr : (DR nameOf accept).hfnE "self.metaMaps.Range" [] (gmHandler nameOf accept) (envGM opts []) w =
        rangeLoopE (gmHandler nameOf accept) w.entries (envGM opts []) w := rfl
    rw [hr, rangeLoopE_gm]
    simp
  rw [h1]
  simp only []
  go_simp [envGM]

end dreg
end Ioc.Sem
