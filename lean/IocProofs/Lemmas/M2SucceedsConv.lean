/-
  Converse half of the success characterisation, for ANY post-processors that keep component names (`Lc.WF`) and any
  order: in a start that has not failed, every created component passed all its checks so far and every candidate it has
  asked for is created or in creation (`Passed`).  At `done` the stack is empty, the roots are published
  (`done_all_published`), so every reachable name is published and has no static fault.
-/
import IocProofs.Lemmas.M2SucceedsFwd
namespace Ioc.M2.Sx
open Ioc.M2 Ioc.M2.Lc

/-- what `enter` checks -/
def EnteredOk (sc : Scen) (n : Nat) : Prop :=
  n ∈ sc.names ∧ (sc.wired n = true → sc.cfgOk n = true ∧ sc.points n ≠ none)

/-- progress of a creation: the points below `p` were processed without error and all their candidates were obtained;
    of point `p` the first `d` candidates were obtained -/
structure Prog (sc : Scen) (st : St) (n p d : Nat) : Prop where
  ent : EnteredOk sc n
  before : ∀ i pt, i < p → (pts sc n)[i]? = some pt → ¬ BadPoint n pt ∧ ∀ c ∈ pt.cands, Ent st c
  cur : ∀ pt, (pts sc n)[p]? = some pt → ∀ c ∈ pt.cands.take d, Ent st c

structure Passed (sc : Scen) (st : St) : Prop where
  stk : ∀ f ∈ st.stack, Prog sc st f.name f.p f.d
  pub : ∀ n, st.l1 n ≠ none →
    EnteredOk sc n ∧ ¬ CbFault sc n ∧ ∀ pt ∈ pts sc n, ¬ BadPoint n pt ∧ ∀ c ∈ pt.cands, Ent st c

def PassedInv (sc : Scen) (st : St) : Prop := ¬ Failed st → Passed sc st

theorem Prog.mono {sc : Scen} {st st' : St} {n p d : Nat} (h : Prog sc st n p d) (hE : ∀ c, Ent st c → Ent st' c) :
    Prog sc st' n p d :=
  ⟨h.ent, fun i pt hi hpt => ⟨(h.before i pt hi hpt).1, fun c hc => hE c ((h.before i pt hi hpt).2 c hc)⟩,
   fun pt hpt c hc => hE c (h.cur pt hpt c hc)⟩

theorem Passed.mono {sc : Scen} {st st' : St} (h : Passed sc st) (hE : ∀ c, Ent st c → Ent st' c)
    (hs : ∀ f ∈ st'.stack, f ∈ st.stack ∨ Prog sc st' f.name f.p f.d) (hl : ∀ n, st'.l1 n ≠ none → st.l1 n ≠ none) :
    Passed sc st' := by
  constructor
  · intro f hf
    rcases hs f hf with h' | h'
    · exact (h.stk f h').mono hE
    · exact h'
  · intro n hn
    obtain ⟨h1, h2, h3⟩ := h.pub n (hl n hn)
    exact ⟨h1, h2, fun pt hpt => ⟨(h3 pt hpt).1, fun c hc => hE c ((h3 pt hpt).2 c hc)⟩⟩

theorem prog_bump {sc : Scen} {st st' : St} {stk : List Frame} {o : Obj} {c : Nat}
    (h : ∀ f ∈ stk, Prog sc st f.name f.p f.d) (hE : ∀ c, Ent st c → Ent st' c)
    (he : ∀ f rest, stk = f :: rest → Edge sc f c) (hc : Ent st' c) :
    ∀ f ∈ bump stk o, Prog sc st' f.name f.p f.d := by
  cases stk with
  | nil => simp [bump]
  | cons g rest =>
    intro f hf
    simp only [bump, List.mem_cons] at hf
    rcases hf with rfl | hf
    · have hg := (h g (by simp)).mono hE
      refine ⟨hg.ent, hg.before, fun pt hpt c' hc' => ?_⟩
      obtain ⟨pt', h1, h2⟩ := he g rest rfl
      simp only at hpt
      rw [h1] at hpt
      injection hpt with hpt
      subst hpt
      obtain ⟨hlt, hget⟩ := List.getElem?_eq_some_iff.mp h2
      simp only at hc'
      rw [List.take_succ_eq_append_getElem hlt, List.mem_append] at hc'
      rcases hc' with hc' | hc'
      · exact hg.cur _ h1 c' hc'
      · simp only [List.mem_singleton] at hc'
        rw [hc', hget]; exact hc
    · exact (h f (by simp [hf])).mono hE

theorem ent_of_bump {st : St} {o : Obj} {n : Nat} : Ent { st with stack := bump st.stack o } n ↔ Ent st n := by
  simp [Ent, Lc.snames]

theorem passed_stepR (sc : Scen) (st st' : St) (g : Good sc st) (h : PassedInv sc st) (hr : st.status = .running)
    (hstep : StepR sc st st') : PassedInv sc st' := by
  have nf := not_failed_of_running hr
  have hP := h nf
  have fail : ∀ s x, PassedInv sc (failAt s x) := fun s x hnf => absurd (failed_failAt s x) hnf
  cases hstep with
  | done hs hb ht => exact fun _ => hP.mono (fun c hc => hc) (fun f hf => Or.inl hf) (fun n hn => hn)
  | hit st0 c src o ho =>
    intro _
    obtain ⟨hi0, _⟩ := inv_src src g.inv hr
    have hE : ∀ n, Ent st n → Ent { st0 with stack := bump st0.stack o } n :=
      fun n hn => ent_of_bump.mpr ((ent_src src n).mpr hn)
    have hc : Ent { st0 with stack := bump st0.stack o } c := by
      apply ent_of_bump.mpr
      rcases ho with ho | ⟨_, ho⟩
      · exact Or.inr (by rw [ho]; simp)
      · left
        apply Classical.byContradiction
        intro hc
        rw [(hi0.off_clean c hc).1] at ho; cases ho
    refine ⟨?_, ?_⟩
    · exact prog_bump (by rw [src.same.2.2.2.1]; exact hP.stk) hE (src_edge src) hc
    · intro n hn
      have hn' : st.l1 n ≠ none := by rw [← src.same.1]; exact hn
      obtain ⟨h1, h2, h3⟩ := hP.pub n hn'
      exact ⟨h1, h2, fun pt hpt => ⟨(h3 pt hpt).1, fun c' hc' => hE c' ((h3 pt hpt).2 c' hc')⟩⟩
  | promote st0 c src h1 h2 h3 hf =>
    intro _
    obtain ⟨hi0, _⟩ := inv_src src g.inv hr
    have hE' : ∀ n, Ent st0 n → Ent { addLog sc st0 c (.early c) with
        l2 := upd st0.l2 c (some (sc.earlyO c)), l3 := upd st0.l3 c false,
        stack := bump st0.stack (sc.earlyO c) } n := by
      intro n hn; simpa [Ent, Lc.snames] using hn
    have hE := fun n hn => hE' n ((ent_src src n).mpr hn)
    have hc : Ent st0 c := by
      left
      apply Classical.byContradiction
      intro hc
      rw [(hi0.off_clean c hc).2] at h3; cases h3
    refine ⟨?_, ?_⟩
    · exact prog_bump (by rw [src.same.2.2.2.1]; exact hP.stk) hE (src_edge src) (hE' c hc)
    · intro n hn
      have hn' : st.l1 n ≠ none := by rw [← src.same.1]; simpa using hn
      obtain ⟨h1, h2, h3⟩ := hP.pub n hn'
      exact ⟨h1, h2, fun pt hpt => ⟨(h3 pt hpt).1, fun c' hc' => hE c' ((h3 pt hpt).2 c' hc')⟩⟩
  | earlyFail st0 c src h1 h2 h3 hf => exact fail _ _
  | unknown st0 c src h1 h2 h3 hn => exact fail _ _
  | enterU st0 c src h1 h2 h3 hn hw =>
    intro _
    refine hP.mono (fun n hn' => ?_) (fun f hf => ?_) (fun n hn' => by rw [← src.same.1]; exact hn')
    · rcases (ent_src src n).mpr hn' with h' | h'
      · exact Or.inl (by simp [h'])
      · exact Or.inr h'
    · simp only [push, List.mem_cons] at hf
      rcases hf with rfl | hf
      · exact Or.inr ⟨⟨hn, fun hw' => by rw [hw] at hw'; cases hw'⟩, fun i pt hi => by simp at hi,
          fun pt _ c' hc' => by simp at hc'⟩
      · exact Or.inl (by rw [← src.same.2.2.2.1]; exact hf)
  | enterFail st0 c src h1 h2 h3 hn hw hbad => exact fail _ _
  | enterW st0 c src h1 h2 h3 hn hw hcfg hpts =>
    intro _
    refine hP.mono (fun n hn' => ?_) (fun f hf => ?_)
      (fun n hn' => by rw [← src.same.1]; simpa [push] using hn')
    · have : Ent (push st0 c) n := by
        rcases (ent_src src n).mpr hn' with h' | h'
        · exact Or.inl (by simp [h'])
        · exact Or.inr h'
      simpa [Ent, Lc.snames] using this
    · simp only [addLog_stack, push, List.mem_cons] at hf
      rcases hf with rfl | hf
      · exact Or.inr ⟨⟨hn, fun _ => ⟨hcfg, hpts⟩⟩, fun i pt hi => by simp at hi, fun pt _ c' hc' => by simp at hc'⟩
      · exact Or.inl (by rw [← src.same.2.2.2.1]; exact hf)
  | advance f rest hs hp hd hwhy =>
    intro _
    have hf := hP.stk f (by simp [hs])
    have hE : ∀ n, Ent st n → Ent { st with stack := advance f :: rest } n := by
      intro n hn; simpa [Ent, Lc.snames, hs, advance] using hn
    refine hP.mono hE (fun g' hg' => ?_) (fun n hn' => hn')
    simp only [List.mem_cons] at hg'
    rcases hg' with rfl | hg'
    · right
      refine (Prog.mono ⟨hf.ent, fun i pt hi hpt => ?_, fun pt _ c' hc' => by simp [advance] at hc'⟩ hE)
      simp only [advance] at hi hpt
      rcases Nat.lt_succ_iff_lt_or_eq.mp hi with hi | rfl
      · exact hf.before i pt hi hpt
      · have hcur := hf.cur pt hpt
        rw [List.getElem?_eq_getElem hp] at hpt
        injection hpt with hpt
        subst hpt
        rw [List.take_of_length_le (by omega)] at hcur
        refine ⟨?_, hcur⟩
        rcases hwhy with hc | ⟨hreq, _⟩
        · rintro (⟨_, hne, _⟩ | ⟨_, c', hc', _⟩)
          · exact hne hc
          · rw [hc] at hc'; cases hc'
        · rintro (⟨hreq', _⟩ | ⟨hreq', _⟩) <;> (rw [hreq] at hreq'; cases hreq')
    · exact Or.inl (by rw [hs]; simp [hg'])
  | injFail f rest hs hp hd hne hreq hwhy => exact fail _ _
  | write f rest hs hp hd hne hm hc =>
    intro _
    have hf := hP.stk f (by simp [hs])
    have hE : ∀ n, Ent st n → Ent { st with
        fields := upd2 st.fields f.name f.p (if ((pts sc f.name)[f.p]).slice then metasOf f else (metasOf f).take 1),
        stack := advance f :: rest } n := by
      intro n hn; simpa [Ent, Lc.snames, hs, advance] using hn
    refine hP.mono hE (fun g' hg' => ?_) (fun n hn' => hn')
    simp only [List.mem_cons] at hg'
    rcases hg' with rfl | hg'
    · right
      refine (Prog.mono ⟨hf.ent, fun i pt hi hpt => ?_, fun pt _ c' hc' => by simp [advance] at hc'⟩ hE)
      simp only [advance] at hi hpt
      rcases Nat.lt_succ_iff_lt_or_eq.mp hi with hi | rfl
      · exact hf.before i pt hi hpt
      · have hcur := hf.cur pt hpt
        rw [List.getElem?_eq_getElem hp] at hpt
        injection hpt with hpt
        subst hpt
        rw [List.take_of_length_le (by omega)] at hcur
        exact ⟨not_bad_of_write (g.acc f (by simp [hs])) hp hd hm hc, hcur⟩
    · exact Or.inl (by rw [hs]; simp [hg'])
  | cbFail f rest hs hp hcb => exact fail _ _
  | stale f rest hs hp hcb e he hw hh => exact fail _ _
  | publish f rest hs hp hcb pub hpub =>
    intro _
    have hf := hP.stk f (by simp [hs])
    have hE : ∀ n, Ent st n → Ent (M2.publish (initCallbacks sc st f.name).1 f.name pub rest) n := by
      intro n hn
      by_cases hnf : n = f.name
      · exact Or.inr (by simp [M2.publish, hnf])
      · rcases hn with hn | hn
        · left
          simp only [Lc.snames_publish]
          simp only [Lc.snames, hs, List.map_cons, List.mem_cons] at hn
          rcases hn with hn | hn
          · exact absurd hn hnf
          · exact hn
        · exact Or.inr (by simpa [M2.publish, upd, hnf] using hn)
    refine ⟨?_, ?_⟩
    · rw [publish_stack]
      refine prog_bump (c := f.name) (fun g' hg' => hP.stk g' (by rw [hs]; simp [hg'])) hE ?_
        (Or.inr (by simp [M2.publish]))
      intro g' rest' hrest
      have hch := g.chain
      rw [hs, hrest] at hch
      exact hch.1
    · intro n hn
      by_cases hnf : n = f.name
      · subst hnf
        refine ⟨hf.ent, fun hcf => ?_, fun pt hpt => ?_⟩
        · rw [(initCallbacks_snd sc st f.name).mpr hcf] at hcb; cases hcb
        · obtain ⟨i, hi, hget⟩ := List.getElem_of_mem hpt
          have := hf.before i pt (by omega) (by rw [List.getElem?_eq_getElem hi, hget])
          exact ⟨this.1, fun c' hc' => hE c' (this.2 c' hc')⟩
      · have hn' : st.l1 n ≠ none := by simpa [M2.publish, upd, hnf] using hn
        obtain ⟨h1, h2, h3⟩ := hP.pub n hn'
        exact ⟨h1, h2, fun pt hpt => ⟨(h3 pt hpt).1, fun c' hc' => hE c' ((h3 pt hpt).2 c' hc')⟩⟩

theorem passed_run (sc : Scen) (wf : Lc.WF sc) (k : Nat) : PassedInv sc (run sc k (init sc)) := by
  induction k with
  | zero =>
    intro _
    refine ⟨fun f hf => by simp [run, init] at hf, fun n hn => by simp [run, init] at hn⟩
  | succ k ih =>
    rw [run_succ]
    by_cases hr : (run sc k (init sc)).status = .running
    · exact passed_stepR sc _ _ (good_run sc wf k) ih hr (step_rel sc _ hr)
    · rw [Lc.step_not_running sc _ hr]; exact ih

/-- after a successful start every reachable name is published … -/
theorem done_reach_published (sc : Scen) (wf : Lc.WF sc) (k : Nat) (hd : (run sc k (init sc)).status = .done) (n : Nat)
    (hn : Reach sc n) : (run sc k (init sc)).l1 n ≠ none := by
  have hnf : ¬ Failed (run sc k (init sc)) := fun ⟨x, s, h⟩ => by rw [hd] at h; cases h
  have hP := passed_run sc wf k hnf
  have hq := (Lc.inv_run sc k).quiet (by rw [hd]; intro h; cases h)
  induction hn with
  | root h => exact done_all_published sc k hd _ h
  | cand _ hp hc ih =>
    rcases ((hP.pub _ ih).2.2 _ hp).2 _ hc with h | h
    · simp [Lc.snames, hq] at h
    · exact h

/-- … and has no static fault -/
theorem done_no_fault (sc : Scen) (wf : Lc.WF sc) (k : Nat) (hd : (run sc k (init sc)).status = .done) (n : Nat)
    (hn : Reach sc n) : ¬ StaticFault sc n := by
  have hnf : ¬ Failed (run sc k (init sc)) := fun ⟨x, s, h⟩ => by rw [hd] at h; cases h
  obtain ⟨⟨h1, h2⟩, h3, h4⟩ := (passed_run sc wf k hnf).pub n (done_reach_published sc wf k hd n hn)
  rintro (h | ⟨hw, h⟩ | h | ⟨pt, hpt, h⟩)
  · exact h h1
  · obtain ⟨hc, hp⟩ := h2 hw
    rcases h with h | h
    · rw [hc] at h; cases h
    · exact hp h
  · exact h3 h
  · exact (h4 pt hpt).1 h

end Ioc.M2.Sx
