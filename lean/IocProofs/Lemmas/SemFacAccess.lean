/-
  Semantic theorems for the REGENERATED factory.Default, the accessors of defaultFactory and the ID functions
  (interpretation: Ioc.SemFacAccess).
-/
import Ioc.SemFacAccess
import IocProofs.Lemmas.GoTactics
set_option linter.unusedSimpArgs false
namespace Ioc.Sem
open Ioc Ioc.Go

/-- factory.Default BUILDS the definition registry, the singleton-component registry and the delegate when the factory is
    made (nothing is created later, on first use), and allows circular references -/
theorem facDefault_sem (w : FacObj) :
    run fdPrims Progs.fac_Default [] w =
      some (.tuple [.str "defaultFactory", .str "new definition registry", .str "new singleton component registry",
                    .str "new delegate", .bool true], w) := by
  go_simp [Progs.fac_Default, fdPrims, fdFn, facName]

/-- the accessors read / write exactly the member they name and nothing else -/
theorem facAccessors_sem (w : FacObj) (r c p n : Val) :
    run faPrims Progs.fac_GetDefinitionRegistry [] w = some (w.definitionRegistry, w) ∧
    run faPrims Progs.fac_GetConfigure [] w = some (w.configure, w) ∧
    run faPrims Progs.fac_GetRegisteredComponents [] w = some (w.registeredComponents, w) ∧
    run faPrims Progs.fac_GetDefinitionRegistryPostProcessors [] w = some (w.defPPs, w) ∧
    run faPrims Progs.fac_SetRegistry [r] w = some (.tuple [], { w with singletonRegistry := r }) ∧
    run faPrims Progs.fac_SetConfigure [c] w = some (.tuple [], { w with configure := c }) ∧
    run faPrims Progs.fac_registerBeanPostProcessors [p, n] w = some (.tuple [], { w with beanPPCalls := w.beanPPCalls ++ [(p, n)] }) := by
  refine ⟨?_, ?_, ?_, ?_, ?_, ?_, ?_⟩
  · go_simp [Progs.fac_GetDefinitionRegistry, faPrims, faFn]
  · go_simp [Progs.fac_GetConfigure, faPrims, faFn]
  · go_simp [Progs.fac_GetRegisteredComponents, faPrims, faFn]
  · go_simp [Progs.fac_GetDefinitionRegistryPostProcessors, faPrims, faFn]
  · go_simp [Progs.fac_SetRegistry, faPrims, faFn]
  · go_simp [Progs.fac_SetConfigure, faPrims, faFn]
  · go_simp [Progs.fac_registerBeanPostProcessors, faPrims, faFn]

/-- the IDs: a field's ID contains its HOLDER's ID — which, for a field of an embedded struct, contains the embedding path
    (`….Embed(T)`) — and the field name; a property's ID is the field's ID followed by type, tag and tag text: two same-named
    fields in different embedded structs have different IDs -/
theorem ids_sem (holderID typeName metaID fieldName fieldID info pt tag tagStr : String) (isEmbed : Bool) :
    run (idPrims holderID typeName metaID fieldName fieldID info pt tag tagStr isEmbed) Progs.field_ID [] () =
      some (.str (holderID ++ ".Field(" ++ fieldName ++ ")"), ()) ∧
    run (idPrims holderID typeName metaID fieldName fieldID info pt tag tagStr isEmbed) Progs.holder_ID [] () =
      some (.str (if isEmbed then holderID ++ ".Embed(" ++ typeName ++ ")" else metaID), ()) ∧
    run (idPrims holderID typeName metaID fieldName fieldID info pt tag tagStr isEmbed) Progs.prop_ID [] () =
      some (.str (fieldID ++ info), ()) ∧
    run (idPrims holderID typeName metaID fieldName fieldID info pt tag tagStr isEmbed) Progs.prop_info [] () =
      some (.str (".Type(" ++ pt ++ ").Tag(" ++ tag ++ ":'" ++ tagStr ++ "')"), ()) := by
  refine ⟨?_, ?_, ?_, ?_⟩
  · go_simp [Progs.field_ID, idPrims, idFn]
  · cases isEmbed <;> go_simp [Progs.holder_ID, idPrims, idFn]
  · go_simp [Progs.prop_ID, idPrims, idFn]
  · go_simp [Progs.prop_info, idPrims, idFn]

end Ioc.Sem
