/-
  Totality of the tag grammar: every slice expression of Split / Parse / the prop shorthand is in range.
-/
import IocProofs.Lemmas.Tag
namespace Ioc.Tag
variable {α : Type} [DecidableEq α]

theorem index_bounds (sep : α) (isL isR : α → Bool) (s : List α) :
    index sep isL isR s = -1 ∨ (0 ≤ index sep isL isR s ∧ index sep isL isR s < s.length) := by
  unfold index
  cases hk : idxFrom sep s with
  | none => simp
  | some k =>
    have hlt := idxFrom_lt sep s k hk
    have := loop_bounds sep isL isR s 0 0 k (by simp; omega) (by omega)
    simp at this ⊢
    omega

theorem slice?_some {β : Type} (s : List β) (lo hi : Int) (h : 0 ≤ lo ∧ lo ≤ hi ∧ hi ≤ s.length) :
    slice? s lo hi = some ((s.drop lo.toNat).take (hi.toNat - lo.toNat)) := by
  simp [slice?, h]

theorem splitGo?_eq (sep : α) (isL isR : α → Bool) (k : Nat) (s : List α) :
    splitGo? sep isL isR k s = some (splitGo sep isL isR k s) := by
  induction k generalizing s with
  | zero => simp [splitGo?, splitGo]
  | succ k ih =>
    simp only [splitGo?, splitGo]
    rcases index_bounds sep isL isR s with h | ⟨h0, hlt⟩
    · simp [h]
    · have hneg : ¬ index sep isL isR s < 0 := by omega
      simp only [hneg, if_false]
      rw [slice?_some s 0 _ (by omega), slice?_some s _ _ (by omega)]
      simp only [ih, Option.map_some]
      congr 1
      have h1 : (0 : Int).toNat = 0 := rfl
      have h2 : (index sep isL isR s + 1).toNat = (index sep isL isR s).toNat + 1 := by omega
      have h3 : ((s.length : Int)).toNat = s.length := by simp
      simp only [h1, h2, h3, List.drop_zero, Nat.sub_zero]
      congr 1
      · rw [List.take_of_length_le]; simp

/-- strings2.Split never slices out of range -/
theorem split?_eq (sep : α) (isL isR : α → Bool) (s : List α) :
    split? sep isL isR s = some (split sep isL isR s) := by
  simp [split?, split, splitGo?_eq]

theorem splitGo_ne_nil (sep : α) (isL isR : α → Bool) (k : Nat) (s : List α) :
    splitGo sep isL isR k s ≠ [] := by
  cases k with
  | zero => simp [splitGo]
  | succ k => simp only [splitGo]; split <;> simp

theorem split_ne_nil (sep : α) (isL isR : α → Bool) (s : List α) : split sep isL isR s ≠ [] :=
  splitGo_ne_nil _ _ _ _ _

theorem idxFrom_lt' (sep : α) (l : List α) (k : Nat) (h : idxFrom sep l = some k) : k < l.length :=
  idxFrom_lt sep l k h

theorem parseExp?_total (m : Args) (e : Bytes) : ∃ m', parseExp? m e = some m' := by
  unfold parseExp?
  cases hk : idxFrom cEq e with
  | none => exact ⟨_, rfl⟩
  | some i =>
    have hlt := idxFrom_lt cEq e i hk
    simp only
    rw [slice?_some e 0 i (by omega), slice?_some e (i + 1) e.length (by omega)]
    simp only [split?_eq]
    exact ⟨_, rfl⟩

theorem parseExps?_total (m : Args) (es : List Bytes) : ∃ m', parseExps? m es = some m' := by
  induction es generalizing m with
  | nil => exact ⟨m, rfl⟩
  | cons e es ih =>
    obtain ⟨m1, h1⟩ := parseExp?_total m e
    simp only [parseExps?, h1]
    exact ih m1

theorem parse?_total (tag : Bytes) : ∃ v a, parse? tag = some (v, a) := by
  unfold parse?
  rw [split?_eq]
  cases hs : split cComma isLB isRB tag with
  | nil => exact absurd hs (split_ne_nil _ _ _ _)
  | cons v exps =>
    obtain ⟨a, ha⟩ := parseExps?_total [] exps
    exact ⟨v, a, by simp [ha]⟩

theorem propShorthand?_total (s : Bytes) : ∃ r, propShorthand? s = some r := by
  unfold propShorthand?
  simp only
  split
  · exact ⟨_, rfl⟩
  · rename_i hne
    rcases index_bounds cComma isLB isRB s with h | ⟨h0, hlt⟩
    · exact absurd h hne
    · rw [slice?_some s 0 _ (by omega), slice?_some s _ _ (by omega)]
      exact ⟨_, rfl⟩

end Ioc.Tag
