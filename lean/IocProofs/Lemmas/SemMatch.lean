/-
  The regenerated program of `filterDependencies` (dependency_further_matching_processors.go), run by the MiniGo
  interpreter under the reflection/tag interpretation of Ioc.SemMatch, computes `Sem.filterDeps`, and `Match.narrow`
  (M3) is `filterDeps` followed by the required/optional decision of the per-property loop.
  For every population, holder, kind, tag arguments and candidate list.
-/
import Ioc.SemMatch
import IocProofs.Lemmas.GoTactics
namespace Ioc.Sem
open Ioc Ioc.Go Ioc.Match Ioc.Tag

/-! ### generic loop / filter lemmas -/

/-- the nil filter: keeps the non-nil metas -/
theorem filterM_nonnil {σ : Type} (f : Val → σ → Option (Bool × σ)) (w : σ) (cs : List (Option Nat))
    (hf : ∀ c ∈ cs, f (encOptId c) w = some (c.isSome, w)) :
    filterM f (cs.map encOptId) w = some ((cs.filterMap id).map encId, w) := by
  induction cs with
  | nil => simp [filterM]
  | cons c rest ih =>
    have h1 := hf c (by simp)
    have h2 := ih (fun y hy => hf y (by simp [hy]))
    simp only [List.map_cons, filterM, h1, h2]
    cases c <;> simp [encOptId]

/-- the preference loop: with `candidate` the innermost variable, the loop leaves `chooseGo` in it -/
theorem loopM_choose {σ : Type} (byId : Nat → Option Prov) (f : Nat → Val → Env → σ → Option (Env × σ × Ctl))
    (rest : Env) (w : σ)
    (hf : ∀ i m c, f i (encId m) (("candidate", encId c) :: rest) w =
        match byId m with
        | some p => if p.primary then some (("candidate", encId m) :: rest, w, .brk)
                    else if !p.custom then some (("candidate", encId m) :: rest, w, .norm)
                    else some (("candidate", encId c) :: rest, w, .norm)
        | none => some (("candidate", encId c) :: rest, w, .norm)) :
    ∀ (vs : List Nat) (i c : Nat), loopM f i (vs.map encId) (("candidate", encId c) :: rest) w =
      some (("candidate", encId (chooseGo byId vs c)) :: rest, w, .norm) := by
  intro vs
  induction vs with
  | nil => intro i c; simp [loopM, chooseGo]
  | cons m ms ih =>
    intro i c
    simp only [List.map_cons, loopM, hf, chooseGo]
    cases hb : byId m with
    | none => simp [ih]
    | some p =>
      cases hp : p.primary with
      | true => simp [hp]
      | false =>
        cases hc : p.custom with
        | true => simp [hp, hc, ih]
        | false => simp [hp, hc, ih]

/-! ### `narrow` factors through `filterDeps` -/

theorem narrow_eq_filterDeps (byId : Nat → Option Prov) (holder : Nat) (k : Kind) (args : Args) (cs : List (Option Nat)) :
    narrow byId holder k args cs =
      match filterDeps ⟨byId, holder, k, args⟩ cs with
      | some l => .ok l
      | none => if isRequired args then .fail else .skip := by
  have core : ∀ r2 : List Nat,
      (if r2.isEmpty then (if isRequired args then Narrowed.fail else Narrowed.skip)
       else if r2.length > 1 && k.isSingle then
         (match choose byId (if (r2.filter (· != holder)).isEmpty then r2 else r2.filter (· != holder)) with
          | some c => Narrowed.ok [c]
          | none => Narrowed.ok (if (r2.filter (· != holder)).isEmpty then r2 else r2.filter (· != holder)))
       else Narrowed.ok r2) =
      (match (if r2.isEmpty then none
              else if r2.length > 1 && k.isSingle then
                (match choose byId (if (r2.filter (· != holder)).isEmpty then r2 else r2.filter (· != holder)) with
                 | some x => some [x]
                 | none => some (if (r2.filter (· != holder)).isEmpty then r2 else r2.filter (· != holder)))
              else some r2 : Option (List Nat)) with
       | some l => Narrowed.ok l
       | none => if isRequired args then Narrowed.fail else Narrowed.skip) := by
    intro r2
    by_cases h2 : r2.isEmpty
    · simp [h2]
    · simp only [h2, if_false, Bool.false_eq_true]
      by_cases h3 : (decide (r2.length > 1) && k.isSingle) = true
      · simp only [h3, if_true]
        cases choose byId (if (r2.filter (· != holder)).isEmpty then r2 else r2.filter (· != holder)) <;> rfl
      · simp [h3]
  unfold narrow filterDeps
  by_cases h1 : (cs.filterMap id).isEmpty
  · simp [h1]
  · simp only [h1, if_false, Bool.false_eq_true]
    cases hfind : find args kQualifier with
    | none => exact core _
    | some v => exact core _


/-! ### the program, statement by statement -/


def fdStmt (i : Nat) : Stmt := Progs.filterDependencies.body.getD i .brk

theorem fd_body : Progs.filterDependencies.body = [fdStmt 0, fdStmt 1, fdStmt 2, fdStmt 3, fdStmt 4] := rfl
theorem fd_params : Progs.filterDependencies.params = ["n", "metas"] := rfl

def env0 (cs : List (Option Nat)) : Env := [("n", .ref 0 1), ("metas", .list (cs.map encOptId))]
def envR (r : List Nat) (cs : List (Option Nat)) : Env := ("result", .list (r.map encId)) :: env0 cs

theorem fd_s0 (c : FDCtx) (cs : List (Option Nat)) :
    evalS (fdPrims c) (env0 cs) () (fdStmt 0) = some (envR (cs.filterMap id) cs, (), .norm) := by
  simp only [fdStmt, Progs.filterDependencies, List.getD_cons_zero, evalS, evalE, env0, Env.get, if_true, String.reduceEq, if_false, Option.map]
  rw [filterM_nonnil _ () cs (by
    intro x hx
    cases x <;> go_simp [encOptId, encId])]
  simp [bindVals, Env.def, envR, env0]


theorem fd_s1 (c : FDCtx) (cs : List (Option Nat)) (r : List Nat) :
    evalS (fdPrims c) (envR r cs) () (fdStmt 1) =
      if r.isEmpty then some (envR r cs, (), .ret (.tuple [.nil, errV])) else some (envR r cs, (), .norm) := by
  cases r with
  | nil => go_simp [fdStmt, Progs.filterDependencies, envR, env0, fdPrims, fdFn]
  | cons a t =>
    go_simp [fdStmt, Progs.filterDependencies, envR, env0, fdPrims, fdFn]



@[simp] theorem fdFn_args (c : FDCtx) : fdFn c ".Args" [.ref 0 1] () = some (.ref 0 2, ()) := rfl
@[simp] theorem fdFn_argq (c : FDCtx) : fdFn c "$component_definition.ArgQualifier" [] () = some (.str "Qualifier", ()) := rfl
@[simp] theorem fdFn_find (c : FDCtx) : fdFn c ".Find" [.ref 0 2, .str "Qualifier"] () =
    some (.tuple [.ref 0 10, .bool (find c.args kQualifier).isSome], ()) := rfl
@[simp] theorem fdFn_errorf (c : FDCtx) (vs : List Val) : fdFn c "errors.Errorf" vs () = some (errV, ()) := by
  unfold fdFn; split <;> simp_all

theorem fd_s2 (c : FDCtx) (cs : List (Option Nat)) (r : List Nat) :
    evalS (fdPrims c) (envR r cs) () (fdStmt 2) =
      match find c.args kQualifier with
      | none => some (envR r cs, (), .norm)
      | some _ =>
        if (r.filter (qualOk c)).isEmpty then some (envR (r.filter (qualOk c)) cs, (), .ret (.tuple [.nil, errV]))
        else some (envR (r.filter (qualOk c)) cs, (), .norm) := by
  cases hq : find c.args kQualifier with
  | none => go_simp [fdStmt, Progs.filterDependencies, envR, env0, fdPrims, hq]
  | some v =>
    simp only [fdStmt, Progs.filterDependencies, List.getD_cons_succ, List.getD_cons_zero, evalS, evalB, evalE, evalEs, envR, env0, Env.get, Env.def, bindVals, fdPrims,
      fdFn_args, fdFn_argq, fdFn_find, hq,
      if_true, String.reduceEq, if_false, Option.map, Option.isSome, String.reduceAppend, List.length_cons, List.length_nil, List.zip_cons_cons, List.zip_nil_right, List.foldl_cons, List.foldl_nil, ite_true]
    rw [filterM_pure encId _ (qualOk c) () r (by
      intro x hx
      simp only [encId]
      cases hb : c.byId x with
      | none => go_simp [fdFn, qualOk, provQual, hb]
      | some p =>
        cases hpq : p.qual with
        | none => go_simp [fdFn, qualOk, provQual, hb, hpq]
        | some q => go_simp [fdFn, qualOk, provQual, hb, hpq])]
    cases hr : r.filter (qualOk c) with
    | nil => go_simp [hr]
    | cons a t => go_simp [hr]

@[simp] theorem fdFn_type (c : FDCtx) : fdFn c ".Type" [.ref 0 1] () = some (.ref 0 5, ()) := rfl
@[simp] theorem fdFn_kind (c : FDCtx) : fdFn c ".Kind" [.ref 0 5] () = some (.int (if c.kind.isSlice then 23 else 22), ()) := rfl
@[simp] theorem fdFn_slice (c : FDCtx) : fdFn c "$reflect.Slice" [] () = some (.int 23, ()) := rfl
@[simp] theorem fdFn_array (c : FDCtx) : fdFn c "$reflect.Array" [] () = some (.int 17, ()) := rfl
@[simp] theorem fdFn_holder (c : FDCtx) : fdFn c ".Holder" [.ref 0 1] () = some (.ref 0 8, ()) := rfl
@[simp] theorem fdFn_meta (c : FDCtx) : fdFn c ".Meta" [.ref 0 8] () = some (.ref 0 9, ()) := rfl
@[simp] theorem fdFn_isSelf (c : FDCtx) (i : Nat) : fdFn c ".IsSelf" [.ref 0 9, .ref i 0] () = some (.bool (i == c.holder), ()) := rfl
@[simp] theorem fdFn_mtype (c : FDCtx) (i : Nat) : fdFn c ".Type" [.ref i 0] () = some (.ref i 6, ()) := by
  unfold fdFn; split <;> simp_all
@[simp] theorem fdFn_primaryI (c : FDCtx) : fdFn c "$primaryInterface" [] () = some (.ref 0 7, ()) := rfl
@[simp] theorem fdFn_impl (c : FDCtx) (i : Nat) : fdFn c "reflectx.IsTypeImplement" [.ref i 6, .ref 0 7] () = some (.bool (provPrimary c i), ()) := rfl
@[simp] theorem fdFn_isAlias (c : FDCtx) (i : Nat) : fdFn c ".IsAlias" [.ref i 0] () = some (.bool (provCustom c i), ()) := rfl

def fdR3 (c : FDCtx) (r : List Nat) : List Nat :=
  if (r.filter (· != c.holder)).isEmpty then r else r.filter (· != c.holder)

def fdThen (i : Nat) : Stmt :=
  match fdStmt 3 with
  | .ifs _ _ thn _ => thn.getD i .brk
  | _ => .brk

theorem fd_t0 (c : FDCtx) (cs : List (Option Nat)) (r : List Nat) :
    evalS (fdPrims c) (envR r cs) () (fdThen 0) = some (envR (fdR3 c r) cs, (), .norm) := by
  simp only [fdThen, fdStmt, Progs.filterDependencies, List.getD_cons_succ, List.getD_cons_zero, evalS, evalB]
  rw [evalE_filter_pure (fdPrims c) (envR r cs) () _ _ _ encId r (· != c.holder)
    (by go_simp [envR]) (by
      intro x hx
      go_simp [fdPrims, envR, env0, encId]
      cases h : x == c.holder <;> simp [bne, h])]
  cases ho : r.filter (· != c.holder) with
  | nil => go_simp [envR, env0, fdR3, ho]
  | cons a t => go_simp [envR, env0, fdR3, ho]

theorem fd_t1 (c : FDCtx) (cs : List (Option Nat)) (m : Nat) (rest : List Nat) :
    evalS (fdPrims c) (envR (m :: rest) cs) () (fdThen 1) = some (("candidate", encId m) :: envR (m :: rest) cs, (), .norm) := by
  go_simp [fdThen, fdStmt, Progs.filterDependencies, envR, env0]

theorem fd_t3 (c : FDCtx) (cs : List (Option Nat)) (x : Nat) (r : List Nat) :
    evalS (fdPrims c) (("candidate", encId x) :: envR r cs) () (fdThen 3) =
      some (("candidate", encId x) :: envR [x] cs, (), .norm) := by
  go_simp [fdThen, fdStmt, Progs.filterDependencies, envR, env0]

theorem fd_t2 (c : FDCtx) (cs : List (Option Nat)) (m0 : Nat) (r : List Nat) :
    evalS (fdPrims c) (("candidate", encId m0) :: envR r cs) () (fdThen 2) =
      some (("candidate", encId (chooseGo c.byId r m0)) :: envR r cs, (), .norm) := by
  simp only [fdThen, fdStmt, Progs.filterDependencies, List.getD_cons_succ, List.getD_cons_zero, evalS]
  have hcoll : evalE (fdPrims c) (("candidate", encId m0) :: envR r cs) () (.var "result") = some (.list (r.map encId), ()) := by
    go_simp [envR]
  rw [hcoll]
  simp only []
  rw [loopM_choose c.byId _ (envR r cs) () (by
    intro i m cand
    cases hb : c.byId m with
    | none => go_simp [fdPrims, provPrimary, provCustom, envR, env0, encId, hb]
    | some p =>
      cases hp : p.primary with
      | true => go_simp [fdPrims, provPrimary, provCustom, envR, env0, encId, hb, hp]
      | false =>
        cases hc : p.custom with
        | true => go_simp [fdPrims, provPrimary, provCustom, envR, env0, encId, hb, hp, hc]
        | false => go_simp [fdPrims, provPrimary, provCustom, envR, env0, encId, hb, hp, hc])]

def fdCond : Expr :=
  match fdStmt 3 with
  | .ifs _ c _ _ => c
  | _ => .nil

theorem fd_s3_shape : fdStmt 3 = .ifs [] fdCond [fdThen 0, fdThen 1, fdThen 2, fdThen 3] [] := rfl

theorem fd_cond (c : FDCtx) (cs : List (Option Nat)) (r : List Nat) :
    evalE (fdPrims c) (envR r cs) () fdCond = some (.bool (decide (r.length > 1) && c.kind.isSingle), ()) := by
  by_cases hlen : r.length > 1
  · have hdec : decide ((r.length : Int) > 1) = true := by simp; omega
    cases hk : c.kind.isSlice <;>
      go_simp [fdCond, fdStmt, Progs.filterDependencies, envR, env0, fdPrims, hdec, hk, Kind.isSingle, hlen]
  · have hdec : decide ((r.length : Int) > 1) = false := by simp; omega
    go_simp [fdCond, fdStmt, Progs.filterDependencies, envR, env0, fdPrims, hdec, hlen]

theorem fd_s3 (c : FDCtx) (cs : List (Option Nat)) (r : List Nat) :
    evalS (fdPrims c) (envR r cs) () (fdStmt 3) =
      some (envR (if r.length > 1 && c.kind.isSingle then
                    (match choose c.byId (fdR3 c r) with | some x => [x] | none => fdR3 c r) else r) cs, (), .norm) := by
  rw [fd_s3_shape]
  simp only [evalS, evalB, fd_cond]
  cases hcond : (decide (r.length > 1) && c.kind.isSingle) with
  | false => simp [Env.leave, hcond]
  | true =>
    have hlen : r.length > 1 := by simp at hcond; exact hcond.1
    have hne : fdR3 c r ≠ [] := by
      unfold fdR3; split
      · intro h; simp [h] at hlen
      · rename_i h; simpa using h
    obtain ⟨m, rest, hr3⟩ : ∃ m rest, fdR3 c r = m :: rest := by
      cases h : fdR3 c r with
      | nil => exact absurd h hne
      | cons m rest => exact ⟨m, rest, rfl⟩
    simp only [fd_t0, hr3, fd_t1, fd_t2, fd_t3, choose]
    simp [Env.leave, envR, env0]

theorem fd_s4 (c : FDCtx) (cs : List (Option Nat)) (r : List Nat) :
    evalS (fdPrims c) (envR r cs) () (fdStmt 4) = some (envR r cs, (), .ret (.tuple [.list (r.map encId), .nil])) := by
  go_simp [fdStmt, Progs.filterDependencies, envR, env0]

theorem fd_tail (c : FDCtx) (cs : List (Option Nat)) (r2 : List Nat) (h2 : r2.isEmpty = false) :
    evalB (fdPrims c) (envR r2 cs) () [fdStmt 3, fdStmt 4] =
      some (envR (if r2.length > 1 && c.kind.isSingle then
                    (match choose c.byId (fdR3 c r2) with | some x => [x] | none => fdR3 c r2) else r2) cs, (),
            .ret (.tuple [.list ((if r2.length > 1 && c.kind.isSingle then
                    (match choose c.byId (fdR3 c r2) with | some x => [x] | none => fdR3 c r2) else r2).map encId), .nil])) := by
  rw [evalB_cons, fd_s3]
  simp only []
  rw [evalB_cons, fd_s4]

/-- the regenerated program of filterDependencies computes `filterDeps` -/
theorem filterDependencies_sem (c : FDCtx) (cs : List (Option Nat)) :
    run (fdPrims c) Progs.filterDependencies [.ref 0 1, .list (cs.map encOptId)] () = some (encFD (filterDeps c cs), ()) := by
  simp only [run, fd_params, fd_body, List.length_cons, List.length_nil, if_true, List.zip_cons_cons, List.zip_nil_right]
  rw [show ([("n", Val.ref 0 1), ("metas", Val.list (List.map encOptId cs))] : Env) = env0 cs from rfl]
  rw [evalB_cons, fd_s0]
  simp only []
  rw [evalB_cons, fd_s1]
  unfold filterDeps
  dsimp only
  cases h1 : (cs.filterMap id).isEmpty with
  | true => simp [encFD]
  | false =>
    simp only [h1, if_false, Bool.false_eq_true]
    rw [evalB_cons, fd_s2]
    cases hq : find c.args kQualifier with
    | none =>
      simp only []
      rw [fd_tail c cs _ h1]
      simp only [fdR3]
      by_cases h3 : (decide ((cs.filterMap id).length > 1) && c.kind.isSingle) = true
      · simp only [h3, if_true]
        cases choose c.byId _ <;> simp [h1, encFD]
      · simp [h1, h3, encFD]
    | some v =>
      simp only []
      cases h2 : ((cs.filterMap id).filter (qualOk c)).isEmpty with
      | true => simp [encFD]
      | false =>
        simp only [h2, if_false, Bool.false_eq_true]
        rw [fd_tail c cs _ h2]
        simp only [fdR3]
        by_cases h3 : (decide (((cs.filterMap id).filter (qualOk c)).length > 1) && c.kind.isSingle) = true
        · simp only [h3, if_true]
          cases choose c.byId _ <;> simp [encFD]
        · simp [h3, encFD]

end Ioc.Sem
